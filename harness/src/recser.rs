// a recording Serializer: accepts only what the TwoFloat Serialize impl is expected to emit
// (a struct with f64 fields) and writes it down; anything else is reported as `unexpected`.
use serde::ser::{self, Impossible, Serialize, SerializeStruct};
use std::fmt;

#[derive(Debug)]
pub struct E(String);
impl fmt::Display for E { fn fmt(&self, f: &mut fmt::Formatter) -> fmt::Result { write!(f, "{}", self.0) } }
impl std::error::Error for E {}
impl ser::Error for E { fn custom<T: fmt::Display>(m: T) -> Self { E(m.to_string()) } }

pub struct Rec;
pub struct RecStruct { out: String, declared: usize, seen: usize }

struct F64Only;
macro_rules! reject { ($($m:ident($t:ty)),*) => { $(fn $m(self, _v: $t) -> Result<String, E> { Err(E("unexpected".into())) })* } }
impl ser::Serializer for F64Only {
    type Ok = String; type Error = E;
    type SerializeSeq = Impossible<String, E>; type SerializeTuple = Impossible<String, E>;
    type SerializeTupleStruct = Impossible<String, E>; type SerializeTupleVariant = Impossible<String, E>;
    type SerializeMap = Impossible<String, E>; type SerializeStruct = Impossible<String, E>;
    type SerializeStructVariant = Impossible<String, E>;
    fn serialize_f64(self, v: f64) -> Result<String, E> { Ok(if v.is_nan() { "7ff8000000000000".into() } else { format!("{:016x}", v.to_bits()) }) }
    reject!(serialize_bool(bool), serialize_i8(i8), serialize_i16(i16), serialize_i32(i32), serialize_i64(i64), serialize_u8(u8), serialize_u16(u16),
            serialize_u32(u32), serialize_u64(u64), serialize_f32(f32), serialize_char(char), serialize_str(&str), serialize_bytes(&[u8]));
    fn serialize_none(self) -> Result<String, E> { Err(E("unexpected".into())) }
    fn serialize_some<T: ?Sized + Serialize>(self, _v: &T) -> Result<String, E> { Err(E("unexpected".into())) }
    fn serialize_unit(self) -> Result<String, E> { Err(E("unexpected".into())) }
    fn serialize_unit_struct(self, _n: &'static str) -> Result<String, E> { Err(E("unexpected".into())) }
    fn serialize_unit_variant(self, _n: &'static str, _i: u32, _v: &'static str) -> Result<String, E> { Err(E("unexpected".into())) }
    fn serialize_newtype_struct<T: ?Sized + Serialize>(self, _n: &'static str, _v: &T) -> Result<String, E> { Err(E("unexpected".into())) }
    fn serialize_newtype_variant<T: ?Sized + Serialize>(self, _n: &'static str, _i: u32, _v: &'static str, _x: &T) -> Result<String, E> { Err(E("unexpected".into())) }
    fn serialize_seq(self, _l: Option<usize>) -> Result<Self::SerializeSeq, E> { Err(E("unexpected".into())) }
    fn serialize_tuple(self, _l: usize) -> Result<Self::SerializeTuple, E> { Err(E("unexpected".into())) }
    fn serialize_tuple_struct(self, _n: &'static str, _l: usize) -> Result<Self::SerializeTupleStruct, E> { Err(E("unexpected".into())) }
    fn serialize_tuple_variant(self, _n: &'static str, _i: u32, _v: &'static str, _l: usize) -> Result<Self::SerializeTupleVariant, E> { Err(E("unexpected".into())) }
    fn serialize_map(self, _l: Option<usize>) -> Result<Self::SerializeMap, E> { Err(E("unexpected".into())) }
    fn serialize_struct(self, _n: &'static str, _l: usize) -> Result<Self::SerializeStruct, E> { Err(E("unexpected".into())) }
    fn serialize_struct_variant(self, _n: &'static str, _i: u32, _v: &'static str, _l: usize) -> Result<Self::SerializeStructVariant, E> { Err(E("unexpected".into())) }
}

impl ser::Serializer for Rec {
    type Ok = String; type Error = E;
    type SerializeSeq = Impossible<String, E>; type SerializeTuple = Impossible<String, E>;
    type SerializeTupleStruct = Impossible<String, E>; type SerializeTupleVariant = Impossible<String, E>;
    type SerializeMap = Impossible<String, E>; type SerializeStruct = RecStruct;
    type SerializeStructVariant = Impossible<String, E>;
    reject!(serialize_bool(bool), serialize_i8(i8), serialize_i16(i16), serialize_i32(i32), serialize_i64(i64), serialize_u8(u8), serialize_u16(u16),
            serialize_u32(u32), serialize_u64(u64), serialize_f32(f32), serialize_f64(f64), serialize_char(char), serialize_str(&str), serialize_bytes(&[u8]));
    fn serialize_none(self) -> Result<String, E> { Err(E("unexpected".into())) }
    fn serialize_some<T: ?Sized + Serialize>(self, _v: &T) -> Result<String, E> { Err(E("unexpected".into())) }
    fn serialize_unit(self) -> Result<String, E> { Err(E("unexpected".into())) }
    fn serialize_unit_struct(self, _n: &'static str) -> Result<String, E> { Err(E("unexpected".into())) }
    fn serialize_unit_variant(self, _n: &'static str, _i: u32, _v: &'static str) -> Result<String, E> { Err(E("unexpected".into())) }
    fn serialize_newtype_struct<T: ?Sized + Serialize>(self, _n: &'static str, _v: &T) -> Result<String, E> { Err(E("unexpected".into())) }
    fn serialize_newtype_variant<T: ?Sized + Serialize>(self, _n: &'static str, _i: u32, _v: &'static str, _x: &T) -> Result<String, E> { Err(E("unexpected".into())) }
    fn serialize_seq(self, _l: Option<usize>) -> Result<Self::SerializeSeq, E> { Err(E("unexpected".into())) }
    fn serialize_tuple(self, _l: usize) -> Result<Self::SerializeTuple, E> { Err(E("unexpected".into())) }
    fn serialize_tuple_struct(self, _n: &'static str, _l: usize) -> Result<Self::SerializeTupleStruct, E> { Err(E("unexpected".into())) }
    fn serialize_tuple_variant(self, _n: &'static str, _i: u32, _v: &'static str, _l: usize) -> Result<Self::SerializeTupleVariant, E> { Err(E("unexpected".into())) }
    fn serialize_map(self, _l: Option<usize>) -> Result<Self::SerializeMap, E> { Err(E("unexpected".into())) }
    fn serialize_struct(self, n: &'static str, l: usize) -> Result<RecStruct, E> { Ok(RecStruct { out: format!("struct {} {}", n, l), declared: l, seen: 0 }) }
    fn serialize_struct_variant(self, _n: &'static str, _i: u32, _v: &'static str, _l: usize) -> Result<Self::SerializeStructVariant, E> { Err(E("unexpected".into())) }
}

impl SerializeStruct for RecStruct {
    type Ok = String; type Error = E;
    fn serialize_field<T: ?Sized + Serialize>(&mut self, key: &'static str, value: &T) -> Result<(), E> {
        let v = value.serialize(F64Only)?;
        self.out += &format!(" {}={}", key, v);
        self.seen += 1;
        Ok(())
    }
    fn end(self) -> Result<String, E> {
        if self.seen != self.declared { return Err(E("field count mismatch".into())); }
        Ok(self.out)
    }
}

pub fn record<T: Serialize>(t: &T) -> String {
    match t.serialize(Rec) { Ok(s) => s, Err(e) => format!("Err({})", e) }
}
