// Hand-written entry points that the generated dispatch table does not cover
// (generic code, formatting, serde).
#![allow(unused)]
use super::*;

pub fn run(op: &str, a: &[&str]) -> Option<String> {
    match op {
        // Iterator::sum over TwoFloat items / f64 items (by value): `sum_tf k h l h l ...`, `sum_f64 k x x ...`
        "sum_tf" => {
            let k: usize = a.get(0)?.parse().ok()?;
            if a.len() < 1 + 2 * k { return None; }
            let v: Vec<TwoFloat> = (0..k).map(|i| rd_tf(a[1 + 2 * i], a[2 + 2 * i])).collect();
            let s: TwoFloat = v.into_iter().sum();
            Some(wr_tf(s))
        }
        "sum_f64" => {
            let k: usize = a.get(0)?.parse().ok()?;
            if a.len() < 1 + k { return None; }
            let v: Vec<f64> = (0..k).map(|i| rd_f64(a[1 + i])).collect();
            let s: TwoFloat = v.into_iter().sum();
            Some(wr_tf(s))
        }
        // the explicit left fold with `+` from zero that Iterator::sum must equal
        "fold_tf" => {
            let k: usize = a.get(0)?.parse().ok()?;
            if a.len() < 1 + 2 * k { return None; }
            let mut acc = <TwoFloat as num_traits::Zero>::zero();
            for i in 0..k { acc = acc + rd_tf(a[1 + 2 * i], a[2 + 2 * i]); }
            Some(wr_tf(acc))
        }
        "fold_f64" => {
            let k: usize = a.get(0)?.parse().ok()?;
            if a.len() < 1 + k { return None; }
            let mut acc = <TwoFloat as num_traits::Zero>::zero();
            for i in 0..k { acc = acc + rd_f64(a[1 + i]); }
            Some(wr_tf(acc))
        }
        _ => None,
    }
}
