// Hand-written entry points that the generated dispatch table does not cover
// (generic code, formatting, serde).
#![allow(unused)]
use super::*;

pub fn run(op: &str, a: &[&str]) -> Option<String> {
    match op {
        // Iterator::sum over TwoFloat items / f64 items (by value): `sum_tf k h l h l ...`, `sum_f64 k x x ...`
        "sum_tf" => {
            let k: usize = a.get(0)?.parse().ok()?;
            if a.len() < 1 + 2 * k { return None; }
            let v: Vec<TwoFloat> = (0..k).map(|i| rd_tf(a[1 + 2 * i], a[2 + 2 * i])).collect();
            let s: TwoFloat = v.into_iter().sum();
            Some(wr_tf(s))
        }
        "sum_f64" => {
            let k: usize = a.get(0)?.parse().ok()?;
            if a.len() < 1 + k { return None; }
            let v: Vec<f64> = (0..k).map(|i| rd_f64(a[1 + i])).collect();
            let s: TwoFloat = v.into_iter().sum();
            Some(wr_tf(s))
        }
        // the explicit left fold with `+` from zero that Iterator::sum must equal
        "fold_tf" => {
            let k: usize = a.get(0)?.parse().ok()?;
            if a.len() < 1 + 2 * k { return None; }
            let mut acc = <TwoFloat as num_traits::Zero>::zero();
            for i in 0..k { acc = acc + rd_tf(a[1 + 2 * i], a[2 + 2 * i]); }
            Some(wr_tf(acc))
        }
        "fold_f64" => {
            let k: usize = a.get(0)?.parse().ok()?;
            if a.len() < 1 + k { return None; }
            let mut acc = <TwoFloat as num_traits::Zero>::zero();
            for i in 0..k { acc = acc + rd_f64(a[1 + i]); }
            Some(wr_tf(acc))
        }
        // formatting: `fmt <d|e|E> <plus 0|1> <prec -1|p> hi lo`  and the renderer of a single f64: `render <d|e|E> <plus> <prec> x`
        "fmt" => {
            if a.len() < 5 { return None; }
            let t = rd_tf(a[3], a[4]);
            let p: i64 = a[2].parse().ok()?;
            Some(format!("\"{}\"", fmt_any(a[0], a[1] == "1", p, Val::T(t))))
        }
        "render" => {
            if a.len() < 4 { return None; }
            let p: i64 = a[2].parse().ok()?;
            let x = rd_f64(a[3]);
            let s = fmt_any(a[0], a[1] == "1", p, Val::F(x));
            // parse-back of the numeral (f64 parsing)
            let back = s.parse::<f64>().map(wr_f64).unwrap_or_else(|_| "unparsable".into());
            Some(format!("\"{}\" {}", s, back))
        }
        _ => numcast_ops(op, a).or_else(|| trait_ops(op, a)).or_else(|| serde_ops(op, a)),
    }
}

/// the generic `<TwoFloat as NumCast>::from(n)`, instantiated at every primitive numeric type: `numcast.<type> n`
/// (integers in decimal, floats as bit patterns)
fn numcast_ops(op: &str, a: &[&str]) -> Option<String> {
    use num_traits::NumCast;
    let s = *a.get(0)?;
    macro_rules! nc { ($t:ty) => { wr_opttf(<TwoFloat as NumCast>::from(rd_int::<$t>(s)?)) } }
    Some(match op {
        "numcast.i8" => nc!(i8),
        "numcast.i16" => nc!(i16),
        "numcast.i32" => nc!(i32),
        "numcast.i64" => nc!(i64),
        "numcast.i128" => nc!(i128),
        "numcast.isize" => nc!(isize),
        "numcast.u8" => nc!(u8),
        "numcast.u16" => nc!(u16),
        "numcast.u32" => nc!(u32),
        "numcast.u64" => nc!(u64),
        "numcast.u128" => nc!(u128),
        "numcast.usize" => nc!(usize),
        "numcast.f64" => wr_opttf(<TwoFloat as NumCast>::from(rd_f64(s))),
        "numcast.f32" => wr_opttf(<TwoFloat as NumCast>::from(rd_f32(s))),
        _ => return None,
    })
}

/// num_traits entry points called through the trait whether or not the crate overrides the provided method
/// (a deleted override silently falls back to num_traits' default body): `tr.<Trait>.<method> args`
fn trait_ops(op: &str, a: &[&str]) -> Option<String> {
    use num_traits::float::FloatCore;
    use num_traits::Float;
    let t1 = |i: usize| -> Option<TwoFloat> { if a.len() >= i + 2 { Some(rd_tf(a[i], a[i + 1])) } else { None } };
    Some(match op {
        "tr.FloatCore.min" => wr_tf(FloatCore::min(t1(0)?, t1(2)?)),
        "tr.FloatCore.max" => wr_tf(FloatCore::max(t1(0)?, t1(2)?)),
        "tr.FloatCore.recip" => wr_tf(FloatCore::recip(t1(0)?)),
        "tr.FloatCore.powi" => wr_tf(FloatCore::powi(t1(0)?, a.get(2)?.parse::<i32>().ok()?)),
        "tr.FloatCore.to_degrees" => wr_tf(FloatCore::to_degrees(t1(0)?)),
        "tr.FloatCore.to_radians" => wr_tf(FloatCore::to_radians(t1(0)?)),
        "tr.FloatCore.abs" => wr_tf(FloatCore::abs(t1(0)?)),
        "tr.FloatCore.signum" => wr_tf(FloatCore::signum(t1(0)?)),
        "tr.FloatCore.floor" => wr_tf(FloatCore::floor(t1(0)?)),
        "tr.FloatCore.ceil" => wr_tf(FloatCore::ceil(t1(0)?)),
        "tr.FloatCore.round" => wr_tf(FloatCore::round(t1(0)?)),
        "tr.FloatCore.trunc" => wr_tf(FloatCore::trunc(t1(0)?)),
        "tr.FloatCore.fract" => wr_tf(FloatCore::fract(t1(0)?)),
        "tr.FloatCore.is_sign_positive" => wr_bool(FloatCore::is_sign_positive(t1(0)?)),
        "tr.FloatCore.is_sign_negative" => wr_bool(FloatCore::is_sign_negative(t1(0)?)),
        "tr.Float.min" => wr_tf(Float::min(t1(0)?, t1(2)?)),
        "tr.Float.max" => wr_tf(Float::max(t1(0)?, t1(2)?)),
        "tr.Float.to_degrees" => wr_tf(Float::to_degrees(t1(0)?)),
        "tr.Float.to_radians" => wr_tf(Float::to_radians(t1(0)?)),
        "tr.Float.abs" => wr_tf(Float::abs(t1(0)?)),
        "tr.Float.signum" => wr_tf(Float::signum(t1(0)?)),
        "tr.Float.recip" => wr_tf(Float::recip(t1(0)?)),
        "tr.Float.copysign" => wr_tf(Float::copysign(t1(0)?, t1(2)?)),
        // ToPrimitive through the trait: a deleted override falls back to num_traits' provided body (to_i128 via to_i64, ...)
        "tr.ToPrimitive.to_i8" => wr_optint(num_traits::ToPrimitive::to_i8(&t1(0)?)),
        "tr.ToPrimitive.to_i16" => wr_optint(num_traits::ToPrimitive::to_i16(&t1(0)?)),
        "tr.ToPrimitive.to_i32" => wr_optint(num_traits::ToPrimitive::to_i32(&t1(0)?)),
        "tr.ToPrimitive.to_i64" => wr_optint(num_traits::ToPrimitive::to_i64(&t1(0)?)),
        "tr.ToPrimitive.to_i128" => wr_optint(num_traits::ToPrimitive::to_i128(&t1(0)?)),
        "tr.ToPrimitive.to_isize" => wr_optint(num_traits::ToPrimitive::to_isize(&t1(0)?)),
        "tr.ToPrimitive.to_u8" => wr_optint(num_traits::ToPrimitive::to_u8(&t1(0)?)),
        "tr.ToPrimitive.to_u16" => wr_optint(num_traits::ToPrimitive::to_u16(&t1(0)?)),
        "tr.ToPrimitive.to_u32" => wr_optint(num_traits::ToPrimitive::to_u32(&t1(0)?)),
        "tr.ToPrimitive.to_u64" => wr_optint(num_traits::ToPrimitive::to_u64(&t1(0)?)),
        "tr.ToPrimitive.to_u128" => wr_optint(num_traits::ToPrimitive::to_u128(&t1(0)?)),
        "tr.ToPrimitive.to_usize" => wr_optint(num_traits::ToPrimitive::to_usize(&t1(0)?)),
        "tr.ToPrimitive.to_f64" => wr_optf64(num_traits::ToPrimitive::to_f64(&t1(0)?)),
        "tr.ToPrimitive.to_f32" => wr_optf32(num_traits::ToPrimitive::to_f32(&t1(0)?)),
        // FromPrimitive through the trait (provided defaults: from_i128 via from_i64, from_f32 via from_f64, ...)
        "tr.FromPrimitive.from_i8" => wr_opttf(<TwoFloat as num_traits::FromPrimitive>::from_i8(rd_int::<i8>(a.get(0)?)?)),
        "tr.FromPrimitive.from_i16" => wr_opttf(<TwoFloat as num_traits::FromPrimitive>::from_i16(rd_int::<i16>(a.get(0)?)?)),
        "tr.FromPrimitive.from_i32" => wr_opttf(<TwoFloat as num_traits::FromPrimitive>::from_i32(rd_int::<i32>(a.get(0)?)?)),
        "tr.FromPrimitive.from_i64" => wr_opttf(<TwoFloat as num_traits::FromPrimitive>::from_i64(rd_int::<i64>(a.get(0)?)?)),
        "tr.FromPrimitive.from_i128" => wr_opttf(<TwoFloat as num_traits::FromPrimitive>::from_i128(rd_int::<i128>(a.get(0)?)?)),
        "tr.FromPrimitive.from_u8" => wr_opttf(<TwoFloat as num_traits::FromPrimitive>::from_u8(rd_int::<u8>(a.get(0)?)?)),
        "tr.FromPrimitive.from_u16" => wr_opttf(<TwoFloat as num_traits::FromPrimitive>::from_u16(rd_int::<u16>(a.get(0)?)?)),
        "tr.FromPrimitive.from_u32" => wr_opttf(<TwoFloat as num_traits::FromPrimitive>::from_u32(rd_int::<u32>(a.get(0)?)?)),
        "tr.FromPrimitive.from_u64" => wr_opttf(<TwoFloat as num_traits::FromPrimitive>::from_u64(rd_int::<u64>(a.get(0)?)?)),
        "tr.FromPrimitive.from_u128" => wr_opttf(<TwoFloat as num_traits::FromPrimitive>::from_u128(rd_int::<u128>(a.get(0)?)?)),
        "tr.FromPrimitive.from_f64" => wr_opttf(<TwoFloat as num_traits::FromPrimitive>::from_f64(rd_f64(a.get(0)?))),
        "tr.FromPrimitive.from_f32" => wr_opttf(<TwoFloat as num_traits::FromPrimitive>::from_f32(rd_f32(a.get(0)?))),
        // the same for the integer-typed NumCast route out of TwoFloat: <iN as NumCast>::from(x) = x.to_iN()
        "tr.NumCast.i64" => wr_optint(<i64 as num_traits::NumCast>::from(t1(0)?)),
        "tr.NumCast.u64" => wr_optint(<u64 as num_traits::NumCast>::from(t1(0)?)),
        "tr.NumCast.i128" => wr_optint(<i128 as num_traits::NumCast>::from(t1(0)?)),
        "tr.NumCast.u128" => wr_optint(<u128 as num_traits::NumCast>::from(t1(0)?)),
        "tr.NumCast.i32" => wr_optint(<i32 as num_traits::NumCast>::from(t1(0)?)),
        "tr.NumCast.u8" => wr_optint(<u8 as num_traits::NumCast>::from(t1(0)?)),
        "tr.FloatConst.TAU" => wr_tf(<TwoFloat as num_traits::FloatConst>::TAU()),
        "tr.FloatConst.LOG10_2" => wr_tf(<TwoFloat as num_traits::FloatConst>::LOG10_2()),
        "tr.FloatConst.LOG2_10" => wr_tf(<TwoFloat as num_traits::FloatConst>::LOG2_10()),
        _ => return None,
    })
}

enum Val { T(TwoFloat), F(f64) }

fn fmt_any(tr: &str, plus: bool, prec: i64, v: Val) -> String {
    macro_rules! go {
        ($x:expr) => {
            match (tr, plus, prec >= 0) {
                ("d", false, false) => format!("{}", $x),
                ("d", true, false) => format!("{:+}", $x),
                ("d", false, true) => format!("{:.*}", prec as usize, $x),
                ("d", true, true) => format!("{:+.*}", prec as usize, $x),
                ("e", false, false) => format!("{:e}", $x),
                ("e", true, false) => format!("{:+e}", $x),
                ("e", false, true) => format!("{:.*e}", prec as usize, $x),
                ("e", true, true) => format!("{:+.*e}", prec as usize, $x),
                ("E", false, false) => format!("{:E}", $x),
                ("E", true, false) => format!("{:+E}", $x),
                ("E", false, true) => format!("{:.*E}", prec as usize, $x),
                (_, _, _) => format!("{:+.*E}", prec as usize, $x),
            }
        };
    }
    match v {
        Val::T(t) => go!(t),
        Val::F(x) => go!(x),
    }
}

#[cfg(not(feature = "serde"))]
fn serde_ops(_op: &str, _a: &[&str]) -> Option<String> { None }

#[cfg(feature = "serde")]
fn serde_ops(op: &str, a: &[&str]) -> Option<String> {
    use serde::de::value::{Error as VErr, MapDeserializer, SeqDeserializer};
    use serde::de::IntoDeserializer;
    use serde::Deserialize;
    fn kind(e: &VErr) -> &'static str {
        let m = e.to_string();
        if m.starts_with("invalid length") { "Err(invalid_length)" }
        else if m.starts_with("duplicate field") { "Err(duplicate_field)" }
        else if m.starts_with("missing field") { "Err(missing_field)" }
        else if m.starts_with("unknown field") { "Err(unknown_field)" }
        else if m.starts_with("invalid value") { "Err(invalid_value)" }
        else { "Err(other)" }
    }
    match op {
        // `de_seq k x1 .. xk`
        "de_seq" => {
            let k: usize = a.get(0)?.parse().ok()?;
            if a.len() < 1 + k { return None; }
            let v: Vec<f64> = (0..k).map(|i| rd_f64(a[1 + i])).collect();
            let d: SeqDeserializer<_, VErr> = SeqDeserializer::new(v.into_iter());
            Some(match TwoFloat::deserialize(d) { Ok(t) => format!("Ok({})", wr_tf(t)), Err(e) => kind(&e).to_string() })
        }
        // `de_map k key1 x1 .. keyk xk`
        "de_map" => {
            let k: usize = a.get(0)?.parse().ok()?;
            if a.len() < 1 + 2 * k { return None; }
            let v: Vec<(String, f64)> = (0..k).map(|i| (a[1 + 2 * i].to_string(), rd_f64(a[2 + 2 * i]))).collect();
            let d: MapDeserializer<_, VErr> = MapDeserializer::new(v.into_iter());
            Some(match TwoFloat::deserialize(d) { Ok(t) => format!("Ok({})", wr_tf(t)), Err(e) => kind(&e).to_string() })
        }
        // `ser hi lo` : what the Serialize impl emits, recorded by a minimal Serializer
        "ser" => {
            if a.len() < 2 { return None; }
            let t = rd_tf(a[0], a[1]);
            Some(crate::recser::record(&t))
        }
        _ => None,
    }
}

