// Hand-written entry points that the generated dispatch table does not cover
// (generic code, formatting, serde).  Filled in as the corresponding hand models land.
#![allow(unused)]
use super::*;

pub fn run(op: &str, a: &[&str]) -> Option<String> {
    match op {
        _ => None,
    }
}
