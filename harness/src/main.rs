// Implementation side of the line protocol: executes the real crate in-process.
// One case per line `op arg...` on stdin, one answer per line on stdout.
#![allow(unused_imports, unused_mut, clippy::all)]
use core::convert::{From, TryFrom};
use core::num::FpCategory;
use core::ops::*;
use num_traits::{Inv, Pow};
use std::io::{BufRead, Write};
use twofloat::{TwoFloat, TwoFloatError};

mod extra;
#[cfg(feature = "serde")]
mod recser;

fn rd_f64(s: &str) -> f64 {
    f64::from_bits(u64::from_str_radix(s, 16).unwrap_or(0))
}
fn rd_f32(s: &str) -> f32 {
    f32::from_bits(u32::from_str_radix(s, 16).unwrap_or(0))
}
fn rd_bool(s: &str) -> bool {
    s == "true"
}
fn rd_int<T: core::str::FromStr>(s: &str) -> Option<T> {
    s.parse::<T>().ok()
}
/// any pair of words, valid or not (`TwoFloat` is `#[repr(C)] { hi: f64, lo: f64 }`)
pub fn rd_tf(h: &str, l: &str) -> TwoFloat {
    unsafe { core::mem::transmute::<[f64; 2], TwoFloat>([rd_f64(h), rd_f64(l)]) }
}
pub fn words(t: TwoFloat) -> (f64, f64) {
    let a = unsafe { core::mem::transmute::<TwoFloat, [f64; 2]>(t) };
    (a[0], a[1])
}
fn wr_f64(x: f64) -> String {
    if x.is_nan() {
        "7ff8000000000000".to_string()
    } else {
        format!("{:016x}", x.to_bits())
    }
}
fn wr_f32(x: f32) -> String {
    if x.is_nan() {
        "7fc00000".to_string()
    } else {
        format!("{:08x}", x.to_bits())
    }
}
fn wr_bool(b: bool) -> String {
    format!("{}", b)
}
pub fn wr_tf(t: TwoFloat) -> String {
    let (h, l) = words(t);
    format!("{} {}", wr_f64(h), wr_f64(l))
}
fn wr_int<T: core::fmt::Display>(x: T) -> String {
    format!("{}", x)
}
fn wr_pair(p: (f64, f64)) -> String {
    format!("{} {}", wr_f64(p.0), wr_f64(p.1))
}
fn wr_tfpair(p: (TwoFloat, TwoFloat)) -> String {
    format!("{} {}", wr_tf(p.0), wr_tf(p.1))
}
fn wr_arr2(a: [f64; 2]) -> String {
    format!("{} {}", wr_f64(a[0]), wr_f64(a[1]))
}
fn wr_fpcat(c: FpCategory) -> String {
    format!("{:?}", c)
}
fn wr_optord(o: Option<core::cmp::Ordering>) -> String {
    match o {
        None => "None".into(),
        Some(x) => format!("Some({:?})", x),
    }
}
fn wr_optint<T: core::fmt::Display>(o: Option<T>) -> String {
    match o {
        None => "None".into(),
        Some(x) => format!("Some({})", x),
    }
}
fn wr_optf64(o: Option<f64>) -> String {
    match o {
        None => "None".into(),
        Some(x) => format!("Some({})", wr_f64(x)),
    }
}
fn wr_optf32(o: Option<f32>) -> String {
    match o {
        None => "None".into(),
        Some(x) => format!("Some({})", wr_f32(x)),
    }
}
fn wr_opttf(o: Option<TwoFloat>) -> String {
    match o {
        None => "None".into(),
        Some(x) => format!("Some({})", wr_tf(x)),
    }
}
fn wr_resint<T: core::fmt::Display>(o: Result<T, TwoFloatError>) -> String {
    match o {
        Err(_) => "Err".into(),
        Ok(x) => format!("Ok({})", x),
    }
}
fn wr_restf(o: Result<TwoFloat, TwoFloatError>) -> String {
    match o {
        Err(_) => "Err".into(),
        Ok(x) => format!("Ok({})", wr_tf(x)),
    }
}

mod dispatch {
    use super::*;
    include!(env!("XLATE_DISPATCH_RS"));
}

fn main() {
    std::panic::set_hook(Box::new(|_| {}));
    let stdin = std::io::stdin();
    let stdout = std::io::stdout();
    let mut out = std::io::BufWriter::new(stdout.lock());
    for line in stdin.lock().lines() {
        let line = line.unwrap();
        let ws: Vec<&str> = line.split_whitespace().collect();
        if ws.is_empty() {
            writeln!(out, "bad-op").unwrap();
            continue;
        }
        let op = ws[0];
        let args = &ws[1..];
        // everything answered so far must be on the pipe before the next call: if it aborts or never returns, the driver of the
        // check attributes the failure to exactly this line
        out.flush().unwrap();
        let r = std::panic::catch_unwind(|| match dispatch::run(op, args) {
            Some(s) => s,
            None => extra::run(op, args).unwrap_or_else(|| "bad-op".to_string()),
        });
        match r {
            Ok(s) => writeln!(out, "{}", s).unwrap(),
            Err(_) => writeln!(out, "PANIC").unwrap(),
        }
    }
}
