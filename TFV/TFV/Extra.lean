/-
Extra — hand-written model-side entry points of the line protocol that the generated dispatch table does
not cover (generic code: `Iterator::sum`).
-/
import TFV.Gen
import TFV.Prelude.IO

namespace Extra
open IOFmt

def run (op : String) (a : Array String) : Option String :=
  match op with
  | "sum_tf" =>
    let k := a[0]!.toNat!
    if a.size < 1 + 2 * k then none else
    let xs := (List.range k).map (fun i => rdTF a[1 + 2 * i]! a[2 + 2 * i]!)
    some (wr_tf (iter.impl_Sum_T_for_TwoFloat.sum xs))
  | "sum_f64" =>
    let k := a[0]!.toNat!
    if a.size < 1 + k then none else
    let xs := (List.range k).map (fun i => rdF64 a[1 + i]!)
    some (wr_tf (iter.impl_Sum_T_for_TwoFloat.sum xs))
  | "fold_tf" =>
    let k := a[0]!.toNat!
    if a.size < 1 + 2 * k then none else
    let xs := (List.range k).map (fun i => rdTF a[1 + 2 * i]! a[2 + 2 * i]!)
    some (wr_tf (xs.foldl arithmetic.impl_Add_TwoFloat_for_TwoFloat.add num_integration.impl_Zero_for_TwoFloat.zero))
  | "fold_f64" =>
    let k := a[0]!.toNat!
    if a.size < 1 + k then none else
    let xs := (List.range k).map (fun i => rdF64 a[1 + i]!)
    some (wr_tf (xs.foldl arithmetic.impl_Add_f64_for_TwoFloat.add num_integration.impl_Zero_for_TwoFloat.zero))
  | _ => none

end Extra
