/-
Extra — hand-written model-side entry points of the line protocol that the generated dispatch table does
not cover (generic code: `Iterator::sum`, `NumCast::from`).
-/
import TFV.Gen
import TFV.Prelude.IO
import TFV.Hand.Serde
import TFV.Hand.NumCast

namespace Extra
open IOFmt

def wrDe : Except Hand.DeErr TwoFloat → String
  | .ok t => "Ok(" ++ wr_tf t ++ ")"
  | .error .invalid_length => "Err(invalid_length)"
  | .error .duplicate_field => "Err(duplicate_field)"
  | .error .missing_field => "Err(missing_field)"
  | .error .unknown_field => "Err(unknown_field)"
  | .error .invalid_value => "Err(invalid_value)"

def run (op : String) (a : Array String) : Option String :=
  match op with
  | "sum_tf" =>
    let k := a[0]!.toNat!
    if a.size < 1 + 2 * k then none else
    let xs := (List.range k).map (fun i => rdTF a[1 + 2 * i]! a[2 + 2 * i]!)
    some (wr_tf (iter.impl_Sum_T_for_TwoFloat.sum xs))
  | "sum_f64" =>
    let k := a[0]!.toNat!
    if a.size < 1 + k then none else
    let xs := (List.range k).map (fun i => rdF64 a[1 + i]!)
    some (wr_tf (iter.impl_Sum_T_for_TwoFloat.sum xs))
  | "fold_tf" =>
    let k := a[0]!.toNat!
    if a.size < 1 + 2 * k then none else
    let xs := (List.range k).map (fun i => rdTF a[1 + 2 * i]! a[2 + 2 * i]!)
    some (wr_tf (xs.foldl arithmetic.impl_Add_TwoFloat_for_TwoFloat.add num_integration.impl_Zero_for_TwoFloat.zero))
  | "fold_f64" =>
    let k := a[0]!.toNat!
    if a.size < 1 + k then none else
    let xs := (List.range k).map (fun i => rdF64 a[1 + i]!)
    some (wr_tf (xs.foldl arithmetic.impl_Add_f64_for_TwoFloat.add num_integration.impl_Zero_for_TwoFloat.zero))
  | "de_seq" =>
    let k := a[0]!.toNat!
    if a.size < 1 + k then none else
    let xs := (List.range k).map (fun i => rdF64 a[1 + i]!)
    some (wrDe (Hand.deSeq xs))
  | "de_map" =>
    let k := a[0]!.toNat!
    if a.size < 1 + 2 * k then none else
    let kvs := (List.range k).map (fun i => (a[1 + 2 * i]!, rdF64 a[2 + 2 * i]!))
    some (wrDe (Hand.deMap kvs))
  | "ser" =>
    if a.size < 2 then none else
    let (n, l, fs) := Hand.ser (rdTF a[0]! a[1]!)
    some (fs.foldl (fun acc (k, v) => acc ++ " " ++ k ++ "=" ++ wr_f64 v) ("struct " ++ n ++ " " ++ toString l))
  | "fmt_shape" =>
    -- `fmt_shape lo rhi rlo` (renderings contain no blanks)
    if a.size < 3 then none else
    some ("\"" ++ Hand.fmtShape a[1]! a[2]! (rdF64 a[0]!) ++ "\"")
  -- `<TwoFloat as NumCast>::from(n)`: `numcast.<int type> n` (the model is the same function of the value for every primitive integer type), `numcast.f64 x`, `numcast.f32 x`
  | "numcast.i8" | "numcast.i16" | "numcast.i32" | "numcast.i64" | "numcast.i128" | "numcast.isize"
  | "numcast.u8" | "numcast.u16" | "numcast.u32" | "numcast.u64" | "numcast.u128" | "numcast.usize" =>
    if a.size < 1 then none else
    let n := Hand.ToPrim.ofInt (parseInt a[0]!)
    some (if Hand.numCastFrom.pf n then wr_opttf (Hand.numCastFrom n) else "PANIC")
  | "numcast.f64" =>
    if a.size < 1 then none else
    let n := Hand.ToPrim.ofF64 (rdF64 a[0]!)
    some (if Hand.numCastFrom.pf n then wr_opttf (Hand.numCastFrom n) else "PANIC")
  | "numcast.f32" =>
    if a.size < 1 then none else
    let n := Hand.ToPrim.ofF32 (rdF32 a[0]!)
    some (if Hand.numCastFrom.pf n then wr_opttf (Hand.numCastFrom n) else "PANIC")
  | _ => none

end Extra
