/-
Lemmas.RemExact — `%`, `div_euclid`, `rem_euclid` on integer-valued operands below `2^53` are EXACT.

Route (scaled integers, `U = 2^1074`; `a = (m·U, 0)`, `b = (n·U, 0)`, `|m|, |n| < 2^53`, `n ≠ 0`):
* §1 pure integer facts: a value `Q` with `|m·U − Q·n| ≤ 2^-102 |m|·U` truncates to `tdiv m n · U` when `n ∤ m`
  (`truncV_of_near`): the distance of `m/n` to the nearest integer is at least `1/|n| > 2^-53`;
* §2 the long division: `n ∣ m` — exact by the exact-case calculus (`div_tt_word_isV`); `n ∤ m` — valid and accurate
  to `2^-102` (`Lemmas.DivInv`), hence `trunc(a / b) = (tdiv m n · U, 0)` (`div_int_trunc`, `trunc_div_int_isV`);
* §3 `trunc(a/b) · b` and `a − trunc(a/b) · b` are exact (`rem_int_isV`);
* §4 the Euclidean corrections (`div_euclid_int_isV`, `rem_euclid_int_isV`);
* §6 general operands (tolerance clause): `quot_near` (the truncated computed quotient is the truncated exact quotient,
  or off by one when `a/b` is within relative `2^-102` of an integer), `TwoFloat.rem_tt_tolerance`
  (`|(a % b) − (a − K·b)| ≤ 11·2^-106·max(|a|, |b|)`: division `16u²`, `trunc` exact, product `7u²`, difference
  `3u² + 13u³`).
-/
import TFV.Properties.C01d
import TFV.Properties.C08
import TFV.Properties.C06
import TFV.Properties.C19
import TFV.Lemmas.Bounds

set_option exponentiation.threshold 3000

namespace F64

open C08

/-! ## 1. integer facts -/

/-- all signs positive -/
theorem truncV_of_near_pos {Q m n k r : ℤ} (hn : 0 < n) (hr0 : 0 < r) (hrn : r < n) (hm0 : 0 < m)
    (hm : m = k * n + r) (hm102 : m < 2 ^ 102)
    (hE : 2 ^ 102 * |m * U - Q * n| ≤ |m| * U) : truncV Q = k * U := by
  have hU := U_pos
  rw [abs_of_pos hm0] at hE
  have hlt : |m * U - Q * n| < U := by
    by_contra hc
    push Not at hc
    have h1 : m * U < 2 ^ 102 * U := mul_lt_mul_of_pos_right hm102 hU
    have h2 : 2 ^ 102 * U ≤ 2 ^ 102 * |m * U - Q * n| := mul_le_mul_of_nonneg_left hc (by positivity)
    omega
  obtain ⟨h1, h2⟩ := abs_lt.1 hlt
  -- `D = Q - k U`
  have e : m * U - Q * n = r * U - (Q - k * U) * n := by rw [hm]; ring
  rw [e] at h1 h2
  have hDn_pos : 0 < (Q - k * U) * n := by nlinarith
  have hDn_lt : (Q - k * U) * n < U * n := by nlinarith
  have hD_pos : 0 < Q - k * U := by
    by_contra hc
    push Not at hc
    have : (Q - k * U) * n ≤ 0 := mul_nonpos_of_nonpos_of_nonneg hc hn.le
    omega
  have hD_lt : Q - k * U < U := lt_of_mul_lt_mul_right hDn_lt hn.le
  have hk : 0 ≤ k := by
    by_contra hc
    push Not at hc
    have : k * n ≤ -1 * n := mul_le_mul_of_nonneg_right (by omega) hn.le
    omega
  have hkU : 0 ≤ k * U := mul_nonneg hk hU.le
  rw [truncV_of_nonneg (by omega)]
  exact floorV_eq_of (Dvd.intro_left _ rfl) (by omega) (by omega)

/-- positive dividend, any divisor -/
theorem truncV_of_near_pos' {Q m n k r : ℤ} (hn : n ≠ 0) (hr0 : 0 < r) (hrn : r < |n|) (hm0 : 0 < m)
    (hm : m = k * n + r) (hm102 : m < 2 ^ 102)
    (hE : 2 ^ 102 * |m * U - Q * n| ≤ |m| * U) : truncV Q = k * U := by
  rcases lt_or_gt_of_ne hn with h | h
  · rw [abs_of_neg h] at hrn
    have := truncV_of_near_pos (Q := -Q) (n := -n) (k := -k) (by omega) hr0 hrn hm0 (by rw [hm]; ring) hm102
      (by rw [neg_mul_neg]; exact hE)
    rw [truncV_neg] at this
    linarith
  · rw [abs_of_pos h] at hrn
    exact truncV_of_near_pos h hr0 hrn hm0 hm hm102 hE

/-- **a value within relative `2^-102` of a non-integral quotient `m / n` truncates like `m / n`**: `m = k·n + r` with
`0 < |r| < |n|`, `r` of the sign of `m` (truncated division), `|m| < 2^102` -/
theorem truncV_of_near {Q m n k r : ℤ} (hn : n ≠ 0) (hr0 : r ≠ 0) (hrn : |r| < |n|) (hs : 0 < r * m)
    (hm : m = k * n + r) (hm102 : |m| < 2 ^ 102)
    (hE : 2 ^ 102 * |m * U - Q * n| ≤ |m| * U) : truncV Q = k * U := by
  rcases lt_or_gt_of_ne hr0 with h | h
  · have hm0 : m < 0 := by
      by_contra hc
      push Not at hc
      have : r * m ≤ 0 := mul_nonpos_of_nonpos_of_nonneg h.le hc
      omega
    rw [abs_of_neg h] at hrn
    rw [abs_of_neg hm0] at hm102
    have := truncV_of_near_pos' (Q := -Q) (m := -m) (n := n) (k := -k) (r := -r) hn (by omega) hrn (by omega)
      (by rw [hm]; ring) hm102
      (by
        have e : -m * U - -Q * n = -(m * U - Q * n) := by ring
        rw [e, abs_neg, abs_neg]; exact hE)
    rw [truncV_neg] at this
    linarith
  · have hm0 : 0 < m := by
      by_contra hc
      push Not at hc
      have : r * m ≤ 0 := mul_nonpos_of_nonneg_of_nonpos h.le hc
      omega
    rw [abs_of_pos h] at hrn
    rw [abs_of_pos hm0] at hm102
    exact truncV_of_near_pos' hn h hrn hm0 hm hm102 hE

/-- the facts about truncated division used below -/
theorem tdiv_tmod_facts (m : ℤ) {n : ℤ} (hn : n ≠ 0) :
    m = m.tdiv n * n + m.tmod n ∧ |m.tmod n| < |n| ∧ 0 ≤ m.tmod n * m ∧ |m.tdiv n * n| ≤ |m| := by
  have h1 := Int.tmod_add_tdiv_mul m n
  have h2 : |m.tmod n| < |n| := by
    rw [Int.abs_eq_natAbs, Int.abs_eq_natAbs, Int.natAbs_tmod]
    exact_mod_cast Nat.mod_lt _ (Int.natAbs_pos.2 hn)
  have h3 : 0 ≤ m.tmod n * m := by
    rcases le_or_gt 0 m with h | h
    · exact mul_nonneg (Int.tmod_nonneg n h) h
    · have : 0 ≤ (-m).tmod n := Int.tmod_nonneg n (by omega)
      rw [Int.neg_tmod] at this
      exact mul_nonneg_of_nonpos_of_nonpos (by omega) h.le
  have h4 : |m.tdiv n * n| ≤ |m| := by
    rw [Int.abs_eq_natAbs, Int.abs_eq_natAbs, Int.natAbs_mul, Int.natAbs_tdiv]
    exact_mod_cast Nat.div_mul_le_self _ _
  exact ⟨by omega, h2, h3, h4⟩

end F64

namespace F64

/-- Euclidean division and remainder from the truncated ones -/
theorem ediv_emod_of_tdiv (m : ℤ) {n : ℤ} (hn : n ≠ 0) :
    (0 ≤ m.tmod n → m / n = m.tdiv n ∧ m % n = m.tmod n) ∧
    (m.tmod n < 0 → 0 < n → m / n = m.tdiv n - 1 ∧ m % n = m.tmod n + n) ∧
    (m.tmod n < 0 → n < 0 → m / n = m.tdiv n + 1 ∧ m % n = m.tmod n - n) := by
  obtain ⟨h1, h2, -, -⟩ := tdiv_tmod_facts m hn
  generalize m.tdiv n = k at *
  generalize m.tmod n = r at *
  obtain ⟨h3, h4⟩ := abs_lt.1 h2
  refine ⟨fun hr => ?_, fun hr hn' => ?_, fun hr hn' => ?_⟩
  · rcases lt_or_gt_of_ne hn with h | h
    · rw [abs_of_neg h] at h3 h4
      exact (Int.ediv_emod_unique' h).2 ⟨by rw [h1]; ring, hr, h4⟩
    · rw [abs_of_pos h] at h3 h4
      exact (Int.ediv_emod_unique h).2 ⟨by rw [h1]; ring, hr, h4⟩
  · rw [abs_of_pos hn'] at h3 h4
    exact (Int.ediv_emod_unique hn').2 ⟨by rw [h1]; ring, by omega, by omega⟩
  · rw [abs_of_neg hn'] at h3 h4
    exact (Int.ediv_emod_unique' hn').2 ⟨by rw [h1]; ring, by omega, by omega⟩

/-! ## 2. integer-valued doubles and pairs -/

theorem repI_int {k : ℤ} (h : |k| ≤ 2 ^ 53) : RepI (k * (unit : ℤ)) := by
  unfold RepI
  rw [natAbs_mul_natCast, unit_eq]
  apply rep_of_mul_pow
  have : ((k.natAbs : ℕ) : ℤ) ≤ 2 ^ 53 := by rw [Int.natCast_natAbs]; exact h
  exact_mod_cast this

theorem abs_int_le {k : ℤ} (h : |k| ≤ 2 ^ 53) : |k * (unit : ℤ)| ≤ (maxFin : ℤ) := by
  rw [abs_mul_pos_right _ unit_pos_int]
  have h1 : |k| * (unit : ℤ) ≤ 2 ^ 53 * (unit : ℤ) := mul_le_mul_of_nonneg_right h unit_pos_int.le
  have h2 := two_pow_le_maxFin_int (k := 1127) (by norm_num)
  have h3 : (2 : ℤ) ^ 53 * (unit : ℤ) = 2 ^ 1127 := by rw [C01d.unit_int_eq, ← pow_add]
  linarith

theorem normPair_int {k : ℤ} (h : |k| ≤ 2 ^ 53) : TwoFloat.NormPair (k * (unit : ℤ)) 0 :=
  ⟨repI_int h, abs_int_le h, repI_zero, abs_zero_le_maxFin, by rw [add_zero, rnI_of_repI (repI_int h)]⟩

/-- a finite double with a representable value in range is well formed -/
theorem WF_of_repI {x : F64} (hf : x.is_finite = true) (hr : RepI x.toInt) (hm : |x.toInt| ≤ (maxFin : ℤ)) :
    x.WF := by
  obtain ⟨s, N, rfl⟩ := is_finite_iff.mp hf
  rw [abs_toInt_fin] at hm
  have e : (fin s N).toInt.natAbs = N := by
    have := abs_toInt_fin s N
    rw [Int.abs_eq_natAbs] at this
    exact_mod_cast this
  unfold RepI at hr
  rw [e] at hr
  exact ⟨hr, by exact_mod_cast hm⟩

end F64

namespace TwoFloat

open F64 C08

/-- a pair with the words `(k·2^1074, 0)`, `|k| ≤ 2^53`, is well formed and valid -/
theorem IsV.int_WF {t : TwoFloat} {k : ℤ} (ht : t.IsV (k * (unit : ℤ)) 0) (hk : |k| ≤ 2 ^ 53) : t.WF :=
  ⟨WF_of_repI ht.1.1 (by rw [ht.1.2]; exact repI_int hk) (by rw [ht.1.2]; exact abs_int_le hk),
    WF_of_toInt_zero ht.2.1 ht.2.2⟩

theorem IsV.int_valid {t : TwoFloat} {k : ℤ} (ht : t.IsV (k * (unit : ℤ)) 0) (hk : |k| ≤ 2 ^ 53) : t.Valid :=
  ht.valid (ht.int_WF hk) (normPair_int hk).2.2.2.2

/-- a valid pair whose value is representable is `(value, 0)` -/
theorem Valid.isV_of_repI {t : TwoFloat} (ht : t.Valid) (hr : RepI t.V) : t.IsV t.V 0 := by
  have h1 : t.hi.toInt = t.V := by rw [ht.hi_toInt]; exact rnI_of_repI hr
  have h2 : t.lo.toInt = 0 := by unfold V at h1; omega
  exact ⟨⟨ht.1, h1⟩, ⟨ht.2.1, h2⟩⟩

/-! ## 3. the long division of two integers below `2^53` -/

theorem divRange_int {m n : ℤ} (hm : |m| < 2 ^ 53) (hn : |n| < 2 ^ 53) (hm0 : m ≠ 0) (hn0 : n ≠ 0) :
    DivRange (m * (unit : ℤ)) (n * (unit : ℤ)) ∧
    2 ^ 110 * |n * (unit : ℤ)| ≤ |m * (unit : ℤ) * (unit : ℤ)| ∧ 2 ^ 110 ≤ |m * (unit : ℤ)| := by
  have hUi := unit_pos_int
  have m1 : 1 ≤ |m| := abs_pos.2 hm0
  have n1 : 1 ≤ |n| := abs_pos.2 hn0
  have e1 : |m * (unit : ℤ)| = |m| * 2 ^ 1074 := by rw [abs_mul_pos_right _ hUi, C01d.unit_int_eq]
  have e2 : |n * (unit : ℤ)| = |n| * 2 ^ 1074 := by rw [abs_mul_pos_right _ hUi, C01d.unit_int_eq]
  have e3 : |m * (unit : ℤ) * (unit : ℤ)| = |m| * 2 ^ 1074 * 2 ^ 1074 := by
    rw [abs_mul_pos_right _ hUi, e1, C01d.unit_int_eq]
  refine ⟨⟨?_, ?_, ?_, ?_, ?_⟩, ?_, ?_⟩
  · rw [e1]; linarith
  · rw [e1]; linarith
  · rw [e2]; linarith
  · rw [e2, e3]; linarith
  · rw [e2, e3]; linarith
  · rw [e2, e3]; linarith
  · rw [e1]; linarith

/-- **the long division of two integers below `2^53` truncates to the truncated integer quotient** -/
theorem div_int_trunc {a b : TwoFloat} {m n : ℤ} (ha : a.IsV (m * (unit : ℤ)) 0) (hb : b.IsV (n * (unit : ℤ)) 0)
    (hm : |m| < 2 ^ 53) (hn : |n| < 2 ^ 53) (hn0 : n ≠ 0) :
    (arithmetic.impl_Div_rTwoFloat_for_rTwoFloat.div a b).Valid ∧
    truncV (arithmetic.impl_Div_rTwoFloat_for_rTwoFloat.div a b).V = m.tdiv n * (unit : ℤ) := by
  have hUi := unit_pos_int
  have hwa := ha.int_WF hm.le
  have hva := ha.int_valid hm.le
  have hvb := hb.int_valid hn.le
  by_cases hd : n ∣ m
  · obtain ⟨k, rfl⟩ := hd
    have hk : |k| ≤ 2 ^ 53 := by
      have n1 : 1 ≤ |n| := abs_pos.2 hn0
      rw [abs_mul] at hm
      have := abs_nonneg k
      nlinarith
    have hc := normPair_int hk
    have q := div_tt_word_isV ha hwa hb (H := k * (unit : ℤ)) (L := 0)
      (mul_ne_zero hn0 (ne_of_gt hUi)) (by ring) (by ring) hc
    refine ⟨q.valid (div_tt_WF _ _) hc.2.2.2.2, ?_⟩
    rw [q.V_eq, add_zero, Int.mul_tdiv_cancel_left _ hn0]
    unfold truncV
    rw [← cast_unit, Int.mul_tdiv_cancel _ (ne_of_gt hUi)]
  · have hm0 : m ≠ 0 := by rintro rfl; exact hd (dvd_zero n)
    obtain ⟨R, hB, hA⟩ := divRange_int hm hn hm0 hn0
    rw [← ha.1.2, ← hb.1.2] at R hB
    rw [← ha.1.2] at hA
    have hval := TwoFloat.div_tt_valid_of_range hva hwa hvb R
    have acc := TwoFloat.div_tt_acc hva hwa hvb R hB hA
    refine ⟨hval.1, ?_⟩
    rw [ha.V_eq, hb.V_eq, add_zero, add_zero] at acc
    generalize (arithmetic.impl_Div_rTwoFloat_for_rTwoFloat.div a b).V = Q at *
    obtain ⟨f1, f2, f3, -⟩ := tdiv_tmod_facts m hn0
    have hr0 : m.tmod n ≠ 0 := by
      intro h0
      exact hd (Int.dvd_of_tmod_eq_zero h0)
    have hs : 0 < m.tmod n * m := lt_of_le_of_ne f3 (Ne.symm (mul_ne_zero hr0 hm0))
    have hE : 2 ^ 102 * |m * (unit : ℤ) - Q * n| ≤ |m| * (unit : ℤ) := by
      have e1 : m * (unit : ℤ) * (unit : ℤ) - Q * (n * (unit : ℤ)) = (m * (unit : ℤ) - Q * n) * (unit : ℤ) := by
        ring
      rw [e1, abs_mul_pos_right _ hUi, abs_mul_pos_right _ hUi, abs_mul_pos_right _ hUi, ← mul_assoc] at acc
      exact le_of_mul_le_mul_right acc hUi
    exact truncV_of_near hn0 hr0 f2 hs f1 (lt_trans hm (by norm_num)) hE

/-- `trunc(a / b) = (tdiv m n, 0)` -/
theorem trunc_div_int_isV {a b : TwoFloat} {m n : ℤ} (ha : a.IsV (m * (unit : ℤ)) 0)
    (hb : b.IsV (n * (unit : ℤ)) 0) (hm : |m| < 2 ^ 53) (hn : |n| < 2 ^ 53) (hn0 : n ≠ 0) :
    (TwoFloat.trunc (arithmetic.impl_Div_rTwoFloat_for_rTwoFloat.div a b)).IsV (m.tdiv n * (unit : ℤ)) 0 := by
  obtain ⟨qv, htr⟩ := div_int_trunc ha hb hm hn hn0
  obtain ⟨tv, tvalid⟩ := C08.trunc_exact qv (div_tt_WF a b)
  rw [htr] at tv
  have hk : |m.tdiv n| ≤ 2 ^ 53 := by
    have : |m.tdiv n| ≤ |m| := by
      rw [Int.abs_eq_natAbs, Int.abs_eq_natAbs]; exact_mod_cast Int.natAbs_tdiv_le_natAbs m n
    omega
  have := tvalid.isV_of_repI (by rw [tv]; exact repI_int hk)
  rwa [tv] at this

/-! ## 4. `a % b` -/

/-- **`a % b` for integers below `2^53`: the words are `(tmod m n, 0)`** (truncated remainder, sign of the dividend) -/
theorem rem_int_isV {a b : TwoFloat} {m n : ℤ} (ha : a.IsV (m * (unit : ℤ)) 0)
    (hb : b.IsV (n * (unit : ℤ)) 0) (hm : |m| < 2 ^ 53) (hn : |n| < 2 ^ 53) (hn0 : n ≠ 0) :
    (arithmetic.impl_Rem_rTwoFloat_for_rTwoFloat.rem a b).IsV (m.tmod n * (unit : ℤ)) 0 := by
  have ht := trunc_div_int_isV ha hb hm hn hn0
  obtain ⟨f1, f2, -, f4⟩ := tdiv_tmod_facts m hn0
  have hp := mul_tt_isV_right_fixed ht hb (H := m.tdiv n * n * (unit : ℤ)) (L := 0) (by ring) (by ring)
    (normPair_int (by omega))
  have e : m * (unit : ℤ) - m.tdiv n * n * (unit : ℤ) = m.tmod n * (unit : ℤ) := by
    have : m - m.tdiv n * n = m.tmod n := by linarith
    rw [← this]; ring
  have hr : |m.tmod n| ≤ 2 ^ 53 := by omega
  have hs := sub_tt_isV_fixed ha hp (ha.int_WF hm.le) (mul_tt_WF _ _)
    (by rw [e, sub_zero]; exact normPair_int hr)
  rw [e, sub_zero] at hs
  exact hs

/-! ## 5. `div_euclid`, `rem_euclid` -/

theorem f64lit_zero_facts : (f64lit 0).WF ∧ (f64lit 0).is_finite = true ∧ (f64lit 0).toInt = 0 := by
  rw [f64lit_zero]; exact ⟨WF_zero false, rfl, rfl⟩

/-- `x - f` for a one-word `x` when the word difference is representable -/
theorem sub_tf_isV_word {x : TwoFloat} {f : F64} {xh vf : ℤ} (hx : x.IsV xh 0) (hf : IsVal f vf)
    (hwx : x.WF) (hwf : f.WF) (hS : RepI (xh - vf)) (hSm : |xh - vf| ≤ (maxFin : ℤ)) :
    (arithmetic.impl_Sub_rf64_for_rTwoFloat.sub x f).IsV (xh - vf) 0 := by
  have e : rnI (xh - vf + 0) = xh - vf := by rw [add_zero]; exact rnI_of_repI hS
  have := sub_tf_isV hx hf hwx hwf hS hSm (by rw [e]; exact hSm) (by rw [e, sub_self]; exact repI_zero)
    (by rw [e, sub_self]; exact abs_zero_le_maxFin)
  rwa [e, add_zero, sub_self] at this

/-- `x + f` for a one-word `x` when the word sum is representable -/
theorem add_tf_isV_word {x : TwoFloat} {f : F64} {xh vf : ℤ} (hx : x.IsV xh 0) (hf : IsVal f vf)
    (hwx : x.WF) (hwf : f.WF) (hS : RepI (xh + vf)) (hSm : |xh + vf| ≤ (maxFin : ℤ)) :
    (arithmetic.impl_Add_rf64_for_rTwoFloat.add x f).IsV (xh + vf) 0 := by
  have e : rnI (xh + vf + 0) = xh + vf := by rw [add_zero]; exact rnI_of_repI hS
  have := add_tf_isV hx hf hwx hwf hS hSm (by rw [e]; exact hSm) (by rw [e, sub_self]; exact repI_zero)
    (by rw [e, sub_self]; exact abs_zero_le_maxFin)
  rwa [e, add_zero, sub_self] at this

/-- the sign test of `div_euclid` / `rem_euclid` is exact -/
theorem rem_int_lt_zero_iff {a b : TwoFloat} {m n : ℤ} (ha : a.IsV (m * (unit : ℤ)) 0)
    (hb : b.IsV (n * (unit : ℤ)) 0) (hm : |m| < 2 ^ 53) (hn : |n| < 2 ^ 53) (hn0 : n ≠ 0) :
    ROrd.isLt (base.impl_PartialOrd_f64_for_TwoFloat.partial_cmp (a %. b) (f64lit 0)) = true ↔ m.tmod n < 0 := by
  have hr : (a %. b).IsV (m.tmod n * (unit : ℤ)) 0 := rem_int_isV ha hb hm hn hn0
  obtain ⟨-, f2, -, -⟩ := tdiv_tmod_facts m hn0
  have hv := hr.int_valid (k := m.tmod n) (by omega)
  obtain ⟨z1, z2, z3⟩ := f64lit_zero_facts
  have hUi := unit_pos_int
  rw [C06.lt_f64_exact hv z1 z2, hr.V_eq, add_zero, z3]
  constructor
  · intro h
    by_contra hc
    push Not at hc
    have := mul_nonneg hc hUi.le
    omega
  · intro h
    exact mul_neg_of_neg_of_pos h hUi

/-- the sign test on the divisor is exact -/
theorem int_gt_zero_iff {b : TwoFloat} {n : ℤ} (hb : b.IsV (n * (unit : ℤ)) 0) (hn : |n| < 2 ^ 53) :
    ROrd.isGt (base.impl_PartialOrd_f64_for_TwoFloat.partial_cmp b (f64lit 0)) = true ↔ 0 < n := by
  obtain ⟨z1, z2, z3⟩ := f64lit_zero_facts
  have hUi := unit_pos_int
  rw [C06.gt_f64_exact (hb.int_valid hn.le) z1 z2, hb.V_eq, add_zero, z3]
  constructor
  · intro h
    by_contra hc
    push Not at hc
    have := mul_nonpos_of_nonpos_of_nonneg hc hUi.le
    omega
  · intro h
    exact mul_pos h hUi

/-- **`div_euclid` for integers below `2^53`: the words are `(m / n, 0)`** with the Euclidean quotient `m / n` of `ℤ`
(`Int.ediv`: floor for `n > 0`, ceiling for `n < 0`) -/
theorem div_euclid_int_isV {a b : TwoFloat} {m n : ℤ} (ha : a.IsV (m * (unit : ℤ)) 0)
    (hb : b.IsV (n * (unit : ℤ)) 0) (hm : |m| < 2 ^ 53) (hn : |n| < 2 ^ 53) (hn0 : n ≠ 0) :
    (TwoFloat.div_euclid a b).IsV (m / n * (unit : ℤ)) 0 := by
  have ht : (TwoFloat.trunc (a /. b)).IsV (m.tdiv n * (unit : ℤ)) 0 := trunc_div_int_isV ha hb hm hn hn0
  have htest := rem_int_lt_zero_iff ha hb hm hn hn0
  have hgt := int_gt_zero_iff hb hn
  obtain ⟨c1, c2, c3⟩ := ediv_emod_of_tdiv m hn0
  have hk : |m.tdiv n| < 2 ^ 53 := by
    have : |m.tdiv n| ≤ |m| := by
      rw [Int.abs_eq_natAbs, Int.abs_eq_natAbs]; exact_mod_cast Int.natAbs_tdiv_le_natAbs m n
    omega
  have hk1 : |m.tdiv n - 1| ≤ 2 ^ 53 := by
    have := abs_sub_le_add (m.tdiv n) 1
    rw [abs_one] at this; omega
  have hk2 : |m.tdiv n + 1| ≤ 2 ^ 53 := by
    have := abs_add_le (m.tdiv n) 1
    rw [abs_one] at this; omega
  by_cases hr : m.tmod n < 0
  · have h1 := htest.2 hr
    by_cases hpos : 0 < n
    · rw [C19.div_euclid_of_rem_neg_pos a b h1 (hgt.2 hpos), (c2 hr hpos).1]
      have e : m.tdiv n * (unit : ℤ) - (unit : ℤ) = (m.tdiv n - 1) * (unit : ℤ) := by ring
      have := sub_tf_isV_word ht C01d.one_isVal (ht.int_WF hk.le) C01d.one_WF
        (by rw [e]; exact repI_int hk1) (by rw [e]; exact abs_int_le hk1)
      rw [e] at this
      exact this
    · have hneg : n < 0 := by omega
      rw [C19.div_euclid_of_rem_neg_nonpos a b h1 (by rw [← Bool.not_eq_true, hgt]; omega), (c3 hr hneg).1]
      have e : m.tdiv n * (unit : ℤ) + (unit : ℤ) = (m.tdiv n + 1) * (unit : ℤ) := by ring
      have := add_tf_isV_word ht C01d.one_isVal (ht.int_WF hk.le) C01d.one_WF
        (by rw [e]; exact repI_int hk2) (by rw [e]; exact abs_int_le hk2)
      rw [e] at this
      exact this
  · rw [C19.div_euclid_of_rem_nonneg a b (by rw [← Bool.not_eq_true, htest]; exact hr), (c1 (by omega)).1]
    exact ht

/-- `|b|` for an integer -/
theorem abs_int_isV {b : TwoFloat} {n : ℤ} (hb : b.IsV (n * (unit : ℤ)) 0) (hn : |n| < 2 ^ 53) (hn0 : n ≠ 0) :
    (TwoFloat.abs b).IsV (|n| * (unit : ℤ)) 0 := by
  have hUi := unit_pos_int
  have hvb := hb.int_valid hn.le
  have hV := C06.abs_exact_partial hvb (by rw [hb.1.2]; exact mul_ne_zero hn0 (ne_of_gt hUi))
  rw [hb.V_eq, add_zero, abs_mul_pos_right _ hUi] at hV
  rcases C06.abs_eq_or_neg b with h | h
  · rw [h] at hV ⊢
    rw [hb.V_eq, add_zero] at hV
    rw [← hV]; exact hb
  · rw [h] at hV ⊢
    have hneg : (C06.tneg b).IsV (-(n * (unit : ℤ))) (-0) := ⟨hb.1.neg, hb.2.neg⟩
    rw [neg_zero] at hneg
    rw [hneg.V_eq, add_zero] at hV
    rw [← hV]; exact hneg

/-- **`rem_euclid` for integers below `2^53`: the words are `(m % n, 0)`** with the Euclidean remainder of `ℤ`
(`Int.emod`, `0 ≤ m % n < |n|`) -/
theorem rem_euclid_int_isV {a b : TwoFloat} {m n : ℤ} (ha : a.IsV (m * (unit : ℤ)) 0)
    (hb : b.IsV (n * (unit : ℤ)) 0) (hm : |m| < 2 ^ 53) (hn : |n| < 2 ^ 53) (hn0 : n ≠ 0) :
    (TwoFloat.rem_euclid a b).IsV (m % n * (unit : ℤ)) 0 := by
  have hr : (a %. b).IsV (m.tmod n * (unit : ℤ)) 0 := rem_int_isV ha hb hm hn hn0
  have htest := rem_int_lt_zero_iff ha hb hm hn hn0
  obtain ⟨c1, c2, c3⟩ := ediv_emod_of_tdiv m hn0
  obtain ⟨-, f2, -, -⟩ := tdiv_tmod_facts m hn0
  by_cases hneg : m.tmod n < 0
  · rw [C19.rem_euclid_of_rem_neg a b (htest.2 hneg)]
    have habs := abs_int_isV hb hn hn0
    have hmod : m % n = m.tmod n + |n| := by
      rcases lt_or_gt_of_ne hn0 with h | h
      · rw [(c3 hneg h).2, abs_of_neg h]; ring
      · rw [(c2 hneg h).2, abs_of_pos h]
    have hk : |m.tmod n + (|n|)| ≤ 2 ^ 53 := by
      rw [abs_of_neg hneg] at f2
      rw [abs_of_nonneg (by omega)]; omega
    have e : m.tmod n * (unit : ℤ) + |n| * (unit : ℤ) = (m.tmod n + |n|) * (unit : ℤ) := by ring
    have hs := add_tt_isV_fixed hr habs (hr.int_WF (k := m.tmod n) (by omega))
      (habs.int_WF (k := |n|) (by rw [_root_.abs_abs]; omega))
      (by rw [e, add_zero]; exact normPair_int hk)
    rw [e, add_zero, ← hmod] at hs
    exact hs
  · rw [C19.rem_euclid_of_rem_nonneg a b (by rw [← Bool.not_eq_true, htest]; exact hneg), (c1 (by omega)).2]
    exact hr

end TwoFloat

/-! ## 6. general operands: the tolerance clause -/
namespace F64

/-- all signs positive -/
theorem quot_near_pos {A B Q U : ℤ} (hU : 0 < U) (hA : 0 ≤ A) (hB : 0 < B) (hR : A ≤ 2 ^ 100 * B)
    (hE : 2 ^ 102 * |A * U - Q * B| ≤ A * U) :
    (Q.tdiv U = A.tdiv B ∨
      ((Q.tdiv U = A.tdiv B + 1 ∨ Q.tdiv U = A.tdiv B - 1) ∧ ∃ j : ℤ, 2 ^ 102 * |A - j * B| ≤ A)) ∧
    0 ≤ Q.tdiv U ∧
    2 ^ 102 * (Q.tdiv U * B) ≤ (2 ^ 102 + 1) * A ∧
    2 ^ 102 * |A - Q.tdiv U * B| ≤ 2 ^ 102 * B + A := by
  have h1 : 2 ^ 102 * (A * U - Q * B) ≤ A * U :=
    le_trans (mul_le_mul_of_nonneg_left (le_abs_self _) (by positivity)) hE
  have h2 : 2 ^ 102 * (Q * B - A * U) ≤ A * U := by
    have e : Q * B - A * U = -(A * U - Q * B) := by ring
    rw [e]
    have := neg_le_abs (A * U - Q * B)
    exact le_trans (mul_le_mul_of_nonneg_left this (by positivity)) hE
  have hX4 : 0 < U * B := mul_pos hU hB
  have hAU : 0 ≤ A * U := mul_nonneg hA hU.le
  have hQ : 0 ≤ Q := by
    by_contra hc
    push Not at hc
    have : Q * B ≤ -1 * B := mul_le_mul_of_nonneg_right (by omega) hB.le
    linarith
  rw [Int.tdiv_eq_ediv_of_nonneg hQ, Int.tdiv_eq_ediv_of_nonneg hA]
  have k1 : Q / U * U ≤ Q := Int.ediv_mul_le Q (ne_of_gt hU)
  have k2 : Q < (Q / U + 1) * U := Int.lt_ediv_add_one_mul_self Q hU
  have k3 : A / B * B ≤ A := Int.ediv_mul_le A (ne_of_gt hB)
  have k4 : A < (A / B + 1) * B := Int.lt_ediv_add_one_mul_self A hB
  have hK0 : 0 ≤ Q / U := Int.ediv_nonneg hQ hU.le
  generalize Q / U = K at *
  generalize A / B = k at *
  have m1 : K * U * B ≤ Q * B := mul_le_mul_of_nonneg_right k1 hB.le
  have m2 : Q * B < (K + 1) * U * B := mul_lt_mul_of_pos_right k2 hB
  have m3 : k * B * U ≤ A * U := mul_le_mul_of_nonneg_right k3 hU.le
  have m4 : A * U < (k + 1) * B * U := mul_lt_mul_of_pos_right k4 hU
  have m5 : A * U ≤ 2 ^ 100 * B * U := mul_le_mul_of_nonneg_right hR hU.le
  have b : 2 ^ 102 * (K * B) ≤ (2 ^ 102 + 1) * A := by
    have : (2 ^ 102 * (K * B)) * U ≤ ((2 ^ 102 + 1) * A) * U := by linarith
    exact le_of_mul_le_mul_right this hU
  have c1 : 2 ^ 102 * (A - K * B) < 2 ^ 102 * B + A := by
    have : (2 ^ 102 * (A - K * B)) * U < (2 ^ 102 * B + A) * U := by linarith
    exact lt_of_mul_lt_mul_right this hU.le
  have c : 2 ^ 102 * |A - K * B| ≤ 2 ^ 102 * B + A := by
    rcases abs_cases (A - K * B) with ⟨h, _⟩ | ⟨h, _⟩ <;> rw [h] <;> linarith
  have a1 : K ≤ k + 1 := by
    by_contra hc
    push Not at hc
    have : 0 ≤ (K - k - 2) * (U * B) := mul_nonneg (by omega) hX4.le
    linarith
  have a2 : k - 1 ≤ K := by
    by_contra hc
    push Not at hc
    have : 0 ≤ (k - 2 - K) * (U * B) := mul_nonneg (by omega) hX4.le
    linarith
  refine ⟨?_, hK0, b, c⟩
  rcases (by omega : K = k ∨ K = k + 1 ∨ K = k - 1) with h | h | h
  · exact Or.inl h
  · refine Or.inr ⟨Or.inl h, K, ?_⟩
    subst h
    have hpos : A - (k + 1) * B < 0 := by linarith
    rw [abs_of_neg hpos]; linarith
  · refine Or.inr ⟨Or.inr h, k, ?_⟩
    have hnn : 0 ≤ A - k * B := by linarith
    rw [abs_of_nonneg hnn]
    subst h
    have : (2 ^ 102 * (A - k * B)) * U ≤ A * U := by linarith
    exact le_of_mul_le_mul_right this hU

/-- positive divisor, any dividend -/
theorem quot_near_posB {A B Q U : ℤ} (hU : 0 < U) (hB : 0 < B) (hR : |A| ≤ 2 ^ 100 * B)
    (hE : 2 ^ 102 * |A * U - Q * B| ≤ |A * U|) :
    (Q.tdiv U = A.tdiv B ∨
      ((Q.tdiv U = A.tdiv B + 1 ∨ Q.tdiv U = A.tdiv B - 1) ∧ ∃ j : ℤ, 2 ^ 102 * |A - j * B| ≤ |A|)) ∧
    2 ^ 102 * |Q.tdiv U * B| ≤ (2 ^ 102 + 1) * |A| ∧
    2 ^ 102 * |A - Q.tdiv U * B| ≤ 2 ^ 102 * B + |A| := by
  rw [abs_mul_pos_right _ hU] at hE
  rcases le_or_gt 0 A with hA | hA
  · rw [abs_of_nonneg hA] at hR hE ⊢
    obtain ⟨p1, p2, p3, p4⟩ := quot_near_pos hU hA hB hR hE
    exact ⟨p1, by rw [abs_of_nonneg (mul_nonneg p2 hB.le)]; exact p3, p4⟩
  · rw [abs_of_neg hA] at hR hE ⊢
    have e : -A * U - -Q * B = -(A * U - Q * B) := by ring
    obtain ⟨p1, p2, p3, p4⟩ := quot_near_pos (A := -A) (Q := -Q) hU (by omega) hB hR
      (by rw [e, abs_neg]; exact hE)
    rw [Int.neg_tdiv, Int.neg_tdiv] at p1
    rw [Int.neg_tdiv] at p2 p3 p4
    refine ⟨?_, ?_, ?_⟩
    · rcases p1 with h | ⟨h, j, hj⟩
      · exact Or.inl (by omega)
      · refine Or.inr ⟨by omega, -j, ?_⟩
        have e2 : A - -j * B = -(-A - j * B) := by ring
        rw [e2, abs_neg]; exact hj
    · have e3 : Q.tdiv U * B = -(-Q.tdiv U * B) := by ring
      rw [e3, abs_neg, abs_of_nonneg (mul_nonneg p2 hB.le)]; exact p3
    · have e4 : A - Q.tdiv U * B = -(-A - -Q.tdiv U * B) := by ring
      rw [e4, abs_neg]; exact p4

/-- **the truncated computed quotient versus the truncated exact quotient.**  `Q` (units `1/U`) approximates `A / B`
within relative `2^-102`, `|A / B| ≤ 2^100`: then `K = trunc(Q/U)` is `k = trunc(A/B)`, or `k ± 1` and `A / B` is within
relative `2^-102` of an integer `j`; moreover `|K·B| ≤ (1 + 2^-102)|A|` and `|A − K·B| ≤ |B| + 2^-102 |A|`. -/
theorem quot_near {A B Q U : ℤ} (hU : 0 < U) (hB : B ≠ 0) (hR : |A| ≤ 2 ^ 100 * |B|)
    (hE : 2 ^ 102 * |A * U - Q * B| ≤ |A * U|) :
    (Q.tdiv U = A.tdiv B ∨
      ((Q.tdiv U = A.tdiv B + 1 ∨ Q.tdiv U = A.tdiv B - 1) ∧ ∃ j : ℤ, 2 ^ 102 * |A - j * B| ≤ |A|)) ∧
    2 ^ 102 * |Q.tdiv U * B| ≤ (2 ^ 102 + 1) * |A| ∧
    2 ^ 102 * |A - Q.tdiv U * B| ≤ 2 ^ 102 * |B| + |A| := by
  rcases lt_or_gt_of_ne hB with h | h
  · rw [abs_of_neg h] at hR ⊢
    have e : A * U - -Q * -B = A * U - Q * B := by ring
    obtain ⟨p1, p3, p4⟩ := quot_near_posB (B := -B) (Q := -Q) hU (by omega) hR (by rw [e]; exact hE)
    rw [Int.neg_tdiv, Int.tdiv_neg] at p1
    rw [Int.neg_tdiv, neg_mul_neg] at p3 p4
    refine ⟨?_, p3, p4⟩
    rcases p1 with h' | ⟨h', j, hj⟩
    · exact Or.inl (by omega)
    · refine Or.inr ⟨by omega, -j, ?_⟩
      rw [neg_mul_comm]; exact hj
  · rw [abs_of_pos h] at hR ⊢
    exact quot_near_posB hU h hR hE

end F64

namespace TwoFloat

open F64 C08

/-- `|z| < 2^k` as a statement on `natAbs` -/
theorem natAbs_lt_of_abs_lt {z : ℤ} {k : ℕ} (h : |z| < 2 ^ k) : z.natAbs < 2 ^ k := by
  rw [← Int.natCast_natAbs z] at h
  exact_mod_cast h

/-- **the tolerance clause of C19 for `TwoFloat % TwoFloat`.** -/
theorem rem_tt_tolerance {a b : TwoFloat} (ha : a.Valid) (hwa : a.WF) (hb : b.Valid) (hwb : b.WF)
    (hA : 2 ^ 624 ≤ a.hi.toInt.natAbs ∧ a.hi.toInt.natAbs ≤ 2 ^ 1524)
    (hB : 2 ^ 624 ≤ b.hi.toInt.natAbs ∧ b.hi.toInt.natAbs ≤ 2 ^ 1524)
    (hR : |a.V| ≤ 2 ^ 90 * |b.V|) :
    ∃ K : ℤ, (TwoFloat.trunc (a /. b)).V = K * (unit : ℤ) ∧
      (K = a.V.tdiv b.V ∨
        ((K = a.V.tdiv b.V + 1 ∨ K = a.V.tdiv b.V - 1) ∧ ∃ j : ℤ, 2 ^ 102 * |a.V - j * b.V| ≤ |a.V|)) ∧
      (a %. b).Valid ∧
      2 ^ 106 * |(a %. b).V - (a.V - K * b.V)| ≤ 11 * Max.max |a.V| |b.V| := by
  have hUi := unit_pos_int
  obtain ⟨qv, qw⟩ := C01d.div_tt_valid a b ha hwa hb hwb hA.1 hA.2 hB.1 hB.2
  have acc := C01d.div_tt_bound a b ha hwa hb hwb hA.1 hA.2 hB.1 hB.2
  obtain ⟨tv, tvalid⟩ := C08.trunc_exact qv qw
  have twf := C08.trunc_WF qw
  have hb0 : b.hi.toInt ≠ 0 := by
    intro h0
    have := hB.1
    rw [h0] at this
    norm_num at this
  have hBV0 : b.V ≠ 0 := fun h => hb0 (hb.V_zero_iff.1 h)
  have hBpos : 0 < |b.V| := abs_pos.2 hBV0
  have hR' : |a.V| ≤ 2 ^ 100 * |b.V| := by linarith
  have tv' : (TwoFloat.trunc (arithmetic.impl_Div_rTwoFloat_for_rTwoFloat.div a b)).V
      = (arithmetic.impl_Div_rTwoFloat_for_rTwoFloat.div a b).V.tdiv (unit : ℤ) * (unit : ℤ) := tv
  obtain ⟨n1, n2, n3⟩ := quot_near hUi hBV0 hR' acc
  generalize (arithmetic.impl_Div_rTwoFloat_for_rTwoFloat.div a b).V.tdiv (unit : ℤ) = K at *
  refine ⟨K, tv', n1, ?_⟩
  -- magnitude of `K`
  have hK : |K| ≤ 2 ^ 91 := by
    rw [abs_mul] at n2
    have : 2 ^ 102 * |K| * |b.V| ≤ 2 ^ 102 * 2 ^ 91 * |b.V| := by nlinarith
    have := le_of_mul_le_mul_right this hBpos
    linarith
  -- the product `trunc(a/b) * b`
  have hThi := tvalid.hi_toInt
  rw [tv'] at hThi
  have hr : (TwoFloat.trunc (arithmetic.impl_Div_rTwoFloat_for_rTwoFloat.div a b)).hi.toInt * b.hi.toInt = 0 ∨
      ((2 : ℤ) ^ 1188 ≤ |(TwoFloat.trunc (arithmetic.impl_Div_rTwoFloat_for_rTwoFloat.div a b)).hi.toInt * b.hi.toInt| ∧
        |(TwoFloat.trunc (arithmetic.impl_Div_rTwoFloat_for_rTwoFloat.div a b)).hi.toInt * b.hi.toInt| < (2 : ℤ) ^ 3169) := by
    by_cases hK0 : K = 0
    · left; rw [hThi, hK0, zero_mul, rnI_zero, zero_mul]
    · right
      have k1 : 1 ≤ |K| := abs_pos.2 hK0
      have l1 : |(unit : ℤ)| ≤ |K * (unit : ℤ)| := by
        rw [abs_mul]; exact le_mul_of_one_le_left (abs_nonneg _) k1
      have l2 := le_abs_rnI repI_unit l1
      rw [abs_of_pos hUi, C01d.unit_int_eq] at l2
      have u1 : |K * (unit : ℤ)| ≤ 2 ^ 1165 := by
        rw [abs_mul, abs_of_pos hUi, C01d.unit_int_eq]
        calc |K| * 2 ^ 1074 ≤ 2 ^ 91 * 2 ^ 1074 := mul_le_mul_of_nonneg_right hK (by positivity)
          _ = 2 ^ 1165 := by rw [← pow_add]
      have u2 := abs_rnI_le_pow u1
      have b1 : (2 : ℤ) ^ 624 ≤ |b.hi.toInt| := by rw [← Int.natCast_natAbs]; exact_mod_cast hB.1
      have b2 : |b.hi.toInt| ≤ (2 : ℤ) ^ 1524 := by rw [← Int.natCast_natAbs]; exact_mod_cast hB.2
      rw [hThi, abs_mul]
      constructor
      · calc (2 : ℤ) ^ 1188 ≤ 2 ^ 1074 * 2 ^ 624 := by
              rw [← pow_add]; exact pow_le_pow_right₀ (by norm_num) (by norm_num)
          _ ≤ _ := mul_le_mul l2 b1 (by positivity) (abs_nonneg _)
      · calc _ ≤ (2 : ℤ) ^ 1165 * 2 ^ 1524 := mul_le_mul u2 b2 (abs_nonneg _) (by positivity)
          _ < 2 ^ 3169 := by rw [← pow_add]; exact pow_lt_pow_right₀ (by norm_num) (by norm_num)
  obtain ⟨pv, hmul⟩ := TwoFloat.mul_tt_bound_7u2_partial tvalid twf hb hwb hr
  rw [tv'] at hmul
  have hmul' : 2 ^ 106 * |(arithmetic.impl_Mul_rTwoFloat_for_rTwoFloat.mul
      (TwoFloat.trunc (arithmetic.impl_Div_rTwoFloat_for_rTwoFloat.div a b)) b).V - K * b.V| ≤ 7 * |K * b.V| := by
    have e1 : (arithmetic.impl_Mul_rTwoFloat_for_rTwoFloat.mul
        (TwoFloat.trunc (arithmetic.impl_Div_rTwoFloat_for_rTwoFloat.div a b)) b).V * (unit : ℤ)
          - K * (unit : ℤ) * b.V
        = ((arithmetic.impl_Mul_rTwoFloat_for_rTwoFloat.mul
          (TwoFloat.trunc (arithmetic.impl_Div_rTwoFloat_for_rTwoFloat.div a b)) b).V - K * b.V) * (unit : ℤ) := by
      ring
    have e2 : K * (unit : ℤ) * b.V = (K * b.V) * (unit : ℤ) := by ring
    rw [e1, e2, abs_mul_pos_right _ hUi, abs_mul_pos_right _ hUi] at hmul
    have : (2 ^ 106 * |(arithmetic.impl_Mul_rTwoFloat_for_rTwoFloat.mul
        (TwoFloat.trunc (arithmetic.impl_Div_rTwoFloat_for_rTwoFloat.div a b)) b).V - K * b.V|) * (unit : ℤ)
        ≤ (7 * |K * b.V|) * (unit : ℤ) := by linarith
    exact le_of_mul_le_mul_right this hUi
  generalize hp : arithmetic.impl_Mul_rTwoFloat_for_rTwoFloat.mul
      (TwoFloat.trunc (arithmetic.impl_Div_rTwoFloat_for_rTwoFloat.div a b)) b = p at *
  have pw : p.WF := by rw [← hp]; exact mul_tt_WF _ _
  -- magnitudes for the subtraction
  have a2 : |a.hi.toInt| ≤ (2 : ℤ) ^ 1524 := by rw [← Int.natCast_natAbs]; exact_mod_cast hA.2
  have hAV : |a.V| ≤ 2 ^ 1525 := by
    have := ha.abs_lo_le
    have := abs_add_le a.hi.toInt a.lo.toInt
    unfold TwoFloat.V; linarith
  have hPV : |p.V| ≤ 2 ^ 1528 := by
    have t := abs_le_add_abs_sub p.V (K * b.V)
    have := abs_nonneg (K * b.V)
    have := abs_nonneg (p.V - K * b.V)
    linarith
  have hPhi : p.hi.toInt.natAbs < 2 ^ 2094 := by
    apply natAbs_lt_of_abs_lt
    rw [pv.hi_toInt]
    have := abs_rnI_le_two_mul p.V
    linarith
  have hAhi : a.hi.toInt.natAbs < 2 ^ 2094 := lt_of_le_of_lt hA.2 (by norm_num)
  obtain ⟨rv, hsub⟩ := TwoFloat.sub_tt_bound ha hwa pv pw hAhi hPhi
  have hrem : (a %. b) = arithmetic.impl_Sub_rTwoFloat_for_rTwoFloat.sub a p := by rw [← hp]; rfl
  rw [hrem]
  refine ⟨rv, ?_⟩
  generalize (arithmetic.impl_Sub_rTwoFloat_for_rTwoFloat.sub a p).V = R at *
  -- final arithmetic
  have hM1 : |a.V| ≤ Max.max |a.V| |b.V| := le_max_left _ _
  have hM2 : |b.V| ≤ Max.max |a.V| |b.V| := le_max_right _ _
  generalize Max.max |a.V| |b.V| = M at *
  have t1 : |R - (a.V - K * b.V)| ≤ |R - (a.V - p.V)| + |p.V - K * b.V| := by
    have e : R - (a.V - K * b.V) = (R - (a.V - p.V)) - (p.V - K * b.V) := by ring
    rw [e]; exact abs_sub _ _
  have t2 : |a.V - p.V| ≤ |a.V - K * b.V| + |p.V - K * b.V| := by
    have e : a.V - p.V = (a.V - K * b.V) - (p.V - K * b.V) := by ring
    rw [e]; exact abs_sub _ _
  have z1 := abs_nonneg (p.V - K * b.V)
  have z2 := abs_nonneg (R - (a.V - p.V))
  linarith

end TwoFloat
