/-
Lemmas.Bits — facts about binades, `F64.to_bits_nat`, `F64.to_bits`, `F64.classify` and the `IntN` bit
operations on the values that occur in `base.no_overlap`.
-/
import TFV.Spec.Defs
import Mathlib.Tactic.Ring
import Mathlib.Tactic.Linarith
import Mathlib.Tactic.NormNum

set_option exponentiation.threshold 4096

namespace F64.Bits

/-! ## binades -/

theorem two_pow_pos (k : Nat) : 0 < 2 ^ k := Nat.pow_pos (by decide)

/-- `q·2^s + r` with a 53-bit `q` and `r < 2^s` lies in the binade `[2^(s+52), 2^(s+53))`. -/
theorem binade_bounds {q s r : Nat} (hq : 2 ^ 52 ≤ q) (hq' : q < 2 ^ 53) (hr : r < 2 ^ s) :
    2 ^ (s + 52) ≤ q * 2 ^ s + r ∧ q * 2 ^ s + r < 2 ^ (s + 53) := by
  have hP := two_pow_pos s
  rw [Nat.pow_add, Nat.pow_add]
  constructor
  · have := Nat.mul_le_mul_right (2 ^ s) hq
    rw [Nat.mul_comm (2 ^ s) (2 ^ 52)]
    omega
  · have h1 : (q + 1) * 2 ^ s ≤ 2 ^ 53 * 2 ^ s := Nat.mul_le_mul_right _ hq'
    rw [Nat.mul_comm (2 ^ s) (2 ^ 53)]
    rw [Nat.add_mul] at h1
    omega

theorem log2_binade {q s r : Nat} (hq : 2 ^ 52 ≤ q) (hq' : q < 2 ^ 53) (hr : r < 2 ^ s) :
    Nat.log2 (q * 2 ^ s + r) = s + 52 := by
  have hb := binade_bounds hq hq' hr
  have hne : q * 2 ^ s + r ≠ 0 := by
    have := two_pow_pos (s + 52); omega
  exact (Nat.log2_eq_iff hne).2 hb

theorem log2_binade0 {q s : Nat} (hq : 2 ^ 52 ≤ q) (hq' : q < 2 ^ 53) :
    Nat.log2 (q * 2 ^ s) = s + 52 := by
  have := log2_binade (s := s) (r := 0) hq hq' (two_pow_pos s)
  simpa using this

/-- every `x ≥ 2^52` decomposes in its binade -/
theorem binade_decomp {x : Nat} (hx : 2 ^ 52 ≤ x) :
    ∃ q s r, x = q * 2 ^ s + r ∧ 2 ^ 52 ≤ q ∧ q < 2 ^ 53 ∧ r < 2 ^ s ∧ Nat.log2 x = s + 52 := by
  have hne : x ≠ 0 := by omega
  have hL : 52 ≤ Nat.log2 x := (Nat.le_log2 hne).2 hx
  obtain ⟨s, hs⟩ : ∃ s, Nat.log2 x = s + 52 := ⟨Nat.log2 x - 52, by omega⟩
  have hlo : 2 ^ (s + 52) ≤ x := by rw [← hs]; exact Nat.log2_self_le hne
  have hhi : x < 2 ^ (s + 53) := by
    have := @Nat.lt_log2_self x; rw [hs] at this; exact this
  have hP := two_pow_pos s
  refine ⟨x / 2 ^ s, s, x % 2 ^ s, ?_, ?_, ?_, Nat.mod_lt _ hP, hs⟩
  · have := Nat.div_add_mod x (2 ^ s); rw [Nat.mul_comm] at this; omega
  · rw [Nat.le_div_iff_mul_le hP, ← Nat.pow_add, Nat.add_comm]; exact hlo
  · rw [Nat.div_lt_iff_lt_mul hP, ← Nat.pow_add, Nat.add_comm]; exact hhi

theorem maxFin_lt : maxFin < 2 ^ 2098 := by
  unfold maxFin
  rw [show (2098 : Nat) = 53 + 2045 from rfl, Nat.pow_add]
  exact Nat.mul_lt_mul_of_pos_right (by decide) (two_pow_pos _)

/-- a well-formed normal magnitude is `q·2^s` with a 53-bit `q` -/
theorem wf_normal_decomp {n : Nat} (hn : 2 ^ 52 ≤ n) (hr : Rep n) (hm : n ≤ maxFin) :
    ∃ q s, n = q * 2 ^ s ∧ 2 ^ 52 ≤ q ∧ q < 2 ^ 53 ∧ s ≤ 2045 := by
  obtain ⟨q, s, r, hx, hq, hq', hrr, hlog⟩ := binade_decomp hn
  have hs : s ≤ 2045 := by
    have hne : n ≠ 0 := by omega
    have h1 : Nat.log2 n < 2098 := (Nat.log2_lt hne).2 (Nat.lt_of_le_of_lt hm maxFin_lt)
    omega
  rcases hr with h | h
  · -- n < 2^53 : s = 0
    have hne : n ≠ 0 := by omega
    have : Nat.log2 n < 53 := (Nat.log2_lt hne).2 h
    have hs0 : s = 0 := by omega
    subst hs0
    refine ⟨n, 0, by simp, hn, h, by omega⟩
  · rw [hlog] at h
    have hs' : s + 52 - 52 = s := by omega
    rw [hs'] at h
    exact ⟨n / 2 ^ s, s, h.symm, by
      have hP := two_pow_pos s
      have : n / 2 ^ s = q := by
        rw [hx, Nat.add_comm, Nat.add_mul_div_right _ _ hP, Nat.div_eq_of_lt hrr, Nat.zero_add]
      rw [this]; exact hq, by
      have hP := two_pow_pos s
      have : n / 2 ^ s = q := by
        rw [hx, Nat.add_comm, Nat.add_mul_div_right _ _ hP, Nat.div_eq_of_lt hrr, Nat.zero_add]
      rw [this]; exact hq', hs⟩

/-! ## `to_bits_nat` of a normal number -/

theorem to_bits_nat_normal (sg : Bool) {q s : Nat} (hq : 2 ^ 52 ≤ q) (hq' : q < 2 ^ 53) :
    to_bits_nat (fin sg (q * 2 ^ s)) =
      (if sg then 2 ^ 63 else 0) + ((s + 1) * 2 ^ 52 + (q - 2 ^ 52)) := by
  have hP := two_pow_pos s
  show (if sg then 2 ^ 63 else 0) + (if q * 2 ^ s < 2 ^ 53 then q * 2 ^ s else
      (Nat.log2 (q * 2 ^ s) - 52 + 1) * 2 ^ 52 + (q * 2 ^ s / 2 ^ (Nat.log2 (q * 2 ^ s) - 52) - 2 ^ 52)) = _
  by_cases h : q * 2 ^ s < 2 ^ 53
  · have hs : s = 0 := by
      rcases Nat.eq_zero_or_pos s with h0 | h0
      · exact h0
      · exfalso
        have : 2 ^ 1 ≤ 2 ^ s := Nat.pow_le_pow_right (by decide) h0
        have := Nat.mul_le_mul hq this
        omega
    subst hs
    simp only [Nat.pow_zero, Nat.mul_one] at h ⊢
    rw [if_pos h]
    omega
  · rw [if_neg h]
    simp only [log2_binade0 hq hq', Nat.add_sub_cancel, Nat.mul_div_cancel _ hP]

/-! ## local rounding facts (binade formula, identity on `m·2^t`) -/

/-- decomposed form of `rint` (local copy, so that this file does not depend on `TFV.Spec.Rounding`) -/
theorem rint_add_mul (a r q : Nat) (hr : r < q) :
    rint (a * q + r) q =
      if 2 * r < q then a else if q < 2 * r then a + 1 else if a % 2 = 0 then a else a + 1 := by
  have hq : 0 < q := by omega
  have h1 : (a * q + r) / q = a := by
    rw [Nat.add_comm, Nat.add_mul_div_right _ _ hq, Nat.div_eq_of_lt hr, Nat.zero_add]
  have h2 : (a * q + r) % q = r := by
    rw [Nat.add_comm, Nat.add_mul_mod_self_right, Nat.mod_eq_of_lt hr]
  simp only [rint, h1, h2, gt_iff_lt]

theorem rint_one (p : Nat) : rint p 1 = p := by
  have := rint_add_mul p 0 1 (by decide)
  simpa using this

/-- explicit value of `rn53` inside a binade -/
theorem rn53_binade_eq {q s r : Nat} (hq : 2 ^ 52 ≤ q) (hq' : q < 2 ^ 53) (hr : r < 2 ^ s) :
    rn53 (q * 2 ^ s + r) =
      (if 2 * r < 2 ^ s then q else if 2 ^ s < 2 * r then q + 1
        else if q % 2 = 0 then q else q + 1) * 2 ^ s := by
  have hP := two_pow_pos s
  have hb := binade_bounds hq hq' hr
  show roundQ (q * 2 ^ s + r) 1 = _
  unfold roundQ
  simp only [Nat.div_one, Nat.one_mul]
  by_cases h : q * 2 ^ s + r < 2 ^ 53
  · have hs : s = 0 := by
      rcases Nat.eq_zero_or_pos s with h0 | h0
      · exact h0
      · exfalso
        have h1 : 2 ^ (1 + 52) ≤ 2 ^ (s + 52) := Nat.pow_le_pow_right (by decide) (by omega)
        omega
    subst hs
    have hr0 : r = 0 := by simpa using hr
    subst hr0
    rw [if_pos h, rint_one]
    simp
  · rw [if_neg h, log2_binade hq hq' hr, Nat.add_sub_cancel, rint_add_mul q r (2 ^ s) hr]

/-- `rn53` is the identity on `m·2^t` with `m < 2^53` -/
theorem rn53_mul_two_pow {m t : Nat} (hm : m < 2 ^ 53) : rn53 (m * 2 ^ t) = m * 2 ^ t := by
  by_cases h : m * 2 ^ t < 2 ^ 53
  · show roundQ (m * 2 ^ t) 1 = _
    unfold roundQ
    simp only [Nat.div_one]
    rw [if_pos h, rint_one]
  · have hx : 2 ^ 52 ≤ m * 2 ^ t := by omega
    obtain ⟨q, s, r, hxe, hq, hq', hr, _⟩ := binade_decomp hx
    have hb := binade_bounds hq hq' hr
    have hst : s ≤ t := by
      by_contra hlt
      have h1 : 2 ^ (t + 53) ≤ 2 ^ (s + 52) := Nat.pow_le_pow_right (by decide) (by omega)
      have h2 : m * 2 ^ t < 2 ^ 53 * 2 ^ t := Nat.mul_lt_mul_of_pos_right hm (two_pow_pos t)
      rw [← Nat.pow_add, Nat.add_comm] at h2
      omega
    have hdvd : 2 ^ s ∣ m * 2 ^ t := Dvd.dvd.mul_left (Nat.pow_dvd_pow 2 hst) m
    have hr0 : r = 0 := by
      have h1 : (m * 2 ^ t) % 2 ^ s = 0 := Nat.mod_eq_zero_of_dvd hdvd
      rw [hxe, Nat.add_comm, Nat.add_mul_mod_self_right, Nat.mod_eq_of_lt hr] at h1
      exact h1
    subst hr0
    rw [hxe, rn53_binade_eq hq hq' hr]
    simp [two_pow_pos s]

theorem rn53_binade_eq_lo_iff {q s r : Nat} (hq : 2 ^ 52 ≤ q) (hq' : q < 2 ^ 53) (hr : r < 2 ^ s) :
    rn53 (q * 2 ^ s + r) = q * 2 ^ s ↔ (2 * r < 2 ^ s ∨ (2 * r = 2 ^ s ∧ q % 2 = 0)) := by
  have hP := two_pow_pos s
  rw [rn53_binade_eq hq hq' hr, Nat.mul_left_inj (by omega)]
  split_ifs <;> omega

theorem rn53_binade_eq_hi_iff {q s r : Nat} (hq : 2 ^ 52 ≤ q) (hq' : q < 2 ^ 53) (hr : r < 2 ^ s) :
    rn53 (q * 2 ^ s + r) = (q + 1) * 2 ^ s ↔ (2 ^ s < 2 * r ∨ (2 * r = 2 ^ s ∧ q % 2 = 1)) := by
  have hP := two_pow_pos s
  rw [rn53_binade_eq hq hq' hr, Nat.mul_left_inj (by omega)]
  split_ifs <;> omega

theorem rn53_binade_ge {q s r : Nat} (hq : 2 ^ 52 ≤ q) (hq' : q < 2 ^ 53) (hr : r < 2 ^ s) :
    q * 2 ^ s ≤ rn53 (q * 2 ^ s + r) := by
  rw [rn53_binade_eq hq hq' hr]
  apply Nat.mul_le_mul_right
  split_ifs <;> omega

theorem rn53_binade_le {q s r : Nat} (hq : 2 ^ 52 ≤ q) (hq' : q < 2 ^ 53) (hr : r < 2 ^ s) :
    rn53 (q * 2 ^ s + r) ≤ (q + 1) * 2 ^ s := by
  rw [rn53_binade_eq hq hq' hr]
  apply Nat.mul_le_mul_right
  split_ifs <;> omega

theorem mul_pow_ge {q s : Nat} (hq : 2 ^ 52 ≤ q) : 2 ^ (s + 52) ≤ q * 2 ^ s := by
  rw [Nat.pow_add, Nat.mul_comm]; exact Nat.mul_le_mul_right _ hq

theorem mul_pow_le {q s : Nat} (hq : q ≤ 2 ^ 53) : q * 2 ^ s ≤ 2 ^ (s + 53) := by
  rw [Nat.pow_add, Nat.mul_comm (2 ^ s)]; exact Nat.mul_le_mul_right _ hq

/-- representable lower bounds pass through rounding -/
theorem rn53_ge {q s x : Nat} (hq : 2 ^ 52 ≤ q) (hq' : q ≤ 2 ^ 53) (hx : q * 2 ^ s ≤ x) :
    q * 2 ^ s ≤ rn53 x := by
  have hlo := mul_pow_ge (s := s) hq
  have h52 : 2 ^ 52 ≤ 2 ^ (s + 52) := Nat.pow_le_pow_right (by decide) (by omega)
  obtain ⟨q1, s1, r1, hxe, h1, h1', hr1, _⟩ := binade_decomp (x := x) (by omega)
  have hb := binade_bounds h1 h1' hr1
  have hfl := rn53_binade_ge h1 h1' hr1
  rw [← hxe] at hfl hb
  refine Nat.le_trans ?_ hfl
  have hss : s ≤ s1 := by
    by_contra hlt
    have : 2 ^ (s1 + 53) ≤ 2 ^ (s + 52) := Nat.pow_le_pow_right (by decide) (by omega)
    omega
  obtain ⟨d, rfl⟩ := Nat.exists_eq_add_of_le hss
  rw [Nat.pow_add, ← Nat.mul_assoc, Nat.mul_right_comm]
  apply Nat.mul_le_mul_right
  rcases Nat.eq_zero_or_pos d with hd | hd
  · subst hd
    simp only [Nat.add_zero, Nat.pow_zero, Nat.mul_one] at *
    by_contra hlt
    have h2 : (q1 + 1) * 2 ^ s ≤ q * 2 ^ s := Nat.mul_le_mul_right _ (by omega)
    rw [Nat.add_mul] at h2
    omega
  · have h2 : 2 ^ 1 ≤ 2 ^ d := Nat.pow_le_pow_right (by decide) hd
    have h3 := Nat.mul_le_mul h1 h2
    omega

/-- representable upper bounds pass through rounding -/
theorem rn53_le {q s x : Nat} (hq' : q ≤ 2 ^ 53) (hx : x ≤ q * 2 ^ s) :
    rn53 x ≤ q * 2 ^ s := by
  by_cases hsmall : x < 2 ^ 53
  · have : rn53 x = x := by
      have := rn53_mul_two_pow (m := x) (t := 0) hsmall
      simpa using this
    omega
  · obtain ⟨q1, s1, r1, hxe, h1, h1', hr1, _⟩ := binade_decomp (x := x) (by omega)
    have hb := binade_bounds h1 h1' hr1
    rcases Nat.eq_zero_or_pos r1 with hr0 | hr0
    · subst hr0
      have : rn53 x = x := by
        rw [hxe]; simpa using rn53_mul_two_pow (t := s1) h1'
      omega
    · have hce := rn53_binade_le h1 h1' hr1
      rw [← hxe] at hce hb
      refine Nat.le_trans hce ?_
      have hhi := mul_pow_le (s := s) hq'
      have hlo1 := mul_pow_ge (s := s1) h1
      have hss : s1 ≤ s := by
        by_contra hlt
        have : 2 ^ (s + 53) ≤ 2 ^ (s1 + 52) := Nat.pow_le_pow_right (by decide) (by omega)
        omega
      obtain ⟨d, rfl⟩ := Nat.exists_eq_add_of_le hss
      rw [Nat.pow_add, ← Nat.mul_assoc, Nat.mul_right_comm] at hx ⊢
      apply Nat.mul_le_mul_right
      by_contra hlt
      have h2 : q * 2 ^ d * 2 ^ s1 ≤ q1 * 2 ^ s1 := Nat.mul_le_mul_right _ (by omega)
      omega

/-! ## `IntN` helpers -/

theorem bitsNat_natCast {sg : Bool} {b : Nat} (m : Nat) (h : m < 2 ^ b) :
    (⟨(m : Int)⟩ : IntN sg b).bitsNat = m := by
  unfold IntN.bitsNat
  simp only
  rw [← Int.natCast_mod, Int.toNat_natCast, Nat.mod_eq_of_lt h]

theorem wrap_natCast_unsigned {b : Nat} (m : Nat) (h : m < 2 ^ b) :
    (IntN.wrap (m : Int) : IntN false b) = ⟨(m : Int)⟩ := by
  unfold IntN.wrap IntN.wrapV
  simp only [Bool.false_and, Bool.false_eq_true, if_false]
  rw [← Int.natCast_mod, Nat.mod_eq_of_lt h]

theorem land_natCast (m k : Nat) (hm : m < 2 ^ 64) (hk : k < 2 ^ 64) :
    ((⟨(m : Int)⟩ : U64) &&& (⟨(k : Int)⟩ : U64)) = ⟨((m &&& k : Nat) : Int)⟩ := by
  show IntN.wrap ((Nat.land (IntN.bitsNat (⟨(m : Int)⟩ : U64)) (IntN.bitsNat (⟨(k : Int)⟩ : U64)) : Nat) : Int) = _
  rw [bitsNat_natCast m hm, bitsNat_natCast k hk]
  exact wrap_natCast_unsigned _ (Nat.lt_of_le_of_lt Nat.and_le_left hm)

theorem shr52_natCast (m : Nat) : ((⟨(m : Int)⟩ : U64) >>> (52 : I32)) = ⟨((m / 2 ^ 52 : Nat) : Int)⟩ := by
  show (⟨(m : Int) / ((2 ^ (Int.toNat 52) : Nat) : Int)⟩ : U64) = _
  simp

theorem mantissa_mask_eq : base.MANTISSA_MASK = ⟨((2 ^ 52 - 1 : Nat) : Int)⟩ := by decide +kernel
theorem exponent_mask_eq : base.EXPONENT_MASK = ⟨((2047 : Nat) : Int)⟩ := rfl

theorem beq_zero_natCast (m : Nat) : ((⟨(m : Int)⟩ : U64) ==. (0 : U64)) = decide (m = 0) := by
  show decide ((m : Int) = ((0 : Nat) : Int)) = decide (m = 0)
  simp

theorem one_u64 : (1 : U64) = ⟨((1 : Nat) : Int)⟩ := rfl

/-- `i64 as i16` on a small non-negative value -/
theorem cast_u64_i16 (m : Nat) (h : m < 2 ^ 15) :
    (RCast.cast (⟨(m : Int)⟩ : U64) : I16) = ⟨(m : Int)⟩ := by
  show (IntN.wrap (m : Int) : I16) = _
  unfold IntN.wrap IntN.wrapV
  have h1 : (m : Int) % ((2 ^ 16 : Nat) : Int) = (m : Int) := by
    rw [← Int.natCast_mod, Nat.mod_eq_of_lt (by omega)]
  simp only [h1, Bool.true_and]
  rw [if_neg]
  simp only [ge_iff_le, decide_eq_true_eq, not_le]
  exact_mod_cast h

/-! ## the bit pattern of a normal number and the fields `no_overlap` extracts from it -/

/-- bit pattern of `±q·2^s` (`2^52 ≤ q < 2^53`) -/
def bitsVal (sg : Bool) (q s : Nat) : Nat :=
  (if sg then 2 ^ 63 else 0) + ((s + 1) * 2 ^ 52 + (q - 2 ^ 52))

theorem bitsVal_lt (sg : Bool) {q s : Nat} (hq' : q < 2 ^ 53) (hs : s ≤ 2045) :
    bitsVal sg q s < 2 ^ 64 := by
  unfold bitsVal; cases sg <;> simp <;> omega

theorem bitsVal_exp (sg : Bool) {q s : Nat} (hq : 2 ^ 52 ≤ q) (hq' : q < 2 ^ 53) (hs : s ≤ 2045) :
    (bitsVal sg q s / 2 ^ 52) % 2 ^ 11 = s + 1 := by
  unfold bitsVal; cases sg <;> simp <;> omega

theorem bitsVal_mant (sg : Bool) {q s : Nat} (hq : 2 ^ 52 ≤ q) (hq' : q < 2 ^ 53) :
    bitsVal sg q s % 2 ^ 52 = q - 2 ^ 52 := by
  unfold bitsVal; cases sg <;> simp <;> omega

theorem bitsVal_parity (sg : Bool) {q s : Nat} (hq : 2 ^ 52 ≤ q) :
    bitsVal sg q s % 2 = q % 2 := by
  unfold bitsVal; cases sg <;> simp <;> omega

theorem to_bits_normal (sg : Bool) {q s : Nat} (hq : 2 ^ 52 ≤ q) (hq' : q < 2 ^ 53) :
    F64.to_bits (fin sg (q * 2 ^ s)) = ⟨(bitsVal sg q s : Int)⟩ := by
  unfold F64.to_bits
  rw [to_bits_nat_normal sg hq hq']; rfl

/-- the biased exponent field, as the `i16` the crate computes -/
theorem biased_exponent_normal (sg : Bool) {q s : Nat} (hq : 2 ^ 52 ≤ q) (hq' : q < 2 ^ 53)
    (hs : s ≤ 2045) :
    (RCast.cast ((F64.to_bits (fin sg (q * 2 ^ s)) >>> (52 : I32)) &&& base.EXPONENT_MASK) : I16)
      = ⟨((s + 1 : Nat) : Int)⟩ := by
  rw [to_bits_normal sg hq hq', shr52_natCast, exponent_mask_eq]
  have hlt := bitsVal_lt sg hq' hs
  rw [land_natCast _ _ (Nat.lt_of_le_of_lt (Nat.div_le_self _ _) hlt) (by decide)]
  have h : (bitsVal sg q s / 2 ^ 52) &&& 2047 = s + 1 := by
    rw [show (2047 : Nat) = 2 ^ 11 - 1 from rfl, Nat.and_two_pow_sub_one_eq_mod]
    exact bitsVal_exp sg hq hq' hs
  rw [h]
  exact cast_u64_i16 _ (by omega)

/-- the mantissa field is zero exactly for powers of two -/
theorem mantissa_zero_normal (sg : Bool) {q s : Nat} (hq : 2 ^ 52 ≤ q) (hq' : q < 2 ^ 53)
    (hs : s ≤ 2045) :
    ((F64.to_bits (fin sg (q * 2 ^ s)) &&& base.MANTISSA_MASK) ==. (0 : U64)) = decide (q = 2 ^ 52) := by
  rw [to_bits_normal sg hq hq', mantissa_mask_eq]
  rw [land_natCast _ _ (bitsVal_lt sg hq' hs) (by decide)]
  rw [Nat.and_two_pow_sub_one_eq_mod, bitsVal_mant sg hq hq']
  rw [beq_zero_natCast]
  exact decide_eq_decide.2 (by omega)

/-- the lowest bit is the parity of the 53-bit significand -/
theorem low_bit_normal (sg : Bool) {q s : Nat} (hq : 2 ^ 52 ≤ q) (hq' : q < 2 ^ 53)
    (hs : s ≤ 2045) :
    ((F64.to_bits (fin sg (q * 2 ^ s)) &&& (1 : U64)) ==. (0 : U64)) = decide (q % 2 = 0) := by
  rw [to_bits_normal sg hq hq']
  rw [one_u64, land_natCast _ _ (bitsVal_lt sg hq' hs) (by decide)]
  rw [Nat.and_one_is_mod, bitsVal_parity sg hq, beq_zero_natCast]

/-! the same three facts stated on the magnitude `n` itself (`Nat.log2` form) -/

theorem biased_exponent_wf (sg : Bool) {n : Nat} (hn : 2 ^ 52 ≤ n) (hr : Rep n) (hm : n ≤ maxFin) :
    (RCast.cast ((F64.to_bits (fin sg n) >>> (52 : I32)) &&& base.EXPONENT_MASK) : I16)
      = ⟨((Nat.log2 n - 51 : Nat) : Int)⟩ := by
  obtain ⟨q, s, rfl, hq, hq', hs⟩ := wf_normal_decomp hn hr hm
  rw [biased_exponent_normal sg hq hq' hs, log2_binade0 hq hq',
    show s + 52 - 51 = s + 1 by omega]

theorem mantissa_zero_wf (sg : Bool) {n : Nat} (hn : 2 ^ 52 ≤ n) (hr : Rep n) (hm : n ≤ maxFin) :
    ((F64.to_bits (fin sg n) &&& base.MANTISSA_MASK) ==. (0 : U64)) = decide (n = 2 ^ Nat.log2 n) := by
  obtain ⟨q, s, rfl, hq, hq', hs⟩ := wf_normal_decomp hn hr hm
  rw [mantissa_zero_normal sg hq hq' hs, log2_binade0 hq hq']
  apply decide_eq_decide.2
  have hP := two_pow_pos s
  rw [Nat.pow_add, Nat.mul_comm (2 ^ s) (2 ^ 52), Nat.mul_left_inj (by omega)]

theorem low_bit_wf (sg : Bool) {n : Nat} (hn : 2 ^ 52 ≤ n) (hr : Rep n) (hm : n ≤ maxFin) :
    ((F64.to_bits (fin sg n) &&& (1 : U64)) ==. (0 : U64))
      = decide ((n / 2 ^ (Nat.log2 n - 52)) % 2 = 0) := by
  obtain ⟨q, s, rfl, hq, hq', hs⟩ := wf_normal_decomp hn hr hm
  rw [low_bit_normal sg hq hq' hs, log2_binade0 hq hq', Nat.add_sub_cancel,
    Nat.mul_div_cancel _ (two_pow_pos s)]

/-! ## the `i16 → f64` cast and `exp2` on it -/

theorem ofInt_small (k : Int) (hk : k.natAbs < 2 ^ 53) :
    F64.ofInt k = if k = 0 then fin false 0 else fin (decide (k < 0)) (k.natAbs * 2 ^ 1074) := by
  have hP : (0 : Int) < ((2 ^ 1074 : Nat) : Int) := by exact_mod_cast two_pow_pos 1074
  unfold F64.ofInt roundSigned
  by_cases h0 : k = 0
  · subst h0; simp
  · have h1 : k * ((2 ^ 1074 : Nat) : Int) ≠ 0 := Int.mul_ne_zero h0 (by omega)
    rw [if_neg h1, if_neg h0]
    have h2 : (k * ((2 ^ 1074 : Nat) : Int)).natAbs = k.natAbs * 2 ^ 1074 := by
      rw [Int.natAbs_mul, Int.natAbs_natCast]
    have h3 : roundQ (k.natAbs * 2 ^ 1074) 1 = k.natAbs * 2 ^ 1074 := rn53_mul_two_pow hk
    have h4 : decide (k * ((2 ^ 1074 : Nat) : Int) < 0) = decide (k < 0) := by
      apply decide_eq_decide.2
      constructor
      · intro h; by_contra hn
        have : 0 ≤ k * ((2 ^ 1074 : Nat) : Int) := Int.mul_nonneg (by omega) (by omega)
        omega
      · intro h; exact Int.mul_neg_of_neg_of_pos h hP
    rw [h2, h3, h4]
    unfold pack
    rw [if_neg]
    unfold maxFin
    have : k.natAbs * 2 ^ 1074 ≤ (2 ^ 53 - 1) * 2 ^ 2045 :=
      Nat.mul_le_mul (by omega) (Nat.pow_le_pow_right (by decide) (by decide))
    omega

theorem exp2_ofInt (k : Int) (hk : k.natAbs < 2 ^ 53) : F64.exp2 (F64.ofInt k) = F64.exp2Int k := by
  rw [ofInt_small k hk]
  by_cases h0 : k = 0
  · subst h0; simp [F64.exp2, F64.unit]
  · rw [if_neg h0]
    have hP := two_pow_pos 1074
    unfold F64.exp2 F64.unit
    simp only [Nat.mul_mod_left, if_true, Nat.mul_div_cancel _ hP]
    congr 1
    by_cases hneg : k < 0
    · simp only [hneg, decide_true, if_true]; omega
    · simp only [hneg, decide_false, Bool.false_eq_true, if_false]; omega

theorem exp2Int_limit (s c : Nat) (hs : s ≤ 2045) :
    F64.exp2Int ((s : Int) - 1074 - (c : Int)) = fin false (if c ≤ s then 2 ^ (s - c) else 0) := by
  unfold F64.exp2Int
  rw [if_neg (by omega)]
  by_cases h : c ≤ s
  · rw [if_neg (by omega), if_pos h]
    congr 2
    omega
  · rw [if_pos (by omega), if_neg h]

/-- the limit `libm::exp2((biased_exponent - offset) as f64)` for offset `1075 + c` -/
theorem limit_eq (s c : Nat) (hs : s ≤ 2045) (hc : c ≤ 2) (off : I16) (hoff : off.v = 1075 + (c : Int)) :
    F64.exp2 (RCast.cast ((⟨((s + 1 : Nat) : Int)⟩ : I16) -. off) : F64)
      = fin false (if c ≤ s then 2 ^ (s - c) else 0) := by
  show F64.exp2 (F64.ofInt (((s + 1 : Nat) : Int) - off.v)) = _
  rw [hoff, exp2_ofInt _ (by omega)]
  have : ((s + 1 : Nat) : Int) - (1075 + (c : Int)) = (s : Int) - 1074 - (c : Int) := by
    push_cast; ring
  rw [this, exp2Int_limit s c hs]

end F64.Bits
