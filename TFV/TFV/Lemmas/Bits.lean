/-
Lemmas.Bits — facts about binades, `F64.to_bits_nat`, `F64.to_bits`, `F64.classify` and the `IntN` bit
operations on the values that occur in `base.no_overlap`.
-/
import TFV.Spec.Defs
import TFV.Spec.Rounding
import Mathlib.Tactic.Ring
import Mathlib.Tactic.Linarith
import Mathlib.Tactic.NormNum

set_option exponentiation.threshold 4096

namespace F64.Bits

/-! ## binades -/

theorem two_pow_pos (k : Nat) : 0 < 2 ^ k := Nat.pow_pos (by decide)

/-- `q·2^s + r` with a 53-bit `q` and `r < 2^s` lies in the binade `[2^(s+52), 2^(s+53))`. -/
theorem binade_bounds {q s r : Nat} (hq : 2 ^ 52 ≤ q) (hq' : q < 2 ^ 53) (hr : r < 2 ^ s) :
    2 ^ (s + 52) ≤ q * 2 ^ s + r ∧ q * 2 ^ s + r < 2 ^ (s + 53) := by
  have hP := two_pow_pos s
  rw [Nat.pow_add, Nat.pow_add]
  constructor
  · have := Nat.mul_le_mul_right (2 ^ s) hq
    rw [Nat.mul_comm (2 ^ s) (2 ^ 52)]
    omega
  · have h1 : (q + 1) * 2 ^ s ≤ 2 ^ 53 * 2 ^ s := Nat.mul_le_mul_right _ hq'
    rw [Nat.mul_comm (2 ^ s) (2 ^ 53)]
    rw [Nat.add_mul] at h1
    omega

theorem log2_binade {q s r : Nat} (hq : 2 ^ 52 ≤ q) (hq' : q < 2 ^ 53) (hr : r < 2 ^ s) :
    Nat.log2 (q * 2 ^ s + r) = s + 52 := by
  have hb := binade_bounds hq hq' hr
  have hne : q * 2 ^ s + r ≠ 0 := by
    have := two_pow_pos (s + 52); omega
  exact (Nat.log2_eq_iff hne).2 hb

theorem log2_binade0 {q s : Nat} (hq : 2 ^ 52 ≤ q) (hq' : q < 2 ^ 53) :
    Nat.log2 (q * 2 ^ s) = s + 52 := by
  have := log2_binade (s := s) (r := 0) hq hq' (two_pow_pos s)
  simpa using this

/-- every `x ≥ 2^52` decomposes in its binade -/
theorem binade_decomp {x : Nat} (hx : 2 ^ 52 ≤ x) :
    ∃ q s r, x = q * 2 ^ s + r ∧ 2 ^ 52 ≤ q ∧ q < 2 ^ 53 ∧ r < 2 ^ s ∧ Nat.log2 x = s + 52 := by
  have hne : x ≠ 0 := by omega
  have hL : 52 ≤ Nat.log2 x := (Nat.le_log2 hne).2 hx
  obtain ⟨s, hs⟩ : ∃ s, Nat.log2 x = s + 52 := ⟨Nat.log2 x - 52, by omega⟩
  have hlo : 2 ^ (s + 52) ≤ x := by rw [← hs]; exact Nat.log2_self_le hne
  have hhi : x < 2 ^ (s + 53) := by
    have := @Nat.lt_log2_self x; rw [hs] at this; exact this
  have hP := two_pow_pos s
  refine ⟨x / 2 ^ s, s, x % 2 ^ s, ?_, ?_, ?_, Nat.mod_lt _ hP, hs⟩
  · have := Nat.div_add_mod x (2 ^ s); rw [Nat.mul_comm] at this; omega
  · rw [Nat.le_div_iff_mul_le hP, ← Nat.pow_add, Nat.add_comm]; exact hlo
  · rw [Nat.div_lt_iff_lt_mul hP, ← Nat.pow_add, Nat.add_comm]; exact hhi

theorem maxFin_lt : maxFin < 2 ^ 2098 := by
  unfold maxFin
  rw [show (2098 : Nat) = 53 + 2045 from rfl, Nat.pow_add]
  exact Nat.mul_lt_mul_of_pos_right (by decide) (two_pow_pos _)

/-- a well-formed normal magnitude is `q·2^s` with a 53-bit `q` -/
theorem wf_normal_decomp {n : Nat} (hn : 2 ^ 52 ≤ n) (hr : Rep n) (hm : n ≤ maxFin) :
    ∃ q s, n = q * 2 ^ s ∧ 2 ^ 52 ≤ q ∧ q < 2 ^ 53 ∧ s ≤ 2045 := by
  obtain ⟨q, s, r, hx, hq, hq', hrr, hlog⟩ := binade_decomp hn
  have hs : s ≤ 2045 := by
    have hne : n ≠ 0 := by omega
    have h1 : Nat.log2 n < 2098 := (Nat.log2_lt hne).2 (Nat.lt_of_le_of_lt hm maxFin_lt)
    omega
  rcases hr with h | h
  · -- n < 2^53 : s = 0
    have hne : n ≠ 0 := by omega
    have : Nat.log2 n < 53 := (Nat.log2_lt hne).2 h
    have hs0 : s = 0 := by omega
    subst hs0
    refine ⟨n, 0, by simp, hn, h, by omega⟩
  · rw [hlog] at h
    have hs' : s + 52 - 52 = s := by omega
    rw [hs'] at h
    exact ⟨n / 2 ^ s, s, h.symm, by
      have hP := two_pow_pos s
      have : n / 2 ^ s = q := by
        rw [hx, Nat.add_comm, Nat.add_mul_div_right _ _ hP, Nat.div_eq_of_lt hrr, Nat.zero_add]
      rw [this]; exact hq, by
      have hP := two_pow_pos s
      have : n / 2 ^ s = q := by
        rw [hx, Nat.add_comm, Nat.add_mul_div_right _ _ hP, Nat.div_eq_of_lt hrr, Nat.zero_add]
      rw [this]; exact hq', hs⟩

/-! ## `to_bits_nat` of a normal number -/

theorem to_bits_nat_normal (sg : Bool) {q s : Nat} (hq : 2 ^ 52 ≤ q) (hq' : q < 2 ^ 53) :
    to_bits_nat (fin sg (q * 2 ^ s)) =
      (if sg then 2 ^ 63 else 0) + ((s + 1) * 2 ^ 52 + (q - 2 ^ 52)) := by
  have hP := two_pow_pos s
  show (if sg then 2 ^ 63 else 0) + (if q * 2 ^ s < 2 ^ 53 then q * 2 ^ s else
      (Nat.log2 (q * 2 ^ s) - 52 + 1) * 2 ^ 52 + (q * 2 ^ s / 2 ^ (Nat.log2 (q * 2 ^ s) - 52) - 2 ^ 52)) = _
  by_cases h : q * 2 ^ s < 2 ^ 53
  · have hs : s = 0 := by
      rcases Nat.eq_zero_or_pos s with h0 | h0
      · exact h0
      · exfalso
        have : 2 ^ 1 ≤ 2 ^ s := Nat.pow_le_pow_right (by decide) h0
        have := Nat.mul_le_mul hq this
        omega
    subst hs
    simp only [Nat.pow_zero, Nat.mul_one] at h ⊢
    rw [if_pos h]
    omega
  · rw [if_neg h]
    simp only [log2_binade0 hq hq', Nat.add_sub_cancel, Nat.mul_div_cancel _ hP]

end F64.Bits
