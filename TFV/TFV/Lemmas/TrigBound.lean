/-
Lemmas.TrigBound — real-analysis layer for C16 (sin / cos accuracy).

 1. Taylor polynomials of `Real.sin`, `Real.cos` of arbitrary degree with an explicit remainder, from
    `Complex.exp_bound` applied to `x·I`.
 2. A reflective polynomial bounder: polynomials are `List ℚ` (coefficients, low degree first), `peval` evaluates
    them at a real; `pshift` is the Taylor shift; `absb` the trivial bound `Σ |q_j| h^j` of the shifted polynomial
    on `[m-h, m+h]`; `checkAll` runs the bounder on a uniform subdivision and is evaluated by the kernel.
 3. The coefficient tables of the crate's `restricted_sin` / `restricted_cos` as exact rationals, and the
    approximation error of the two polynomials on `|r| ≤ 393/500 = 0.786 > π/4`:
      `sin_poly_abs`     : `|sin r − r·(r²·P_s(r²) + 1)| ≤ 9·2^-72`   (< 2^-68.8; the true maximum is ≈ 2^-69.1)
      `sin_poly_rel`     : `… ≤ |r|·11·2^-70`,   `sin_poly_rel_sin` : `… ≤ |sin r|·13·2^-70`  (< 2^-66.29)
      `cos_poly_abs`     : `|cos r − (r²·(r²·P_c(r²) − 1/2) + 1)| ≤ 2^-74`   (true maximum ≈ 2^-74.4)
    Method: Taylor polynomial of degree 21 / 22 with remainder, and the difference (Taylor − table), a polynomial in
    `t = r²` with massive cancellation, bounded on 64 cells of `[0, 0.786²]` by Taylor shift to the cell centre.
 4. `sin (ρ + k·π/2)`, `cos (ρ + k·π/2)` by `k mod 4`.

No dependency on the model: `Properties/C16t.lean` proves that the literal tables here are the model's tables.
-/
import Mathlib.Analysis.Complex.Trigonometric
import Mathlib.Analysis.Complex.Exponential
import Mathlib.Analysis.SpecialFunctions.Trigonometric.Bounds
import Mathlib.Tactic.Ring
import Mathlib.Tactic.Linarith
import Mathlib.Tactic.NormNum
import Mathlib.Tactic.Positivity
import Mathlib.Tactic.IntervalCases

set_option exponentiation.threshold 3000

namespace TrigBound

open Finset

/-! ## 1. Taylor polynomials of sin and cos -/

/-- the partial sum of `exp (x·I)` with `2n` terms splits into the cos and sin Taylor polynomials -/
theorem exp_partial_sum (x : ℝ) (n : ℕ) :
    (∑ m ∈ range (2 * n), ((x : ℂ) * Complex.I) ^ m / (m.factorial : ℂ))
      = ((∑ k ∈ range n, (-1) ^ k * x ^ (2 * k) / ((2 * k).factorial : ℝ) : ℝ) : ℂ)
        + ((∑ k ∈ range n, (-1) ^ k * x ^ (2 * k + 1) / ((2 * k + 1).factorial : ℝ) : ℝ) : ℂ) * Complex.I := by
  induction n with
  | zero => simp
  | succ n ih =>
    rw [show 2 * (n + 1) = 2 * n + 1 + 1 by ring, sum_range_succ, sum_range_succ, ih, sum_range_succ,
      sum_range_succ]
    have e1 : ((x : ℂ) * Complex.I) ^ (2 * n) = ((-1) ^ n * x ^ (2 * n) : ℂ) := by
      rw [mul_pow, pow_mul Complex.I, Complex.I_sq]; ring
    have e2 : ((x : ℂ) * Complex.I) ^ (2 * n + 1) = ((-1) ^ n * x ^ (2 * n + 1) : ℂ) * Complex.I := by
      rw [pow_succ, e1]; ring
    rw [e1, e2]
    push_cast
    ring

theorem taylor_aux (x : ℝ) (hx : |x| ≤ 1) (n : ℕ) (hn : 0 < n) :
    ‖Complex.exp ((x : ℂ) * Complex.I)
        - (((∑ k ∈ range n, (-1) ^ k * x ^ (2 * k) / ((2 * k).factorial : ℝ) : ℝ) : ℂ)
        + ((∑ k ∈ range n, (-1) ^ k * x ^ (2 * k + 1) / ((2 * k + 1).factorial : ℝ) : ℝ) : ℂ) * Complex.I)‖
      ≤ |x| ^ (2 * n) * (((2 * n).succ : ℝ) * (((2 * n).factorial : ℝ) * ((2 * n : ℕ) : ℝ))⁻¹) := by
  have hz : ‖(x : ℂ) * Complex.I‖ = |x| := by simp
  have h := Complex.exp_bound (x := (x : ℂ) * Complex.I) (by rw [hz]; exact hx) (n := 2 * n) (by omega)
  rw [exp_partial_sum, hz] at h
  exact h

/-- **Taylor polynomial of sin** with `n` terms (degree `2n-1`), `|x| ≤ 1` -/
theorem sin_taylor (x : ℝ) (hx : |x| ≤ 1) (n : ℕ) (hn : 0 < n) :
    |Real.sin x - ∑ k ∈ range n, (-1) ^ k * x ^ (2 * k + 1) / ((2 * k + 1).factorial : ℝ)|
      ≤ |x| ^ (2 * n) * (((2 * n).succ : ℝ) * (((2 * n).factorial : ℝ) * ((2 * n : ℕ) : ℝ))⁻¹) := by
  refine le_trans ?_ (taylor_aux x hx n hn)
  refine le_trans (le_of_eq ?_) (Complex.abs_im_le_norm _)
  rw [Complex.sub_im, Complex.exp_ofReal_mul_I_im, Complex.add_im, Complex.ofReal_im, Complex.mul_I_im,
    Complex.ofReal_re, zero_add]

/-- **Taylor polynomial of cos** with `n` terms (degree `2n-2`), `|x| ≤ 1` -/
theorem cos_taylor (x : ℝ) (hx : |x| ≤ 1) (n : ℕ) (hn : 0 < n) :
    |Real.cos x - ∑ k ∈ range n, (-1) ^ k * x ^ (2 * k) / ((2 * k).factorial : ℝ)|
      ≤ |x| ^ (2 * n) * (((2 * n).succ : ℝ) * (((2 * n).factorial : ℝ) * ((2 * n : ℕ) : ℝ))⁻¹) := by
  refine le_trans ?_ (taylor_aux x hx n hn)
  refine le_trans (le_of_eq ?_) (Complex.abs_re_le_norm _)
  rw [Complex.sub_re, Complex.exp_ofReal_mul_I_re, Complex.add_re, Complex.ofReal_re, Complex.mul_I_re,
    Complex.ofReal_im, neg_zero, add_zero]

/-! ## 2. A reflective bounder for rational polynomials on an interval -/

/-- evaluation of a coefficient list (low degree first) at a real point -/
def peval (p : List ℚ) (x : ℝ) : ℝ := p.foldr (fun c acc => (c : ℝ) + x * acc) 0

@[simp] theorem peval_nil (x : ℝ) : peval [] x = 0 := rfl
@[simp] theorem peval_cons (c : ℚ) (p : List ℚ) (x : ℝ) : peval (c :: p) x = (c : ℝ) + x * peval p x := rfl

/-- evaluation at a rational point -/
def pevalQ (p : List ℚ) (x : ℚ) : ℚ := p.foldr (fun c acc => c + x * acc) 0

@[simp] theorem pevalQ_nil (x : ℚ) : pevalQ [] x = 0 := rfl
@[simp] theorem pevalQ_cons (c : ℚ) (p : List ℚ) (x : ℚ) : pevalQ (c :: p) x = c + x * pevalQ p x := rfl

theorem pevalQ_cast (p : List ℚ) (x : ℚ) : ((pevalQ p x : ℚ) : ℝ) = peval p (x : ℝ) := by
  induction p with
  | nil => simp
  | cons c p ih => rw [pevalQ_cons, peval_cons, ← ih]; push_cast; ring

/-- add a constant -/
def paddc (c : ℚ) : List ℚ → List ℚ
  | [] => [c]
  | b :: q => (c + b) :: q

theorem peval_paddc (c : ℚ) (q : List ℚ) (x : ℝ) : peval (paddc c q) x = (c : ℝ) + peval q x := by
  cases q with
  | nil => simp [paddc]
  | cons b q => simp [paddc]; ring

/-- coefficients of `(a + s) · q(s)` -/
def mulLin (a : ℚ) : List ℚ → List ℚ
  | [] => []
  | b :: q => (a * b) :: paddc b (mulLin a q)

theorem peval_mulLin (a : ℚ) (q : List ℚ) (s : ℝ) : peval (mulLin a q) s = ((a : ℝ) + s) * peval q s := by
  induction q with
  | nil => simp [mulLin]
  | cons b q ih => simp only [mulLin, peval_cons, peval_paddc, ih]; push_cast; ring

/-- Taylor shift: coefficients of `s ↦ p(a + s)` -/
def pshift (p : List ℚ) (a : ℚ) : List ℚ := p.foldr (fun c q => paddc c (mulLin a q)) []

theorem peval_pshift (p : List ℚ) (a : ℚ) (s : ℝ) : peval (pshift p a) s = peval p ((a : ℝ) + s) := by
  induction p with
  | nil => rfl
  | cons c p ih =>
    have e : pshift (c :: p) a = paddc c (mulLin a (pshift p a)) := rfl
    rw [e, peval_paddc, peval_mulLin, ih, peval_cons]

/-- `Σ |q_j| h^j` -/
def absb (q : List ℚ) (h : ℚ) : ℚ := q.foldr (fun c acc => |c| + h * acc) 0

theorem absb_nonneg (q : List ℚ) {h : ℚ} (hh : 0 ≤ h) : 0 ≤ absb q h := by
  induction q with
  | nil => exact le_refl _
  | cons c q ih =>
    have e : absb (c :: q) h = |c| + h * absb q h := rfl
    rw [e]; positivity

theorem peval_le_absb (q : List ℚ) {h : ℚ} {s : ℝ} (hs : |s| ≤ (h : ℝ)) : |peval q s| ≤ ((absb q h : ℚ) : ℝ) := by
  have hh : (0 : ℝ) ≤ (h : ℝ) := le_trans (abs_nonneg _) hs
  induction q with
  | nil => simp [absb]
  | cons c q ih =>
    have e : absb (c :: q) h = |c| + h * absb q h := rfl
    rw [e, peval_cons]
    push_cast
    refine le_trans (abs_add_le _ _) ?_
    rw [abs_mul]
    have h0 : (0 : ℝ) ≤ ((absb q h : ℚ) : ℝ) := le_trans (abs_nonneg _) ih
    have := mul_le_mul hs ih (abs_nonneg _) hh
    linarith

/-- the bounder on the `i`-th of the cells `[lo + i·w, lo + (i+1)·w]` -/
def cellBound (p : List ℚ) (lo w : ℚ) (i : ℕ) : ℚ := absb (pshift p (lo + ((2 * i + 1 : ℕ) : ℚ) / 2 * w)) (w / 2)

theorem cell_sound (p : List ℚ) (lo w : ℚ) (i : ℕ) {x : ℝ}
    (h1 : (lo : ℝ) + (i : ℝ) * (w : ℝ) ≤ x) (h2 : x ≤ (lo : ℝ) + ((i : ℝ) + 1) * (w : ℝ)) :
    |peval p x| ≤ ((cellBound p lo w i : ℚ) : ℝ) := by
  have e : x = ((lo + ((2 * i + 1 : ℕ) : ℚ) / 2 * w : ℚ) : ℝ) + (x - ((lo + ((2 * i + 1 : ℕ) : ℚ) / 2 * w : ℚ) : ℝ)) := by
    ring
  rw [e, ← peval_pshift]
  refine peval_le_absb _ ?_
  push_cast
  rw [abs_le]
  constructor <;> linarith

/-- every point of `[lo, lo + n·w]` lies in one of the `n` cells -/
theorem exists_cell {lo w : ℚ} {n : ℕ} (hw : 0 < w) (hn : 0 < n) {x : ℝ}
    (h1 : (lo : ℝ) ≤ x) (h2 : x ≤ (lo : ℝ) + (n : ℝ) * (w : ℝ)) :
    ∃ i, i < n ∧ (lo : ℝ) + (i : ℝ) * (w : ℝ) ≤ x ∧ x ≤ (lo : ℝ) + ((i : ℝ) + 1) * (w : ℝ) := by
  have hwr : (0 : ℝ) < (w : ℝ) := by exact_mod_cast hw
  set y : ℝ := (x - (lo : ℝ)) / (w : ℝ) with hy
  have hy0 : 0 ≤ y := div_nonneg (by linarith) hwr.le
  have hyn : y ≤ (n : ℝ) := by rw [hy, div_le_iff₀ hwr]; linarith
  have hx : x = (lo : ℝ) + y * (w : ℝ) := by rw [hy]; field_simp; ring
  have hfl : (⌊y⌋₊ : ℝ) ≤ y := Nat.floor_le hy0
  have hfl2 : y < (⌊y⌋₊ : ℝ) + 1 := Nat.lt_floor_add_one y
  by_cases hc : ⌊y⌋₊ < n
  · refine ⟨⌊y⌋₊, hc, ?_, ?_⟩
    · rw [hx]; nlinarith
    · rw [hx]; nlinarith
  · have hge : (n : ℝ) ≤ (⌊y⌋₊ : ℝ) := by exact_mod_cast Nat.le_of_not_lt hc
    have hyeq : y = (n : ℝ) := le_antisymm hyn (le_trans hge hfl)
    have hcast : ((n - 1 : ℕ) : ℝ) = (n : ℝ) - 1 := by
      rw [Nat.cast_sub hn]; simp
    refine ⟨n - 1, by omega, ?_, ?_⟩
    · rw [hx, hyeq, hcast]; nlinarith
    · rw [hx, hyeq, hcast]; nlinarith

/-- run the bounder on `n` cells of `[lo, lo + n·w]` (with `lo ≥ 0`): on every cell `|p| ≤ B1` and
`p(x)²·x ≤ B2` (the latter bounds `√x·p(x)`) -/
def checkAllW (p : List ℚ) (lo w : ℚ) (n : ℕ) (B1 B2 : ℚ) : Bool :=
  (List.range n).all fun i =>
    decide (cellBound p lo w i ≤ B1) && decide (cellBound p lo w i ^ 2 * (lo + ((i + 1 : ℕ) : ℚ) * w) ≤ B2)

theorem checkAllW_sound {p : List ℚ} {lo w : ℚ} {n : ℕ} {B1 B2 : ℚ} (hw : 0 < w) (hn : 0 < n)
    (h : checkAllW p lo w n B1 B2 = true)
    {x : ℝ} (h0 : 0 ≤ x) (h1 : (lo : ℝ) ≤ x) (h2 : x ≤ (lo : ℝ) + (n : ℝ) * (w : ℝ)) :
    |peval p x| ≤ (B1 : ℝ) ∧ (peval p x) ^ 2 * x ≤ (B2 : ℝ) := by
  obtain ⟨i, hi, hx1, hx2⟩ := exists_cell hw hn h1 h2
  have hc := (List.all_eq_true.1 h) i (List.mem_range.2 hi)
  rw [Bool.and_eq_true] at hc
  have hc1 : cellBound p lo w i ≤ B1 := of_decide_eq_true hc.1
  have hc2 : cellBound p lo w i ^ 2 * (lo + ((i + 1 : ℕ) : ℚ) * w) ≤ B2 := of_decide_eq_true hc.2
  have hs := cell_sound p lo w i hx1 hx2
  refine ⟨le_trans hs (by exact_mod_cast hc1), ?_⟩
  have hc2r : ((cellBound p lo w i : ℚ) : ℝ) ^ 2 * ((lo : ℝ) + ((i : ℝ) + 1) * (w : ℝ)) ≤ (B2 : ℝ) := by
    have := (Rat.cast_le (K := ℝ)).2 hc2
    push_cast at this
    exact this
  refine le_trans ?_ hc2r
  have hsq : (peval p x) ^ 2 ≤ ((cellBound p lo w i : ℚ) : ℝ) ^ 2 := by
    rw [← sq_abs]; exact pow_le_pow_left₀ (abs_nonneg _) hs 2
  exact mul_le_mul hsq hx2 h0 (sq_nonneg _)

/-! ## 3. The coefficient tables and the approximation error -/

/-- `hi + lo` of the seven entries of the crate's `SIN_COEFFS`, exactly
(`C16t.SIN_COEFFS_val` proves that these are the model's values) -/
def sinCoeffs : List ℚ :=
  [(-54086425609737787558103145832613 : ℚ) / 2 ^ 108,
   (173076561951160483314119683210883 : ℚ) / 2 ^ 114,
   (-131867856724536900403034625310015 : ℚ) / 2 ^ 119,
   (468863490347251281672963922972583 : ℚ) / 2 ^ 127,
   (-2182346055938702493254418971099771 : ℚ) / 2 ^ 136,
   (223819723040325563932520534784513 : ℚ) / 2 ^ 140,
   (-135138810839042299644058829908069 : ℚ) / 2 ^ 147]

/-- `hi + lo` of the seven entries of the crate's `COS_COEFFS`, exactly -/
def cosCoeffs : List ℚ :=
  [(54086425609737787707673275224765 : ℚ) / 2 ^ 110,
   (-115384374634107135883141038185829 : ℚ) / 2 ^ 116,
   (65933928362300208924224305293607 : ℚ) / 2 ^ 121,
   (-46886349041954219394517442527681 : ℚ) / 2 ^ 127,
   (363724357065553391555960273789855 : ℚ) / 2 ^ 137,
   (-127897913758731756389100007883969 : ℚ) / 2 ^ 143,
   (135235858275360883888735583688401 : ℚ) / 2 ^ 151]

/-- the exact polynomial behind `restricted_sin`: `r·(r²·P_s(r²) + 1)` -/
noncomputable def SinPoly (r : ℝ) : ℝ := r * (r ^ 2 * peval sinCoeffs (r ^ 2) + 1)

/-- the exact polynomial behind `restricted_cos`: `r²·(r²·P_c(r²) − 1/2) + 1` -/
noncomputable def CosPoly (r : ℝ) : ℝ := r ^ 2 * (r ^ 2 * peval cosCoeffs (r ^ 2) + -(1 / 2)) + 1

/-- rational versions, for rational arguments -/
def sinPolyQ (r : ℚ) : ℚ := r * (r ^ 2 * pevalQ sinCoeffs (r ^ 2) + 1)
def cosPolyQ (r : ℚ) : ℚ := r ^ 2 * (r ^ 2 * pevalQ cosCoeffs (r ^ 2) + -(1 / 2)) + 1

theorem sinPolyQ_cast (r : ℚ) : ((sinPolyQ r : ℚ) : ℝ) = SinPoly (r : ℝ) := by
  unfold sinPolyQ SinPoly; push_cast; rw [pevalQ_cast]; push_cast; ring

theorem cosPolyQ_cast (r : ℚ) : ((cosPolyQ r : ℚ) : ℝ) = CosPoly (r : ℝ) := by
  unfold cosPolyQ CosPoly; push_cast; rw [pevalQ_cast]; push_cast; ring

/-- coefficientwise difference (the shorter list padded with zeros) -/
def psub : List ℚ → List ℚ → List ℚ
  | [], q => q.map (fun c => -c)
  | p, [] => p
  | a :: p, b :: q => (a - b) :: psub p q

theorem peval_neg_map (q : List ℚ) (x : ℝ) : peval (q.map (fun c => -c)) x = -peval q x := by
  induction q with
  | nil => simp
  | cons c q ih => simp only [List.map_cons, peval_cons, ih]; push_cast; ring

theorem peval_psub (p q : List ℚ) (x : ℝ) : peval (psub p q) x = peval p x - peval q x := by
  induction p generalizing q with
  | nil => simp [psub, peval_neg_map]
  | cons a p ih =>
    cases q with
    | nil => simp [psub]
    | cons b q => simp only [psub, peval_cons, ih]; push_cast; ring

/-- Taylor coefficients of `(sin r − r)/r³` in `t = r²` -/
def sinTaylor (n : ℕ) : List ℚ := (List.range n).map fun k => (-1 : ℚ) ^ (k + 1) / ((2 * k + 3).factorial : ℚ)

/-- Taylor coefficients of `(cos r − 1 + r²/2)/r⁴` in `t = r²` -/
def cosTaylor (n : ℕ) : List ℚ := (List.range n).map fun k => (-1 : ℚ) ^ k / ((2 * k + 4).factorial : ℚ)

/-- `t·(Taylor − table)`: `sin r − SinPoly r = r · sinG(r²) + Taylor remainder` -/
def sinG : List ℚ := 0 :: psub (sinTaylor 10) sinCoeffs

/-- `t²·(Taylor − table)`: `cos r − CosPoly r = cosH(r²) + Taylor remainder` -/
def cosH : List ℚ := 0 :: 0 :: psub (cosTaylor 10) cosCoeffs

set_option maxRecDepth 100000 in
/-- kernel-evaluated: 64 cells of `[0, 0.786²]`; `|sinG| ≤ 43·2^-72`, `√t·|sinG| ≤ 17·2^-73` -/
theorem sinG_check : checkAllW sinG 0 ((393 / 500) ^ 2 / 64) 64 (43 / 2 ^ 72) ((17 / 2 ^ 73) ^ 2) = true := by
  decide +kernel

set_option maxRecDepth 100000 in
/-- kernel-evaluated: 64 cells of `[0, 0.786²]`; `|cosH| ≤ 7·2^-77` -/
theorem cosH_check : checkAllW cosH 0 ((393 / 500) ^ 2 / 64) 64 (7 / 2 ^ 77) 1 = true := by
  decide +kernel

theorem sinTaylor_10 : sinTaylor 10 = [-1 / 6, 1 / 120, -1 / 5040, 1 / 362880, -1 / 39916800, 1 / 6227020800, -1 / 1307674368000, 1 / 355687428096000, -1 / 121645100408832000, 1 / 51090942171709440000] := by
  decide +kernel

theorem cosTaylor_10 : cosTaylor 10 = [1 / 24, -1 / 720, 1 / 40320, -1 / 3628800, 1 / 479001600, -1 / 87178291200, 1 / 20922789888000, -1 / 6402373705728000, 1 / 2432902008176640000, -1 / 1124000727777607680000] := by
  decide +kernel

theorem sin_sum_11 (x : ℝ) :
    ∑ k ∈ range 11, (-1) ^ k * x ^ (2 * k + 1) / ((2 * k + 1).factorial : ℝ)
      = x * (x ^ 2 * peval (sinTaylor 10) (x ^ 2) + 1) := by
  rw [sinTaylor_10]
  simp only [sum_range_succ, sum_range_zero, peval_cons, peval_nil, Nat.factorial]
  push_cast
  ring

theorem cos_sum_12 (x : ℝ) :
    ∑ k ∈ range 12, (-1) ^ k * x ^ (2 * k) / ((2 * k).factorial : ℝ)
      = x ^ 2 * (x ^ 2 * peval (cosTaylor 10) (x ^ 2) + -(1 / 2)) + 1 := by
  rw [cosTaylor_10]
  simp only [sum_range_succ, sum_range_zero, peval_cons, peval_nil, Nat.factorial]
  push_cast
  ring

theorem sq_range {r : ℝ} (hr : |r| ≤ 393 / 500) :
    0 ≤ r ^ 2 ∧ ((0 : ℚ) : ℝ) ≤ r ^ 2 ∧
      r ^ 2 ≤ ((0 : ℚ) : ℝ) + ((64 : ℕ) : ℝ) * (((393 / 500) ^ 2 / 64 : ℚ) : ℝ) := by
  have h := pow_le_pow_left₀ (abs_nonneg r) hr 2
  rw [sq_abs] at h
  refine ⟨sq_nonneg r, by simpa using sq_nonneg r, ?_⟩
  push_cast
  linarith

theorem sin_rem_num :
    ((393 : ℝ) / 500) ^ 21 * (((2 * 11).succ : ℝ) * (((2 * 11).factorial : ℝ) * ((2 * 11 : ℕ) : ℝ))⁻¹) ≤ 1 / 2 ^ 76 := by
  norm_num [Nat.factorial]

theorem cos_rem_num :
    ((393 : ℝ) / 500) ^ 24 * (((2 * 12).succ : ℝ) * (((2 * 12).factorial : ℝ) * ((2 * 12 : ℕ) : ℝ))⁻¹) ≤ 1 / 2 ^ 77 := by
  norm_num [Nat.factorial]

theorem sin_decomp (r : ℝ) :
    Real.sin r - SinPoly r
      = (Real.sin r - ∑ k ∈ range 11, (-1) ^ k * r ^ (2 * k + 1) / ((2 * k + 1).factorial : ℝ))
        + r * peval sinG (r ^ 2) := by
  rw [sin_sum_11]
  unfold SinPoly sinG
  rw [peval_cons, peval_psub]
  push_cast
  ring

theorem cos_decomp (r : ℝ) :
    Real.cos r - CosPoly r
      = (Real.cos r - ∑ k ∈ range 12, (-1) ^ k * r ^ (2 * k) / ((2 * k).factorial : ℝ))
        + peval cosH (r ^ 2) := by
  rw [cos_sum_12]
  unfold CosPoly cosH
  rw [peval_cons, peval_cons, peval_psub]
  push_cast
  ring

theorem sin_rem_le {r : ℝ} (hr : |r| ≤ 393 / 500) :
    |Real.sin r - ∑ k ∈ range 11, (-1) ^ k * r ^ (2 * k + 1) / ((2 * k + 1).factorial : ℝ)|
      ≤ |r| * (1 / 2 ^ 76) := by
  refine le_trans (sin_taylor r (le_trans hr (by norm_num)) 11 (by norm_num)) ?_
  have h21 : |r| ^ 21 ≤ ((393 : ℝ) / 500) ^ 21 := pow_le_pow_left₀ (abs_nonneg r) hr 21
  have e : |r| ^ (2 * 11) = |r| * |r| ^ 21 := by ring
  rw [e, mul_assoc]
  refine mul_le_mul_of_nonneg_left ?_ (abs_nonneg r)
  refine le_trans (mul_le_mul_of_nonneg_right h21 (by positivity)) sin_rem_num

/-- **approximation error of the sine polynomial, relative to `|r|`**: `11·2^-70 < 2^-66.5` -/
theorem sin_poly_rel {r : ℝ} (hr : |r| ≤ 393 / 500) : |Real.sin r - SinPoly r| ≤ |r| * (11 / 2 ^ 70) := by
  obtain ⟨h0, h1, h2⟩ := sq_range hr
  have hG := (checkAllW_sound (by norm_num) (by norm_num) sinG_check h0 h1 h2).1
  rw [sin_decomp]
  refine le_trans (abs_add_le _ _) ?_
  rw [abs_mul]
  have h3 := mul_le_mul_of_nonneg_left hG (abs_nonneg r)
  have h4 := sin_rem_le hr
  have e : ((43 / 2 ^ 72 : ℚ) : ℝ) = 43 / 2 ^ 72 := by push_cast; rfl
  rw [e] at h3
  have h5 : |r| * (1 / 2 ^ 76) ≤ |r| * (1 / 2 ^ 72) :=
    mul_le_mul_of_nonneg_left (by norm_num) (abs_nonneg r)
  have : |r| * (11 / 2 ^ 70) = |r| * (1 / 2 ^ 72) + |r| * (43 / 2 ^ 72) := by ring
  rw [this]
  exact add_le_add (le_trans h4 h5) h3

/-- **approximation error of the sine polynomial, absolute**: `9·2^-72 < 2^-68.8` on `|r| ≤ 0.786` -/
theorem sin_poly_abs {r : ℝ} (hr : |r| ≤ 393 / 500) : |Real.sin r - SinPoly r| ≤ 9 / 2 ^ 72 := by
  obtain ⟨h0, h1, h2⟩ := sq_range hr
  have hG := (checkAllW_sound (by norm_num) (by norm_num) sinG_check h0 h1 h2).2
  rw [sin_decomp]
  refine le_trans (abs_add_le _ _) ?_
  have h4 := sin_rem_le hr
  have h5 : |r * peval sinG (r ^ 2)| ≤ 17 / 2 ^ 73 := by
    refine abs_le_of_sq_le_sq ?_ (by positivity)
    have e : (((17 / 2 ^ 73) ^ 2 : ℚ) : ℝ) = (17 / 2 ^ 73) ^ 2 := by push_cast; rfl
    rw [e] at hG
    calc (r * peval sinG (r ^ 2)) ^ 2 = peval sinG (r ^ 2) ^ 2 * r ^ 2 := by ring
      _ ≤ _ := hG
  have h6 : |r| * (1 / 2 ^ 76) ≤ 1 / 2 ^ 73 := by
    have : |r| * (1 / 2 ^ 76) ≤ 393 / 500 * (1 / 2 ^ 76) := mul_le_mul_of_nonneg_right hr (by positivity)
    refine le_trans this ?_
    norm_num
  have : (9 : ℝ) / 2 ^ 72 = 1 / 2 ^ 73 + 17 / 2 ^ 73 := by norm_num
  rw [this]
  exact add_le_add (le_trans h4 h6) h5

/-- **approximation error of the cosine polynomial, absolute**: `2^-74` on `|r| ≤ 0.786` -/
theorem cos_poly_abs {r : ℝ} (hr : |r| ≤ 393 / 500) : |Real.cos r - CosPoly r| ≤ 1 / 2 ^ 74 := by
  obtain ⟨h0, h1, h2⟩ := sq_range hr
  have hH := (checkAllW_sound (by norm_num) (by norm_num) cosH_check h0 h1 h2).1
  rw [cos_decomp]
  refine le_trans (abs_add_le _ _) ?_
  have h4 : |Real.cos r - ∑ k ∈ range 12, (-1) ^ k * r ^ (2 * k) / ((2 * k).factorial : ℝ)| ≤ 1 / 2 ^ 77 := by
    refine le_trans (cos_taylor r (le_trans hr (by norm_num)) 12 (by norm_num)) ?_
    have h24 : |r| ^ (2 * 12) ≤ ((393 : ℝ) / 500) ^ 24 := pow_le_pow_left₀ (abs_nonneg r) hr 24
    exact le_trans (mul_le_mul_of_nonneg_right h24 (by positivity)) cos_rem_num
  have e : ((7 / 2 ^ 77 : ℚ) : ℝ) = 7 / 2 ^ 77 := by push_cast; rfl
  rw [e] at hH
  have : (1 : ℝ) / 2 ^ 74 = 1 / 2 ^ 77 + 7 / 2 ^ 77 := by norm_num
  rw [this]
  exact add_le_add h4 hH

/-- `|sin r| ≥ |r|·(1 − r²/6)` -/
theorem abs_sin_ge (r : ℝ) : |r| * (1 - r ^ 2 / 6) ≤ |Real.sin r| := by
  rcases lt_trichotomy r 0 with h | h | h
  · have h1 := Real.sin_gt_sub_cube (x := -r) (by linarith)
    rw [Real.sin_neg] at h1
    rw [abs_of_neg h]
    have : -r * (1 - r ^ 2 / 6) = -r - (-r) ^ 3 / 6 := by ring
    rw [this]
    exact le_trans h1.le (neg_le_abs _)
  · subst h; simp
  · have h1 := Real.sin_gt_sub_cube h
    rw [abs_of_pos h]
    have : r * (1 - r ^ 2 / 6) = r - r ^ 3 / 6 := by ring
    rw [this]
    exact le_trans h1.le (le_abs_self _)

/-- on `|r| ≤ 0.786`: `|sin r| ≥ 0.897·|r|` -/
theorem abs_sin_ge' {r : ℝ} (hr : |r| ≤ 393 / 500) : |r| * (897 / 1000) ≤ |Real.sin r| := by
  refine le_trans (mul_le_mul_of_nonneg_left ?_ (abs_nonneg r)) (abs_sin_ge r)
  have h := pow_le_pow_left₀ (abs_nonneg r) hr 2
  rw [sq_abs] at h
  norm_num at h ⊢
  linarith

/-- **approximation error of the sine polynomial, relative to `sin r`**: `13·2^-70 < 2^-66.29` -/
theorem sin_poly_rel_sin {r : ℝ} (hr : |r| ≤ 393 / 500) :
    |Real.sin r - SinPoly r| ≤ |Real.sin r| * (13 / 2 ^ 70) := by
  have h1 := sin_poly_rel hr
  have h2 := abs_sin_ge' hr
  have h3 : |r| * (11 / 2 ^ 70) ≤ |r| * (897 / 1000) * (13 / 2 ^ 70) := by
    have : (11 : ℝ) / 2 ^ 70 ≤ 897 / 1000 * (13 / 2 ^ 70) := by norm_num
    have := mul_le_mul_of_nonneg_left this (abs_nonneg r)
    linarith
  have h4 := mul_le_mul_of_nonneg_right h2 (by positivity : (0 : ℝ) ≤ 13 / 2 ^ 70)
  linarith

/-! ## 4. shifting by multiples of `π/2` -/

theorem quarter_split (ρ : ℝ) (k : ℤ) :
    ρ + (k : ℝ) * (Real.pi / 2) = (ρ + ((k % 4 : ℤ) : ℝ) * (Real.pi / 2)) + ((k / 4 : ℤ) : ℝ) * (2 * Real.pi) := by
  have h : (k : ℝ) = (((4 * (k / 4) + k % 4 : ℤ)) : ℝ) := by rw [Int.mul_ediv_add_emod]
  rw [h]; push_cast; ring

theorem sin_add_quarter (ρ : ℝ) (k : ℤ) :
    Real.sin (ρ + (k : ℝ) * (Real.pi / 2)) =
      if k % 4 = 0 then Real.sin ρ else if k % 4 = 1 then Real.cos ρ
      else if k % 4 = 2 then -Real.sin ρ else -Real.cos ρ := by
  rw [quarter_split, Real.sin_add_int_mul_two_pi]
  have h0 := Int.emod_nonneg k (by norm_num : (4 : ℤ) ≠ 0)
  have h4 := Int.emod_lt_of_pos k (by norm_num : (0 : ℤ) < 4)
  generalize k % 4 = i at *
  interval_cases i
  · simp
  · simp [Real.sin_add_pi_div_two]
  · have : ρ + ((2 : ℤ) : ℝ) * (Real.pi / 2) = ρ + Real.pi := by push_cast; ring
    rw [this, Real.sin_add_pi]; simp
  · have : ρ + ((3 : ℤ) : ℝ) * (Real.pi / 2) = (ρ + Real.pi) + Real.pi / 2 := by push_cast; ring
    rw [this, Real.sin_add_pi_div_two, Real.cos_add_pi]; simp

theorem cos_add_quarter (ρ : ℝ) (k : ℤ) :
    Real.cos (ρ + (k : ℝ) * (Real.pi / 2)) =
      if k % 4 = 0 then Real.cos ρ else if k % 4 = 1 then -Real.sin ρ
      else if k % 4 = 2 then -Real.cos ρ else Real.sin ρ := by
  rw [quarter_split, Real.cos_add_int_mul_two_pi]
  have h0 := Int.emod_nonneg k (by norm_num : (4 : ℤ) ≠ 0)
  have h4 := Int.emod_lt_of_pos k (by norm_num : (0 : ℤ) < 4)
  generalize k % 4 = i at *
  interval_cases i
  · simp
  · simp [Real.cos_add_pi_div_two]
  · have : ρ + ((2 : ℤ) : ℝ) * (Real.pi / 2) = ρ + Real.pi := by push_cast; ring
    rw [this, Real.cos_add_pi]; simp
  · have : ρ + ((3 : ℤ) : ℝ) * (Real.pi / 2) = (ρ + Real.pi) + Real.pi / 2 := by push_cast; ring
    rw [this, Real.cos_add_pi_div_two, Real.sin_add_pi]; simp

end TrigBound
