/-
Lemmas.AuditLemmas — helper lemmas for `TFV.Properties.CAudit` (audit follow-up):
* ITEM 1: `F64.from_bits_nat` produces exactly the well-formed values (`wf_of_bits`, `from_bits_to_bits`, `wf_iff_bits`);
* ITEM 2: `F64.toF32` is round-to-nearest-even into binary32 (`Rep32`, `ulp32`, `r32`, `toF32_nearest`, …).
Everything lives in the namespace `CAudit`.
-/
import TFV.Lemmas.Bits
import TFV.Spec.Rounding
import TFV.Spec.Defs
import Mathlib.Tactic.Ring
import Mathlib.Tactic.Linarith
import Mathlib.Tactic.NormNum

set_option exponentiation.threshold 4096

namespace CAudit

section
open F64 F64.Bits

/-- a 53-bit significand times a power of two is representable and in range -/
theorem wf_fin_normal (sg : Bool) {q s : Nat} (hq : 2 ^ 52 ≤ q) (hq' : q < 2 ^ 53) (hs : s ≤ 2045) :
    (fin sg (q * 2 ^ s)).WF := by
  have hP := two_pow_pos s
  refine ⟨Or.inr ?_, ?_⟩
  · rw [log2_binade0 hq hq', Nat.add_sub_cancel, Nat.mul_div_cancel _ hP]
  · unfold maxFin
    have h1 : q ≤ 2 ^ 53 - 1 := by omega
    have h2 : 2 ^ s ≤ 2 ^ 2045 := Nat.pow_le_pow_right (by decide) hs
    exact Nat.mul_le_mul h1 h2

/-- ITEM 1a. every bit pattern decodes to a well-formed value (no bound on `b` is even needed) -/
theorem wf_of_bits' (b : Nat) : (F64.from_bits_nat b).WF := by
  unfold F64.from_bits_nat
  simp only
  split
  · refine ⟨Or.inl ?_, ?_⟩
    · have := Nat.mod_lt b (two_pow_pos 52); omega
    · have := Nat.mod_lt b (two_pow_pos 52)
      have : (2:Nat) ^ 52 ≤ maxFin := by
        unfold maxFin
        calc (2:Nat) ^ 52 ≤ (2 ^ 53 - 1) * 1 := by decide
          _ ≤ _ := Nat.mul_le_mul_left _ (two_pow_pos _)
      omega
  · split
    · split <;> trivial
    · rename_i h0 h1
      have hm := Nat.mod_lt b (two_pow_pos 52)
      have he := Nat.mod_lt (b / 2 ^ 52) (show 0 < 2048 by decide)
      exact wf_fin_normal _ (by omega) (by omega) (by omega)

theorem wf_of_bits (b : Nat) (_h : b < 2 ^ 64) : (F64.from_bits_nat b).WF := wf_of_bits' b

theorem to_bits_nat_lt (x : F64) (hx : x.WF) : x.to_bits_nat < 2 ^ 64 := by
  cases x with
  | nan => decide
  | inf s => cases s <;> decide
  | fin sg n =>
    by_cases hn : n < 2 ^ 52
    · have : n < 2 ^ 53 := by omega
      unfold to_bits_nat; simp only [this, if_true]
      cases sg <;> simp <;> omega
    · by_cases hn' : n < 2 ^ 53
      · unfold to_bits_nat; simp only [hn', if_true]
        cases sg <;> simp <;> omega
      · obtain ⟨q, s, rfl, hq, hq', hs⟩ := wf_normal_decomp (by omega) hx.1 hx.2
        rw [to_bits_nat_normal sg hq hq']
        exact bitsVal_lt sg hq' hs

/-- ITEM 1b. decoding the bit pattern of a well-formed value gives the value back (including the NaN) -/
theorem from_bits_to_bits (x : F64) (hx : x.WF) : F64.from_bits_nat x.to_bits_nat = x := by
  cases x with
  | nan => decide
  | inf s => cases s <;> decide
  | fin sg n =>
    by_cases hn : n < 2 ^ 52
    · have h53 : n < 2 ^ 53 := by omega
      unfold to_bits_nat; simp only [h53, if_true]
      unfold F64.from_bits_nat
      simp only [Nat.reducePow] at hn ⊢
      cases sg
      · have a : n / 4503599627370496 = 0 := by omega
        have b : n / 9223372036854775808 = 0 := by omega
        have c : n % 4503599627370496 = n := by omega
        simp [a, b, c]
      · have a : (9223372036854775808 + n) / 4503599627370496 = 2048 := by omega
        have b : (9223372036854775808 + n) / 9223372036854775808 = 1 := by omega
        have c : (9223372036854775808 + n) % 4503599627370496 = n := by omega
        simp [a, b, c]
    · obtain ⟨q, s, rfl, hq, hq', hs⟩ := wf_normal_decomp (by omega) hx.1 hx.2
      rw [to_bits_nat_normal sg hq hq']
      have he := bitsVal_exp sg hq hq' hs
      have hm := bitsVal_mant (s := s) sg hq hq'
      have hsg : decide ((bitsVal sg q s / 2 ^ 63) % 2 = 1) = sg := by
        unfold bitsVal; cases sg <;> simp <;> omega
      show F64.from_bits_nat (bitsVal sg q s) = _
      generalize bitsVal sg q s = B at he hm hsg
      unfold F64.from_bits_nat
      simp only [hsg]
      rw [show (2048 : Nat) = 2 ^ 11 from rfl, he, hm]
      have n1 : ¬ s + 1 = 0 := by omega
      have n2 : ¬ s + 1 = 2047 := by omega
      simp only [n1, n2, if_false, Nat.add_sub_cancel]
      have : 2 ^ 52 + (q - 2 ^ 52) = q := Nat.add_sub_cancel' hq
      rw [this]

/-- ITEM 1c. the converse of `wf_of_bits`: every well-formed value is the decoding of a 64-bit pattern -/
theorem bits_of_wf (x : F64) (hx : x.WF) : ∃ b, b < 2 ^ 64 ∧ F64.from_bits_nat b = x :=
  ⟨x.to_bits_nat, to_bits_nat_lt x hx, from_bits_to_bits x hx⟩

/-- `from_bits_nat` produces exactly the well-formed values -/
theorem wf_iff_bits (x : F64) : x.WF ↔ ∃ b, b < 2 ^ 64 ∧ F64.from_bits_nat b = x :=
  ⟨bits_of_wf x, fun ⟨b, _, h⟩ => h ▸ wf_of_bits' b⟩

example : (F64.from_bits_nat 0x3ff8000000000000).WF := wf_of_bits _ (by decide)
example : F64.from_bits_nat (F64.fin true (3 * 2 ^ 1073)).to_bits_nat = F64.fin true (3 * 2 ^ 1073) :=
  from_bits_to_bits _ (by decide +kernel)

end

section
open F64

/-! ## ITEM 2. `F64.toF32` is round-to-nearest-even into binary32 -/

/-- magnitudes (units of 2^-1074) of the binary32 grid with unbounded exponent: `m·2^f·2^-149`, `m < 2^24` -/
def Rep32 (y : Nat) : Prop := ∃ m f, m < 2 ^ 24 ∧ y = m * 2 ^ f * 2 ^ 925

/-- largest finite binary32 magnitude `(2^24 − 1)·2^104` -/
def max32 : Nat := (2 ^ 24 - 1) * 2 ^ 1178

/-- binary32 unit in the last place of the binade of `n` (`2^-149` in the subnormal range) -/
def ulp32 (n : Nat) : Nat := 2 ^ 925 * 2 ^ (Nat.log2 (n / 2 ^ 925) - 23)

/-- the rounded magnitude -/
def r32 (n : Nat) : Nat := F64.rint n (ulp32 n) * ulp32 n

theorem ulp32_pos (n : Nat) : 0 < ulp32 n := Nat.mul_pos (Nat.two_pow_pos _) (Nat.two_pow_pos _)

theorem log2_sub23_zero {k : Nat} (h : k < 2 ^ 24) : Nat.log2 k - 23 = 0 := by
  rcases Nat.eq_zero_or_pos k with rfl | hk
  · simp
  · have : Nat.log2 k < 24 := (Nat.log2_lt (by omega)).2 h
    omega

/-- `toF32` on finite values is `rint` at the granularity `ulp32`, overflowing at `2^128` -/
theorem toF32_fin_eq (s : Bool) (n : Nat) :
    F64.toF32 (fin s n) = if r32 n ≥ 2 ^ (128 + 1074) then ⟨.inf s⟩ else ⟨.fin s (r32 n)⟩ := by
  unfold F64.toF32 r32 ulp32
  simp only []
  by_cases h : n / 2 ^ 925 < 2 ^ 24
  · rw [if_pos h, log2_sub23_zero h, Nat.pow_zero, Nat.mul_one]
  · rw [if_neg h]

/-- `n` lies below the top of its binade; above the subnormal range it lies in `[2^23·ulp, 2^24·ulp)` -/
theorem ulp32_spec (n : Nat) :
    n < 2 ^ 24 * ulp32 n ∧ (Nat.log2 (n / 2 ^ 925) - 23 = 0 ∨ 2 ^ 23 * ulp32 n ≤ n) := by
  have hu : 0 < 2 ^ 925 := Nat.two_pow_pos _
  unfold ulp32
  generalize (2 : Nat) ^ 925 = u at *
  by_cases h : n / u < 2 ^ 24
  · rw [log2_sub23_zero h, Nat.pow_zero, Nat.mul_one]
    refine ⟨?_, Or.inl rfl⟩
    exact (Nat.div_lt_iff_lt_mul hu).1 h
  · have hk : n / u ≠ 0 := by
      intro h0; rw [h0] at h; exact h (Nat.two_pow_pos _)
    have h24 : 24 ≤ Nat.log2 (n / u) := (Nat.le_log2 hk).2 (by omega)
    have hlo : 2 ^ Nat.log2 (n / u) ≤ n / u := Nat.log2_self_le hk
    have hhi : n / u < 2 ^ (Nat.log2 (n / u) + 1) := Nat.lt_log2_self
    generalize Nat.log2 (n / u) = L at *
    obtain ⟨e, rfl⟩ : ∃ e, L = e + 23 := ⟨L - 23, by omega⟩
    rw [Nat.add_sub_cancel]
    constructor
    · rw [Nat.div_lt_iff_lt_mul hu] at hhi
      have : 2 ^ (e + 23 + 1) * u = 2 ^ 24 * (u * 2 ^ e) := by
        rw [show e + 23 + 1 = 24 + e by omega, Nat.pow_add]; ring
      omega
    · right
      rw [Nat.le_div_iff_mul_le hu] at hlo
      have : 2 ^ (e + 23) * u = 2 ^ 23 * (u * 2 ^ e) := by
        rw [show e + 23 = 23 + e by omega, Nat.pow_add]; ring
      omega

/-- a binary32 grid point is on the rounding grid of `n`, or lies below the binade of `n` -/
theorem rep32_grid_cases (n : Nat) {y : Nat} (hy : Rep32 y) :
    (∃ j, y = j * ulp32 n) ∨ (y < 2 ^ 23 * ulp32 n ∧ 2 ^ 23 * ulp32 n ≤ n) := by
  obtain ⟨m, f, hm, rfl⟩ := hy
  have hspec := (ulp32_spec n).2
  unfold ulp32 at *
  generalize Nat.log2 (n / 2 ^ 925) - 23 = e at *
  rcases Nat.lt_or_ge f e with hfe | hfe
  · right
    have he : e ≠ 0 := by omega
    rcases hspec with h0 | h0
    · exact absurd h0 he
    · refine ⟨?_, h0⟩
      obtain ⟨d, rfl⟩ : ∃ d, e = f + 1 + d := ⟨e - (f + 1), by omega⟩
      have h1 : m * 2 ^ f * 2 ^ 925 < 2 ^ 24 * 2 ^ f * 2 ^ 925 :=
        Nat.mul_lt_mul_of_pos_right (Nat.mul_lt_mul_of_pos_right hm (Nat.two_pow_pos _)) (Nat.two_pow_pos _)
      have h2 : 2 ^ 24 * 2 ^ f * 2 ^ 925 ≤ 2 ^ 23 * (2 ^ 925 * 2 ^ (f + 1 + d)) := by
        have : 2 ^ 23 * (2 ^ 925 * 2 ^ (f + 1 + d)) = 2 ^ 24 * 2 ^ f * 2 ^ 925 * 2 ^ d := by
          rw [Nat.pow_add, Nat.pow_add]; ring
        rw [this]; exact Nat.le_mul_of_pos_right _ (Nat.two_pow_pos _)
      omega
  · left
    obtain ⟨d, rfl⟩ : ∃ d, f = e + d := ⟨f - e, by omega⟩
    exact ⟨m * 2 ^ d, by rw [Nat.pow_add]; ring⟩

/-- rounding never crosses a binary32 grid point (from below) -/
theorem le_r32_of_le {n y : Nat} (hy : Rep32 y) (h : y ≤ n) : y ≤ r32 n := by
  have hQ := ulp32_pos n
  unfold r32
  rcases rep32_grid_cases n hy with ⟨j, rfl⟩ | ⟨h1, h2⟩
  · exact Nat.mul_le_mul_right _ (le_rint_of_le hQ h)
  · have := Nat.mul_le_mul_right (ulp32 n) (le_rint_of_le hQ h2)
    omega

/-- rounding never crosses a binary32 grid point (from above) -/
theorem r32_le_of_le {n y : Nat} (hy : Rep32 y) (h : n ≤ y) : r32 n ≤ y := by
  have hQ := ulp32_pos n
  unfold r32
  rcases rep32_grid_cases n hy with ⟨j, rfl⟩ | ⟨h1, h2⟩
  · exact Nat.mul_le_mul_right _ (rint_le_of_le hQ h)
  · omega

/-- the rounded magnitude is on the binary32 grid -/
theorem r32_rep (n : Nat) : Rep32 (r32 n) := by
  have hQ := ulp32_pos n
  have hk : F64.rint n (ulp32 n) ≤ 2 ^ 24 := rint_le_of_le hQ (Nat.le_of_lt (ulp32_spec n).1)
  unfold r32
  generalize F64.rint n (ulp32 n) = k at hk
  unfold ulp32
  generalize Nat.log2 (n / 2 ^ 925) - 23 = e
  rcases Nat.lt_or_ge k (2 ^ 24) with h | h
  · exact ⟨k, e, h, by ring⟩
  · have : k = 2 ^ 24 := by omega
    subst this
    exact ⟨2 ^ 23, e + 1, by decide, by rw [Nat.pow_succ]; ring⟩

/-- **nearest**: no binary32 grid point is strictly closer to `n` than `r32 n` -/
theorem r32_nearest (n : Nat) {y : Nat} (hy : Rep32 y) :
    |((r32 n : Nat) : Int) - n| ≤ |(y : Int) - n| := by
  have hQ := ulp32_pos n
  unfold r32
  rcases rep32_grid_cases n hy with ⟨j, rfl⟩ | ⟨h1, h2⟩
  · have := rint_nearest n (ulp32 n) j hQ
    push_cast; exact this
  · have := rint_nearest n (ulp32 n) (2 ^ 23) hQ
    push_cast
    refine le_trans this ?_
    generalize ulp32 n = Q at *
    rw [abs_of_nonpos (by push_cast; omega), abs_of_nonpos (by omega)]
    push_cast; omega

/-- **ties to even**: when another grid point is equally near, the chosen one is an even multiple of the ulp -/
theorem r32_tie_even (n : Nat) {y : Nat} (hy : Rep32 y) (hne : y ≠ r32 n)
    (htie : |((r32 n : Nat) : Int) - n| = |(y : Int) - n|) : 2 * ulp32 n ∣ r32 n := by
  have hQ := ulp32_pos n
  have hb := rint_bounds n (ulp32 n) hQ
  have hnear23 := rint_nearest n (ulp32 n) (2 ^ 23) hQ
  have hev := rint_tie_even n (ulp32 n) hQ
  unfold r32 at *
  rcases rep32_grid_cases n hy with ⟨j, rfl⟩ | ⟨h1, h2⟩
  · have hjk : j ≠ F64.rint n (ulp32 n) := fun h => hne (by rw [h])
    generalize F64.rint n (ulp32 n) = k at *
    generalize ulp32 n = Q at *
    -- |kQ - n| = |jQ - n|, j ≠ k  ⇒  2n = (j+k)Q
    have hsum : 2 * n = (j + k) * Q := by
      push_cast at htie
      have hjQ : j * Q ≠ k * Q := fun h => hjk (Nat.eq_of_mul_eq_mul_right hQ h)
      rw [Nat.add_mul]
      rcases abs_cases (((k * Q : Nat) : Int) - n) with ⟨e1, _⟩ | ⟨e1, _⟩ <;>
      rcases abs_cases (((j * Q : Nat) : Int) - n) with ⟨e2, _⟩ | ⟨e2, _⟩ <;>
      (push_cast at e1 e2; rw [e1, e2] at htie) <;> omega
    have hjk' : j = k + 1 ∨ k = j + 1 := by
      rw [Nat.add_mul] at hsum
      rcases Nat.lt_or_ge j k with h | h
      · right
        rcases Nat.lt_or_ge (j + 1) k with h' | h'
        · exfalso
          have := Nat.mul_le_mul_right Q (show j + 2 ≤ k from h')
          rw [Nat.add_mul] at this; omega
        · omega
      · left
        rcases Nat.lt_or_ge (k + 1) j with h' | h'
        · exfalso
          have := Nat.mul_le_mul_right Q (show k + 2 ≤ j from h')
          rw [Nat.add_mul] at this; omega
        · omega
    have hk2 : k % 2 = 0 := by
      apply hev
      rw [Nat.add_mul] at hsum
      rcases hjk' with h | h
      · right
        have : j * Q = k * Q + Q := by rw [h, Nat.add_mul, Nat.one_mul]
        omega
      · left
        have : k * Q = j * Q + Q := by rw [h, Nat.add_mul, Nat.one_mul]
        omega
    obtain ⟨c, rfl⟩ : ∃ c, k = 2 * c := ⟨k / 2, by omega⟩
    exact ⟨c, by ring⟩
  · exfalso
    generalize F64.rint n (ulp32 n) = k at *
    generalize ulp32 n = Q at *
    have hy0 : ((y : Int) - n) ≤ 0 := by omega
    have h230 : (((2 ^ 23 * Q : Nat) : Int) - n) ≤ 0 := by omega
    rw [abs_of_nonpos hy0] at htie
    rw [← Int.natCast_mul, ← Int.natCast_mul, abs_of_nonpos h230, htie] at hnear23
    omega

theorem max32_lt_mid : max32 < (2 ^ 25 - 1) * 2 ^ 1177 := by
  unfold max32
  have : (2 : Nat) ^ 1178 = 2 * 2 ^ 1177 := by rw [← Nat.pow_succ']
  rw [this, ← Nat.mul_assoc]
  exact Nat.mul_lt_mul_of_pos_right (by decide) (Nat.two_pow_pos _)

theorem rep32_max32 : Rep32 max32 := ⟨2 ^ 24 - 1, 253, by decide, by unfold max32; rw [show 1178 = 253 + 925 from rfl, Nat.pow_add]; ring⟩
theorem rep32_two_pow_1202 : Rep32 (2 ^ 1202) := ⟨1, 277, by decide, by rw [show 1202 = 277 + 925 from rfl, Nat.pow_add]; ring⟩

/-- exactly representable values are unchanged -/
theorem r32_of_rep {n : Nat} (h : Rep32 n) : r32 n = n :=
  Nat.le_antisymm (r32_le_of_le h (Nat.le_refl _)) (le_r32_of_le h (Nat.le_refl _))

/-- **overflow threshold**: the rounded magnitude reaches `2^128` exactly from the midpoint
`(2^25 − 1)·2^103` between the largest finite binary32 and `2^128` (the tie goes to the even `2^128`) -/
theorem r32_overflow_iff (n : Nat) : 2 ^ 1202 ≤ r32 n ↔ (2 ^ 25 - 1) * 2 ^ 1177 ≤ n := by
  have hM : max32 < 2 ^ 1202 := by
    unfold max32
    calc (2 ^ 24 - 1) * 2 ^ 1178 < 2 ^ 24 * 2 ^ 1178 := Nat.mul_lt_mul_of_pos_right (by decide) (Nat.two_pow_pos _)
      _ = 2 ^ 1202 := by rw [← Nat.pow_add]
  have hT1 : (2 ^ 25 - 1) * 2 ^ 1177 < 2 ^ 1202 := by
    calc (2 ^ 25 - 1) * 2 ^ 1177 < 2 ^ 25 * 2 ^ 1177 := Nat.mul_lt_mul_of_pos_right (by decide) (Nat.two_pow_pos _)
      _ = 2 ^ 1202 := by rw [← Nat.pow_add]
  have hT0 := max32_lt_mid
  rcases Nat.lt_or_ge n (2 ^ 1202) with hlt | hge
  · rcases Nat.lt_or_ge max32 n with hgt | hle
    · -- max32 < n < 2^128: ulp is 2^1178
      have hQ : ulp32 n = 2 ^ 1178 := by
        unfold ulp32
        have hu : 0 < 2 ^ 925 := Nat.two_pow_pos _
        have h1 : 2 ^ 276 ≤ n / 2 ^ 925 := by
          rw [Nat.le_div_iff_mul_le hu, ← Nat.pow_add]
          unfold max32 at hgt
          have : 2 ^ (276 + 925) = 2 ^ 23 * 2 ^ 1178 := by rw [← Nat.pow_add]
          have : 2 ^ 23 * 2 ^ 1178 ≤ (2 ^ 24 - 1) * 2 ^ 1178 := Nat.mul_le_mul_right _ (by decide)
          omega
        have h2 : n / 2 ^ 925 < 2 ^ 277 := by
          rw [Nat.div_lt_iff_lt_mul hu, ← Nat.pow_add]; exact hlt
        have hne : n / 2 ^ 925 ≠ 0 := by have := Nat.two_pow_pos 276; omega
        have : Nat.log2 (n / 2 ^ 925) = 276 := (Nat.log2_eq_iff hne).2 ⟨h1, h2⟩
        rw [this, ← Nat.pow_add]
      unfold r32
      rw [hQ]
      have hP : 0 < 2 ^ 1178 := Nat.two_pow_pos _
      have e1 : (2 : Nat) ^ 1202 = 2 ^ 24 * 2 ^ 1178 := by rw [← Nat.pow_add]
      have e2 : (2 ^ 25 - 1) * 2 ^ 1177 * 2 = (2 ^ 25 - 1) * 2 ^ 1178 := by
        rw [Nat.mul_assoc, ← Nat.pow_succ]
      unfold max32 at hgt
      obtain ⟨a, r, hr, rfl⟩ := exists_divmod n (2 ^ 1178) hP
      have ha : a = 2 ^ 24 - 1 := by
        rw [e1] at hlt
        rcases Nat.lt_trichotomy a (2 ^ 24 - 1) with h | h | h
        · exfalso
          have := Nat.mul_le_mul_right (2 ^ 1178) (show a + 1 ≤ 2 ^ 24 - 1 from h)
          rw [Nat.add_mul] at this; omega
        · exact h
        · exfalso
          have := Nat.mul_le_mul_right (2 ^ 1178) (show 2 ^ 24 ≤ a by omega)
          omega
      subst ha
      rw [rint_add_mul _ _ _ hr, e1]
      have e3 : (2 ^ 25 - 1) * 2 ^ 1178 = 2 * ((2 ^ 24 - 1) * 2 ^ 1178) + 2 ^ 1178 := by
        rw [show (2 ^ 25 - 1 : Nat) = 2 * (2 ^ 24 - 1) + 1 by decide]; ring
      have e4 : (2 ^ 24 - 1 + 1 : Nat) = 2 ^ 24 := by decide
      have e5 : (2 ^ 24 - 1 : Nat) % 2 ≠ 0 := by decide
      generalize (2 : Nat) ^ 1178 = P at *
      generalize (2 : Nat) ^ 1177 = P' at *
      have lt1 : (2 ^ 24 - 1) * P < 2 ^ 24 * P := Nat.mul_lt_mul_of_pos_right (by decide) hP
      split_ifs <;> (try simp only [e4]) <;> constructor <;> intro h <;> first | omega | contradiction
    · constructor
      · intro h
        have := r32_le_of_le rep32_max32 hle
        omega
      · intro h; omega
  · constructor
    · intro _; omega
    · intro _; exact le_r32_of_le rep32_two_pow_1202 hge

/-- `toF32` on a finite value: overflow to the signed infinity from the midpoint on, otherwise the rounded magnitude -/
theorem toF32_fin (s : Bool) (n : Nat) :
    F64.toF32 (fin s n) = if (2 ^ 25 - 1) * 2 ^ 1177 ≤ n then ⟨.inf s⟩ else ⟨.fin s (r32 n)⟩ := by
  rw [toF32_fin_eq]
  simp only [ge_iff_le, show 128 + 1074 = 1202 from rfl, r32_overflow_iff]

/-- **ITEM 2 (main statement).**  For a finite `x = ±n` below the overflow midpoint, `x as f32` is `±r` with the same
sign, `r` a finite binary32 magnitude, nearest to `n` among ALL binary32 grid points `y` (unbounded exponent), and in
a tie `r` is the even multiple of the binary32 ulp of `n`. -/
theorem toF32_nearest (s : Bool) (n : Nat) (h : n < (2 ^ 25 - 1) * 2 ^ 1177) :
    ∃ r, F64.toF32 (fin s n) = ⟨.fin s r⟩ ∧ Rep32 r ∧ r ≤ max32 ∧
      (∀ y, Rep32 y → |(r : Int) - n| ≤ |(y : Int) - n|) ∧
      (∀ y, Rep32 y → y ≠ r → |(r : Int) - n| = |(y : Int) - n| → 2 * ulp32 n ∣ r) := by
  refine ⟨r32 n, ?_, r32_rep n, ?_, fun y hy => r32_nearest n hy, fun y hy => r32_tie_even n hy⟩
  · rw [toF32_fin, if_neg (by omega)]
  · -- r32 n < 2^1202 and on the grid ⇒ ≤ max32
    have hlt : r32 n < 2 ^ 1202 := by
      have := (r32_overflow_iff n).not.2 (by omega); omega
    -- the grid point r32 n is either ≤ max32 or ≥ 2^1202 : use rounding of r32 n itself towards max32
    by_contra hgt
    have hgt : max32 < r32 n := by omega
    have h1 := (r32_overflow_iff (r32 n)).1
    rw [r32_of_rep (r32_rep n)] at h1
    -- n' := r32 n is on the grid, strictly between max32 and 2^1202: impossible
    obtain ⟨m, f, hm, hy⟩ := r32_rep n
    generalize r32 n = R at *
    subst hy
    have hM : max32 = (2 ^ 24 - 1) * 2 ^ 1178 := rfl
    rw [hM] at hgt
    clear h1
    rcases Nat.lt_or_ge f 254 with hf | hf
    · have h2 : m * 2 ^ f * 2 ^ 925 ≤ (2 ^ 24 - 1) * 2 ^ 253 * 2 ^ 925 :=
        Nat.mul_le_mul_right _ (Nat.mul_le_mul (by omega) (Nat.pow_le_pow_right (by decide) (by omega)))
      have : (2 ^ 24 - 1) * 2 ^ 253 * 2 ^ 925 = (2 ^ 24 - 1) * 2 ^ 1178 := by
        rw [Nat.mul_assoc, ← Nat.pow_add]
      omega
    · obtain ⟨d, rfl⟩ : ∃ d, f = 253 + d := ⟨f - 253, by omega⟩
      have e1 : m * 2 ^ (253 + d) * 2 ^ 925 = (m * 2 ^ d) * 2 ^ 1178 := by
        rw [show (1178 : Nat) = 253 + 925 from rfl, Nat.pow_add, Nat.pow_add]; ring
      rw [e1] at hgt hlt
      have h3 : 2 ^ 24 - 1 < m * 2 ^ d := Nat.lt_of_mul_lt_mul_right hgt
      have h4 : 2 ^ 24 * 2 ^ 1178 ≤ (m * 2 ^ d) * 2 ^ 1178 := Nat.mul_le_mul_right _ (by omega)
      have : (2 : Nat) ^ 24 * 2 ^ 1178 = 2 ^ 1202 := by rw [← Nat.pow_add]
      omega

theorem toF32_overflow (s : Bool) (n : Nat) (h : (2 ^ 25 - 1) * 2 ^ 1177 ≤ n) :
    F64.toF32 (fin s n) = ⟨.inf s⟩ := by rw [toF32_fin, if_pos h]

theorem toF32_nan : F64.toF32 .nan = ⟨.nan⟩ := rfl
theorem toF32_inf (s : Bool) : F64.toF32 (.inf s) = ⟨.inf s⟩ := rfl

/-- binary32 values convert exactly -/
theorem toF32_exact (s : Bool) {n : Nat} (hr : Rep32 n) (h : n ≤ max32) : F64.toF32 (fin s n) = ⟨.fin s n⟩ := by
  have hT0 := max32_lt_mid
  rw [toF32_fin, if_neg (by omega), r32_of_rep hr]

example : ∃ r, F64.toF32 (fin true (2 ^ 1074 + 1)) = ⟨.fin true r⟩ ∧ Rep32 r ∧ r ≤ max32 ∧
      (∀ y, Rep32 y → |(r : Int) - (2 ^ 1074 + 1 : Nat)| ≤ |(y : Int) - (2 ^ 1074 + 1 : Nat)|) ∧
      (∀ y, Rep32 y → y ≠ r → |(r : Int) - (2 ^ 1074 + 1 : Nat)| = |(y : Int) - (2 ^ 1074 + 1 : Nat)| →
        2 * ulp32 (2 ^ 1074 + 1) ∣ r) :=
  toF32_nearest true (2 ^ 1074 + 1) (by
    calc 2 ^ 1074 + 1 < 1 * 2 ^ 1177 := by
          have : (2:Nat) ^ 1074 * 2 ≤ 2 ^ 1177 := by rw [← Nat.pow_succ]; exact Nat.pow_le_pow_right (by decide) (by decide)
          have := Nat.two_pow_pos 1074; omega
      _ ≤ _ := Nat.mul_le_mul_right _ (by decide))

end

end CAudit
