/-
Lemmas.Conv — helper lemmas for property C09 (conversions between `TwoFloat` and the primitive types).

Layout
  §1  the unit `U = 2^1074`, `F64.ofInt` (`n as f64`) and `F64.toIntSat` (`x as iN`)
  §2  pairs `(x, +0)`: validity (`Valid`, `TwoFloat.is_valid`)
  §3  `From<i8..i32,u8..u32>`            (generic model `fromSmall`)
  §4  `From<i64,u64,i128,u128>`          (generic model `fromBig`, `fromBigPf`)
  §5  `trunc` on non-finite / integer-valued inputs, the hypothesis `TruncSpec`
  §6  `TryFrom<TwoFloat>` for the small integer types (generic model `tryFromSmall`)
  §7  `TryFrom<TwoFloat>` for the wide integer types (generic model `tryFromBig`, `tryFromBigPf`)
  §8  packaged statements (`ExactBig`, `ApproxBig`, `tryFromSpec`) used by `TFV.Properties.C09`

Hypotheses-as-structures: `FastTwoSumSpec` (§4, general 128-bit case only) and `TruncSpec` (§5, `try_from` on
general valid inputs only); both are discharged in `TFV.Properties.C09` from Lemmas/EFT and Lemmas/Fraction.
-/
import TFV.Lemmas.Cmp
import TFV.Lemmas.NoOverlap
import Mathlib.Tactic.Ring
import Mathlib.Tactic.Linarith
import Mathlib.Tactic.NormNum
import Mathlib.Tactic.Positivity

set_option exponentiation.threshold 4096

namespace F64

/-! ## §1 the unit, `ofInt`, `toIntSat` -/

theorem unit_pos : 0 < F64.unit := Nat.two_pow_pos 1074

theorem unit_eq : F64.unit = 2 ^ 1074 := by unfold F64.unit; rw [pow_core_eq 2 1074]

theorem unit_posI : (0 : Int) < ((F64.unit : Nat) : Int) := Int.natCast_pos.2 unit_pos

theorem ofInt_unit (z : Int) : F64.ofInt z = roundSigned (z * ((F64.unit : Nat) : Int)) 1 false := rfl

/-- `2^128` (in fact everything up to `2^1023`) is far below the overflow threshold -/
theorem pow128_mul_unit_le : 2 ^ 128 * F64.unit ≤ maxFin := by decide +kernel

theorem toInt_fin (s : Bool) (n : Nat) : (fin s n).toInt = if s then -(n : Int) else (n : Int) := by
  cases s <;> rfl

theorem natAbs_toInt_fin (s : Bool) (n : Nat) : (fin s n).toInt.natAbs = n := by
  cases s <;> simp [toInt]

/-- `n as f64` in closed form: sign and correctly rounded magnitude (no overflow up to `2^128`) -/
theorem ofInt_eq (z : Int) (hz : z.natAbs ≤ 2 ^ 128) :
    F64.ofInt z = fin (decide (z < 0)) (rn53 z.natAbs * F64.unit) := by
  have hU := unit_posI
  rw [ofInt_unit]
  unfold roundSigned
  by_cases h0 : z = 0
  · subst h0; simp
  · have h1 : z * ((F64.unit : Nat) : Int) ≠ 0 := Int.mul_ne_zero h0 (by omega)
    rw [if_neg h1]
    have h2 : (z * ((F64.unit : Nat) : Int)).natAbs = z.natAbs * F64.unit := by
      rw [Int.natAbs_mul, Int.natAbs_natCast]
    have h3 : roundQ (z.natAbs * F64.unit) 1 = rn53 z.natAbs * F64.unit := by
      show rn53 (z.natAbs * F64.unit) = _
      rw [unit_eq, rn53_mul_pow2]
    have h4 : decide (z * ((F64.unit : Nat) : Int) < 0) = decide (z < 0) := by
      apply decide_eq_decide.2
      constructor
      · intro h; by_contra hn
        have : 0 ≤ z * ((F64.unit : Nat) : Int) := Int.mul_nonneg (by omega) (by omega)
        omega
      · intro h; exact Int.mul_neg_of_neg_of_pos h hU
    rw [h2, h3, h4]
    unfold pack
    rw [if_neg]
    have h5 : rn53 z.natAbs ≤ 2 ^ 128 := rn53_le_pow hz
    have h6 := Nat.mul_le_mul_right F64.unit h5
    have h7 := pow128_mul_unit_le
    omega

theorem ofInt_finite (z : Int) (hz : z.natAbs ≤ 2 ^ 128) : (F64.ofInt z).is_finite = true := by
  rw [ofInt_eq z hz]; rfl

/-- the value of `n as f64` is `RN(n)` -/
theorem ofInt_toInt (z : Int) (hz : z.natAbs ≤ 2 ^ 128) :
    (F64.ofInt z).toInt = rnI z * ((F64.unit : Nat) : Int) := by
  rw [ofInt_eq z hz, toInt_fin]
  by_cases h : z < 0
  · rw [rnI_of_neg h]; simp [h]
  · rw [rnI_of_nonneg (by omega)]; simp [h]

theorem ofInt_WF (z : Int) (hz : z.natAbs ≤ 2 ^ 128) : (F64.ofInt z).WF := by
  rw [ofInt_eq z hz]
  refine ⟨?_, ?_⟩
  · rw [unit_eq]; exact rep_mul_pow2 _ (rn53_rep _)
  · have h5 : rn53 z.natAbs ≤ 2 ^ 128 := rn53_le_pow hz
    have h6 := Nat.mul_le_mul_right F64.unit h5
    have h7 := pow128_mul_unit_le
    omega

/-- `rnI` is the identity on integers with a representable magnitude -/
theorem rnI_of_rep {z : Int} (h : Rep z.natAbs) : rnI z = z := by
  by_cases hz : z < 0
  · rw [rnI_of_neg hz, rn53_of_rep h]; omega
  · rw [rnI_of_nonneg (by omega), rn53_of_rep h]; omega

/-- **ofInt_exact**: an integer with a representable magnitude (in particular `|z| < 2^53`) converts
exactly -/
theorem ofInt_exact (z : Int) (hz : z.natAbs ≤ 2 ^ 128) (hr : Rep z.natAbs) :
    F64.ofInt z = fin (decide (z < 0)) (z.natAbs * F64.unit) ∧
      (F64.ofInt z).toInt = z * ((F64.unit : Nat) : Int) ∧ (F64.ofInt z).WF := by
  refine ⟨?_, ?_, ofInt_WF z hz⟩
  · rw [ofInt_eq z hz, rn53_of_rep hr]
  · rw [ofInt_toInt z hz, rnI_of_rep hr]

theorem ofInt_exact_of_lt (z : Int) (hz : z.natAbs < 2 ^ 53) :
    F64.ofInt z = fin (decide (z < 0)) (z.natAbs * F64.unit) ∧
      (F64.ofInt z).toInt = z * ((F64.unit : Nat) : Int) ∧ (F64.ofInt z).WF :=
  ofInt_exact z (by omega) (rep_of_lt hz)

theorem ofInt_zero : F64.ofInt 0 = fin false 0 := by decide +kernel

theorem ofInt_neg (z : Int) (hz : z.natAbs ≤ 2 ^ 128) (h0 : z ≠ 0) :
    F64.neg (F64.ofInt z) = F64.ofInt (-z) := by
  rw [ofInt_eq z hz, ofInt_eq (-z) (by rw [Int.natAbs_neg]; exact hz), Int.natAbs_neg]
  by_cases h : z < 0
  · simp [F64.neg, h]; omega
  · simp [F64.neg, h]; omega

/-- `x as iN` without saturation: a finite double whose value is the integer `q` within the range of
the type converts to `q` -/
theorem toIntSat_of_toInt (s : Bool) (b : Nat) {x : F64} (hx : x.is_finite = true) {q : Int}
    (hq : x.toInt = q * ((F64.unit : Nat) : Int)) (h1 : IntN.minV s b ≤ q) (h2 : q ≤ IntN.maxV s b) :
    F64.toIntSat s b x = q := by
  obtain ⟨sg, n, rfl⟩ := is_finite_iff.mp hx
  have hU := unit_pos
  have hn : n = q.natAbs * F64.unit := by
    have := congrArg Int.natAbs hq
    rwa [natAbs_toInt_fin, Int.natAbs_mul, Int.natAbs_natCast] at this
  have hd : n / F64.unit = q.natAbs := by rw [hn]; exact Nat.mul_div_cancel _ hU
  have hz : (if sg then -((n / F64.unit : Nat) : Int) else ((n / F64.unit : Nat) : Int)) = q := by
    rw [hd]
    cases sg
    · simp only [Bool.false_eq_true, if_false]
      have : 0 ≤ q * ((F64.unit : Nat) : Int) := by rw [← hq]; simp [toInt]
      have : 0 ≤ q := by
        by_contra hc
        have := Int.mul_neg_of_neg_of_pos (by omega : q < 0) unit_posI
        omega
      omega
    · simp only [if_true]
      have : q * ((F64.unit : Nat) : Int) ≤ 0 := by rw [← hq]; simp [toInt]
      have : q ≤ 0 := by
        by_contra hc
        have := Int.mul_pos (by omega : 0 < q) unit_posI
        omega
      omega
  show (let t : Int := ((n / F64.unit : Nat) : Int)
        let z := if sg then -t else t
        if z < IntN.minV s b then IntN.minV s b else if z > IntN.maxV s b then IntN.maxV s b else z) = q
  simp only [hz]
  rw [if_neg (by omega), if_neg (by omega)]

end F64

/-! ## §2 elementary `F64` facts, pairs `(x, +0)` -/

namespace F64

theorem toInt_pzero : (fin false 0).toInt = 0 := rfl

theorem eq_self_fin (s : Bool) (n : Nat) : F64.eq (fin s n) (fin s n) = true :=
  (eq_iff_toInt rfl rfl).2 rfl

/-- rounding the value of a well-formed non-zero double gives the double back -/
theorem roundSigned_toInt {s : Bool} {n : Nat} (hw : (fin s n).WF) (hn : n ≠ 0) (zs : Bool) :
    roundSigned (fin s n).toInt 1 zs = fin s n := by
  have hne : (fin s n).toInt ≠ 0 := by rw [toInt_fin]; cases s <;> simp <;> omega
  unfold roundSigned
  rw [if_neg hne, natAbs_toInt_fin]
  have h3 : roundQ n 1 = n := rn53_of_rep hw.1
  rw [h3]
  unfold pack
  rw [if_neg (by have := hw.2; omega)]
  congr 1
  rw [toInt_fin]
  cases s
  · simp
  · simp; omega

/-- `x + (+0) = x` up to the sign of zero; exactly `x` unless `x = -0` -/
theorem add_pzero_toInt {x : F64} (hx : x.is_finite = true) (hw : x.WF) :
    F64.add x (fin false 0) = (if x = fin true 0 then fin false 0 else x) := by
  obtain ⟨s, n, rfl⟩ := is_finite_iff.mp hx
  have hadd : F64.add (fin s n) (fin false 0) = roundSigned (fin s n).toInt 1 (s && false) := by
    show roundSigned ((fin s n).toInt + (fin false 0).toInt) 1 (s && false) = _
    rw [toInt_pzero, Int.add_zero]
  rw [hadd]
  by_cases hn : n = 0
  · subst hn
    cases s
    · simp [roundSigned, toInt]
    · simp [roundSigned, toInt]
  · rw [roundSigned_toInt hw hn, if_neg]
    intro h; injection h with _ h2; exact hn h2

/-- `x - (+0) = x` for every finite well-formed `x` (including both zeros) -/
theorem sub_pzero {x : F64} (hx : x.is_finite = true) (hw : x.WF) : F64.sub x (fin false 0) = x := by
  obtain ⟨s, n, rfl⟩ := is_finite_iff.mp hx
  have hadd : F64.sub (fin s n) (fin false 0) = roundSigned (fin s n).toInt 1 (s && true) := by
    show roundSigned ((fin s n).toInt + (fin true 0).toInt) 1 (s && true) = _
    have : (fin true 0).toInt = 0 := by simp [toInt]
    rw [this, Int.add_zero]
  rw [hadd]
  by_cases hn : n = 0
  · subst hn
    cases s <;> simp [roundSigned, toInt]
  · exact roundSigned_toInt hw hn _

/-- `x - x = +0` for every finite `x` -/
theorem sub_self_fin (s : Bool) (n : Nat) : F64.sub (fin s n) (fin s n) = fin false 0 := by
  show roundSigned ((fin s n).toInt + (fin (!s) n).toInt) 1 (s && !s) = _
  have : (fin s n).toInt + (fin (!s) n).toInt = 0 := by
    rw [toInt_fin, toInt_fin]; cases s <;> simp
  rw [this]
  cases s <;> simp [roundSigned]

/-- `x ⊕ (+0) == x` -/
theorem addEq_pzero {x : F64} (hx : x.is_finite = true) (hw : x.WF) :
    F64.addEq x (fin false 0) = true := by
  unfold addEq
  rw [add_pzero_toInt hx hw]
  obtain ⟨s, n, rfl⟩ := is_finite_iff.mp hx
  by_cases h : fin s n = fin true 0
  · rw [if_pos h, h]; exact (eq_iff_toInt rfl rfl).2 (by simp [toInt])
  · rw [if_neg h]; exact eq_self_fin s n

theorem eq_pzero_lit : ((fin false 0) ==. (f64lit 0x0000000000000000)) = true := by
  rw [req_eq, f64lit_zero]; rfl

theorem no_overlap_pzero {x : F64} (hx : x.is_finite = true) :
    base.no_overlap x (fin false 0) = true := by
  obtain ⟨s, n, rfl⟩ := is_finite_iff.mp hx
  unfold base.no_overlap
  have hc : F64.classify (fin s n) =
      if n = 0 then FpCategory.Zero else if n < 2 ^ 52 then .Subnormal else .Normal := rfl
  by_cases h0 : n = 0
  · rw [hc, if_pos h0]; exact eq_pzero_lit
  · by_cases h1 : n < 2 ^ 52
    · rw [hc, if_neg h0, if_pos h1]; exact eq_pzero_lit
    · rw [hc, if_neg h0, if_neg h1]
      simp only [eq_pzero_lit, if_true]

end F64

namespace TwoFloat

/-- a pair `(x, +0)` with finite well-formed `x` satisfies Definition 1.4 -/
theorem valid_pzero {x : F64} (hx : x.is_finite = true) (hw : x.WF) :
    (⟨x, F64.fin false 0⟩ : TwoFloat).Valid :=
  ⟨hx, rfl, F64.addEq_pzero hx hw⟩

/-- a pair `(x, +0)` with finite `x` passes the crate's own `is_valid` -/
theorem is_valid_pzero {x : F64} (hx : x.is_finite = true) :
    TwoFloat.is_valid ⟨x, F64.fin false 0⟩ = true := by
  unfold TwoFloat.is_valid
  simp only [hx, F64.is_finite_fin, Bool.and_self, Bool.true_and]
  exact F64.no_overlap_pzero hx

theorem V_pzero (x : F64) : (⟨x, F64.fin false 0⟩ : TwoFloat).V = x.toInt := by
  unfold V; simp

end TwoFloat

/-! ## ranges of the machine integer types -/

namespace IntN

/-- number of magnitude bits: `b - 1` for signed, `b` for unsigned types -/
def K (s : Bool) (b : Nat) : Nat := if s then b - 1 else b

theorem maxV_eq (s : Bool) (b : Nat) : maxV s b = ((2 ^ K s b : Nat) : Int) - 1 := by
  cases s <;> rfl

theorem minV_eq (s : Bool) (b : Nat) : minV s b = if s then -((2 ^ K s b : Nat) : Int) else 0 := by
  cases s <;> rfl

theorem fits_iff {s : Bool} {b : Nat} {z : Int} : fits s b z = true ↔ minV s b ≤ z ∧ z ≤ maxV s b := by
  unfold fits; simp

/-- every in-range value has magnitude at most `2^K` -/
theorem natAbs_le_of_fits {s : Bool} {b : Nat} {z : Int} (h : fits s b z = true) :
    z.natAbs ≤ 2 ^ K s b := by
  obtain ⟨h1, h2⟩ := fits_iff.1 h
  rw [minV_eq] at h1; rw [maxV_eq] at h2
  generalize 2 ^ K s b = P at h1 h2 ⊢
  cases s
  · simp only [Bool.false_eq_true, if_false] at h1; omega
  · simp only [if_true] at h1; omega

theorem ge_iff {s : Bool} {b : Nat} (x y : IntN s b) : (x >=. y) = true ↔ y.v ≤ x.v := by
  show (match (some (if x.v < y.v then ROrdering.Less else if x.v = y.v then .Equal else .Greater) :
      Option ROrdering) with | some .Greater => true | some .Equal => true | _ => false) = true ↔ _
  by_cases h1 : x.v < y.v
  · rw [if_pos h1]; simp; omega
  · by_cases h2 : x.v = y.v
    · rw [if_neg h1, if_pos h2]; simp; omega
    · rw [if_neg h1, if_neg h2]; simp; omega

end IntN

/-! ## §3 `From<i8 | i16 | i32 | u8 | u16 | u32> for TwoFloat` -/

namespace Conv
open F64 TwoFloat

/-- the common body of the six small `From` impls: `TwoFloat { hi: value as f64, lo: 0.0 }` -/
def fromSmall (z : Int) : TwoFloat := ({ hi := F64.ofInt z, lo := f64lit 0x0000000000000000 } : TwoFloat)

theorem from_i8_eq (v : I8) : convert.impl_From_i8_for_TwoFloat.from v = fromSmall v.v := rfl
theorem from_i16_eq (v : I16) : convert.impl_From_i16_for_TwoFloat.from v = fromSmall v.v := rfl
theorem from_i32_eq (v : I32) : convert.impl_From_i32_for_TwoFloat.from v = fromSmall v.v := rfl
theorem from_u8_eq (v : U8) : convert.impl_From_u8_for_TwoFloat.from v = fromSmall v.v := rfl
theorem from_u16_eq (v : U16) : convert.impl_From_u16_for_TwoFloat.from v = fromSmall v.v := rfl
theorem from_u32_eq (v : U32) : convert.impl_From_u32_for_TwoFloat.from v = fromSmall v.v := rfl

/-- what "the conversion of the integer `z` is exact, valid and has low word `+0`" means -/
structure ExactInt (t : TwoFloat) (z : Int) : Prop where
  hi : t.hi = fin (decide (z < 0)) (z.natAbs * F64.unit)
  lo : t.lo = fin false 0
  V : t.V = z * ((F64.unit : Nat) : Int)
  valid : t.Valid
  is_valid : TwoFloat.is_valid t = true
  wf : t.WF

theorem fromSmall_eq (z : Int) (hz : z.natAbs < 2 ^ 53) :
    fromSmall z = ⟨fin (decide (z < 0)) (z.natAbs * F64.unit), fin false 0⟩ := by
  unfold fromSmall
  rw [(ofInt_exact_of_lt z hz).1, f64lit_zero]

/-- `TwoFloat::from(n)` for `|n| < 2^53` through the small-type code path -/
theorem fromSmall_exact (z : Int) (hz : z.natAbs < 2 ^ 53) : ExactInt (fromSmall z) z := by
  have hw : (F64.ofInt z).WF := (ofInt_exact_of_lt z hz).2.2
  have ht : (F64.ofInt z).toInt = z * ((F64.unit : Nat) : Int) := (ofInt_exact_of_lt z hz).2.1
  rw [(ofInt_exact_of_lt z hz).1] at hw ht
  rw [fromSmall_eq z hz]
  exact ⟨rfl, rfl, by rw [V_pzero, ht], valid_pzero rfl hw, is_valid_pzero rfl, ⟨hw, rep_zero, Nat.zero_le _⟩⟩

/-- in-range values of a type with at most 52 magnitude bits are below `2^53` -/
theorem natAbs_lt_of_fits_small {s : Bool} {b : Nat} (hK : IntN.K s b ≤ 52) {z : Int}
    (h : IntN.fits s b z = true) : z.natAbs < 2 ^ 53 := by
  have h1 := IntN.natAbs_le_of_fits h
  have h2 : 2 ^ IntN.K s b ≤ 2 ^ 52 := Nat.pow_le_pow_right (by decide) hK
  omega

end Conv

/-! ## §4 `From<i64 | u64 | i128 | u128> for TwoFloat` -/

namespace Conv
open F64 TwoFloat

/-- the common body of the four wide `From` impls (the macro `from_int_conversion!` of convert.rs) -/
def fromBig {s : Bool} {b : Nat} (value : IntN s b) : TwoFloat :=
  let a := (RCast.cast value : F64)
  let b' := (if a ==. (RCast.cast (IntN.MAX : IntN s b) : F64) then F64.neg (RCast.cast (((IntN.MAX : IntN s b) -. value) +. (1 : IntN s b)) : F64) else if value >=. (RCast.cast a : IntN s b) then (RCast.cast (value -. (RCast.cast a : IntN s b)) : F64) else F64.neg (RCast.cast ((RCast.cast a : IntN s b) -. value) : F64))
  arithmetic.fast_two_sum a b'

/-- its panic-freedom predicate -/
def fromBigPf {s : Bool} {b : Nat} (value : IntN s b) : Bool :=
  let a := (RCast.cast value : F64)
  if a ==. (RCast.cast (IntN.MAX : IntN s b) : F64) then
    (IntN.inRange ((IntN.MAX : IntN s b) -. value)) && (IntN.inRange (((IntN.MAX : IntN s b) -. value) +. (1 : IntN s b)))
  else if value >=. (RCast.cast a : IntN s b) then
    IntN.inRange (value -. (RCast.cast a : IntN s b))
  else
    IntN.inRange ((RCast.cast a : IntN s b) -. value)

theorem from_i64_eq (v : I64) : convert.impl_From_i64_for_TwoFloat.from v = fromBig v := rfl
theorem from_u64_eq (v : U64) : convert.impl_From_u64_for_TwoFloat.from v = fromBig v := rfl
theorem from_i128_eq (v : I128) : convert.impl_From_i128_for_TwoFloat.from v = fromBig v := rfl
theorem from_u128_eq (v : U128) : convert.impl_From_u128_for_TwoFloat.from v = fromBig v := rfl
theorem from_i64_pf_eq (v : I64) : convert.impl_From_i64_for_TwoFloat.from.pf v = fromBigPf v := rfl
theorem from_u64_pf_eq (v : U64) : convert.impl_From_u64_for_TwoFloat.from.pf v = fromBigPf v := rfl
theorem from_i128_pf_eq (v : I128) : convert.impl_From_i128_for_TwoFloat.from.pf v = fromBigPf v := rfl
theorem from_u128_pf_eq (v : U128) : convert.impl_From_u128_for_TwoFloat.from.pf v = fromBigPf v := rfl

end Conv

namespace F64

theorem natAbs_rnI (z : Int) : (rnI z).natAbs = rn53 z.natAbs := by
  by_cases h : z < 0
  · rw [rnI_of_neg h]; simp
  · rw [rnI_of_nonneg (by omega)]; simp

/-- `2^K - 1` rounds up to `2^K` as soon as it has more than 53 bits -/
theorem rn53_pow_sub_one {K : Nat} (hK : 54 ≤ K) : rn53 (2 ^ K - 1) = 2 ^ K := by
  obtain ⟨e, rfl⟩ : ∃ e, K = 54 + e := ⟨K - 54, by omega⟩
  have hP := Nat.two_pow_pos e
  have e1 : 2 ^ (54 + e) = 2 ^ 53 * 2 ^ (e + 1) := by rw [Nat.pow_add, Nat.pow_succ]; ring
  have e3 : 2 ^ (e + 1) = 2 * 2 ^ e := by rw [Nat.pow_succ]; ring
  have e2 : 2 ^ (54 + e) - 1 = (2 ^ 53 - 1) * 2 ^ (e + 1) + (2 ^ (e + 1) - 1) := by
    rw [e1, e3]; generalize 2 ^ e = P at hP ⊢; omega
  have hr : 2 ^ (e + 1) - 1 < 2 ^ (e + 1) := by rw [e3]; omega
  rw [e2, rn53_binade (by decide) (by decide) hr, rint_add_mul _ _ _ hr, e1]
  congr 1
  rw [e3]
  generalize 2 ^ e = P at hP ⊢
  split_ifs <;> first | omega | contradiction

end F64

namespace Conv
open F64 TwoFloat

/-- facts about `r = RN(z)` for an in-range `z` -/
structure RnFacts (s : Bool) (b : Nat) (z : Int) : Prop where
  abs_le : (rnI z).natAbs ≤ 2 ^ IntN.K s b
  nonneg : 0 ≤ z → 0 ≤ rnI z
  neg : z < 0 → rnI z < 0
  pos : 0 < z → 0 < rnI z
  ge_min : IntN.minV s b ≤ rnI z
  le_pow : rnI z ≤ ((2 ^ IntN.K s b : Nat) : Int)
  diff_le : (z - rnI z).natAbs ≤ (rnI z).natAbs
  diff_le' : (z - rnI z).natAbs ≤ z.natAbs

theorem rnFacts {s : Bool} {b : Nat} {z : Int} (h : IntN.fits s b z = true) : RnFacts s b z := by
  have habs : (rnI z).natAbs ≤ 2 ^ IntN.K s b := by
    rw [natAbs_rnI]; exact rn53_le_pow (IntN.natAbs_le_of_fits h)
  have hnn : 0 ≤ z → 0 ≤ rnI z := rnI_nonneg
  have hneg : z < 0 → rnI z < 0 := roundFacts.rnI_neg'
  have hpos : 0 < z → 0 < rnI z := roundFacts.rnI_pos
  have h1 := rn53_le_two_mul z.natAbs
  have h2 := le_two_mul_rn53 z.natAbs
  rw [← natAbs_rnI] at h1 h2
  refine ⟨habs, hnn, hneg, hpos, ?_, by omega, ?_, ?_⟩
  · obtain ⟨hmin, _⟩ := IntN.fits_iff.1 h
    rw [IntN.minV_eq] at hmin ⊢
    cases s
    · simp only [Bool.false_eq_true, if_false] at hmin ⊢; exact hnn hmin
    · simp only [if_true]; omega
  · by_cases hz : z < 0
    · have := hneg hz; omega
    · have := hnn (by omega); omega
  · by_cases hz : z < 0
    · have := hneg hz; omega
    · have := hnn (by omega); omega

theorem maxV_natAbs (s : Bool) (b : Nat) : (IntN.maxV s b).natAbs = 2 ^ IntN.K s b - 1 := by
  rw [IntN.maxV_eq]
  have := Nat.two_pow_pos (IntN.K s b)
  omega

/-- `iN::MAX as f64` is `2^K` for the wide types -/
theorem ofInt_max_toInt {s : Bool} {b : Nat} (hK : 54 ≤ IntN.K s b) (hK' : IntN.K s b ≤ 128) :
    (F64.ofInt (IntN.maxV s b)).toInt = ((2 ^ IntN.K s b : Nat) : Int) * ((F64.unit : Nat) : Int) := by
  have hle : (IntN.maxV s b).natAbs ≤ 2 ^ 128 := by
    rw [maxV_natAbs]
    have : 2 ^ IntN.K s b ≤ 2 ^ 128 := Nat.pow_le_pow_right (by decide) hK'
    omega
  rw [ofInt_toInt _ hle, rnI_of_nonneg, maxV_natAbs, rn53_pow_sub_one hK]
  rw [IntN.maxV_eq]
  have := Nat.two_pow_pos (IntN.K s b)
  omega

theorem natAbs_le_128 {s : Bool} {b : Nat} (hK' : IntN.K s b ≤ 128) {z : Int}
    (h : IntN.fits s b z = true) : z.natAbs ≤ 2 ^ 128 :=
  Nat.le_trans (IntN.natAbs_le_of_fits h) (Nat.pow_le_pow_right (by decide) hK')

/-- the test `a == iN::MAX as f64` -/
theorem eq_ofInt_max {s : Bool} {b : Nat} (hK : 54 ≤ IntN.K s b) (hK' : IntN.K s b ≤ 128) {z : Int}
    (h : IntN.fits s b z = true) :
    F64.eq (F64.ofInt z) (F64.ofInt (IntN.maxV s b)) = true ↔ rnI z = ((2 ^ IntN.K s b : Nat) : Int) := by
  have hz := natAbs_le_128 hK' h
  have hm : (IntN.maxV s b).natAbs ≤ 2 ^ 128 := by
    rw [maxV_natAbs]
    have : 2 ^ IntN.K s b ≤ 2 ^ 128 := Nat.pow_le_pow_right (by decide) hK'
    omega
  rw [eq_iff_toInt (ofInt_finite z hz) (ofInt_finite _ hm), ofInt_toInt z hz, ofInt_max_toInt hK hK']
  constructor
  · intro h; exact Int.eq_of_mul_eq_mul_right (by have := unit_posI; omega) h
  · intro h; rw [h]

/-- `a as iN` does not saturate unless `a == iN::MAX as f64` -/
theorem toIntSat_ofInt {s : Bool} {b : Nat} (hK' : IntN.K s b ≤ 128) {z : Int}
    (h : IntN.fits s b z = true) (hne : rnI z ≠ ((2 ^ IntN.K s b : Nat) : Int)) :
    F64.toIntSat s b (F64.ofInt z) = rnI z := by
  have hz := natAbs_le_128 hK' h
  have R := rnFacts h
  apply toIntSat_of_toInt s b (ofInt_finite z hz) (ofInt_toInt z hz) R.ge_min
  rw [IntN.maxV_eq]
  have := R.le_pow
  omega

end Conv

namespace Conv
open F64 TwoFloat

theorem cast_int_f64 {s : Bool} {b : Nat} (x : IntN s b) : (RCast.cast x : F64) = F64.ofInt x.v := rfl
theorem cast_f64_int {s : Bool} {b : Nat} (x : F64) :
    (RCast.cast x : IntN s b) = ⟨F64.toIntSat s b x⟩ := rfl
theorem sub_v {s : Bool} {b : Nat} (x y : IntN s b) : (x -. y).v = x.v - y.v := rfl
theorem add_v {s : Bool} {b : Nat} (x y : IntN s b) : (x +. y).v = x.v + y.v := rfl
theorem one_v {s : Bool} {b : Nat} : (1 : IntN s b).v = 1 := rfl
theorem max_v {s : Bool} {b : Nat} : (IntN.MAX : IntN s b).v = IntN.maxV s b := rfl
theorem min_v {s : Bool} {b : Nat} : (IntN.MIN : IntN s b).v = IntN.minV s b := rfl

theorem fromBig_unfold {s : Bool} {b : Nat} (v : IntN s b) :
    fromBig v = arithmetic.fast_two_sum (F64.ofInt v.v)
      (if F64.eq (F64.ofInt v.v) (F64.ofInt (IntN.maxV s b)) = true then
        F64.neg (F64.ofInt (IntN.maxV s b - v.v + 1))
       else if v.v ≥ F64.toIntSat s b (F64.ofInt v.v) then
        F64.ofInt (v.v - F64.toIntSat s b (F64.ofInt v.v))
       else F64.neg (F64.ofInt (F64.toIntSat s b (F64.ofInt v.v) - v.v))) := by
  have hge : (v >=. (RCast.cast (RCast.cast v : F64) : IntN s b)) =
      decide (v.v ≥ F64.toIntSat s b (F64.ofInt v.v)) := by
    rw [Bool.eq_iff_iff, IntN.ge_iff, decide_eq_true_iff]; rfl
  unfold fromBig
  simp only [hge, decide_eq_true_eq]
  rfl

theorem fromBigPf_unfold {s : Bool} {b : Nat} (v : IntN s b) :
    fromBigPf v =
      (if F64.eq (F64.ofInt v.v) (F64.ofInt (IntN.maxV s b)) = true then
        IntN.fits s b (IntN.maxV s b - v.v) && IntN.fits s b (IntN.maxV s b - v.v + 1)
       else if v.v ≥ F64.toIntSat s b (F64.ofInt v.v) then
        IntN.fits s b (v.v - F64.toIntSat s b (F64.ofInt v.v))
       else IntN.fits s b (F64.toIntSat s b (F64.ofInt v.v) - v.v)) := by
  have hge : (v >=. (RCast.cast (RCast.cast v : F64) : IntN s b)) =
      decide (v.v ≥ F64.toIntSat s b (F64.ofInt v.v)) := by
    rw [Bool.eq_iff_iff, IntN.ge_iff, decide_eq_true_iff]; rfl
  unfold fromBigPf
  simp only [hge, decide_eq_true_eq]
  rfl

/-- normal form of the wide `From` impls: `fast_two_sum (RN(v)) (RN(v - RN(v)))` -/
theorem fromBig_eq {s : Bool} {b : Nat} (hK : 54 ≤ IntN.K s b) (hK' : IntN.K s b ≤ 128)
    (v : IntN s b) (hv : v.inRange = true) :
    fromBig v = arithmetic.fast_two_sum (F64.ofInt v.v) (F64.ofInt (v.v - rnI v.v)) := by
  have R := rnFacts hv
  have hfit := IntN.fits_iff.1 hv
  rw [IntN.maxV_eq] at hfit
  have hP := Nat.two_pow_pos (IntN.K s b)
  have hP128 : 2 ^ IntN.K s b ≤ 2 ^ 128 := Nat.pow_le_pow_right (by decide) hK'
  rw [fromBig_unfold]
  congr 1
  by_cases hr : rnI v.v = ((2 ^ IntN.K s b : Nat) : Int)
  · rw [if_pos ((eq_ofInt_max hK hK' hv).2 hr), IntN.maxV_eq, hr]
    have hvpos : 0 < v.v := by
      by_contra hc
      rcases Int.lt_or_eq_of_le (by omega : v.v ≤ 0) with h | h
      · have := R.neg h; omega
      · rw [h, rnI_zero] at hr; omega
    rw [ofInt_neg _ (by omega) (by omega)]
    congr 1; omega
  · have hne : ¬ (F64.eq (F64.ofInt v.v) (F64.ofInt (IntN.maxV s b)) = true) :=
      fun h => hr ((eq_ofInt_max hK hK' hv).1 h)
    rw [if_neg hne]
    simp only [toIntSat_ofInt hK' hv hr]
    have h1 := R.diff_le'
    have h2 := natAbs_le_128 hK' hv
    by_cases hge : rnI v.v ≤ v.v
    · rw [if_pos hge]
    · rw [if_neg hge, ofInt_neg _ (by omega) (by omega)]
      congr 1; omega

/-- **panic freedom** of the wide `From` impls: no intermediate integer operation overflows -/
theorem fromBigPf_true {s : Bool} {b : Nat} (hK : 54 ≤ IntN.K s b) (hK' : IntN.K s b ≤ 128)
    (v : IntN s b) (hv : v.inRange = true) : fromBigPf v = true := by
  have R := rnFacts hv
  have hfit := IntN.fits_iff.1 hv
  have hmax := IntN.maxV_eq s b
  have hmin := IntN.minV_eq s b
  have hP := Nat.two_pow_pos (IntN.K s b)
  rw [fromBigPf_unfold]
  by_cases hr : rnI v.v = ((2 ^ IntN.K s b : Nat) : Int)
  · rw [if_pos ((eq_ofInt_max hK hK' hv).2 hr)]
    have hvpos : 0 < v.v := by
      by_contra hc
      rcases Int.lt_or_eq_of_le (by omega : v.v ≤ 0) with h | h
      · have := R.neg h; omega
      · rw [h, rnI_zero] at hr; omega
    simp only [Bool.and_eq_true, IntN.fits_iff]
    cases s
    · simp only [Bool.false_eq_true, if_false] at hmin; omega
    · simp only [if_true] at hmin; omega
  · have hne : ¬ (F64.eq (F64.ofInt v.v) (F64.ofInt (IntN.maxV s b)) = true) :=
      fun h => hr ((eq_ofInt_max hK hK' hv).1 h)
    rw [if_neg hne]
    simp only [toIntSat_ofInt hK' hv hr]
    have h1 := R.abs_le
    have h2 := R.le_pow
    have h3 := R.nonneg
    have h4 := R.neg
    have h5 := R.pos
    by_cases hge : rnI v.v ≤ v.v
    · rw [if_pos hge]
      simp only [IntN.fits_iff]
      cases s
      · simp only [Bool.false_eq_true, if_false] at hmin
        have := h3 (by omega); omega
      · simp only [if_true] at hmin
        by_cases hz : v.v < 0
        · have := h4 hz; omega
        · have := h3 (by omega); omega
    · rw [if_neg hge]
      simp only [IntN.fits_iff]
      cases s
      · simp only [Bool.false_eq_true, if_false] at hmin
        have := h3 (by omega); omega
      · simp only [if_true] at hmin
        by_cases hz : v.v < 0
        · have := h4 hz; omega
        · have := h3 (by omega); omega

end Conv

/-! ### the exact case: `v - RN(v)` representable -/

namespace F64

theorem add_finite_eq {x y : F64} (hx : x.is_finite = true) (hy : y.is_finite = true) :
    F64.add x y = roundSigned (x.toInt + y.toInt) 1 (x.is_sign_negative && y.is_sign_negative) := by
  obtain ⟨s, n, rfl⟩ := is_finite_iff.mp hx
  obtain ⟨t, m, rfl⟩ := is_finite_iff.mp hy
  rfl

theorem roundSigned_zs {num : Int} (h : num ≠ 0) (den : Nat) (zs zs' : Bool) :
    roundSigned num den zs = roundSigned num den zs' := by
  unfold roundSigned; rw [if_neg h, if_neg h]

/-- if `a ⊕ b` is bitwise `a`, Fast2Sum returns the two words unchanged -/
theorem fast_two_sum_of_add_eq {a b : F64} (ha : a.is_finite = true) (hb : b.is_finite = true)
    (hbw : b.WF) (h : F64.add a b = a) : arithmetic.fast_two_sum a b = ⟨a, b⟩ := by
  obtain ⟨s, n, rfl⟩ := is_finite_iff.mp ha
  show ({ hi := F64.add (fin s n) b,
          lo := F64.sub b (F64.sub (F64.add (fin s n) b) (fin s n)) } : TwoFloat) = _
  rw [h, sub_self_fin, sub_pzero hb hbw]

/-- `RN(z) ⊕ (z - RN(z)) = RN(z)` bitwise, when the remainder is representable -/
theorem add_ofInt_err {z : Int} (hz : z.natAbs ≤ 2 ^ 128) (hd : (z - rnI z).natAbs ≤ 2 ^ 128)
    (hr : Rep (z - rnI z).natAbs) : F64.add (F64.ofInt z) (F64.ofInt (z - rnI z)) = F64.ofInt z := by
  by_cases h0 : z = 0
  · subst h0; rw [rnI_zero]; decide +kernel
  · rw [add_finite_eq (ofInt_finite z hz) (ofInt_finite _ hd), ofInt_toInt z hz,
      (ofInt_exact _ hd hr).2.1, ← Int.add_mul]
    have : rnI z + (z - rnI z) = z := by omega
    rw [this, ofInt_unit]
    exact roundSigned_zs (Int.mul_ne_zero h0 (by have := unit_posI; omega)) _ _ _

/-- at most 106 significant bits -/
def SigBits106 (z : Int) : Prop := ∃ m j : Nat, m < 2 ^ 106 ∧ z.natAbs = m * 2 ^ j

theorem sigBits106_of_lt {z : Int} (h : z.natAbs < 2 ^ 106) : SigBits106 z := ⟨z.natAbs, 0, h, by simp⟩

/-- the rounding remainder of an integer with at most 106 significant bits is representable -/
theorem rep_err_of_sig106 {z : Int} (h : SigBits106 z) : Rep (z - rnI z).natAbs := by
  obtain ⟨m, j, hm, hz⟩ := h
  have e1 : (z - rnI z).natAbs = (((rn53 z.natAbs : Nat) : Int) - (z.natAbs : Int)).natAbs := by
    by_cases hneg : z < 0
    · rw [rnI_of_neg hneg]; omega
    · rw [rnI_of_nonneg (by omega)]; omega
  rw [e1]
  apply rep_natAbs_of_dvd_of_le (k := j)
  · exact rn53_sub_dvd ⟨m, by rw [hz, Nat.mul_comm]⟩
  · have hb := rn53_abs_err z.natAbs
    have hl : Nat.log2 z.natAbs - 52 ≤ 53 + j := by
      apply log2_sub_le
      rw [hz, Nat.pow_add, ← Nat.mul_assoc]
      exact Nat.mul_lt_mul_of_pos_right (by omega) (Nat.two_pow_pos j)
    have hp : 2 ^ (Nat.log2 z.natAbs - 52) ≤ 2 ^ (53 + j) := Nat.pow_le_pow_right (by decide) hl
    have e2 : 2 ^ (53 + j) = 2 ^ 53 * 2 ^ j := Nat.pow_add 2 53 j
    have e3 : ((2 : Int) ^ 53 * 2 ^ j) = ((2 ^ 53 * 2 ^ j : Nat) : Int) := by push_cast; ring
    rw [e3]
    generalize 2 ^ (Nat.log2 z.natAbs - 52) = B at hb hp
    generalize 2 ^ 53 * 2 ^ j = C at e2 ⊢
    generalize |((rn53 z.natAbs : Nat) : Int) - (z.natAbs : Int)| = D at hb ⊢
    omega

end F64

namespace Conv
open F64 TwoFloat

/-- the remainder `v - RN(v)` is itself within the `ofInt` range -/
theorem err_le_128 {s : Bool} {b : Nat} (hK' : IntN.K s b ≤ 128) {z : Int}
    (h : IntN.fits s b z = true) : (z - rnI z).natAbs ≤ 2 ^ 128 :=
  Nat.le_trans (rnFacts h).diff_le' (natAbs_le_128 hK' h)

/-- **exact wide conversion**: when the remainder `v - RN(v)` is representable, `TwoFloat::from(v)` is
literally the pair `(RN(v), v - RN(v))`, its value is `v`, and it is valid -/
theorem fromBig_exact {s : Bool} {b : Nat} (hK : 54 ≤ IntN.K s b) (hK' : IntN.K s b ≤ 128)
    (v : IntN s b) (hv : v.inRange = true) (hr : Rep (v.v - rnI v.v).natAbs) :
    fromBig v = ⟨F64.ofInt v.v, F64.ofInt (v.v - rnI v.v)⟩ ∧
      (fromBig v).V = v.v * ((F64.unit : Nat) : Int) ∧ (fromBig v).Valid ∧ (fromBig v).WF := by
  have hz := natAbs_le_128 hK' hv
  have hd := err_le_128 hK' hv
  have hfa := ofInt_finite v.v hz
  have hfb := ofInt_finite _ hd
  have hadd := add_ofInt_err hz hd hr
  have heq : fromBig v = ⟨F64.ofInt v.v, F64.ofInt (v.v - rnI v.v)⟩ := by
    rw [fromBig_eq hK hK' v hv]
    exact fast_two_sum_of_add_eq hfa hfb (ofInt_WF _ hd) hadd
  refine ⟨heq, ?_, ?_, ?_⟩
  · rw [heq]; unfold V
    simp only [ofInt_toInt v.v hz, (ofInt_exact _ hd hr).2.1]
    rw [← Int.add_mul]; congr 1; omega
  · rw [heq]
    refine ⟨hfa, hfb, ?_⟩
    unfold addEq
    simp only [hadd]
    obtain ⟨sg, n, e⟩ := is_finite_iff.mp hfa
    rw [e]; exact eq_self_fin sg n
  · rw [heq]; exact ⟨ofInt_WF _ hz, ofInt_WF _ hd⟩

/-- for at most 105 magnitude bits (i64, u64) the remainder is always representable -/
theorem rep_err_of_K_le {s : Bool} {b : Nat} (hK : IntN.K s b ≤ 105) {z : Int}
    (h : IntN.fits s b z = true) : Rep (z - rnI z).natAbs := by
  apply rep_err_of_sig106
  apply sigBits106_of_lt
  have h1 := IntN.natAbs_le_of_fits h
  have h2 : 2 ^ IntN.K s b ≤ 2 ^ 105 := Nat.pow_le_pow_right (by decide) hK
  omega

/-! ### the general case, through the Fast2Sum theorem -/

/-- The Fast2Sum theorem (Dekker): for finite well-formed `a`, `b` with `|b| ≤ |a|` and no overflow,
`fast_two_sum a b` is an error-free transformation with a valid result.
To be discharged by `TFV.Lemmas.EFT`; used ONLY for 128-bit inputs with more than 106 significant bits. -/
def FastTwoSumSpec : Prop :=
  ∀ a b : F64, a.WF → b.WF → a.is_finite = true → b.is_finite = true →
    b.toInt.natAbs ≤ a.toInt.natAbs → (F64.add a b).is_finite = true →
    (arithmetic.fast_two_sum a b).V = a.toInt + b.toInt ∧ (arithmetic.fast_two_sum a b).Valid ∧
      (arithmetic.fast_two_sum a b).WF

theorem pow1203_le : 2 ^ 1203 ≤ maxFin := by decide +kernel

/-- the sum of two doubles of magnitude at most `2^128` does not overflow -/
theorem add_finite_of_le {x y : F64} (hx : x.is_finite = true) (hy : y.is_finite = true)
    (hx' : x.toInt.natAbs ≤ 2 ^ 128 * F64.unit) (hy' : y.toInt.natAbs ≤ 2 ^ 128 * F64.unit) :
    (F64.add x y).is_finite = true := by
  rw [add_finite_eq hx hy]
  unfold roundSigned
  split_ifs with h0
  · rfl
  · unfold pack
    have h1 : (x.toInt + y.toInt).natAbs ≤ 2 ^ 1203 := by
      have : 2 ^ 128 * F64.unit + 2 ^ 128 * F64.unit = 2 ^ 1203 := by
        rw [unit_eq]; norm_num
      omega
    have h2 : roundQ (x.toInt + y.toInt).natAbs 1 ≤ 2 ^ 1203 := rn53_le_pow h1
    rw [if_neg (by have := pow1203_le; omega)]
    rfl

/-- **general wide conversion** (given the Fast2Sum theorem): the result is valid and its value `w`
satisfies `|v - w| ≤ 2^-106 |v|` -/
theorem fromBig_approx (hF : FastTwoSumSpec) {s : Bool} {b : Nat} (hK : 54 ≤ IntN.K s b)
    (hK' : IntN.K s b ≤ 128) (v : IntN s b) (hv : v.inRange = true) :
    (fromBig v).Valid ∧ (fromBig v).WF ∧
      ∃ w : Int, (fromBig v).V = w * ((F64.unit : Nat) : Int) ∧ 2 ^ 106 * |v.v - w| ≤ |v.v| := by
  have hz := natAbs_le_128 hK' hv
  have hd := err_le_128 hK' hv
  have R := rnFacts hv
  have hfa := ofInt_finite v.v hz
  have hfb := ofInt_finite _ hd
  have hta := ofInt_toInt v.v hz
  have htb := ofInt_toInt _ hd
  have hU := unit_pos
  have hrr : (rnI (v.v - rnI v.v)).natAbs ≤ (rnI v.v).natAbs := by
    rw [natAbs_rnI, natAbs_rnI v.v]
    apply rn53_le_of_le (rn53_rep _)
    rw [← natAbs_rnI]; exact R.diff_le
  have hle : (F64.ofInt (v.v - rnI v.v)).toInt.natAbs ≤ (F64.ofInt v.v).toInt.natAbs := by
    rw [hta, htb, Int.natAbs_mul, Int.natAbs_mul]
    exact Nat.mul_le_mul_right _ hrr
  have hr128 : (rnI v.v).natAbs ≤ 2 ^ 128 := by rw [natAbs_rnI]; exact rn53_le_pow hz
  have hfin : (F64.add (F64.ofInt v.v) (F64.ofInt (v.v - rnI v.v))).is_finite = true := by
    apply add_finite_of_le hfa hfb
    · rw [hta, Int.natAbs_mul, Int.natAbs_natCast]; exact Nat.mul_le_mul_right _ hr128
    · rw [htb, Int.natAbs_mul, Int.natAbs_natCast]; exact Nat.mul_le_mul_right _ (by omega)
  obtain ⟨h1, h2, h3⟩ := hF _ _ (ofInt_WF _ hz) (ofInt_WF _ hd) hfa hfb hle hfin
  rw [← fromBig_eq hK hK' v hv] at h1 h2 h3
  refine ⟨h2, h3, rnI v.v + rnI (v.v - rnI v.v), ?_, ?_⟩
  · rw [h1, hta, htb, Int.add_mul]
  · -- |e - RN(e)| ≤ 2^-53 |e| and |e| = |v - RN(v)| ≤ 2^-53 |v|
    have hrel (z : Int) : 2 ^ 53 * |z - rnI z| ≤ |z| := by
      have := rn53_rel_err z.natAbs
      by_cases hneg : z < 0
      · rw [rnI_of_neg hneg]
        have e : z - -((rn53 z.natAbs : Nat) : Int) = ((rn53 z.natAbs : Nat) : Int) - (z.natAbs : Int) := by
          omega
        rw [e, abs_of_neg hneg]; omega
      · rw [rnI_of_nonneg (by omega)]
        have e : z - ((rn53 z.natAbs : Nat) : Int) = -(((rn53 z.natAbs : Nat) : Int) - (z.natAbs : Int)) := by
          omega
        rw [e, abs_neg, abs_of_nonneg (by omega : 0 ≤ z)]; omega
    have e1 := hrel v.v
    have e2 := hrel (v.v - rnI v.v)
    have e3 : v.v - (rnI v.v + rnI (v.v - rnI v.v)) = (v.v - rnI v.v) - rnI (v.v - rnI v.v) := by ring
    rw [e3]
    have e4 : (2 : Int) ^ 106 = 2 ^ 53 * 2 ^ 53 := by norm_num
    rw [e4]
    generalize |v.v - rnI v.v - rnI (v.v - rnI v.v)| = X at e2 ⊢
    generalize |v.v - rnI v.v| = Y at e1 e2
    generalize |v.v| = Z at e1 ⊢
    omega

end Conv

/-! ## §5 `trunc`: the hypothesis `TruncSpec`, non-finite and integer-valued inputs -/

namespace Conv
open F64 TwoFloat

/-- the scaled integer 1 -/
abbrev U : Int := ((F64.unit : Nat) : Int)

/-- Exactness of `TwoFloat::trunc` on valid inputs (property C08, to be discharged by
`TFV.Properties.C08`): the result is valid and its value is the truncation toward zero of the exact
value to an integer (a multiple of `U = 2^1074`). -/
structure TruncSpec : Prop where
  valid : ∀ x : TwoFloat, x.Valid → x.WF → (TwoFloat.trunc x).Valid
  wf : ∀ x : TwoFloat, x.Valid → x.WF → (TwoFloat.trunc x).WF
  value : ∀ x : TwoFloat, x.Valid → x.WF → (TwoFloat.trunc x).V = Int.tdiv x.V U * U

theorem add_inf_left_not_finite (s : Bool) (y : F64) : (F64.add (inf s) y).is_finite = false := by
  cases y with
  | nan => rfl
  | inf t => show (if s = t then inf s else nan).is_finite = false; split_ifs <;> rfl
  | fin t n => rfl

theorem fast_two_sum_inf_hi (s : Bool) (y : F64) :
    (arithmetic.fast_two_sum (inf s) y).hi.is_finite = false := add_inf_left_not_finite s y

theorem floor_hi_not_finite (hi lo : F64) (h : hi.is_finite = false) :
    (TwoFloat.floor ⟨hi, lo⟩).hi.is_finite = false := by
  unfold TwoFloat.floor
  cases hi with
  | fin s n => exact absurd h (by simp [is_finite])
  | nan => split_ifs <;> rfl
  | inf s =>
    split_ifs
    · rfl
    · exact fast_two_sum_inf_hi s _
    · rfl

theorem ceil_hi_not_finite (hi lo : F64) (h : hi.is_finite = false) :
    (TwoFloat.ceil ⟨hi, lo⟩).hi.is_finite = false := by
  unfold TwoFloat.ceil
  cases hi with
  | fin s n => exact absurd h (by simp [is_finite])
  | nan => split_ifs <;> rfl
  | inf s =>
    split_ifs
    · rfl
    · exact fast_two_sum_inf_hi s _
    · rfl

/-- `trunc` keeps a non-finite high word non-finite, whatever the low word is -/
theorem trunc_hi_not_finite (x : TwoFloat) (h : x.hi.is_finite = false) :
    (TwoFloat.trunc x).hi.is_finite = false := by
  rcases x with ⟨hi, lo⟩
  unfold TwoFloat.trunc
  split_ifs
  · exact floor_hi_not_finite hi lo h
  · exact ceil_hi_not_finite hi lo h

theorem modf_pzero_frac : ((F64.modf (fin false 0)).1 ==. (f64lit 0x0000000000000000)) = true := by
  decide +kernel

theorem floor_int (s : Bool) (m : Nat) : F64.floor (fin s (m * F64.unit)) = fin s (m * F64.unit) := by
  show (let t := m * F64.unit / F64.unit * F64.unit
        if (s && t != m * F64.unit) = true then fin s (t + F64.unit) else fin s t) = _
  simp only [Nat.mul_div_cancel _ unit_pos]
  simp

theorem ceil_int (s : Bool) (m : Nat) : F64.ceil (fin s (m * F64.unit)) = fin s (m * F64.unit) := by
  show (let t := m * F64.unit / F64.unit * F64.unit
        if (!s && t != m * F64.unit) = true then fin s (t + F64.unit) else fin s t) = _
  simp only [Nat.mul_div_cancel _ unit_pos]
  simp

/-- `trunc` is the identity on `(n, +0)` for an integer-valued double `n` -/
theorem trunc_int_pzero (s : Bool) (m : Nat) :
    TwoFloat.trunc ⟨fin s (m * F64.unit), fin false 0⟩ = ⟨fin s (m * F64.unit), fin false 0⟩ := by
  unfold TwoFloat.trunc TwoFloat.floor TwoFloat.ceil
  simp only [modf_pzero_frac, if_true, floor_int, ceil_int, ite_self]

end Conv

/-! ## §6 `TryFrom<TwoFloat> for i8 | i16 | i32 | u8 | u16 | u32` -/

namespace Conv
open F64 TwoFloat

/-- the range check and final cast of the small `TryFrom` impls, applied to the truncated value -/
def rangeCheck {s : Bool} {b : Nat} (truncated : TwoFloat) : RResult (IntN s b) :=
  if !((ROrd.isLe (base.impl_PartialOrd_TwoFloat_for_f64.partial_cmp (RCast.cast (IntN.MIN : IntN s b) : F64) truncated)) && (ROrd.isLe (base.impl_PartialOrd_f64_for_TwoFloat.partial_cmp truncated (RCast.cast (IntN.MAX : IntN s b) : F64)))) then
    Except.error TwoFloatError.ConversionError
  else
    Except.ok (RCast.cast (TwoFloat.hi_m truncated) : IntN s b)

/-- the common body of the small `TryFrom` impls (macro `float_convert!` of convert.rs) -/
def tryFromSmall {s : Bool} {b : Nat} (value : TwoFloat) : RResult (IntN s b) :=
  rangeCheck (TwoFloat.trunc value)

theorem try_from_i8_eq (x : TwoFloat) : convert.impl_TryFrom_TwoFloat_for_i8.try_from x = tryFromSmall x := rfl
theorem try_from_i16_eq (x : TwoFloat) : convert.impl_TryFrom_TwoFloat_for_i16.try_from x = tryFromSmall x := rfl
theorem try_from_i32_eq (x : TwoFloat) : convert.impl_TryFrom_TwoFloat_for_i32.try_from x = tryFromSmall x := rfl
theorem try_from_u8_eq (x : TwoFloat) : convert.impl_TryFrom_TwoFloat_for_u8.try_from x = tryFromSmall x := rfl
theorem try_from_u16_eq (x : TwoFloat) : convert.impl_TryFrom_TwoFloat_for_u16.try_from x = tryFromSmall x := rfl
theorem try_from_u32_eq (x : TwoFloat) : convert.impl_TryFrom_TwoFloat_for_u32.try_from x = tryFromSmall x := rfl
theorem try_from_ri8_eq (x : TwoFloat) : convert.impl_TryFrom_rTwoFloat_for_i8.try_from x = tryFromSmall x := rfl
theorem try_from_ri16_eq (x : TwoFloat) : convert.impl_TryFrom_rTwoFloat_for_i16.try_from x = tryFromSmall x := rfl
theorem try_from_ri32_eq (x : TwoFloat) : convert.impl_TryFrom_rTwoFloat_for_i32.try_from x = tryFromSmall x := rfl
theorem try_from_ru8_eq (x : TwoFloat) : convert.impl_TryFrom_rTwoFloat_for_u8.try_from x = tryFromSmall x := rfl
theorem try_from_ru16_eq (x : TwoFloat) : convert.impl_TryFrom_rTwoFloat_for_u16.try_from x = tryFromSmall x := rfl
theorem try_from_ru32_eq (x : TwoFloat) : convert.impl_TryFrom_rTwoFloat_for_u32.try_from x = tryFromSmall x := rfl

/-- `f64.partial_cmp(&TwoFloat)` for a finite well-formed double and a valid pair is exact -/
theorem partial_cmp_ft_exact {t : TwoFloat} (ht : t.Valid) {c : F64} (hc : c.WF)
    (hcf : c.is_finite = true) :
    base.impl_PartialOrd_TwoFloat_for_f64.partial_cmp c t = some (ROrdering.ofInts c.toInt t.V) := by
  rw [partial_cmp_ft_nf]
  have := lex_words (a := ⟨c, F64.fin false 0⟩) (b := t) hcf rfl ht.1 ht.2.1
    (by simpa [V] using Valid.V_gt_of_hi_gt_f64 roundFacts ht hc)
    (by simpa [V] using Valid.V_lt_of_hi_lt_f64 roundFacts ht hc)
  simpa [V] using this

theorem rangeCheck_unfold {s : Bool} {b : Nat} (t : TwoFloat) :
    (rangeCheck t : RResult (IntN s b)) =
      if (ROrd.isLe (base.impl_PartialOrd_TwoFloat_for_f64.partial_cmp (F64.ofInt (IntN.minV s b)) t) &&
          ROrd.isLe (base.impl_PartialOrd_f64_for_TwoFloat.partial_cmp t (F64.ofInt (IntN.maxV s b)))) = true
      then Except.ok ⟨F64.toIntSat s b t.hi⟩ else Except.error TwoFloatError.ConversionError := by
  show (if (!(ROrd.isLe (base.impl_PartialOrd_TwoFloat_for_f64.partial_cmp (F64.ofInt (IntN.minV s b)) t) &&
          ROrd.isLe (base.impl_PartialOrd_f64_for_TwoFloat.partial_cmp t (F64.ofInt (IntN.maxV s b))))) = true
      then (Except.error TwoFloatError.ConversionError : RResult (IntN s b))
      else Except.ok ⟨F64.toIntSat s b t.hi⟩) = _
  cases (ROrd.isLe (base.impl_PartialOrd_TwoFloat_for_f64.partial_cmp (F64.ofInt (IntN.minV s b)) t) &&
          ROrd.isLe (base.impl_PartialOrd_f64_for_TwoFloat.partial_cmp t (F64.ofInt (IntN.maxV s b)))) <;> rfl

/-- a non-finite high word always fails the range check -/
theorem rangeCheck_not_finite {s : Bool} {b : Nat} (hK' : IntN.K s b ≤ 128) (t : TwoFloat)
    (h : t.hi.is_finite = false) :
    (rangeCheck t : RResult (IntN s b)) = Except.error TwoFloatError.ConversionError := by
  have hP := Nat.two_pow_pos (IntN.K s b)
  have hP128 : 2 ^ IntN.K s b ≤ 2 ^ 128 := Nat.pow_le_pow_right (by decide) hK'
  have hmin : (IntN.minV s b).natAbs ≤ 2 ^ 128 := by
    rw [IntN.minV_eq]
    cases s
    · simp
    · simp; omega
  have hmax : (IntN.maxV s b).natAbs ≤ 2 ^ 128 := by rw [maxV_natAbs]; omega
  obtain ⟨s1, n1, e1⟩ := is_finite_iff.mp (ofInt_finite _ hmin)
  obtain ⟨s2, n2, e2⟩ := is_finite_iff.mp (ofInt_finite _ hmax)
  rw [rangeCheck_unfold, partial_cmp_ft_nf, partial_cmp_tf_nf, e1, e2]
  rcases t with ⟨hi, lo⟩
  cases hi with
  | fin sg n => exact absurd h (by simp [is_finite])
  | nan => rfl
  | inf sg =>
    cases sg
    · have : F64.partial_cmp (inf false) (fin s2 n2) = some .Greater := rfl
      simp only [this, lex]
      simp [ROrd.isLe]
    · have : F64.partial_cmp (fin s1 n1) (inf true) = some .Greater := rfl
      simp only [this, lex]
      simp [ROrd.isLe]

/-- the range check on a valid pair whose value is the integer `q`: succeeds with `q` exactly when `q`
lies in the range of the type -/
theorem rangeCheck_valid {s : Bool} {b : Nat} (hK : IntN.K s b ≤ 52) (t : TwoFloat) (ht : t.Valid)
    (q : Int) (hV : t.V = q * U) :
    (rangeCheck t : RResult (IntN s b)) =
      if IntN.fits s b q = true then Except.ok ⟨q⟩ else Except.error TwoFloatError.ConversionError := by
  have hP := Nat.two_pow_pos (IntN.K s b)
  have hP52 : 2 ^ IntN.K s b ≤ 2 ^ 52 := Nat.pow_le_pow_right (by decide) hK
  have hUpos : (0 : Int) < U := unit_posI
  have hmin : (IntN.minV s b).natAbs < 2 ^ 53 := by
    rw [IntN.minV_eq]
    cases s
    · simp
    · simp; omega
  have hmax : (IntN.maxV s b).natAbs < 2 ^ 53 := by rw [maxV_natAbs]; omega
  obtain ⟨-, hminT, hminW⟩ := ofInt_exact_of_lt _ hmin
  obtain ⟨-, hmaxT, hmaxW⟩ := ofInt_exact_of_lt _ hmax
  have hminF := ofInt_finite (IntN.minV s b) (by omega)
  have hmaxF := ofInt_finite (IntN.maxV s b) (by omega)
  rw [rangeCheck_unfold, partial_cmp_ft_exact ht hminW hminF,
    partial_cmp_tf_exact_of roundFacts ht hmaxW hmaxF, hminT, hmaxT, hV]
  have hiff : (ROrd.isLe (some (ROrdering.ofInts (IntN.minV s b * U) (q * U))) &&
      ROrd.isLe (some (ROrdering.ofInts (q * U) (IntN.maxV s b * U)))) = IntN.fits s b q := by
    rw [Bool.eq_iff_iff, Bool.and_eq_true, ROrd.isLe_ofInts, ROrd.isLe_ofInts, IntN.fits_iff]
    constructor
    · rintro ⟨h1, h2⟩
      exact ⟨Int.le_of_mul_le_mul_right h1 hUpos, Int.le_of_mul_le_mul_right h2 hUpos⟩
    · rintro ⟨h1, h2⟩
      exact ⟨Int.mul_le_mul_of_nonneg_right h1 (by omega), Int.mul_le_mul_of_nonneg_right h2 (by omega)⟩
  rw [hiff]
  by_cases hf : IntN.fits s b q = true
  · rw [if_pos hf, if_pos hf]
    congr 2
    obtain ⟨h1, h2⟩ := IntN.fits_iff.1 hf
    have hq : q.natAbs < 2 ^ 53 := by have := IntN.natAbs_le_of_fits hf; omega
    apply toIntSat_of_toInt s b ht.1 _ h1 h2
    rw [ht.hi_toInt, hV]
    apply rnI_of_rep
    show Rep (q * ((F64.unit : Nat) : Int)).natAbs
    rw [Int.natAbs_mul, Int.natAbs_natCast, unit_eq]
    exact rep_mul_pow2 _ (rep_of_lt hq)
  · rw [if_neg hf, if_neg hf]

/-- **`T::try_from(x)` for the small integer types**, valid finite `x` (given `TruncSpec`):
`Ok(t)` with `t = trunc(hi + lo)` exactly when `t` lies in `T`'s range, `Err` otherwise -/
theorem tryFromSmall_valid (T : TruncSpec) {s : Bool} {b : Nat} (hK : IntN.K s b ≤ 52) (x : TwoFloat)
    (hx : x.Valid) (hw : x.WF) :
    (tryFromSmall x : RResult (IntN s b)) =
      if IntN.fits s b (Int.tdiv x.V U) = true then Except.ok ⟨Int.tdiv x.V U⟩
      else Except.error TwoFloatError.ConversionError :=
  rangeCheck_valid hK _ (T.valid x hx hw) _ (T.value x hx hw)

/-- a non-finite high word (NaN, ±∞) is always a conversion error, for ANY low word -/
theorem tryFromSmall_not_finite {s : Bool} {b : Nat} (hK' : IntN.K s b ≤ 128) (x : TwoFloat)
    (h : x.hi.is_finite = false) :
    (tryFromSmall x : RResult (IntN s b)) = Except.error TwoFloatError.ConversionError :=
  rangeCheck_not_finite hK' _ (trunc_hi_not_finite x h)

/-- **round trip** `T::try_from(TwoFloat::from(n)) == Ok(n)` for the small types — unconditional
(does not need `TruncSpec`) -/
theorem tryFromSmall_fromSmall {s : Bool} {b : Nat} (hK : IntN.K s b ≤ 52) (v : IntN s b)
    (hv : v.inRange = true) : (tryFromSmall (fromSmall v.v) : RResult (IntN s b)) = Except.ok v := by
  have hz := natAbs_lt_of_fits_small hK hv
  have E := fromSmall_exact v.v hz
  unfold tryFromSmall
  rw [fromSmall_eq v.v hz, trunc_int_pzero, ← fromSmall_eq v.v hz,
    rangeCheck_valid hK _ E.valid v.v E.V]
  have : IntN.fits s b v.v = true := hv
  rw [if_pos this]

end Conv

/-! ## §7 `TryFrom<TwoFloat> for i64 | u64 | i128 | u128` -/

namespace Conv
open F64 TwoFloat

/-- `LOWER_BOUND = TwoFloat { hi: T::MIN as f64, lo: 0.0 }` -/
def lowerB (s : Bool) (b : Nat) : TwoFloat :=
  ({ hi := (RCast.cast (IntN.MIN : IntN s b) : F64), lo := (f64lit 0x0000000000000000) } : TwoFloat)

/-- `UPPER_BOUND = TwoFloat { hi: T::MAX as f64, lo: -1.0 }` -/
def upperB (s : Bool) (b : Nat) : TwoFloat :=
  ({ hi := (RCast.cast (IntN.MAX : IntN s b) : F64), lo := F64.neg (f64lit 0x3ff0000000000000) } : TwoFloat)

/-- range check and recombination of the wide `TryFrom` impls, applied to the truncated value -/
def recombine {s : Bool} {b : Nat} (truncated : TwoFloat) : RResult (IntN s b) :=
  if !((ROrd.isLe (base.impl_PartialOrd_TwoFloat_for_TwoFloat.partial_cmp (lowerB s b) truncated)) && (ROrd.isLe (base.impl_PartialOrd_TwoFloat_for_TwoFloat.partial_cmp truncated (upperB s b)))) then
    Except.error TwoFloatError.ConversionError
  else if (TwoFloat.hi_m truncated) ==. (TwoFloat.hi_m (upperB s b)) then
    Except.ok (((IntN.MAX : IntN s b) -. (RCast.cast (F64.neg (TwoFloat.lo_m truncated)) : IntN s b)) +. (1 : IntN s b))
  else if (TwoFloat.lo_m truncated) >=. (f64lit 0x0000000000000000) then
    Except.ok ((RCast.cast (TwoFloat.hi_m truncated) : IntN s b) +. (RCast.cast (TwoFloat.lo_m truncated) : IntN s b))
  else
    Except.ok ((RCast.cast (TwoFloat.hi_m truncated) : IntN s b) -. (RCast.cast (F64.neg (TwoFloat.lo_m truncated)) : IntN s b))

def recombinePf {s : Bool} {b : Nat} (truncated : TwoFloat) : Bool :=
  ((base.impl_PartialOrd_TwoFloat_for_TwoFloat.partial_cmp.pf (lowerB s b) truncated) && (if ROrd.isLe (base.impl_PartialOrd_TwoFloat_for_TwoFloat.partial_cmp (lowerB s b) truncated) then base.impl_PartialOrd_TwoFloat_for_TwoFloat.partial_cmp.pf truncated (upperB s b) else true)) && (if !((ROrd.isLe (base.impl_PartialOrd_TwoFloat_for_TwoFloat.partial_cmp (lowerB s b) truncated)) && (ROrd.isLe (base.impl_PartialOrd_TwoFloat_for_TwoFloat.partial_cmp truncated (upperB s b)))) then true else if (TwoFloat.hi_m truncated) ==. (TwoFloat.hi_m (upperB s b)) then (IntN.inRange ((IntN.MAX : IntN s b) -. (RCast.cast (F64.neg (TwoFloat.lo_m truncated)) : IntN s b))) && (IntN.inRange (((IntN.MAX : IntN s b) -. (RCast.cast (F64.neg (TwoFloat.lo_m truncated)) : IntN s b)) +. (1 : IntN s b))) else if (TwoFloat.lo_m truncated) >=. (f64lit 0x0000000000000000) then IntN.inRange ((RCast.cast (TwoFloat.hi_m truncated) : IntN s b) +. (RCast.cast (TwoFloat.lo_m truncated) : IntN s b)) else IntN.inRange ((RCast.cast (TwoFloat.hi_m truncated) : IntN s b) -. (RCast.cast (F64.neg (TwoFloat.lo_m truncated)) : IntN s b)))

/-- the common body of the wide `TryFrom` impls (macro `int_convert!` of convert.rs) -/
def tryFromBig {s : Bool} {b : Nat} (value : TwoFloat) : RResult (IntN s b) :=
  recombine (TwoFloat.trunc value)

def tryFromBigPf (s : Bool) (b : Nat) (value : TwoFloat) : Bool :=
  recombinePf (s := s) (b := b) (TwoFloat.trunc value)

theorem try_from_i64_eq (x : TwoFloat) : convert.impl_TryFrom_TwoFloat_for_i64.try_from x = tryFromBig x := rfl
theorem try_from_u64_eq (x : TwoFloat) : convert.impl_TryFrom_TwoFloat_for_u64.try_from x = tryFromBig x := rfl
theorem try_from_i128_eq (x : TwoFloat) : convert.impl_TryFrom_TwoFloat_for_i128.try_from x = tryFromBig x := rfl
theorem try_from_u128_eq (x : TwoFloat) : convert.impl_TryFrom_TwoFloat_for_u128.try_from x = tryFromBig x := rfl
theorem try_from_ri64_eq (x : TwoFloat) : convert.impl_TryFrom_rTwoFloat_for_i64.try_from x = tryFromBig x := rfl
theorem try_from_ru64_eq (x : TwoFloat) : convert.impl_TryFrom_rTwoFloat_for_u64.try_from x = tryFromBig x := rfl
theorem try_from_ri128_eq (x : TwoFloat) : convert.impl_TryFrom_rTwoFloat_for_i128.try_from x = tryFromBig x := rfl
theorem try_from_ru128_eq (x : TwoFloat) : convert.impl_TryFrom_rTwoFloat_for_u128.try_from x = tryFromBig x := rfl
theorem try_from_i64_pf_eq (x : TwoFloat) : convert.impl_TryFrom_TwoFloat_for_i64.try_from.pf x = tryFromBigPf true 64 x := rfl
theorem try_from_u64_pf_eq (x : TwoFloat) : convert.impl_TryFrom_TwoFloat_for_u64.try_from.pf x = tryFromBigPf false 64 x := rfl
theorem try_from_i128_pf_eq (x : TwoFloat) : convert.impl_TryFrom_TwoFloat_for_i128.try_from.pf x = tryFromBigPf true 128 x := rfl
theorem try_from_u128_pf_eq (x : TwoFloat) : convert.impl_TryFrom_TwoFloat_for_u128.try_from.pf x = tryFromBigPf false 128 x := rfl
theorem try_from_ri64_pf_eq (x : TwoFloat) : convert.impl_TryFrom_rTwoFloat_for_i64.try_from.pf x = tryFromBigPf true 64 x := rfl
theorem try_from_ru64_pf_eq (x : TwoFloat) : convert.impl_TryFrom_rTwoFloat_for_u64.try_from.pf x = tryFromBigPf false 64 x := rfl
theorem try_from_ri128_pf_eq (x : TwoFloat) : convert.impl_TryFrom_rTwoFloat_for_i128.try_from.pf x = tryFromBigPf true 128 x := rfl
theorem try_from_ru128_pf_eq (x : TwoFloat) : convert.impl_TryFrom_rTwoFloat_for_u128.try_from.pf x = tryFromBigPf false 128 x := rfl

end Conv

namespace F64

theorem f64lit_one_unit : f64lit 0x3ff0000000000000 = fin false F64.unit := by decide +kernel

theorem rge_eq (x y : F64) : (x >=. y) = ROrd.isGe (F64.partial_cmp x y) := by
  show (match F64.partial_cmp x y with | some .Greater => true | some .Equal => true | _ => false) = _
  rcases F64.partial_cmp x y with _ | o
  · rfl
  · cases o <;> rfl

/-- `x >= 0.0` on a finite double -/
theorem rge_zero_iff {x : F64} (hx : x.is_finite = true) :
    (x >=. (f64lit 0x0000000000000000)) = true ↔ 0 ≤ x.toInt := by
  rw [rge_eq, f64lit_zero, partial_cmp_finite hx rfl, ROrd.isGe_ofInts]; rfl

/-- rounding commutes with the scaling by `U` -/
theorem rnI_mul_unit (q : Int) : rnI (q * ((F64.unit : Nat) : Int)) = rnI q * ((F64.unit : Nat) : Int) := by
  have hU := unit_posI
  have e : (q * ((F64.unit : Nat) : Int)).natAbs = q.natAbs * 2 ^ 1074 := by
    rw [Int.natAbs_mul, Int.natAbs_natCast, unit_eq]
  by_cases hq : q < 0
  · rw [rnI_of_neg (Int.mul_neg_of_neg_of_pos hq hU), rnI_of_neg hq, e, rn53_mul_pow2, unit_eq]
    push_cast; ring
  · rw [rnI_of_nonneg (Int.mul_nonneg (by omega) (by omega)), rnI_of_nonneg (by omega), e,
      rn53_mul_pow2, unit_eq]
    push_cast; ring

end F64

namespace Conv
open F64 TwoFloat

theorem rep_minV (s : Bool) (b : Nat) : Rep (IntN.minV s b).natAbs := by
  rw [IntN.minV_eq]
  cases s
  · simp only [Bool.false_eq_true, if_false]; exact rep_zero
  · simp only [if_true, Int.natAbs_neg, Int.natAbs_natCast]; exact rep_two_pow _

theorem minV_natAbs_le (s : Bool) (b : Nat) : (IntN.minV s b).natAbs ≤ 2 ^ IntN.K s b := by
  rw [IntN.minV_eq]
  cases s
  · simp
  · simp

/-- facts about `LOWER_BOUND` -/
theorem lowerB_facts {s : Bool} {b : Nat} (hK' : IntN.K s b ≤ 128) :
    (lowerB s b).Valid ∧ TwoFloat.is_valid (lowerB s b) = true ∧ (lowerB s b).WF ∧
      (lowerB s b).V = IntN.minV s b * U := by
  have hP128 : 2 ^ IntN.K s b ≤ 2 ^ 128 := Nat.pow_le_pow_right (by decide) hK'
  have hle : (IntN.minV s b).natAbs ≤ 2 ^ 128 := Nat.le_trans (minV_natAbs_le s b) hP128
  obtain ⟨h1, h2, h3⟩ := ofInt_exact _ hle (rep_minV s b)
  have e : lowerB s b = ⟨F64.ofInt (IntN.minV s b), fin false 0⟩ := by
    unfold lowerB; rw [f64lit_zero]; rfl
  have hf := ofInt_finite _ hle
  rw [e]
  exact ⟨valid_pzero hf h3, is_valid_pzero hf, ⟨h3, rep_zero, Nat.zero_le _⟩, by rw [V_pzero, h2]⟩

/-- the value of `UPPER_BOUND` is `T::MAX` -/
theorem upperB_V {s : Bool} {b : Nat} (hK : 54 ≤ IntN.K s b) (hK' : IntN.K s b ≤ 128) :
    (upperB s b).V = IntN.maxV s b * U ∧
      (upperB s b).hi.toInt = ((2 ^ IntN.K s b : Nat) : Int) * U ∧ (upperB s b).hi.is_finite = true := by
  have hm : (IntN.maxV s b).natAbs ≤ 2 ^ 128 := by
    rw [maxV_natAbs]
    have : 2 ^ IntN.K s b ≤ 2 ^ 128 := Nat.pow_le_pow_right (by decide) hK'
    omega
  have h1 : (upperB s b).hi.toInt = ((2 ^ IntN.K s b : Nat) : Int) * U := ofInt_max_toInt hK hK'
  have h2 : (upperB s b).lo.toInt = -U := by
    show (F64.neg (f64lit 0x3ff0000000000000)).toInt = _
    rw [f64lit_one_unit]; rfl
  refine ⟨?_, h1, ofInt_finite _ hm⟩
  unfold V; rw [h1, h2, IntN.maxV_eq]; ring

/-- the two range comparisons, on a valid truncated value `q` -/
theorem range_cond {s : Bool} {b : Nat} (hK : 54 ≤ IntN.K s b) (hK' : IntN.K s b ≤ 128)
    (hUv : TwoFloat.is_valid (upperB s b) = true) (hUV : (upperB s b).Valid)
    (t : TwoFloat) (ht : t.Valid) (hw : t.WF) (q : Int) (hV : t.V = q * U) :
    (ROrd.isLe (base.impl_PartialOrd_TwoFloat_for_TwoFloat.partial_cmp (lowerB s b) t) = decide (IntN.minV s b ≤ q)) ∧
    (ROrd.isLe (base.impl_PartialOrd_TwoFloat_for_TwoFloat.partial_cmp t (upperB s b)) = decide (q ≤ IntN.maxV s b)) := by
  have hvt : TwoFloat.is_valid t = true := (F64.NoOverlap.is_valid_iff t hw).2 ht
  obtain ⟨hL1, hL2, -, hL4⟩ := lowerB_facts (s := s) (b := b) hK'
  have hUpos : (0 : Int) < U := unit_posI
  constructor
  · rw [partial_cmp_exact_of roundFacts hL2 hvt hL1 ht, hL4, hV, Bool.eq_iff_iff, ROrd.isLe_ofInts,
      decide_eq_true_iff]
    exact ⟨fun h => Int.le_of_mul_le_mul_right h hUpos, fun h => Int.mul_le_mul_of_nonneg_right h (by omega)⟩
  · rw [partial_cmp_exact_of roundFacts hvt hUv ht hUV, (upperB_V hK hK').1, hV, Bool.eq_iff_iff,
      ROrd.isLe_ofInts, decide_eq_true_iff]
    exact ⟨fun h => Int.le_of_mul_le_mul_right h hUpos, fun h => Int.mul_le_mul_of_nonneg_right h (by omega)⟩

/-- the two words of a valid pair with integer value `q` -/
theorem words_of_valid (t : TwoFloat) (ht : t.Valid) (q : Int) (hV : t.V = q * U) :
    t.hi.toInt = rnI q * U ∧ t.lo.toInt = (q - rnI q) * U := by
  have h1 : t.hi.toInt = rnI q * U := by rw [ht.hi_toInt, hV]; exact rnI_mul_unit q
  refine ⟨h1, ?_⟩
  have : t.lo.toInt = t.V - t.hi.toInt := by unfold V; omega
  rw [this, hV, h1]; ring

end Conv

namespace Conv
open F64 TwoFloat

/-- the integer recombination of the two truncated words (the three `Ok` arms of `int_convert!`) -/
def recomb {s : Bool} {b : Nat} (truncated : TwoFloat) : IntN s b :=
  if (TwoFloat.hi_m truncated) ==. (TwoFloat.hi_m (upperB s b)) then
    (((IntN.MAX : IntN s b) -. (RCast.cast (F64.neg (TwoFloat.lo_m truncated)) : IntN s b)) +. (1 : IntN s b))
  else if (TwoFloat.lo_m truncated) >=. (f64lit 0x0000000000000000) then
    ((RCast.cast (TwoFloat.hi_m truncated) : IntN s b) +. (RCast.cast (TwoFloat.lo_m truncated) : IntN s b))
  else
    ((RCast.cast (TwoFloat.hi_m truncated) : IntN s b) -. (RCast.cast (F64.neg (TwoFloat.lo_m truncated)) : IntN s b))

/-- the overflow checks of the recombination -/
def recombPf (s : Bool) (b : Nat) (truncated : TwoFloat) : Bool :=
  if (TwoFloat.hi_m truncated) ==. (TwoFloat.hi_m (upperB s b)) then (IntN.inRange ((IntN.MAX : IntN s b) -. (RCast.cast (F64.neg (TwoFloat.lo_m truncated)) : IntN s b))) && (IntN.inRange (((IntN.MAX : IntN s b) -. (RCast.cast (F64.neg (TwoFloat.lo_m truncated)) : IntN s b)) +. (1 : IntN s b))) else if (TwoFloat.lo_m truncated) >=. (f64lit 0x0000000000000000) then IntN.inRange ((RCast.cast (TwoFloat.hi_m truncated) : IntN s b) +. (RCast.cast (TwoFloat.lo_m truncated) : IntN s b)) else IntN.inRange ((RCast.cast (TwoFloat.hi_m truncated) : IntN s b) -. (RCast.cast (F64.neg (TwoFloat.lo_m truncated)) : IntN s b))

theorem recombine_eq {s : Bool} {b : Nat} (t : TwoFloat) :
    (recombine t : RResult (IntN s b)) =
      if (!((ROrd.isLe (base.impl_PartialOrd_TwoFloat_for_TwoFloat.partial_cmp (lowerB s b) t)) &&
            (ROrd.isLe (base.impl_PartialOrd_TwoFloat_for_TwoFloat.partial_cmp t (upperB s b))))) = true
      then Except.error TwoFloatError.ConversionError else Except.ok (recomb t) := by
  unfold recombine recomb
  split_ifs <;> rfl

theorem recombinePf_eq {s : Bool} {b : Nat} (t : TwoFloat) :
    recombinePf (s := s) (b := b) t =
      (((base.impl_PartialOrd_TwoFloat_for_TwoFloat.partial_cmp.pf (lowerB s b) t) &&
        (if ROrd.isLe (base.impl_PartialOrd_TwoFloat_for_TwoFloat.partial_cmp (lowerB s b) t) then
          base.impl_PartialOrd_TwoFloat_for_TwoFloat.partial_cmp.pf t (upperB s b) else true)) &&
       (if !((ROrd.isLe (base.impl_PartialOrd_TwoFloat_for_TwoFloat.partial_cmp (lowerB s b) t)) &&
            (ROrd.isLe (base.impl_PartialOrd_TwoFloat_for_TwoFloat.partial_cmp t (upperB s b)))) then true
        else recombPf s b t)) := rfl

/-- the recombination is exact and overflow-free on the words of a valid pair with an in-range integer
value `q` -/
theorem recomb_core {s : Bool} {b : Nat} (hK : 54 ≤ IntN.K s b) (hK' : IntN.K s b ≤ 128)
    (t : TwoFloat) (hf1 : t.hi.is_finite = true) (hf2 : t.lo.is_finite = true) (q : Int)
    (hq : IntN.fits s b q = true) (h1 : t.hi.toInt = rnI q * U) (h2 : t.lo.toInt = (q - rnI q) * U) :
    (recomb t : IntN s b) = ⟨q⟩ ∧ recombPf s b t = true := by
  have R := rnFacts hq
  obtain ⟨hq1, hq2⟩ := IntN.fits_iff.1 hq
  have hmax := IntN.maxV_eq s b
  have hmin := IntN.minV_eq s b
  have hP := Nat.two_pow_pos (IntN.K s b)
  have hUpos : (0 : Int) < U := unit_posI
  obtain ⟨-, hU2, hU3⟩ := upperB_V hK hK'
  have hmin0 : IntN.minV s b ≤ 0 := by
    rw [hmin]; cases s
    · simp
    · simp only [if_true]; omega
  have hnl : (F64.neg t.lo).toInt = (rnI q - q) * U := by rw [toInt_neg, h2]; ring
  have hnf : (F64.neg t.lo).is_finite = true := by rw [is_finite_neg]; exact hf2
  have hC : ((TwoFloat.hi_m t) ==. (TwoFloat.hi_m (upperB s b))) = decide (rnI q = ((2 ^ IntN.K s b : Nat) : Int)) := by
    show F64.eq t.hi (upperB s b).hi = _
    rw [Bool.eq_iff_iff, eq_iff_toInt hf1 hU3, h1, hU2, decide_eq_true_iff]
    exact ⟨fun h => Int.eq_of_mul_eq_mul_right (by omega) h, fun h => by rw [h]⟩
  have hD : ((TwoFloat.lo_m t) >=. (f64lit 0x0000000000000000)) = decide (rnI q ≤ q) := by
    show (t.lo >=. (f64lit 0x0000000000000000)) = _
    rw [Bool.eq_iff_iff, rge_zero_iff hf2, h2, decide_eq_true_iff]
    constructor
    · intro h
      by_contra hc
      have := Int.mul_neg_of_neg_of_pos (by omega : q - rnI q < 0) hUpos
      omega
    · intro h; exact Int.mul_nonneg (by omega) (by omega)
  have h3 := R.abs_le
  have h4 := R.le_pow
  have h5 := R.nonneg
  have h6 := R.neg
  have h7 := R.pos
  have h8 := R.ge_min
  unfold recomb recombPf
  rw [hC, hD]
  by_cases hr : rnI q = ((2 ^ IntN.K s b : Nat) : Int)
  · have hqpos : 0 < q := by
      by_contra hc
      rcases Int.lt_or_eq_of_le (by omega : q ≤ 0) with h | h
      · have := h6 h; omega
      · rw [h, rnI_zero] at hr; omega
    have hcast : F64.toIntSat s b (F64.neg (TwoFloat.lo_m t)) = rnI q - q :=
      toIntSat_of_toInt s b hnf hnl (by omega) (by omega)
    simp only [hr, decide_true, if_true]
    constructor
    · show (⟨IntN.maxV s b - F64.toIntSat s b (F64.neg (TwoFloat.lo_m t)) + 1⟩ : IntN s b) = ⟨q⟩
      rw [hcast]; congr 1; omega
    · show (IntN.fits s b (IntN.maxV s b - F64.toIntSat s b (F64.neg (TwoFloat.lo_m t))) &&
          IntN.fits s b (IntN.maxV s b - F64.toIntSat s b (F64.neg (TwoFloat.lo_m t)) + 1)) = true
      rw [hcast, Bool.and_eq_true, IntN.fits_iff, IntN.fits_iff]
      omega
  · have hhi : F64.toIntSat s b (TwoFloat.hi_m t) = rnI q :=
      toIntSat_of_toInt s b hf1 h1 h8 (by omega)
    simp only [hr, decide_false, Bool.false_eq_true, if_false]
    by_cases hge : rnI q ≤ q
    · have hlo : F64.toIntSat s b (TwoFloat.lo_m t) = q - rnI q := by
        apply toIntSat_of_toInt s b hf2 h2 (by omega)
        by_cases hz : q < 0
        · have := h6 hz; omega
        · have := h5 (by omega); omega
      simp only [hge, decide_true, if_true]
      constructor
      · show (⟨F64.toIntSat s b (TwoFloat.hi_m t) + F64.toIntSat s b (TwoFloat.lo_m t)⟩ : IntN s b) = ⟨q⟩
        rw [hhi, hlo]; congr 1; omega
      · show IntN.fits s b (F64.toIntSat s b (TwoFloat.hi_m t) + F64.toIntSat s b (TwoFloat.lo_m t)) = true
        rw [hhi, hlo, IntN.fits_iff]; omega
    · have hlo : F64.toIntSat s b (F64.neg (TwoFloat.lo_m t)) = rnI q - q := by
        apply toIntSat_of_toInt s b hnf hnl (by omega)
        by_cases hz : q < 0
        · have := h6 hz; omega
        · have := h5 (by omega); omega
      simp only [hge, decide_false, Bool.false_eq_true, if_false]
      constructor
      · show (⟨F64.toIntSat s b (TwoFloat.hi_m t) - F64.toIntSat s b (F64.neg (TwoFloat.lo_m t))⟩ : IntN s b) = ⟨q⟩
        rw [hhi, hlo]; congr 1; omega
      · show IntN.fits s b (F64.toIntSat s b (TwoFloat.hi_m t) - F64.toIntSat s b (F64.neg (TwoFloat.lo_m t))) = true
        rw [hhi, hlo, IntN.fits_iff]; omega

end Conv

namespace Conv
open F64 TwoFloat

theorem tcmp_pf_of_WF (a b : TwoFloat) (ha : a.WF) (hb : b.WF) :
    base.impl_PartialOrd_TwoFloat_for_TwoFloat.partial_cmp.pf a b = true := by
  unfold base.impl_PartialOrd_TwoFloat_for_TwoFloat.partial_cmp.pf
  split_ifs
  · rfl
  · rw [F64.NoOverlap.is_valid_pf a ha, F64.NoOverlap.is_valid_pf b hb]; rfl

theorem unit_le_maxFin : F64.unit ≤ maxFin := by decide +kernel

theorem upperB_WF {s : Bool} {b : Nat} (hK' : IntN.K s b ≤ 128) : (upperB s b).WF := by
  have hm : (IntN.maxV s b).natAbs ≤ 2 ^ 128 := by
    rw [maxV_natAbs]
    have : 2 ^ IntN.K s b ≤ 2 ^ 128 := Nat.pow_le_pow_right (by decide) hK'
    omega
  refine ⟨ofInt_WF _ hm, ?_⟩
  show (F64.neg (f64lit 0x3ff0000000000000)).WF
  rw [f64lit_one_unit]
  exact ⟨by rw [unit_eq]; exact rep_two_pow _, unit_le_maxFin⟩

/-- **`T::try_from(x)` for the wide integer types**, valid finite `x` (given `TruncSpec`, and the
validity of the constant `UPPER_BOUND`, checked by evaluation for each of the four types):
`Ok(t)` with `t = trunc(hi + lo)` exactly when `t` lies in `T`'s range, `Err` otherwise; and no
intermediate integer operation overflows. -/
theorem tryFromBig_valid (T : TruncSpec) {s : Bool} {b : Nat} (hK : 54 ≤ IntN.K s b)
    (hK' : IntN.K s b ≤ 128) (hUv : TwoFloat.is_valid (upperB s b) = true) (hUV : (upperB s b).Valid)
    (x : TwoFloat) (hx : x.Valid) (hw : x.WF) :
    (tryFromBig x : RResult (IntN s b)) =
      (if IntN.fits s b (Int.tdiv x.V U) = true then Except.ok ⟨Int.tdiv x.V U⟩
       else Except.error TwoFloatError.ConversionError) ∧
    tryFromBigPf s b x = true := by
  have ht := T.valid x hx hw
  have hwt := T.wf x hx hw
  have hV := T.value x hx hw
  obtain ⟨hA, hB⟩ := range_cond hK hK' hUv hUV _ ht hwt _ hV
  obtain ⟨-, -, hLW, -⟩ := lowerB_facts (s := s) (b := b) hK'
  have hpf1 := tcmp_pf_of_WF _ _ hLW hwt
  have hpf2 := tcmp_pf_of_WF _ _ hwt (upperB_WF (s := s) (b := b) hK')
  unfold tryFromBig tryFromBigPf
  rw [recombine_eq, recombinePf_eq, hpf1, hpf2, hA, hB]
  generalize Int.tdiv x.V U = q at hV ⊢
  by_cases hf : IntN.fits s b q = true
  · obtain ⟨hq1, hq2⟩ := IntN.fits_iff.1 hf
    obtain ⟨hw1, hw2⟩ := words_of_valid _ ht q hV
    obtain ⟨hr1, hr2⟩ := recomb_core hK hK' _ ht.1 ht.2.1 q hf hw1 hw2
    simp only [hq1, hq2, decide_true, Bool.and_self, Bool.not_true, Bool.false_eq_true, if_false,
      if_true, hf, hr1, hr2]
    exact ⟨trivial, trivial⟩
  · have hc : (decide (IntN.minV s b ≤ q) && decide (q ≤ IntN.maxV s b)) = false := by
      rw [← Bool.not_eq_true, Bool.and_eq_true, decide_eq_true_iff, decide_eq_true_iff]
      exact fun h => hf (IntN.fits_iff.2 h)
    simp only [hc, Bool.not_false, if_true, hf, Bool.false_eq_true, if_false]
    cases decide (IntN.minV s b ≤ q) <;> simp

end Conv

namespace Conv
open F64 TwoFloat

theorem is_valid_of_hi_not_finite (t : TwoFloat) (h : t.hi.is_finite = false) :
    TwoFloat.is_valid t = false := by
  unfold TwoFloat.is_valid; rw [h]; rfl

theorem is_valid_pf_of_hi_not_finite (t : TwoFloat) (h : t.hi.is_finite = false) :
    TwoFloat.is_valid.pf t = true := by
  unfold TwoFloat.is_valid.pf; rw [h]; rfl

/-- a truncated value with a non-finite high word always fails the range check of the wide impls -/
theorem recombine_not_finite {s : Bool} {b : Nat} (hK' : IntN.K s b ≤ 128)
    (hUv : TwoFloat.is_valid (upperB s b) = true) (t : TwoFloat) (h : t.hi.is_finite = false) :
    (recombine t : RResult (IntN s b)) = Except.error TwoFloatError.ConversionError ∧
      recombinePf (s := s) (b := b) t = true := by
  obtain ⟨-, hLv, hLW, -⟩ := lowerB_facts (s := s) (b := b) hK'
  have hUW := upperB_WF (s := s) (b := b) hK'
  have hvt := is_valid_of_hi_not_finite t h
  have hB : ROrd.isLe (base.impl_PartialOrd_TwoFloat_for_TwoFloat.partial_cmp t (upperB s b)) = false := by
    rw [partial_cmp_nf, hvt, hUv]
    cases anyNan t (upperB s b) <;> rfl
  have hpf1 : base.impl_PartialOrd_TwoFloat_for_TwoFloat.partial_cmp.pf (lowerB s b) t = true := by
    unfold base.impl_PartialOrd_TwoFloat_for_TwoFloat.partial_cmp.pf
    rw [F64.NoOverlap.is_valid_pf _ hLW, is_valid_pf_of_hi_not_finite t h]; simp
  have hpf2 : base.impl_PartialOrd_TwoFloat_for_TwoFloat.partial_cmp.pf t (upperB s b) = true := by
    unfold base.impl_PartialOrd_TwoFloat_for_TwoFloat.partial_cmp.pf
    rw [F64.NoOverlap.is_valid_pf _ hUW, is_valid_pf_of_hi_not_finite t h]; simp
  rw [recombine_eq, recombinePf_eq, hpf1, hpf2, hB]
  simp

/-- a non-finite high word (NaN, ±∞) is always a conversion error for the wide types, for ANY low word -/
theorem tryFromBig_not_finite {s : Bool} {b : Nat} (hK' : IntN.K s b ≤ 128)
    (hUv : TwoFloat.is_valid (upperB s b) = true) (x : TwoFloat) (h : x.hi.is_finite = false) :
    (tryFromBig x : RResult (IntN s b)) = Except.error TwoFloatError.ConversionError ∧
      tryFromBigPf s b x = true :=
  recombine_not_finite hK' hUv _ (trunc_hi_not_finite x h)

/-- **round trip** for the wide types, exact case: `T::try_from(TwoFloat::from(n)) == Ok(n)` whenever the
remainder `n - RN(n)` is representable (always for 64 bits; at most 106 significant bits for 128) -/
theorem tryFromBig_fromBig (T : TruncSpec) {s : Bool} {b : Nat} (hK : 54 ≤ IntN.K s b)
    (hK' : IntN.K s b ≤ 128) (hUv : TwoFloat.is_valid (upperB s b) = true) (hUV : (upperB s b).Valid)
    (v : IntN s b) (hv : v.inRange = true) (hr : Rep (v.v - rnI v.v).natAbs) :
    (tryFromBig (fromBig v) : RResult (IntN s b)) = Except.ok v := by
  obtain ⟨-, hV, hval, hwf⟩ := fromBig_exact hK hK' v hv hr
  rw [(tryFromBig_valid T hK hK' hUv hUV _ hval hwf).1, hV]
  have : (v.v * U).tdiv U = v.v := Int.mul_tdiv_cancel _ (ne_of_gt unit_posI)
  rw [this]
  have : IntN.fits s b v.v = true := hv
  rw [if_pos this]

end Conv

/-! ## §8 packaged statements used by `TFV.Properties.C09` -/

namespace Conv
open F64 TwoFloat

/-- what the exact wide conversion delivers: the literal words `(RN(n), n - RN(n))`, exact value `n`,
both notions of validity -/
structure ExactBig (t : TwoFloat) (z : Int) : Prop where
  words : t = ⟨F64.ofInt z, F64.ofInt (z - rnI z)⟩
  V : t.V = z * U
  valid : t.Valid
  is_valid : TwoFloat.is_valid t = true
  wf : t.WF

/-- what the general wide conversion delivers: a valid pair whose value `w` is within `2^-106 |n|` of `n` -/
structure ApproxBig (t : TwoFloat) (z : Int) : Prop where
  valid : t.Valid
  is_valid : TwoFloat.is_valid t = true
  wf : t.WF
  approx : ∃ w : Int, t.V = w * U ∧ 2 ^ 106 * |z - w| ≤ |z|

theorem exactBig_of {s : Bool} {b : Nat} (hK : 54 ≤ IntN.K s b) (hK' : IntN.K s b ≤ 128) (v : IntN s b)
    (hv : v.inRange = true) (hr : Rep (v.v - rnI v.v).natAbs) : ExactBig (fromBig v) v.v := by
  obtain ⟨h1, h2, h3, h4⟩ := fromBig_exact hK hK' v hv hr
  exact ⟨h1, h2, h3, (F64.NoOverlap.is_valid_iff _ h4).2 h3, h4⟩

theorem approxBig_of (hF : FastTwoSumSpec) {s : Bool} {b : Nat} (hK : 54 ≤ IntN.K s b)
    (hK' : IntN.K s b ≤ 128) (v : IntN s b) (hv : v.inRange = true) : ApproxBig (fromBig v) v.v := by
  obtain ⟨h1, h2, h3⟩ := fromBig_approx hF hK hK' v hv
  exact ⟨h1, (F64.NoOverlap.is_valid_iff _ h2).2 h1, h2, h3⟩

/-- the specified result: `Ok(t)` with `t = trunc(hi + lo)` iff `t` lies in the range of the type -/
def tryFromSpec (s : Bool) (b : Nat) (x : TwoFloat) : RResult (IntN s b) :=
  if IntN.fits s b (Int.tdiv x.V U) = true then Except.ok ⟨Int.tdiv x.V U⟩
  else Except.error TwoFloatError.ConversionError

/-- `Ok(t)` is returned exactly when `t = trunc(hi + lo)` and `t` lies in the range of the type -/
theorem tryFromSpec_ok_iff {s : Bool} {b : Nat} {x : TwoFloat} (t : IntN s b) :
    tryFromSpec s b x = Except.ok t ↔ t.v = Int.tdiv x.V U ∧ t.inRange = true := by
  unfold tryFromSpec
  rcases t with ⟨v⟩
  by_cases h : IntN.fits s b (Int.tdiv x.V U) = true
  · rw [if_pos h]
    constructor
    · intro e
      have e' : Int.tdiv x.V U = v := by injection e with e; injection e
      subst e'
      exact ⟨rfl, h⟩
    · rintro ⟨e, -⟩
      simp only at e
      rw [e]
  · rw [if_neg h]
    constructor
    · intro e; exact absurd e (by simp)
    · rintro ⟨e, h'⟩
      simp only at e
      subst e
      exact absurd h' h

/-- an error is returned exactly when `trunc(hi + lo)` lies outside the range of the type -/
theorem tryFromSpec_err_iff {s : Bool} {b : Nat} {x : TwoFloat} :
    tryFromSpec s b x = Except.error TwoFloatError.ConversionError ↔
      IntN.fits s b (Int.tdiv x.V U) = false := by
  unfold tryFromSpec
  by_cases h : IntN.fits s b (Int.tdiv x.V U) = true
  · rw [if_pos h, h]; simp
  · rw [if_neg h]; simpa using h

theorem tryFromSmall_spec (T : TruncSpec) {s : Bool} {b : Nat} (hK : IntN.K s b ≤ 52) (x : TwoFloat)
    (hx : x.Valid) (hw : x.WF) : (tryFromSmall x : RResult (IntN s b)) = tryFromSpec s b x :=
  tryFromSmall_valid T hK x hx hw

end Conv
