/-
Lemmas.Fraction — helper lemmas for property C08 (floor, ceil, trunc, round, fract).

Layers:
 1. integer specification functions `floorV`, `ceilV`, `truncV`, `roundV`, `fractV` on scaled integers
    (units of 2^-1074; "an integer value" = a multiple of `U = 2^1074`) with their characterisations;
 2. exactness and well-formedness of the libm models `F64.floor/ceil/trunc/round/modf`;
 3. the half-ulp structure of a valid pair: `2^e ∣ hi` and `2·|lo| ≤ 2^e`;
 4. the branch analysis of the five `TwoFloat` functions.
-/
import TFV.Lemmas.Cmp
import Mathlib.Tactic.Ring
import Mathlib.Tactic.Linarith
import Mathlib.Tactic.NormNum
import Mathlib.Tactic.Positivity
import Mathlib.Algebra.Order.Group.Abs
import Mathlib.Algebra.Order.Ring.Abs

/- `F64.unit = 2^1074`: let `whnf` evaluate such powers with GMP instead of unfolding `Nat.pow` 1074 times -/
set_option exponentiation.threshold 3000

namespace C08

/-! ## 1. integer specification functions -/

/-- the integer 1 in scaled units, as an `Int` (`= 2^1074`, see `U_eq`) -/
def U : ℤ := (F64.unit : ℤ)

theorem unit_eq : F64.unit = 2 ^ 1074 := by
  unfold F64.unit; rw [F64.pow_core_eq 2 1074]

theorem unit_pos : 0 < F64.unit := by rw [unit_eq]; positivity

theorem U_eq : U = 2 ^ 1074 := by
  unfold U; rw [unit_eq]; exact Nat.cast_pow 2 1074

theorem U_pos : 0 < U := by
  unfold U; exact_mod_cast unit_pos

/-- ⌊v⌋ : the largest integer value `≤ z` (`Int` division rounds toward −∞ for a positive divisor) -/
def floorV (z : ℤ) : ℤ := z / U * U

/-- ⌈v⌉ -/
def ceilV (z : ℤ) : ℤ := -((-z) / U * U)

/-- truncation toward zero -/
def truncV (z : ℤ) : ℤ := z.tdiv U * U

/-- nearest integer value, halves away from zero -/
def roundV (z : ℤ) : ℤ :=
  if 0 ≤ z then (2 * z + U) / (2 * U) * U else -((2 * (-z) + U) / (2 * U) * U)

/-- fractional part `v − trunc v` -/
def fractV (z : ℤ) : ℤ := z - truncV z

theorem floorV_dvd (z : ℤ) : U ∣ floorV z := Dvd.intro_left _ rfl

theorem floorV_le (z : ℤ) : floorV z ≤ z := Int.ediv_mul_le z (ne_of_gt U_pos)

theorem lt_floorV_add (z : ℤ) : z < floorV z + U := by
  have := Int.lt_ediv_add_one_mul_self z U_pos
  unfold floorV; linarith

/-- characterisation of `floorV` -/
theorem floorV_eq_of {z f : ℤ} (hd : U ∣ f) (h1 : f ≤ z) (h2 : z < f + U) : floorV z = f := by
  obtain ⟨k, rfl⟩ := hd
  unfold floorV
  have hU := U_pos
  have : z / U = k := by
    apply le_antisymm
    · have : z / U < k + 1 := (Int.ediv_lt_iff_lt_mul hU).2 (by linarith)
      omega
    · exact (Int.le_ediv_iff_mul_le hU).2 (by linarith)
  rw [this]; ring

theorem floorV_of_dvd {z : ℤ} (h : U ∣ z) : floorV z = z :=
  floorV_eq_of h le_rfl (by have := U_pos; omega)

theorem dvd_of_floorV_eq {z : ℤ} (h : floorV z = z) : U ∣ z := h ▸ floorV_dvd z

theorem ceilV_eq_neg_floorV (z : ℤ) : ceilV z = -floorV (-z) := rfl

theorem ceilV_dvd (z : ℤ) : U ∣ ceilV z := (dvd_neg).2 (floorV_dvd _)

theorem le_ceilV (z : ℤ) : z ≤ ceilV z := by
  have := floorV_le (-z); rw [ceilV_eq_neg_floorV]; omega

theorem ceilV_lt_add (z : ℤ) : ceilV z < z + U := by
  have := lt_floorV_add (-z); rw [ceilV_eq_neg_floorV]; omega

/-- characterisation of `ceilV` -/
theorem ceilV_eq_of {z c : ℤ} (hd : U ∣ c) (h1 : z ≤ c) (h2 : c < z + U) : ceilV z = c := by
  rw [ceilV_eq_neg_floorV, floorV_eq_of (f := -c) ((dvd_neg).2 hd) (by omega) (by omega), neg_neg]

theorem ceilV_of_dvd {z : ℤ} (h : U ∣ z) : ceilV z = z :=
  ceilV_eq_of h le_rfl (by have := U_pos; omega)

theorem truncV_of_nonneg {z : ℤ} (h : 0 ≤ z) : truncV z = floorV z := by
  unfold truncV floorV; rw [Int.tdiv_eq_ediv_of_nonneg h]

theorem truncV_neg (z : ℤ) : truncV (-z) = -truncV z := by
  unfold truncV; rw [Int.neg_tdiv]; ring

theorem truncV_of_nonpos {z : ℤ} (h : z ≤ 0) : truncV z = ceilV z := by
  have := truncV_neg (-z)
  rw [neg_neg] at this
  rw [this, truncV_of_nonneg (by omega)]; rfl

theorem truncV_dvd (z : ℤ) : U ∣ truncV z := Dvd.intro_left _ rfl

theorem roundV_neg (z : ℤ) : roundV (-z) = -roundV z := by
  unfold roundV
  rcases lt_trichotomy z 0 with h | h | h
  · rw [if_pos (by omega), if_neg (by omega)]; simp
  · subst h
    have hU := U_pos
    have : U / (2 * U) = 0 := Int.ediv_eq_zero_of_lt (by omega) (by omega)
    simp [this]
  · rw [if_neg (by omega), if_pos (by omega)]; simp

/-- characterisation of `roundV` on non-negative values: `r − 1/2 ≤ z < r + 1/2` -/
theorem roundV_eq_of_nonneg {z r : ℤ} (hz : 0 ≤ z) (hd : U ∣ r) (h1 : 2 * r ≤ 2 * z + U)
    (h2 : 2 * z < 2 * r + U) : roundV z = r := by
  obtain ⟨k, rfl⟩ := hd
  unfold roundV
  rw [if_pos hz]
  have hU := U_pos
  have h2U : 0 < 2 * U := by omega
  have : (2 * z + U) / (2 * U) = k := by
    apply le_antisymm
    · have : (2 * z + U) / (2 * U) < k + 1 := (Int.ediv_lt_iff_lt_mul h2U).2 (by linarith)
      omega
    · exact (Int.le_ediv_iff_mul_le h2U).2 (by linarith)
  rw [this]; ring

/-- characterisation of `roundV` on non-positive values: `r − 1/2 < z ≤ r + 1/2` -/
theorem roundV_eq_of_nonpos {z r : ℤ} (hz : z ≤ 0) (hd : U ∣ r) (h1 : 2 * z ≤ 2 * r + U)
    (h2 : 2 * r < 2 * z + U) : roundV z = r := by
  have := roundV_eq_of_nonneg (z := -z) (r := -r) (by omega) ((dvd_neg).2 hd) (by omega) (by omega)
  rw [roundV_neg] at this; omega

theorem roundV_of_dvd {z : ℤ} (h : U ∣ z) : roundV z = z := by
  have hU := U_pos
  rcases le_total 0 z with hz | hz
  · exact roundV_eq_of_nonneg hz h (by omega) (by omega)
  · exact roundV_eq_of_nonpos hz h (by omega) (by omega)

theorem fractV_of_dvd {z : ℤ} (h : U ∣ z) : fractV z = 0 := by
  unfold fractV
  rcases le_total 0 z with hz | hz
  · rw [truncV_of_nonneg hz, floorV_of_dvd h]; omega
  · rw [truncV_of_nonpos hz, ceilV_of_dvd h]; omega

theorem truncV_add_fractV (z : ℤ) : truncV z + fractV z = z := by unfold fractV; omega

/-! ## 2. representability of truncations -/

section rep
open F64

/-- truncating low bits keeps a number representable -/
theorem rep_trunc_pow2 {n : ℕ} (k : ℕ) (h : Rep n) : Rep (n / 2 ^ k * 2 ^ k) := by
  obtain ⟨m, e, hm, rfl⟩ := (rep_iff_exists n).1 h
  rcases Nat.lt_or_ge e k with he | he
  · obtain ⟨d, rfl⟩ : ∃ d, k = d + e := ⟨k - e, by omega⟩
    rw [Nat.pow_add, Nat.mul_div_mul_right _ _ (Nat.two_pow_pos e), ← Nat.pow_add]
    exact rep_mul_pow_of_lt _ (lt_of_le_of_lt (Nat.div_le_self _ _) hm)
  · rw [Nat.div_mul_cancel (Dvd.dvd.mul_left (Nat.pow_dvd_pow 2 he) m)]
    exact rep_mul_pow_of_lt e hm

/-- rounding up to the next multiple of `2^k` keeps a number representable -/
theorem rep_trunc_succ_pow2 {n : ℕ} (k : ℕ) (h : Rep n) (hne : n / 2 ^ k * 2 ^ k ≠ n) :
    Rep (n / 2 ^ k * 2 ^ k + 2 ^ k) := by
  obtain ⟨m, e, hm, rfl⟩ := (rep_iff_exists n).1 h
  have e1 : ∀ q : ℕ, q * 2 ^ k + 2 ^ k = (q + 1) * 2 ^ k := fun q => by ring
  rcases Nat.lt_or_ge e k with he | he
  · rw [e1]
    apply rep_of_mul_pow
    obtain ⟨d, rfl⟩ : ∃ d, k = d + e := ⟨k - e, by omega⟩
    rw [Nat.pow_add, Nat.mul_div_mul_right _ _ (Nat.two_pow_pos e)]
    have := Nat.div_le_self m (2 ^ d); omega
  · exact absurd (Nat.div_mul_cancel (Dvd.dvd.mul_left (Nat.pow_dvd_pow 2 he) m)) hne

/-- the low bits of a representable number are representable -/
theorem rep_mod_pow2 {n : ℕ} (k : ℕ) (h : Rep n) : Rep (n % 2 ^ k) := by
  obtain ⟨m, e, hm, rfl⟩ := (rep_iff_exists n).1 h
  rcases Nat.lt_or_ge e k with he | he
  · obtain ⟨d, rfl⟩ : ∃ d, k = d + e := ⟨k - e, by omega⟩
    rw [Nat.pow_add, Nat.mul_mod_mul_right]
    exact rep_mul_pow_of_lt _ (lt_of_le_of_lt (Nat.mod_le _ _) hm)
  · rw [Nat.mod_eq_zero_of_dvd (Dvd.dvd.mul_left (Nat.pow_dvd_pow 2 he) m)]
    exact rep_zero

theorem unit_dvd_maxFin : F64.unit ∣ maxFin := by
  rw [unit_eq, maxFin_eq]
  exact Dvd.dvd.mul_left (pow_dvd_pow 2 (by norm_num)) _

end rep

/-! ## 3. exactness of the libm models `F64.floor`, `ceil`, `trunc`, `round`, `modf` -/

section libm
open F64

/-- decomposition of a magnitude into integer part `t` and fractional part `r` -/
theorem trunc_cases (n : ℕ) : ∃ t r : ℕ, n / F64.unit * F64.unit = t ∧ n = t + r ∧ r < F64.unit ∧
    F64.unit ∣ t ∧ n - t = r := by
  refine ⟨n / F64.unit * F64.unit, n % F64.unit, rfl, ?_, Nat.mod_lt _ unit_pos, Dvd.intro_left _ rfl, ?_⟩
  · have := Nat.div_add_mod n F64.unit; rw [Nat.mul_comm] at this; omega
  · have := Nat.div_add_mod n F64.unit; rw [Nat.mul_comm] at this; omega

theorem U_dvd_cast {t : ℕ} (h : F64.unit ∣ t) : U ∣ (t : ℤ) := Int.natCast_dvd_natCast.2 h

theorem cast_unit : ((F64.unit : ℕ) : ℤ) = U := rfl

theorem toInt_floor (x : F64) : (F64.floor x).toInt = floorV x.toInt := by
  cases x with
  | nan => exact (floorV_of_dvd (dvd_zero U)).symm
  | inf s => exact (floorV_of_dvd (dvd_zero U)).symm
  | fin s n =>
    obtain ⟨t, r, ht, hn, hr, hd, -⟩ := trunc_cases n
    have hd' := U_dvd_cast hd
    have hr' : (r : ℤ) < U := by unfold U; exact_mod_cast hr
    unfold F64.floor
    simp only [ht]
    cases s
    · simp only [Bool.false_and, Bool.false_eq_true, if_false, toInt]
      exact (floorV_eq_of hd' (by omega) (by omega)).symm
    · by_cases h : t = n
      · simp only [h, toInt, bne_self_eq_false, Bool.and_false, Bool.false_eq_true, if_false]
        exact (floorV_of_dvd ((dvd_neg).2 (h ▸ hd'))).symm
      · simp [h, toInt, cast_unit]
        exact (floorV_eq_of (f := -U + -(t:ℤ)) (dvd_add ((dvd_neg).2 dvd_rfl) ((dvd_neg).2 hd'))
          (by omega) (by omega)).symm

theorem toInt_ceil (x : F64) : (F64.ceil x).toInt = ceilV x.toInt := by
  cases x with
  | nan => exact (ceilV_of_dvd (dvd_zero U)).symm
  | inf s => exact (ceilV_of_dvd (dvd_zero U)).symm
  | fin s n =>
    obtain ⟨t, r, ht, hn, hr, hd, -⟩ := trunc_cases n
    have hd' := U_dvd_cast hd
    have hr' : (r : ℤ) < U := by unfold U; exact_mod_cast hr
    unfold F64.ceil
    simp only [ht]
    cases s
    · by_cases h : t = n
      · simp only [h, toInt, bne_self_eq_false, Bool.and_false, Bool.false_eq_true, if_false]
        exact (ceilV_of_dvd (h ▸ hd')).symm
      · simp [h, toInt, cast_unit]
        exact (ceilV_eq_of (c := (t:ℤ) + U) (dvd_add hd' dvd_rfl) (by omega) (by omega)).symm
    · simp only [Bool.not_true, Bool.false_and, Bool.false_eq_true, if_false, toInt]
      exact (ceilV_eq_of ((dvd_neg).2 hd') (by omega) (by omega)).symm

theorem toInt_trunc (x : F64) : (F64.trunc x).toInt = truncV x.toInt := by
  cases x with
  | nan => simp [F64.trunc, toInt, truncV]
  | inf s => simp [F64.trunc, toInt, truncV]
  | fin s n =>
    obtain ⟨t, r, ht, hn, hr, hd, -⟩ := trunc_cases n
    have hd' := U_dvd_cast hd
    have hr' : (r : ℤ) < U := by unfold U; exact_mod_cast hr
    unfold F64.trunc
    simp only [ht]
    cases s
    · simp only [toInt]
      rw [truncV_of_nonneg (by omega)]
      exact (floorV_eq_of hd' (by omega) (by omega)).symm
    · simp only [toInt]
      rw [truncV_neg, truncV_of_nonneg (by omega), floorV_eq_of hd' (by omega) (by omega)]

theorem toInt_modf_fst (x : F64) : (F64.modf x).1.toInt = fractV x.toInt := by
  cases x with
  | nan => simp [F64.modf, toInt, fractV, truncV]
  | inf s => cases s <;> simp [F64.modf, toInt, fractV, truncV]
  | fin s n =>
    obtain ⟨t, r, ht, hn, hr, hd, hsub⟩ := trunc_cases n
    have hd' := U_dvd_cast hd
    have hr' : (r : ℤ) < U := by unfold U; exact_mod_cast hr
    unfold F64.modf fractV
    simp only [ht, hsub]
    cases s
    · simp only [toInt]
      rw [truncV_of_nonneg (by omega), floorV_eq_of hd' (by omega) (by omega)]; omega
    · simp only [toInt]
      rw [truncV_neg, truncV_of_nonneg (by omega), floorV_eq_of hd' (by omega) (by omega)]; omega

theorem toInt_round (x : F64) : (F64.round x).toInt = roundV x.toInt := by
  cases x with
  | nan => exact (roundV_of_dvd (dvd_zero U)).symm
  | inf s => exact (roundV_of_dvd (dvd_zero U)).symm
  | fin s n =>
    obtain ⟨t, r, ht, hn, hr, hd, hsub⟩ := trunc_cases n
    have hd' := U_dvd_cast hd
    have hr' : (r : ℤ) < U := by unfold U; exact_mod_cast hr
    unfold F64.round
    simp only [ht, hsub]
    by_cases h : 2 * r ≥ F64.unit
    · have h' : U ≤ 2 * (r : ℤ) := by unfold U; exact_mod_cast h
      rw [if_pos h]
      cases s
      · simp only [toInt]; push_cast; rw [cast_unit]
        exact (roundV_eq_of_nonneg (by omega) (dvd_add hd' dvd_rfl) (by omega) (by omega)).symm
      · simp only [toInt]; push_cast; rw [cast_unit, roundV_neg]
        rw [roundV_eq_of_nonneg (r := (t:ℤ) + U) (by omega) (dvd_add hd' dvd_rfl) (by omega) (by omega)]
    · have h' : 2 * (r : ℤ) < U := by unfold U; exact_mod_cast (not_le.1 h)
      rw [if_neg h]
      cases s
      · simp only [toInt]
        exact (roundV_eq_of_nonneg (by omega) hd' (by omega) (by omega)).symm
      · simp only [toInt]; rw [roundV_neg]
        rw [roundV_eq_of_nonneg (r := (t:ℤ)) (by omega) hd' (by omega) (by omega)]

theorem rep_unit_trunc {n : ℕ} (h : Rep n) : Rep (n / F64.unit * F64.unit) := by
  rw [unit_eq]; exact rep_trunc_pow2 1074 h

theorem rep_unit_succ {n : ℕ} (h : Rep n) (hne : n / F64.unit * F64.unit ≠ n) :
    Rep (n / F64.unit * F64.unit + F64.unit) := by
  rw [unit_eq] at hne ⊢; exact rep_trunc_succ_pow2 1074 h hne

theorem rep_unit_frac {n : ℕ} (h : Rep n) : Rep (n - n / F64.unit * F64.unit) := by
  have : n - n / F64.unit * F64.unit = n % F64.unit := by
    have := Nat.div_add_mod n F64.unit; rw [Nat.mul_comm] at this; omega
  rw [this, unit_eq]; exact rep_mod_pow2 1074 h

theorem succ_le_maxFin {n : ℕ} (h : n ≤ maxFin) (hne : n / F64.unit * F64.unit ≠ n) :
    n / F64.unit * F64.unit + F64.unit ≤ maxFin := by
  obtain ⟨t, r, ht, hn, hr, ⟨a, ha⟩, -⟩ := trunc_cases n
  obtain ⟨b, hb⟩ := unit_dvd_maxFin
  rw [ht] at hne ⊢
  rcases Nat.lt_or_ge a b with hab | hab
  · have := Nat.mul_le_mul_left F64.unit (show a + 1 ≤ b from hab)
    rw [Nat.mul_add, Nat.mul_one] at this; omega
  · have := Nat.mul_le_mul_left F64.unit hab; omega

theorem trunc_le (n : ℕ) : n / F64.unit * F64.unit ≤ n := Nat.div_mul_le_self n _

/-- shape of the results of `floor`, `ceil`, `round` on a finite double: the truncated magnitude, or (only when
the input is not an integer value) the truncated magnitude plus one -/
def UpDown (n m : ℕ) : Prop :=
  m = n / F64.unit * F64.unit ∨ (m = n / F64.unit * F64.unit + F64.unit ∧ n / F64.unit * F64.unit ≠ n)

theorem floor_fin (s : Bool) (n : ℕ) : ∃ m, F64.floor (fin s n) = fin s m ∧ UpDown n m := by
  unfold F64.floor UpDown
  simp only []
  split_ifs with hc
  · simp only [Bool.and_eq_true, bne_iff_ne] at hc
    exact ⟨_, rfl, Or.inr ⟨rfl, hc.2⟩⟩
  · exact ⟨_, rfl, Or.inl rfl⟩

theorem ceil_fin (s : Bool) (n : ℕ) : ∃ m, F64.ceil (fin s n) = fin s m ∧ UpDown n m := by
  unfold F64.ceil UpDown
  simp only []
  split_ifs with hc
  · simp only [Bool.and_eq_true, bne_iff_ne] at hc
    exact ⟨_, rfl, Or.inr ⟨rfl, hc.2⟩⟩
  · exact ⟨_, rfl, Or.inl rfl⟩

theorem round_fin (s : Bool) (n : ℕ) : ∃ m, F64.round (fin s n) = fin s m ∧ UpDown n m := by
  unfold F64.round UpDown
  simp only []
  split_ifs with hc
  · refine ⟨_, rfl, Or.inr ⟨rfl, ?_⟩⟩
    intro he; rw [he] at hc; have := unit_pos; omega
  · exact ⟨_, rfl, Or.inl rfl⟩

theorem UpDown.WF {s : Bool} {n m : ℕ} (h : (fin s n).WF) (hm : UpDown n m) : (fin s m).WF := by
  rcases hm with rfl | ⟨rfl, hne⟩
  · exact ⟨rep_unit_trunc h.1, le_trans (trunc_le n) h.2⟩
  · exact ⟨rep_unit_succ h.1 hne, succ_le_maxFin h.2 hne⟩

theorem WF_trunc {x : F64} (h : x.WF) : (F64.trunc x).WF := by
  cases x with
  | nan => trivial
  | inf s => trivial
  | fin s n => exact ⟨rep_unit_trunc h.1, le_trans (trunc_le n) h.2⟩

theorem WF_floor {x : F64} (h : x.WF) : (F64.floor x).WF := by
  cases x with
  | nan => trivial
  | inf s => trivial
  | fin s n => obtain ⟨m, e, hm⟩ := floor_fin s n; rw [e]; exact hm.WF h

theorem WF_ceil {x : F64} (h : x.WF) : (F64.ceil x).WF := by
  cases x with
  | nan => trivial
  | inf s => trivial
  | fin s n => obtain ⟨m, e, hm⟩ := ceil_fin s n; rw [e]; exact hm.WF h

theorem WF_round {x : F64} (h : x.WF) : (F64.round x).WF := by
  cases x with
  | nan => trivial
  | inf s => trivial
  | fin s n => obtain ⟨m, e, hm⟩ := round_fin s n; rw [e]; exact hm.WF h

theorem WF_modf_fst {x : F64} (h : x.WF) : (F64.modf x).1.WF := by
  cases x with
  | nan => trivial
  | inf s => exact ⟨rep_zero, Nat.zero_le _⟩
  | fin s n => exact ⟨rep_unit_frac h.1, le_trans (Nat.sub_le _ _) h.2⟩

theorem is_finite_floor (x : F64) : (F64.floor x).is_finite = x.is_finite := by
  cases x with
  | nan => rfl
  | inf s => rfl
  | fin s n => obtain ⟨m, e, -⟩ := floor_fin s n; rw [e]; rfl
theorem is_finite_ceil (x : F64) : (F64.ceil x).is_finite = x.is_finite := by
  cases x with
  | nan => rfl
  | inf s => rfl
  | fin s n => obtain ⟨m, e, -⟩ := ceil_fin s n; rw [e]; rfl
theorem is_finite_round (x : F64) : (F64.round x).is_finite = x.is_finite := by
  cases x with
  | nan => rfl
  | inf s => rfl
  | fin s n => obtain ⟨m, e, -⟩ := round_fin s n; rw [e]; rfl
theorem is_finite_trunc (x : F64) : (F64.trunc x).is_finite = x.is_finite := by
  cases x with
  | nan => rfl
  | inf s => rfl
  | fin s n => exact is_finite_fin _ _
theorem is_finite_modf_fst {x : F64} (h : x.is_finite = true) : (F64.modf x).1.is_finite = true := by
  cases x with
  | nan => exact absurd h (by simp [is_finite])
  | inf s => exact is_finite_fin _ _
  | fin s n => exact is_finite_fin _ _


end libm

section valid
open F64

/-! ## 4. structure of a valid pair -/

/-- half-ulp structure of a valid pair: the high word is a multiple of some `2^e` and the low word is at most
`2^e / 2` in magnitude -/
theorem valid_ulp {x : TwoFloat} (h : x.Valid) :
    ∃ e : ℕ, (2 : ℤ) ^ e ∣ x.hi.toInt ∧ 2 * |x.lo.toInt| ≤ 2 ^ e := by
  have hH := h.hi_toInt
  have hV : x.V = x.hi.toInt + x.lo.toInt := rfl
  generalize x.V = v at hH hV
  generalize x.hi.toInt = H at hH hV
  generalize x.lo.toInt = L at hV
  refine ⟨Nat.log2 v.natAbs - 52, ?_, ?_⟩
  · have hd : ((2 ^ (Nat.log2 v.natAbs - 52) : ℕ) : ℤ) ∣ ((rn53 v.natAbs : ℕ) : ℤ) :=
      Int.natCast_dvd_natCast.2 (by rw [rn53_eq]; exact Nat.dvd_mul_left _ _)
    rw [Int.natCast_pow] at hd
    by_cases hv : v < 0
    · rw [rnI_of_neg hv] at hH; rw [hH]; exact (dvd_neg).2 hd
    · rw [rnI_of_nonneg (by omega)] at hH; rw [hH]; exact hd
  · have herr := rn53_abs_err v.natAbs
    rw [Int.natCast_pow] at herr
    refine le_trans ?_ herr
    have hn : ((v.natAbs : ℕ) : ℤ) = |v| := Int.natCast_natAbs v
    by_cases hv : v < 0
    · rw [rnI_of_neg hv] at hH
      have : L = (rn53 v.natAbs : ℤ) - v.natAbs := by rw [hn, abs_of_neg hv]; omega
      rw [this]
    · rw [rnI_of_nonneg (by omega)] at hH
      have : L = -((rn53 v.natAbs : ℤ) - v.natAbs) := by rw [hn, abs_of_nonneg (by omega)]; omega
      rw [this, abs_neg]

/-- spec-level validity in scaled integers, converse of `Valid.hi_toInt` -/
theorem valid_of_rnI {a b : F64} (ha : a.is_finite = true) (hb : b.is_finite = true) (hw : a.WF)
    (h : a.toInt = rnI (a.toInt + b.toInt)) : (⟨a, b⟩ : TwoFloat).Valid := by
  refine ⟨ha, hb, ?_⟩
  obtain ⟨s, n, rfl⟩ := is_finite_iff.mp ha
  obtain ⟨u, m, rfl⟩ := is_finite_iff.mp hb
  show F64.addEq (fin s n) (fin u m) = true
  unfold F64.addEq
  generalize hv : (fin s n).toInt + (fin u m).toInt = v at h
  have hadd : F64.add (fin s n) (fin u m) = F64.roundSigned v 1 (s && u) := by rw [← hv]; rfl
  rw [hadd]
  unfold F64.roundSigned
  by_cases h0 : v = 0
  · rw [if_pos h0, eq_iff_toInt rfl rfl, toInt_zero, h, h0, rnI_zero]
  · rw [if_neg h0]
    have hn : n ≤ maxFin := hw.2
    have hr : rn53 v.natAbs = n := by
      by_cases hneg : v < 0
      · rw [rnI_of_neg hneg] at h
        cases s <;> simp only [toInt] at h <;> omega
      · rw [rnI_of_nonneg (by omega)] at h
        cases s <;> simp only [toInt] at h <;> omega
    unfold F64.pack
    have hr' : roundQ v.natAbs 1 = n := hr
    rw [hr', if_neg (by omega), eq_iff_toInt rfl rfl]
    by_cases hneg : v < 0
    · rw [rnI_of_neg hneg, hr] at h
      cases s <;> simp only [hneg, decide_true, toInt] at h ⊢
      all_goals omega
    · rw [rnI_of_nonneg (by omega), hr] at h
      cases s <;> simp only [hneg, decide_false, toInt] at h ⊢
      all_goals omega

/-- a finite well-formed double paired with a zero low word -/
theorem pair_zero_ok {c l : F64} (hc : c.is_finite = true) (hw : c.WF) (hl : l.is_finite = true)
    (hl0 : l.toInt = 0) : (⟨c, l⟩ : TwoFloat).V = c.toInt ∧ (⟨c, l⟩ : TwoFloat).Valid := by
  refine ⟨by simp [TwoFloat.V, hl0], valid_of_rnI hc hl hw ?_⟩
  rw [hl0, add_zero, roundFacts.rnI_toInt hw]

theorem from_ok {c : F64} (hc : c.is_finite = true) (hw : c.WF) :
    (convert.impl_From_f64_for_TwoFloat.from c).V = c.toInt ∧
      (convert.impl_From_f64_for_TwoFloat.from c).Valid := by
  unfold convert.impl_From_f64_for_TwoFloat.from
  rw [f64lit_zero]
  exact pair_zero_ok (c := c) hc hw rfl rfl


end valid


/-! ## 5. normal forms of the specification functions in terms of `floorV` -/

theorem ceilV_nf (z : ℤ) : ceilV z = if z = floorV z then floorV z else floorV z + U := by
  have h1 := floorV_le z; have h2 := lt_floorV_add z; have hd := floorV_dvd z
  split_ifs with h
  · rw [← h]; exact ceilV_of_dvd (h ▸ hd)
  · exact ceilV_eq_of (dvd_add hd dvd_rfl) (by omega) (by omega)

theorem truncV_nf (z : ℤ) : truncV z = if 0 ≤ z then floorV z else ceilV z := by
  split_ifs with h
  · exact truncV_of_nonneg h
  · exact truncV_of_nonpos (by omega)

theorem roundV_nf (z : ℤ) : roundV z =
    if 0 ≤ z then (if 2 * (z - floorV z) < U then floorV z else floorV z + U)
    else (if 2 * (z - floorV z) ≤ U then floorV z else floorV z + U) := by
  have h1 := floorV_le z; have h2 := lt_floorV_add z; have hd := floorV_dvd z
  split_ifs with h h' h'
  · exact roundV_eq_of_nonneg h hd (by omega) (by omega)
  · exact roundV_eq_of_nonneg h (dvd_add hd dvd_rfl) (by omega) (by omega)
  · exact roundV_eq_of_nonpos (by omega) hd (by omega) (by omega)
  · exact roundV_eq_of_nonpos (by omega) (dvd_add hd dvd_rfl) (by omega) (by omega)

theorem floorV_add_of_dvd {h z : ℤ} (hd : U ∣ h) : floorV (h + z) = h + floorV z := by
  have h1 := floorV_le z; have h2 := lt_floorV_add z
  exact floorV_eq_of (dvd_add hd (floorV_dvd z)) (by omega) (by omega)

theorem floorV_eq_self_iff {z : ℤ} : z = floorV z ↔ U ∣ z :=
  ⟨fun h => h ▸ floorV_dvd z, fun h => (floorV_of_dvd h).symm⟩

theorem fractV_eq_zero_iff {z : ℤ} : fractV z = 0 ↔ U ∣ z := by
  constructor
  · intro h
    unfold fractV at h
    have : z = truncV z := by omega
    rw [this]; exact truncV_dvd z
  · exact fractV_of_dvd

/-- lower bound for multiples of `U` below `z` -/
theorem le_floorV {z f : ℤ} (hd : U ∣ f) (h : f ≤ z) : f ≤ floorV z := by
  by_contra hc
  have h2 := lt_floorV_add z
  have : U ≤ f - floorV z := Int.le_of_dvd (by omega) (dvd_sub hd (floorV_dvd z))
  omega

theorem ceilV_le {z c : ℤ} (hd : U ∣ c) (h : z ≤ c) : ceilV z ≤ c := by
  have := le_floorV (z := -z) (f := -c) ((dvd_neg).2 hd) (by omega)
  rw [ceilV_eq_neg_floorV]; omega

/-! ## 6. powers of two against `U = 2^1074` -/

theorem pow_cases (e : ℕ) : (2 : ℤ) ^ (e + 1) ∣ U ∨ U ∣ (2 : ℤ) ^ e := by
  rw [U_eq]
  rcases Nat.lt_or_ge e 1074 with h | h
  · left; exact pow_dvd_pow 2 h
  · right; exact pow_dvd_pow 2 h

/-- (a) if the low word is a non-zero integer value then the high word is an integer value -/
theorem hi_int_of_lo_int {e : ℕ} {H L : ℤ} (hd : (2 : ℤ) ^ e ∣ H) (hl : 2 * |L| ≤ 2 ^ e) (hL : U ∣ L)
    (h0 : L ≠ 0) : U ∣ H := by
  have hU := U_pos
  have h1 : U ≤ |L| := Int.le_of_dvd (abs_pos.2 h0) ((dvd_abs _ _).2 hL)
  rcases pow_cases e with h | h
  · have hp : (0 : ℤ) < 2 ^ e := by positivity
    have := Int.le_of_dvd hU h
    rw [pow_succ] at this; omega
  · exact dvd_trans h hd

/-- if the high word is not an integer value then its grid is finer than half of `U` -/
theorem two_pow_dvd_of_not_dvd {e : ℕ} {H : ℤ} (hd : (2 : ℤ) ^ e ∣ H) (hH : ¬ U ∣ H) :
    2 * (2 : ℤ) ^ e ∣ U := by
  rcases pow_cases e with h | h
  · rwa [pow_succ, mul_comm] at h
  · exact absurd (dvd_trans h hd) hH

/-- the linear facts about a non-integer high word `H` on the grid `P = 2^e`: its distance to the neighbouring
integer values is at least `P`, and its distance to the half-way point is zero or at least `P` -/
theorem frac_gaps {e : ℕ} {H : ℤ} (hd : (2 : ℤ) ^ e ∣ H) (hH : ¬ U ∣ H) :
    0 < (2 : ℤ) ^ e ∧ (2 : ℤ) ^ e ≤ H - floorV H ∧ (2 : ℤ) ^ e ≤ floorV H + U - H ∧
      (2 * (H - floorV H) = U ∨ 2 * (2 : ℤ) ^ e ≤ 2 * (H - floorV H) - U ∨
        2 * (2 : ℤ) ^ e ≤ U - 2 * (H - floorV H)) := by
  have hp : (0 : ℤ) < 2 ^ e := by positivity
  have h2 := two_pow_dvd_of_not_dvd hd hH
  have hPU : (2 : ℤ) ^ e ∣ U := dvd_trans (Dvd.intro_left _ rfl) h2
  have hf := floorV_dvd H
  have h1 := floorV_le H; have h3 := lt_floorV_add H
  have hne : H ≠ floorV H := fun h => hH (floorV_eq_self_iff.1 h)
  have hPf : (2 : ℤ) ^ e ∣ floorV H := dvd_trans hPU hf
  refine ⟨hp, Int.le_of_dvd (by omega) (dvd_sub hd hPf),
    Int.le_of_dvd (by omega) (dvd_sub (dvd_add hPf hPU) hd), ?_⟩
  by_cases h : 2 * (H - floorV H) = U
  · exact Or.inl h
  · right
    have hd2 : 2 * (2 : ℤ) ^ e ∣ 2 * (H - floorV H) - U :=
      dvd_sub (mul_dvd_mul_left 2 (dvd_sub hd hPf)) h2
    rcases lt_or_gt_of_ne h with h' | h'
    · right
      have := Int.le_of_dvd (by omega) ((dvd_neg).2 hd2)
      omega
    · left
      exact Int.le_of_dvd (by omega) hd2

section tests
open F64

/-! ## 7. the tests performed by the code -/

theorem f64lit_one : f64lit 0x3ff0000000000000 = fin false F64.unit := by decide +kernel
theorem f64lit_half : f64lit 0x3fe0000000000000 = fin false (2 ^ 1073) := by decide +kernel

theorem two_mul_half : 2 * ((2 ^ 1073 : ℕ) : ℤ) = U := by
  rw [U_eq]; push_cast

theorem eqz_iff {a : F64} (ha : a.is_finite = true) :
    (a ==. f64lit 0x0000000000000000) = true ↔ a.toInt = 0 := by
  rw [req_eq, f64lit_zero]; exact eq_zero_iff ha

theorem modf_eqz_iff {a : F64} (ha : a.is_finite = true) :
    ((F64.modf a).1 ==. f64lit 0x0000000000000000) = true ↔ U ∣ a.toInt := by
  rw [eqz_iff (is_finite_modf_fst ha), toInt_modf_fst, fractV_eq_zero_iff]

theorem abs_modf_eq_half_iff {a : F64} (ha : a.is_finite = true) :
    (F64.abs (F64.modf a).1 ==. f64lit 0x3fe0000000000000) = true ↔ 2 * |fractV a.toInt| = U := by
  rw [req_eq, f64lit_half, eq_iff_toInt (by rw [is_finite_abs]; exact is_finite_modf_fst ha) rfl,
    toInt_abs, toInt_modf_fst, ← two_mul_half]
  simp only [toInt]; omega

theorem rge_zero_iff {a : F64} (ha : a.is_finite = true) :
    (a >=. f64lit 0x0000000000000000) = true ↔ 0 ≤ a.toInt := by
  rw [f64lit_zero]
  have : (a >=. fin false 0) = F64.ge a (fin false 0) := by
    show (match F64.partial_cmp a (fin false 0) with
      | some .Greater => true | some .Equal => true | _ => false) = _
    rw [ge_eq_isGe]
    rcases F64.partial_cmp a (fin false 0) with _ | o
    · rfl
    · cases o <;> rfl
  rw [this, ge_iff_toInt ha rfl]; rfl

theorem bool_req (a b : Bool) : (a ==. b) = (a == b) := rfl

end tests

section f2s
open F64

/-! ## 8. Fast2Sum interface and overflow side conditions -/

/-- The Fast2Sum fact used by the branch analysis (proved in `TFV.Lemmas.EFT`): for finite well-formed `a`, `b`
with `|b| ≤ |a|` and no overflow of `a + b`, `fast_two_sum a b` is a valid pair with exact value `a + b`. -/
def F2SSpec : Prop :=
  ∀ a b : F64, a.is_finite = true → b.is_finite = true → a.WF → b.WF →
    |b.toInt| ≤ |a.toInt| → rn53 (a.toInt + b.toInt).natAbs ≤ maxFin →
    (arithmetic.fast_two_sum a b).V = a.toInt + b.toInt ∧ (arithmetic.fast_two_sum a b).Valid

theorem two_abs_le {L P : ℤ} (h : 2 * |L| ≤ P) : -P ≤ 2 * L ∧ 2 * L ≤ P := by
  rcases abs_cases L with ⟨e, _⟩ | ⟨e, _⟩ <;> rw [e] at h <;> omega

theorem rn53_near_maxFin : rn53 (maxFin + 2 ^ 53 * F64.unit) = maxFin := by
  apply rn53_eq_of_abs_lt rep_maxFin
  have hlog : Nat.log2 (maxFin + 2 ^ 53 * F64.unit) - 52 = 2045 := by
    apply log2_sub_eq
    · rw [maxFin_eq, unit_eq]; norm_num
    · rw [maxFin_eq, unit_eq]; norm_num
  rw [hlog, unit_eq]
  push_cast
  rw [abs_of_nonpos (by norm_num)]
  norm_num

theorem no_ovf {T : ℤ} (h : |T| ≤ (maxFin : ℤ) + 2 ^ 53 * U) : rn53 T.natAbs ≤ maxFin := by
  rw [← rn53_near_maxFin]
  apply rn53_mono
  have : ((T.natAbs : ℕ) : ℤ) ≤ ((maxFin + 2 ^ 53 * F64.unit : ℕ) : ℤ) := by
    rw [Int.natCast_natAbs]; push_cast; exact h
  exact_mod_cast this

theorem two_U_le_maxFin : 2 * U ≤ (maxFin : ℤ) := by
  rw [U_eq, maxFin_eq]; push_cast

theorem abs_toInt_le {a : F64} (hw : a.WF) : |a.toInt| ≤ (maxFin : ℤ) := by
  cases a with
  | nan => simp [toInt]
  | inf s => simp [toInt]
  | fin s n =>
    have : n ≤ maxFin := hw.2
    cases s <;> simp only [toInt, abs_neg, Nat.abs_cast] <;> exact_mod_cast this

theorem abs_lt_of_not_dvd {a : F64} (hw : a.WF) (h : ¬ U ∣ a.toInt) : |a.toInt| < 2 ^ 52 * U := by
  cases a with
  | nan => exact absurd (dvd_zero U) h
  | inf s => exact absurd (dvd_zero U) h
  | fin s n =>
    have hn : ¬ F64.unit ∣ n := by
      intro hd; apply h
      have := U_dvd_cast hd
      cases s
      · exact this
      · exact (dvd_neg).2 this
    have hlt : n < 2 ^ 52 * F64.unit := by
      by_contra hc
      apply hn
      rw [unit_eq] at hc ⊢
      exact hw.1.dvd_of_le (by omega)
    have : ((n : ℕ) : ℤ) < 2 ^ 52 * U := by unfold U; exact_mod_cast hlt
    cases s <;> simp only [toInt, abs_neg, Nat.abs_cast] <;> exact this

end f2s

section branches
open F64

/-! ## 9. branch analysis -/

/-- everything the branch analysis needs to know about a valid well-formed pair -/
structure Facts (hi lo : F64) : Prop where
  fh : hi.is_finite = true
  fl : lo.is_finite = true
  wh : hi.WF
  wl : lo.WF
  rn : hi.toInt = rnI (hi.toInt + lo.toInt)
  ulp : ∃ e : ℕ, (2 : ℤ) ^ e ∣ hi.toInt ∧ 2 * |lo.toInt| ≤ 2 ^ e
  pos : 0 < hi.toInt ↔ 0 < hi.toInt + lo.toInt
  neg : hi.toInt < 0 ↔ hi.toInt + lo.toInt < 0
  zero : hi.toInt = 0 → lo.toInt = 0

theorem facts {x : TwoFloat} (hv : x.Valid) (hw : x.WF) : Facts x.hi x.lo where
  fh := hv.1
  fl := hv.2.1
  wh := hw.1
  wl := hw.2
  rn := hv.hi_toInt
  ulp := valid_ulp hv
  pos := TwoFloat.Valid.hi_pos_iff roundFacts hv
  neg := TwoFloat.Valid.hi_neg_iff roundFacts hv
  zero := fun h => by
    have := (TwoFloat.Valid.hi_zero_iff roundFacts hv).1 h
    unfold TwoFloat.V at this; omega

/-- side conditions of Fast2Sum in the branch "hi is an integer value, lo is not" -/
theorem b2_bounds {hi lo : F64} (F : Facts hi lo) (hH : U ∣ hi.toInt) (hL : ¬ U ∣ lo.toInt) {c : ℤ}
    (hc1 : floorV lo.toInt ≤ c) (hc2 : c ≤ ceilV lo.toInt) :
    |c| ≤ |hi.toInt| ∧ rn53 (hi.toInt + c).natAbs ≤ maxFin := by
  obtain ⟨e, hd, hl⟩ := F.ulp
  have hHb := abs_toInt_le F.wh
  have hLb := abs_lt_of_not_dvd F.wl hL
  have hH0 : hi.toInt ≠ 0 := fun h => hL (by rw [F.zero h]; exact dvd_zero U)
  generalize hi.toInt = H at *
  generalize lo.toInt = L at *
  have hU := U_pos
  have hp : (0 : ℤ) < 2 ^ e := by positivity
  have hP : (2 : ℤ) ^ e ≤ |H| := Int.le_of_dvd (abs_pos.2 hH0) ((dvd_abs _ _).2 hd)
  obtain ⟨l1, l2⟩ := two_abs_le hl
  have hf1 : -|H| ≤ floorV L := le_floorV ((dvd_neg).2 ((dvd_abs _ _).2 hH)) (by omega)
  have hf2 : ceilV L ≤ |H| := ceilV_le ((dvd_abs _ _).2 hH) (by omega)
  have hf3 := lt_floorV_add L
  have hf4 := ceilV_lt_add L
  obtain ⟨b1, b2⟩ := abs_lt.1 hLb
  have hc : |c| ≤ |H| := abs_le.2 ⟨by omega, by omega⟩
  refine ⟨hc, no_ovf ?_⟩
  have hc' : |c| ≤ 2 ^ 53 * U := abs_le.2 ⟨by omega, by omega⟩
  exact le_trans (abs_add_le H c) (by omega)

theorem floor_exact_modF2S (h2 : F2SSpec) {x : TwoFloat} (hv : x.Valid) (hw : x.WF) :
    (TwoFloat.floor x).V = floorV x.V ∧ (TwoFloat.floor x).Valid := by
  obtain ⟨hi, lo⟩ := x
  have F : Facts hi lo := facts hv hw
  show (TwoFloat.floor ⟨hi, lo⟩).V = floorV (hi.toInt + lo.toInt) ∧ _
  obtain ⟨e, hd, hl⟩ := F.ulp
  unfold TwoFloat.floor
  simp only []
  by_cases c1 : U ∣ lo.toInt
  · rw [if_pos ((modf_eqz_iff F.fl).2 c1)]
    by_cases h0 : lo.toInt = 0
    · have := pair_zero_ok (c := F64.floor hi) (l := lo) (by rw [is_finite_floor]; exact F.fh)
        (WF_floor F.wh) F.fl h0
      rw [toInt_floor] at this; rw [h0, add_zero]; exact this
    · have hH := hi_int_of_lo_int hd hl c1 h0
      constructor
      · show (F64.floor hi).toInt + lo.toInt = _
        rw [toInt_floor, floorV_of_dvd hH, floorV_of_dvd (dvd_add hH c1)]
      · apply valid_of_rnI (by rw [is_finite_floor]; exact F.fh) F.fl (WF_floor F.wh)
        rw [toInt_floor, floorV_of_dvd hH]; exact F.rn
  · rw [if_neg (mt (modf_eqz_iff F.fl).1 c1)]
    by_cases c2 : U ∣ hi.toInt
    · rw [if_pos ((modf_eqz_iff F.fh).2 c2)]
      have hb := b2_bounds F c2 c1 (c := floorV lo.toInt) le_rfl
        (le_trans (floorV_le _) (le_ceilV _))
      have := h2 hi (F64.floor lo) F.fh (by rw [is_finite_floor]; exact F.fl) F.wh (WF_floor F.wl)
        (by rw [toInt_floor]; exact hb.1) (by rw [toInt_floor]; exact hb.2)
      rw [toInt_floor] at this; rw [floorV_add_of_dvd c2]; exact this
    · rw [if_neg (mt (modf_eqz_iff F.fh).1 c2)]
      have := from_ok (c := F64.floor hi) (by rw [is_finite_floor]; exact F.fh) (WF_floor F.wh)
      rw [toInt_floor] at this
      obtain ⟨hp, g1, g2, -⟩ := frac_gaps hd c2
      obtain ⟨l1, l2⟩ := two_abs_le hl
      rw [floorV_eq_of (floorV_dvd hi.toInt) (by omega) (by omega)]
      exact this


theorem ceilV_add_of_dvd {h z : ℤ} (hd : U ∣ h) : ceilV (h + z) = h + ceilV z := by
  rw [ceilV_nf, ceilV_nf z, floorV_add_of_dvd hd]
  split_ifs <;> omega

theorem ceil_exact_modF2S (h2 : F2SSpec) {x : TwoFloat} (hv : x.Valid) (hw : x.WF) :
    (TwoFloat.ceil x).V = ceilV x.V ∧ (TwoFloat.ceil x).Valid := by
  obtain ⟨hi, lo⟩ := x
  have F : Facts hi lo := facts hv hw
  show (TwoFloat.ceil ⟨hi, lo⟩).V = ceilV (hi.toInt + lo.toInt) ∧ _
  obtain ⟨e, hd, hl⟩ := F.ulp
  unfold TwoFloat.ceil
  simp only []
  by_cases c1 : U ∣ lo.toInt
  · rw [if_pos ((modf_eqz_iff F.fl).2 c1)]
    by_cases h0 : lo.toInt = 0
    · have := pair_zero_ok (c := F64.ceil hi) (l := lo) (by rw [is_finite_ceil]; exact F.fh)
        (WF_ceil F.wh) F.fl h0
      rw [toInt_ceil] at this; rw [h0, add_zero]; exact this
    · have hH := hi_int_of_lo_int hd hl c1 h0
      constructor
      · show (F64.ceil hi).toInt + lo.toInt = _
        rw [toInt_ceil, ceilV_of_dvd hH, ceilV_of_dvd (dvd_add hH c1)]
      · apply valid_of_rnI (by rw [is_finite_ceil]; exact F.fh) F.fl (WF_ceil F.wh)
        rw [toInt_ceil, ceilV_of_dvd hH]; exact F.rn
  · rw [if_neg (mt (modf_eqz_iff F.fl).1 c1)]
    by_cases c2 : U ∣ hi.toInt
    · rw [if_pos ((modf_eqz_iff F.fh).2 c2)]
      have hb := b2_bounds F c2 c1 (c := ceilV lo.toInt)
        (le_trans (floorV_le _) (le_ceilV _)) le_rfl
      have := h2 hi (F64.ceil lo) F.fh (by rw [is_finite_ceil]; exact F.fl) F.wh (WF_ceil F.wl)
        (by rw [toInt_ceil]; exact hb.1) (by rw [toInt_ceil]; exact hb.2)
      rw [toInt_ceil] at this; rw [ceilV_add_of_dvd c2]; exact this
    · rw [if_neg (mt (modf_eqz_iff F.fh).1 c2)]
      have := from_ok (c := F64.ceil hi) (by rw [is_finite_ceil]; exact F.fh) (WF_ceil F.wh)
      rw [toInt_ceil] at this
      obtain ⟨hp, g1, g2, -⟩ := frac_gaps hd c2
      obtain ⟨l1, l2⟩ := two_abs_le hl
      have hf : floorV (hi.toInt + lo.toInt) = floorV hi.toInt :=
        floorV_eq_of (floorV_dvd hi.toInt) (by omega) (by omega)
      have : ceilV (hi.toInt + lo.toInt) = ceilV hi.toInt := by
        rw [ceilV_nf, ceilV_nf hi.toInt, hf]; split_ifs <;> omega
      rw [this]; assumption

theorem sign_pos_nonneg {a : F64} (h : a.is_sign_positive = true) : 0 ≤ a.toInt :=
  toInt_nonneg_of_sign_positive h

theorem sign_neg_nonpos {a : F64} (h : ¬ a.is_sign_positive = true) : a.toInt ≤ 0 := by
  apply toInt_nonpos_of_sign_negative
  rw [is_sign_negative_eq_not_pos]; simpa using h

theorem trunc_exact_modF2S (h2 : F2SSpec) {x : TwoFloat} (hv : x.Valid) (hw : x.WF) :
    (TwoFloat.trunc x).V = truncV x.V ∧ (TwoFloat.trunc x).Valid := by
  have F : Facts x.hi x.lo := facts hv hw
  have hV : x.V = x.hi.toInt + x.lo.toInt := rfl
  unfold TwoFloat.trunc TwoFloat.is_sign_positive
  by_cases hs : x.hi.is_sign_positive = true
  · rw [if_pos hs]
    have h0 := sign_pos_nonneg hs
    have : 0 ≤ x.V := by
      by_contra hc; have := F.neg.2 (by omega); omega
    rw [truncV_of_nonneg this]; exact floor_exact_modF2S h2 hv hw
  · rw [if_neg hs]
    have h0 := sign_neg_nonpos hs
    have : x.V ≤ 0 := by
      by_contra hc; have := F.pos.2 (by omega); omega
    rw [truncV_of_nonpos this]; exact ceil_exact_modF2S h2 hv hw


theorem half_iff (z : ℤ) : 2 * |fractV z| = U ↔ 2 * (z - floorV z) = U := by
  have h1 := floorV_le z; have h2 := lt_floorV_add z; have hU := U_pos
  unfold fractV; rw [truncV_nf, ceilV_nf]
  split_ifs with a b
  · rw [abs_of_nonneg (by omega)]
  · rw [abs_of_nonneg (by omega)]
  · rw [abs_of_neg (by omega)]; omega

theorem sign_pos_iff {a : F64} (ha : a.is_finite = true) (h0 : a.toInt ≠ 0) :
    a.is_sign_positive = true ↔ 0 < a.toInt := by
  have := is_sign_negative_iff_toInt ha h0
  unfold F64.is_sign_positive
  rw [Bool.not_eq_true', ← Bool.not_eq_true, this]; omega

theorem roundV_between (z : ℤ) : floorV z ≤ roundV z ∧ roundV z ≤ ceilV z := by
  have hU := U_pos
  have h1 := floorV_le z
  rw [roundV_nf, ceilV_nf]; split_ifs <;> omega

theorem round_exact_modF2S (h2 : F2SSpec) {x : TwoFloat} (hv : x.Valid) (hw : x.WF) :
    (TwoFloat.round x).V = roundV x.V ∧ (TwoFloat.round x).Valid := by
  obtain ⟨hi, lo⟩ := x
  have F : Facts hi lo := facts hv hw
  show (TwoFloat.round ⟨hi, lo⟩).V = roundV (hi.toInt + lo.toInt) ∧ _
  obtain ⟨e, hd, hl⟩ := F.ulp
  unfold TwoFloat.round TwoFloat.lo_m TwoFloat.is_sign_positive
  simp only []
  have hU := U_pos
  by_cases c1 : U ∣ lo.toInt
  · rw [if_pos ((modf_eqz_iff F.fl).2 c1)]
    by_cases h0 : lo.toInt = 0
    · have := pair_zero_ok (c := F64.round hi) (l := lo) (by rw [is_finite_round]; exact F.fh)
        (WF_round F.wh) F.fl h0
      rw [toInt_round] at this; rw [h0, add_zero]; exact this
    · have hH := hi_int_of_lo_int hd hl c1 h0
      constructor
      · show (F64.round hi).toInt + lo.toInt = _
        rw [toInt_round, roundV_of_dvd hH, roundV_of_dvd (dvd_add hH c1)]
      · apply valid_of_rnI (by rw [is_finite_round]; exact F.fh) F.fl (WF_round F.wh)
        rw [toInt_round, roundV_of_dvd hH]; exact F.rn
  · rw [if_neg (mt (modf_eqz_iff F.fl).1 c1)]
    have f1 := floorV_le lo.toInt
    have f2 := lt_floorV_add lo.toInt
    have hne : lo.toInt ≠ floorV lo.toInt := fun h => c1 (floorV_eq_self_iff.1 h)
    have hL0 : lo.toInt ≠ 0 := fun h => c1 (h ▸ dvd_zero U)
    have hH0 : hi.toInt ≠ 0 := fun h => hL0 (F.zero h)
    have hpos := F.pos
    have hneg := F.neg
    by_cases c2 : U ∣ hi.toInt
    · rw [if_pos ((modf_eqz_iff F.fh).2 c2)]
      have hf := floorV_add_of_dvd (z := lo.toInt) c2
      by_cases c3 : 2 * |fractV lo.toInt| = U
      · rw [if_pos ((abs_modf_eq_half_iff F.fl).2 c3)]
        have c3' := (half_iff _).1 c3
        by_cases hs : hi.is_sign_positive = true
        · rw [if_pos hs]
          have hb := b2_bounds F c2 c1 (c := ceilV lo.toInt)
            (le_trans (floorV_le _) (le_ceilV _)) le_rfl
          have := h2 hi (F64.ceil lo) F.fh (by rw [is_finite_ceil]; exact F.fl) F.wh (WF_ceil F.wl)
            (by rw [toInt_ceil]; exact hb.1) (by rw [toInt_ceil]; exact hb.2)
          rw [toInt_ceil] at this
          have hs' := sign_pos_nonneg hs
          have : roundV (hi.toInt + lo.toInt) = hi.toInt + ceilV lo.toInt := by
            rw [roundV_nf, hf, ceilV_nf]; split_ifs <;> omega
          rw [this]; assumption
        · rw [if_neg hs]
          have hb := b2_bounds F c2 c1 (c := floorV lo.toInt) le_rfl
            (le_trans (floorV_le _) (le_ceilV _))
          have := h2 hi (F64.floor lo) F.fh (by rw [is_finite_floor]; exact F.fl) F.wh (WF_floor F.wl)
            (by rw [toInt_floor]; exact hb.1) (by rw [toInt_floor]; exact hb.2)
          rw [toInt_floor] at this
          have hs' := sign_neg_nonpos hs
          have : roundV (hi.toInt + lo.toInt) = hi.toInt + floorV lo.toInt := by
            rw [roundV_nf, hf]; split_ifs <;> omega
          rw [this]; assumption
      · rw [if_neg (mt (abs_modf_eq_half_iff F.fl).1 c3)]
        have c3' := mt (half_iff _).2 c3
        have hbt := roundV_between lo.toInt
        have hb := b2_bounds F c2 c1 (c := roundV lo.toInt) hbt.1 hbt.2
        have := h2 hi (F64.round lo) F.fh (by rw [is_finite_round]; exact F.fl) F.wh (WF_round F.wl)
          (by rw [toInt_round]; exact hb.1) (by rw [toInt_round]; exact hb.2)
        rw [toInt_round] at this
        have : roundV (hi.toInt + lo.toInt) = hi.toInt + roundV lo.toInt := by
          rw [roundV_nf, roundV_nf lo.toInt, hf]; split_ifs <;> omega
        rw [this]; assumption
    · rw [if_neg (mt (modf_eqz_iff F.fh).1 c2)]
      obtain ⟨hp, g1, g2, g3⟩ := frac_gaps hd c2
      obtain ⟨l1, l2⟩ := two_abs_le hl
      have hf : floorV (hi.toInt + lo.toInt) = floorV hi.toInt :=
        floorV_eq_of (floorV_dvd hi.toInt) (by omega) (by omega)
      by_cases c3 : 2 * |fractV hi.toInt| = U
      · rw [if_pos ((abs_modf_eq_half_iff F.fh).2 c3)]
        have c3' := (half_iff _).1 c3
        have s1 := sign_pos_iff F.fh hH0
        have s2 := sign_pos_iff F.fl hL0
        by_cases hs : (hi.is_sign_positive ==. lo.is_sign_positive) = true
        · rw [if_pos hs]
          rw [bool_req, beq_iff_eq] at hs
          have hsame : 0 < hi.toInt ↔ 0 < lo.toInt := by rw [← s1, ← s2, hs]
          have := from_ok (c := F64.round hi) (by rw [is_finite_round]; exact F.fh) (WF_round F.wh)
          rw [toInt_round] at this
          have : roundV (hi.toInt + lo.toInt) = roundV hi.toInt := by
            rw [roundV_nf, roundV_nf hi.toInt, hf]; split_ifs <;> omega
          rw [this]; assumption
        · rw [if_neg hs]
          rw [bool_req, beq_iff_eq] at hs
          have hdiff : ¬ (0 < hi.toInt ↔ 0 < lo.toInt) := by
            rw [← s1, ← s2]; intro h; exact hs (Bool.eq_iff_iff.2 h)
          have := from_ok (c := F64.trunc hi) (by rw [is_finite_trunc]; exact F.fh) (WF_trunc F.wh)
          rw [toInt_trunc] at this
          have : roundV (hi.toInt + lo.toInt) = truncV hi.toInt := by
            rw [roundV_nf, truncV_nf, ceilV_nf, hf]; split_ifs <;> omega
          rw [this]; assumption
      · rw [if_neg (mt (abs_modf_eq_half_iff F.fh).1 c3)]
        have c3' := mt (half_iff _).2 c3
        have := from_ok (c := F64.round hi) (by rw [is_finite_round]; exact F.fh) (WF_round F.wh)
        rw [toInt_round] at this
        have : roundV (hi.toInt + lo.toInt) = roundV hi.toInt := by
          rw [roundV_nf, roundV_nf hi.toInt, hf]; split_ifs <;> omega
        rw [this]; assumption


theorem WF_one (s : Bool) : (fin s F64.unit).WF := by
  refine ⟨by rw [unit_eq]; exact rep_two_pow 1074, ?_⟩
  have := two_U_le_maxFin; have hU := U_pos
  have : ((F64.unit : ℕ) : ℤ) ≤ (maxFin : ℤ) := by rw [cast_unit]; omega
  exact_mod_cast this

theorem toInt_one : (fin false F64.unit).toInt = U := rfl
theorem toInt_neg_one : (fin true F64.unit).toInt = -U := rfl

theorem abs_fractV_lt (z : ℤ) : |fractV z| < U := by
  have h1 := floorV_le z; have h2 := lt_floorV_add z; have hU := U_pos
  unfold fractV; rw [truncV_nf, ceilV_nf]
  split_ifs <;> rw [abs_lt] <;> constructor <;> omega

theorem fract_exact_modF2S (h2 : F2SSpec) {x : TwoFloat} (hv : x.Valid) (hw : x.WF) :
    (TwoFloat.fract x).V = fractV x.V ∧ (TwoFloat.fract x).Valid := by
  obtain ⟨hi, lo⟩ := x
  have F : Facts hi lo := facts hv hw
  show (TwoFloat.fract ⟨hi, lo⟩).V = fractV (hi.toInt + lo.toInt) ∧ _
  obtain ⟨e, hd, hl⟩ := F.ulp
  unfold TwoFloat.fract
  simp only []
  have hU := U_pos
  have hmax := two_U_le_maxFin
  by_cases c1 : U ∣ lo.toInt
  · rw [if_pos ((modf_eqz_iff F.fl).2 c1)]
    have := from_ok (c := (F64.modf hi).1) (is_finite_modf_fst F.fh) (WF_modf_fst F.wh)
    rw [toInt_modf_fst] at this
    have : fractV (hi.toInt + lo.toInt) = fractV hi.toInt := by
      by_cases h0 : lo.toInt = 0
      · rw [h0, add_zero]
      · have hH := hi_int_of_lo_int hd hl c1 h0
        rw [fractV_of_dvd hH, fractV_of_dvd (dvd_add hH c1)]
    rw [this]; assumption
  · rw [if_neg (mt (modf_eqz_iff F.fl).1 c1)]
    have f1 := floorV_le lo.toInt
    have f2 := lt_floorV_add lo.toInt
    have hne : lo.toInt ≠ floorV lo.toInt := fun h => c1 (floorV_eq_self_iff.1 h)
    have hL0 : lo.toInt ≠ 0 := fun h => c1 (h ▸ dvd_zero U)
    have hH0 : hi.toInt ≠ 0 := fun h => hL0 (F.zero h)
    have hpos := F.pos
    have hneg := F.neg
    have hfl := abs_fractV_lt lo.toInt
    by_cases c2 : U ∣ hi.toInt
    · rw [if_pos ((modf_eqz_iff F.fh).2 c2)]
      have hf := floorV_add_of_dvd (z := lo.toInt) c2
      have r1 := rge_zero_iff F.fh
      have r2 := rge_zero_iff F.fl
      generalize (hi >=. f64lit 0x0000000000000000) = b1 at r1
      generalize (lo >=. f64lit 0x0000000000000000) = b2 at r2
      have hfrom := from_ok (c := (F64.modf lo).1) (is_finite_modf_fst F.fl) (WF_modf_fst F.wl)
      rw [toInt_modf_fst] at hfrom
      have hsame : (0 < hi.toInt ↔ 0 < lo.toInt) →
          fractV (hi.toInt + lo.toInt) = fractV lo.toInt := by
        intro h
        unfold fractV; rw [truncV_nf, truncV_nf lo.toInt, ceilV_nf, ceilV_nf lo.toInt, hf]
        split_ifs <;> omega
      cases b1 <;> cases b2 <;> simp only []
      · rw [hsame (by simp at r1 r2; omega)]; exact hfrom
      · have := h2 (F64.neg (f64lit 0x3ff0000000000000)) (F64.modf lo).1
          (by rw [is_finite_neg, f64lit_one]; rfl) (is_finite_modf_fst F.fl)
          (by rw [f64lit_one]; exact WF_one true) (WF_modf_fst F.wl)
          (by rw [f64lit_one, toInt_modf_fst]; show _ ≤ |(-U : ℤ)|; rw [abs_neg, abs_of_pos hU]; omega)
          (by
            rw [f64lit_one, toInt_modf_fst]; apply no_ovf
            show |(-U : ℤ) + _| ≤ _
            have := abs_add_le (-U) (fractV lo.toInt)
            rw [abs_neg, abs_of_pos hU] at this; omega)
        rw [f64lit_one, toInt_modf_fst] at this
        have hv : fractV (hi.toInt + lo.toInt) = (fin true F64.unit).toInt + fractV lo.toInt := by
          rw [toInt_neg_one]
          simp at r1 r2
          unfold fractV; rw [truncV_nf, truncV_nf lo.toInt, ceilV_nf, ceilV_nf lo.toInt, hf]
          split_ifs <;> omega
        rw [hv]; exact this
      · have := h2 (f64lit 0x3ff0000000000000) (F64.modf lo).1
          (by rw [f64lit_one]; rfl) (is_finite_modf_fst F.fl)
          (by rw [f64lit_one]; exact WF_one false) (WF_modf_fst F.wl)
          (by rw [f64lit_one, toInt_modf_fst, toInt_one, abs_of_pos hU]; omega)
          (by
            rw [f64lit_one, toInt_modf_fst, toInt_one]; apply no_ovf
            have := abs_add_le U (fractV lo.toInt)
            rw [abs_of_pos hU] at this; omega)
        rw [f64lit_one, toInt_modf_fst, toInt_one] at this
        have hv : fractV (hi.toInt + lo.toInt) = U + fractV lo.toInt := by
          simp at r1 r2
          unfold fractV; rw [truncV_nf, truncV_nf lo.toInt, ceilV_nf, ceilV_nf lo.toInt, hf]
          split_ifs <;> omega
        rw [hv]; exact this
      · rw [hsame (by simp at r1 r2; omega)]; exact hfrom
    · rw [if_neg (mt (modf_eqz_iff F.fh).1 c2)]
      obtain ⟨hp, g1, g2, -⟩ := frac_gaps hd c2
      obtain ⟨l1, l2⟩ := two_abs_le hl
      have hf : floorV (hi.toInt + lo.toInt) = floorV hi.toInt :=
        floorV_eq_of (floorV_dvd hi.toInt) (by omega) (by omega)
      have hfh := abs_fractV_lt hi.toInt
      have hfv : fractV hi.toInt = hi.toInt - (if 0 ≤ hi.toInt then floorV hi.toInt
          else floorV hi.toInt + U) := by
        unfold fractV; rw [truncV_nf, ceilV_nf]; split_ifs <;> omega
      have hab : |lo.toInt| ≤ |fractV hi.toInt| := by
        rw [hfv]; split_ifs
        · rw [abs_of_nonneg (a := hi.toInt - _) (by omega)]; exact abs_le.2 ⟨by omega, by omega⟩
        · rw [abs_of_nonpos (a := hi.toInt - _) (by omega)]; exact abs_le.2 ⟨by omega, by omega⟩
      have := h2 (F64.modf hi).1 lo (is_finite_modf_fst F.fh) F.fl (WF_modf_fst F.wh) F.wl
        (by rw [toInt_modf_fst]; exact hab)
        (by
          rw [toInt_modf_fst]; apply no_ovf
          have := abs_add_le (fractV hi.toInt) lo.toInt
          omega)
      rw [toInt_modf_fst] at this
      have hv : fractV (hi.toInt + lo.toInt) = fractV hi.toInt + lo.toInt := by
        rw [hfv]; unfold fractV; rw [truncV_nf, ceilV_nf, hf]
        split_ifs <;> omega
      rw [hv]; exact this

end branches

end C08
