/-
Lemmas.Fraction — helper lemmas for property C08 (floor, ceil, trunc, round, fract).

Layers:
 1. integer specification functions `floorV`, `ceilV`, `truncV`, `roundV`, `fractV` on scaled integers
    (units of 2^-1074; "an integer value" = a multiple of `U = 2^1074`) with their characterisations;
 2. exactness and well-formedness of the libm models `F64.floor/ceil/trunc/round/modf`;
 3. the half-ulp structure of a valid pair: `2^e ∣ hi` and `2·|lo| ≤ 2^e`;
 4. the branch analysis of the five `TwoFloat` functions.
-/
import TFV.Lemmas.Cmp
import Mathlib.Tactic.Ring
import Mathlib.Tactic.Linarith
import Mathlib.Tactic.NormNum
import Mathlib.Tactic.Positivity
import Mathlib.Algebra.Order.Group.Abs
import Mathlib.Algebra.Order.Ring.Abs

/- `F64.unit = 2^1074`: let `whnf` evaluate such powers with GMP instead of unfolding `Nat.pow` 1074 times -/
set_option exponentiation.threshold 3000

namespace C08

/-! ## 1. integer specification functions -/

/-- the integer 1 in scaled units, as an `Int` (`= 2^1074`, see `U_eq`) -/
def U : ℤ := (F64.unit : ℤ)

theorem unit_eq : F64.unit = 2 ^ 1074 := by
  unfold F64.unit; rw [F64.pow_core_eq 2 1074]

theorem unit_pos : 0 < F64.unit := by rw [unit_eq]; positivity

theorem U_eq : U = 2 ^ 1074 := by
  unfold U; rw [unit_eq]; exact Nat.cast_pow 2 1074

theorem U_pos : 0 < U := by
  unfold U; exact_mod_cast unit_pos

/-- ⌊v⌋ : the largest integer value `≤ z` (`Int` division rounds toward −∞ for a positive divisor) -/
def floorV (z : ℤ) : ℤ := z / U * U

/-- ⌈v⌉ -/
def ceilV (z : ℤ) : ℤ := -((-z) / U * U)

/-- truncation toward zero -/
def truncV (z : ℤ) : ℤ := z.tdiv U * U

/-- nearest integer value, halves away from zero -/
def roundV (z : ℤ) : ℤ :=
  if 0 ≤ z then (2 * z + U) / (2 * U) * U else -((2 * (-z) + U) / (2 * U) * U)

/-- fractional part `v − trunc v` -/
def fractV (z : ℤ) : ℤ := z - truncV z

theorem floorV_dvd (z : ℤ) : U ∣ floorV z := Dvd.intro_left _ rfl

theorem floorV_le (z : ℤ) : floorV z ≤ z := Int.ediv_mul_le z (ne_of_gt U_pos)

theorem lt_floorV_add (z : ℤ) : z < floorV z + U := by
  have := Int.lt_ediv_add_one_mul_self z U_pos
  unfold floorV; linarith

/-- characterisation of `floorV` -/
theorem floorV_eq_of {z f : ℤ} (hd : U ∣ f) (h1 : f ≤ z) (h2 : z < f + U) : floorV z = f := by
  obtain ⟨k, rfl⟩ := hd
  unfold floorV
  have hU := U_pos
  have : z / U = k := by
    apply le_antisymm
    · have : z / U < k + 1 := (Int.ediv_lt_iff_lt_mul hU).2 (by linarith)
      omega
    · exact (Int.le_ediv_iff_mul_le hU).2 (by linarith)
  rw [this]; ring

theorem floorV_of_dvd {z : ℤ} (h : U ∣ z) : floorV z = z :=
  floorV_eq_of h le_rfl (by have := U_pos; omega)

theorem dvd_of_floorV_eq {z : ℤ} (h : floorV z = z) : U ∣ z := h ▸ floorV_dvd z

theorem ceilV_eq_neg_floorV (z : ℤ) : ceilV z = -floorV (-z) := rfl

theorem ceilV_dvd (z : ℤ) : U ∣ ceilV z := (dvd_neg).2 (floorV_dvd _)

theorem le_ceilV (z : ℤ) : z ≤ ceilV z := by
  have := floorV_le (-z); rw [ceilV_eq_neg_floorV]; omega

theorem ceilV_lt_add (z : ℤ) : ceilV z < z + U := by
  have := lt_floorV_add (-z); rw [ceilV_eq_neg_floorV]; omega

/-- characterisation of `ceilV` -/
theorem ceilV_eq_of {z c : ℤ} (hd : U ∣ c) (h1 : z ≤ c) (h2 : c < z + U) : ceilV z = c := by
  rw [ceilV_eq_neg_floorV, floorV_eq_of (f := -c) ((dvd_neg).2 hd) (by omega) (by omega), neg_neg]

theorem ceilV_of_dvd {z : ℤ} (h : U ∣ z) : ceilV z = z :=
  ceilV_eq_of h le_rfl (by have := U_pos; omega)

theorem truncV_of_nonneg {z : ℤ} (h : 0 ≤ z) : truncV z = floorV z := by
  unfold truncV floorV; rw [Int.tdiv_eq_ediv_of_nonneg h]

theorem truncV_neg (z : ℤ) : truncV (-z) = -truncV z := by
  unfold truncV; rw [Int.neg_tdiv]; ring

theorem truncV_of_nonpos {z : ℤ} (h : z ≤ 0) : truncV z = ceilV z := by
  have := truncV_neg (-z)
  rw [neg_neg] at this
  rw [this, truncV_of_nonneg (by omega)]; rfl

theorem truncV_dvd (z : ℤ) : U ∣ truncV z := Dvd.intro_left _ rfl

theorem roundV_neg (z : ℤ) : roundV (-z) = -roundV z := by
  unfold roundV
  rcases lt_trichotomy z 0 with h | h | h
  · rw [if_pos (by omega), if_neg (by omega)]; simp
  · subst h
    have hU := U_pos
    have : U / (2 * U) = 0 := Int.ediv_eq_zero_of_lt (by omega) (by omega)
    simp [this]
  · rw [if_neg (by omega), if_pos (by omega)]; simp

/-- characterisation of `roundV` on non-negative values: `r − 1/2 ≤ z < r + 1/2` -/
theorem roundV_eq_of_nonneg {z r : ℤ} (hz : 0 ≤ z) (hd : U ∣ r) (h1 : 2 * r ≤ 2 * z + U)
    (h2 : 2 * z < 2 * r + U) : roundV z = r := by
  obtain ⟨k, rfl⟩ := hd
  unfold roundV
  rw [if_pos hz]
  have hU := U_pos
  have h2U : 0 < 2 * U := by omega
  have : (2 * z + U) / (2 * U) = k := by
    apply le_antisymm
    · have : (2 * z + U) / (2 * U) < k + 1 := (Int.ediv_lt_iff_lt_mul h2U).2 (by linarith)
      omega
    · exact (Int.le_ediv_iff_mul_le h2U).2 (by linarith)
  rw [this]; ring

/-- characterisation of `roundV` on non-positive values: `r − 1/2 < z ≤ r + 1/2` -/
theorem roundV_eq_of_nonpos {z r : ℤ} (hz : z ≤ 0) (hd : U ∣ r) (h1 : 2 * z ≤ 2 * r + U)
    (h2 : 2 * r < 2 * z + U) : roundV z = r := by
  have := roundV_eq_of_nonneg (z := -z) (r := -r) (by omega) ((dvd_neg).2 hd) (by omega) (by omega)
  rw [roundV_neg] at this; omega

theorem roundV_of_dvd {z : ℤ} (h : U ∣ z) : roundV z = z := by
  have hU := U_pos
  rcases le_total 0 z with hz | hz
  · exact roundV_eq_of_nonneg hz h (by omega) (by omega)
  · exact roundV_eq_of_nonpos hz h (by omega) (by omega)

theorem fractV_of_dvd {z : ℤ} (h : U ∣ z) : fractV z = 0 := by
  unfold fractV
  rcases le_total 0 z with hz | hz
  · rw [truncV_of_nonneg hz, floorV_of_dvd h]; omega
  · rw [truncV_of_nonpos hz, ceilV_of_dvd h]; omega

theorem truncV_add_fractV (z : ℤ) : truncV z + fractV z = z := by unfold fractV; omega

/-! ## 2. representability of truncations -/

section rep
open F64

/-- truncating low bits keeps a number representable -/
theorem rep_trunc_pow2 {n : ℕ} (k : ℕ) (h : Rep n) : Rep (n / 2 ^ k * 2 ^ k) := by
  obtain ⟨m, e, hm, rfl⟩ := (rep_iff_exists n).1 h
  rcases Nat.lt_or_ge e k with he | he
  · obtain ⟨d, rfl⟩ : ∃ d, k = d + e := ⟨k - e, by omega⟩
    rw [Nat.pow_add, Nat.mul_div_mul_right _ _ (Nat.two_pow_pos e), ← Nat.pow_add]
    exact rep_mul_pow_of_lt _ (lt_of_le_of_lt (Nat.div_le_self _ _) hm)
  · rw [Nat.div_mul_cancel (Dvd.dvd.mul_left (Nat.pow_dvd_pow 2 he) m)]
    exact rep_mul_pow_of_lt e hm

/-- rounding up to the next multiple of `2^k` keeps a number representable -/
theorem rep_trunc_succ_pow2 {n : ℕ} (k : ℕ) (h : Rep n) (hne : n / 2 ^ k * 2 ^ k ≠ n) :
    Rep (n / 2 ^ k * 2 ^ k + 2 ^ k) := by
  obtain ⟨m, e, hm, rfl⟩ := (rep_iff_exists n).1 h
  have e1 : ∀ q : ℕ, q * 2 ^ k + 2 ^ k = (q + 1) * 2 ^ k := fun q => by ring
  rcases Nat.lt_or_ge e k with he | he
  · rw [e1]
    apply rep_of_mul_pow
    obtain ⟨d, rfl⟩ : ∃ d, k = d + e := ⟨k - e, by omega⟩
    rw [Nat.pow_add, Nat.mul_div_mul_right _ _ (Nat.two_pow_pos e)]
    have := Nat.div_le_self m (2 ^ d); omega
  · exact absurd (Nat.div_mul_cancel (Dvd.dvd.mul_left (Nat.pow_dvd_pow 2 he) m)) hne

/-- the low bits of a representable number are representable -/
theorem rep_mod_pow2 {n : ℕ} (k : ℕ) (h : Rep n) : Rep (n % 2 ^ k) := by
  obtain ⟨m, e, hm, rfl⟩ := (rep_iff_exists n).1 h
  rcases Nat.lt_or_ge e k with he | he
  · obtain ⟨d, rfl⟩ : ∃ d, k = d + e := ⟨k - e, by omega⟩
    rw [Nat.pow_add, Nat.mul_mod_mul_right]
    exact rep_mul_pow_of_lt _ (lt_of_le_of_lt (Nat.mod_le _ _) hm)
  · rw [Nat.mod_eq_zero_of_dvd (Dvd.dvd.mul_left (Nat.pow_dvd_pow 2 he) m)]
    exact rep_zero

theorem unit_dvd_maxFin : F64.unit ∣ maxFin := by
  rw [unit_eq, maxFin_eq]
  exact Dvd.dvd.mul_left (pow_dvd_pow 2 (by norm_num)) _

end rep

/-! ## 3. exactness of the libm models `F64.floor`, `ceil`, `trunc`, `round`, `modf` -/

section libm
open F64

/-- decomposition of a magnitude into integer part `t` and fractional part `r` -/
theorem trunc_cases (n : ℕ) : ∃ t r : ℕ, n / F64.unit * F64.unit = t ∧ n = t + r ∧ r < F64.unit ∧
    F64.unit ∣ t ∧ n - t = r := by
  refine ⟨n / F64.unit * F64.unit, n % F64.unit, rfl, ?_, Nat.mod_lt _ unit_pos, Dvd.intro_left _ rfl, ?_⟩
  · have := Nat.div_add_mod n F64.unit; rw [Nat.mul_comm] at this; omega
  · have := Nat.div_add_mod n F64.unit; rw [Nat.mul_comm] at this; omega

theorem U_dvd_cast {t : ℕ} (h : F64.unit ∣ t) : U ∣ (t : ℤ) := Int.natCast_dvd_natCast.2 h

theorem cast_unit : ((F64.unit : ℕ) : ℤ) = U := rfl

theorem toInt_floor (x : F64) : (F64.floor x).toInt = floorV x.toInt := by
  cases x with
  | nan => exact (floorV_of_dvd (dvd_zero U)).symm
  | inf s => exact (floorV_of_dvd (dvd_zero U)).symm
  | fin s n =>
    obtain ⟨t, r, ht, hn, hr, hd, -⟩ := trunc_cases n
    have hd' := U_dvd_cast hd
    have hr' : (r : ℤ) < U := by unfold U; exact_mod_cast hr
    unfold F64.floor
    simp only [ht]
    cases s
    · simp only [Bool.false_and, Bool.false_eq_true, if_false, toInt]
      exact (floorV_eq_of hd' (by omega) (by omega)).symm
    · by_cases h : t = n
      · simp only [h, toInt, bne_self_eq_false, Bool.and_false, Bool.false_eq_true, if_false]
        exact (floorV_of_dvd ((dvd_neg).2 (h ▸ hd'))).symm
      · simp [h, toInt, cast_unit]
        exact (floorV_eq_of (f := -U + -(t:ℤ)) (dvd_add ((dvd_neg).2 dvd_rfl) ((dvd_neg).2 hd'))
          (by omega) (by omega)).symm

theorem toInt_ceil (x : F64) : (F64.ceil x).toInt = ceilV x.toInt := by
  cases x with
  | nan => exact (ceilV_of_dvd (dvd_zero U)).symm
  | inf s => exact (ceilV_of_dvd (dvd_zero U)).symm
  | fin s n =>
    obtain ⟨t, r, ht, hn, hr, hd, -⟩ := trunc_cases n
    have hd' := U_dvd_cast hd
    have hr' : (r : ℤ) < U := by unfold U; exact_mod_cast hr
    unfold F64.ceil
    simp only [ht]
    cases s
    · by_cases h : t = n
      · simp only [h, toInt, bne_self_eq_false, Bool.and_false, Bool.false_eq_true, if_false]
        exact (ceilV_of_dvd (h ▸ hd')).symm
      · simp [h, toInt, cast_unit]
        exact (ceilV_eq_of (c := (t:ℤ) + U) (dvd_add hd' dvd_rfl) (by omega) (by omega)).symm
    · simp only [Bool.not_true, Bool.false_and, Bool.false_eq_true, if_false, toInt]
      exact (ceilV_eq_of ((dvd_neg).2 hd') (by omega) (by omega)).symm

theorem toInt_trunc (x : F64) : (F64.trunc x).toInt = truncV x.toInt := by
  cases x with
  | nan => simp [F64.trunc, toInt, truncV]
  | inf s => simp [F64.trunc, toInt, truncV]
  | fin s n =>
    obtain ⟨t, r, ht, hn, hr, hd, -⟩ := trunc_cases n
    have hd' := U_dvd_cast hd
    have hr' : (r : ℤ) < U := by unfold U; exact_mod_cast hr
    unfold F64.trunc
    simp only [ht]
    cases s
    · simp only [toInt]
      rw [truncV_of_nonneg (by omega)]
      exact (floorV_eq_of hd' (by omega) (by omega)).symm
    · simp only [toInt]
      rw [truncV_neg, truncV_of_nonneg (by omega), floorV_eq_of hd' (by omega) (by omega)]

theorem toInt_modf_fst (x : F64) : (F64.modf x).1.toInt = fractV x.toInt := by
  cases x with
  | nan => simp [F64.modf, toInt, fractV, truncV]
  | inf s => cases s <;> simp [F64.modf, toInt, fractV, truncV]
  | fin s n =>
    obtain ⟨t, r, ht, hn, hr, hd, hsub⟩ := trunc_cases n
    have hd' := U_dvd_cast hd
    have hr' : (r : ℤ) < U := by unfold U; exact_mod_cast hr
    unfold F64.modf fractV
    simp only [ht, hsub]
    cases s
    · simp only [toInt]
      rw [truncV_of_nonneg (by omega), floorV_eq_of hd' (by omega) (by omega)]; omega
    · simp only [toInt]
      rw [truncV_neg, truncV_of_nonneg (by omega), floorV_eq_of hd' (by omega) (by omega)]; omega

theorem toInt_round (x : F64) : (F64.round x).toInt = roundV x.toInt := by
  cases x with
  | nan => exact (roundV_of_dvd (dvd_zero U)).symm
  | inf s => exact (roundV_of_dvd (dvd_zero U)).symm
  | fin s n =>
    obtain ⟨t, r, ht, hn, hr, hd, hsub⟩ := trunc_cases n
    have hd' := U_dvd_cast hd
    have hr' : (r : ℤ) < U := by unfold U; exact_mod_cast hr
    unfold F64.round
    simp only [ht, hsub]
    by_cases h : 2 * r ≥ F64.unit
    · have h' : U ≤ 2 * (r : ℤ) := by unfold U; exact_mod_cast h
      rw [if_pos h]
      cases s
      · simp only [toInt]; push_cast; rw [cast_unit]
        exact (roundV_eq_of_nonneg (by omega) (dvd_add hd' dvd_rfl) (by omega) (by omega)).symm
      · simp only [toInt]; push_cast; rw [cast_unit, roundV_neg]
        rw [roundV_eq_of_nonneg (r := (t:ℤ) + U) (by omega) (dvd_add hd' dvd_rfl) (by omega) (by omega)]
    · have h' : 2 * (r : ℤ) < U := by unfold U; exact_mod_cast (not_le.1 h)
      rw [if_neg h]
      cases s
      · simp only [toInt]
        exact (roundV_eq_of_nonneg (by omega) hd' (by omega) (by omega)).symm
      · simp only [toInt]; rw [roundV_neg]
        rw [roundV_eq_of_nonneg (r := (t:ℤ)) (by omega) hd' (by omega) (by omega)]

theorem rep_unit_trunc {n : ℕ} (h : Rep n) : Rep (n / F64.unit * F64.unit) := by
  rw [unit_eq]; exact rep_trunc_pow2 1074 h

theorem rep_unit_succ {n : ℕ} (h : Rep n) (hne : n / F64.unit * F64.unit ≠ n) :
    Rep (n / F64.unit * F64.unit + F64.unit) := by
  rw [unit_eq] at hne ⊢; exact rep_trunc_succ_pow2 1074 h hne

theorem rep_unit_frac {n : ℕ} (h : Rep n) : Rep (n - n / F64.unit * F64.unit) := by
  have : n - n / F64.unit * F64.unit = n % F64.unit := by
    have := Nat.div_add_mod n F64.unit; rw [Nat.mul_comm] at this; omega
  rw [this, unit_eq]; exact rep_mod_pow2 1074 h

theorem succ_le_maxFin {n : ℕ} (h : n ≤ maxFin) (hne : n / F64.unit * F64.unit ≠ n) :
    n / F64.unit * F64.unit + F64.unit ≤ maxFin := by
  obtain ⟨t, r, ht, hn, hr, ⟨a, ha⟩, -⟩ := trunc_cases n
  obtain ⟨b, hb⟩ := unit_dvd_maxFin
  rw [ht] at hne ⊢
  rcases Nat.lt_or_ge a b with hab | hab
  · have := Nat.mul_le_mul_left F64.unit (show a + 1 ≤ b from hab)
    rw [Nat.mul_add, Nat.mul_one] at this; omega
  · have := Nat.mul_le_mul_left F64.unit hab; omega

theorem trunc_le (n : ℕ) : n / F64.unit * F64.unit ≤ n := Nat.div_mul_le_self n _

/-- shape of the results of `floor`, `ceil`, `round` on a finite double: the truncated magnitude, or (only when
the input is not an integer value) the truncated magnitude plus one -/
def UpDown (n m : ℕ) : Prop :=
  m = n / F64.unit * F64.unit ∨ (m = n / F64.unit * F64.unit + F64.unit ∧ n / F64.unit * F64.unit ≠ n)

theorem floor_fin (s : Bool) (n : ℕ) : ∃ m, F64.floor (fin s n) = fin s m ∧ UpDown n m := by
  unfold F64.floor UpDown
  simp only []
  split_ifs with hc
  · simp only [Bool.and_eq_true, bne_iff_ne] at hc
    exact ⟨_, rfl, Or.inr ⟨rfl, hc.2⟩⟩
  · exact ⟨_, rfl, Or.inl rfl⟩

theorem ceil_fin (s : Bool) (n : ℕ) : ∃ m, F64.ceil (fin s n) = fin s m ∧ UpDown n m := by
  unfold F64.ceil UpDown
  simp only []
  split_ifs with hc
  · simp only [Bool.and_eq_true, bne_iff_ne] at hc
    exact ⟨_, rfl, Or.inr ⟨rfl, hc.2⟩⟩
  · exact ⟨_, rfl, Or.inl rfl⟩

theorem round_fin (s : Bool) (n : ℕ) : ∃ m, F64.round (fin s n) = fin s m ∧ UpDown n m := by
  unfold F64.round UpDown
  simp only []
  split_ifs with hc
  · refine ⟨_, rfl, Or.inr ⟨rfl, ?_⟩⟩
    intro he; rw [he] at hc; have := unit_pos; omega
  · exact ⟨_, rfl, Or.inl rfl⟩

theorem UpDown.WF {s : Bool} {n m : ℕ} (h : (fin s n).WF) (hm : UpDown n m) : (fin s m).WF := by
  rcases hm with rfl | ⟨rfl, hne⟩
  · exact ⟨rep_unit_trunc h.1, le_trans (trunc_le n) h.2⟩
  · exact ⟨rep_unit_succ h.1 hne, succ_le_maxFin h.2 hne⟩

theorem WF_trunc {x : F64} (h : x.WF) : (F64.trunc x).WF := by
  cases x with
  | nan => trivial
  | inf s => trivial
  | fin s n => exact ⟨rep_unit_trunc h.1, le_trans (trunc_le n) h.2⟩

theorem WF_floor {x : F64} (h : x.WF) : (F64.floor x).WF := by
  cases x with
  | nan => trivial
  | inf s => trivial
  | fin s n => obtain ⟨m, e, hm⟩ := floor_fin s n; rw [e]; exact hm.WF h

theorem WF_ceil {x : F64} (h : x.WF) : (F64.ceil x).WF := by
  cases x with
  | nan => trivial
  | inf s => trivial
  | fin s n => obtain ⟨m, e, hm⟩ := ceil_fin s n; rw [e]; exact hm.WF h

theorem WF_round {x : F64} (h : x.WF) : (F64.round x).WF := by
  cases x with
  | nan => trivial
  | inf s => trivial
  | fin s n => obtain ⟨m, e, hm⟩ := round_fin s n; rw [e]; exact hm.WF h

theorem WF_modf_fst {x : F64} (h : x.WF) : (F64.modf x).1.WF := by
  cases x with
  | nan => trivial
  | inf s => exact ⟨rep_zero, Nat.zero_le _⟩
  | fin s n => exact ⟨rep_unit_frac h.1, le_trans (Nat.sub_le _ _) h.2⟩

theorem is_finite_floor (x : F64) : (F64.floor x).is_finite = x.is_finite := by
  cases x with
  | nan => rfl
  | inf s => rfl
  | fin s n => obtain ⟨m, e, -⟩ := floor_fin s n; rw [e]; rfl
theorem is_finite_ceil (x : F64) : (F64.ceil x).is_finite = x.is_finite := by
  cases x with
  | nan => rfl
  | inf s => rfl
  | fin s n => obtain ⟨m, e, -⟩ := ceil_fin s n; rw [e]; rfl
theorem is_finite_round (x : F64) : (F64.round x).is_finite = x.is_finite := by
  cases x with
  | nan => rfl
  | inf s => rfl
  | fin s n => obtain ⟨m, e, -⟩ := round_fin s n; rw [e]; rfl
theorem is_finite_trunc (x : F64) : (F64.trunc x).is_finite = x.is_finite := by
  cases x with
  | nan => rfl
  | inf s => rfl
  | fin s n => exact is_finite_fin _ _
theorem is_finite_modf_fst {x : F64} (h : x.is_finite = true) : (F64.modf x).1.is_finite = true := by
  cases x with
  | nan => exact absurd h (by simp [is_finite])
  | inf s => exact is_finite_fin _ _
  | fin s n => exact is_finite_fin _ _


end libm

section valid
open F64

/-! ## 4. structure of a valid pair -/

/-- half-ulp structure of a valid pair: the high word is a multiple of some `2^e` and the low word is at most
`2^e / 2` in magnitude -/
theorem valid_ulp {x : TwoFloat} (h : x.Valid) :
    ∃ e : ℕ, (2 : ℤ) ^ e ∣ x.hi.toInt ∧ 2 * |x.lo.toInt| ≤ 2 ^ e := by
  have hH := h.hi_toInt
  have hV : x.V = x.hi.toInt + x.lo.toInt := rfl
  generalize x.V = v at hH hV
  generalize x.hi.toInt = H at hH hV
  generalize x.lo.toInt = L at hV
  refine ⟨Nat.log2 v.natAbs - 52, ?_, ?_⟩
  · have hd : ((2 ^ (Nat.log2 v.natAbs - 52) : ℕ) : ℤ) ∣ ((rn53 v.natAbs : ℕ) : ℤ) :=
      Int.natCast_dvd_natCast.2 (by rw [rn53_eq]; exact Nat.dvd_mul_left _ _)
    rw [Int.natCast_pow] at hd
    by_cases hv : v < 0
    · rw [rnI_of_neg hv] at hH; rw [hH]; exact (dvd_neg).2 hd
    · rw [rnI_of_nonneg (by omega)] at hH; rw [hH]; exact hd
  · have herr := rn53_abs_err v.natAbs
    rw [Int.natCast_pow] at herr
    refine le_trans ?_ herr
    have hn : ((v.natAbs : ℕ) : ℤ) = |v| := Int.natCast_natAbs v
    by_cases hv : v < 0
    · rw [rnI_of_neg hv] at hH
      have : L = (rn53 v.natAbs : ℤ) - v.natAbs := by rw [hn, abs_of_neg hv]; omega
      rw [this]
    · rw [rnI_of_nonneg (by omega)] at hH
      have : L = -((rn53 v.natAbs : ℤ) - v.natAbs) := by rw [hn, abs_of_nonneg (by omega)]; omega
      rw [this, abs_neg]

/-- spec-level validity in scaled integers, converse of `Valid.hi_toInt` -/
theorem valid_of_rnI {a b : F64} (ha : a.is_finite = true) (hb : b.is_finite = true) (hw : a.WF)
    (h : a.toInt = rnI (a.toInt + b.toInt)) : (⟨a, b⟩ : TwoFloat).Valid := by
  refine ⟨ha, hb, ?_⟩
  obtain ⟨s, n, rfl⟩ := is_finite_iff.mp ha
  obtain ⟨u, m, rfl⟩ := is_finite_iff.mp hb
  show F64.addEq (fin s n) (fin u m) = true
  unfold F64.addEq
  generalize hv : (fin s n).toInt + (fin u m).toInt = v at h
  have hadd : F64.add (fin s n) (fin u m) = F64.roundSigned v 1 (s && u) := by rw [← hv]; rfl
  rw [hadd]
  unfold F64.roundSigned
  by_cases h0 : v = 0
  · rw [if_pos h0, eq_iff_toInt rfl rfl, toInt_zero, h, h0, rnI_zero]
  · rw [if_neg h0]
    have hn : n ≤ maxFin := hw.2
    have hr : rn53 v.natAbs = n := by
      by_cases hneg : v < 0
      · rw [rnI_of_neg hneg] at h
        cases s <;> simp only [toInt] at h <;> omega
      · rw [rnI_of_nonneg (by omega)] at h
        cases s <;> simp only [toInt] at h <;> omega
    unfold F64.pack
    have hr' : roundQ v.natAbs 1 = n := hr
    rw [hr', if_neg (by omega), eq_iff_toInt rfl rfl]
    by_cases hneg : v < 0
    · rw [rnI_of_neg hneg, hr] at h
      cases s <;> simp only [hneg, decide_true, toInt] at h ⊢
      all_goals omega
    · rw [rnI_of_nonneg (by omega), hr] at h
      cases s <;> simp only [hneg, decide_false, toInt] at h ⊢
      all_goals omega

/-- a finite well-formed double paired with a zero low word -/
theorem pair_zero_ok {c l : F64} (hc : c.is_finite = true) (hw : c.WF) (hl : l.is_finite = true)
    (hl0 : l.toInt = 0) : (⟨c, l⟩ : TwoFloat).V = c.toInt ∧ (⟨c, l⟩ : TwoFloat).Valid := by
  refine ⟨by simp [TwoFloat.V, hl0], valid_of_rnI hc hl hw ?_⟩
  rw [hl0, add_zero, roundFacts.rnI_toInt hw]

theorem from_ok {c : F64} (hc : c.is_finite = true) (hw : c.WF) :
    (convert.impl_From_f64_for_TwoFloat.from c).V = c.toInt ∧
      (convert.impl_From_f64_for_TwoFloat.from c).Valid := by
  unfold convert.impl_From_f64_for_TwoFloat.from
  rw [f64lit_zero]
  exact pair_zero_ok (c := c) hc hw rfl rfl


end valid

end C08
