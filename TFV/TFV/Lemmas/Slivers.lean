/-
Lemmas.Slivers — helper lemmas for the "sliver" ranges left open by the accuracy theorems of the inverse trigonometric
and hyperbolic functions (`TFV/Properties/C17u.lean`, `TFV/Properties/C18j.lean`).

 §1  a crude magnitude calculus on doubles: `Bnd f k` (`f` finite, `|f| ≤ 2^k` scaled units) is propagated through
     `+ − × ÷ fma` for ALL magnitudes including the subnormal range.
 §2  NaN propagation.
 §3  arguments next to `±1`: `x = (±1, lo)`, `|lo| < 2^-103`: the square and `x·x − 1` word for word.
 §4  `TwoFloat::sqrt` of a tiny argument (`0 < hi ≤ 2^-890`): a valid pair of magnitude at most `2^-330`.
-/
import TFV.Lemmas.PowfBound
import TFV.Lemmas.ATrigBound

set_option exponentiation.threshold 4000

namespace Slivers

open F64 TwoFloat ExpBound

/-! ## 1. magnitude calculus -/

/-- `f` is finite of magnitude at most `2^k` units (`2^(k-1074)`) -/
def Bnd (f : F64) (k : ℕ) : Prop := f.is_finite = true ∧ |f.toInt| ≤ (2 : ℤ) ^ k

theorem Bnd.mono {f : F64} {j k : ℕ} (h : Bnd f j) (hjk : j ≤ k) : Bnd f k :=
  ⟨h.1, le_trans h.2 (pow_le_pow_right₀ (by norm_num) hjk)⟩

theorem Bnd.isVal {f : F64} {k : ℕ} (h : Bnd f k) : IsVal f f.toInt := ⟨h.1, rfl⟩

theorem Bnd.of_isVal {f : F64} {v : ℤ} {k : ℕ} (h : IsVal f v) (hv : |v| ≤ (2 : ℤ) ^ k) : Bnd f k :=
  ⟨h.1, by rw [h.2]; exact hv⟩

theorem two_pow_le_maxFin' {k : ℕ} (hk : k ≤ 2090) : (2 : ℤ) ^ k ≤ (maxFin : ℤ) :=
  two_pow_le_maxFin_int (le_trans hk (by norm_num))

theorem abs_two_pow' (k : ℕ) : |(2 : ℤ) ^ k| = 2 ^ k := abs_of_pos (by positivity)

theorem Bnd.add {a b : F64} {k : ℕ} (ha : Bnd a k) (hb : Bnd b k) (hk : k + 1 ≤ 2090) :
    Bnd (F64.add a b) (k + 1) ∧ (F64.add a b).toInt = rnI (a.toInt + b.toInt) := by
  have hs : |a.toInt + b.toInt| ≤ (2 : ℤ) ^ (k + 1) := by
    have := abs_add_le a.toInt b.toInt
    rw [pow_succ]; linarith [ha.2, hb.2]
  have h := ha.isVal.add hb.isVal (le_trans hs (two_pow_le_maxFin' hk))
  refine ⟨⟨h.1, ?_⟩, h.2⟩
  rw [h.2]
  have := abs_rnI_le (v := a.toInt + b.toInt) (TwoFloat.repI_two_pow (k + 1)) (by rw [abs_two_pow']; exact hs)
  rwa [abs_two_pow'] at this

theorem Bnd.sub {a b : F64} {k : ℕ} (ha : Bnd a k) (hb : Bnd b k) (hk : k + 1 ≤ 2090) :
    Bnd (F64.sub a b) (k + 1) ∧ (F64.sub a b).toInt = rnI (a.toInt - b.toInt) := by
  have hs : |a.toInt - b.toInt| ≤ (2 : ℤ) ^ (k + 1) := by
    have := abs_sub a.toInt b.toInt
    rw [pow_succ]; linarith [ha.2, hb.2]
  have h := ha.isVal.sub hb.isVal (le_trans hs (two_pow_le_maxFin' hk))
  refine ⟨⟨h.1, ?_⟩, h.2⟩
  rw [h.2]
  have := abs_rnI_le (v := a.toInt - b.toInt) (TwoFloat.repI_two_pow (k + 1)) (by rw [abs_two_pow']; exact hs)
  rwa [abs_two_pow'] at this

/-- product: `|a| ≤ 2^i`, `|b| ≤ 2^j` units, `i + j ≤ k + 1074` -/
theorem Bnd.mul {a b : F64} {i j k : ℕ} (ha : Bnd a i) (hb : Bnd b j) (hij : i + j ≤ k + 1074) (hk : k ≤ 2090) :
    Bnd (F64.mul a b) k ∧ (F64.mul a b).toInt = rqI (a.toInt * b.toInt) unit := by
  have hp : |a.toInt * b.toInt| ≤ (2 : ℤ) ^ k * (unit : ℤ) := by
    rw [abs_mul, C01d.unit_int_eq, ← pow_add]
    calc |a.toInt| * |b.toInt| ≤ 2 ^ i * 2 ^ j := mul_le_mul ha.2 hb.2 (abs_nonneg _) (by positivity)
      _ = 2 ^ (i + j) := by rw [pow_add]
      _ ≤ 2 ^ (k + 1074) := pow_le_pow_right₀ (by norm_num) hij
  have h := mul_spec ha.1 hb.1 (roundQ_le_maxFin_of_abs_le k (le_trans hk (by norm_num)) unit_pos hp)
  exact ⟨⟨h.1, by rw [h.2]; exact rqI_abs_le k unit_pos hp⟩, h.2⟩

/-- fused multiply-add -/
theorem Bnd.fma {a b c : F64} {i j k : ℕ} (ha : Bnd a i) (hb : Bnd b j) (hc : Bnd c k) (hij : i + j ≤ k + 1074)
    (hk : k + 1 ≤ 2090) :
    Bnd (F64.fma a b c) (k + 1) ∧
    (F64.fma a b c).toInt = rqI (a.toInt * b.toInt + c.toInt * (unit : ℤ)) unit := by
  have hp : |a.toInt * b.toInt + c.toInt * (unit : ℤ)| ≤ (2 : ℤ) ^ (k + 1) * (unit : ℤ) := by
    have h1 : |a.toInt * b.toInt| ≤ (2 : ℤ) ^ k * (unit : ℤ) := by
      rw [abs_mul, C01d.unit_int_eq, ← pow_add]
      calc |a.toInt| * |b.toInt| ≤ 2 ^ i * 2 ^ j := mul_le_mul ha.2 hb.2 (abs_nonneg _) (by positivity)
        _ = 2 ^ (i + j) := by rw [pow_add]
        _ ≤ 2 ^ (k + 1074) := pow_le_pow_right₀ (by norm_num) hij
    have h2 : |c.toInt * (unit : ℤ)| ≤ (2 : ℤ) ^ k * (unit : ℤ) := by
      rw [abs_mul_pos_right _ unit_pos_int]
      exact mul_le_mul_of_nonneg_right hc.2 unit_pos_int.le
    have := abs_add_le (a.toInt * b.toInt) (c.toInt * (unit : ℤ))
    rw [pow_succ]; linarith
  have h := fma_spec ha.1 hb.1 hc.1
    (roundQ_le_maxFin_of_abs_le (k + 1) (le_trans hk (by norm_num)) unit_pos hp)
  exact ⟨⟨h.1, by rw [h.2]; exact rqI_abs_le (k + 1) unit_pos hp⟩, h.2⟩

/-- quotient by a divisor of magnitude at least `2^m` units: `|a| ≤ 2^i`, `i + 1074 ≤ k + m` -/
theorem Bnd.div {a b : F64} {i k m : ℕ} (ha : Bnd a i) (hb : b.is_finite = true) (hm : (2 : ℤ) ^ m ≤ |b.toInt|)
    (him : i + 1074 ≤ k + m) (hk : k ≤ 2090) :
    Bnd (F64.div a b) k ∧ (F64.div a b).toInt = rdI (a.toInt * (unit : ℤ)) b.toInt := by
  have hb0 : b.toInt ≠ 0 := by
    intro h0; rw [h0, abs_zero] at hm
    have : (0 : ℤ) < 2 ^ m := by positivity
    omega
  have hp : |a.toInt * (unit : ℤ)| ≤ (2 : ℤ) ^ k * |b.toInt| := by
    rw [abs_mul_pos_right _ unit_pos_int, C01d.unit_int_eq]
    calc |a.toInt| * 2 ^ 1074 ≤ 2 ^ i * 2 ^ 1074 := mul_le_mul_of_nonneg_right ha.2 (by positivity)
      _ = 2 ^ (i + 1074) := by rw [pow_add]
      _ ≤ 2 ^ (k + m) := pow_le_pow_right₀ (by norm_num) him
      _ = 2 ^ k * 2 ^ m := by rw [pow_add]
      _ ≤ 2 ^ k * |b.toInt| := mul_le_mul_of_nonneg_left hm (by positivity)
  have h' : (a.toInt * (unit : ℤ)).natAbs ≤ 2 ^ k * b.toInt.natAbs := by
    have : (((a.toInt * (unit : ℤ)).natAbs : ℕ) : ℤ) ≤ ((2 ^ k * b.toInt.natAbs : ℕ) : ℤ) := by
      rw [Int.natCast_natAbs]; push_cast; exact hp
    exact_mod_cast this
  have hr := roundQ_le_of_le (Int.natAbs_pos.2 hb0) (rep_two_pow k) h'
  have hmx : roundQ (a.toInt * (unit : ℤ)).natAbs b.toInt.natAbs ≤ maxFin :=
    le_trans hr (le_trans (Nat.pow_le_pow_right (by decide) (le_trans hk (by norm_num))) two_pow_2097_le_maxFin)
  have h := div_spec ha.1 hb hb0 hmx
  refine ⟨⟨h.1, ?_⟩, h.2⟩
  rw [h.2, abs_rdI _ hb0]
  exact_mod_cast hr

/-! ## 2. NaN propagation -/

theorem add_tt_nan (s t : Bool) (a b : ℕ) :
    arithmetic.impl_Add_TwoFloat_for_TwoFloat.add ⟨fin s a, fin t b⟩ TwoFloat.NAN = TwoFloat.NAN := rfl

theorem add_tt_nan' {x : TwoFloat} (h1 : x.hi.is_finite = true) (h2 : x.lo.is_finite = true) :
    arithmetic.impl_Add_TwoFloat_for_TwoFloat.add x TwoFloat.NAN = TwoFloat.NAN := by
  rcases x with ⟨hi, lo⟩
  obtain ⟨s, a, rfl⟩ := is_finite_iff.1 h1
  obtain ⟨t, b, rfl⟩ := is_finite_iff.1 h2
  rfl

theorem ln_nan : TwoFloat.ln TwoFloat.NAN = TwoFloat.NAN := by decide +kernel

theorem div2_nan :
    arithmetic.impl_Div_f64_for_TwoFloat.div TwoFloat.NAN (f64lit 0x4000000000000000) = TwoFloat.NAN := by
  decide +kernel

/-- `TwoFloat::sqrt` of a pair with negative high word is `NAN` -/
theorem sqrt_of_hi_neg {s : TwoFloat} (hf : s.hi.is_finite = true) (hneg : s.hi.toInt < 0) :
    TwoFloat.sqrt s = TwoFloat.NAN := by
  have hlt : (s.hi <. f64lit 0) = true := by
    rw [rlt_eq, ← lt_eq_isLt, f64lit_zero]
    exact (lt_iff_toInt hf rfl).2 (by show s.hi.toInt < 0; exact hneg)
  unfold TwoFloat.sqrt
  rw [hlt]; rfl

/-- `TwoFloat::ln` of a valid pair of non-positive value is `NAN` -/
theorem ln_of_nonpos {a : TwoFloat} (hv : a.Valid) (_hw : a.WF) (h : a.V ≤ 0) : TwoFloat.ln a = TwoFloat.NAN := by
  have h1 : base.impl_PartialEq_f64_for_TwoFloat.eq a (f64lit 0x3ff0000000000000) = false := by
    rw [Bool.eq_false_iff]
    intro he
    have := (C06.eq_f64_exact hv C01d.one_WF C01d.one_isVal.1).1 he
    rw [C01d.one_isVal.2] at this
    have := unit_pos_int
    omega
  have h2 : ROrd.isLe (base.impl_PartialOrd_f64_for_TwoFloat.partial_cmp a (f64lit 0x0000000000000000)) = true := by
    rw [f64lit_zero]
    exact (C06.le_f64_exact hv (WF_zero false) rfl).2 (by show a.V ≤ 0; exact h)
  exact LnCore.ln_go_succ_nonpos 7 a h1 h2

/-! ## 3. arguments next to `±1` -/

/-- the low word of the square of `(±1, λ)`, on integers: `C = RN(m + RN(m + T0))`, `m = ±λ`, `0 ≤ T0 ≤ |m|` -/
theorem sq_words_int {m T0 : ℤ} (hm : RepI m) (hne : m ≠ 0) (h0 : 0 ≤ T0) (hT : T0 ≤ |m|) :
    |m| ≤ |rnI (m + rnI (m + T0))| ∧ |rnI (m + rnI (m + T0))| ≤ 4 * |m| ∧
    (0 < rnI (m + rnI (m + T0)) ↔ 0 < m) := by
  have r1 : rnI m = m := rnI_of_repI hm
  have hm2 : RepI (m * 2 ^ 1) := repI_mul_pow2_iff.2 hm
  have hm4 : RepI (m * 2 ^ 2) := repI_mul_pow2_iff.2 hm
  have r2 : rnI (m * 2 ^ 1) = m * 2 ^ 1 := rnI_of_repI hm2
  have r4 : rnI (m * 2 ^ 2) = m * 2 ^ 2 := rnI_of_repI hm4
  have r0 : rnI 0 = 0 := rnI_of_repI repI_zero
  rcases lt_or_gt_of_ne hne with hneg | hpos
  · rw [abs_of_neg hneg] at hT
    have a1 : m ≤ rnI (m + T0) := by
      have := rnI_mono (v := m) (w := m + T0) (by omega)
      rwa [r1] at this
    have a2 : rnI (m + T0) ≤ 0 := by rw [← r0]; exact rnI_mono (by omega)
    have b1 : m * 2 ^ 1 ≤ rnI (m + rnI (m + T0)) := by rw [← r2]; exact rnI_mono (by omega)
    have b2 : rnI (m + rnI (m + T0)) ≤ m := by
      have := rnI_mono (v := m + rnI (m + T0)) (w := m) (by omega)
      rwa [r1] at this
    refine ⟨?_, ?_, ?_⟩
    · rw [abs_of_neg hneg, abs_of_neg (by omega)]; omega
    · rw [abs_of_neg hneg, abs_of_neg (by omega)]; omega
    · constructor <;> intro h <;> omega
  · rw [abs_of_pos hpos] at hT
    have a1 : m ≤ rnI (m + T0) := by
      have := rnI_mono (v := m) (w := m + T0) (by omega)
      rwa [r1] at this
    have a2 : rnI (m + T0) ≤ m * 2 ^ 1 := by rw [← r2]; exact rnI_mono (by omega)
    have b1 : m ≤ rnI (m + rnI (m + T0)) := by
      have := rnI_mono (v := m) (w := m + rnI (m + T0)) (by omega)
      rwa [r1] at this
    have b2 : rnI (m + rnI (m + T0)) ≤ m * 2 ^ 2 := by rw [← r4]; exact rnI_mono (by omega)
    refine ⟨?_, ?_, ?_⟩
    · rw [abs_of_pos hpos, abs_of_pos (by omega)]; omega
    · rw [abs_of_pos hpos, abs_of_pos (by omega)]; omega
    · constructor <;> intro h <;> omega

/-- **the square of `(±1, λ)`, `0 < |λ| < 2^-103`, and `x·x − 1`, word for word**: `x·x = (1, C)` and
`x·x − 1.0 = (C, 0)` with `C = RN(m + RN(m + RN(λ²)))`, `m = ±λ`; `|λ| ≤ |C| ≤ 4|λ|`, and `C` has the sign of `m` -/
theorem near_one_sq {x : TwoFloat} {σ l : ℤ} (hσ : σ = 1 ∨ σ = -1) (hx : x.IsV (σ * (unit : ℤ)) l) (hw : x.WF)
    (h0 : l ≠ 0) (hl : |l| < 2 ^ 971) :
    ∃ C : ℤ, RepI C ∧
      (arithmetic.impl_Mul_rTwoFloat_for_rTwoFloat.mul x x).IsV (unit : ℤ) C ∧
      (arithmetic.impl_Sub_rf64_for_rTwoFloat.sub (arithmetic.impl_Mul_rTwoFloat_for_rTwoFloat.mul x x)
        (f64lit 0x3ff0000000000000)).IsV C 0 ∧
      |l| ≤ |C| ∧ |C| ≤ 4 * |l| ∧ (0 < C ↔ 0 < σ * l) := by
  have hU := unit_pos_int
  have hUe := C01d.unit_int_eq
  have hlr : RepI l := hx.2.repI hw.2
  have hmr : RepI (σ * l) := (repI_sign_mul hσ).2 hlr
  have hma : |σ * l| = |l| := abs_sign_mul hσ l
  have hm0 : σ * l ≠ 0 := by
    intro h; rw [← abs_eq_zero, hma, abs_eq_zero] at h; exact h0 h
  have hlU : |l| ≤ (unit : ℤ) := by rw [hUe]; exact le_trans hl.le (by norm_num)
  have hσσ := sign_mul_self hσ
  -- the leading product
  have hc := new_mul_isV_exact hx.1 hx.1 (q := (unit : ℤ))
    (by calc σ * (unit : ℤ) * (σ * (unit : ℤ)) = (σ * σ) * ((unit : ℤ) * (unit : ℤ)) := by ring
          _ = (unit : ℤ) * (unit : ℤ) := by rw [hσσ, one_mul])
    repI_unit abs_unit_le_maxFin
  -- t0 = lo·lo
  have hll : |l * l| ≤ (2 : ℤ) ^ 971 * (unit : ℤ) := by
    rw [abs_mul]
    exact mul_le_mul hl.le hlU (abs_nonneg _) (by positivity)
  have ht0 := mul_spec hx.2.1 hx.2.1
    (by rw [hx.2.2]; exact roundQ_le_maxFin_of_abs_le 971 (by norm_num) unit_pos hll)
  rw [hx.2.2] at ht0
  set T0 := rqI (l * l) unit with hT0
  have hT0nn : 0 ≤ T0 := by
    rw [hT0]; unfold rqI
    rw [if_neg (by have := mul_self_nonneg l; omega)]
    exact Int.natCast_nonneg _
  have hT0le : T0 ≤ |l| := by
    have h1 : (l * l).natAbs ≤ l.natAbs * unit := by
      rw [Int.natAbs_mul]
      apply Nat.mul_le_mul_left
      have : ((l.natAbs : ℕ) : ℤ) ≤ ((unit : ℕ) : ℤ) := by rw [Int.natCast_natAbs]; exact hlU
      exact_mod_cast this
    have h2 := roundQ_le_of_le unit_pos hlr h1
    have h3 : |T0| ≤ |l| := by
      rw [← Int.natCast_natAbs T0, ← Int.natCast_natAbs l, hT0, natAbs_rqI]
      exact_mod_cast h2
    exact le_trans (le_abs_self _) h3
  have hT0b : |T0| ≤ (2 : ℤ) ^ 971 := by rw [abs_of_nonneg hT0nn]; exact le_trans hT0le hl.le
  have vt0 : IsVal (F64.mul x.lo x.lo) T0 := ht0
  -- t1 = fma(hi, lo, t0) = RN(m + T0)
  have e1 : σ * (unit : ℤ) * l + T0 * (unit : ℤ) = (σ * l + T0) * ((unit : ℕ) : ℤ) := by ring
  have hmT : |σ * l + T0| ≤ (2 : ℤ) ^ 972 := by
    have := abs_add_le (σ * l) T0
    rw [hma] at this
    have e : (2 : ℤ) ^ 972 = 2 ^ 971 + 2 ^ 971 := by norm_num
    omega
  have ht1 := fma_spec hx.1.1 hx.2.1 vt0.1 (by
    rw [hx.1.2, hx.2.2, vt0.2, e1]
    apply roundQ_le_maxFin_of_abs_le 972 (by norm_num) unit_pos
    rw [abs_mul_pos_right _ hU]
    exact mul_le_mul_of_nonneg_right hmT hU.le)
  rw [hx.1.2, hx.2.2, vt0.2, e1, rqI_mul_right _ unit_pos] at ht1
  have vt1 : IsVal (F64.fma x.hi x.lo (F64.mul x.lo x.lo)) (rnI (σ * l + T0)) := ht1
  have hT1b : |rnI (σ * l + T0)| ≤ (2 : ℤ) ^ 972 := by
    have := abs_rnI_le (v := σ * l + T0) (TwoFloat.repI_two_pow 972) (by rw [abs_two_pow']; exact hmT)
    rwa [abs_two_pow'] at this
  -- cl2 = fma(lo, hi, t1) = RN(m + T1)
  have e2 : l * (σ * (unit : ℤ)) + rnI (σ * l + T0) * (unit : ℤ)
      = (σ * l + rnI (σ * l + T0)) * ((unit : ℕ) : ℤ) := by ring
  have hmT1 : |σ * l + rnI (σ * l + T0)| ≤ (2 : ℤ) ^ 973 := by
    have := abs_add_le (σ * l) (rnI (σ * l + T0))
    rw [hma] at this
    have e : (2 : ℤ) ^ 973 = 2 ^ 971 + 2 ^ 971 + 2 ^ 972 := by norm_num
    omega
  have hc2 := fma_spec hx.2.1 hx.1.1 vt1.1 (by
    rw [hx.1.2, hx.2.2, vt1.2, e2]
    apply roundQ_le_maxFin_of_abs_le 973 (by norm_num) unit_pos
    rw [abs_mul_pos_right _ hU]
    exact mul_le_mul_of_nonneg_right hmT1 hU.le)
  rw [hx.1.2, hx.2.2, vt1.2, e2, rqI_mul_right _ unit_pos] at hc2
  obtain ⟨k1, k2, k3⟩ := sq_words_int hmr hm0 hT0nn (by rw [hma]; exact hT0le)
  rw [hma] at k1 k2
  set C := rnI (σ * l + rnI (σ * l + T0)) with hC
  have hCr : RepI C := repI_rnI _
  have hCb : |C| ≤ (2 : ℤ) ^ 973 := by
    have e : (2 : ℤ) ^ 973 = 4 * 2 ^ 971 := by norm_num
    omega
  have hm973 := two_pow_le_maxFin' (k := 973) (by norm_num)
  have vc2 : IsVal (F64.fma x.lo x.hi (F64.fma x.hi x.lo (F64.mul x.lo x.lo))) C := hc2
  -- cl3 = 0 + cl2
  have vc3 : IsVal (F64.add (TwoFloat.new_mul x.hi x.hi).lo
      (F64.fma x.lo x.hi (F64.fma x.hi x.lo (F64.mul x.lo x.lo)))) C := by
    have := hc.2.add_exact vc2 (by rw [zero_add]; exact hCr) (by rw [zero_add]; omega)
    rwa [zero_add] at this
  -- the product (1, C)
  have hfix : (unit : ℤ) = rnI ((unit : ℤ) + C) := by
    rw [rnI_add_small repI_unit]
    rw [abs_of_pos hU, hUe]
    calc (2 : ℤ) ^ 55 * |C| ≤ 2 ^ 55 * 2 ^ 973 := mul_le_mul_of_nonneg_left hCb (by positivity)
      _ ≤ 2 ^ 1074 := by norm_num
  have hM : (arithmetic.impl_Mul_rTwoFloat_for_rTwoFloat.mul x x).IsV (unit : ℤ) C := by
    rw [mul_tt_eq]
    exact f2s_isV_fixed hc.1 vc3 (new_mul_WF _ _).1 (add_WF _ _) hfix
  refine ⟨C, hCr, hM, ?_, k1, k2, k3⟩
  -- minus one
  have hS := sub_tf_isV hM C01d.one_isVal (mul_tt_WF x x) C01d.one_WF
    (by rw [sub_self]; exact repI_zero) (by rw [sub_self]; exact abs_zero_le_maxFin)
    (by rw [sub_self, zero_add, rnI_of_repI hCr]; omega)
    (by rw [sub_self, zero_add, rnI_of_repI hCr, sub_zero]; exact hCr)
    (by rw [sub_self, zero_add, rnI_of_repI hCr, sub_zero]; omega)
  rw [sub_self, zero_add, rnI_of_repI hCr, sub_self] at hS
  exact hS

/-! ## 4. `TwoFloat::sqrt` of a tiny argument -/

theorem Bnd.neg {a : F64} {k : ℕ} (ha : Bnd a k) : Bnd (F64.neg a) k :=
  ⟨by rw [is_finite_neg]; exact ha.1, by rw [toInt_neg, abs_neg]; exact ha.2⟩

/-- magnitudes of the two words of `new_sub` -/
theorem new_sub_bnd {a b : F64} {k : ℕ} (ha : Bnd a k) (hb : Bnd b k) (hk : k + 5 ≤ 2090) :
    Bnd (TwoFloat.new_sub a b).hi (k + 1) ∧ Bnd (TwoFloat.new_sub a b).lo (k + 5) := by
  rw [new_sub_eq]
  have s := (ha.sub hb (by omega)).1
  have aa := (s.add (hb.mono (by omega)) (by omega)).1
  have bb := ((s.mono (by omega : k + 1 ≤ k + 1 + 1)).sub aa (by omega)).1
  have da := ((ha.mono (by omega : k ≤ k + 1 + 1)).sub aa (by omega)).1
  have db := ((hb.mono (by omega : k ≤ k + 1 + 1 + 1)).add bb (by omega)).1
  have lo := ((da.mono (by omega : k + 1 + 1 + 1 ≤ k + 1 + 1 + 1 + 1)).sub db (by omega)).1
  exact ⟨s, lo⟩

/-- magnitude of the high word of `TwoFloat − TwoFloat` for finite words of magnitude at most `2^k`, valid or not -/
theorem sub_tt_hi_bnd {x y : TwoFloat} {k : ℕ} (hx1 : Bnd x.hi k) (hx2 : Bnd x.lo k) (hy1 : Bnd y.hi k)
    (hy2 : Bnd y.lo k) (hk : k + 11 ≤ 2090) :
    Bnd (arithmetic.impl_Sub_rTwoFloat_for_rTwoFloat.sub x y).hi (k + 11) := by
  rw [sub_tt_eq]
  obtain ⟨sh, sl⟩ := new_sub_bnd hx1 hy1 (by omega)
  obtain ⟨th, tl⟩ := new_sub_bnd hx2 hy2 (by omega)
  unfold addCore
  rw [fast_two_sum_eq, fast_two_sum_eq]
  have c := (sl.add (th.mono (by omega)) (by omega)).1
  have vh := ((sh.mono (by omega : k + 1 ≤ k + 5 + 1)).add c (by omega)).1
  have z := (vh.sub (sh.mono (by omega)) (by omega)).1
  have vl := ((c.mono (by omega : k + 5 + 1 ≤ k + 5 + 1 + 1 + 1)).sub z (by omega)).1
  have w := ((tl.mono (by omega : k + 5 ≤ k + 5 + 1 + 1 + 1 + 1)).add vl (by omega)).1
  have hi := ((vh.mono (by omega : k + 5 + 1 + 1 ≤ k + 5 + 1 + 1 + 1 + 1 + 1)).add w (by omega)).1
  exact hi.mono (by omega)

theorem one_bnd : Bnd (f64lit 0x3ff0000000000000) 1074 :=
  Bnd.of_isVal C01d.one_isVal (by rw [C01d.unit_int_eq, abs_two_pow'])

theorem half_bnd : Bnd (f64lit 0x3fe0000000000000) 1073 := by
  rw [half_eq]
  refine ⟨rfl, ?_⟩
  show |((2 ^ 1073 : ℕ) : ℤ)| ≤ 2 ^ 1073
  rw [abs_of_nonneg (Int.natCast_nonneg _)]
  push_cast

/-- the correctly rounded root of a positive double is at least `2^-538` (`2^536` units) -/
theorem sqrt_ge {n : ℕ} (hn : 0 < n) :
    ∃ r : ℕ, F64.sqrt (fin false n) = fin false r ∧ 2 ^ 536 ≤ r := by
  obtain ⟨q', e0, h0, h1, h2, h3, h4, h5⟩ := sqrt_spec n hn
  refine ⟨_, h0, ?_⟩
  have hU : 2 ^ 1074 ≤ n * unit := by
    rw [unit_eq]
    calc 2 ^ 1074 = 1 * 2 ^ 1074 := by ring
      _ ≤ n * 2 ^ 1074 := Nat.mul_le_mul_right _ hn
  have h6 : 2 ^ 537 ≤ (2 * q' + 1) * 2 ^ e0 := by
    by_contra hc
    have hlt : (2 * q' + 1) * 2 ^ e0 < 2 ^ 537 := Nat.lt_of_not_le hc
    have : ((2 * q' + 1) * 2 ^ e0) ^ 2 < (2 ^ 537) ^ 2 := Nat.pow_lt_pow_left hlt (by norm_num)
    have e : ((2 : ℕ) ^ 537) ^ 2 = 2 ^ 1074 := by rw [← pow_mul]
    omega
  have h7 : (2 * q' + 1) * 2 ^ e0 ≤ 2 * (q' * 2 ^ (e0 + 1)) := by
    rw [pow_succ]
    have hp : 0 < 2 ^ e0 := Nat.two_pow_pos e0
    have : 2 * q' + 1 ≤ 4 * q' := by omega
    calc (2 * q' + 1) * 2 ^ e0 ≤ (4 * q') * 2 ^ e0 := Nat.mul_le_mul_right _ this
      _ = 2 * (q' * (2 ^ e0 * 2)) := by ring
  have e : (2 : ℕ) ^ 537 = 2 * 2 ^ 536 := by norm_num
  omega

/-- **`TwoFloat::sqrt` of a tiny argument** (`0 < hi ≤ 2^-890`, any valid pair, including subnormal words): every
operation of the Newton step stays finite; the result is a valid pair of magnitude at most `2^-154` -/
theorem sqrt_tiny {s : TwoFloat} (hv : s.Valid) (_hw : s.WF) (hpos : 0 < s.hi.toInt) (hhi : s.hi.toInt ≤ 2 ^ 184) :
    (TwoFloat.sqrt s).Valid ∧ (TwoFloat.sqrt s).WF ∧ |(TwoFloat.sqrt s).V| ≤ 2 ^ 920 := by
  rw [sqrt_eq_of_hi_pos s hv.1 hpos]
  obtain ⟨sg, n, hsn⟩ := is_finite_iff.1 hv.1
  have hsg : sg = false := by
    cases sg
    · rfl
    · exfalso; rw [hsn] at hpos; simp [toInt] at hpos; omega
  subst hsg
  have hn : 0 < n := by
    rw [hsn] at hpos
    have : (fin false n).toInt = (n : ℤ) := rfl
    rw [this] at hpos
    exact_mod_cast hpos
  obtain ⟨r, hr, hr536⟩ := sqrt_ge hn
  have bH : Bnd s.hi 184 := ⟨hv.1, by rw [abs_of_pos hpos]; exact hhi⟩
  have bL : Bnd s.lo 184 := ⟨hv.2.1, le_trans hv.abs_lo_le bH.2⟩
  rw [hsn] at bH ⊢
  rw [hr]
  have hrf : (fin false r).is_finite = true := rfl
  have hrm : (2 : ℤ) ^ 536 ≤ |(fin false r).toInt| := by
    show (2 : ℤ) ^ 536 ≤ |((r : ℕ) : ℤ)|
    rw [abs_of_nonneg (Int.natCast_nonneg _)]
    exact_mod_cast hr536
  have bX : Bnd (F64.recip (fin false r)) 1612 :=
    (Bnd.div (k := 1612) (m := 536) one_bnd hrf hrm (by norm_num) (by norm_num)).1
  have bY := (Bnd.mul (k := 722) bH bX (by norm_num) (by norm_num)).1
  generalize F64.recip (fin false r) = X at *
  generalize hY : F64.mul (fin false n) X = Y at *
  have bP := (Bnd.mul (k := 370) bY bY (by norm_num) (by norm_num)).1
  have bE := (Bnd.fma (k := 370) bY bY bP.neg (by norm_num) (by norm_num)).1
  have bD := sub_tt_hi_bnd (x := s) (y := TwoFloat.new_mul Y Y) (k := 371)
    (by rw [hsn]; exact bH.mono (by norm_num)) (bL.mono (by norm_num))
    (by rw [new_mul_eq]; exact bP.mono (by norm_num)) (by rw [new_mul_eq]; exact bE) (by norm_num)
  have bXh := (Bnd.mul (k := 1611) bX half_bnd (by norm_num) (by norm_num)).1
  have bC := (Bnd.mul (k := 919) bD bXh (by norm_num) (by norm_num)).1
  have hsub : (s -. TwoFloat.new_mul Y Y) = arithmetic.impl_Sub_rTwoFloat_for_rTwoFloat.sub s (TwoFloat.new_mul Y Y) := rfl
  rw [hsub]
  have hCw : (F64.mul (arithmetic.impl_Sub_rTwoFloat_for_rTwoFloat.sub s (TwoFloat.new_mul Y Y)).hi
    (F64.mul X (f64lit 0x3fe0000000000000))).WF := mul_WF _ _
  generalize F64.mul (arithmetic.impl_Sub_rTwoFloat_for_rTwoFloat.sub s (TwoFloat.new_mul Y Y)).hi
    (F64.mul X (f64lit 0x3fe0000000000000)) = Cc at *
  have hYw : Y.WF := by rw [← hY]; exact mul_WF _ _
  have nY : Y.toInt.natAbs < 2 ^ 2097 :=
    lt_of_le_of_lt (natAbs_le_of_abs_le (m := 2 ^ 722) (by push_cast; exact bY.2)) (by norm_num)
  have nC : Cc.toInt.natAbs < 2 ^ 2097 :=
    lt_of_le_of_lt (natAbs_le_of_abs_le (m := 2 ^ 919) (by push_cast; exact bC.2)) (by norm_num)
  obtain ⟨-, -, -, hV, hVal, hWF⟩ := C02.new_add_exact Y Cc hYw hCw bY.1 bC.1 nY nC
  refine ⟨hVal, hWF, ?_⟩
  rw [hV]
  have := abs_add_le Y.toInt Cc.toInt
  have h1 := bY.2
  have h2 := bC.2
  have e1 : (2 : ℤ) ^ 722 ≤ 2 ^ 919 := by norm_num
  have e2 : (2 : ℤ) ^ 920 = 2 ^ 919 + 2 ^ 919 := by norm_num
  omega

/-! ## 5. the words of an argument next to `±1` -/

theorem V_real (t : TwoFloat) : (t.V : ℝ) = rv t * 2 ^ 1074 := by unfold rv; field_simp

/-- a valid pair within `2^-103` of `σ = ±1` has high word `σ` exactly -/
theorem near_one_words {x : TwoFloat} (hv : x.Valid) {σ : ℤ} (hσ : σ = 1 ∨ σ = -1)
    (h : |rv x - (σ : ℝ)| < 1 / 2 ^ 103) :
    x.IsV (σ * (unit : ℤ)) (x.V - σ * (unit : ℤ)) ∧ |x.V - σ * (unit : ℤ)| < 2 ^ 971 := by
  have hUe := C01d.unit_int_eq
  have hlt : |x.V - σ * (unit : ℤ)| < 2 ^ 971 := by
    have e : (((x.V - σ * (unit : ℤ) : ℤ)) : ℝ) = (rv x - (σ : ℝ)) * 2 ^ 1074 := by
      rw [hUe]; push_cast; rw [V_real]; ring
    have h2 : |(((x.V - σ * (unit : ℤ) : ℤ)) : ℝ)| < 2 ^ 971 := by
      rw [e, abs_mul, abs_of_pos (by positivity : (0 : ℝ) < 2 ^ 1074)]
      calc |rv x - (σ : ℝ)| * 2 ^ 1074 < 1 / 2 ^ 103 * 2 ^ 1074 := mul_lt_mul_of_pos_right h (by positivity)
        _ = 2 ^ 971 := by norm_num
    rw [← Int.cast_abs] at h2
    exact_mod_cast h2
  refine ⟨?_, hlt⟩
  have hr : RepI (σ * (unit : ℤ)) := (repI_sign_mul hσ).2 repI_unit
  have hhi : x.hi.toInt = σ * (unit : ℤ) := by
    rw [hv.hi_toInt]
    have e : x.V = σ * (unit : ℤ) + (x.V - σ * (unit : ℤ)) := by ring
    rw [e]
    apply rnI_add_small hr
    rw [abs_sign_mul hσ, abs_of_pos unit_pos_int, hUe]
    have : (2 : ℤ) ^ 1074 = 2 ^ 55 * 2 ^ 1019 := by norm_num
    rw [this]
    apply mul_le_mul_of_nonneg_left _ (by positivity)
    exact le_trans hlt.le (by norm_num)
  refine ⟨⟨hv.1, hhi⟩, ⟨hv.2.1, ?_⟩⟩
  have : x.V = x.hi.toInt + x.lo.toInt := rfl
  omega

/-! ## 6. the long division `TwoFloat / TwoFloat` with a tiny numerator -/

/-- magnitudes of the two words of `TwoFloat * f64`, valid or not -/
theorem mul_tf_bnd {y : TwoFloat} {q : F64} {i j k : ℕ} (h1 : Bnd y.hi i) (h2 : Bnd y.lo i) (hq : Bnd q j)
    (hij : i + j ≤ k + 1074) (hk : k + 5 ≤ 2090) :
    Bnd (arithmetic.impl_Mul_rf64_for_rTwoFloat.mul y q).hi (k + 3) ∧
    Bnd (arithmetic.impl_Mul_rf64_for_rTwoFloat.mul y q).lo (k + 5) := by
  rw [mul_tf_eq, new_mul_eq, fast_two_sum_eq]
  have p := (Bnd.mul h1 hq hij (by omega)).1
  have e := (Bnd.fma h1 hq p.neg hij (by omega)).1
  have cl3 := (Bnd.fma h2 hq e (by omega) (by omega)).1
  have hi := ((p.mono (by omega : k ≤ k + 1 + 1)).add cl3 (by omega)).1
  have z := (hi.sub (p.mono (by omega)) (by omega)).1
  have lo := ((cl3.mono (by omega : k + 1 + 1 ≤ k + 1 + 1 + 1 + 1)).sub z (by omega)).1
  exact ⟨hi, lo⟩

/-- a double of magnitude below `2^53` units has unit ulp: the `ulp(b) ∣ a` precondition of Fast2Sum is vacuous -/
theorem small_dvd {b : ℤ} (hb : |b| < 2 ^ 53) (a : ℤ) : (2 : ℤ) ^ (Nat.log2 b.natAbs - 52) ∣ a := by
  have h1 : b.natAbs < 2 ^ 53 := by
    have : ((b.natAbs : ℕ) : ℤ) < ((2 ^ 53 : ℕ) : ℤ) := by rw [Int.natCast_natAbs]; push_cast; exact hb
    exact_mod_cast this
  have h2 : Nat.log2 b.natAbs ≤ 52 := by
    by_cases h0 : b.natAbs = 0
    · rw [h0]; simp [Nat.log2]
    · have := (Nat.log2_lt h0).2 h1
      omega
  rw [Nat.sub_eq_zero_of_le h2, pow_zero]
  exact one_dvd a

theorem abs_rnI_le_pow {v : ℤ} {k : ℕ} (h : |v| ≤ 2 ^ k) : |rnI v| ≤ 2 ^ k := by
  have := abs_rnI_le (v := v) (TwoFloat.repI_two_pow k) (by rw [abs_two_pow']; exact h)
  rwa [abs_two_pow'] at this

/-- `renorm3` of three small quotient words (`|q1| ≤ 2^70`, `|q2| ≤ 2^23`, `|q3| ≤ 2^9` units): every Fast2Sum runs on
words whose small partner is below `2^53` units, hence is error-free; the result is a valid pair -/
theorem renorm3_small {q1 q2 q3 : F64} (w1 : q1.WF) (w2 : q2.WF) (_w3 : q3.WF) (b1 : Bnd q1 70) (b2 : Bnd q2 23)
    (b3 : Bnd q3 9) :
    (arithmetic.renorm3 q1 q2 q3).Valid ∧ |(arithmetic.renorm3 q1 q2 q3).V| ≤ 2 ^ 73 := by
  rw [renorm3_eq']
  have hm := two_pow_le_maxFin' (k := 80) (by norm_num)
  have hs12 : |q1.toInt + q2.toInt| ≤ 2 ^ 71 := by
    have := abs_add_le q1.toInt q2.toInt
    have e : (2 : ℤ) ^ 71 = 2 ^ 70 + 2 ^ 70 := by norm_num
    have e2 : (2 : ℤ) ^ 23 ≤ 2 ^ 70 := by norm_num
    linarith [b1.2, b2.2]
  obtain ⟨uh, ul⟩ := fast_two_sum_words_of_dvd b1.1 b2.1 w1 w2
    (small_dvd (lt_of_le_of_lt b2.2 (by norm_num)) _)
    (rn53_natAbs_le_maxFin (le_trans hs12 (le_trans (by norm_num) hm)))
  have wu := fast_two_sum_WF q1 q2
  set H := rnI (q1.toInt + q2.toInt) with hH
  have hHb : |H| ≤ 2 ^ 71 := abs_rnI_le_pow hs12
  have hEb : |q1.toInt + q2.toInt - H| ≤ 2 ^ 18 := by
    have := rnI_rel_err (q1.toInt + q2.toInt)
    rw [← hH, abs_sub_comm] at this
    have e : (2 : ℤ) ^ 71 = 2 ^ 53 * 2 ^ 18 := by norm_num
    have : (2 : ℤ) ^ 53 * |q1.toInt + q2.toInt - H| ≤ 2 ^ 53 * 2 ^ 18 := by linarith
    exact le_of_mul_le_mul_left this (by positivity)
  have bU : Bnd (arithmetic.fast_two_sum q1 q2).hi 71 := Bnd.of_isVal uh hHb
  have bUl : Bnd (arithmetic.fast_two_sum q1 q2).lo 18 := Bnd.of_isVal ul hEb
  generalize (arithmetic.fast_two_sum q1 q2).hi = U at *
  generalize (arithmetic.fast_two_sum q1 q2).lo = Ul at *
  rw [fast_two_sum_eq q3 U]
  obtain ⟨bvh, evh⟩ := (b3.mono (by norm_num : 9 ≤ 71)).add bU (by norm_num)
  obtain ⟨bz, ez⟩ := bvh.sub (b3.mono (by norm_num : 9 ≤ 72)) (by norm_num)
  obtain ⟨bvl0, evl⟩ := (bU.mono (by norm_num : 71 ≤ 73)).sub bz (by norm_num)
  rw [uh.2] at evh evl
  -- the low word of `v` is small
  have hvl : |(F64.sub U (F64.sub (F64.add q3 U) q3)).toInt| ≤ 2 ^ 21 := by
    rw [evl]
    apply abs_rnI_le_pow
    rw [ez, evh]
    have r1 := rnI_rel_err (q3.toInt + H)
    have r2 := rnI_rel_err (rnI (q3.toInt + H) - q3.toInt)
    have s1 : |q3.toInt + H| ≤ 2 ^ 72 := by
      have := abs_add_le q3.toInt H
      have e : (2 : ℤ) ^ 72 = 2 ^ 71 + 2 ^ 71 := by norm_num
      have e2 : (2 : ℤ) ^ 9 ≤ 2 ^ 71 := by norm_num
      linarith [b3.2]
    have s2 : |rnI (q3.toInt + H) - q3.toInt| ≤ 2 ^ 73 := by
      have := abs_sub (rnI (q3.toInt + H)) q3.toInt
      have h3 := abs_rnI_le_pow s1
      have e : (2 : ℤ) ^ 73 = 2 ^ 72 + 2 ^ 72 := by norm_num
      have e2 : (2 : ℤ) ^ 9 ≤ 2 ^ 72 := by norm_num
      linarith [b3.2]
    have t1 : |rnI (q3.toInt + H) - (q3.toInt + H)| ≤ 2 ^ 19 := by
      have e : (2 : ℤ) ^ 72 = 2 ^ 53 * 2 ^ 19 := by norm_num
      have : (2 : ℤ) ^ 53 * |rnI (q3.toInt + H) - (q3.toInt + H)| ≤ 2 ^ 53 * 2 ^ 19 := by linarith
      exact le_of_mul_le_mul_left this (by positivity)
    have t2 : |rnI (rnI (q3.toInt + H) - q3.toInt) - (rnI (q3.toInt + H) - q3.toInt)| ≤ 2 ^ 20 := by
      have e : (2 : ℤ) ^ 73 = 2 ^ 53 * 2 ^ 20 := by norm_num
      have : (2 : ℤ) ^ 53 * |rnI (rnI (q3.toInt + H) - q3.toInt) - (rnI (q3.toInt + H) - q3.toInt)|
          ≤ 2 ^ 53 * 2 ^ 20 := by linarith
      exact le_of_mul_le_mul_left this (by positivity)
    have e : H - rnI (rnI (q3.toInt + H) - q3.toInt)
        = -(rnI (q3.toInt + H) - (q3.toInt + H))
          - (rnI (rnI (q3.toInt + H) - q3.toInt) - (rnI (q3.toInt + H) - q3.toInt)) := by ring
    rw [e]
    have := abs_sub (-(rnI (q3.toInt + H) - (q3.toInt + H)))
      (rnI (rnI (q3.toInt + H) - q3.toInt) - (rnI (q3.toInt + H) - q3.toInt))
    rw [abs_neg] at this
    have e3 : (2 : ℤ) ^ 21 = 2 ^ 19 + 2 ^ 20 + 2 ^ 19 := by norm_num
    have : (0 : ℤ) ≤ 2 ^ 19 := by positivity
    linarith
  have bvl : Bnd (F64.sub U (F64.sub (F64.add q3 U) q3)) 21 := ⟨bvl0.1, hvl⟩
  obtain ⟨bw, -⟩ := (bUl.mono (by norm_num : 18 ≤ 21)).add bvl (by norm_num)
  have wVH : (F64.add q3 U).WF := add_WF _ _
  have wW : (F64.add Ul (F64.sub U (F64.sub (F64.add q3 U) q3))).WF := add_WF _ _
  generalize F64.add q3 U = VH at *
  generalize F64.add Ul (F64.sub U (F64.sub VH q3)) = W at *
  have h1 : |VH.toInt| ≤ (2 : ℤ) ^ 72 := bvh.2
  have h2 : |W.toInt| ≤ (2 : ℤ) ^ 22 := bw.2
  have hov : |VH.toInt + W.toInt| ≤ 2 ^ 73 := by
    have := abs_add_le VH.toInt W.toInt
    have e : (2 : ℤ) ^ 73 = 2 ^ 72 + 2 ^ 72 := by norm_num
    have e2 : (2 : ℤ) ^ 22 ≤ 2 ^ 72 := by norm_num
    linarith
  obtain ⟨-, hV, hVal, -⟩ := fast_two_sum_spec_of_dvd bvh.1 bw.1 wVH wW
    (small_dvd (lt_of_le_of_lt h2 (by norm_num)) _)
    (rn53_natAbs_le_maxFin (le_trans hov (le_trans (by norm_num) hm)))
  exact ⟨hVal, by rw [hV]; exact hov⟩

/-- **`TwoFloat / TwoFloat` with a tiny numerator** (`|a.hi| ≤ 2^-947`, any valid `a` including zero and subnormal
words) and a divisor of magnitude in `[1/4, 16]`: the quotient is a valid pair of magnitude at most `2^-921`.
Three regimes: `a = 0` (exact zero); `|a.hi| ≥ 2^-1006` (`DivRange`: the result is the normalised pair of `q1 + q2`);
below that (all three quotient digits are small, every Fast2Sum of `renorm3` is error-free). -/
theorem div_tiny {a b : TwoFloat} (ha : a.Valid) (hwa : a.WF) (hb : b.Valid) (_hwb : b.WF)
    (hA : |a.hi.toInt| ≤ 2 ^ 127) (hB1 : 2 ^ 1072 ≤ |b.hi.toInt|) (hB2 : |b.hi.toInt| ≤ 2 ^ 1078) :
    (arithmetic.impl_Div_rTwoFloat_for_rTwoFloat.div a b).Valid ∧
    |(arithmetic.impl_Div_rTwoFloat_for_rTwoFloat.div a b).V| ≤ 2 ^ 153 := by
  have hUi := unit_pos_int
  have hUe := C01d.unit_int_eq
  have hB0 : b.hi.toInt ≠ 0 := by
    intro h0; rw [h0, abs_zero] at hB1
    have : (0 : ℤ) < 2 ^ 1072 := by positivity
    omega
  have bBh : Bnd b.hi 1078 := ⟨hb.1, hB2⟩
  have bBl : Bnd b.lo 1078 := ⟨hb.2.1, le_trans hb.abs_lo_le hB2⟩
  have bAh : Bnd a.hi 127 := ⟨ha.1, hA⟩
  have bAl : Bnd a.lo 127 := ⟨ha.2.1, le_trans ha.abs_lo_le hA⟩
  by_cases hz : a.hi.toInt = 0
  · -- zero numerator
    have hV0 : a.V = 0 := ha.V_zero_iff.2 hz
    have h := div_tt_zero_isV (ha.words_zero hV0) (IsV.of_valid hb) hB0
    refine ⟨h.valid (div_tt_WF a b) (by rw [add_zero, rnI_of_repI repI_zero]), ?_⟩
    rw [h.V_eq]; norm_num
  by_cases hbig : 2 ^ 68 ≤ |a.hi.toInt|
  · -- `DivRange`
    have hAU : |a.hi.toInt * (unit : ℤ)| = |a.hi.toInt| * 2 ^ 1074 := by
      rw [abs_mul_pos_right _ hUi, hUe]
    have R : DivRange a.hi.toInt b.hi.toInt := by
      refine ⟨le_trans (by norm_num) hbig, le_trans hA (by norm_num), le_trans hB2 (by norm_num), ?_, ?_⟩
      · rw [hAU]
        calc (2 : ℤ) ^ 64 * |b.hi.toInt| ≤ 2 ^ 64 * 2 ^ 1078 := mul_le_mul_of_nonneg_left hB2 (by positivity)
          _ = 2 ^ 68 * 2 ^ 1074 := by norm_num
          _ ≤ |a.hi.toInt| * 2 ^ 1074 := mul_le_mul_of_nonneg_right hbig (by positivity)
      · rw [hAU]
        calc |a.hi.toInt| * 2 ^ 1074 ≤ 2 ^ 127 * 2 ^ 1074 := mul_le_mul_of_nonneg_right hA (by positivity)
          _ ≤ 2 ^ 2090 * 2 ^ 1072 := by norm_num
          _ ≤ 2 ^ 2090 * |b.hi.toInt| := mul_le_mul_of_nonneg_left hB1 (by positivity)
    have h := div_tt_isV_of_range ha hwa hb R
    refine ⟨h.valid (div_tt_WF a b) (by rw [add_sub_cancel]), ?_⟩
    rw [h.V_eq, add_sub_cancel]
    obtain ⟨bq1, -⟩ := Bnd.div (k := 129) (m := 1072) bAh hb.1 hB1 (by norm_num) (by norm_num)
    obtain ⟨ph, pl⟩ := mul_tf_bnd (k := 133) bBh bBl bq1 (by norm_num) (by norm_num)
    have bR := sub_tt_hi_bnd (x := a) (y := arithmetic.impl_Mul_rf64_for_rTwoFloat.mul b (F64.div a.hi b.hi))
      (k := 138) (bAh.mono (by norm_num)) (bAl.mono (by norm_num)) (ph.mono (by norm_num)) pl (by norm_num)
    obtain ⟨bq2, -⟩ := Bnd.div (k := 151) (m := 1072) bR hb.1 hB1 (by norm_num) (by norm_num)
    have h1 : |(F64.div a.hi b.hi).toInt| ≤ (2 : ℤ) ^ 129 := bq1.2
    have h2 : |(F64.div (divStep a b).hi b.hi).toInt| ≤ (2 : ℤ) ^ 151 := bq2.2
    have := abs_add_le (F64.div a.hi b.hi).toInt (F64.div (divStep a b).hi b.hi).toInt
    have e1 : (2 : ℤ) ^ 129 ≤ 2 ^ 151 := by norm_num
    have e2 : (2 : ℤ) ^ 153 = 2 ^ 151 + 2 ^ 151 + 2 ^ 152 := by norm_num
    have : (0 : ℤ) ≤ 2 ^ 152 := by positivity
    linarith
  · -- the three quotient digits are small
    have hsm : |a.hi.toInt| < 2 ^ 68 := not_le.1 hbig
    rw [div_tt_eq]
    have hbq : ∀ x : ℤ, |x| ≤ 2 ^ 2088 → |x * (unit : ℤ)| ≤ 2 ^ 2090 * |b.hi.toInt| := by
      intro x hx
      rw [abs_mul_pos_right _ hUi, hUe]
      calc |x| * 2 ^ 1074 ≤ 2 ^ 2088 * 2 ^ 1074 := mul_le_mul_of_nonneg_right hx (by positivity)
        _ = 2 ^ 2090 * 2 ^ 1072 := by norm_num
        _ ≤ 2 ^ 2090 * |b.hi.toInt| := mul_le_mul_of_nonneg_left hB1 (by positivity)
    obtain ⟨-, -, -, rv1, hS1, -⟩ := step_core (y := b) (xh := a.hi) (xl := a.lo.toInt)
      (fun p => arithmetic.impl_Sub_rTwoFloat_for_rTwoFloat.sub a p) hb ha.1 hB0
      (two_pow_mul_abs_le_of_half_ulp ha.two_mul_abs_lo_le) (le_trans hA (by norm_num))
      (le_trans hB2 (by norm_num)) (hbq _ (le_trans hA (by norm_num)))
      (fun p hp hwp bp => sub_tt_val ha hp hwa hwp (le_trans hA (by norm_num)) bp)
    change (divStep a b).Valid at rv1
    change 2 ^ 48 * |(divStep a b).hi.toInt * (unit : ℤ)| ≤ _ at hS1
    have hr1 : |(divStep a b).hi.toInt| ≤ 2 ^ 21 := by
      rw [abs_mul_pos_right _ hUi, abs_mul_pos_right _ hUi, hUe] at hS1
      have h3 : (2 : ℤ) ^ 50 * |b.hi.toInt| ≤ 2 ^ 50 * 2 ^ 1078 := mul_le_mul_of_nonneg_left hB2 (by positivity)
      have h4 : |a.hi.toInt| * 2 ^ 1074 ≤ 2 ^ 68 * 2 ^ 1074 := mul_le_mul_of_nonneg_right hsm.le (by positivity)
      have h5 : (2 : ℤ) ^ 48 * (|(divStep a b).hi.toInt| * 2 ^ 1074) ≤ 2 ^ 48 * (2 ^ 21 * 2 ^ 1074) := by
        have e : (2 : ℤ) ^ 68 * 2 ^ 1074 + 2 ^ 50 * 2 ^ 1078 + 2 ^ 51 * 2 ^ 1074 ≤ 2 ^ 48 * (2 ^ 21 * 2 ^ 1074) := by
          norm_num
        linarith
      have h6 := le_of_mul_le_mul_left h5 (by positivity)
      exact le_of_mul_le_mul_right h6 (by positivity)
    obtain ⟨-, -, -, rv2, hS2, -⟩ := step_core (y := b) (xh := (divStep a b).hi) (xl := (divStep a b).lo.toInt)
      (fun p => arithmetic.impl_Sub_rTwoFloat_for_rTwoFloat.sub (divStep a b) p) hb rv1.1 hB0
      (two_pow_mul_abs_le_of_half_ulp rv1.two_mul_abs_lo_le) (le_trans hr1 (by norm_num))
      (le_trans hB2 (by norm_num)) (hbq _ (le_trans hr1 (by norm_num)))
      (fun p hp hwp bp => sub_tt_val rv1 hp (divStep_WF a b) hwp (le_trans hr1 (by norm_num)) bp)
    change (divStep (divStep a b) b).Valid at rv2
    change 2 ^ 48 * |(divStep (divStep a b) b).hi.toInt * (unit : ℤ)| ≤ _ at hS2
    have hr2 : |(divStep (divStep a b) b).hi.toInt| ≤ 2 ^ 7 := by
      rw [abs_mul_pos_right _ hUi, abs_mul_pos_right _ hUi, hUe] at hS2
      have h3 : (2 : ℤ) ^ 50 * |b.hi.toInt| ≤ 2 ^ 50 * 2 ^ 1078 := mul_le_mul_of_nonneg_left hB2 (by positivity)
      have h4 : |(divStep a b).hi.toInt| * 2 ^ 1074 ≤ 2 ^ 21 * 2 ^ 1074 :=
        mul_le_mul_of_nonneg_right hr1 (by positivity)
      have h5 : (2 : ℤ) ^ 48 * (|(divStep (divStep a b) b).hi.toInt| * 2 ^ 1074) ≤ 2 ^ 48 * (2 ^ 7 * 2 ^ 1074) := by
        have e : (2 : ℤ) ^ 21 * 2 ^ 1074 + 2 ^ 50 * 2 ^ 1078 + 2 ^ 51 * 2 ^ 1074 ≤ 2 ^ 48 * (2 ^ 7 * 2 ^ 1074) := by
          norm_num
        linarith
      have h6 := le_of_mul_le_mul_left h5 (by positivity)
      exact le_of_mul_le_mul_right h6 (by positivity)
    obtain ⟨bq1, -⟩ := Bnd.div (k := 70) (m := 1072) (i := 68) ⟨ha.1, hsm.le⟩ hb.1 hB1 (by norm_num) (by norm_num)
    obtain ⟨bq2, -⟩ := Bnd.div (k := 23) (m := 1072) (i := 21) ⟨rv1.1, hr1⟩ hb.1 hB1 (by norm_num) (by norm_num)
    obtain ⟨bq3, -⟩ := Bnd.div (k := 9) (m := 1072) (i := 7) ⟨rv2.1, hr2⟩ hb.1 hB1 (by norm_num) (by norm_num)
    obtain ⟨hval, hbd⟩ := renorm3_small (div_WF _ _) (div_WF _ _) (div_WF _ _) bq1 bq2 bq3
    exact ⟨hval, le_trans hbd (by norm_num)⟩

/-! ## 7. more tiny-argument operators (for `asin` next to `±1`) -/

/-- **`TwoFloat::sqrt` of a tiny non-negative argument** (zero included) -/
theorem sqrt_small {d : TwoFloat} (hv : d.Valid) (hw : d.WF) (h0 : 0 ≤ d.V) (hhi : d.hi.toInt ≤ 2 ^ 184) :
    (TwoFloat.sqrt d).Valid ∧ (TwoFloat.sqrt d).WF ∧ |(TwoFloat.sqrt d).V| ≤ 2 ^ 920 := by
  rcases eq_or_lt_of_le h0 with hz | hpos
  · obtain ⟨⟨f1, z1⟩, ⟨f2, z2⟩⟩ := hv.words_zero hz.symm
    have zf : (fin false 0).is_finite = true := rfl
    have c1 : (d.hi <. f64lit 0) = false := by
      rw [rlt_eq, ← lt_eq_isLt, f64lit_zero, Bool.eq_false_iff]
      intro h
      have := (lt_iff_toInt f1 zf).1 h
      rw [z1] at this
      exact lt_irrefl _ this
    have c2 : (d.lo <. f64lit 0) = false := by
      rw [rlt_eq, ← lt_eq_isLt, f64lit_zero, Bool.eq_false_iff]
      intro h
      have := (lt_iff_toInt f2 zf).1 h
      rw [z2] at this
      exact lt_irrefl _ this
    have c3 : (d.hi ==. f64lit 0) = true := by
      rw [req_eq, f64lit_zero]; exact (eq_zero_iff f1).2 z1
    have c4 : (d.lo ==. f64lit 0) = true := by
      rw [req_eq, f64lit_zero]; exact (eq_zero_iff f2).2 z2
    have e : TwoFloat.sqrt d = ⟨f64lit 0x0000000000000000, f64lit 0x0000000000000000⟩ := by
      unfold TwoFloat.sqrt
      have e0 : f64lit 0x0000000000000000 = f64lit 0 := rfl
      rw [e0, c1, c2, c3, c4]
      rfl
    rw [e]
    decide +kernel
  · exact sqrt_tiny hv hw ((hv.hi_pos_iff F64.roundFacts).2 hpos) hhi

/-- **`TwoFloat / 2.0` for ANY valid positive pair**: a valid non-negative pair within `1 + 2^-100·s` units of `s/2` -/
theorem div_two_small {s : TwoFloat} (hs : VW s) (hpos : 0 < s.V) :
    VW (arithmetic.impl_Div_rf64_for_rTwoFloat.div s (f64lit 0x4000000000000000)) ∧
    0 ≤ (arithmetic.impl_Div_rf64_for_rTwoFloat.div s (f64lit 0x4000000000000000)).V ∧
    2 ^ 100 * |2 * (arithmetic.impl_Div_rf64_for_rTwoFloat.div s (f64lit 0x4000000000000000)).V - s.V|
      ≤ 2 ^ 101 + s.V := by
  by_cases hsm : |s.hi.toInt| < 2 ^ 52 * 2 ^ 1
  · obtain ⟨hV, hb⟩ := Exp2Bound.div_pow2_tiny_int hs.1 hs.2 Exp2Bound.two_isVal (le_refl 1) (by norm_num) hsm
    refine ⟨⟨hV, div_tf_WF _ _⟩, ?_⟩
    generalize (arithmetic.impl_Div_rf64_for_rTwoFloat.div s (f64lit 0x4000000000000000)).V = r at *
    rw [pow_one] at hb
    have h1 := abs_lt.1 hb
    constructor
    · omega
    · have e : 2 * r - s.V = r * 2 - s.V := by ring
      rw [e]
      have : |r * 2 - s.V| ≤ 2 := hb.le
      have : (2 : ℤ) ^ 100 * |r * 2 - s.V| ≤ 2 ^ 100 * 2 := mul_le_mul_of_nonneg_left this (by positivity)
      have e2 : (2 : ℤ) ^ 101 = 2 ^ 100 * 2 := by norm_num
      omega
  · have hl : 2 ^ 52 * 2 ^ 1 ≤ s.hi.toInt.natAbs := by
      have h := not_lt.1 hsm
      rw [← Int.natCast_natAbs] at h
      exact_mod_cast h
    obtain ⟨hV, L, hL1, hL2⟩ := Exp2Bound.div_pow2_int hs.1 hs.2 Exp2Bound.two_isVal (le_refl 1)
      (Exp2Bound.dvd_hi_of_large hs.2 hl)
    refine ⟨⟨hV, div_tf_WF _ _⟩, ?_⟩
    generalize (arithmetic.impl_Div_rf64_for_rTwoFloat.div s (f64lit 0x4000000000000000)).V = r at *
    have hlo := two_pow_mul_abs_le_of_half_ulp hs.1.two_mul_abs_lo_le
    obtain ⟨b1, -⟩ := PowiBound.hi_bounds hs.1
    have hB : (2 : ℤ) ^ 53 ≤ |s.hi.toInt| := by
      have := not_lt.1 hsm
      norm_num at this ⊢
      exact this
    rw [abs_of_pos hpos] at b1
    rw [pow_one] at hL1 hL2
    have hVdef : s.V = s.hi.toInt + s.lo.toInt := rfl
    have t1 := neg_abs_le (L * 2 - s.lo.toInt)
    have t2 := le_abs_self (L * 2 - s.lo.toInt)
    have a0 := abs_nonneg s.lo.toInt
    have e : 2 * r - s.V = L * 2 - s.lo.toInt := by rw [hVdef]; linarith
    rw [e]
    generalize |L * 2 - s.lo.toInt| = T at *
    generalize |s.lo.toInt| = A at *
    generalize |s.hi.toInt| = B at *
    norm_num at hL2 hlo b1 hB ⊢
    constructor <;> omega

/-- **`2.0 * a` is exact** (no overflow): the pair `(2·hi, 2·lo)` -/
theorem two_mul_exact {a : TwoFloat} (ha : VW a) (hov : a.hi.toInt.natAbs * 2 ^ 1 ≤ maxFin) :
    VW (arithmetic.impl_Mul_rTwoFloat_for_rf64.mul (f64lit 0x4000000000000000) a) ∧
    (arithmetic.impl_Mul_rTwoFloat_for_rf64.mul (f64lit 0x4000000000000000) a).V = 2 * a.V := by
  have e : arithmetic.impl_Mul_rTwoFloat_for_rf64.mul (f64lit 0x4000000000000000) a
      = arithmetic.impl_Mul_rf64_for_rTwoFloat.mul a (f64lit 0x4000000000000000) := rfl
  rw [e]
  obtain ⟨hH, hL, hc⟩ := mul_up_data ha.1 ha.2 (vf := 2 ^ 1 * (unit : ℤ)) (σ := 1) (m := 1) (Or.inl rfl)
    (by ring) hov
  have h := mul_tf_isV_fixed (IsV.of_valid ha.1) Exp2Bound.two_isVal hH hL hc
  obtain ⟨-, -, hV, hval, hwf⟩ := h.package (mul_tf_WF _ _) hc.2.2.2.2
  refine ⟨⟨hval, hwf⟩, ?_⟩
  rw [hV]
  have : a.V = a.hi.toInt + a.lo.toInt := rfl
  rw [this]; ring

end Slivers
