/-
Lemmas.Log1pBound — analysis behind `Properties/C15n.lean` (`log2` with the property's floor on the full range, `ln_1p`).

 §0  `log2_floor_arith(W)`: the assembled Newton bound of `Log2Bound.log2_bound_of` is below `2^-101·|ℓ| + 2^-92`.
 §1–5 THE SEED `Libm.log1p` (hand port of libm 0.2.16, `Prelude/Libm.lean`), in the style of `Lemmas/LnSeed.lean`:
      `G_approx37` (the exactly evaluated kernel is within `2^-37` of `k·log 2 + log(1+f)` — `LnSeed.G_approx` with the actual
      coefficient gaps `|Lg_j − 2/(2j+1)|`), `tailBody`/`tailBody_coarse` (the body `Libm.log1p.tail` with the correction term
      `c`, rounding errors `160·2^-40`), `corr_hi`/`corr_lo` (`|c| ≤ 2^-33` for `1 + x ≥ 2^-16`), `bigBody`/`big_coarse`
      (`u = fl(1+x)`, bit-level reduction = `Libm.reduce`, so `LnSeed.reduce_spec` applies), `direct_coarse`/`direct_small`
      (the branch `f = x`; for `|x| ≤ 2^-20` a RELATIVE bound `2^-18·|x|`), `log1p_unfold`, `hiw_lt_iff` (the high word of
      the bit pattern is monotone in the magnitude), and
        `libm_log1p_coarse`: for every finite double `−1 + 2^-16 ≤ h ≤ 2^999`:
            `|Libm.log1p h − log(1+h)| ≤ 2^-32`, and `≤ 2^-18·|h|` when `|h| ≤ 2^-20`.
 §6  one Newton step of `ln_1p` over `ℝ` (`newton_t`, `newton_q`, `newton_real`): with `e = x − ln(1+v)`,
        `|x' − ln(1+v)| ≤ (1+3u²)·(e² + κ + θ·(|e| + e² + κ) + q) + 3u²·|ln(1+v)|`,  `κ = dM·G·(1+2^-18)`,
      `dM` the relative accuracy of `exp_m1(x)`, `G ≥ |e^x − 1|/e^x`, `θ` the relative and `q` the absolute error of the division.
 §7  `div_any`: `TwoFloat / TwoFloat` with ANY numerator (tiny or zero): `16u²` relative when numerator and quotient are at
      least `2^-950` (`Exp2Bound.div_rv`), otherwise `2^-37` relative `+ 2^-1017` (`C13c.div_tt_valid_any_numerator`).
 §8  `ln1p_step`: the step on pairs, every intermediate a valid pair (in particular the quotient — panic-freedom).
 §9  `exp2_bound_wide`: `Exp2Bound.exp2_bound_main` on `[−961, 1001]` instead of `[−900, 1000]` (`5640u²`).
 §10 `log2_stepW`, `log2_bound_ofW`: `Log2Bound.log2_step`/`log2_bound_of` for high words in `[2^-1000, 2^960]`.
-/
import TFV.Lemmas.Log2Bound
import TFV.Lemmas.Log2Seed
import TFV.Lemmas.Exp2Bound
import TFV.Properties.C13c

set_option exponentiation.threshold 4000

namespace Log1pBound

open ConstBounds ExpBound LnBound

/-- arithmetic behind the `log2` floor: the assembled Newton bound `0.7·(0.7·(η₀ + 2^-50)² + D)² + D` with
`η₀ = 2^-24`, `D = 1.4431·5633u² + 11u² + 4u²·|ℓ|`, `|ℓ| ≤ 1001`, is at most `2^-101·|ℓ| + 2^-92` -/
theorem log2_floor_arith {ℓ : ℝ} (hℓabs : |ℓ| ≤ 1001) :
    7 / 10 * (7 / 10 * ((1 : ℝ) / 2 ^ 24 + 1 / 2 ^ 50) ^ 2 + (14431 / 10000 * (5633 / 2 ^ 106) + 11 / 2 ^ 106
          + 4 / 2 ^ 106 * |ℓ|)) ^ 2
        + (14431 / 10000 * (5633 / 2 ^ 106) + 11 / 2 ^ 106 + 4 / 2 ^ 106 * |ℓ|)
      ≤ 1 / 2 ^ 101 * |ℓ| + 1 / 2 ^ 92 := by
  have hLa := abs_nonneg ℓ
  set D := (14431 : ℝ) / 10000 * (5633 / 2 ^ 106) + 11 / 2 ^ 106 + 4 / 2 ^ 106 * |ℓ| with hD
  have hD0 : 0 ≤ D := by positivity
  have hDs : D ≤ 12200 / 2 ^ 106 := by
    have h2 : (4 : ℝ) / 2 ^ 106 * |ℓ| ≤ 4 / 2 ^ 106 * 1001 := mul_le_mul_of_nonneg_left hℓabs (by positivity)
    have : (14431 : ℝ) / 10000 * (5633 / 2 ^ 106) + 11 / 2 ^ 106 + 4 / 2 ^ 106 * 1001 ≤ 12200 / 2 ^ 106 := by norm_num
    linarith
  have hT : 7 / 10 * ((1 : ℝ) / 2 ^ 24 + 1 / 2 ^ 50) ^ 2 + D ≤ 1 / 2 ^ 48 := by
    have : 7 / 10 * ((1 : ℝ) / 2 ^ 24 + 1 / 2 ^ 50) ^ 2 + 12200 / 2 ^ 106 ≤ 1 / 2 ^ 48 := by norm_num
    linarith
  have hT0 : 0 ≤ 7 / 10 * ((1 : ℝ) / 2 ^ 24 + 1 / 2 ^ 50) ^ 2 + D := by positivity
  have hsq : (7 / 10 * ((1 : ℝ) / 2 ^ 24 + 1 / 2 ^ 50) ^ 2 + D) ^ 2 ≤ (1 / 2 ^ 48) ^ 2 :=
    pow_le_pow_left₀ hT0 hT 2
  have e1 : (7 : ℝ) / 10 * (1 / 2 ^ 48) ^ 2 ≤ 717 / 2 ^ 106 := by norm_num
  have e2 : (14431 : ℝ) / 10000 * (5633 / 2 ^ 106) + 11 / 2 ^ 106 + 717 / 2 ^ 106 ≤ 1 / 2 ^ 92 := by norm_num
  have e3 : (4 : ℝ) / 2 ^ 106 * |ℓ| ≤ 1 / 2 ^ 101 * |ℓ| := mul_le_mul_of_nonneg_right (by norm_num) hLa
  rw [hD] at hsq ⊢
  linarith


/-- arithmetic behind the `log2` floor, with the `exp2` accuracy `5640u²` of the wider range: the assembled Newton bound `0.7·(0.7·(η₀ + 2^-50)² + D)² + D` with
`η₀ = 2^-24`, `D = 1.4431·5640u² + 11u² + 4u²·|ℓ|`, `|ℓ| ≤ 1001`, is at most `2^-101·|ℓ| + 2^-92` -/
theorem log2_floor_arithW {ℓ : ℝ} (hℓabs : |ℓ| ≤ 1001) :
    7 / 10 * (7 / 10 * ((1 : ℝ) / 2 ^ 24 + 1 / 2 ^ 50) ^ 2 + (14431 / 10000 * (5640 / 2 ^ 106) + 11 / 2 ^ 106
          + 4 / 2 ^ 106 * |ℓ|)) ^ 2
        + (14431 / 10000 * (5640 / 2 ^ 106) + 11 / 2 ^ 106 + 4 / 2 ^ 106 * |ℓ|)
      ≤ 1 / 2 ^ 101 * |ℓ| + 1 / 2 ^ 92 := by
  have hLa := abs_nonneg ℓ
  set D := (14431 : ℝ) / 10000 * (5640 / 2 ^ 106) + 11 / 2 ^ 106 + 4 / 2 ^ 106 * |ℓ| with hD
  have hD0 : 0 ≤ D := by positivity
  have hDs : D ≤ 12200 / 2 ^ 106 := by
    have h2 : (4 : ℝ) / 2 ^ 106 * |ℓ| ≤ 4 / 2 ^ 106 * 1001 := mul_le_mul_of_nonneg_left hℓabs (by positivity)
    have : (14431 : ℝ) / 10000 * (5640 / 2 ^ 106) + 11 / 2 ^ 106 + 4 / 2 ^ 106 * 1001 ≤ 12200 / 2 ^ 106 := by norm_num
    linarith
  have hT : 7 / 10 * ((1 : ℝ) / 2 ^ 24 + 1 / 2 ^ 50) ^ 2 + D ≤ 1 / 2 ^ 48 := by
    have : 7 / 10 * ((1 : ℝ) / 2 ^ 24 + 1 / 2 ^ 50) ^ 2 + 12200 / 2 ^ 106 ≤ 1 / 2 ^ 48 := by norm_num
    linarith
  have hT0 : 0 ≤ 7 / 10 * ((1 : ℝ) / 2 ^ 24 + 1 / 2 ^ 50) ^ 2 + D := by positivity
  have hsq : (7 / 10 * ((1 : ℝ) / 2 ^ 24 + 1 / 2 ^ 50) ^ 2 + D) ^ 2 ≤ (1 / 2 ^ 48) ^ 2 :=
    pow_le_pow_left₀ hT0 hT 2
  have e1 : (7 : ℝ) / 10 * (1 / 2 ^ 48) ^ 2 ≤ 717 / 2 ^ 106 := by norm_num
  have e2 : (14431 : ℝ) / 10000 * (5640 / 2 ^ 106) + 11 / 2 ^ 106 + 717 / 2 ^ 106 ≤ 1 / 2 ^ 92 := by norm_num
  have e3 : (4 : ℝ) / 2 ^ 106 * |ℓ| ≤ 1 / 2 ^ 101 * |ℓ| := mul_le_mul_of_nonneg_right (by norm_num) hLa
  rw [hD] at hsq ⊢
  linarith


/-! ## 1. the exactly evaluated kernel against `k·log 2 + log (1 + f)`, sharper than `LnSeed.G_approx` -/

section seed
open F64 LnSeed

attribute [local irreducible] F64.pack

/-- the polynomial of the port against the truncated series, for `0 ≤ z ≤ 9/256`, with the actual coefficient gaps -/
theorem poly_diff37 {z : ℝ} (hz0 : 0 ≤ z) (hz : z ≤ 9 / 256) :
    |T2 z (z * z) + T1 (z * z) - Q z| ≤ 1 / 2 ^ 37 := by
  have e : T2 z (z * z) + T1 (z * z) - Q z
      = z * ((fv Libm.LG1 - 2 / 3) + z * ((fv Libm.LG2 - 2 / 5) + z * ((fv Libm.LG3 - 2 / 7)
          + z * ((fv Libm.LG4 - 2 / 9) + z * ((fv Libm.LG5 - 2 / 11) + z * ((fv Libm.LG6 - 2 / 13)
          + z * (fv Libm.LG7 - 2 / 15))))))) := by
    unfold T1 T2 Q; ring
  rw [e]
  have d1 : |fv Libm.LG1 - 2 / 3| ≤ 1 / 2 ^ 47 := by rw [fv_LG1, abs_le]; constructor <;> norm_num
  have d2 : |fv Libm.LG2 - 2 / 5| ≤ 1 / 2 ^ 37 := by rw [fv_LG2, abs_le]; constructor <;> norm_num
  have d3 : |fv Libm.LG3 - 2 / 7| ≤ 1 / 2 ^ 29 := by rw [fv_LG3, abs_le]; constructor <;> norm_num
  have d4 : |fv Libm.LG4 - 2 / 9| ≤ 1 / 2 ^ 22 := by rw [fv_LG4, abs_le]; constructor <;> norm_num
  have d5 : |fv Libm.LG5 - 2 / 11| ≤ 1 / 2 ^ 15 := by rw [fv_LG5, abs_le]; constructor <;> norm_num
  have d6 : |fv Libm.LG6 - 2 / 13| ≤ 1 / 2 ^ 10 := by rw [fv_LG6, abs_le]; constructor <;> norm_num
  have d7 : |fv Libm.LG7 - 2 / 15| ≤ 1 / 2 ^ 6 := by rw [fv_LG7, abs_le]; constructor <;> norm_num
  have s6 := horner_step d6 d7 hz0 hz
  have s5 := horner_step d5 s6 hz0 hz
  have s4 := horner_step d4 s5 hz0 hz
  have s3 := horner_step d3 s4 hz0 hz
  have s2 := horner_step d2 s3 hz0 hz
  have s1 := horner_step d1 s2 hz0 hz
  rw [abs_mul, abs_of_nonneg hz0]
  refine le_trans (mul_le_mul hz s1 (abs_nonneg _) (by norm_num)) ?_
  norm_num

/-- **the exactly evaluated body is within `2^-37` of `k·log 2 + log (1 + f)`** -/
theorem G_approx37 {k f : ℝ} (hk : |k| ≤ 1100) (hf1 : -2929 / 10000 ≤ f) (hf2 : f ≤ 41422 / 100000) :
    |G k f - (k * Real.log 2 + Real.log (1 + f))| ≤ 1 / 2 ^ 37 := by
  have hd : 0 < 2 + f := by linarith
  obtain ⟨s, hsdef⟩ : ∃ s : ℝ, s = f / (2 + f) := ⟨_, rfl⟩
  have hs1 : s ≤ 3 / 16 := by rw [hsdef, div_le_iff₀ hd]; linarith
  have hs2 : -(3 / 16) ≤ s := by rw [hsdef, le_div_iff₀ hd]; linarith
  have hs : |s| ≤ 3 / 16 := abs_le.2 ⟨hs2, hs1⟩
  have hz0 : 0 ≤ s * s := mul_self_nonneg s
  have hz : s * s ≤ 9 / 256 := by
    have := abs_le.1 hs; nlinarith
  have hG : G k f = 2 * s + s * (T2 (s * s) (s * s * (s * s)) + T1 (s * s * (s * s)))
      + (k * fv Libm.LN2_LO + k * fv Libm.LN2_HI) := by
    unfold G; rw [body_alg _ _ _ _ hd.ne', ← hsdef]
  have hlog : Real.log (1 + f) = Real.log (1 + s) - Real.log (1 - s) := by
    have p1 : 0 < 1 + s := by linarith
    have p2 : 0 < 1 - s := by linarith
    rw [← Real.log_div p1.ne' p2.ne']
    congr 1
    rw [hsdef]; field_simp; ring
  have c1 := log_series hs
  have c2 := poly_diff37 hz0 hz
  have c3 := ln2_sum_close
  have e : G k f - (k * Real.log 2 + Real.log (1 + f))
      = s * (T2 (s * s) (s * s * (s * s)) + T1 (s * s * (s * s)) - Q (s * s))
        - (Real.log (1 + s) - Real.log (1 - s) - (2 * s + s * Q (s * s)))
        + k * (fv Libm.LN2_HI + fv Libm.LN2_LO - Real.log 2) := by
    rw [hG, hlog]; ring
  rw [e]
  have t1 : |s * (T2 (s * s) (s * s * (s * s)) + T1 (s * s * (s * s)) - Q (s * s))|
      ≤ 3 / 16 * (1 / 2 ^ 37) := by
    rw [abs_mul]; exact mul_le_mul hs c2 (abs_nonneg _) (by norm_num)
  have t3 : |k * (fv Libm.LN2_HI + fv Libm.LN2_LO - Real.log 2)| ≤ 1100 * (1 / 2 ^ 60) := by
    rw [abs_mul]; exact mul_le_mul hk c3 (abs_nonneg _) (by norm_num)
  refine le_trans (abs_add_le _ _) (le_trans (add_le_add (abs_sub _ _) le_rfl) ?_)
  have n : (3 : ℝ) / 16 * (1 / 2 ^ 37) + 2 / 2 ^ 40 + 1100 * (1 / 2 ^ 60) ≤ 1 / 2 ^ 37 := by norm_num
  linarith

/-! ## 2. the body of `Libm.log1p.tail` -/

open Libm in
/-- the floating-point body of `Libm.log1p.tail` -/
def tailBody (k : ℤ) (c f : F64) : F64 :=
  let hfsq := F64.mul (F64.mul chalf f) f
  let s := F64.div f (F64.add c2 f)
  let z := F64.mul s s
  let w := F64.mul z z
  let t1 := F64.mul w (F64.add LG2 (F64.mul w (F64.add LG4 (F64.mul w LG6))))
  let t2 := F64.mul z (F64.add LG1 (F64.mul w (F64.add LG3 (F64.mul w (F64.add LG5 (F64.mul w LG7))))))
  let r := F64.add t2 t1
  let dk := F64.ofInt k
  F64.add (F64.add (F64.sub (F64.add (F64.mul s (F64.add hfsq r)) (F64.add (F64.mul dk LN2_LO) c)) hfsq) f)
    (F64.mul dk LN2_HI)

theorem tail_eq (k : ℤ) (c f : F64) : Libm.log1p.tail k c f = tailBody k c f := rfl

theorem tail1p_ap {S HF R Fv DK C : F64} {s h r f k : ℝ} (hS : Ap S s (3 / 2 ^ 40) (1 / 2))
    (hH : Ap HF h (3 / 2 ^ 40) (1 / 8)) (hR : Ap R r (25 / 2 ^ 40) 1)
    (hF : Ap Fv f (1 / 2 ^ 40) (1 / 2)) (hK : Ap DK k 0 1100) (hC : Ap C 0 (128 / 2 ^ 40) 0) :
    Ap (F64.add (F64.add (F64.sub (F64.add (F64.mul S (F64.add HF R)) (F64.add (F64.mul DK Libm.LN2_LO) C)) HF) Fv)
        (F64.mul DK Libm.LN2_HI))
      (((s * (h + r) + k * fv Libm.LN2_LO) - h + f) + k * fv Libm.LN2_HI) (160 / 2 ^ 40) 774 := by
  have a1 := hH.add hR (δ := 29 / 2 ^ 40) (C := 9 / 8) (by norm_num) (by norm_num) (by norm_num)
  have a2 := hS.mul a1 (δ := 20 / 2 ^ 40) (C := 9 / 16) (by norm_num) (by norm_num) (by norm_num)
  have a3 := hK.mul apLN2LO (δ := 1 / 2 ^ 40) (C := 1) (by norm_num) (by norm_num) (by norm_num)
  have a3' := (a3.add hC (δ := 130 / 2 ^ 40) (C := 1) (by norm_num) (by norm_num) (by norm_num)).congr
    (add_zero _)
  have a4 := a2.add a3' (δ := 151 / 2 ^ 40) (C := 2) (by norm_num) (by norm_num) (by norm_num)
  have a5 := a4.sub hH (δ := 155 / 2 ^ 40) (C := 3) (by norm_num) (by norm_num) (by norm_num)
  have a6 := a5.add hF (δ := 157 / 2 ^ 40) (C := 4) (by norm_num) (by norm_num) (by norm_num)
  have a7 := hK.mul apLN2HI (δ := 1 / 2 ^ 40) (C := 770) (by norm_num) (by norm_num) (by norm_num)
  exact a6.add a7 (by norm_num) (by norm_num) (by norm_num)

/-- **rounding errors of `tail`**: reduced argument `F ≈ f ∈ [−0.2929, 0.41422]`, correction `|C| ≤ 2^-33` -/
theorem tailBody_ap {k : ℤ} {F C : F64} {f : ℝ} (hF : Ap F f (1 / 2 ^ 40) (1 / 2)) (hf : -3 / 10 ≤ f)
    (hk : |k| ≤ 1100) (hC : Ap C 0 (128 / 2 ^ 40) 0) :
    Ap (tailBody k C F) (G (k : ℝ) f) (160 / 2 ^ 40) 774 := by
  obtain ⟨hH, hS⟩ := kernel_ap hF hf
  obtain ⟨hZ, hW⟩ := zw_ap hS
  have hR := (t2_ap hZ hW).add (t1_ap hW) (δ := 25 / 2 ^ 40) (C := 1) (by norm_num) (by norm_num)
    (by norm_num)
  exact tail1p_ap hS hH hR hF (ofInt_ap hk) hC

/-- **`tail`, coarse accuracy `2^-32`** -/
theorem tailBody_coarse {k : ℤ} {F C : F64} {f : ℝ} (hF : Ap F f (1 / 2 ^ 40) (1 / 2))
    (hf1 : -2929 / 10000 ≤ f) (hf2 : f ≤ 41422 / 100000)
    (hk : |k| ≤ 1100) (hC : Ap C 0 (128 / 2 ^ 40) 0) :
    (tailBody k C F).is_finite = true ∧
      |fv (tailBody k C F) - ((k : ℝ) * Real.log 2 + Real.log (1 + f))| ≤ 168 / 2 ^ 40 := by
  obtain ⟨hf, he, _⟩ := tailBody_ap hF (by linarith) hk hC
  refine ⟨hf, ?_⟩
  have hk' : |(k : ℝ)| ≤ 1100 := by exact_mod_cast hk
  have hg := G_approx37 (k := (k : ℝ)) (f := f) hk' hf1 hf2
  have e : fv (tailBody k C F) - ((k : ℝ) * Real.log 2 + Real.log (1 + f))
      = (fv (tailBody k C F) - G (k : ℝ) f) + (G (k : ℝ) f - ((k : ℝ) * Real.log 2 + Real.log (1 + f))) := by ring
  rw [e]
  refine le_trans (abs_add_le _ _) ?_
  have n : (160 : ℝ) / 2 ^ 40 + 1 / 2 ^ 37 ≤ 168 / 2 ^ 40 := by norm_num
  linarith


/-! ## 3. the correction term `c` and the branch `big` -/

theorem rel_le {r v M : ℝ} (h : |r - v| ≤ |v| / 2 ^ 53) (hM : |v| ≤ M) : |r| ≤ M * (1 + 1 / 2 ^ 53) := by
  have h1 := abs_sub_abs_le_abs_sub r v
  have h2 : |v| / 2 ^ 53 ≤ M / 2 ^ 53 := div_le_div_of_nonneg_right hM (by positivity)
  have e : M * (1 + 1 / 2 ^ 53) = M + M / 2 ^ 53 := by ring
  rw [e]; linarith

/-- `u = fl(1 + x)` -/
theorem u_spec {x : F64} (hx : x.is_finite = true) (h1 : 1 / 2 ^ 16 ≤ 1 + fv x) (h2 : fv x ≤ 2 ^ 999) :
    (F64.add Libm.c1 x).is_finite = true ∧ |fv (F64.add Libm.c1 x) - (1 + fv x)| ≤ (1 + fv x) / 2 ^ 53 := by
  have ha : 0 < 1 + fv x := lt_of_lt_of_le (by positivity) h1
  have hb : |fv Libm.c1 + fv x| ≤ 2 ^ 1000 := by
    rw [fv_c1, abs_of_pos ha]
    have : (1 : ℝ) ≤ 2 ^ 999 := one_le_pow₀ (by norm_num)
    have e : (2 : ℝ) ^ 1000 = 2 ^ 999 + 2 ^ 999 := by rw [pow_succ]; ring
    linarith
  obtain ⟨hf, he⟩ := add_fv (x := Libm.c1) rfl hx hb
  rw [fv_c1, abs_of_pos ha] at he
  exact ⟨hf, he⟩

/-- the correction for `k ≥ 2`: `c = fl(fl(1 − fl(u − x))/u)`, `1 + x ≥ 2` -/
theorem corr_hi {x : F64} (hx : x.is_finite = true) (h1 : 2 ≤ 1 + fv x) (h2 : 1 + fv x ≤ 2 ^ 60) :
    Ap (F64.div (F64.sub Libm.c1 (F64.sub (F64.add Libm.c1 x) x)) (F64.add Libm.c1 x)) 0 (128 / 2 ^ 40) 0 := by
  have h60 : (2 : ℝ) ^ 60 ≤ 2 ^ 999 := pow_le_pow_right₀ (by norm_num) (by norm_num)
  have h1000 : (2 : ℝ) ^ 61 ≤ 2 ^ 1000 := pow_le_pow_right₀ (by norm_num) (by norm_num)
  have h61 : (2 : ℝ) ^ 61 = 2 * 2 ^ 60 := by rw [pow_succ]; ring
  obtain ⟨uf, ue⟩ := u_spec hx (by linarith [show (1 : ℝ) / 2 ^ 16 ≤ 2 by norm_num]) (by linarith)
  set a := 1 + fv x with ha
  set U := fv (F64.add Libm.c1 x) with hU
  obtain ⟨u1, u2⟩ := abs_le.1 ue
  have hε : a / 2 ^ 53 ≤ a * (1 / 2 ^ 53) := by rw [mul_one_div]
  have hUlo : a * (1 - 1 / 2 ^ 53) ≤ U := by linarith
  have hUhi : U ≤ a * (1 + 1 / 2 ^ 53) := by linarith
  have hUpos : 0 < U := lt_of_lt_of_le (by nlinarith) hUlo
  -- d1 = fl(u − x)
  have hUX : |U - fv x - 1| ≤ a / 2 ^ 53 := by
    have : U - fv x - 1 = U - a := by rw [ha]; ring
    rw [this]; exact ue
  have hUXabs : |U - fv x| ≤ 1 + a / 2 ^ 53 := by
    have := abs_sub_abs_le_abs_sub (U - fv x) 1
    rw [abs_one] at this; linarith
  have ha53 : a / 2 ^ 53 ≤ 2 ^ 7 := by
    rw [div_le_iff₀ (by positivity)]
    calc a ≤ 2 ^ 60 := h2
      _ = 2 ^ 7 * 2 ^ 53 := by norm_num
  obtain ⟨d1f, d1e⟩ := sub_fv uf hx (le_trans hUXabs (by linarith [show (1 : ℝ) + 2 ^ 7 ≤ 2 ^ 61 by norm_num]))
  rw [← hU] at d1e
  set D1 := fv (F64.sub (F64.add Libm.c1 x) x) with hD1def
  have hD1 : |1 - D1| ≤ a / 2 ^ 53 + (1 + a / 2 ^ 53) / 2 ^ 53 := by
    have e : 1 - D1 = -((D1 - (U - fv x)) + (U - fv x - 1)) := by ring
    rw [e, abs_neg]
    refine le_trans (abs_add_le _ _) ?_
    have : |U - fv x| / 2 ^ 53 ≤ (1 + a / 2 ^ 53) / 2 ^ 53 := div_le_div_of_nonneg_right hUXabs (by positivity)
    linarith
  have hD1' : |1 - D1| ≤ a * (1 / 2 ^ 52) := by
    refine le_trans hD1 ?_
    have e : a * (1 / 2 ^ 52) - (a / 2 ^ 53 + (1 + a / 2 ^ 53) / 2 ^ 53)
        = (a * (1 - 1 / 2 ^ 53) - 1) / 2 ^ 53 := by
      field_simp; ring
    have : 0 ≤ (a * (1 - 1 / 2 ^ 53) - 1) / 2 ^ 53 := by
      apply div_nonneg _ (by positivity)
      nlinarith
    linarith
  -- d2 = fl(1 − d1)
  obtain ⟨d2f, d2e⟩ := sub_fv (x := Libm.c1) rfl d1f (by
    rw [fv_c1, ← hD1def]
    refine le_trans hD1' ?_
    calc a * (1 / 2 ^ 52) ≤ 2 ^ 60 * 1 := mul_le_mul h2 (by norm_num) (by positivity) (by positivity)
      _ ≤ 2 ^ 1000 := by linarith)
  rw [fv_c1, ← hD1def] at d2e
  have hD2 := rel_le d2e hD1'
  set D2 := fv (F64.sub Libm.c1 (F64.sub (F64.add Libm.c1 x) x)) with hD2def
  -- c = fl(d2/u)
  have hD2U : |D2| ≤ 1 / 2 ^ 51 * U := by
    refine le_trans hD2 ?_
    have : a * (1 / 2 ^ 52) * (1 + 1 / 2 ^ 53) ≤ 1 / 2 ^ 51 * (a * (1 - 1 / 2 ^ 53)) := by
      have e : 1 / 2 ^ 51 * (a * (1 - 1 / 2 ^ 53)) - a * (1 / 2 ^ 52) * (1 + 1 / 2 ^ 53)
          = a * (1 / 2 ^ 52 - 3 / 2 ^ 105) := by ring
      have : 0 ≤ a * ((1 : ℝ) / 2 ^ 52 - 3 / 2 ^ 105) := mul_nonneg (by linarith) (by norm_num)
      linarith
    have h3 : (1 : ℝ) / 2 ^ 51 * (a * (1 - 1 / 2 ^ 53)) ≤ 1 / 2 ^ 51 * U :=
      mul_le_mul_of_nonneg_left hUlo (by positivity)
    linarith
  obtain ⟨cf, ce⟩ := div_fv d2f uf hUpos.ne' (by
    rw [← hD2def, ← hU, abs_of_pos hUpos]
    refine le_trans hD2U ?_
    have : (1 : ℝ) / 2 ^ 51 ≤ 2 ^ 1000 := le_trans (by norm_num) (one_le_pow₀ (by norm_num))
    exact mul_le_mul_of_nonneg_right this hUpos.le)
  rw [← hD2def, ← hU] at ce
  have hq : |D2 / U| ≤ 1 / 2 ^ 51 := by
    rw [abs_div, abs_of_pos hUpos, div_le_iff₀ hUpos]; exact hD2U
  refine ⟨cf, ?_, by simp⟩
  rw [sub_zero]
  have h3 := abs_sub_abs_le_abs_sub (fv (F64.div (F64.sub Libm.c1 (F64.sub (F64.add Libm.c1 x) x))
    (F64.add Libm.c1 x))) (D2 / U)
  have h4 : |D2 / U| / 2 ^ 53 ≤ 1 / 2 ^ 51 / 2 ^ 53 := div_le_div_of_nonneg_right hq (by positivity)
  have h5 := tiny_le
  have h6 : (1 : ℝ) / 2 ^ 51 / 2 ^ 53 + 1 / 2 ^ 41 + 1 / 2 ^ 51 ≤ 128 / 2 ^ 40 := by norm_num
  linarith


/-- the correction for `k ≤ 1`: `c = fl(fl(x − fl(u − 1))/u)`, `2^-16 ≤ 1 + x ≤ 3` -/
theorem corr_lo {x : F64} (hx : x.is_finite = true) (h1 : 1 / 2 ^ 16 ≤ 1 + fv x) (h2 : 1 + fv x ≤ 3) :
    Ap (F64.div (F64.sub x (F64.sub (F64.add Libm.c1 x) Libm.c1)) (F64.add Libm.c1 x)) 0 (128 / 2 ^ 40) 0 := by
  have h999 : (3 : ℝ) ≤ 2 ^ 999 := le_trans (by norm_num) (pow_le_pow_right₀ (by norm_num : (1 : ℝ) ≤ 2) (by norm_num : 2 ≤ 999))
  have h1000 : (8 : ℝ) ≤ 2 ^ 1000 := le_trans (by norm_num) (pow_le_pow_right₀ (by norm_num : (1 : ℝ) ≤ 2) (by norm_num : 3 ≤ 1000))
  obtain ⟨uf, ue⟩ := u_spec hx h1 (by linarith)
  set a := 1 + fv x with ha
  set U := fv (F64.add Libm.c1 x) with hU
  have ha0 : 0 < a := lt_of_lt_of_le (by positivity) h1
  obtain ⟨u1, u2⟩ := abs_le.1 ue
  have hUlo : a * (1 - 1 / 2 ^ 53) ≤ U := by linarith [mul_one_div a ((2 : ℝ) ^ 53)]
  have hUhi : U ≤ 4 := by
    have : a / 2 ^ 53 ≤ 1 := by rw [div_le_iff₀ (by positivity)]; linarith [show (3 : ℝ) ≤ 1 * 2 ^ 53 by norm_num]
    linarith
  have hUpos : 0 < U := lt_of_lt_of_le (mul_pos ha0 (by norm_num)) hUlo
  have hU1 : |U - 1| ≤ 5 := by rw [abs_le]; constructor <;> linarith
  -- d1 = fl(u − 1)
  obtain ⟨d1f, d1e⟩ := sub_fv (y := Libm.c1) uf rfl (by rw [fv_c1, ← hU]; linarith)
  rw [fv_c1, ← hU] at d1e
  set D1 := fv (F64.sub (F64.add Libm.c1 x) Libm.c1) with hD1def
  have hXD1 : |fv x - D1| ≤ 1 / 2 ^ 50 := by
    have e : fv x - D1 = -((U - a) + (D1 - (U - 1))) := by rw [ha]; ring
    rw [e, abs_neg]
    refine le_trans (abs_add_le _ _) ?_
    have t1 : a / 2 ^ 53 ≤ 3 / 2 ^ 53 := div_le_div_of_nonneg_right h2 (by positivity)
    have t2 : |U - 1| / 2 ^ 53 ≤ 5 / 2 ^ 53 := div_le_div_of_nonneg_right hU1 (by positivity)
    have t3 : (3 : ℝ) / 2 ^ 53 + 5 / 2 ^ 53 = 1 / 2 ^ 50 := by norm_num
    linarith
  -- d2 = fl(x − d1)
  obtain ⟨d2f, d2e⟩ := sub_fv hx d1f (by
    rw [← hD1def]
    exact le_trans hXD1 (le_trans (by norm_num) h1000))
  rw [← hD1def] at d2e
  have hD2 := rel_le d2e hXD1
  set D2 := fv (F64.sub x (F64.sub (F64.add Libm.c1 x) Libm.c1)) with hD2def
  have hD2U : |D2| ≤ 3 / 4 / 2 ^ 33 * U := by
    refine le_trans hD2 ?_
    have h3 : (3 : ℝ) / 4 / 2 ^ 33 * (1 / 2 ^ 16 * (1 - 1 / 2 ^ 53)) ≤ 3 / 4 / 2 ^ 33 * U :=
      mul_le_mul_of_nonneg_left (le_trans (mul_le_mul_of_nonneg_right h1 (by norm_num)) hUlo)
        (by positivity : (0 : ℝ) ≤ 3 / 4 / 2 ^ 33)
    have h4 : (1 : ℝ) / 2 ^ 50 * (1 + 1 / 2 ^ 53) ≤ 3 / 4 / 2 ^ 33 * (1 / 2 ^ 16 * (1 - 1 / 2 ^ 53)) := by norm_num
    linarith
  obtain ⟨cf, ce⟩ := div_fv d2f uf hUpos.ne' (by
    rw [← hD2def, ← hU, abs_of_pos hUpos]
    refine le_trans hD2U ?_
    have : (3 : ℝ) / 4 / 2 ^ 33 ≤ 2 ^ 1000 := le_trans (by norm_num) (one_le_pow₀ (by norm_num))
    exact mul_le_mul_of_nonneg_right this hUpos.le)
  rw [← hD2def, ← hU] at ce
  have hq : |D2 / U| ≤ 3 / 4 / 2 ^ 33 := by
    rw [abs_div, abs_of_pos hUpos, div_le_iff₀ hUpos]; exact hD2U
  refine ⟨cf, ?_, by simp⟩
  rw [sub_zero]
  have h3 := abs_sub_abs_le_abs_sub (fv (F64.div (F64.sub x (F64.sub (F64.add Libm.c1 x) Libm.c1))
    (F64.add Libm.c1 x))) (D2 / U)
  have h4 : |D2 / U| / 2 ^ 53 ≤ 3 / 4 / 2 ^ 33 / 2 ^ 53 := div_le_div_of_nonneg_right hq (by positivity)
  have h5 := tiny_le
  have h6 : (3 : ℝ) / 4 / 2 ^ 33 / 2 ^ 53 + 1 / 2 ^ 41 + 3 / 4 / 2 ^ 33 ≤ 128 / 2 ^ 40 := by norm_num
  linarith


/-- `log` of two nearby positive numbers -/
theorem log_near {U a ε : ℝ} (ha : 0 < a) (hε0 : 0 ≤ ε) (hε : ε ≤ 1 / 2) (h : |U - a| ≤ ε * a) :
    |Real.log U - Real.log a| ≤ 2 * ε := by
  obtain ⟨h1, h2⟩ := abs_le.1 h
  have hU : 0 < U := by nlinarith
  have ht : 0 < U / a := div_pos hU ha
  rw [← Real.log_div hU.ne' ha.ne']
  have u1 := Real.log_le_sub_one_of_pos ht
  have u2 := Real.one_sub_inv_le_log_of_pos ht
  rw [inv_div] at u2
  have e1 : U / a - 1 ≤ ε := by rw [sub_le_iff_le_add, div_le_iff₀ ha]; linarith
  have e2 : -(2 * ε) ≤ 1 - a / U := by
    rw [neg_le, neg_sub, sub_le_iff_le_add, div_le_iff₀ hU]
    nlinarith
  rw [abs_le]; constructor <;> linarith

open Libm in
/-- the branch `big` of `Libm.log1p`, with the argument reduction written as `Libm.reduce` -/
def bigBody (x : F64) : F64 :=
  let u := F64.add c1 x
  let r := Libm.reduce u.to_bits_nat
  let c := if r.1 < 54 then F64.div (if r.1 ≥ 2 then F64.sub c1 (F64.sub u x) else F64.sub x (F64.sub u c1)) u else c0
  tailBody r.1 c (F64.sub r.2 c1)

theorem big_eq (x : F64) : Libm.log1p.big x = bigBody x := rfl

theorem fin_pos_normal {sg : Bool} {N : ℕ} (h : 1 / 2 ^ 17 ≤ fv (fin sg N)) : sg = false ∧ 2 ^ 52 ≤ N := by
  have hU : (0 : ℝ) < 2 ^ 1074 := by positivity
  have hpos : (0 : ℝ) < fv (fin sg N) := lt_of_lt_of_le (by positivity) h
  cases sg
  · refine ⟨rfl, ?_⟩
    rw [fv_fin_nat, le_div_iff₀ hU] at h
    have e : (1 : ℝ) / 2 ^ 17 * 2 ^ 1074 = 2 ^ 1057 := by
      rw [show (1074 : ℕ) = 17 + 1057 from rfl, pow_add]; field_simp
    rw [e] at h
    have h' : 2 ^ 1057 ≤ N := by exact_mod_cast h
    exact le_trans (Nat.pow_le_pow_right (by norm_num) (by norm_num)) h'
  · exfalso
    have : fv (fin true N) ≤ 0 := by
      unfold fv
      apply div_nonpos_of_nonpos_of_nonneg _ hU.le
      show ((-(N : ℤ) : ℤ) : ℝ) ≤ 0
      push_cast
      have : (0 : ℝ) ≤ N := Nat.cast_nonneg N
      linarith
    linarith

/-- **the branch `big`: `|big(x) − log(1 + x)| ≤ 2^-32`** for `−1 + 2^-16 ≤ x ≤ 2^999` -/
theorem big_coarse {x : F64} (hx : x.is_finite = true) (h1 : 1 / 2 ^ 16 ≤ 1 + fv x) (h2 : fv x ≤ 2 ^ 999) :
    (bigBody x).is_finite = true ∧ |fv (bigBody x) - Real.log (1 + fv x)| ≤ 1 / 2 ^ 32 := by
  obtain ⟨uf, ue⟩ := u_spec hx h1 h2
  have uw : (F64.add Libm.c1 x).WF := add_WF _ _
  have ha0 : 0 < 1 + fv x := lt_of_lt_of_le (by positivity) h1
  obtain ⟨u1, u2⟩ := abs_le.1 ue
  have hUlo : (1 + fv x) * (1 - 1 / 2 ^ 53) ≤ fv (F64.add Libm.c1 x) := by
    linarith [mul_one_div (1 + fv x) ((2 : ℝ) ^ 53)]
  have hUhi : fv (F64.add Libm.c1 x) ≤ (1 + fv x) * (1 + 1 / 2 ^ 53) := by
    linarith [mul_one_div (1 + fv x) ((2 : ℝ) ^ 53)]
  have hU17 : 1 / 2 ^ 17 ≤ fv (F64.add Libm.c1 x) := by
    have : (1 : ℝ) / 2 ^ 17 ≤ 1 / 2 ^ 16 * (1 - 1 / 2 ^ 53) := by norm_num
    have h3 : (1 : ℝ) / 2 ^ 16 * (1 - 1 / 2 ^ 53) ≤ (1 + fv x) * (1 - 1 / 2 ^ 53) :=
      mul_le_mul_of_nonneg_right h1 (by norm_num)
    linarith
  obtain ⟨sg, N, hN⟩ := is_finite_iff.mp uf
  rw [hN] at hU17 uw
  obtain ⟨rfl, hN52⟩ := fin_pos_normal hU17
  obtain ⟨q, s, rfl, hq, hq', hs⟩ := F64.Bits.wf_normal_decomp hN52 uw.1 uw.2
  have hbits : (F64.add Libm.c1 x).to_bits_nat = (s + 1) * 2 ^ 52 + (q - 2 ^ 52) := by
    rw [hN, F64.Bits.to_bits_nat_normal false hq hq']
    simp only [Bool.false_eq_true, if_false, Nat.zero_add]
  obtain ⟨k, m, hr, hmf, hk1, hk2, hm1, hm2, hval⟩ := reduce_spec hq hq' hs
  rw [← hN] at hval
  unfold bigBody
  dsimp only
  rw [hbits, hr]
  dsimp only
  have hmpos : 0 < fv m := by linarith
  have h2k : (0 : ℝ) < 2 ^ k := zpow_pos (by norm_num) k
  -- the correction term
  have hC : Ap (if k < 54 then F64.div (if k ≥ 2 then F64.sub Libm.c1 (F64.sub (F64.add Libm.c1 x) x)
      else F64.sub x (F64.sub (F64.add Libm.c1 x) Libm.c1)) (F64.add Libm.c1 x) else Libm.c0) 0 (128 / 2 ^ 40) 0 := by
    by_cases hk54 : k < 54
    · rw [if_pos hk54]
      by_cases hk2 : k ≥ 2
      · rw [if_pos hk2]
        -- U = 2^k·m ≥ 4·0.7071, U ≤ 2^53·1.41422
        have hklo : (4 : ℝ) ≤ 2 ^ k := by
          have : (2 : ℝ) ^ (2 : ℤ) ≤ 2 ^ k := zpow_le_zpow_right₀ (by norm_num) hk2
          norm_num at this; exact this
        have hkhi : (2 : ℝ) ^ k ≤ 2 ^ 53 := by
          have : (2 : ℝ) ^ k ≤ 2 ^ (53 : ℤ) := zpow_le_zpow_right₀ (by norm_num) (by omega)
          exact_mod_cast this
        apply corr_hi hx
        · -- 2 ≤ 1 + x
          have : (4 : ℝ) * (7071 / 10000) ≤ 2 ^ k * fv m := mul_le_mul hklo hm1 (by norm_num) h2k.le
          have h53 : (1 + fv x) / 2 ^ 53 ≤ (1 + fv x) / 4 := by
            apply div_le_div_of_nonneg_left ha0.le (by norm_num) (by norm_num)
          linarith
        · have : (2 : ℝ) ^ k * fv m ≤ 2 ^ 53 * (141422 / 100000) := mul_le_mul hkhi hm2 hmpos.le (by positivity)
          have e : (2 : ℝ) ^ 60 = 2 ^ 53 * 128 := by norm_num
          have h53 : (1 + fv x) / 2 ^ 53 ≤ (1 + fv x) / 4 := by
            apply div_le_div_of_nonneg_left ha0.le (by norm_num) (by norm_num)
          linarith
      · rw [if_neg hk2]
        have hkhi : (2 : ℝ) ^ k ≤ 2 := by
          have : (2 : ℝ) ^ k ≤ 2 ^ (1 : ℤ) := zpow_le_zpow_right₀ (by norm_num) (by omega)
          simpa using this
        apply corr_lo hx h1
        have : (2 : ℝ) ^ k * fv m ≤ 2 * (141422 / 100000) := mul_le_mul hkhi hm2 hmpos.le (by norm_num)
        have h53 : (1 + fv x) / 2 ^ 53 ≤ (1 + fv x) / 100 := by
          apply div_le_div_of_nonneg_left ha0.le (by norm_num) (by norm_num)
        linarith
    · rw [if_neg hk54]
      exact ⟨rfl, by rw [show fv Libm.c0 = 0 by unfold fv; rw [c0_toInt]; simp]; norm_num, by simp⟩
  have hF := f_ap hmf hm1 hm2
  obtain ⟨rf, re⟩ := tailBody_coarse (k := k) hF (by linarith) (by linarith) (by rw [abs_le]; constructor <;> omega) hC
  refine ⟨rf, ?_⟩
  rw [show (1 : ℝ) + (fv m - 1) = fv m by ring] at re
  have hlogU : Real.log (fv (F64.add Libm.c1 x)) = (k : ℝ) * Real.log 2 + Real.log (fv m) := by
    rw [hval, Real.log_mul (zpow_ne_zero _ two_ne_zero) hmpos.ne', Real.log_zpow]
  rw [← hlogU] at re
  have hnear := log_near (U := fv (F64.add Libm.c1 x)) ha0 (ε := 1 / 2 ^ 53) (by positivity) (by norm_num)
    (by rw [one_div_mul_eq_div]; exact ue)
  have e : fv (tailBody k (if k < 54 then F64.div (if k ≥ 2 then F64.sub Libm.c1 (F64.sub (F64.add Libm.c1 x) x)
      else F64.sub x (F64.sub (F64.add Libm.c1 x) Libm.c1)) (F64.add Libm.c1 x) else Libm.c0) (F64.sub m Libm.c1))
      - Real.log (1 + fv x)
      = (fv (tailBody k (if k < 54 then F64.div (if k ≥ 2 then F64.sub Libm.c1 (F64.sub (F64.add Libm.c1 x) x)
      else F64.sub x (F64.sub (F64.add Libm.c1 x) Libm.c1)) (F64.add Libm.c1 x) else Libm.c0) (F64.sub m Libm.c1))
        - Real.log (fv (F64.add Libm.c1 x)))
        + (Real.log (fv (F64.add Libm.c1 x)) - Real.log (1 + fv x)) := by ring
  rw [e]
  refine le_trans (abs_add_le _ _) ?_
  have n : (168 : ℝ) / 2 ^ 40 + 2 * (1 / 2 ^ 53) ≤ 1 / 2 ^ 32 := by norm_num
  linarith


/-! ## 4. the branch `tail 0 c0 x` (`f = x`): absolute bound, and a relative bound for small `|x|` -/

theorem ap_self {x : F64} (hx : x.is_finite = true) (h : |fv x| ≤ 1 / 2) : Ap x (fv x) (1 / 2 ^ 40) (1 / 2) :=
  ⟨hx, by rw [sub_self, abs_zero]; positivity, h⟩

theorem ap_c0 : Ap Libm.c0 0 (128 / 2 ^ 40) 0 :=
  ⟨rfl, by rw [show fv Libm.c0 = 0 by unfold fv; rw [c0_toInt]; simp]; norm_num, by simp⟩

/-- **`tail 0 c0 x`: `|·− log(1 + x)| ≤ 168·2^-40`** for `−0.2929 ≤ x ≤ 0.41422` -/
theorem direct_coarse {x : F64} (hx : x.is_finite = true) (h1 : -2929 / 10000 ≤ fv x) (h2 : fv x ≤ 41422 / 100000) :
    (tailBody 0 Libm.c0 x).is_finite = true ∧ |fv (tailBody 0 Libm.c0 x) - Real.log (1 + fv x)| ≤ 168 / 2 ^ 40 := by
  obtain ⟨rf, re⟩ := tailBody_coarse (k := 0) (ap_self hx (by rw [abs_le]; constructor <;> linarith)) h1 h2
    (by norm_num) ap_c0
  refine ⟨rf, ?_⟩
  rwa [Int.cast_zero, zero_mul, zero_add] at re

theorem mul_mag {x y : F64} {A B : ℝ} (hx : x.is_finite = true) (hy : y.is_finite = true)
    (hA : |fv x| ≤ A) (hB : |fv y| ≤ B) (hAB : A * B ≤ 4096) :
    (F64.mul x y).is_finite = true ∧ |fv (F64.mul x y)| ≤ A * B * (1 + 1 / 2 ^ 53) + 1 / 2 ^ 1075 := by
  have hA0 : 0 ≤ A := le_trans (abs_nonneg _) hA
  have hp : |fv x * fv y| ≤ A * B := by
    rw [abs_mul]; exact mul_le_mul hA hB (abs_nonneg _) hA0
  obtain ⟨hf, he⟩ := mul_fv hx hy (le_trans hp (le_trans hAB big_le))
  refine ⟨hf, ?_⟩
  have h1 := abs_sub_abs_le_abs_sub (fv (F64.mul x y)) (fv x * fv y)
  have h2 : |fv x * fv y| / 2 ^ 53 ≤ A * B / 2 ^ 53 := div_le_div_of_nonneg_right hp (by positivity)
  have e : A * B * (1 + 1 / 2 ^ 53) = A * B + A * B / 2 ^ 53 := by ring
  rw [e]; linarith

theorem add_mag {x y : F64} {A B : ℝ} (hx : x.is_finite = true) (hy : y.is_finite = true)
    (hA : |fv x| ≤ A) (hB : |fv y| ≤ B) (hAB : A + B ≤ 4096) :
    (F64.add x y).is_finite = true ∧ |fv (F64.add x y)| ≤ (A + B) * (1 + 1 / 2 ^ 53) ∧
    |fv (F64.add x y) - (fv x + fv y)| ≤ (A + B) / 2 ^ 53 := by
  have hp : |fv x + fv y| ≤ A + B := le_trans (abs_add_le _ _) (by linarith)
  obtain ⟨hf, he⟩ := add_fv hx hy (le_trans hp (le_trans hAB big_le))
  have h2 : |fv x + fv y| / 2 ^ 53 ≤ (A + B) / 2 ^ 53 := div_le_div_of_nonneg_right hp (by positivity)
  refine ⟨hf, ?_, le_trans he h2⟩
  have h1 := abs_sub_abs_le_abs_sub (fv (F64.add x y)) (fv x + fv y)
  have e : (A + B) * (1 + 1 / 2 ^ 53) = (A + B) + (A + B) / 2 ^ 53 := by ring
  rw [e]; linarith

theorem sub_mag {x y : F64} {A B : ℝ} (hx : x.is_finite = true) (hy : y.is_finite = true)
    (hA : |fv x| ≤ A) (hB : |fv y| ≤ B) (hAB : A + B ≤ 4096) :
    (F64.sub x y).is_finite = true ∧ |fv (F64.sub x y)| ≤ (A + B) * (1 + 1 / 2 ^ 53) := by
  have hp : |fv x - fv y| ≤ A + B := le_trans (abs_sub _ _) (by linarith)
  obtain ⟨hf, he⟩ := sub_fv hx hy (le_trans hp (le_trans hAB big_le))
  refine ⟨hf, ?_⟩
  have h1 := abs_sub_abs_le_abs_sub (fv (F64.sub x y)) (fv x - fv y)
  have h2 : |fv x - fv y| / 2 ^ 53 ≤ (A + B) / 2 ^ 53 := div_le_div_of_nonneg_right hp (by positivity)
  have e : (A + B) * (1 + 1 / 2 ^ 53) = (A + B) + (A + B) / 2 ^ 53 := by ring
  rw [e]; linarith

theorem ap_abs_le {x : F64} {r δ B : ℝ} (h : Ap x r δ B) : |fv x| ≤ |r| + δ := by
  have := abs_sub_abs_le_abs_sub (fv x) r
  linarith [h.2.1]

theorem zero_terms : F64.add (F64.mul (F64.ofInt 0) Libm.LN2_LO) Libm.c0 = fin false 0 ∧
    F64.mul (F64.ofInt 0) Libm.LN2_HI = fin false 0 := by decide +kernel

theorem fv_zero : fv (fin false 0) = 0 := by unfold fv; simp [toInt]

/-- `log(1 + X) = X + O(X²)` -/
theorem log1p_lin {X : ℝ} (h : |X| ≤ 1 / 2) : |Real.log (1 + X) - X| ≤ 2 * X ^ 2 := by
  have hlt : |-X| < 1 := by rw [abs_neg]; linarith
  have h1 := Real.abs_log_sub_add_sum_range_le hlt 1
  simp only [Finset.sum_range_one, zero_add, pow_one, Nat.cast_zero, div_one, sub_neg_eq_add, abs_neg] at h1
  rw [show -X + Real.log (1 + X) = Real.log (1 + X) - X by ring] at h1
  refine le_trans h1 ?_
  rw [div_le_iff₀ (by linarith)]
  have : |X| ^ 2 = X ^ 2 := sq_abs X
  rw [this]
  nlinarith [sq_nonneg X]

/-- the tiny absolute rounding term against `a²`, `a ≥ 2^-54` -/
theorem tiny_sq {a : ℝ} (hlo : 1 / 2 ^ 54 ≤ a) : (1 : ℝ) / 2 ^ 1075 ≤ 1 / 2 ^ 900 * (a * a) ∧
    (1 : ℝ) / 2 ^ 1075 ≤ 1 / 2 ^ 900 * a := by
  have ha0 : 0 < a := lt_of_lt_of_le (by positivity) hlo
  have h2 : (1 : ℝ) / 2 ^ 1075 ≤ 1 / 2 ^ 900 * (1 / 2 ^ 54 * (1 / 2 ^ 54)) := by
    rw [show (1 : ℝ) / 2 ^ 900 * (1 / 2 ^ 54 * (1 / 2 ^ 54)) = 1 / 2 ^ 1008 by
      rw [one_div_mul_one_div, one_div_mul_one_div, ← pow_add, ← pow_add]]
    exact one_div_le_one_div_of_le (by positivity) (pow_le_pow_right₀ (by norm_num) (by norm_num))
  have h1 : (1 : ℝ) / 2 ^ 54 * (1 / 2 ^ 54) ≤ a * a := mul_le_mul hlo hlo (by positivity) ha0.le
  have h3 := mul_le_mul_of_nonneg_left h1 (by positivity : (0 : ℝ) ≤ 1 / 2 ^ 900)
  have h4 : (1 : ℝ) / 2 ^ 54 * (1 / 2 ^ 54) ≤ 1 * a :=
    mul_le_mul (by norm_num) hlo (by positivity) (by norm_num)
  have h5 := mul_le_mul_of_nonneg_left h4 (by positivity : (0 : ℝ) ≤ 1 / 2 ^ 900)
  constructor <;> linarith

/-- sizes of `hfsq` and `s` for small `x` -/
theorem small_mags {x : F64} (hx : x.is_finite = true) (hlo : 1 / 2 ^ 54 ≤ |fv x|) (hhi : |fv x| ≤ 1 / 2 ^ 20) :
    (F64.mul (F64.mul Libm.chalf x) x).is_finite = true ∧
    |fv (F64.mul (F64.mul Libm.chalf x) x)| ≤ 52 / 100 * (|fv x| * |fv x|) ∧
    (F64.div x (F64.add Libm.c2 x)).is_finite = true ∧
    |fv (F64.div x (F64.add Libm.c2 x))| ≤ 53 / 100 * |fv x| := by
  obtain ⟨t2, t1⟩ := tiny_sq hlo
  set a := |fv x| with ha
  have ha0 : 0 < a := lt_of_lt_of_le (by positivity) hlo
  have hb0 : 0 < a * a := mul_pos ha0 ha0
  obtain ⟨m1f, m1⟩ := mul_mag (x := Libm.chalf) (y := x) (A := 1 / 2) (B := a) rfl hx
    (by rw [fv_chalf]; norm_num [abs_le]) le_rfl (by linarith)
  have m1' : |fv (F64.mul Libm.chalf x)| ≤ 51 / 100 * a := by
    have e : 1 / 2 * a * (1 + 1 / 2 ^ 53) = (1 / 2 * (1 + 1 / 2 ^ 53)) * a := by ring
    have n : (1 : ℝ) / 2 * (1 + 1 / 2 ^ 53) + 1 / 2 ^ 900 ≤ 51 / 100 := by
      norm_num
    have := mul_le_mul_of_nonneg_right n ha0.le
    rw [e] at m1; linarith
  have hprod : 51 / 100 * a * a ≤ 4096 := by
    have : a * a ≤ 1 * 1 := mul_le_mul (by linarith) (by linarith) ha0.le (by norm_num)
    linarith
  obtain ⟨hff, hm⟩ := mul_mag m1f hx m1' (le_refl a) hprod
  have hH' : |fv (F64.mul (F64.mul Libm.chalf x) x)| ≤ 52 / 100 * (a * a) := by
    have e : 51 / 100 * a * a * (1 + 1 / 2 ^ 53) = (51 / 100 * (1 + 1 / 2 ^ 53)) * (a * a) := by ring
    have n : (51 : ℝ) / 100 * (1 + 1 / 2 ^ 53) + 1 / 2 ^ 900 ≤ 52 / 100 := by
      norm_num
    have := mul_le_mul_of_nonneg_right n hb0.le
    rw [e] at hm; linarith
  obtain ⟨df, -, de⟩ := add_mag (x := Libm.c2) (y := x) (A := 2) (B := a) rfl hx (by rw [fv_c2]; norm_num) le_rfl
    (by linarith)
  rw [fv_c2] at de
  obtain ⟨x1, x2⟩ := abs_le.1 hhi
  have hD : 19 / 10 ≤ fv (F64.add Libm.c2 x) := by
    have := (abs_le.1 de).1
    have e : (2 + a) / 2 ^ 53 ≤ 1 / 100 := by rw [div_le_iff₀ (by positivity)]; norm_num; linarith
    linarith
  have hD0 : 0 < fv (F64.add Libm.c2 x) := by linarith
  obtain ⟨sf, se⟩ := div_fv hx df hD0.ne' (by
    rw [abs_of_pos hD0, ← ha]
    have h1 : (1 : ℝ) ≤ 2 ^ 1000 := one_le_pow₀ (by norm_num)
    have h2 : (1 : ℝ) * 1 ≤ 2 ^ 1000 * fv (F64.add Libm.c2 x) := mul_le_mul h1 (by linarith) (by norm_num) (by positivity)
    linarith)
  have hq : |fv x / fv (F64.add Libm.c2 x)| ≤ 10 / 19 * a := by
    rw [abs_div, abs_of_pos hD0, div_le_iff₀ hD0, ← ha]
    have : 10 / 19 * a * (19 / 10) ≤ 10 / 19 * a * fv (F64.add Libm.c2 x) :=
      mul_le_mul_of_nonneg_left hD (by positivity)
    linarith
  refine ⟨hff, hH', sf, ?_⟩
  have h1 := abs_sub_abs_le_abs_sub (fv (F64.div x (F64.add Libm.c2 x))) (fv x / fv (F64.add Libm.c2 x))
  have h2 : |fv x / fv (F64.add Libm.c2 x)| / 2 ^ 53 ≤ 10 / 19 * a / 2 ^ 53 := div_le_div_of_nonneg_right hq (by positivity)
  have h3 : (1 : ℝ) / 2 ^ 900 ≤ 1 / 2 ^ 10 :=
    one_div_le_one_div_of_le (by positivity) (pow_le_pow_right₀ (by norm_num) (by norm_num))
  have h4 : (1 : ℝ) / 2 ^ 900 * a ≤ 1 / 2 ^ 10 * a := mul_le_mul_of_nonneg_right h3 ha0.le
  have e : 10 / 19 * a / 2 ^ 53 = (10 / 19 / 2 ^ 53) * a := by ring
  have n : (10 : ℝ) / 19 / 2 ^ 53 ≤ 1 / 1000 := by norm_num
  have h5 := mul_le_mul_of_nonneg_right n ha0.le
  rw [e] at h2
  norm_num at h4 h5 h2 ⊢
  linarith

open Libm in
/-- the polynomial part `R = t2 + t1` of the kernel as a function of `s` -/
def Rpoly (S : F64) : F64 :=
  F64.add
    (F64.mul (F64.mul S S) (F64.add LG1 (F64.mul (F64.mul (F64.mul S S) (F64.mul S S))
      (F64.add LG3 (F64.mul (F64.mul (F64.mul S S) (F64.mul S S))
        (F64.add LG5 (F64.mul (F64.mul (F64.mul S S) (F64.mul S S)) LG7)))))))
    (F64.mul (F64.mul (F64.mul S S) (F64.mul S S)) (F64.add LG2 (F64.mul (F64.mul (F64.mul S S) (F64.mul S S))
      (F64.add LG4 (F64.mul (F64.mul (F64.mul S S) (F64.mul S S)) LG6)))))

/-- size of the polynomial part `R` for small `x` -/
theorem small_R {x : F64} (hx : x.is_finite = true) (hhi : |fv x| ≤ 1 / 2 ^ 20) :
    ∃ r : ℝ, Ap (Rpoly (F64.div x (F64.add Libm.c2 x))) r (25 / 2 ^ 40) 1 ∧ |r| ≤ 8 / 2 ^ 40 := by
  have hX12 : |fv x| ≤ 1 / 2 := le_trans hhi (by norm_num)
  obtain ⟨x1, x2⟩ := abs_le.1 hhi
  have hF := ap_self hx hX12
  obtain ⟨hH, hS⟩ := kernel_ap hF (by linarith)
  obtain ⟨hZ, hW⟩ := zw_ap hS
  have hR := (t2_ap hZ hW).add (t1_ap hW) (δ := 25 / 2 ^ 40) (C := 1) (by norm_num) (by norm_num)
    (by norm_num)
  refine ⟨_, hR, ?_⟩
  clear hR hZ hW hS hH hF
  have hsabs : |fv x / (2 + fv x)| ≤ 1 / 2 ^ 20 := by
    rw [abs_div, abs_of_pos (by linarith : (0 : ℝ) < 2 + fv x), div_le_iff₀ (by linarith)]
    have : (1 : ℝ) / 2 ^ 20 * 1 ≤ 1 / 2 ^ 20 * (2 + fv x) := mul_le_mul_of_nonneg_left (by linarith) (by positivity)
    linarith
  generalize fv x / (2 + fv x) = sr at *
  have hz : sr * sr ≤ 1 / 2 ^ 40 := by
    have h := mul_le_mul hsabs hsabs (abs_nonneg _) (by positivity)
    rw [← abs_mul, abs_mul_self] at h
    refine le_trans h (by norm_num)
  have hz0 : 0 ≤ sr * sr := mul_self_nonneg sr
  have hw0 : 0 ≤ sr * sr * (sr * sr) := mul_nonneg hz0 hz0
  have hwz : sr * sr * (sr * sr) ≤ 1 / 2 ^ 40 := by
    have := mul_le_mul hz hz hz0 (by positivity)
    refine le_trans this (by norm_num)
  have l1 := apLG1.2.2; have l2 := apLG2.2.2; have l3 := apLG3.2.2; have l4 := apLG4.2.2
  have l5 := apLG5.2.2; have l6 := apLG6.2.2; have l7 := apLG7.2.2
  have s7 := horner_step l5 l7 hw0 hwz
  have s3 := horner_step l3 s7 hw0 hwz
  have s1 := horner_step l1 s3 hw0 hwz
  have u4 := horner_step l4 l6 hw0 hwz
  have u2 := horner_step l2 u4 hw0 hwz
  unfold T1 T2
  refine le_trans (abs_add_le _ _) ?_
  rw [abs_mul (sr * sr) _, abs_mul (sr * sr * (sr * sr)) _, abs_of_nonneg hz0, abs_of_nonneg hw0]
  have p1 := mul_le_mul hz s1 (abs_nonneg _) (by norm_num)
  have p2 := mul_le_mul hwz u2 (abs_nonneg _) (by norm_num)
  have n : (1 : ℝ) / 2 ^ 40 * (1 + 1 / 2 ^ 40 * (1 + 1 / 2 ^ 40 * (1 + 1 / 2 ^ 40 * 1)))
      + 1 / 2 ^ 40 * (1 + 1 / 2 ^ 40 * (1 + 1 / 2 ^ 40 * 1)) ≤ 8 / 2 ^ 40 := by norm_num
  linarith

/-- the last operations of `tail 0 c0 x`, with the intermediate values abstract -/
theorem small_final {x S HF R : F64} {a : ℝ} (hx : x.is_finite = true) (ha : a = |fv x|)
    (hlo : 1 / 2 ^ 54 ≤ a) (hhi : a ≤ 1 / 2 ^ 20)
    (hff : HF.is_finite = true) (hH' : |fv HF| ≤ 52 / 100 * (a * a))
    (sf : S.is_finite = true) (hS' : |fv S| ≤ 53 / 100 * a)
    (rf : R.is_finite = true) (hRabs : |fv R| ≤ 33 / 2 ^ 40) :
    (F64.add (F64.add (F64.sub (F64.add (F64.mul S (F64.add HF R)) (fin false 0)) HF) x) (fin false 0)).is_finite = true ∧
    |fv (F64.add (F64.add (F64.sub (F64.add (F64.mul S (F64.add HF R)) (fin false 0)) HF) x) (fin false 0))
      - Real.log (1 + fv x)| ≤ a / 2 ^ 18 := by
  obtain ⟨t2, t1⟩ := tiny_sq hlo
  have ha0 : 0 < a := lt_of_lt_of_le (by positivity) hlo
  have hb0 : 0 < a * a := mul_pos ha0 ha0
  have hb1 : a * a ≤ 1 / 2 ^ 20 * a := mul_le_mul_of_nonneg_right hhi ha0.le
  have hbb : a * a ≤ 1 / 2 ^ 40 := by
    have := mul_le_mul hhi hhi ha0.le (by positivity)
    refine le_trans this (by norm_num)
  have h900 : (1 : ℝ) / 2 ^ 900 ≤ 1 / 2 ^ 100 :=
    one_div_le_one_div_of_le (by positivity) (pow_le_pow_right₀ (by norm_num) (by norm_num))
  have t1' : (1 : ℝ) / 2 ^ 1075 ≤ 1 / 2 ^ 100 * a := le_trans t1 (mul_le_mul_of_nonneg_right h900 ha0.le)
  have hHabs : |fv HF| ≤ 1 / 2 ^ 40 := by linarith
  obtain ⟨hrf, hr, -⟩ := add_mag hff rf hHabs hRabs (by norm_num)
  have hr' : |fv (F64.add HF R)| ≤ 35 / 2 ^ 40 := le_trans hr (by norm_num)
  obtain ⟨pf, hp⟩ := mul_mag sf hrf hS' hr' (by
    have : 53 / 100 * a * (35 / 2 ^ 40) = (53 / 100 * (35 / 2 ^ 40)) * a := by ring
    rw [this]
    have : (53 / 100 * (35 / 2 ^ 40)) * a ≤ 1 * 1 := mul_le_mul (by norm_num) (by linarith) ha0.le (by norm_num)
    linarith)
  have hp' : |fv (F64.mul S (F64.add HF R))| ≤ 1 / 2 ^ 35 * a := by
    have e : 53 / 100 * a * (35 / 2 ^ 40) * (1 + 1 / 2 ^ 53) = (53 / 100 * (35 / 2 ^ 40) * (1 + 1 / 2 ^ 53)) * a := by ring
    have n : (53 : ℝ) / 100 * (35 / 2 ^ 40) * (1 + 1 / 2 ^ 53) + 1 / 2 ^ 100 ≤ 1 / 2 ^ 35 := by norm_num
    have := mul_le_mul_of_nonneg_right n ha0.le
    rw [e] at hp
    linarith
  obtain ⟨p0f, hp0, -⟩ := add_mag (y := fin false 0) pf rfl hp' (by rw [fv_zero, abs_zero]) (by linarith)
  rw [add_zero] at hp0
  obtain ⟨a5f, ha5⟩ := sub_mag p0f hff hp0 hH' (by linarith)
  have ha5' : |fv (F64.sub (F64.add (F64.mul S (F64.add HF R)) (fin false 0)) HF)| ≤ 1 / 2 ^ 34 * a + 53 / 100 * (a * a) := by
    refine le_trans ha5 ?_
    have e : (1 / 2 ^ 35 * a * (1 + 1 / 2 ^ 53) + 52 / 100 * (a * a)) * (1 + 1 / 2 ^ 53)
        = (1 / 2 ^ 35 * (1 + 1 / 2 ^ 53) * (1 + 1 / 2 ^ 53)) * a + (52 / 100 * (1 + 1 / 2 ^ 53)) * (a * a) := by ring
    rw [e]
    have n1 : (1 : ℝ) / 2 ^ 35 * (1 + 1 / 2 ^ 53) * (1 + 1 / 2 ^ 53) ≤ 1 / 2 ^ 34 := by norm_num
    have n2 : (52 : ℝ) / 100 * (1 + 1 / 2 ^ 53) ≤ 53 / 100 := by norm_num
    have m1 := mul_le_mul_of_nonneg_right n1 ha0.le
    have m2 := mul_le_mul_of_nonneg_right n2 hb0.le
    linarith
  have ha5'' : |fv (F64.sub (F64.add (F64.mul S (F64.add HF R)) (fin false 0)) HF)| ≤ 1 / 2 ^ 20 * a := by
    refine le_trans ha5' ?_
    have : (1 : ℝ) / 2 ^ 34 * a ≤ 1 / 2 ^ 21 * a := mul_le_mul_of_nonneg_right (by norm_num) ha0.le
    have e : (1 : ℝ) / 2 ^ 20 * a = 1 / 2 ^ 21 * a + 1 / 2 * (1 / 2 ^ 20 * a) := by ring
    linarith
  have hxa : |fv x| ≤ a := le_of_eq ha.symm
  obtain ⟨a6f, ha6, ha6e⟩ := add_mag a5f hx ha5'' hxa (by linarith)
  obtain ⟨a7f, -, ha7e⟩ := add_mag (y := fin false 0) a6f rfl ha6 (by rw [fv_zero, abs_zero]) (by linarith)
  rw [fv_zero, add_zero, add_zero] at ha7e
  refine ⟨a7f, ?_⟩
  have hlin := log1p_lin (X := fv x) (by rw [← ha]; linarith)
  rw [← sq_abs, ← ha, sq] at hlin
  generalize fv (F64.sub (F64.add (F64.mul S (F64.add HF R)) (fin false 0)) HF) = A5 at *
  generalize fv (F64.add (F64.sub (F64.add (F64.mul S (F64.add HF R)) (fin false 0)) HF) x) = A6 at *
  generalize fv (F64.add (F64.add (F64.sub (F64.add (F64.mul S (F64.add HF R)) (fin false 0)) HF) x) (fin false 0)) = A7 at *
  have e : A7 - Real.log (1 + fv x) = (A7 - A6) + (A6 - (A5 + fv x)) + A5 - (Real.log (1 + fv x) - fv x) := by ring
  rw [e]
  have t1 := abs_sub ((A7 - A6) + (A6 - (A5 + fv x)) + A5) (Real.log (1 + fv x) - fv x)
  have t2 := abs_add_le ((A7 - A6) + (A6 - (A5 + fv x))) A5
  have t3 := abs_add_le (A7 - A6) (A6 - (A5 + fv x))
  have n1 : (1 / 2 ^ 20 * a + a) * (1 + 1 / 2 ^ 53) / 2 ^ 53 ≤ 1 / 2 ^ 52 * a := by
    have e : (1 / 2 ^ 20 * a + a) * (1 + 1 / 2 ^ 53) / 2 ^ 53 = ((1 / 2 ^ 20 + 1) * (1 + 1 / 2 ^ 53) / 2 ^ 53) * a := by ring
    rw [e]; exact mul_le_mul_of_nonneg_right (by norm_num) ha0.le
  have n2 : (1 / 2 ^ 20 * a + a) / 2 ^ 53 ≤ 1 / 2 ^ 52 * a := by
    have e : (1 / 2 ^ 20 * a + a) / 2 ^ 53 = ((1 / 2 ^ 20 + 1) / 2 ^ 53) * a := by ring
    rw [e]; exact mul_le_mul_of_nonneg_right (by norm_num) ha0.le
  have n4 : a / 2 ^ 18 = (1 / 2 ^ 34 + 1 / 2 ^ 52 + 1 / 2 ^ 52) * a + (1 / 2 ^ 18 - 1 / 2 ^ 34 - 1 / 2 ^ 51) * a := by ring
  have n5 : (253 : ℝ) / 100 * (1 / 2 ^ 20 * a) ≤ (1 / 2 ^ 18 - 1 / 2 ^ 34 - 1 / 2 ^ 51) * a := by
    rw [← mul_assoc]; exact mul_le_mul_of_nonneg_right (by norm_num) ha0.le
  rw [n4]
  linarith

/-- **`tail 0 c0 x` for small `x`**: relative accuracy `2^-18` for `2^-54 ≤ |x| ≤ 2^-20` -/
theorem direct_small {x : F64} (hx : x.is_finite = true) (hlo : 1 / 2 ^ 54 ≤ |fv x|) (hhi : |fv x| ≤ 1 / 2 ^ 20) :
    (tailBody 0 Libm.c0 x).is_finite = true ∧
      |fv (tailBody 0 Libm.c0 x) - Real.log (1 + fv x)| ≤ |fv x| / 2 ^ 18 := by
  obtain ⟨hff, hH', sf, hS'⟩ := small_mags hx hlo hhi
  obtain ⟨r, hR, hr⟩ := small_R hx hhi
  have hRabs := le_trans (ap_abs_le hR) (by linarith [hr] : _ ≤ (33 : ℝ) / 2 ^ 40)
  have rf := hR.1
  clear hR
  unfold tailBody
  dsimp only
  rw [zero_terms.1, zero_terms.2]
  exact small_final (R := Rpoly (F64.div x (F64.add Libm.c2 x))) hx rfl hlo hhi hff hH' sf hS' rf hRabs


/-! ## 5. the dispatch of `Libm.log1p` on the bit pattern -/

theorem log1p_unfold (x : F64) : Libm.log1p x =
    if x.to_bits_nat / 2 ^ 32 < 0x3fda827a ∨ x.to_bits_nat / 2 ^ 32 / 2 ^ 31 > 0 then
      if x.to_bits_nat / 2 ^ 32 ≥ 0xbff00000 then
        if F64.eq x Libm.cm1 then F64.div x Libm.c0 else F64.div (F64.sub x x) Libm.c0
      else if (x.to_bits_nat / 2 ^ 32 * 2) % 2 ^ 32 < (0x3ca00000 * 2) % 2 ^ 32 then x
      else if x.to_bits_nat / 2 ^ 32 ≤ 0xbfd2bec4 then tailBody 0 Libm.c0 x
      else bigBody x
    else if x.to_bits_nat / 2 ^ 32 ≥ 0x7ff00000 then x
    else bigBody x := rfl

/-- high word of the bit pattern of `|x|` -/
def hiw (n : ℕ) : ℕ := (fin false n).to_bits_nat / 2 ^ 32

theorem hiw_sg (sg : Bool) {n : ℕ} (hw : (fin sg n).WF) :
    (fin sg n).to_bits_nat / 2 ^ 32 = (if sg then 2 ^ 31 else 0) + hiw n ∧ hiw n < 0x7ff00000 := by
  unfold hiw
  by_cases hN : 2 ^ 52 ≤ n
  · obtain ⟨q, s, rfl, hq, hq', hs⟩ := F64.Bits.wf_normal_decomp hN hw.1 hw.2
    rw [F64.Bits.to_bits_nat_normal sg hq hq', F64.Bits.to_bits_nat_normal false hq hq']
    simp only [Bool.false_eq_true, if_false, Nat.zero_add]
    cases sg
    · simp only [Bool.false_eq_true, if_false, Nat.zero_add]
      refine ⟨trivial, ?_⟩
      simp only [Nat.reducePow] at hq hq' ⊢
      omega
    · simp only [if_true]
      simp only [Nat.reducePow] at hq hq' ⊢
      omega
  · have hlt : n < 2 ^ 53 := by
      have : (2 : ℕ) ^ 52 ≤ 2 ^ 53 := Nat.pow_le_pow_right (by norm_num) (by norm_num)
      omega
    rw [Log2Seed.to_bits_sg_small sg hlt, Log2Seed.to_bits_sg_small false hlt]
    simp only [Bool.false_eq_true, if_false, Nat.zero_add]
    cases sg
    · simp only [Bool.false_eq_true, if_false, Nat.zero_add]
      refine ⟨trivial, ?_⟩
      simp only [Nat.reducePow] at hN ⊢
      omega
    · simp only [if_true]
      simp only [Nat.reducePow] at hN ⊢
      omega

/-- the high word is monotone in the magnitude: comparison with the threshold word `e·2^20 + m` -/
theorem hiw_lt_iff {n : ℕ} (hr : Rep n) (hm : n ≤ maxFin) {e m : ℕ} (he : 1 ≤ e) (hm20 : m < 2 ^ 20) :
    hiw n < e * 2 ^ 20 + m ↔ n < (2 ^ 52 + m * 2 ^ 32) * 2 ^ (e - 1) := by
  unfold hiw
  have hP : 0 < 2 ^ (e - 1) := Nat.two_pow_pos _
  by_cases hN : 2 ^ 52 ≤ n
  · obtain ⟨q, s, rfl, hq, hq', hs⟩ := F64.Bits.wf_normal_decomp hN hr hm
    rw [F64.Bits.to_bits_nat_normal false hq hq']
    simp only [Bool.false_eq_true, if_false, Nat.zero_add]
    have hS : 0 < 2 ^ s := Nat.two_pow_pos _
    constructor
    · intro h
      have hc : s + 1 < e ∨ (s + 1 = e ∧ q < 2 ^ 52 + m * 2 ^ 32) := by
        simp only [Nat.reducePow] at hq hq' hm20 h ⊢
        omega
      rcases hc with hc | ⟨hc1, hc2⟩
      · have h1 : 2 ^ (s + 1) ≤ 2 ^ (e - 1) := Nat.pow_le_pow_right (by norm_num) (by omega)
        calc q * 2 ^ s < 2 ^ 53 * 2 ^ s := Nat.mul_lt_mul_of_pos_right hq' hS
          _ = 2 ^ 52 * 2 ^ (s + 1) := by rw [Nat.pow_succ]; ring
          _ ≤ 2 ^ 52 * 2 ^ (e - 1) := Nat.mul_le_mul_left _ h1
          _ ≤ (2 ^ 52 + m * 2 ^ 32) * 2 ^ (e - 1) := Nat.mul_le_mul_right _ (Nat.le_add_right _ _)
      · have : e - 1 = s := by omega
        rw [this]
        exact Nat.mul_lt_mul_of_pos_right hc2 hS
    · intro h
      by_contra hcon
      have hc : e < s + 1 ∨ (s + 1 = e ∧ 2 ^ 52 + m * 2 ^ 32 ≤ q) := by
        simp only [Nat.reducePow] at hq hq' hm20 hcon ⊢
        omega
      rcases hc with hc | ⟨hc1, hc2⟩
      · have h1 : 2 ^ e ≤ 2 ^ s := Nat.pow_le_pow_right (by norm_num) (by omega)
        have h2 : (2 ^ 52 + m * 2 ^ 32) * 2 ^ (e - 1) ≤ 2 ^ 52 * 2 ^ e := by
          have : 2 ^ e = 2 * 2 ^ (e - 1) := by
            rw [show e = (e - 1) + 1 by omega, Nat.pow_succ]; simp; ring
          rw [this, ← Nat.mul_assoc]
          apply Nat.mul_le_mul_right
          simp only [Nat.reducePow] at hm20 ⊢
          omega
        have h3 : 2 ^ 52 * 2 ^ e ≤ q * 2 ^ s := Nat.mul_le_mul hq h1
        omega
      · have : e - 1 = s := by omega
        rw [this] at h
        have := Nat.mul_le_mul_right (2 ^ s) hc2
        omega
  · have hlt : n < 2 ^ 53 := by
      have : (2 : ℕ) ^ 52 ≤ 2 ^ 53 := Nat.pow_le_pow_right (by norm_num) (by norm_num)
      omega
    rw [Log2Seed.to_bits_sg_small false hlt]
    simp only [Bool.false_eq_true, if_false, Nat.zero_add]
    constructor
    · intro _
      calc n < 2 ^ 52 := by omega
        _ = 2 ^ 52 * 1 := by ring
        _ ≤ (2 ^ 52 + m * 2 ^ 32) * 2 ^ (e - 1) := Nat.mul_le_mul (Nat.le_add_right _ _) hP
    · intro _
      have : e * 2 ^ 20 ≥ 1 * 2 ^ 20 := Nat.mul_le_mul_right _ he
      simp only [Nat.reducePow] at hN this ⊢
      omega


theorem nat_lt_real {n C k : ℕ} (hk : k ≤ 1074) (h : n < C * 2 ^ k) : (n : ℝ) / 2 ^ 1074 < (C : ℝ) / 2 ^ (1074 - k) := by
  have h' : (n : ℝ) < (C : ℝ) * 2 ^ k := by exact_mod_cast h
  have e : (2 : ℝ) ^ 1074 = 2 ^ k * 2 ^ (1074 - k) := by rw [← pow_add]; congr 1; omega
  rw [e, div_lt_div_iff₀ (by positivity) (by positivity)]
  have hp : (0 : ℝ) < 2 ^ (1074 - k) := by positivity
  nlinarith

theorem nat_ge_real {n C k : ℕ} (hk : k ≤ 1074) (h : C * 2 ^ k ≤ n) : (C : ℝ) / 2 ^ (1074 - k) ≤ (n : ℝ) / 2 ^ 1074 := by
  have h' : (C : ℝ) * 2 ^ k ≤ (n : ℝ) := by exact_mod_cast h
  have e : (2 : ℝ) ^ 1074 = 2 ^ k * 2 ^ (1074 - k) := by rw [← pow_add]; congr 1; omega
  rw [e, div_le_div_iff₀ (by positivity) (by positivity)]
  have hp : (0 : ℝ) < 2 ^ (1074 - k) := by positivity
  nlinarith

theorem fv_fin_neg (n : ℕ) : fv (fin true n) = -((n : ℝ) / 2 ^ 1074) := by
  show (((-(n : ℤ) : ℤ)) : ℝ) / 2 ^ 1074 = _
  push_cast; ring

/-- returning the argument itself, `|x| < 2^-53` -/
theorem tiny_case {X : ℝ} (h : |X| ≤ 1 / 2 ^ 53) :
    |X - Real.log (1 + X)| ≤ 1 / 2 ^ 32 ∧ |X - Real.log (1 + X)| ≤ |X| / 2 ^ 18 := by
  have hl := log1p_lin (X := X) (le_trans h (by norm_num))
  rw [abs_sub_comm] at hl
  rw [← sq_abs] at hl
  have h0 := abs_nonneg X
  have h2 : |X| ^ 2 ≤ 1 / 2 ^ 53 * |X| := by rw [sq]; exact mul_le_mul_of_nonneg_right h h0
  constructor
  · have : (1 : ℝ) / 2 ^ 53 * |X| ≤ 1 / 2 ^ 53 * (1 / 2 ^ 53) := mul_le_mul_of_nonneg_left h (by positivity)
    have n : 2 * ((1 : ℝ) / 2 ^ 53 * (1 / 2 ^ 53)) ≤ 1 / 2 ^ 32 := by norm_num
    linarith
  · have e : |X| / 2 ^ 18 = 1 / 2 ^ 18 * |X| := by ring
    rw [e]
    have : 2 * ((1 : ℝ) / 2 ^ 53 * |X|) ≤ 1 / 2 ^ 18 * |X| := by
      rw [← mul_assoc]; exact mul_le_mul_of_nonneg_right (by norm_num) h0
    linarith

/-- the conclusion of the seed theorem -/
def SeedOK (h r : F64) : Prop :=
  r.is_finite = true ∧ |fv r - Real.log (1 + fv h)| ≤ 1 / 2 ^ 32 ∧
    (|fv h| ≤ 1 / 2 ^ 20 → |fv r - Real.log (1 + fv h)| ≤ |fv h| / 2 ^ 18)

theorem seed_tiny {sg : Bool} {n : ℕ} (hn : n < (2 ^ 52 + 0 * 2 ^ 32) * 2 ^ (970 - 1)) :
    SeedOK (fin sg n) (fin sg n) := by
  have hX : |fv (fin sg n)| ≤ 1 / 2 ^ 53 := by
    rw [Log2Seed.abs_fv_fin]
    have := nat_lt_real (by norm_num) hn
    norm_num at this ⊢
    linarith
  obtain ⟨t1, t2⟩ := tiny_case hX
  exact ⟨rfl, t1, fun _ => t2⟩

theorem seed_direct {sg : Bool} {n : ℕ} (hlo : (2 ^ 52 + 0 * 2 ^ 32) * 2 ^ (970 - 1) ≤ n)
    (hhi : if sg then n < (2 ^ 52 + 179909 * 2 ^ 32) * 2 ^ (1021 - 1) else n < (2 ^ 52 + 688762 * 2 ^ 32) * 2 ^ (1021 - 1)) :
    SeedOK (fin sg n) (tailBody 0 Libm.c0 (fin sg n)) := by
  have hA : 1 / 2 ^ 54 ≤ |fv (fin sg n)| := by
    rw [Log2Seed.abs_fv_fin]
    have := nat_ge_real (by norm_num) hlo
    norm_num at this ⊢
    linarith
  have hR : -2929 / 10000 ≤ fv (fin sg n) ∧ fv (fin sg n) ≤ 41422 / 100000 := by
    cases sg
    · simp only [Bool.false_eq_true, if_false] at hhi
      have := nat_lt_real (by norm_num) hhi
      rw [fv_fin_nat]
      have h0 : (0 : ℝ) ≤ (n : ℝ) / 2 ^ 1074 := by positivity
      norm_num at this ⊢
      constructor <;> linarith
    · simp only [if_true] at hhi
      have := nat_lt_real (by norm_num) hhi
      rw [fv_fin_neg]
      have h0 : (0 : ℝ) ≤ (n : ℝ) / 2 ^ 1074 := by positivity
      norm_num at this ⊢
      constructor <;> linarith
  obtain ⟨f1, e1⟩ := direct_coarse (x := fin sg n) rfl hR.1 hR.2
  refine ⟨f1, le_trans e1 (by norm_num), fun hs => ?_⟩
  exact (direct_small (x := fin sg n) rfl hA hs).2

theorem seed_big {sg : Bool} {n : ℕ} (h1 : 1 / 2 ^ 16 ≤ 1 + fv (fin sg n)) (h2 : fv (fin sg n) ≤ 2 ^ 999)
    (hlo : (2 ^ 52 + 0 * 2 ^ 32) * 2 ^ (1021 - 1) ≤ n) :
    SeedOK (fin sg n) (bigBody (fin sg n)) := by
  obtain ⟨f1, e1⟩ := big_coarse (x := fin sg n) rfl h1 h2
  refine ⟨f1, e1, fun hs => ?_⟩
  exfalso
  rw [Log2Seed.abs_fv_fin] at hs
  have := nat_ge_real (by norm_num) hlo
  norm_num at this hs
  linarith


/-- **the libm port `Libm.log1p` against `log(1 + h)`**: for every finite double `−1 + 2^-16 ≤ h ≤ 2^999` the result is
within `2^-32` of `log(1 + h)`, and within `2^-18·|h|` when `|h| ≤ 2^-20` -/
theorem libm_log1p_coarse {h : F64} (hf : h.is_finite = true) (hw : h.WF) (h1 : 1 / 2 ^ 16 ≤ 1 + fv h)
    (h2 : fv h ≤ 2 ^ 999) : SeedOK h (Libm.log1p h) := by
  obtain ⟨sg, n, rfl⟩ := is_finite_iff.mp hf
  obtain ⟨hbits, hlt⟩ := hiw_sg sg hw
  have i1 := hiw_lt_iff hw.1 hw.2 (e := 970) (m := 0) (by norm_num) (by norm_num)
  have i2 := hiw_lt_iff hw.1 hw.2 (e := 1021) (m := 688762) (by norm_num) (by norm_num)
  have i3 := hiw_lt_iff hw.1 hw.2 (e := 1021) (m := 179909) (by norm_num) (by norm_num)
  have i4 := hiw_lt_iff hw.1 hw.2 (e := 1021) (m := 0) (by norm_num) (by norm_num)
  have i5 := hiw_lt_iff hw.1 hw.2 (e := 1023) (m := 0) (by norm_num) (by norm_num)
  rw [log1p_unfold, hbits]
  generalize hiw n = H at *
  cases sg
  · simp only [Bool.false_eq_true, if_false, Nat.zero_add, Nat.reducePow, Nat.reduceMul, Nat.reduceMod] at hlt ⊢
    by_cases c1 : H < 970 * 2 ^ 20 + 0
    · rw [if_pos (by omega), if_neg (by omega), if_pos (by omega)]
      exact seed_tiny (i1.1 c1)
    · by_cases c2 : H < 1021 * 2 ^ 20 + 688762
      · rw [if_pos (by omega), if_neg (by omega), if_neg (by omega), if_pos (by omega)]
        exact seed_direct (Nat.le_of_not_lt (mt i1.2 c1)) (by simpa using i2.1 c2)
      · rw [if_neg (by omega), if_neg (by omega)]
        exact seed_big h1 h2 (Nat.le_of_not_lt (mt i4.2 (by omega)))
  · simp only [if_true, Nat.reducePow, Nat.reduceMul, Nat.reduceMod] at hlt ⊢
    by_cases c5 : H < 1023 * 2 ^ 20 + 0
    · by_cases c1 : H < 970 * 2 ^ 20 + 0
      · rw [if_pos (by omega), if_neg (by omega), if_pos (by omega)]
        exact seed_tiny (i1.1 c1)
      · by_cases c3 : H < 1021 * 2 ^ 20 + 179909
        · rw [if_pos (by omega), if_neg (by omega), if_neg (by omega), if_pos (by omega)]
          exact seed_direct (Nat.le_of_not_lt (mt i1.2 c1)) (by simpa using i3.1 c3)
        · rw [if_pos (by omega), if_neg (by omega), if_neg (by omega), if_neg (by omega)]
          exact seed_big h1 h2 (Nat.le_of_not_lt (mt i4.2 (by omega)))
    · exfalso
      have hge := Nat.le_of_not_lt (mt i5.2 c5)
      have := nat_ge_real (by norm_num) hge
      rw [fv_fin_neg] at h1
      norm_num at this h1
      linarith

end seed


/-! ## 6. one Newton step of `ln_1p` over `ℝ`

`y = ln(1 + v)`, `x = y + e`, `A = e^x`, `c = e^(−e)` (so `e^y = A·c`, `v = A·c − 1`), `E ≈ A − 1` (relative `dM`),
`t = (E − v)/(E + 1) = (1 − c) + η·c/(A + η)`, `x' ≈ x − t`. -/

section newton

/-- the exact quotient `t = (E − v)/(E + 1)` against `1 − e^(−e)`; `G ≥ |A − 1|/A` -/
theorem newton_t {A c E dM G : ℝ} (hA : 0 < A) (hc0 : 0 < c) (hc1 : |c - 1| ≤ 1 / 2 ^ 19)
    (hdM : 0 ≤ dM) (hG : |A - 1| ≤ G * A) (hG0 : 0 ≤ G) (hκ : dM * G ≤ 1 / 2 ^ 40)
    (hE : |E - (A - 1)| ≤ dM * |A - 1|) :
    (1 - 1 / 2 ^ 40) * A ≤ E + 1 ∧ E + 1 ≤ (1 + 1 / 2 ^ 40) * A ∧
    |(E - (A * c - 1)) / (E + 1) - (1 - c)| ≤ dM * G * (1 + 1 / 2 ^ 18) := by
  set η := E - (A - 1) with hη
  have hκ0 : 0 ≤ dM * G := mul_nonneg hdM hG0
  have hηA : |η| ≤ dM * G * A := by
    refine le_trans hE ?_
    calc dM * |A - 1| ≤ dM * (G * A) := mul_le_mul_of_nonneg_left hG hdM
      _ = dM * G * A := by ring
  have hηA' : |η| ≤ 1 / 2 ^ 40 * A := le_trans hηA (mul_le_mul_of_nonneg_right hκ hA.le)
  obtain ⟨η1, η2⟩ := abs_le.1 hηA'
  have hE1 : E + 1 = A + η := by rw [hη]; ring
  have hlo : (1 - 1 / 2 ^ 40) * A ≤ E + 1 := by rw [hE1]; linarith
  have hhi : E + 1 ≤ (1 + 1 / 2 ^ 40) * A := by rw [hE1]; linarith
  have hpos : 0 < E + 1 := lt_of_lt_of_le (mul_pos (by norm_num) hA) hlo
  refine ⟨hlo, hhi, ?_⟩
  have e : (E - (A * c - 1)) / (E + 1) - (1 - c) = η * c / (E + 1) := by
    have : E = A - 1 + η := by rw [hη]; ring
    field_simp
    rw [this]; ring
  rw [e, abs_div, abs_mul, abs_of_pos hc0, abs_of_pos hpos, div_le_iff₀ hpos]
  obtain ⟨c1, c2⟩ := abs_le.1 hc1
  have h1 : |η| * c ≤ dM * G * A * (1 + 1 / 2 ^ 19) :=
    mul_le_mul hηA (by linarith) hc0.le (by positivity)
  have h2 : dM * G * (1 + 1 / 2 ^ 18) * ((1 - 1 / 2 ^ 40) * A) ≤ dM * G * (1 + 1 / 2 ^ 18) * (E + 1) :=
    mul_le_mul_of_nonneg_left hlo (by positivity)
  have h3 : dM * G * A * (1 + 1 / 2 ^ 19) ≤ dM * G * (1 + 1 / 2 ^ 18) * ((1 - 1 / 2 ^ 40) * A) := by
    have e2 : dM * G * (1 + 1 / 2 ^ 18) * ((1 - 1 / 2 ^ 40) * A) - dM * G * A * (1 + 1 / 2 ^ 19)
        = (dM * G * A) * ((1 + 1 / 2 ^ 18) * (1 - 1 / 2 ^ 40) - (1 + 1 / 2 ^ 19)) := by ring
    have : 0 ≤ (dM * G * A) * ((1 + 1 / 2 ^ 18) * (1 - 1 / 2 ^ 40) - (1 + 1 / 2 ^ 19)) :=
      mul_nonneg (by positivity) (by norm_num)
    linarith
  linarith

/-- the computed quotient against the exact one -/
theorem newton_q {N D Q n d dQ qa : ℝ} (hd : 0 < d) (hN : |N - n| ≤ cA * |n|) (hD : |D - d| ≤ 1 / 2 ^ 105 * |d|)
    (hdQ0 : 0 ≤ dQ) (hdQ : dQ ≤ 1 / 2 ^ 30) (hQ : |Q - N / D| ≤ dQ * |N / D| + qa) :
    |Q - n / d| ≤ (dQ + 6 / 2 ^ 106) * |n / d| + qa ∧ |N / D| ≤ 2 * |n / d| := by
  have hca := cA_le'
  have hca0 := cA_nonneg
  rw [abs_of_pos hd] at hD
  obtain ⟨d1, d2⟩ := abs_le.1 hD
  have hDlo : (1 - 1 / 2 ^ 105) * d ≤ D := by linarith
  have hDpos : 0 < D := lt_of_lt_of_le (mul_pos (by norm_num) hd) hDlo
  have hn0 := abs_nonneg n
  -- N/D − n/d
  have e : N / D - n / d = ((N - n) * d - n * (D - d)) / (D * d) := by field_simp; ring
  have hnum : |(N - n) * d - n * (D - d)| ≤ (cA + 1 / 2 ^ 105) * |n| * d := by
    refine le_trans (abs_sub _ _) ?_
    rw [abs_mul, abs_mul, abs_of_pos hd]
    have h1 : |N - n| * d ≤ cA * |n| * d := mul_le_mul_of_nonneg_right hN hd.le
    have h2 : |n| * |D - d| ≤ |n| * (1 / 2 ^ 105 * d) := mul_le_mul_of_nonneg_left (abs_le.2 ⟨d1, d2⟩) hn0
    nlinarith
  have hND : |N / D - n / d| ≤ 503 / 100 / 2 ^ 106 * |n / d| := by
    rw [e, abs_div, abs_of_pos (mul_pos hDpos hd), div_le_iff₀ (mul_pos hDpos hd), abs_div, abs_of_pos hd]
    refine le_trans hnum ?_
    have h1 : 503 / 100 / 2 ^ 106 * (|n| / d) * (D * d) = 503 / 100 / 2 ^ 106 * |n| * D := by field_simp
    rw [h1]
    have h2 : 503 / 100 / 2 ^ 106 * |n| * ((1 - 1 / 2 ^ 105) * d) ≤ 503 / 100 / 2 ^ 106 * |n| * D :=
      mul_le_mul_of_nonneg_left hDlo (by positivity)
    have h3 : (cA + 1 / 2 ^ 105) * |n| * d ≤ 503 / 100 / 2 ^ 106 * |n| * ((1 - 1 / 2 ^ 105) * d) := by
      have e3 : 503 / 100 / 2 ^ 106 * |n| * ((1 - 1 / 2 ^ 105) * d) - (cA + 1 / 2 ^ 105) * |n| * d
          = (|n| * d) * (503 / 100 / 2 ^ 106 * (1 - 1 / 2 ^ 105) - 1 / 2 ^ 105 - cA) := by ring
      have : 0 ≤ (|n| * d) * (503 / 100 / 2 ^ 106 * (1 - 1 / 2 ^ 105) - 1 / 2 ^ 105 - cA) := by
        apply mul_nonneg (by positivity)
        have : (301 : ℝ) / 100 / 2 ^ 106 ≤ 503 / 100 / 2 ^ 106 * (1 - 1 / 2 ^ 105) - 1 / 2 ^ 105 := by norm_num
        linarith
      linarith
    linarith
  have ht0 := abs_nonneg (n / d)
  have hNDabs : |N / D| ≤ (1 + 503 / 100 / 2 ^ 106) * |n / d| := by
    have := abs_sub_abs_le_abs_sub (N / D) (n / d)
    linarith
  have h4 : dQ * |N / D| ≤ dQ * ((1 + 503 / 100 / 2 ^ 106) * |n / d|) := mul_le_mul_of_nonneg_left hNDabs hdQ0
  have h5 : dQ * ((1 + 503 / 100 / 2 ^ 106) * |n / d|) ≤ (dQ + 1 / 100 / 2 ^ 106) * |n / d| := by
    have e5 : (dQ + 1 / 100 / 2 ^ 106) * |n / d| - dQ * ((1 + 503 / 100 / 2 ^ 106) * |n / d|)
        = |n / d| * (1 / 100 / 2 ^ 106 - dQ * (503 / 100 / 2 ^ 106)) := by ring
    have : 0 ≤ |n / d| * (1 / 100 / 2 ^ 106 - dQ * (503 / 100 / 2 ^ 106)) := by
      apply mul_nonneg ht0
      have : dQ * (503 / 100 / 2 ^ 106) ≤ 1 / 2 ^ 30 * (503 / 100 / 2 ^ 106) :=
        mul_le_mul_of_nonneg_right hdQ (by positivity)
      have : (1 : ℝ) / 2 ^ 30 * (503 / 100 / 2 ^ 106) ≤ 1 / 100 / 2 ^ 106 := by norm_num
      linarith
    linarith
  have h6 := abs_add_le (Q - N / D) (N / D - n / d)
  rw [show Q - N / D + (N / D - n / d) = Q - n / d by ring] at h6
  have e7 : (dQ + 6 / 2 ^ 106) * |n / d| = (dQ + 1 / 100 / 2 ^ 106) * |n / d| + 503 / 100 / 2 ^ 106 * |n / d|
      + 96 / 100 / 2 ^ 106 * |n / d| := by ring
  have h8 : 0 ≤ 96 / 100 / 2 ^ 106 * |n / d| := by positivity
  refine ⟨by linarith, le_trans hNDabs ?_⟩
  exact mul_le_mul_of_nonneg_right (by norm_num) ht0

/-- **one Newton step of `ln_1p` over `ℝ`** -/
theorem newton_real {y e c A E N D Q x' dM G dQ qa : ℝ} (hA : 0 < A) (hc0 : 0 < c)
    (hce : |c - 1 + e| ≤ e ^ 2) (hc1 : |c - 1| ≤ 1 / 2 ^ 19)
    (hdM : 0 ≤ dM) (hG : |A - 1| ≤ G * A) (hG0 : 0 ≤ G) (hκ : dM * G ≤ 1 / 2 ^ 40)
    (hE : |E - (A - 1)| ≤ dM * |A - 1|)
    (hN : |N - (E - (A * c - 1))| ≤ cA * |E - (A * c - 1)|)
    (hD : |D - (E + 1)| ≤ 1 / 2 ^ 105 * |E + 1|)
    (hdQ0 : 0 ≤ dQ) (hdQ : dQ ≤ 1 / 2 ^ 30) (hQ : |Q - N / D| ≤ dQ * |N / D| + qa)
    (hX : |x' - (y + e - Q)| ≤ cA * |y + e - Q|) :
    |x' - y| ≤ (1 + cA) * (e ^ 2 + dM * G * (1 + 1 / 2 ^ 18)
        + (dQ + 6 / 2 ^ 106) * (|e| + e ^ 2 + dM * G * (1 + 1 / 2 ^ 18)) + qa) + cA * |y| ∧
    |N / D| ≤ 2 * (|e| + e ^ 2 + dM * G * (1 + 1 / 2 ^ 18)) := by
  obtain ⟨hlo, hhi, ht⟩ := newton_t hA hc0 hc1 hdM hG hG0 hκ hE
  have hpos : 0 < E + 1 := lt_of_lt_of_le (mul_pos (by norm_num) hA) hlo
  obtain ⟨hq, hND2⟩ := newton_q hpos hN hD hdQ0 hdQ hQ
  set t := (E - (A * c - 1)) / (E + 1) with htdef
  set κ := dM * G * (1 + 1 / 2 ^ 18) with hκdef
  have hκ0 : 0 ≤ κ := by rw [hκdef]; exact mul_nonneg (mul_nonneg hdM hG0) (by norm_num)
  have hca0 := cA_nonneg
  -- e − t
  have het : |e - t| ≤ e ^ 2 + κ := by
    have e1 : e - t = (c - 1 + e) - (t - (1 - c)) := by ring
    rw [e1]
    exact le_trans (abs_sub _ _) (by linarith)
  have htabs : |t| ≤ |e| + e ^ 2 + κ := by
    have := abs_sub_abs_le_abs_sub t e
    rw [abs_sub_comm] at this
    linarith
  have hθ0 : 0 ≤ dQ + 6 / 2 ^ 106 := by positivity
  have hQt : |Q - t| ≤ (dQ + 6 / 2 ^ 106) * (|e| + e ^ 2 + κ) + qa :=
    le_trans hq (by have := mul_le_mul_of_nonneg_left htabs hθ0; linarith)
  have hxQ : |y + e - Q - y| ≤ e ^ 2 + κ + (dQ + 6 / 2 ^ 106) * (|e| + e ^ 2 + κ) + qa := by
    have e2 : y + e - Q - y = (e - t) - (Q - t) := by ring
    rw [e2]
    exact le_trans (abs_sub _ _) (by linarith)
  have hxQabs : |y + e - Q| ≤ |y| + (e ^ 2 + κ + (dQ + 6 / 2 ^ 106) * (|e| + e ^ 2 + κ) + qa) := by
    have := abs_add_le y (y + e - Q - y)
    rw [show y + (y + e - Q - y) = y + e - Q by ring] at this
    linarith
  have h1 := abs_add_le (x' - (y + e - Q)) (y + e - Q - y)
  rw [show x' - (y + e - Q) + (y + e - Q - y) = x' - y by ring] at h1
  have h2 := mul_le_mul_of_nonneg_left hxQabs hca0
  have e3 : (1 + cA) * (e ^ 2 + κ + (dQ + 6 / 2 ^ 106) * (|e| + e ^ 2 + κ) + qa) + cA * |y|
      = (e ^ 2 + κ + (dQ + 6 / 2 ^ 106) * (|e| + e ^ 2 + κ) + qa)
        + cA * (|y| + (e ^ 2 + κ + (dQ + 6 / 2 ^ 106) * (|e| + e ^ 2 + κ) + qa)) := by ring
  rw [e3]
  refine ⟨by linarith, le_trans hND2 ?_⟩
  linarith

end newton


/-! ## 7. `TwoFloat / TwoFloat` with an arbitrary (possibly tiny or zero) numerator -/

section division
open F64 TwoFloat Exp2Bound

/-- **division with any numerator**: denominators in `[2^-17, 2^990]`, numerators up to `2^980`; relative error `16u²`
plus an absolute `2^-900` (from `C13c.div_tt_valid_any_numerator` when the numerator or the quotient is below `2^-950`) -/
theorem div_any {a b : TwoFloat} (ha : VW a) (hb : VW b) (ha2 : |rv a| ≤ 2 ^ 980)
    (hb1 : 1 / 2 ^ 17 ≤ |rv b|) (hb2 : |rv b| ≤ 2 ^ 990) :
    VW (arithmetic.impl_Div_TwoFloat_for_TwoFloat.div a b) ∧
    |rv (arithmetic.impl_Div_TwoFloat_for_TwoFloat.div a b) - rv a / rv b|
      ≤ 1 / 2 ^ 102 * |rv a / rv b| + (1 / 2 ^ 37 * min |rv a / rv b| (1 / 2 ^ 933) + 1 / 2 ^ 1017) := by
  have h990 : (2 : ℝ) ^ 990 ≤ 2 ^ 1000 := pow_le_pow_right₀ (by norm_num) (by norm_num)
  have hbpos : 0 < |rv b| := lt_of_lt_of_le (by positivity) hb1
  by_cases hc : 1 / 2 ^ 950 ≤ |rv a| ∧ 1 / 2 ^ 950 * |rv b| ≤ |rv a|
  · obtain ⟨r1, r2⟩ := div_rv ha hb hc.1 (le_trans ha2 (pow_le_pow_right₀ (by norm_num) (by norm_num)))
      (le_trans (one_div_le_one_div_of_le (by positivity) (pow_le_pow_right₀ (by norm_num) (by norm_num))) hb1)
      (le_trans hb2 h990) hc.2 (by
        have : (2 : ℝ) ^ 980 ≤ 2 ^ 1000 * (1 / 2 ^ 17) := by
          rw [show (1000 : ℕ) = 983 + 17 from rfl, pow_add]
          have : (2 : ℝ) ^ 983 * 2 ^ 17 * (1 / 2 ^ 17) = 2 ^ 983 := by field_simp
          rw [this]; exact pow_le_pow_right₀ (by norm_num) (by norm_num)
        have h2 : (2 : ℝ) ^ 1000 * (1 / 2 ^ 17) ≤ 2 ^ 1000 * |rv b| := mul_le_mul_of_nonneg_left hb1 (by positivity)
        linarith)
    refine ⟨r1, le_trans r2 ?_⟩
    have : (0 : ℝ) ≤ 1 / 2 ^ 37 * min |rv a / rv b| (1 / 2 ^ 933) + 1 / 2 ^ 1017 :=
      add_nonneg (mul_nonneg (by norm_num) (le_min (abs_nonneg _) (by positivity))) (by positivity)
    linarith
  · -- the numerator or the quotient is tiny
    have hsmall : |rv a| ≤ 1 / 2 ^ 933 * |rv b| := by
      rw [not_and_or, not_le, not_le] at hc
      rcases hc with h | h
      · have h1 : (1 : ℝ) / 2 ^ 950 ≤ 1 / 2 ^ 933 * (1 / 2 ^ 17) := by
          rw [one_div_mul_one_div, ← pow_add]
        have h2 : (1 : ℝ) / 2 ^ 933 * (1 / 2 ^ 17) ≤ 1 / 2 ^ 933 * |rv b| := mul_le_mul_of_nonneg_left hb1 (by positivity)
        linarith
      · have h1 : (1 : ℝ) / 2 ^ 950 * |rv b| ≤ 1 / 2 ^ 933 * |rv b| :=
          mul_le_mul_of_nonneg_right
            (one_div_le_one_div_of_le (by positivity) (pow_le_pow_right₀ (by norm_num) (by norm_num))) hbpos.le
        linarith
    obtain ⟨wb1, wb2, vb1, vb2⟩ := hi_window hb.1 (by norm_num : 17 ≤ 1073) hb1 hb2
    obtain ⟨a1, -⟩ := PowiBound.hi_bounds ha.1
    obtain ⟨b1, -⟩ := PowiBound.hi_bounds hb.1
    have hVa := V_abs_le_of_rv ha2
    have hUe : (unit : Int) = 2 ^ 1074 := C01d.unit_int_eq
    have hahi : |a.hi.toInt| ≤ 2 ^ 2055 := by
      have hn := abs_nonneg a.hi.toInt
      have e : (2 : ℤ) ^ 2055 = 2 * 2 ^ (1074 + 980) := by rw [← pow_succ']
      rw [e]
      generalize (2 : ℤ) ^ (1074 + 980) = P at *
      norm_num at a1 ⊢
      omega
    have hbhi2 : |b.hi.toInt| ≤ 2 * |b.V| := by
      have hn := abs_nonneg b.hi.toInt
      norm_num at b1 ⊢
      omega
    have hy0 : b.hi.toInt ≠ 0 := by
      intro h0
      rw [h0, abs_zero] at wb1
      have : (0 : ℤ) < 2 ^ (1073 - 17) := by positivity
      omega
    have hcr := C13c.div_tt_valid_any_numerator ha.1 ha.2 hb.1 hb.2 hy0
      (le_trans hahi (pow_le_pow_right₀ (by norm_num) (by norm_num)))
      (le_trans wb2 (pow_le_pow_right₀ (by norm_num) (by norm_num)))
      (by
        rw [abs_mul, hUe, abs_of_pos (by positivity : (0 : ℤ) < 2 ^ 1074)]
        calc |a.hi.toInt| * 2 ^ 1074 ≤ 2 ^ 2055 * 2 ^ 1074 := mul_le_mul_of_nonneg_right hahi (by positivity)
          _ = 2 ^ 2073 * 2 ^ (1073 - 17) := by rw [← pow_add, ← pow_add]
          _ ≤ 2 ^ 2090 * 2 ^ (1073 - 17) :=
              mul_le_mul_of_nonneg_right (pow_le_pow_right₀ (by norm_num) (by norm_num)) (by positivity)
          _ ≤ 2 ^ 2090 * |b.hi.toInt| := mul_le_mul_of_nonneg_left wb1 (by positivity))
    obtain ⟨qv, qw, qe⟩ := hcr
    change (arithmetic.impl_Div_TwoFloat_for_TwoFloat.div a b).Valid at qv
    change (arithmetic.impl_Div_TwoFloat_for_TwoFloat.div a b).WF at qw
    change 2 ^ 37 * |a.V * (unit : Int) - (arithmetic.impl_Div_TwoFloat_for_TwoFloat.div a b).V * b.V|
      ≤ |a.V * (unit : Int)| + 2 ^ 92 * |b.hi.toInt| + 2 ^ 48 * (unit : Int) at qe
    refine ⟨⟨qv, qw⟩, ?_⟩
    generalize arithmetic.impl_Div_TwoFloat_for_TwoFloat.div a b = q at *
    have hU : (0 : ℝ) < 2 ^ 1074 := by positivity
    have key0 : (2 : ℝ) ^ 37 * |(a.V : ℝ) * ((unit : ℕ) : ℝ) - (q.V : ℝ) * (b.V : ℝ)|
        ≤ |(a.V : ℝ) * ((unit : ℕ) : ℝ)| + 2 ^ 92 * |(b.hi.toInt : ℝ)| + 2 ^ 48 * ((unit : ℕ) : ℝ) := by
      exact_mod_cast qe
    rw [LnSeed.unit_real] at key0
    have key : (2 : ℝ) ^ 37 * |(a.V : ℝ) * 2 ^ 1074 - (q.V : ℝ) * (b.V : ℝ)|
        ≤ |(a.V : ℝ) * 2 ^ 1074| + 2 ^ 92 * |(b.hi.toInt : ℝ)| + 2 ^ 48 * 2 ^ 1074 := key0
    have hbh : |(b.hi.toInt : ℝ)| ≤ 2 * |(b.V : ℝ)| := by exact_mod_cast hbhi2
    have hbV : (2 : ℝ) ^ (1074 - 17) ≤ |(b.V : ℝ)| := by exact_mod_cast vb1
    have hbVpos : (0 : ℝ) < |(b.V : ℝ)| := lt_of_lt_of_le (by positivity) hbV
    have hsm : |(a.V : ℝ)| ≤ 1 / 2 ^ 933 * |(b.V : ℝ)| := by
      have := hsmall
      unfold rv at this
      rw [abs_div, abs_div, abs_of_pos hU, ← mul_div_assoc, div_le_div_iff_of_pos_right hU] at this
      exact this
    have hrvb : rv b ≠ 0 := abs_pos.1 hbpos
    have hbVne : (b.V : ℝ) ≠ 0 := abs_pos.1 hbVpos
    have e : rv q - rv a / rv b = -(((a.V : ℝ) * 2 ^ 1074 - (q.V : ℝ) * (b.V : ℝ)) / (2 ^ 1074 * (b.V : ℝ))) := by
      unfold rv; field_simp; ring
    rw [e, abs_neg, abs_div, abs_mul, abs_of_pos hU]
    have hden : (0 : ℝ) < 2 ^ 1074 * |(b.V : ℝ)| := mul_pos hU hbVpos
    rw [div_le_iff₀ hden]
    have hquot : |rv a / rv b| = |(a.V : ℝ)| * 2 ^ 1074 / (2 ^ 1074 * |(b.V : ℝ)|) := by
      unfold rv
      rw [abs_div, abs_div, abs_div, abs_of_pos hU]
      field_simp
    have hqsmall : |rv a / rv b| ≤ 1 / 2 ^ 933 := by
      rw [abs_div, div_le_iff₀ hbpos]; exact hsmall
    rw [min_eq_left hqsmall]
    have h0 : (0 : ℝ) ≤ 1 / 2 ^ 102 * |rv a / rv b| := mul_nonneg (by norm_num) (abs_nonneg _)
    rw [abs_mul, abs_of_pos hU] at key
    have t2 : (2 : ℝ) ^ 92 * |(b.hi.toInt : ℝ)| ≤ 1 / 2 ^ 981 * (2 ^ 1074 * |(b.V : ℝ)|) := by
      have e2 : (1 : ℝ) / 2 ^ 981 * (2 ^ 1074 * |(b.V : ℝ)|) = 2 ^ 93 * |(b.V : ℝ)| := by
        rw [show (1074 : ℕ) = 981 + 93 from rfl, pow_add]; field_simp
      rw [e2]
      have : (2 : ℝ) ^ 92 * |(b.hi.toInt : ℝ)| ≤ 2 ^ 92 * (2 * |(b.V : ℝ)|) := mul_le_mul_of_nonneg_left hbh (by positivity)
      have e3 : (2 : ℝ) ^ 93 = 2 ^ 92 * 2 := by rw [pow_succ]
      rw [e3]; linarith
    have t3 : (2 : ℝ) ^ 48 * 2 ^ 1074 ≤ 1 / 2 ^ 1009 * (2 ^ 1074 * |(b.V : ℝ)|) := by
      have e2 : (1 : ℝ) / 2 ^ 1009 * (2 ^ 1074 * 2 ^ (1074 - 17)) = 2 ^ 48 * 2 ^ 1074 := by
        rw [show (1074 - 17 : ℕ) = 1009 + 48 from rfl, pow_add]; field_simp
      have := mul_le_mul_of_nonneg_left hbV (by positivity : (0 : ℝ) ≤ 1 / 2 ^ 1009 * 2 ^ 1074)
      rw [mul_assoc, e2, mul_assoc] at this
      exact this
    have hD0 := hden.le
    have n1 : (1 : ℝ) / 2 ^ 981 + 1 / 2 ^ 1009 ≤ 2 ^ 37 * (1 / 2 ^ 1017) := by
      have a2 : (1 : ℝ) / 2 ^ 981 ≤ 1 / 2 ^ 980 / 2 := by
        rw [div_div, ← pow_succ]
      have a3 : (1 : ℝ) / 2 ^ 1009 ≤ 1 / 2 ^ 980 / 2 := by
        rw [div_div, ← pow_succ]
        exact one_div_le_one_div_of_le (by positivity) (pow_le_pow_right₀ (by norm_num) (by norm_num))
      have e4 : (2 : ℝ) ^ 37 * (1 / 2 ^ 1017) = 1 / 2 ^ 980 := by
        rw [show (1017 : ℕ) = 980 + 37 from rfl, pow_add]; field_simp
      rw [e4]; linarith
    have n2 := mul_le_mul_of_nonneg_right n1 hD0
    have h37 : (0 : ℝ) < 2 ^ 37 := by positivity
    rw [hquot]
    generalize (2 : ℝ) ^ 1074 * |(b.V : ℝ)| = Dn at *
    have hDn : Dn ≠ 0 := hden.ne'
    have fin0 : (2 : ℝ) ^ 37 * |(a.V : ℝ) * 2 ^ 1074 - (q.V : ℝ) * (b.V : ℝ)|
        ≤ 2 ^ 37 * ((1 / 2 ^ 37 * (|(a.V : ℝ)| * 2 ^ 1074 / Dn) + 1 / 2 ^ 1017) * Dn) := by
      have s1 := le_trans key (add_le_add (add_le_add (le_refl _) t2) t3)
      have e9 : (2 : ℝ) ^ 37 * ((1 / 2 ^ 37 * (|(a.V : ℝ)| * 2 ^ 1074 / Dn) + 1 / 2 ^ 1017) * Dn)
          = |(a.V : ℝ)| * 2 ^ 1074 + 2 ^ 37 * (1 / 2 ^ 1017) * Dn := by
        field_simp
      rw [e9]
      have e8 : (1 / 2 ^ 981 + 1 / 2 ^ 1009) * Dn = 1 / 2 ^ 981 * Dn + 1 / 2 ^ 1009 * Dn := by ring
      rw [e8] at n2
      linarith
    have fin1 := le_of_mul_le_mul_left fin0 h37
    refine le_trans fin1 ?_
    have : (0 : ℝ) ≤ 1 / 2 ^ 102 * (|(a.V : ℝ)| * 2 ^ 1074 / Dn) * Dn := by
      rw [← hquot] at *
      exact mul_nonneg h0 hD0
    nlinarith

end division


/-! ## 8. one Newton step of `ln_1p` on pairs -/

section step
open F64 TwoFloat Exp2Bound

/-- `log a` for `2^-16 ≤ a ≤ 2^962` -/
theorem log_range {a : ℝ} (h1 : 1 / 2 ^ 16 ≤ a) (h2 : a ≤ 2 ^ 962) : |Real.log a| ≤ 700 := by
  have ha : 0 < a := lt_of_lt_of_le (by positivity) h1
  obtain ⟨l1, l2⟩ := Log2Bound.log_two_range
  have u := Real.log_le_log ha h2
  have d := Real.log_le_log (by positivity) h1
  rw [Real.log_pow] at u
  rw [one_div, Real.log_inv, Real.log_pow] at d
  push_cast at u d
  rw [abs_le]; constructor <;> nlinarith

/-- the correction term of `ln_1p`: `(exp_m1(x) − v)/(exp_m1(x) + 1)` -/
def corr1p (v x : TwoFloat) : TwoFloat :=
  arithmetic.impl_Div_TwoFloat_for_TwoFloat.div
    (arithmetic.impl_Sub_TwoFloat_for_TwoFloat.sub (TwoFloat.exp_m1 x) v)
    (arithmetic.impl_Add_f64_for_TwoFloat.add (TwoFloat.exp_m1 x) (f64lit 0x3ff0000000000000))

/-- **one Newton step of `ln_1p` on pairs**, `x ← x − (exp_m1(x) − v)/(exp_m1(x) + 1)`; `dM` is the relative accuracy of
`exp_m1` at `x`, `G ≥ |e^x − 1|/e^x` -/
theorem ln1p_step {v x : TwoFloat} {dM G : ℝ} (hv : VW v) (hx : VW x)
    (hv1 : 1 / 2 ^ 16 ≤ 1 + rv v) (hv2 : rv v ≤ 2 ^ 961)
    (he : |rv x - Real.log (1 + rv v)| ≤ 1 / 2 ^ 20)
    (hdM : 0 ≤ dM) (hG0 : 0 ≤ G) (hG : |Real.exp (rv x) - 1| ≤ G * Real.exp (rv x))
    (hκ : dM * G ≤ 1 / 2 ^ 40)
    (hE : VW (TwoFloat.exp_m1 x) ∧
      |rv (TwoFloat.exp_m1 x) - (Real.exp (rv x) - 1)| ≤ dM * |Real.exp (rv x) - 1|) :
    VW (corr1p v x) ∧ VW (arithmetic.impl_Sub_TwoFloat_for_TwoFloat.sub x (corr1p v x)) ∧
    ∃ qa : ℝ, 0 ≤ qa ∧ qa ≤ 1 / 2 ^ 969 ∧
      qa ≤ 1 / 2 ^ 36 * (|rv x - Real.log (1 + rv v)| + (rv x - Real.log (1 + rv v)) ^ 2
              + dM * G * (1 + 1 / 2 ^ 18)) + 1 / 2 ^ 1017 ∧
    |rv (arithmetic.impl_Sub_TwoFloat_for_TwoFloat.sub x (corr1p v x)) - Real.log (1 + rv v)|
      ≤ (1 + cA) * ((rv x - Real.log (1 + rv v)) ^ 2 + dM * G * (1 + 1 / 2 ^ 18)
          + (1 / 2 ^ 102 + 6 / 2 ^ 106) * (|rv x - Real.log (1 + rv v)| + (rv x - Real.log (1 + rv v)) ^ 2
              + dM * G * (1 + 1 / 2 ^ 18)) + qa)
        + cA * |Real.log (1 + rv v)| := by
  have ha : 0 < 1 + rv v := lt_of_lt_of_le (by positivity) hv1
  have h961 : (2 : ℝ) ^ 961 + 1 ≤ 2 ^ 962 := by
    have e : (2 : ℝ) ^ 962 = 2 * 2 ^ 961 := by rw [pow_succ']
    have : (1 : ℝ) ≤ 2 ^ 961 := one_le_pow₀ (by norm_num)
    linarith
  have hy := log_range hv1 (by linarith)
  set y := Real.log (1 + rv v) with hydef
  set e := rv x - y with hedef
  obtain ⟨hce, hc1'⟩ := exp_neg_small he (by norm_num)
  have hc1 : |Real.exp (-e) - 1| ≤ 1 / 2 ^ 19 := le_trans hc1' (by norm_num)
  set c := Real.exp (-e) with hcdef
  set A := Real.exp (rv x) with hAdef
  have hA : 0 < A := Real.exp_pos _
  have hc0 : 0 < c := Real.exp_pos _
  have hAc : A * c = 1 + rv v := by
    rw [hAdef, hcdef, ← Real.exp_add, show rv x + -e = y by rw [hedef]; ring, hydef, Real.exp_log ha]
  have hAcv : A * c - 1 = rv v := by rw [hAc]; ring
  -- the size of A
  obtain ⟨c1, c2⟩ := abs_le.1 hc1
  have hAlo : 1 / 2 ^ 17 ≤ A := by
    have h1 : A * c ≤ A * (1 + 1 / 2 ^ 19) := mul_le_mul_of_nonneg_left (by linarith) hA.le
    have h2 : (1 : ℝ) / 2 ^ 17 * (1 + 1 / 2 ^ 19) ≤ 1 / 2 ^ 16 := by norm_num
    have h3 : (1 : ℝ) / 2 ^ 17 * (1 + 1 / 2 ^ 19) ≤ A * (1 + 1 / 2 ^ 19) := by linarith
    exact le_of_mul_le_mul_right h3 (by norm_num)
  have hAhi : A ≤ 2 ^ 963 := by
    have h1 : A * (1 - 1 / 2 ^ 19) ≤ A * c := mul_le_mul_of_nonneg_left (by linarith) hA.le
    have h2 : A * (1 / 2) ≤ A * (1 - 1 / 2 ^ 19) := mul_le_mul_of_nonneg_left (by norm_num) hA.le
    have h3 : (2 : ℝ) ^ 963 = 2 * 2 ^ 962 := by rw [pow_succ']
    linarith
  -- E
  obtain ⟨Evw, hEe⟩ := hE
  unfold corr1p
  generalize TwoFloat.exp_m1 x = Ex at *
  obtain ⟨tlo, thi, -⟩ := newton_t hA hc0 hc1 hdM hG hG0 hκ hEe
  have hEabs : |rv Ex| ≤ 2 ^ 964 := by
    rw [abs_le]
    have h3 : (2 : ℝ) ^ 964 = 2 * 2 ^ 963 := by rw [pow_succ']
    have h4 : (1 + 1 / 2 ^ 40) * A ≤ 2 * A := mul_le_mul_of_nonneg_right (by norm_num) hA.le
    have h5 : (0 : ℝ) ≤ (1 - 1 / 2 ^ 40) * A := mul_nonneg (by norm_num) hA.le
    have h6 : (1 : ℝ) ≤ 2 ^ 963 := one_le_pow₀ (by norm_num)
    constructor <;> linarith
  have p1000 : ∀ k : ℕ, k ≤ 1000 → (2 : ℝ) ^ k ≤ 2 ^ 1000 := fun k hk => pow_le_pow_right₀ (by norm_num) hk
  have hvabs : |rv v| ≤ 2 ^ 961 := by
    rw [abs_le]
    have : (1 : ℝ) ≤ 2 ^ 961 := one_le_pow₀ (by norm_num)
    constructor <;> linarith
  -- N = E − v, D = E + 1
  obtain ⟨Nvw, hN⟩ := sub_rv Evw hv (le_trans hEabs (p1000 _ (by norm_num))) (le_trans hvabs (p1000 _ (by norm_num)))
  obtain ⟨Dvw, hD⟩ := add_one_rv Evw (le_trans hEabs (p1000 _ (by norm_num)))
  have hNabs : |rv (arithmetic.impl_Sub_TwoFloat_for_TwoFloat.sub Ex v)| ≤ 2 ^ 966 := by
    have h1 : |rv Ex - rv v| ≤ 2 ^ 964 + 2 ^ 961 := le_trans (abs_sub _ _) (add_le_add hEabs hvabs)
    have h2 := abs_sub_abs_le_abs_sub (rv (arithmetic.impl_Sub_TwoFloat_for_TwoFloat.sub Ex v)) (rv Ex - rv v)
    have h3 : cA * |rv Ex - rv v| ≤ 1 * |rv Ex - rv v| :=
      mul_le_mul_of_nonneg_right (le_trans cA_le (by norm_num)) (abs_nonneg _)
    have h4 : (2 : ℝ) ^ 966 = 4 * 2 ^ 964 := by rw [show (966 : ℕ) = 964 + 2 from rfl, pow_add]; ring
    have h5 : (2 : ℝ) ^ 961 ≤ 2 ^ 964 := pow_le_pow_right₀ (by norm_num) (by norm_num)
    have h6 : (0 : ℝ) < 2 ^ 964 := by positivity
    linarith
  have hE1pos : 0 < rv Ex + 1 := lt_of_lt_of_le (mul_pos (by norm_num) hA) tlo
  have hD0 := hD
  rw [abs_of_pos hE1pos] at hD
  obtain ⟨d1, d2⟩ := abs_le.1 hD
  have hDlo : 1 / 2 ^ 17 ≤ |rv (arithmetic.impl_Add_f64_for_TwoFloat.add Ex (f64lit 0x3ff0000000000000))| := by
    have h1 : (1 - 1 / 2 ^ 40) * (1 / 2 ^ 16 / (1 + 1 / 2 ^ 19)) ≤ (1 - 1 / 2 ^ 40) * A := by
      apply mul_le_mul_of_nonneg_left _ (by norm_num)
      rw [div_le_iff₀ (by norm_num)]
      have h1 : A * c ≤ A * (1 + 1 / 2 ^ 19) := mul_le_mul_of_nonneg_left (by linarith) hA.le
      linarith
    have h2 : (1 : ℝ) / 2 ^ 17 ≤ (1 - 1 / 2 ^ 105) * ((1 - 1 / 2 ^ 40) * (1 / 2 ^ 16 / (1 + 1 / 2 ^ 19))) := by norm_num
    have h3 : (1 - 1 / 2 ^ 105) * ((1 - 1 / 2 ^ 40) * (1 / 2 ^ 16 / (1 + 1 / 2 ^ 19))) ≤ (1 - 1 / 2 ^ 105) * (rv Ex + 1) :=
      mul_le_mul_of_nonneg_left (le_trans h1 tlo) (by norm_num)
    have h4 : (1 - 1 / 2 ^ 105) * (rv Ex + 1) ≤ rv (arithmetic.impl_Add_f64_for_TwoFloat.add Ex (f64lit 0x3ff0000000000000)) := by
      linarith
    exact le_trans (le_trans h2 (le_trans h3 h4)) (le_abs_self _)
  have hDhi : |rv (arithmetic.impl_Add_f64_for_TwoFloat.add Ex (f64lit 0x3ff0000000000000))| ≤ 2 ^ 990 := by
    have h1 : rv (arithmetic.impl_Add_f64_for_TwoFloat.add Ex (f64lit 0x3ff0000000000000)) ≤ 2 * (rv Ex + 1) := by
      have : (1 : ℝ) / 2 ^ 105 * (rv Ex + 1) ≤ 1 * (rv Ex + 1) := mul_le_mul_of_nonneg_right (by norm_num) hE1pos.le
      linarith
    have h2 : (0 : ℝ) ≤ rv (arithmetic.impl_Add_f64_for_TwoFloat.add Ex (f64lit 0x3ff0000000000000)) := by
      have : (1 : ℝ) / 2 ^ 105 * (rv Ex + 1) ≤ 1 * (rv Ex + 1) := mul_le_mul_of_nonneg_right (by norm_num) hE1pos.le
      linarith
    rw [abs_of_nonneg h2]
    have h3 : rv Ex ≤ 2 ^ 964 := (abs_le.1 hEabs).2
    have h4 : (2 : ℝ) * (2 ^ 964 + 1) ≤ 2 ^ 990 := by
      have : (1 : ℝ) ≤ 2 ^ 964 := one_le_pow₀ (by norm_num)
      have e : (2 : ℝ) ^ 990 = 2 ^ 964 * 2 ^ 26 := by rw [← pow_add]
      rw [e]
      have : (0 : ℝ) < 2 ^ 964 := by positivity
      nlinarith
    linarith
  obtain ⟨Qvw, hQ⟩ := div_any Nvw Dvw (le_trans hNabs (pow_le_pow_right₀ (by norm_num) (by norm_num))) hDlo hDhi
  generalize arithmetic.impl_Sub_TwoFloat_for_TwoFloat.sub Ex v = Nx at *
  generalize arithmetic.impl_Add_f64_for_TwoFloat.add Ex (f64lit 0x3ff0000000000000) = Dx at *
  have hQabs : |rv (arithmetic.impl_Div_TwoFloat_for_TwoFloat.div Nx Dx)| ≤ 2 ^ 1000 := by
    have hDpos : 0 < |rv Dx| := lt_of_lt_of_le (by positivity) hDlo
    have h1 : |rv Nx / rv Dx| ≤ 2 ^ 983 := by
      rw [abs_div, div_le_iff₀ hDpos]
      have : (2 : ℝ) ^ 983 * (1 / 2 ^ 17) ≤ 2 ^ 983 * |rv Dx| := mul_le_mul_of_nonneg_left hDlo (by positivity)
      have e : (2 : ℝ) ^ 983 * (1 / 2 ^ 17) = 2 ^ 966 := by
        rw [show (983 : ℕ) = 966 + 17 from rfl, pow_add]; field_simp
      linarith
    have h2 := abs_sub_abs_le_abs_sub (rv (arithmetic.impl_Div_TwoFloat_for_TwoFloat.div Nx Dx)) (rv Nx / rv Dx)
    have h3 : (1 : ℝ) / 2 ^ 102 * |rv Nx / rv Dx| ≤ 1 * |rv Nx / rv Dx| :=
      mul_le_mul_of_nonneg_right (by norm_num) (abs_nonneg _)
    have h4 : (1 : ℝ) / 2 ^ 37 * min |rv Nx / rv Dx| (1 / 2 ^ 933) + 1 / 2 ^ 1017 ≤ 1 := by
      have m1 : min |rv Nx / rv Dx| (1 / 2 ^ 933) ≤ 1 / 2 ^ 933 := min_le_right _ _
      have m2 : (1 : ℝ) / 2 ^ 933 ≤ 1 / 2 := by
        apply one_div_le_one_div_of_le (by norm_num)
        calc (2 : ℝ) = 2 ^ 1 := by norm_num
          _ ≤ 2 ^ 933 := pow_le_pow_right₀ (by norm_num) (by norm_num)
      have m3 : (1 : ℝ) / 2 ^ 1017 ≤ 1 / 2 := by
        apply one_div_le_one_div_of_le (by norm_num)
        calc (2 : ℝ) = 2 ^ 1 := by norm_num
          _ ≤ 2 ^ 1017 := pow_le_pow_right₀ (by norm_num) (by norm_num)
      have m4 : (1 : ℝ) / 2 ^ 37 * min |rv Nx / rv Dx| (1 / 2 ^ 933) ≤ 1 * (1 / 2 ^ 933) :=
        mul_le_mul (by norm_num) m1 (le_min (abs_nonneg _) (by positivity)) (by norm_num)
      linarith
    have h5 : (2 : ℝ) ^ 1000 = 2 ^ 983 * 2 ^ 17 := by rw [← pow_add]
    have h6 : (0 : ℝ) < 2 ^ 983 := by positivity
    have h7 : (1 : ℝ) ≤ 2 ^ 983 := one_le_pow₀ (by norm_num)
    nlinarith
  have hxabs : |rv x| ≤ 2 ^ 1000 := by
    have h1 : |rv x| ≤ |y| + 1 / 2 ^ 20 := by
      have := abs_add_le y e
      rw [show y + e = rv x by rw [hedef]; ring] at this
      linarith
    have : (701 : ℝ) ≤ 2 ^ 1000 := le_trans (by norm_num) (p1000 10 (by norm_num))
    have : (1 : ℝ) / 2 ^ 20 ≤ 1 := by norm_num
    linarith
  obtain ⟨Xvw, hX⟩ := sub_rv hx Qvw hxabs hQabs
  rw [← hAcv] at hN
  have hxe : rv x = y + e := by rw [hedef]; ring
  rw [hxe] at hX
  obtain ⟨r1, r2⟩ := newton_real hA hc0 hce hc1 hdM hG hG0 hκ hEe hN hD0 (by positivity) (by norm_num) hQ hX
  have hmin0 : 0 ≤ min |rv Nx / rv Dx| (1 / 2 ^ 933) := le_min (abs_nonneg _) (by positivity)
  refine ⟨Qvw, Xvw, _, add_nonneg (mul_nonneg (by norm_num) hmin0) (by positivity), ?_, ?_, r1⟩
  · have m1 : min |rv Nx / rv Dx| (1 / 2 ^ 933) ≤ 1 / 2 ^ 933 := min_le_right _ _
    have m2 : (1 : ℝ) / 2 ^ 37 * min |rv Nx / rv Dx| (1 / 2 ^ 933) ≤ 1 / 2 ^ 37 * (1 / 2 ^ 933) :=
      mul_le_mul_of_nonneg_left m1 (by norm_num)
    have m3 : (1 : ℝ) / 2 ^ 37 * (1 / 2 ^ 933) = 1 / 2 ^ 970 := by rw [one_div_mul_one_div, ← pow_add]
    have m4 : (1 : ℝ) / 2 ^ 1017 ≤ 1 / 2 ^ 970 :=
      one_div_le_one_div_of_le (by positivity) (pow_le_pow_right₀ (by norm_num) (by norm_num))
    have m5 : (1 : ℝ) / 2 ^ 969 = 1 / 2 ^ 970 + 1 / 2 ^ 970 := by
      rw [show (970 : ℕ) = 969 + 1 from rfl, pow_succ]; field_simp; ring
    linarith
  · have m1 : min |rv Nx / rv Dx| (1 / 2 ^ 933) ≤ |rv Nx / rv Dx| := min_le_left _ _
    have m2 := le_trans m1 r2
    have m3 := mul_le_mul_of_nonneg_left m2 (by norm_num : (0 : ℝ) ≤ 1 / 2 ^ 37)
    have e6 : (1 : ℝ) / 2 ^ 37 * (2 * (|e| + e ^ 2 + dM * G * (1 + 1 / 2 ^ 18)))
        = 1 / 2 ^ 36 * (|e| + e ^ 2 + dM * G * (1 + 1 / 2 ^ 18)) := by
      rw [show (37 : ℕ) = 36 + 1 from rfl, pow_succ]; field_simp
    linarith

end step


/-! ## 9. `exp2` on the wider range `[−961, 1001]` (needed for `log2` of high words up to `2^960` and down to `2^-1000`)

The three statements below are `Exp2Bound.scale_pow2`, `final_real`, `exp2_bound_main` with the range constants changed. -/

section exp2wide
open F64 TwoFloat Exp2Bound

/-- scaling both words of `t ∈ [1/4, 4]` by the double `2^j·2^-1074` (`104 ≤ j ≤ 2075`, i.e. `2^-970 … 2^1001`; `Exp2Bound.scale_pow2` with a wider range)
followed by Fast2Sum: the high product is exact, the low product is one rounding -/
theorem scale_pow2W {t : TwoFloat} (ht : VW t) (h1 : 1 / 4 ≤ rv t) (h2 : rv t ≤ 4) (j : ℕ) (hj1 : 104 ≤ j)
    (hj2 : j ≤ 2075) :
    VW (arithmetic.fast_two_sum (F64.mul t.hi (fin false (2 ^ j))) (F64.mul t.lo (fin false (2 ^ j)))) ∧
    |rv (arithmetic.fast_two_sum (F64.mul t.hi (fin false (2 ^ j))) (F64.mul t.lo (fin false (2 ^ j))))
        - rv t * (2 ^ j / 2 ^ 1074)|
      ≤ 1001 / 1000 / 2 ^ 106 * (rv t * (2 ^ j / 2 ^ 1074)) + 1 / 2 ^ 1075 := by
  have hpos : 0 < rv t := by linarith
  have habs : |rv t| = rv t := abs_of_pos hpos
  obtain ⟨w1, w2, -, -⟩ := hi_window ht.1 (p := 2) (q := 2) (by norm_num) (by rw [habs]; norm_num; linarith)
    (by rw [habs]; norm_num; linarith)
  norm_num at w1 w2
  have hUi := unit_pos_int
  have hUe : (unit : Int) = 2 ^ 1074 := C01d.unit_int_eq
  have hM : (2 : Int) ^ 2097 ≤ (maxFin : Int) := two_pow_2097_le_maxFin_int
  -- the power of two as a double
  have hPv : IsVal (fin false (2 ^ j)) ((2 : Int) ^ j) := ⟨rfl, by show ((2 ^ j : Nat) : Int) = _; push_cast; rfl⟩
  have hPpos : (0 : Int) < 2 ^ j := by positivity
  have hPle : (2 : Int) ^ j ≤ 2 ^ 2075 := pow_le_pow_right₀ (by norm_num) hj2
  -- the high word is a multiple of 2^970
  have hdvd : (2 : Int) ^ 970 ∣ t.hi.toInt := by
    apply dvd_hi_of_large ht.2
    have : (2 : Int) ^ 1071 ≤ |t.hi.toInt| := w1
    rw [← Int.natCast_natAbs] at this
    have h3 : 2 ^ 1071 ≤ t.hi.toInt.natAbs := by exact_mod_cast this
    exact le_trans (by norm_num) h3
  obtain ⟨h', hh'⟩ := hdvd
  have hh'r : RepI h' := by
    have := ht.2.1.repI
    rw [hh', mul_comm] at this
    exact repI_mul_pow2_iff.1 this
  have hHU : t.hi.toInt * 2 ^ j = (h' * 2 ^ (j - 104)) * (unit : Int) := by
    rw [hh', hUe]
    have e : (2 : Int) ^ 970 * h' * 2 ^ j = h' * (2 ^ 970 * 2 ^ j) := by ring
    have e2 : h' * 2 ^ (j - 104) * 2 ^ 1074 = h' * (2 ^ (j - 104) * 2 ^ 1074) := by ring
    have e3 : 970 + j = (j - 104) + 1074 := by omega
    rw [e, e2, ← pow_add, ← pow_add, e3]
  set H := h' * 2 ^ (j - 104) with hH
  have hHabsU : |H| * (unit : Int) = |t.hi.toInt| * 2 ^ j := by
    rw [← abs_mul_pos_right _ hUi, ← hHU, abs_mul_pos_right _ hPpos]
  have hHhi : |H| ≤ 2 ^ 2078 := by
    have : |H| * (unit : Int) ≤ 2 ^ 1077 * 2 ^ 2075 := by
      rw [hHabsU]; exact mul_le_mul w2 hPle hPpos.le (by positivity)
    rw [hUe] at this
    have e : (2 : Int) ^ 1077 * 2 ^ 2075 = 2 ^ 2078 * 2 ^ 1074 := by rw [← pow_add, ← pow_add]
    rw [e] at this
    exact le_of_mul_le_mul_right this (by positivity)
  have hA : IsVal (F64.mul t.hi (fin false (2 ^ j))) H :=
    (IsVal.of_finite ht.1.1).mul_exact hPv hHU (repI_mul_pow2_iff.2 hh'r)
      (le_trans hHhi (le_trans (by norm_num) hM))
  -- the low word
  have hxl := two_pow_mul_abs_le_of_half_ulp ht.1.two_mul_abs_lo_le
  have hloP : |t.lo.toInt * 2 ^ j| ≤ 2 ^ 2025 * (unit : Int) := by
    rw [abs_mul_pos_right _ hPpos, hUe]
    have hl : |t.lo.toInt| ≤ 2 ^ 1024 := by
      have := abs_nonneg t.lo.toInt
      norm_num at hxl w2 ⊢
      omega
    calc |t.lo.toInt| * 2 ^ j ≤ 2 ^ 1024 * 2 ^ 2075 := mul_le_mul hl hPle hPpos.le (by positivity)
      _ = 2 ^ 2025 * 2 ^ 1074 := by rw [← pow_add, ← pow_add]
  have hB : IsVal (F64.mul t.lo (fin false (2 ^ j))) (rqI (t.lo.toInt * 2 ^ j) unit) := by
    have := mul_spec ht.1.2.1 hPv.1 (by
      rw [hPv.2]; exact roundQ_le_maxFin_of_abs_le 2025 (by norm_num) unit_pos hloP)
    rw [hPv.2] at this
    exact this
  set L := rqI (t.lo.toInt * 2 ^ j) unit with hL
  have eL := rqI_err_gen (t.lo.toInt * 2 ^ j) unit_pos
  rw [← hL] at eL
  have hAlo : 2 ^ 53 * |t.lo.toInt * 2 ^ j| ≤ |H| * (unit : Int) := by
    rw [hHabsU, abs_mul_pos_right _ hPpos]
    have := mul_le_mul_of_nonneg_right hxl hPpos.le
    linarith
  have hLH : |L| ≤ |H| := by
    by_contra hc
    have hc' : (|H| + 1) * (unit : Int) ≤ |L| * (unit : Int) := mul_le_mul_of_nonneg_right (by omega) hUi.le
    rw [add_mul, one_mul] at hc'
    have t1 : |L| * (unit : Int) ≤ |L * (unit : Int) - t.lo.toInt * 2 ^ j| + |t.lo.toInt * 2 ^ j| := by
      have := abs_add_le (L * (unit : Int) - t.lo.toInt * 2 ^ j) (t.lo.toInt * 2 ^ j)
      rw [show L * (unit : Int) - t.lo.toInt * 2 ^ j + t.lo.toInt * 2 ^ j = L * (unit : Int) by ring,
        abs_mul_pos_right _ hUi] at this
      exact this
    have hn := abs_nonneg H
    have hHU0 : 0 ≤ |H| * (unit : Int) := mul_nonneg hn hUi.le
    generalize |L * (unit : Int) - t.lo.toInt * 2 ^ j| = E at *
    generalize |t.lo.toInt * 2 ^ j| = A at *
    generalize |H| * (unit : Int) = HU at *
    generalize |L| * (unit : Int) = LU at *
    generalize (unit : Int) = U at *
    linarith
  have hf2 := fast_two_sum_words hA.1 hB.1 (mul_WF _ _) (mul_WF _ _)
    (by rw [hA.2, hB.2]; exact hLH)
    (by
      rw [hA.2, hB.2]
      apply rn53_natAbs_le_maxFin
      have := abs_add_le H L
      have e : (2 : Int) * 2 ^ 2078 ≤ 2 ^ 2097 := by norm_num
      omega)
  rw [hA.2, hB.2] at hf2
  obtain ⟨-, pV, pValid, pWF⟩ := eft_package hf2.1 hf2.2 (fast_two_sum_WF _ _).1 (fast_two_sum_WF _ _).2
  refine ⟨⟨pValid, pWF⟩, ?_⟩
  generalize arithmetic.fast_two_sum (F64.mul t.hi (fin false (2 ^ j))) (F64.mul t.lo (fin false (2 ^ j))) = R at *
  -- to the reals
  obtain ⟨b1, -⟩ := PowiBound.hi_bounds ht.1
  have hUr : (0 : ℝ) < 2 ^ 1074 := by positivity
  have hPr : (0 : ℝ) < 2 ^ j := by positivity
  rw [hUe] at eL hHU
  have r1 : (2 : ℝ) ^ 53 * |(L : ℝ) * 2 ^ 1074 - (t.lo.toInt : ℝ) * 2 ^ j| ≤ 2 ^ 52 * 2 ^ 1074
      + |(t.lo.toInt : ℝ) * 2 ^ j| := by exact_mod_cast eL
  have r2 : (t.hi.toInt : ℝ) * 2 ^ j = (H : ℝ) * 2 ^ 1074 := by exact_mod_cast hHU
  have r3 : ((2 : ℝ) ^ 53 - 1) * |(t.hi.toInt : ℝ)| ≤ 2 ^ 53 * |(t.V : ℝ)| := by exact_mod_cast b1
  have r4 : (2 : ℝ) ^ 53 * |(t.lo.toInt : ℝ)| ≤ |(t.hi.toInt : ℝ)| := by exact_mod_cast hxl
  have hVt : (t.V : ℝ) = (t.hi.toInt : ℝ) + (t.lo.toInt : ℝ) := by unfold TwoFloat.V; push_cast; ring
  have hVR : (R.V : ℝ) = (H : ℝ) + (L : ℝ) := by exact_mod_cast pV
  have hVpos : (0 : ℝ) < (t.V : ℝ) := by
    have : rv t = (t.V : ℝ) / 2 ^ 1074 := rfl
    rw [this] at hpos
    exact (div_pos_iff_of_pos_right hUr).1 hpos
  unfold rv
  have e1 : (R.V : ℝ) / 2 ^ 1074 - (t.V : ℝ) / 2 ^ 1074 * (2 ^ j / 2 ^ 1074)
      = ((L : ℝ) * 2 ^ 1074 - (t.lo.toInt : ℝ) * 2 ^ j) / (2 ^ 1074 * 2 ^ 1074) := by
    rw [hVR, hVt]; field_simp; linarith
  have e2 : (t.V : ℝ) / 2 ^ 1074 * (2 ^ j / 2 ^ 1074) = ((t.V : ℝ) * 2 ^ j) / (2 ^ 1074 * 2 ^ 1074) := by
    field_simp
  have e3 : (1 : ℝ) / 2 ^ 1075 = (2 ^ 1074 / 2) / (2 ^ 1074 * 2 ^ 1074) := by
    rw [show (2 : ℝ) ^ 1075 = 2 ^ 1074 * 2 by norm_num]; field_simp
  rw [e1, e2, e3, abs_div, abs_of_pos (by positivity : (0 : ℝ) < 2 ^ 1074 * 2 ^ 1074), ← mul_div_assoc, ← add_div,
    div_le_div_iff_of_pos_right (by positivity)]
  rw [abs_mul, abs_of_pos hPr] at r1
  rw [abs_of_pos hVpos] at r3
  generalize |(L : ℝ) * 2 ^ 1074 - (t.lo.toInt : ℝ) * 2 ^ j| = E at *
  generalize |(t.lo.toInt : ℝ)| = A at *
  have hB0 : 0 ≤ |(t.hi.toInt : ℝ)| := abs_nonneg _
  generalize |(t.hi.toInt : ℝ)| = B at *
  generalize (t.V : ℝ) = W at *
  generalize (2 : ℝ) ^ j = P at *
  generalize (2 : ℝ) ^ 1074 = U at *
  have k1 : E ≤ U / 2 + A * P / 2 ^ 53 := by
    rw [show U / 2 + A * P / 2 ^ 53 = (2 ^ 52 * U + A * P) / 2 ^ 53 by ring, le_div_iff₀ (by positivity)]
    linarith
  have k2 : A ≤ B / 2 ^ 53 := by rw [le_div_iff₀ (by positivity)]; linarith
  have k3 : B ≤ 2 ^ 53 / (2 ^ 53 - 1) * W := by
    rw [div_mul_eq_mul_div, le_div_iff₀ (by norm_num)]; linarith
  have k4 : A * P / 2 ^ 53 ≤ 1001 / 1000 / 2 ^ 106 * (W * P) := by
    have h3 : A ≤ (2 ^ 53 / (2 ^ 53 - 1) * W) / 2 ^ 53 :=
      le_trans k2 (div_le_div_of_nonneg_right k3 (by positivity))
    have h4 : A * P / 2 ^ 53 ≤ ((2 ^ 53 / (2 ^ 53 - 1) * W) / 2 ^ 53) * P / 2 ^ 53 :=
      div_le_div_of_nonneg_right (mul_le_mul_of_nonneg_right h3 hPr.le) (by positivity)
    have h5 : ((2 ^ 53 / (2 ^ 53 - 1) * W) / 2 ^ 53) * P / 2 ^ 53
        = (2 ^ 53 / (2 ^ 53 - 1) / 2 ^ 53 / 2 ^ 53) * (W * P) := by ring
    have h6 : (2 : ℝ) ^ 53 / (2 ^ 53 - 1) / 2 ^ 53 / 2 ^ 53 ≤ 1001 / 1000 / 2 ^ 106 := by norm_num
    have h7 : (2 ^ 53 / (2 ^ 53 - 1) / 2 ^ 53 / 2 ^ 53) * (W * P) ≤ 1001 / 1000 / 2 ^ 106 * (W * P) :=
      mul_le_mul_of_nonneg_right h6 (by positivity)
    linarith
  linarith


/-- real-number core of the last step -/
theorem final_realW {res t E S eps : ℝ} (hE : 3 / 10 ≤ E) (hS : 1 / 2 ^ 970 ≤ S) (ht : |t - E| ≤ eps * E)
    (_heps0 : 0 ≤ eps) (heps : eps ≤ 5631 / 2 ^ 106)
    (hres : |res - t * S| ≤ 1001 / 1000 / 2 ^ 106 * (t * S) + 1 / 2 ^ 1075) :
    |res - E * S| ≤ 5640 / 2 ^ 106 * (E * S) := by
  have hE0 : 0 < E := by linarith
  have hS0 : 0 < S := lt_of_lt_of_le (by positivity) hS
  have hG : 0 < E * S := mul_pos hE0 hS0
  have hGlo : 3 / 10 * (1 / 2 ^ 970) ≤ E * S := mul_le_mul hE hS (by positivity) hE0.le
  obtain ⟨t1, t2⟩ := abs_le.1 ht
  have htS : t * S ≤ (1 + eps) * (E * S) := by
    have : t ≤ (1 + eps) * E := by linarith
    calc t * S ≤ (1 + eps) * E * S := mul_le_mul_of_nonneg_right this hS0.le
      _ = (1 + eps) * (E * S) := by ring
  have h1 : |t * S - E * S| ≤ eps * (E * S) := by
    rw [← sub_mul, abs_mul, abs_of_pos hS0]
    calc |t - E| * S ≤ eps * E * S := mul_le_mul_of_nonneg_right ht hS0.le
      _ = eps * (E * S) := by ring
  have h2 := abs_add_le (res - t * S) (t * S - E * S)
  rw [show res - t * S + (t * S - E * S) = res - E * S by ring] at h2
  have h3 : (1001 : ℝ) / 1000 / 2 ^ 106 * (t * S) ≤ 1001 / 1000 / 2 ^ 106 * ((1 + eps) * (E * S)) :=
    mul_le_mul_of_nonneg_left htS (by positivity)
  have h4 : (1 : ℝ) / 2 ^ 1075 ≤ 7 / 2 ^ 106 * (E * S) := by
    have : (7 : ℝ) / 2 ^ 106 * (3 / 10 * (1 / 2 ^ 970)) ≤ 7 / 2 ^ 106 * (E * S) :=
      mul_le_mul_of_nonneg_left hGlo (by positivity)
    refine le_trans ?_ this
    norm_num
  have h5 : (1001 : ℝ) / 1000 / 2 ^ 106 * ((1 + eps) * (E * S)) ≤ 1002 / 1000 / 2 ^ 106 * (E * S) := by
    rw [← mul_assoc]
    refine mul_le_mul_of_nonneg_right ?_ hG.le
    have : (1001 : ℝ) / 1000 / 2 ^ 106 * (1 + eps) ≤ 1001 / 1000 / 2 ^ 106 * (1 + 5631 / 2 ^ 106) :=
      mul_le_mul_of_nonneg_left (by linarith) (by positivity)
    refine le_trans this ?_
    norm_num
  have h6 : eps * (E * S) ≤ 5631 / 2 ^ 106 * (E * S) := mul_le_mul_of_nonneg_right heps hG.le
  have e : (5640 : ℝ) / 2 ^ 106 * (E * S)
      = 1002 / 1000 / 2 ^ 106 * (E * S) + 7 / 2 ^ 106 * (E * S) + 5631 / 2 ^ 106 * (E * S)
        + 998 / 1000 / 2 ^ 106 * (E * S) := by ring
  have h7 : (0 : ℝ) ≤ 998 / 1000 / 2 ^ 106 * (E * S) := by positivity
  linarith

/-- **accuracy of `TwoFloat::exp2` on the wider range `−961 ≤ x ≤ 1001`** (`Exp2Bound.exp2_bound_main` has `[−900, 1000]`):
relative `5640u²` (the rounding of the scaled low word in the subnormal range costs `7u²` instead of `0.001u²`) -/
theorem exp2_bound_wide (x : TwoFloat) (hv : x.Valid) (hw : x.WF) (hlo : -961 ≤ rv x) (hhi : rv x ≤ 1001) :
    VW (TwoFloat.exp2 x) ∧
    |rv (TwoFloat.exp2 x) - Real.exp (rv x * Real.log 2)| ≤ 5640 / 2 ^ 106 * Real.exp (rv x * Real.log 2) := by
  have hU : (0 : ℝ) < 2 ^ 1074 := by positivity
  have hUi := unit_pos_int
  have hUe : (unit : Int) = 2 ^ 1074 := C01d.unit_int_eq
  -- integer bounds on the value and on the words
  have hV1 : -961 * 2 ^ 1074 ≤ x.V := by
    have h : (-961 : ℝ) * 2 ^ 1074 ≤ (x.V : ℝ) := by
      have := hlo; unfold rv at this; rwa [le_div_iff₀ hU] at this
    exact_mod_cast h
  have hV2 : x.V ≤ 1001 * 2 ^ 1074 := by
    have h : (x.V : ℝ) ≤ 1001 * 2 ^ 1074 := by
      have := hhi; unfold rv at this; rwa [div_le_iff₀ hU] at this
    exact_mod_cast h
  have hxl := two_pow_mul_abs_le_of_half_ulp hv.two_mul_abs_lo_le
  obtain ⟨b1, -⟩ := PowiBound.hi_bounds hv
  have e1074 : (2 : ℤ) ^ 1074 = 2 ^ 53 * 2 ^ 1021 := by norm_num
  have hT : (0 : ℤ) < 2 ^ 1021 := by positivity
  have hVabs : |x.V| ≤ 1001 * 2 ^ 1074 := abs_le.2 ⟨by linarith, hV2⟩
  have hhiabs : |x.hi.toInt| ≤ 1002 * 2 ^ 1074 := by
    rw [e1074] at hVabs ⊢
    generalize (2 : ℤ) ^ 1021 = T at *
    have := abs_nonneg x.hi.toInt
    norm_num at b1 ⊢
    omega
  have hloabs : |x.lo.toInt| ≤ 1002 * 2 ^ 1021 := by
    rw [e1074] at hhiabs
    generalize (2 : ℤ) ^ 1021 = T at *
    have := abs_nonneg x.lo.toInt
    norm_num at hxl ⊢
    omega
  rw [C14p.exp2_unfold]
  -- the two range tests
  have c1 : ROrd.isLt (base.impl_PartialOrd_f64_for_TwoFloat.partial_cmp x
      (F64.neg (f64lit 0x4090c80000000000))) = false := by
    rw [C14p.lit_m1074, partial_cmp_tf_exact_of F64.roundFacts hv
      (show (fin true (1074 * F64.unit)).WF by decide +kernel) rfl, Bool.eq_false_iff]
    intro hc
    have := ROrd.isLt_ofInts.1 hc
    have e : (fin true (1074 * F64.unit)).toInt = -1074 * (F64.unit : Int) := by
      show -((1074 * F64.unit : Nat) : Int) = _; push_cast; ring
    rw [e, hUe] at this
    have hP : (0 : ℤ) < 2 ^ 1074 := by positivity
    generalize (2 : ℤ) ^ 1074 = P at *
    omega
  have c2 : ROrd.isGe (base.impl_PartialOrd_f64_for_TwoFloat.partial_cmp x
      (f64lit 0x408ff80000000000)) = false := by
    rw [C14p.lit_1023, partial_cmp_tf_exact_of F64.roundFacts hv
      (show (fin false (1023 * F64.unit)).WF by decide +kernel) rfl, Bool.eq_false_iff]
    intro hc
    have := ROrd.isGe_ofInts.1 hc
    have e : (fin false (1023 * F64.unit)).toInt = 1023 * (F64.unit : Int) := by
      show ((1023 * F64.unit : Nat) : Int) = _; push_cast; ring
    rw [e, hUe] at this
    have hP : (0 : ℤ) < 2 ^ 1074 := by positivity
    generalize (2 : ℤ) ^ 1074 = P at *
    omega
  rw [c1, c2, if_neg Bool.false_ne_true, if_neg Bool.false_ne_true]
  -- k = round(x.hi)
  obtain ⟨q, kf, kq, knear, -⟩ := round_val hv.1
  rw [hUe] at kq knear
  have kWF : (F64.round x.hi).WF := C08.WF_round hw.1
  have hVhl : x.V = x.hi.toInt + x.lo.toInt := rfl
  have hnearV : 2 * |x.V - q * 2 ^ 1074| ≤ 2 ^ 1074 + 2004 * 2 ^ 1021 := by
    have e : x.V - q * 2 ^ 1074 = -(q * 2 ^ 1074 - x.hi.toInt) + x.lo.toInt := by rw [hVhl]; ring
    have := abs_add_le (-(q * 2 ^ 1074 - x.hi.toInt)) x.lo.toInt
    rw [abs_neg, ← e] at this
    linarith
  have hUT : (2 : ℤ) ^ 1074 = 9007199254740992 * 2 ^ 1021 := by norm_num
  have hq1 : -961 ≤ q := by
    have h1 : (-962) * (2 : ℤ) ^ 1074 < q * 2 ^ 1074 := by
      have := le_abs_self (x.V - q * 2 ^ 1074)
      clear hVabs hhiabs hloabs e1074 kq knear hUe hVhl b1 hxl
      generalize q * (2 : ℤ) ^ 1074 = QU at *
      generalize (2 : ℤ) ^ 1074 = U at *
      generalize (2 : ℤ) ^ 1021 = T at *
      generalize |x.V - QU| = D at *
      omega
    have := lt_of_mul_lt_mul_right h1 (by positivity : (0 : ℤ) ≤ 2 ^ 1074)
    omega
  have hq2 : q ≤ 1001 := by
    have h1 : q * (2 : ℤ) ^ 1074 < 1002 * 2 ^ 1074 := by
      have := neg_abs_le (x.V - q * 2 ^ 1074)
      clear hVabs hhiabs hloabs e1074 kq knear hUe hVhl b1 hxl
      generalize q * (2 : ℤ) ^ 1074 = QU at *
      generalize (2 : ℤ) ^ 1074 = U at *
      generalize (2 : ℤ) ^ 1021 = T at *
      generalize |x.V - QU| = D at *
      omega
    have := lt_of_mul_lt_mul_right h1 (by positivity : (0 : ℤ) ≤ 2 ^ 1074)
    omega
  -- δ = x − k
  have hfvk : fv (F64.round x.hi) = (q : ℝ) := by
    unfold fv; rw [kq]
    simp only [Int.cast_mul, Int.cast_pow, Int.cast_ofNat]
    exact mul_div_cancel_right₀ (q : ℝ) (by positivity : ((2 : ℝ) ^ 1074) ≠ 0)
  set δ := rv x - (q : ℝ) with hδ
  have hδabs : |δ| ≤ 501 / 1000 := by
    have h : (2 : ℝ) * |(x.V : ℝ) - (q : ℝ) * 2 ^ 1074| ≤ 2 ^ 1074 + 2004 * 2 ^ 1021 := by exact_mod_cast hnearV
    have e : δ = ((x.V : ℝ) - (q : ℝ) * 2 ^ 1074) / 2 ^ 1074 := by
      rw [hδ]; unfold rv; field_simp
    rw [e, abs_div, abs_of_pos hU, div_le_iff₀ hU]
    have e2 : (2 : ℝ) ^ 1074 = 2 ^ 53 * 2 ^ 1021 := by norm_num
    rw [e2] at h ⊢
    have hT' : (0 : ℝ) < 2 ^ 1021 := by positivity
    generalize (2 : ℝ) ^ 1021 = T at *
    norm_num at h ⊢
    linarith
  have hxabs : |rv x| ≤ 2 ^ 1000 := by
    have : |rv x| ≤ 1001 := abs_le.2 ⟨by linarith, hhi⟩
    exact le_trans this (by norm_num)
  have hkb : (F64.round x.hi).toInt.natAbs < 2 ^ 2095 := by
    rw [kq]
    apply natAbs_lt_of_abs_lt
    rw [abs_mul, abs_of_pos (by positivity : (0 : ℤ) < 2 ^ 1074)]
    have : |q| ≤ 1001 := abs_le.2 ⟨by omega, hq2⟩
    calc |q| * 2 ^ 1074 ≤ 1001 * 2 ^ 1074 := by nlinarith
      _ < 2 ^ 2095 := by norm_num
  obtain ⟨svw, hs⟩ := sub_tf_rv ⟨hv, hw⟩ kf kWF hxabs hkb
  rw [hfvk] at hs
  generalize hsdef : arithmetic.impl_Sub_f64_for_TwoFloat.sub x (F64.round x.hi) = s at *
  -- m = s · LN_2
  obtain ⟨lnvw, hl⟩ := LN_2_vw
  obtain ⟨l1, l2⟩ := log_two_range
  have hsabs : |rv s| ≤ 1 := by
    have := abs_sub_abs_le_abs_sub (rv s) δ
    have h2 : (1 : ℝ) / 2 ^ 105 * |δ| ≤ 1 / 2 ^ 105 * (501 / 1000) := mul_le_mul_of_nonneg_left hδabs (by positivity)
    have e : (1 : ℝ) / 2 ^ 105 * (501 / 1000) + 501 / 1000 ≤ 1 := by norm_num
    linarith
  have hlabs : |rv consts.LN_2| ≤ 1 := by
    have := abs_sub_abs_le_abs_sub (rv consts.LN_2) (Real.log 2)
    rw [abs_sub_comm] at hl
    rw [abs_of_pos (by linarith : (0 : ℝ) < Real.log 2)] at this hl
    have : Real.log 2 / 2 ^ 107 ≤ 1 / 10 := by
      rw [div_le_iff₀ (by positivity)]; norm_num; linarith
    linarith
  have hprod : |rv s * rv consts.LN_2| ≤ 2 ^ 1019 := by
    rw [abs_mul]
    calc |rv s| * |rv consts.LN_2| ≤ 1 * 1 := mul_le_mul hsabs hlabs (abs_nonneg _) (by norm_num)
      _ ≤ 2 ^ 1019 := by norm_num
  obtain ⟨mvw, hm⟩ := mul_rv svw lnvw hprod
  generalize hmdef : arithmetic.impl_Mul_TwoFloat_for_TwoFloat.mul s consts.LN_2 = m at *
  -- r = m / 512
  obtain ⟨rvw, hr⟩ := div_pow2_gen mvw lit512_isVal (by norm_num) (by norm_num)
  generalize hrdef : arithmetic.impl_Div_f64_for_TwoFloat.div m (f64lit 0x4080000000000000) = r at *
  obtain ⟨hrρ, hrabs⟩ := reduce_real hδabs hs hl hm hr
  set ρ := δ * Real.log 2 / 512 with hρdef
  have hρabs : |ρ| ≤ 35 / 100 / 512 := by
    rw [hρdef, abs_div, abs_of_pos (by norm_num : (0 : ℝ) < 512)]
    refine div_le_div_of_nonneg_right ?_ (by norm_num)
    rw [abs_mul, abs_of_pos (by linarith : (0 : ℝ) < Real.log 2)]
    calc |δ| * Real.log 2 ≤ 501 / 1000 * (6932 / 10000) := mul_le_mul hδabs l2 (by linarith) (by norm_num)
      _ ≤ 35 / 100 := by norm_num
  -- the polynomial
  rw [polyFold_eq2]
  obtain ⟨pvw, hp⟩ := horner2_bound rvw hrabs
  have hp0 := p0_real hρabs hrρ hp
  -- nine squarings
  obtain ⟨tvw, ht⟩ := sq_iter pvw hρabs hp0 9 (le_refl _)
  have e512 : (2 : ℝ) ^ 9 * ρ = δ * Real.log 2 := by rw [hρdef]; norm_num; ring
  rw [e512] at ht
  have hδl : |δ * Real.log 2| ≤ 35 / 100 := by
    rw [← e512, abs_mul, abs_of_pos (by positivity : (0 : ℝ) < 2 ^ 9)]
    calc (2 : ℝ) ^ 9 * |ρ| ≤ 2 ^ 9 * (35 / 100 / 512) := mul_le_mul_of_nonneg_left hρabs (by positivity)
      _ = 35 / 100 := by norm_num
  obtain ⟨E1, E2⟩ := exp_range_small hδl
  have heb9 := eb_nine
  have heb0 := eb_nonneg 9
  unfold C14p.exp2Tail
  rw [sq9_eq]
  generalize hp0def : hp2 r 11 = p0 at *
  generalize htdef : sqn 9 p0 = t at *
  have hxq : rv x = (q : ℝ) + δ := by rw [hδ]; ring
  by_cases hq0 : q = 0
  · have : (F64.round x.hi ==. f64lit 0x0000000000000000) = true := by
      rw [req_eq, Ident.f64lit_zero, eq_iff_toInt kf rfl, kq, hq0, toInt_zero]; ring
    rw [this, if_pos rfl]
    refine ⟨tvw, ?_⟩
    have e : rv x * Real.log 2 = δ * Real.log 2 := by rw [hxq, hq0]; push_cast; ring
    rw [e]
    refine le_trans ht ?_
    exact mul_le_mul_of_nonneg_right (le_trans heb9 (by norm_num)) (Real.exp_pos _).le
  · have hne : (F64.round x.hi ==. f64lit 0x0000000000000000) = false := by
      rw [req_eq, Ident.f64lit_zero, Bool.eq_false_iff]
      intro hc
      have := (eq_iff_toInt kf rfl).1 hc
      rw [kq, toInt_zero] at this
      rcases mul_eq_zero.1 this with h | h
      · exact hq0 h
      · have : (0 : ℤ) < 2 ^ 1074 := by positivity
        omega
    rw [hne]
    simp only [Bool.false_eq_true, if_false]
    have hcast : (RCast.cast (F64.round x.hi) : I32) = ⟨q⟩ :=
      PF.cast_f64_i32 kf (by rw [kq, hUe]) (by omega)
    rw [hcast, C14p.mul_pow2_eq _ q (by omega) (by omega), C14p.mul_pow2_eq _ q (by omega) (by omega)]
    obtain ⟨j, hj⟩ : ∃ j : ℕ, (q + 1074).toNat = j := ⟨_, rfl⟩
    have hjq : (j : ℤ) = q + 1074 := by omega
    rw [hj]
    -- the range of t
    obtain ⟨t1, t2⟩ := abs_le.1 ht
    have hsm : eb 9 * Real.exp (δ * Real.log 2) ≤ 1 / 100 := by
      have : eb 9 ≤ 1 / 200 := le_trans heb9 (by norm_num)
      nlinarith
    obtain ⟨svw', hsc⟩ := scale_pow2W tvw (by linarith) (by linarith) j (by omega) (by omega)
    refine ⟨svw', ?_⟩
    have hS := exp_int_log_two q j hjq
    have hSlo : (1 : ℝ) / 2 ^ 970 ≤ 2 ^ j / 2 ^ 1074 := by
      rw [div_le_div_iff₀ (by positivity) (by positivity), one_mul, ← pow_add]
      exact pow_le_pow_right₀ (by norm_num) (by omega)
    have core := final_realW E1 hSlo ht heb0 heb9 hsc
    have e : rv x * Real.log 2 = δ * Real.log 2 + (q : ℝ) * Real.log 2 := by rw [hxq]; ring
    rw [e, Real.exp_add, hS]
    exact core


end exp2wide


/-! ## 10. `log2` with the wider `exp2` range: `Log2Bound.log2_step` / `log2_bound_of` for high words in `[2^-1000, 2^960]` -/

section log2wide
open F64 TwoFloat

/-- accuracy hypothesis on `exp2` over `[−961, 1001]` -/
def Exp2AccW (dE : ℝ) : Prop :=
  ∀ y : TwoFloat, y.Valid → y.WF → -961 ≤ rv y → rv y ≤ 1001 →
    VW (TwoFloat.exp2 y) ∧
    |rv (TwoFloat.exp2 y) - Real.exp (rv y * Real.log 2)| ≤ dE * Real.exp (rv y * Real.log 2)

theorem exp2_accW : Exp2AccW (5640 / 2 ^ 106) := fun y hv hw h1 h2 => exp2_bound_wide y hv hw h1 h2

/-- **one Newton step of `log2` on pairs**, `x ← x + (v·exp2(−x) − 1)·FRAC_1_LN_2`, with `ℓ = log₂ v ∈ [−1000.5, 960.5]` (`Log2Bound.log2_step` with the wider `exp2` range) -/
theorem log2_stepW {dE : ℝ} (H : Exp2AccW dE) (hdE0 : 0 ≤ dE) (hdE : dE ≤ 1 / 2 ^ 80)
    {v x : TwoFloat} (hv : VW v) (hx : VW x) (hpos : 0 < rv v)
    (hL1 : -(10005 / 10) ≤ Real.log (rv v) / Real.log 2) (hL2 : Real.log (rv v) / Real.log 2 ≤ 9605 / 10)
    (he : |rv x - Real.log (rv v) / Real.log 2| ≤ 1 / 2 ^ 20) :
    VW (arithmetic.impl_Add_TwoFloat_for_TwoFloat.add x (Log2Bound.corr2 v x)) ∧
    |rv (arithmetic.impl_Add_TwoFloat_for_TwoFloat.add x (Log2Bound.corr2 v x)) - Real.log (rv v) / Real.log 2|
      ≤ 7 / 10 * (rv x - Real.log (rv v) / Real.log 2) ^ 2 + 14431 / 10000 * dE + 11 / 2 ^ 106
        + 4 / 2 ^ 106 * |Real.log (rv v) / Real.log 2| := by
  obtain ⟨hc1, hc2⟩ := Log2Bound.log_two_range
  have hc0 : 0 < Real.log 2 := by linarith
  set c := Real.log 2 with hc
  set ℓ := Real.log (rv v) / c with hℓ
  obtain ⟨e1, e2⟩ := abs_le.1 he
  have h20 : (1 : ℝ) / 2 ^ 20 ≤ 1 / 10 := by norm_num
  have hN := VW_neg hx
  have hNr := rv_neg x
  obtain ⟨hE, hEb⟩ := H (arithmetic.impl_Neg_for_TwoFloat.neg x) hN.1 hN.2
    (by rw [hNr]; linarith) (by rw [hNr]; linarith)
  rw [hNr] at hEb
  have hvexp : Real.exp (ℓ * c) = rv v := by
    rw [hℓ, div_mul_cancel₀ _ hc0.ne', Real.exp_log hpos]
  have eqx : -rv x * c = -(ℓ * c + (rv x - ℓ) * c) := by ring
  rw [eqx] at hEb
  unfold Log2Bound.corr2
  generalize TwoFloat.exp2 (arithmetic.impl_Neg_for_TwoFloat.neg x) = Ex at *
  -- the product v·E ∈ [1/2, 2]
  have hec : |(rv x - ℓ) * c| ≤ 1 / 2 ^ 19 := by
    rw [abs_mul, abs_of_pos hc0]
    calc |rv x - ℓ| * c ≤ 1 / 2 ^ 20 * 1 := mul_le_mul he (by linarith) hc0.le (by positivity)
      _ ≤ 1 / 2 ^ 19 := by norm_num
  have hd37 : dE ≤ 1 / 2 ^ 80 := hdE
  have hr12 : 1 / 2 ≤ rv v * rv Ex ∧ rv v * rv Ex ≤ 2 := by
    have ht := Real.exp_pos (-((rv x - ℓ) * c))
    have et : Real.exp (ℓ * c) * Real.exp (-(ℓ * c + (rv x - ℓ) * c)) = Real.exp (-((rv x - ℓ) * c)) := by
      rw [← Real.exp_add]; congr 1; ring
    have hvp := Real.exp_pos (ℓ * c)
    have h1 : |Real.exp (ℓ * c) * rv Ex - Real.exp (-((rv x - ℓ) * c))| ≤ dE * Real.exp (-((rv x - ℓ) * c)) := by
      rw [← et, ← mul_sub, abs_mul, abs_of_pos hvp]
      calc Real.exp (ℓ * c) * |rv Ex - Real.exp (-(ℓ * c + (rv x - ℓ) * c))|
          ≤ Real.exp (ℓ * c) * (dE * Real.exp (-(ℓ * c + (rv x - ℓ) * c))) := mul_le_mul_of_nonneg_left hEb hvp.le
        _ = dE * (Real.exp (ℓ * c) * Real.exp (-(ℓ * c + (rv x - ℓ) * c))) := by ring
    obtain ⟨_, h2⟩ := exp_neg_small hec (by norm_num)
    obtain ⟨a1, a2⟩ := abs_le.1 h1
    obtain ⟨b1, b2⟩ := abs_le.1 h2
    have h3 : dE * Real.exp (-((rv x - ℓ) * c)) ≤ 1 / 2 ^ 80 * Real.exp (-((rv x - ℓ) * c)) :=
      mul_le_mul_of_nonneg_right hdE ht.le
    rw [hvexp] at a1 a2
    constructor <;> nlinarith
  have habs : |rv v * rv Ex| = rv v * rv Ex := abs_of_pos (by linarith [hr12.1])
  obtain ⟨hP, hPb⟩ := mul_rv_rel hv hE (by rw [habs]; exact le_trans (by norm_num) hr12.1)
    (by rw [habs]; exact le_trans hr12.2 (by norm_num))
  have hP4 : |rv (arithmetic.impl_Mul_TwoFloat_for_TwoFloat.mul v Ex)| ≤ 4 := by
    rw [habs] at hPb
    obtain ⟨p1, p2⟩ := abs_le.1 hPb
    rw [abs_le]
    constructor <;> nlinarith [hr12.1, hr12.2]
  rw [← hvexp] at hPb
  generalize arithmetic.impl_Mul_TwoFloat_for_TwoFloat.mul v Ex = P at *
  obtain ⟨hS, hSb⟩ := sub_one_rv hP (le_trans hP4 (by norm_num))
  generalize arithmetic.impl_Sub_f64_for_TwoFloat.sub P (f64lit 0x3ff0000000000000) = S at *
  have hSabs : |rv S| ≤ 10 := by
    obtain ⟨p1, p2⟩ := abs_le.1 hP4
    have h1 : |rv P - 1| ≤ 5 := abs_le.2 ⟨by linarith, by linarith⟩
    have h2 := abs_sub_abs_le_abs_sub (rv S) (rv P - 1)
    have h3 : (1 : ℝ) / 2 ^ 105 * |rv P - 1| ≤ 1 * 5 := mul_le_mul (by norm_num) h1 (abs_nonneg _) (by norm_num)
    linarith
  -- the product with 1/ln 2
  have hFerr := Log2Bound.FRAC_1_LN_2_err
  rw [← hc] at hFerr
  have hFabs : |rv explog.FRAC_1_LN_2| ≤ 2 := by
    have hic : 1 / c ≤ 1444 / 1000 := by rw [div_le_iff₀ hc0]; nlinarith
    have hic0 : 0 < 1 / c := by positivity
    have h1 := abs_sub_abs_le_abs_sub (rv explog.FRAC_1_LN_2) (1 / c)
    rw [abs_sub_comm, abs_of_pos hic0] at h1
    have : 1 / c / 2 ^ 107 ≤ 1 / c := div_le_self hic0.le (by norm_num)
    linarith
  obtain ⟨hM, hMb⟩ := mul_rv hS Log2Bound.FRAC_1_LN_2_facts.1 (by
    rw [abs_mul]
    calc |rv S| * |rv explog.FRAC_1_LN_2| ≤ 10 * 2 := mul_le_mul hSabs hFabs (abs_nonneg _) (by norm_num)
      _ ≤ 2 ^ 1019 := by norm_num)
  generalize arithmetic.impl_Mul_TwoFloat_for_TwoFloat.mul S explog.FRAC_1_LN_2 = M at *
  have hMabs : |rv M| ≤ 2 ^ 1000 := by
    have h1 : |rv S * rv explog.FRAC_1_LN_2| ≤ 20 := by
      rw [abs_mul]
      calc |rv S| * |rv explog.FRAC_1_LN_2| ≤ 10 * 2 := mul_le_mul hSabs hFabs (abs_nonneg _) (by norm_num)
        _ = 20 := by norm_num
    have h2 := abs_sub_abs_le_abs_sub (rv M) (rv S * rv explog.FRAC_1_LN_2)
    have h3 : (7 : ℝ) / 2 ^ 106 * |rv S * rv explog.FRAC_1_LN_2| ≤ 1 * 20 :=
      mul_le_mul (by norm_num) h1 (abs_nonneg _) (by norm_num)
    have h4 : (1 : ℝ) / 2 ^ 950 ≤ 1 := by
      rw [div_le_one (by positivity)]; exact one_le_pow₀ (by norm_num)
    have : |rv M| ≤ 41 := by linarith
    exact le_trans this (by norm_num)
  have hxabs : |rv x| ≤ 2 ^ 1000 := by
    have : |rv x| ≤ 1002 := abs_le.2 ⟨by linarith, by linarith⟩
    exact le_trans this (by norm_num)
  obtain ⟨hX, hXb⟩ := add_rv hx hM hxabs hMabs
  refine ⟨hX, ?_⟩
  have e3 : rv x = ℓ + (rv x - ℓ) := by ring
  rw [e3] at hXb
  exact Log2Bound.log2_step_real hc1 hc2 he hdE0 hdE hEb hPb hSb hFerr hMb hXb


/-- **accuracy of `TwoFloat::log2`, given the accuracy `dE` of `exp2` and `η₀` of the seed**: for a valid `v` with high
word in `[2^-1000, 2^960]` (`Log2Bound.log2_bound_of` with the wider `exp2` range), with `D = 1.4431·dE + 11u² + 4u²·|log₂ v|`:
`|log2(v) − log₂ v| ≤ 0.7·(0.7·(η₀ + 2^-50)² + D)² + D` -/
theorem log2_bound_ofW {dE η0 : ℝ} (H : Exp2AccW dE) (hdE0 : 0 ≤ dE) (hdE : dE ≤ 1 / 2 ^ 80)
    (hη0 : 0 ≤ η0) (hη : η0 ≤ 1 / 2 ^ 21)
    (v : TwoFloat) (hv : v.Valid) (hw : v.WF)
    (hlo : 1 / 2 ^ 1000 ≤ fv v.hi) (hhi : fv v.hi ≤ 2 ^ 960)
    (hseed : (Libm.log2 v.hi).is_finite = true ∧
      |fv (Libm.log2 v.hi) - Real.log (fv v.hi) / Real.log 2| ≤ η0) :
    VW (TwoFloat.log2 v) ∧
    |rv (TwoFloat.log2 v) - Real.log (rv v) / Real.log 2|
      ≤ 7 / 10 * (7 / 10 * (η0 + 1 / 2 ^ 50) ^ 2 + (14431 / 10000 * dE + 11 / 2 ^ 106
          + 4 / 2 ^ 106 * |Real.log (rv v) / Real.log 2|)) ^ 2
        + (14431 / 10000 * dE + 11 / 2 ^ 106 + 4 / 2 ^ 106 * |Real.log (rv v) / Real.log 2|) := by
  obtain ⟨hc1, hc2⟩ := Log2Bound.log_two_range
  have hc0 : 0 < Real.log 2 := by linarith
  have hhpos : 0 < fv v.hi := lt_of_lt_of_le (by positivity) hlo
  obtain ⟨hpos, hnear, _⟩ := log_rv_near_hi hv hhpos
  have g1 : -1000 ≤ Real.log (fv v.hi) / Real.log 2 := by
    have := Real.log_le_log (by positivity) hlo
    rw [one_div, Real.log_inv, Real.log_pow] at this
    rw [le_div_iff₀ hc0]
    push_cast at this
    linarith
  have g2' : Real.log (fv v.hi) / Real.log 2 ≤ 960 := by
    have := Real.log_le_log hhpos hhi
    rw [Real.log_pow] at this
    rw [div_le_iff₀ hc0]
    push_cast at this
    linarith
  -- log₂(hi + lo) versus log₂ hi
  have hnear2 : |Real.log (rv v) / Real.log 2 - Real.log (fv v.hi) / Real.log 2| ≤ 1 / 2 ^ 51 := by
    rw [← sub_div, abs_div, abs_of_pos hc0, div_le_iff₀ hc0]
    refine le_trans hnear ?_
    have : (1 : ℝ) / 2 ^ 51 * (693 / 1000) ≤ 1 / 2 ^ 51 * Real.log 2 := mul_le_mul_of_nonneg_left hc1 (by positivity)
    have : (1 : ℝ) / 2 ^ 52 ≤ 1 / 2 ^ 51 * (693 / 1000) := by norm_num
    linarith
  obtain ⟨n1, n2⟩ := abs_le.1 hnear2
  have h51 : (1 : ℝ) / 2 ^ 51 ≤ 1 / 10 := by norm_num
  set ℓ := Real.log (rv v) / Real.log 2 with hℓ
  have hL1 : -(10005 / 10) ≤ ℓ := by linarith
  have hL2 : ℓ ≤ 9605 / 10 := by linarith
  have hVpos : 0 < v.V := by
    have : (0 : ℝ) < (v.V : ℝ) := by
      have : rv v = (v.V : ℝ) / 2 ^ 1074 := rfl
      rw [this] at hpos
      exact (div_pos_iff_of_pos_right (by positivity)).1 hpos
    exact_mod_cast this
  set D := 14431 / 10000 * dE + 11 / 2 ^ 106 + 4 / 2 ^ 106 * |ℓ| with hD
  have hD0 : 0 ≤ D := by positivity
  have hDs : D ≤ 1 / 2 ^ 78 := by
    have hℓabs : |ℓ| ≤ 1001 := abs_le.2 ⟨by linarith, by linarith⟩
    have h1 : (14431 : ℝ) / 10000 * dE ≤ 14431 / 10000 * (1 / 2 ^ 80) := mul_le_mul_of_nonneg_left hdE (by norm_num)
    have h2 : (4 : ℝ) / 2 ^ 106 * |ℓ| ≤ 4 / 2 ^ 106 * 1001 := mul_le_mul_of_nonneg_left hℓabs (by positivity)
    have : (14431 : ℝ) / 10000 * (1 / 2 ^ 80) + 11 / 2 ^ 106 + 4 / 2 ^ 106 * 1001 ≤ 1 / 2 ^ 78 := by norm_num
    linarith
  cases hone : base.impl_PartialEq_f64_for_TwoFloat.eq v (f64lit 0x3ff0000000000000)
  · have hle : ROrd.isLe (base.impl_PartialOrd_f64_for_TwoFloat.partial_cmp v (f64lit 0)) = false := by
      rw [Ident.f64lit_zero, partial_cmp_tf_exact_of F64.roundFacts hv (WF_zero false) rfl, Bool.eq_false_iff]
      intro hc
      have := ROrd.isLe_ofInts.1 hc
      rw [toInt_zero] at this
      omega
    rw [Log2Bound.log2_eq_steps v hone hle]
    dsimp only
    have hLw : (Libm.log2 v.hi).WF := PF.libm_log2_WF hw.1
    have hx0 : VW (convert.impl_From_f64_for_TwoFloat.from (Libm.log2 v.hi)) ∧
        rv (convert.impl_From_f64_for_TwoFloat.from (Libm.log2 v.hi)) = fv (Libm.log2 v.hi) := by
      rw [from_eq]
      obtain ⟨p1, p2, p3⟩ := pair_zero_spec hseed.1 hLw
      refine ⟨⟨p2, p3⟩, ?_⟩
      unfold rv fv; rw [p1]
    generalize convert.impl_From_f64_for_TwoFloat.from (Libm.log2 v.hi) = x0 at *
    have he0 : |rv x0 - ℓ| ≤ η0 + 1 / 2 ^ 50 := by
      rw [hx0.2]
      obtain ⟨s1, s2⟩ := abs_le.1 hseed.2
      rw [abs_le]
      have : (1 : ℝ) / 2 ^ 51 ≤ 1 / 2 ^ 50 := by norm_num
      constructor <;> linarith
    have he0' : |rv x0 - ℓ| ≤ 1 / 2 ^ 20 := by
      refine le_trans he0 ?_
      have : (1 : ℝ) / 2 ^ 21 + 1 / 2 ^ 50 ≤ 1 / 2 ^ 20 := by norm_num
      linarith
    obtain ⟨hx1, hb1⟩ := log2_stepW H hdE0 hdE ⟨hv, hw⟩ hx0.1 hpos hL1 hL2 he0'
    generalize arithmetic.impl_Add_TwoFloat_for_TwoFloat.add x0 (Log2Bound.corr2 v x0) = x1 at *
    have hsq0 : (rv x0 - ℓ) ^ 2 ≤ (η0 + 1 / 2 ^ 50) ^ 2 := by
      rw [← sq_abs]; exact pow_le_pow_left₀ (abs_nonneg _) he0 2
    have he1 : |rv x1 - ℓ| ≤ 7 / 10 * (η0 + 1 / 2 ^ 50) ^ 2 + D := by
      rw [hD]; linarith
    have he1' : |rv x1 - ℓ| ≤ 1 / 2 ^ 20 := by
      refine le_trans he1 ?_
      have : (η0 + 1 / 2 ^ 50) ^ 2 ≤ (1 / 2 ^ 20) ^ 2 := by
        apply pow_le_pow_left₀ (by positivity)
        have : (1 : ℝ) / 2 ^ 21 + 1 / 2 ^ 50 ≤ 1 / 2 ^ 20 := by norm_num
        linarith
      have e : (7 : ℝ) / 10 * (1 / 2 ^ 20) ^ 2 + 1 / 2 ^ 78 ≤ 1 / 2 ^ 20 := by norm_num
      linarith
    obtain ⟨hx2, hb2⟩ := log2_stepW H hdE0 hdE ⟨hv, hw⟩ hx1 hpos hL1 hL2 he1'
    refine ⟨hx2, le_trans hb2 ?_⟩
    have hsq1 : (rv x1 - ℓ) ^ 2 ≤ (7 / 10 * (η0 + 1 / 2 ^ 50) ^ 2 + D) ^ 2 := by
      rw [← sq_abs]; exact pow_le_pow_left₀ (abs_nonneg _) he1 2
    rw [hD] at hsq1 ⊢
    linarith
  · -- `v == 1.0`
    rw [C15.log2_one v hone, C15.zero_words]
    have hV1 : rv v = 1 := by
      unfold base.impl_PartialEq_f64_for_TwoFloat.eq at hone
      rw [Bool.and_eq_true, req_eq, req_eq, eq_iff_toInt hv.1 C01d.one_isVal.1, Ident.f64lit_zero,
        eq_iff_toInt hv.2.1 rfl, C01d.one_isVal.2, toInt_zero] at hone
      unfold rv TwoFloat.V
      rw [hone.1, hone.2, unit_cast_eq]
      simp only [add_zero, Int.cast_pow, Int.cast_ofNat]
      exact div_self (by positivity : ((2 : ℝ) ^ 1074) ≠ 0)
    have hz : VW (⟨F64.zero, F64.zero⟩ : TwoFloat) := ⟨by decide +kernel, by decide +kernel⟩
    have hz0 : rv (⟨F64.zero, F64.zero⟩ : TwoFloat) = 0 := by
      unfold rv
      rw [show (⟨F64.zero, F64.zero⟩ : TwoFloat).V = 0 by decide +kernel]
      simp
    refine ⟨hz, ?_⟩
    have hℓ0 : ℓ = 0 := by rw [hℓ, hV1, Real.log_one, zero_div]
    rw [hz0, hℓ0]
    simp only [sub_zero, abs_zero]
    positivity


end log2wide

end Log1pBound
