/-
Lemmas.ExpBound — real-analysis and rounding-error layers behind the accuracy bound of `TwoFloat::exp`
(property C14, numerical part; statements collected in `TFV/Properties/C14e.lean`).

 §1  rational enclosures of `Real.exp q` for rational `|q| ≤ 1` (`expSum`, `expRem`, `exp_encl`: Taylor polynomial with
     the remainder of `Real.exp_bound`), powers of enclosures (`Encl.pow`), and the Boolean cell test `cellOK`
     (`correctlyRounded_of_cellOK`) by which the kernel checks that a whole enclosure lies strictly inside the two
     rounding cells of a double-double table entry; `rv t = t.V / 2^1074 : ℝ`; `rel_err_of_correctlyRounded`
     (`2^-107`, either sign).
 §2  TABLE CORRECTNESS: `EXPM1_128TH_correct` (65 entries), `EXP_HALF_N_correct` (31), `EXP_16_N_correct` (44): every
     entry is the correctly rounded double-double of the real number it names; `FRAC_FACT_correct` (`1/k!`).
 §3  the operators over `ℝ`: `mul_tt_tiny` (underflow range of `TwoFloat * TwoFloat`: everything finite and tiny),
     `mul_rv` (`7u²` relative + `2^-950` absolute, ALL products below `2^1019`), `add_rv` (`3u² + 13u³`), `add_tf_rv`,
     `sub_tf_rv`, `add_one_rv` (`2u²`).
 §4  the Taylor truncation of `expm1` (`expm1_taylor14`).
 §5  the polynomial part: `horner_step_real` / `horner_inv` (Horner loop: absolute error `4u²` self-sustaining),
     `expm1_y_bound` (`y·(y·P(y) + 1)` within `9.31u²·|y|` of `e^y − 1`), `quarter_reduce` (`n = round(128·z.hi)`,
     exact), `expm1_quarter_bound` (`1.6u²` absolute).
 §6  `mul_rv_rel` (purely relative `7u²`), `exp_half_nonneg` / `exp_half_bound` (`8.1u²` / `24.2u²`), `exp_final_real`,
     and the assembly `exp_bound_split` (`37u²`; `21u²` for `x ≥ 0`).
-/
import TFV.Lemmas.ConstBounds
import TFV.Lemmas.PowiBound
import TFV.Lemmas.Inv
import TFV.Lemmas.DivInv
import TFV.Lemmas.PanicFree
import TFV.Lemmas.ArithExact
import TFV.Properties.C03b
import TFV.Properties.C04b
import TFV.Properties.C01d
import TFV.Properties.C14p
import TFV.Lemmas.Ident
import Mathlib.Tactic.Ring
import Mathlib.Tactic.Linarith
import Mathlib.Tactic.NormNum
import Mathlib.Tactic.Positivity
import Mathlib.Tactic.FieldSimp
import Mathlib.Analysis.Complex.Exponential

set_option exponentiation.threshold 4000

namespace ExpBound

open ConstBounds

/-! ## 1. enclosures of `exp` at rational points -/

/-- `(Σ_{m<n} q^m/m!, q^n/n!)` -/
def expAux (q : ℚ) : ℕ → ℚ × ℚ
  | 0 => (0, 1)
  | n + 1 => ((expAux q n).1 + (expAux q n).2, (expAux q n).2 * q / ((n : ℚ) + 1))

/-- the Taylor polynomial `Σ_{m<n} q^m/m!` -/
def expSum (q : ℚ) (n : ℕ) : ℚ := (expAux q n).1

/-- the remainder bound of `Real.exp_bound` -/
def expRem (q : ℚ) (n : ℕ) : ℚ := |q| ^ n * (((n : ℚ) + 1) / ((n.factorial : ℚ) * (n : ℚ)))

theorem expAux_spec (q : ℚ) (n : ℕ) :
    (((expAux q n).1 : ℚ) : ℝ) = ∑ m ∈ Finset.range n, (q : ℝ) ^ m / (m.factorial : ℝ) ∧
    (((expAux q n).2 : ℚ) : ℝ) = (q : ℝ) ^ n / (n.factorial : ℝ) := by
  induction n with
  | zero => simp [expAux]
  | succ n ih =>
    obtain ⟨h1, h2⟩ := ih
    constructor
    · rw [Finset.sum_range_succ, ← h1, ← h2]
      simp [expAux]
    · have hf : ((n + 1).factorial : ℝ) = ((n : ℝ) + 1) * (n.factorial : ℝ) := by
        rw [Nat.factorial_succ]; push_cast; ring
      have hn : (0 : ℝ) < (n : ℝ) + 1 := by positivity
      have hf0 : (0 : ℝ) < (n.factorial : ℝ) := by exact_mod_cast n.factorial_pos
      show (((expAux q n).2 * q / ((n : ℚ) + 1) : ℚ) : ℝ) = _
      push_cast
      rw [h2, hf, pow_succ]
      field_simp

/-- **Taylor enclosure of `exp q`**, `|q| ≤ 1`, `n ≥ 1` terms -/
theorem exp_encl (q : ℚ) (hq : |q| ≤ 1) (n : ℕ) (hn : 0 < n) :
    Encl (Real.exp (q : ℝ)) (expSum q n - expRem q n) (expSum q n + expRem q n) := by
  have hq' : |(q : ℝ)| ≤ 1 := by exact_mod_cast hq
  have hb := Real.exp_bound hq' hn
  rw [← (expAux_spec q n).1] at hb
  have e : |(q : ℝ)| ^ n * ((n.succ : ℝ) / ((n.factorial : ℝ) * (n : ℝ))) = ((expRem q n : ℚ) : ℝ) := by
    unfold expRem; push_cast; rfl
  rw [e] at hb
  obtain ⟨h1, h2⟩ := abs_le.1 hb
  unfold Encl expSum
  push_cast
  constructor <;> linarith

theorem _root_.ConstBounds.Encl.sub_one {x : ℝ} {a b : ℚ} (hx : Encl x a b) : Encl (x - 1) (a - 1) (b - 1) := by
  unfold Encl at *; push_cast; constructor <;> linarith [hx.1, hx.2]

theorem _root_.ConstBounds.Encl.pow {x : ℝ} {a b : ℚ} (hx : Encl x a b) (ha : 0 ≤ a) (n : ℕ) : Encl (x ^ n) (a ^ n) (b ^ n) := by
  induction n with
  | zero => simp [Encl]
  | succ n ih =>
    rw [pow_succ, pow_succ, pow_succ]
    exact ih.mul hx (pow_nonneg ha n) ha

/-! ### the Boolean cell test -/

/-- the kernel-checkable test: the enclosure `[a, b]`, scaled by `2^1074`, lies strictly inside the rounding cell of
`t.hi` and (after subtracting `t.hi`) strictly inside the rounding cell of `t.lo`; neither word is a power of two -/
def cellOK (a b : ℚ) (t : TwoFloat) : Bool :=
  decide (t.hi.toInt.natAbs ≠ 2 ^ Nat.log2 t.hi.toInt.natAbs) &&
  decide (t.lo.toInt.natAbs ≠ 2 ^ Nat.log2 t.lo.toInt.natAbs) &&
  decide (((2 * (0 + t.hi.toInt) - (ulp t.hi.toInt.natAbs : ℤ) : ℤ) : ℚ) < 2 * (a * 2 ^ 1074)) &&
  decide (2 * (b * 2 ^ 1074) < ((2 * (0 + t.hi.toInt) + (ulp t.hi.toInt.natAbs : ℤ) : ℤ) : ℚ)) &&
  decide (((2 * (t.hi.toInt + t.lo.toInt) - (ulp t.lo.toInt.natAbs : ℤ) : ℤ) : ℚ) < 2 * (a * 2 ^ 1074)) &&
  decide (2 * (b * 2 ^ 1074) < ((2 * (t.hi.toInt + t.lo.toInt) + (ulp t.lo.toInt.natAbs : ℤ) : ℤ) : ℚ)) &&
  decide (2 ^ 107 * (ulp t.lo.toInt.natAbs : ℤ) + (ulp t.hi.toInt.natAbs : ℤ) ≤ 2 * |t.hi.toInt|)

/-- the last conjunct of `cellOK`: the low word is at least `2^53` times smaller than the high word -/
def GapOK (t : TwoFloat) : Prop :=
  2 ^ 107 * (ulp t.lo.toInt.natAbs : ℤ) + (ulp t.hi.toInt.natAbs : ℤ) ≤ 2 * |t.hi.toInt|

theorem correctlyRounded_of_cellOK {c : ℝ} {t : TwoFloat} {a b : ℚ} (hc : Encl c a b) (h : cellOK a b t = true) :
    CorrectlyRoundedDD c t ∧ GapOK t := by
  unfold cellOK at h
  simp only [Bool.and_eq_true, decide_eq_true_eq] at h
  obtain ⟨⟨⟨⟨⟨⟨h1, h2⟩, h3⟩, h4⟩, h5⟩, h6⟩, h7⟩ := h
  exact ⟨correctlyRounded_of_encl hc h1 rfl h2 rfl h3 h4 h5 h6, h7⟩

/-- exact real value `hi + lo` of a pair -/
noncomputable def rv (t : TwoFloat) : ℝ := (t.V : ℝ) / 2 ^ 1074

/-- **accuracy of a correctly rounded double-double, either sign**: `|c − (hi + lo)| ≤ 2^-107·|c|` -/
theorem rel_err_of_correctlyRounded {c : ℝ} {t : TwoFloat} (h : CorrectlyRoundedDD c t) (hg : GapOK t) :
    |rv t - c| ≤ |c| / 2 ^ 107 := by
  have h1 := h.hi.near
  have h2 := h.lo.near
  have hV : (t.V : ℝ) = (t.hi.toInt : ℝ) + (t.lo.toInt : ℝ) := by unfold TwoFloat.V; push_cast; ring
  have hchk' : (2 : ℝ) ^ 107 * (ulp t.lo.toInt.natAbs : ℝ) + (ulp t.hi.toInt.natAbs : ℝ)
      ≤ 2 * |(t.hi.toInt : ℝ)| := by
    have := hg
    unfold GapOK at this
    have h' : ((2 ^ 107 * (ulp t.lo.toInt.natAbs : ℤ) + (ulp t.hi.toInt.natAbs : ℤ) : ℤ) : ℝ)
        ≤ ((2 * |t.hi.toInt| : ℤ) : ℝ) := by exact_mod_cast this
    push_cast at h'
    norm_num at h' ⊢
    exact h'
  have hU : (0 : ℝ) < 2 ^ 1074 := by positivity
  have key : 2 ^ 107 * |c * 2 ^ 1074 - (t.V : ℝ)| ≤ |c * 2 ^ 1074| := by
    rw [hV]
    generalize c * 2 ^ 1074 = x at *
    generalize (t.hi.toInt : ℝ) = H at *
    generalize (t.lo.toInt : ℝ) = L at *
    generalize (ulp t.hi.toInt.natAbs : ℝ) = u at *
    generalize (ulp t.lo.toInt.natAbs : ℝ) = v at *
    have hx : |H| - u / 2 < |x| := by
      have := abs_sub_abs_le_abs_sub H x
      rw [abs_sub_comm] at this
      linarith
    have e : x - (H + L) = x - H - L := by ring
    rw [e]
    have h3 : (2 : ℝ) ^ 107 * |x - H - L| ≤ 2 ^ 107 * (v / 2) :=
      mul_le_mul_of_nonneg_left (by linarith) (by positivity)
    linarith
  unfold rv
  have e1 : (t.V : ℝ) / 2 ^ 1074 - c = -(c * 2 ^ 1074 - (t.V : ℝ)) / 2 ^ 1074 := by field_simp; ring
  rw [e1, abs_div, abs_neg, abs_of_pos hU, div_le_div_iff₀ hU (by positivity)]
  rw [abs_mul, abs_of_pos hU] at key
  nlinarith

theorem rv_eq_val (t : TwoFloat) : rv t = ((PowiBound.val t : ℚ) : ℝ) := by
  unfold rv PowiBound.val; push_cast; rfl

/-! ## 2. the lookup tables of `exp` are correctly rounded double-doubles -/

/-- the grid point `(i − 32)/128` of table index `i` -/
def q128 (i : ℕ) : ℚ := (((i : ℤ) - 32 : ℤ) : ℚ) / 128

theorem q128_cast (i : ℕ) : ((q128 i : ℚ) : ℝ) = ((i : ℝ) - 32) / 128 := by
  unfold q128; push_cast; ring

theorem q128_abs_le (i : ℕ) (hi : i < 65) : |q128 i| ≤ 1 := by
  unfold q128
  have h1 : (i : ℚ) < 65 := by exact_mod_cast hi
  have h0 : (0 : ℚ) ≤ (i : ℚ) := by positivity
  rw [abs_le]
  push_cast
  constructor
  · rw [le_div_iff₀ (by norm_num)]; linarith
  · rw [div_le_iff₀ (by norm_num)]; linarith

def expm1OK (i : ℕ) : Bool :=
  i == 32 || cellOK (expSum (q128 i) 26 - expRem (q128 i) 26 - 1) (expSum (q128 i) 26 + expRem (q128 i) 26 - 1)
    (explog.expm1_128th.EXPM1_128TH.getD i default)

theorem expm1_table_check : (List.range 65).all expm1OK = true := by decide +kernel

/-- **`EXPM1_128TH[i]` is the correctly rounded double-double of `exp((i − 32)/128) − 1`** (`i ≠ 32`; entry 32 is
exactly zero): Taylor enclosure with 26 terms, kernel-checked cell test -/
theorem EXPM1_128TH_correct (i : ℕ) (hi : i < 65) (h32 : i ≠ 32) :
    CorrectlyRoundedDD (Real.exp (((i : ℝ) - 32) / 128) - 1) (explog.expm1_128th.EXPM1_128TH.getD i default) ∧
    GapOK (explog.expm1_128th.EXPM1_128TH.getD i default) := by
  have h := List.all_eq_true.1 expm1_table_check i (List.mem_range.2 hi)
  unfold expm1OK at h
  rw [Bool.or_eq_true] at h
  rcases h with h | h
  · exact absurd (by simpa using h) h32
  · have he := (exp_encl (q128 i) (q128_abs_le i hi) 26 (by norm_num)).sub_one
    rw [q128_cast] at he
    exact correctlyRounded_of_cellOK he h

theorem EXPM1_128TH_zero : (explog.expm1_128th.EXPM1_128TH.getD 32 default).V = 0 := by decide +kernel

/-- enclosure of `exp(1/2)`: 34 Taylor terms (width `≈ 2^-158`) -/
def hLo : ℚ := expSum (1 / 2) 34 - expRem (1 / 2) 34
def hHi : ℚ := expSum (1 / 2) 34 + expRem (1 / 2) 34

theorem exp_half_encl : Encl (Real.exp (1 / 2)) hLo hHi := by
  have := exp_encl (1 / 2) (by norm_num [abs_of_pos]) 34 (by norm_num)
  rw [show (((1 / 2 : ℚ)) : ℝ) = 1 / 2 by norm_num] at this
  exact this

theorem hLo_pos : 0 ≤ hLo := by decide +kernel

def halfOK (j : ℕ) : Bool :=
  cellOK (hLo ^ (j + 1)) (hHi ^ (j + 1)) (explog.exp_half.EXP_HALF_N.getD j default)

theorem exp_half_table_check : (List.range 31).all halfOK = true := by decide +kernel

/-- **`EXP_HALF_N[j]` is the correctly rounded double-double of `exp((j + 1)/2)`**, `j < 31` -/
theorem EXP_HALF_N_correct (j : ℕ) (hj : j < 31) :
    CorrectlyRoundedDD (Real.exp (((j : ℝ) + 1) / 2)) (explog.exp_half.EXP_HALF_N.getD j default) ∧
    GapOK (explog.exp_half.EXP_HALF_N.getD j default) := by
  have h := List.all_eq_true.1 exp_half_table_check j (List.mem_range.2 hj)
  have he := exp_half_encl.pow hLo_pos (j + 1)
  rw [← Real.exp_nat_mul] at he
  have e : ((j + 1 : ℕ) : ℝ) * (1 / 2) = ((j : ℝ) + 1) / 2 := by push_cast; ring
  rw [e] at he
  exact correctlyRounded_of_cellOK he h

/-- enclosure of `e` (`ConstBounds.exp_one_enclosure`, 41 Taylor terms, width `≈ 2^-163`) -/
def eLo : ℚ := ((expNum 41 * 1681 - 42 : ℤ) : ℚ) / ((Nat.factorial 40 * 1681 : ℕ) : ℚ)
def eHi : ℚ := ((expNum 41 * 1681 + 42 : ℤ) : ℚ) / ((Nat.factorial 40 * 1681 : ℕ) : ℚ)

theorem exp_one_encl : Encl (Real.exp 1) eLo eHi := Encl.of_int_div exp_one_enclosure

theorem eLo_pos : 0 ≤ eLo := by decide +kernel

def e16OK (j : ℕ) : Bool :=
  cellOK (eLo ^ (16 * (j + 1))) (eHi ^ (16 * (j + 1))) (explog.exp_half.EXP_16_N.getD j default)

theorem exp_16_table_check : (List.range 44).all e16OK = true := by decide +kernel

/-- **`EXP_16_N[j]` is the correctly rounded double-double of `exp(16·(j + 1))`**, `j < 44`
(interval powers `e^(16(j+1))` of the 163-bit enclosure of `e`: relative width `≤ 704·2^-163`) -/
theorem EXP_16_N_correct (j : ℕ) (hj : j < 44) :
    CorrectlyRoundedDD (Real.exp (16 * ((j : ℝ) + 1))) (explog.exp_half.EXP_16_N.getD j default) ∧
    GapOK (explog.exp_half.EXP_16_N.getD j default) := by
  have h := List.all_eq_true.1 exp_16_table_check j (List.mem_range.2 hj)
  have he := exp_one_encl.pow eLo_pos (16 * (j + 1))
  rw [← Real.exp_nat_mul] at he
  have e : ((16 * (j + 1) : ℕ) : ℝ) * 1 = 16 * ((j : ℝ) + 1) := by push_cast; ring
  rw [e] at he
  exact correctlyRounded_of_cellOK he h

/-- the coefficients `FRAC_FACT[k] ≈ 1/k!`, `k ≤ 20`: valid, well-formed, relative error `≤ 2^-107` -/
def fracOK (k : ℕ) : Bool :=
  decide ((explog.FRAC_FACT.getD k default).Valid) && decide ((explog.FRAC_FACT.getD k default).WF) &&
  decide (|PowiBound.val (explog.FRAC_FACT.getD k default) - 1 / (k.factorial : ℚ)|
    ≤ 1 / (k.factorial : ℚ) / 2 ^ 107)

theorem frac_fact_check : (List.range 21).all fracOK = true := by decide +kernel

theorem FRAC_FACT_correct (k : ℕ) (hk : k < 21) :
    (explog.FRAC_FACT.getD k default).Valid ∧ (explog.FRAC_FACT.getD k default).WF ∧
    |rv (explog.FRAC_FACT.getD k default) - 1 / (k.factorial : ℝ)| ≤ 1 / (k.factorial : ℝ) / 2 ^ 107 := by
  have h := List.all_eq_true.1 frac_fact_check k (List.mem_range.2 hk)
  unfold fracOK at h
  simp only [Bool.and_eq_true, decide_eq_true_eq] at h
  obtain ⟨⟨h1, h2⟩, h3⟩ := h
  refine ⟨h1, h2, ?_⟩
  rw [rv_eq_val]
  have := (Rat.cast_le (K := ℝ)).2 h3
  push_cast at this
  exact this

/-! ## 3. the operators, over `ℝ` -/

section ops
open F64 TwoFloat

/-- **`TwoFloat * TwoFloat` in the underflow range**: when the product of the high words is below `2^-960`
(scaled: `2^114·unit`), every intermediate operation is finite and tiny; the result is a valid pair of magnitude at
most `2^-956` (scaled `2^118`) -/
theorem mul_tt_tiny {x y : TwoFloat} (hvx : x.Valid) (hvy : y.Valid)
    (h : |x.hi.toInt * y.hi.toInt| ≤ 2 ^ 114 * (unit : Int)) :
    (arithmetic.impl_Mul_rTwoFloat_for_rTwoFloat.mul x y).Valid ∧
    |(arithmetic.impl_Mul_rTwoFloat_for_rTwoFloat.mul x y).V| ≤ 2 ^ 118 := by
  have hinv : (arithmetic.impl_Mul_rTwoFloat_for_rTwoFloat.mul x y).Inv := by
    rw [mul_tt_eq]; exact dw_mul_tt_core_inv hvx.two_mul_abs_lo_le hvy.two_mul_abs_lo_le
  obtain ⟨h1, h2, hz⟩ := cross_bounds hvx hvy
  have hU : (0 : Int) < (unit : Int) := Int.natCast_pos.2 unit_pos
  have hM : (2 : Int) ^ 2097 ≤ (maxFin : Int) := two_pow_2097_le_maxFin_int
  generalize hP : x.hi.toInt * y.hi.toInt = P at *
  generalize hA : x.hi.toInt * y.lo.toInt = A at *
  generalize hB : x.lo.toInt * y.hi.toInt = B at *
  generalize hZ : x.lo.toInt * y.lo.toInt = Z at *
  -- tl0
  have bZ : |Z| ≤ 2 ^ 8 * (unit : Int) := by
    have := abs_nonneg Z; nlinarith
  have v0 := mul_spec hvx.2.1 hvy.2.1 (by rw [hZ]; exact roundQ_le_maxFin_of_abs_le 8 (by norm_num) unit_pos bZ)
  rw [hZ] at v0
  have b0 := rqI_abs_le 8 unit_pos bZ
  -- tl1
  have bA : |A| ≤ 2 ^ 61 * (unit : Int) := by
    have := abs_nonneg A; nlinarith
  have bN1 : |A + rqI Z unit * (unit : Int)| ≤ 2 ^ 62 * (unit : Int) := by
    refine le_trans (abs_add_le _ _) ?_
    rw [abs_mul, abs_of_pos hU]
    nlinarith
  have v1 := fma_spec hvx.1 hvy.2.1 v0.1 (by
    rw [hA, v0.2]; exact roundQ_le_maxFin_of_abs_le 62 (by norm_num) unit_pos bN1)
  rw [hA, v0.2] at v1
  have b1 := rqI_abs_le 62 unit_pos bN1
  -- cl2
  have bB : |B| ≤ 2 ^ 61 * (unit : Int) := by
    have := abs_nonneg B; nlinarith
  have bN2 : |B + rqI (A + rqI Z unit * (unit : Int)) unit * (unit : Int)| ≤ 2 ^ 63 * (unit : Int) := by
    refine le_trans (abs_add_le _ _) ?_
    rw [abs_mul, abs_of_pos hU]
    nlinarith
  have v2 := fma_spec hvx.2.1 hvy.1 v1.1 (by
    rw [hB, v1.2]; exact roundQ_le_maxFin_of_abs_le 63 (by norm_num) unit_pos bN2)
  rw [hB, v1.2] at v2
  have b2 := rqI_abs_le 63 unit_pos bN2
  -- ch
  have vc := mul_spec hvx.1 hvy.1 (by rw [hP]; exact roundQ_le_maxFin_of_abs_le 114 (by norm_num) unit_pos h)
  rw [hP] at vc
  have bc := rqI_abs_le 114 unit_pos h
  -- cl1
  have bN3 : |P + -(rqI P unit) * (unit : Int)| ≤ 2 ^ 115 * (unit : Int) := by
    refine le_trans (abs_add_le _ _) ?_
    rw [abs_mul, abs_neg, abs_of_pos hU]
    nlinarith
  have vn : (F64.neg (F64.mul x.hi y.hi)).is_finite = true := by rw [is_finite_neg]; exact vc.1
  have v3 := fma_spec hvx.1 hvy.1 vn (by
    rw [hP, toInt_neg, vc.2]; exact roundQ_le_maxFin_of_abs_le 115 (by norm_num) unit_pos bN3)
  rw [hP, toInt_neg, vc.2] at v3
  have b3 := rqI_abs_le 115 unit_pos bN3
  -- cl3
  have p116 : (2 : Int) ^ 116 = 2 * 2 ^ 115 := by norm_num
  have p115 : (2 : Int) ^ 115 = 2 ^ 52 * 2 ^ 63 := by norm_num
  have s4 : |rqI (P + -(rqI P unit) * (unit : Int)) unit
      + rqI (B + rqI (A + rqI Z unit * (unit : Int)) unit * (unit : Int)) unit| ≤ 2 ^ 116 := by
    refine le_trans (abs_add_le _ _) ?_
    rw [p116]; nlinarith
  have v4 := (show IsVal _ _ from ⟨v3.1, v3.2⟩).add ⟨v2.1, v2.2⟩ (le_trans s4 (le_trans (by norm_num) hM))
  have b4 := abs_rnI_le_pow s4
  -- hi
  have s5 : |rqI P unit + rnI (rqI (P + -(rqI P unit) * (unit : Int)) unit
      + rqI (B + rqI (A + rqI Z unit * (unit : Int)) unit * (unit : Int)) unit)| ≤ 2 ^ 117 := by
    refine le_trans (abs_add_le _ _) ?_
    have p117 : (2 : Int) ^ 117 = 2 * 2 ^ 116 := by norm_num
    have p116' : (2 : Int) ^ 116 = 4 * 2 ^ 114 := by norm_num
    rw [p117]; nlinarith
  have v5 := (show IsVal _ _ from ⟨vc.1, vc.2⟩).add v4 (le_trans s5 (le_trans (by norm_num) hM))
  have b5 := abs_rnI_le_pow s5
  rw [mul_tt_eq, new_mul_eq] at hinv ⊢
  have hhi : (arithmetic.fast_two_sum (F64.mul x.hi y.hi)
      (F64.add (F64.fma x.hi y.hi (F64.neg (F64.mul x.hi y.hi)))
        (F64.fma x.lo y.hi (F64.fma x.hi y.lo (F64.mul x.lo y.lo))))).hi
      = F64.add (F64.mul x.hi y.hi) (F64.add (F64.fma x.hi y.hi (F64.neg (F64.mul x.hi y.hi)))
        (F64.fma x.lo y.hi (F64.fma x.hi y.lo (F64.mul x.lo y.lo)))) := rfl
  dsimp only at hinv ⊢
  generalize hR : arithmetic.fast_two_sum (F64.mul x.hi y.hi)
      (F64.add (F64.fma x.hi y.hi (F64.neg (F64.mul x.hi y.hi)))
        (F64.fma x.lo y.hi (F64.fma x.hi y.lo (F64.mul x.lo y.lo)))) = R at *
  have hf : R.hi.is_finite = true := by rw [hhi]; exact v5.1
  have hv : R.Valid := ⟨hf, (hinv.lo_of_finite hf).1, (hinv.lo_of_finite hf).2⟩
  refine ⟨hv, ?_⟩
  have hl := hv.abs_lo_le
  have hh : |R.hi.toInt| ≤ 2 ^ 117 := by rw [hhi, v5.2]; exact b5
  unfold TwoFloat.V
  refine le_trans (abs_add_le _ _) ?_
  have p118 : (2 : Int) ^ 118 = 2 * 2 ^ 117 := by norm_num
  rw [p118]; linarith


/-- valid and well-formed -/
def VW (t : TwoFloat) : Prop := t.Valid ∧ t.WF

theorem rv_abs (t : TwoFloat) : |rv t| = ((|t.V| : ℤ) : ℝ) / 2 ^ 1074 := by
  unfold rv
  rw [abs_div, abs_of_pos (by positivity : (0 : ℝ) < 2 ^ 1074), Int.cast_abs]

theorem V_abs_le_of_rv {t : TwoFloat} {k : ℕ} (h : |rv t| ≤ 2 ^ k) : |t.V| ≤ (2 : ℤ) ^ (1074 + k) := by
  rw [rv_abs, div_le_iff₀ (by positivity), ← pow_add, add_comm] at h
  exact_mod_cast h

theorem hi_natAbs_lt_of_rv {t : TwoFloat} (hv : t.Valid) (h : |rv t| ≤ 2 ^ 1000) : t.hi.toInt.natAbs < 2 ^ 2094 := by
  have h1 := V_abs_le_of_rv h
  obtain ⟨b1, _⟩ := PowiBound.hi_bounds hv
  have h3 : |t.hi.toInt| < (2 : ℤ) ^ 2094 := by
    have e1 : (2 : ℤ) ^ 2094 = 2 ^ 20 * 2 ^ (1074 + 1000) := by rw [← pow_add]
    rw [e1]
    generalize (2 : ℤ) ^ (1074 + 1000) = T at *
    have : (0 : ℤ) ≤ |t.hi.toInt| := abs_nonneg _
    norm_num at b1 ⊢
    linarith
  rw [← Int.natCast_natAbs] at h3
  exact_mod_cast h3

/-- **`TwoFloat * TwoFloat`, all magnitudes below `2^1019`**: relative error `7u²` plus an absolute underflow term
`2^-950` (from `mul_tt_bound_7u2_partial` when the leading product is `0` or at least `2^-960`, from
`mul_tt_tiny` below that) -/
theorem mul_rv {x y : TwoFloat} (hx : VW x) (hy : VW y) (hhi : |rv x * rv y| ≤ 2 ^ 1019) :
    VW (arithmetic.impl_Mul_TwoFloat_for_TwoFloat.mul x y) ∧
    |rv (arithmetic.impl_Mul_TwoFloat_for_TwoFloat.mul x y) - rv x * rv y|
      ≤ 7 / 2 ^ 106 * |rv x * rv y| + 1 / 2 ^ 950 := by
  show VW (arithmetic.impl_Mul_rTwoFloat_for_rTwoFloat.mul x y) ∧
    |rv (arithmetic.impl_Mul_rTwoFloat_for_rTwoFloat.mul x y) - rv x * rv y|
      ≤ 7 / 2 ^ 106 * |rv x * rv y| + 1 / 2 ^ 950
  obtain ⟨bx1, bx2⟩ := PowiBound.hi_bounds hx.1
  obtain ⟨by1, by2⟩ := PowiBound.hi_bounds hy.1
  have hU : (0 : ℝ) < 2 ^ 1074 := by positivity
  have eprod : rv x * rv y = ((x.V * y.V : ℤ) : ℝ) / (2 ^ 1074 * 2 ^ 1074) := by
    unfold rv; push_cast; field_simp
  -- the integer magnitude of the exact product
  have hVV : |x.V * y.V| ≤ (2 : ℤ) ^ 3167 := by
    rw [eprod, abs_div, abs_of_pos (by positivity : (0 : ℝ) < 2 ^ 1074 * 2 ^ 1074), div_le_iff₀ (by positivity),
      ← Int.cast_abs] at hhi
    have e : (2 : ℝ) ^ 1019 * (2 ^ 1074 * 2 ^ 1074) = 2 ^ 3167 := by rw [← pow_add, ← pow_add]
    rw [e] at hhi
    exact_mod_cast hhi
  -- products of the one-sided bounds
  have pX := abs_nonneg x.hi.toInt
  have pY := abs_nonneg y.hi.toInt
  have pVx := abs_nonneg x.V
  have pVy := abs_nonneg y.V
  have u1 : (2 ^ 53 * |x.V|) * (2 ^ 53 * |y.V|) ≤ ((2 ^ 53 + 1) * |x.hi.toInt|) * ((2 ^ 53 + 1) * |y.hi.toInt|) :=
    mul_le_mul bx2 by2 (by positivity) (by positivity)
  have u2 : ((2 ^ 53 - 1) * |x.hi.toInt|) * ((2 ^ 53 - 1) * |y.hi.toInt|) ≤ (2 ^ 53 * |x.V|) * (2 ^ 53 * |y.V|) :=
    mul_le_mul bx1 by1 (by positivity) (by positivity)
  have e1 : (2 ^ 53 * |x.V|) * (2 ^ 53 * |y.V|) = 2 ^ 106 * |x.V * y.V| := by rw [abs_mul]; ring
  have e2 : ((2 ^ 53 + 1) * |x.hi.toInt|) * ((2 ^ 53 + 1) * |y.hi.toInt|)
      = (2 ^ 53 + 1) ^ 2 * |x.hi.toInt * y.hi.toInt| := by rw [abs_mul]; ring
  have e3 : ((2 ^ 53 - 1) * |x.hi.toInt|) * ((2 ^ 53 - 1) * |y.hi.toInt|)
      = (2 ^ 53 - 1) ^ 2 * |x.hi.toInt * y.hi.toInt| := by rw [abs_mul]; ring
  rw [e1, e2] at u1
  rw [e1, e3] at u2
  have key : (arithmetic.impl_Mul_rTwoFloat_for_rTwoFloat.mul x y).Valid ∧
      |(arithmetic.impl_Mul_rTwoFloat_for_rTwoFloat.mul x y).V * (unit : Int) - x.V * y.V| * 2 ^ 106
        ≤ 7 * |x.V * y.V| + 2 ^ 106 * 2 ^ 1193 := by
    by_cases hz : x.hi.toInt * y.hi.toInt = 0
    · obtain ⟨hV, hb⟩ := TwoFloat.mul_tt_bound_7u2_partial hx.1 hx.2 hy.1 hy.2 (Or.inl hz)
      exact ⟨hV, le_trans hb (le_add_of_nonneg_right (by positivity))⟩
    · by_cases hbig : (2 : ℤ) ^ 1188 ≤ |x.hi.toInt * y.hi.toInt|
      · have hlt : |x.hi.toInt * y.hi.toInt| < (2 : ℤ) ^ 3169 := by
          have k2 : (2 : ℤ) ^ 3169 = 4 * 2 ^ 3167 := by norm_num
          rw [k2]
          generalize (2 : ℤ) ^ 3167 = S at *
          generalize |x.hi.toInt * y.hi.toInt| = AB at *
          generalize |x.V * y.V| = PR at *
          norm_num at u2 ⊢
          linarith
        obtain ⟨hV, hb⟩ := TwoFloat.mul_tt_bound_7u2_partial hx.1 hx.2 hy.1 hy.2 (Or.inr ⟨hbig, hlt⟩)
        exact ⟨hV, le_trans hb (le_add_of_nonneg_right (by positivity))⟩
      · have hsm : |x.hi.toInt * y.hi.toInt| ≤ 2 ^ 114 * (unit : Int) := by
          rw [unit_cast_eq, ← pow_add]; exact le_of_lt (not_le.1 hbig)
        obtain ⟨hV, hb⟩ := mul_tt_tiny hx.1 hy.1 hsm
        refine ⟨hV, ?_⟩
        have hsm' : |x.hi.toInt * y.hi.toInt| ≤ (2 : ℤ) ^ 1188 := le_of_lt (not_le.1 hbig)
        have t1 : |(arithmetic.impl_Mul_rTwoFloat_for_rTwoFloat.mul x y).V * (unit : Int) - x.V * y.V|
            ≤ |(arithmetic.impl_Mul_rTwoFloat_for_rTwoFloat.mul x y).V| * 2 ^ 1074 + |x.V * y.V| := by
          refine le_trans (abs_sub _ _) ?_
          rw [abs_mul, unit_cast_eq, abs_of_pos (by positivity : (0 : ℤ) < 2 ^ 1074)]
        have k1 : (2 : ℤ) ^ 1193 = 2 ^ 118 * 2 ^ 1074 + 2 ^ 1192 := by norm_num
        have k2 : (2 : ℤ) ^ 1192 = 16 * 2 ^ 1188 := by norm_num
        have pP := abs_nonneg (x.V * y.V)
        have hVVs : |x.V * y.V| ≤ 2 * 2 ^ 1188 := by
          generalize (2 : ℤ) ^ 1188 = S at *
          generalize |x.hi.toInt * y.hi.toInt| = AB at *
          generalize |x.V * y.V| = PR at *
          norm_num at u1 ⊢
          linarith
        generalize |(arithmetic.impl_Mul_rTwoFloat_for_rTwoFloat.mul x y).V * (unit : Int) - x.V * y.V| = D at *
        generalize |(arithmetic.impl_Mul_rTwoFloat_for_rTwoFloat.mul x y).V| = RV at *
        rw [k1, k2]
        have hW : (0 : ℤ) < 2 ^ 1074 := by positivity
        generalize (2 : ℤ) ^ 1188 = S at *
        generalize (2 : ℤ) ^ 1074 = W at *
        nlinarith
  obtain ⟨hV, hb⟩ := key
  refine ⟨⟨hV, TwoFloat.mul_tt_WF x y⟩, ?_⟩
  generalize arithmetic.impl_Mul_rTwoFloat_for_rTwoFloat.mul x y = R at *
  rw [unit_cast_eq] at hb
  have hq : |(R.V : ℝ) * 2 ^ 1074 - x.V * y.V| * 2 ^ 106 ≤ 7 * |(x.V : ℝ) * y.V| + 2 ^ 106 * 2 ^ 1193 := by
    exact_mod_cast hb
  have e4 : rv R - rv x * rv y = ((R.V : ℝ) * 2 ^ 1074 - x.V * y.V) / (2 ^ 1074 * 2 ^ 1074) := by
    unfold rv; field_simp
  have e5 : rv x * rv y = ((x.V : ℝ) * y.V) / (2 ^ 1074 * 2 ^ 1074) := by unfold rv; field_simp
  rw [e4, e5, abs_div, abs_div, abs_of_pos (by positivity : (0 : ℝ) < 2 ^ 1074 * 2 ^ 1074)]
  have e6 : (1 : ℝ) / 2 ^ 950 = 2 ^ 1198 / (2 ^ 1074 * 2 ^ 1074) := by
    rw [← pow_add, div_eq_div_iff (by positivity) (by positivity), one_mul, ← pow_add]
  rw [e6, ← mul_div_assoc, ← add_div, div_le_div_iff_of_pos_right (by positivity)]
  have e7 : (2 : ℝ) ^ 1198 = 2 ^ 5 * 2 ^ 1193 := by rw [← pow_add]
  rw [e7]
  have hK : (0 : ℝ) < 2 ^ 1193 := by positivity
  generalize (2 : ℝ) ^ 1193 = K at *
  generalize |(R.V : ℝ) * 2 ^ 1074 - x.V * y.V| = D at *
  generalize |(x.V : ℝ) * y.V| = PR at *
  have : D ≤ (7 * PR + 2 ^ 106 * K) / 2 ^ 106 := by rw [le_div_iff₀ (by positivity)]; exact hq
  have e8 : (7 * PR + 2 ^ 106 * K) / 2 ^ 106 = 7 / 2 ^ 106 * PR + K := by field_simp
  rw [e8] at this
  nlinarith

/-- `3u² + 13u³`, the relative error bound of `TwoFloat + TwoFloat` -/
noncomputable def cA : ℝ := (3 * 2 ^ 53 + 13) / 2 ^ 159

/-- **`TwoFloat + TwoFloat` over `ℝ`** (magnitudes at most `2^1000`) -/
theorem add_rv {x y : TwoFloat} (hx : VW x) (hy : VW y) (bx : |rv x| ≤ 2 ^ 1000) (by' : |rv y| ≤ 2 ^ 1000) :
    VW (arithmetic.impl_Add_TwoFloat_for_TwoFloat.add x y) ∧
    |rv (arithmetic.impl_Add_TwoFloat_for_TwoFloat.add x y) - (rv x + rv y)| ≤ cA * |rv x + rv y| := by
  show VW (arithmetic.impl_Add_rTwoFloat_for_rTwoFloat.add x y) ∧
    |rv (arithmetic.impl_Add_rTwoFloat_for_rTwoFloat.add x y) - (rv x + rv y)| ≤ cA * |rv x + rv y|
  obtain ⟨hV, hb⟩ := TwoFloat.add_tt_bound hx.1 hx.2 hy.1 hy.2 (hi_natAbs_lt_of_rv hx.1 bx)
    (hi_natAbs_lt_of_rv hy.1 by')
  refine ⟨⟨hV, TwoFloat.add_tt_WF x y⟩, ?_⟩
  generalize arithmetic.impl_Add_rTwoFloat_for_rTwoFloat.add x y = R at *
  have hq : |(R.V : ℝ) - (x.V + y.V)| * 2 ^ 159 ≤ (3 * 2 ^ 53 + 13) * |(x.V : ℝ) + y.V| := by
    exact_mod_cast hb
  unfold rv cA
  have e1 : (R.V : ℝ) / 2 ^ 1074 - ((x.V : ℝ) / 2 ^ 1074 + (y.V : ℝ) / 2 ^ 1074)
      = ((R.V : ℝ) - (x.V + y.V)) / 2 ^ 1074 := by field_simp
  have e2 : (x.V : ℝ) / 2 ^ 1074 + (y.V : ℝ) / 2 ^ 1074 = ((x.V : ℝ) + y.V) / 2 ^ 1074 := by field_simp
  rw [e1, e2, abs_div, abs_div, abs_of_pos (by positivity : (0 : ℝ) < 2 ^ 1074), ← mul_div_assoc,
    div_le_div_iff_of_pos_right (by positivity), div_mul_eq_mul_div, le_div_iff₀ (by positivity)]
  exact hq

/-- scaled value of a double -/
noncomputable def fv (f : F64) : ℝ := (f.toInt : ℝ) / 2 ^ 1074

theorem fv_one : fv (f64lit 0x3ff0000000000000) = 1 := by
  unfold fv
  rw [C01d.one_isVal.2, unit_cast_eq]
  simp only [Int.cast_pow, Int.cast_ofNat]
  exact div_self (by positivity : ((2 : ℝ) ^ 1074) ≠ 0)

theorem natAbs_lt_of_abs_lt {z : ℤ} {k : ℕ} (h : |z| < 2 ^ k) : z.natAbs < 2 ^ k := by
  rw [← Int.natCast_natAbs] at h
  exact_mod_cast h

theorem hi_natAbs_lt_2095 {t : TwoFloat} (hv : t.Valid) (h : |rv t| ≤ 2 ^ 1000) : t.hi.toInt.natAbs < 2 ^ 2095 :=
  lt_trans (hi_natAbs_lt_of_rv hv h) (by norm_num)

/-- **`TwoFloat + f64` over `ℝ`**: relative error `2u²` -/
theorem add_tf_rv {x : TwoFloat} {f : F64} (hx : VW x) (hff : f.is_finite = true) (hwf : f.WF)
    (bx : |rv x| ≤ 2 ^ 1000) (bf : f.toInt.natAbs < 2 ^ 2095) :
    VW (arithmetic.impl_Add_f64_for_TwoFloat.add x f) ∧
    |rv (arithmetic.impl_Add_f64_for_TwoFloat.add x f) - (rv x + fv f)| ≤ 1 / 2 ^ 105 * |rv x + fv f| := by
  show VW (arithmetic.impl_Add_rf64_for_rTwoFloat.add x f) ∧
    |rv (arithmetic.impl_Add_rf64_for_rTwoFloat.add x f) - (rv x + fv f)| ≤ 1 / 2 ^ 105 * |rv x + fv f|
  obtain ⟨hV, hb⟩ := TwoFloat.add_tf_bound hx.1 hx.2 hff hwf (hi_natAbs_lt_2095 hx.1 bx) bf
  refine ⟨⟨hV, TwoFloat.add_tf_WF x f⟩, ?_⟩
  generalize arithmetic.impl_Add_rf64_for_rTwoFloat.add x f = R at *
  have hq : |(R.V : ℝ) - (x.V + f.toInt)| * 2 ^ 105 ≤ |(x.V : ℝ) + f.toInt| := by exact_mod_cast hb
  unfold rv fv
  have e1 : (R.V : ℝ) / 2 ^ 1074 - ((x.V : ℝ) / 2 ^ 1074 + (f.toInt : ℝ) / 2 ^ 1074)
      = ((R.V : ℝ) - (x.V + f.toInt)) / 2 ^ 1074 := by field_simp
  have e2 : (x.V : ℝ) / 2 ^ 1074 + (f.toInt : ℝ) / 2 ^ 1074 = ((x.V : ℝ) + f.toInt) / 2 ^ 1074 := by field_simp
  rw [e1, e2, abs_div, abs_div, abs_of_pos (by positivity : (0 : ℝ) < 2 ^ 1074), ← mul_div_assoc,
    div_le_div_iff_of_pos_right (by positivity), one_div_mul_eq_div, le_div_iff₀ (by positivity)]
  exact hq

/-- **`TwoFloat − f64` over `ℝ`**: relative error `2u²` -/
theorem sub_tf_rv {x : TwoFloat} {f : F64} (hx : VW x) (hff : f.is_finite = true) (hwf : f.WF)
    (bx : |rv x| ≤ 2 ^ 1000) (bf : f.toInt.natAbs < 2 ^ 2095) :
    VW (arithmetic.impl_Sub_f64_for_TwoFloat.sub x f) ∧
    |rv (arithmetic.impl_Sub_f64_for_TwoFloat.sub x f) - (rv x - fv f)| ≤ 1 / 2 ^ 105 * |rv x - fv f| := by
  show VW (arithmetic.impl_Sub_rf64_for_rTwoFloat.sub x f) ∧
    |rv (arithmetic.impl_Sub_rf64_for_rTwoFloat.sub x f) - (rv x - fv f)| ≤ 1 / 2 ^ 105 * |rv x - fv f|
  obtain ⟨hV, hb⟩ := TwoFloat.sub_tf_bound hx.1 hx.2 hff hwf (hi_natAbs_lt_2095 hx.1 bx) bf
  refine ⟨⟨hV, TwoFloat.sub_tf_WF x f⟩, ?_⟩
  generalize arithmetic.impl_Sub_rf64_for_rTwoFloat.sub x f = R at *
  have hq : |(R.V : ℝ) - (x.V - f.toInt)| * 2 ^ 105 ≤ |(x.V : ℝ) - f.toInt| := by exact_mod_cast hb
  unfold rv fv
  have e1 : (R.V : ℝ) / 2 ^ 1074 - ((x.V : ℝ) / 2 ^ 1074 - (f.toInt : ℝ) / 2 ^ 1074)
      = ((R.V : ℝ) - (x.V - f.toInt)) / 2 ^ 1074 := by field_simp
  have e2 : (x.V : ℝ) / 2 ^ 1074 - (f.toInt : ℝ) / 2 ^ 1074 = ((x.V : ℝ) - f.toInt) / 2 ^ 1074 := by field_simp
  rw [e1, e2, abs_div, abs_div, abs_of_pos (by positivity : (0 : ℝ) < 2 ^ 1074), ← mul_div_assoc,
    div_le_div_iff_of_pos_right (by positivity), one_div_mul_eq_div, le_div_iff₀ (by positivity)]
  exact hq

/-- `x + 1.0` -/
theorem add_one_rv {x : TwoFloat} (hx : VW x) (bx : |rv x| ≤ 2 ^ 1000) :
    VW (arithmetic.impl_Add_f64_for_TwoFloat.add x (f64lit 0x3ff0000000000000)) ∧
    |rv (arithmetic.impl_Add_f64_for_TwoFloat.add x (f64lit 0x3ff0000000000000)) - (rv x + 1)|
      ≤ 1 / 2 ^ 105 * |rv x + 1| := by
  have h := add_tf_rv hx C01d.one_isVal.1 C01d.one_WF bx (by
    rw [C01d.one_isVal.2, Int.natAbs_natCast, F64.unit_eq]; norm_num)
  rwa [fv_one] at h

end ops

/-! ## 4. Taylor truncation -/

/-- **truncation error of the degree-14 Taylor polynomial of `expm1`**, `|t| ≤ 1`:
`|exp t − 1 − Σ_{k=1..14} t^k/k!| ≤ |t|^15 · 16/(15!·15)` -/
theorem expm1_taylor14 {t : ℝ} (ht : |t| ≤ 1) :
    |Real.exp t - 1 - ∑ k ∈ Finset.range 14, t ^ (k + 1) / ((k + 1).factorial : ℝ)|
      ≤ |t| ^ 15 * (16 / (1307674368000 * 15)) := by
  have hb := Real.exp_bound ht (n := 15) (by norm_num)
  rw [Finset.sum_range_succ' _ 14] at hb
  have e15 : ((15 : ℕ).factorial : ℝ) = 1307674368000 := by norm_num [Nat.factorial]
  have es : ((Nat.succ 15 : ℕ) : ℝ) = 16 := by norm_num
  rw [e15, es] at hb
  have e0 : t ^ 0 / ((0 : ℕ).factorial : ℝ) = 1 := by norm_num
  rw [e0] at hb
  have e : Real.exp t - 1 - ∑ k ∈ Finset.range 14, t ^ (k + 1) / ((k + 1).factorial : ℝ)
      = Real.exp t - (∑ k ∈ Finset.range 14, t ^ (k + 1) / ((k + 1).factorial : ℝ) + 1) := by ring
  rw [e]
  exact hb

/-! ## 5. the polynomial part: Horner loop, `expm1_y`, `expm1_quarter` -/

section horner
open F64 TwoFloat

theorem cA_le : cA ≤ 4 / 2 ^ 106 := by
  unfold cA
  rw [div_le_div_iff₀ (by positivity) (by positivity)]
  norm_num

theorem cA_nonneg : 0 ≤ cA := by unfold cA; positivity

/-- one Horner step `nw ≈ m + C`, `m ≈ t·a`, in real terms: the absolute error `4u²` is self-sustaining -/
theorem horner_step_real {t a A m Cv c c' nw : ℝ}
    (ht : |t| ≤ 1 / 128) (hA1 : c / 2 ≤ A) (hA2 : A ≤ 2 * c) (hc : 0 < c) (hcc : c ≤ c' / 2) (hc' : c' ≤ 1 / 2)
    (ha : |a - A| ≤ 4 / 2 ^ 106)
    (hm : |m - t * a| ≤ 7 / 2 ^ 106 * |t * a| + 1 / 2 ^ 950)
    (hC : |Cv - c'| ≤ c' / 2 ^ 107)
    (hn : |nw - (m + Cv)| ≤ cA * |m + Cv|) :
    |nw - (t * A + c')| ≤ 4 / 2 ^ 106 ∧ c' / 2 ≤ t * A + c' ∧ t * A + c' ≤ 2 * c' := by
  have hA0 : 0 ≤ A := by linarith
  have hAle : A ≤ c' := by linarith
  have hc'0 : 0 < c' := by linarith
  have habsA : |A| ≤ 1 / 2 := by rw [abs_of_nonneg hA0]; linarith
  have habsa : |a| ≤ 1 := by
    have := abs_sub_abs_le_abs_sub a A
    have e : (4 : ℝ) / 2 ^ 106 ≤ 1 / 2 := by norm_num
    linarith
  have hta : |t * a| ≤ 1 / 128 := by
    rw [abs_mul]
    calc |t| * |a| ≤ 1 / 128 * 1 := mul_le_mul ht habsa (abs_nonneg _) (by norm_num)
      _ = 1 / 128 := by ring
  have htA : |t * A| ≤ c' / 128 := by
    rw [abs_mul, abs_of_nonneg hA0]
    calc |t| * A ≤ 1 / 128 * c' := mul_le_mul ht hAle hA0 (by norm_num)
      _ = c' / 128 := by ring
  obtain ⟨l1, l2⟩ := abs_le.1 htA
  refine ⟨?_, by linarith, by linarith⟩
  have e1 : |m - t * a| ≤ 7 / 2 ^ 106 * (1 / 128) + 1 / 2 ^ 950 := by
    have := mul_le_mul_of_nonneg_left hta (by positivity : (0 : ℝ) ≤ 7 / 2 ^ 106)
    linarith
  have e2 : |t * a - t * A| ≤ 1 / 128 * (4 / 2 ^ 106) := by
    rw [← mul_sub, abs_mul]
    exact mul_le_mul ht ha (abs_nonneg _) (by norm_num)
  have e3 : |m - t * A| ≤ 7 / 2 ^ 106 * (1 / 128) + 1 / 2 ^ 950 + 1 / 128 * (4 / 2 ^ 106) := by
    have := abs_add_le (m - t * a) (t * a - t * A)
    rw [show m - t * a + (t * a - t * A) = m - t * A by ring] at this
    linarith
  have hmabs : |m| ≤ 1 / 256 + (7 / 2 ^ 106 * (1 / 128) + 1 / 2 ^ 950 + 1 / 128 * (4 / 2 ^ 106)) := by
    have := abs_sub_abs_le_abs_sub m (t * A)
    linarith
  have hCabs : |Cv| ≤ 1 / 2 + 1 / 2 ^ 108 := by
    have := abs_sub_abs_le_abs_sub Cv c'
    rw [abs_of_pos hc'0] at this
    have : c' / 2 ^ 107 ≤ 1 / 2 ^ 108 := by
      rw [div_le_div_iff₀ (by positivity) (by positivity)]
      have : (2 : ℝ) ^ 108 = 2 * 2 ^ 107 := by norm_num
      rw [this]; nlinarith [show (0:ℝ) < 2 ^ 107 by positivity]
    linarith
  have hsum : |m + Cv| ≤ 51 / 100 := by
    have := abs_add_le m Cv
    have e : (1 : ℝ) / 256 + (7 / 2 ^ 106 * (1 / 128) + 1 / 2 ^ 950 + 1 / 128 * (4 / 2 ^ 106))
        + (1 / 2 + 1 / 2 ^ 108) ≤ 51 / 100 := by norm_num
    linarith
  have e4 : |nw - (m + Cv)| ≤ 4 / 2 ^ 106 * (51 / 100) := by
    refine le_trans hn ?_
    exact mul_le_mul cA_le hsum (abs_nonneg _) (by positivity)
  have e5 : |Cv - c'| ≤ 1 / 2 ^ 108 := by
    refine le_trans hC ?_
    rw [div_le_div_iff₀ (by positivity) (by positivity)]
    have : (2 : ℝ) ^ 108 = 2 * 2 ^ 107 := by norm_num
    rw [this]; nlinarith [show (0:ℝ) < 2 ^ 107 by positivity]
  have tri : |nw - (t * A + c')| ≤ |nw - (m + Cv)| + |m - t * A| + |Cv - c'| := by
    have h1 := abs_add_le (nw - (m + Cv)) ((m - t * A) + (Cv - c'))
    have h2 := abs_add_le (m - t * A) (Cv - c')
    rw [show nw - (m + Cv) + ((m - t * A) + (Cv - c')) = nw - (t * A + c') by ring] at h1
    linarith
  have fin : (4 : ℝ) / 2 ^ 106 * (51 / 100) + (7 / 2 ^ 106 * (1 / 128) + 1 / 2 ^ 950 + 1 / 128 * (4 / 2 ^ 106))
      + 1 / 2 ^ 108 ≤ 4 / 2 ^ 106 := by norm_num
  linarith

/-- the Horner iterates of `polynomial!(y, FRAC_FACT[2..15])`: `hp y 0 = 1/14!`, `hp y (j+1) = y·hp y j + 1/(13−j)!` -/
def hp (y : TwoFloat) : ℕ → TwoFloat
  | 0 => explog.FRAC_FACT.getD 14 default
  | j + 1 => arithmetic.impl_Add_rTwoFloat_for_TwoFloat.add
      (arithmetic.impl_Mul_TwoFloat_for_TwoFloat.mul y (hp y j)) (explog.FRAC_FACT.getD (13 - j) default)

theorem polyFold_eq (y : TwoFloat) :
    polyFold (List.take 13 (List.drop 2 explog.FRAC_FACT))
      (fun a n => arithmetic.impl_Add_rTwoFloat_for_TwoFloat.add
        (arithmetic.impl_Mul_TwoFloat_for_TwoFloat.mul y a) n) = hp y 12 := rfl

/-- the exact Horner iterates -/
noncomputable def PR (t : ℝ) : ℕ → ℝ
  | 0 => 1 / ((14 : ℕ).factorial : ℝ)
  | j + 1 => t * PR t j + 1 / (((13 - j : ℕ)).factorial : ℝ)

theorem fact_step (j : ℕ) (hj : j ≤ 11) :
    (1 : ℝ) / (((14 - j : ℕ)).factorial : ℝ) ≤ 1 / (((13 - j : ℕ)).factorial : ℝ) / 2 ∧
    (1 : ℝ) / (((13 - j : ℕ)).factorial : ℝ) ≤ 1 / 2 ∧ (0 : ℝ) < 1 / (((14 - j : ℕ)).factorial : ℝ) := by
  have e : 14 - j = (13 - j) + 1 := by omega
  have h2 : 2 ≤ 13 - j := by omega
  have hf : (2 : ℝ) ≤ (((13 - j : ℕ)).factorial : ℝ) := by
    have : (13 - j : ℕ) ≤ (13 - j).factorial := Nat.self_le_factorial _
    exact_mod_cast le_trans h2 this
  have hpos : (0 : ℝ) < (((13 - j : ℕ)).factorial : ℝ) := by linarith
  refine ⟨?_, ?_, by positivity⟩
  · rw [e, Nat.factorial_succ]
    push_cast
    have h3 : (2 : ℝ) ≤ ((13 - j : ℕ) : ℝ) + 1 := by
      have : (2 : ℝ) ≤ ((13 - j : ℕ) : ℝ) := by exact_mod_cast h2
      linarith
    rw [div_div, div_le_div_iff₀ (by positivity) (by positivity)]
    nlinarith
  · rw [div_le_div_iff₀ hpos (by norm_num)]; linarith

/-- **the Horner loop**: every iterate is a valid pair within `4u²` (absolute) of the exact Horner value -/
theorem horner_inv {y : TwoFloat} (hy : VW y) (ht : |rv y| ≤ 1 / 128) (j : ℕ) (hj : j ≤ 12) :
    VW (hp y j) ∧ |rv (hp y j) - PR (rv y) j| ≤ 4 / 2 ^ 106 ∧
      1 / (((14 - j : ℕ)).factorial : ℝ) / 2 ≤ PR (rv y) j ∧ PR (rv y) j ≤ 2 * (1 / (((14 - j : ℕ)).factorial : ℝ)) := by
  induction j with
  | zero =>
    obtain ⟨h1, h2, h3⟩ := FRAC_FACT_correct 14 (by norm_num)
    have hp0 : (0 : ℝ) < 1 / ((14 : ℕ).factorial : ℝ) := by positivity
    refine ⟨⟨h1, h2⟩, ?_, ?_, ?_⟩
    · show |rv (explog.FRAC_FACT.getD 14 default) - 1 / ((14 : ℕ).factorial : ℝ)| ≤ _
      refine le_trans h3 ?_
      have : (1 : ℝ) / ((14 : ℕ).factorial : ℝ) ≤ 1 := by
        rw [div_le_one (by positivity)]; exact_mod_cast Nat.one_le_iff_ne_zero.2 (Nat.factorial_ne_zero 14)
      calc 1 / ((14 : ℕ).factorial : ℝ) / 2 ^ 107 ≤ 1 / 2 ^ 107 :=
            div_le_div_of_nonneg_right this (by positivity)
        _ ≤ 4 / 2 ^ 106 := by norm_num
    · show _ ≤ 1 / ((14 : ℕ).factorial : ℝ); linarith
    · show 1 / ((14 : ℕ).factorial : ℝ) ≤ _; linarith
  | succ j ih =>
    obtain ⟨hvw, ha, hA1, hA2⟩ := ih (by omega)
    obtain ⟨f1, f2, f3⟩ := fact_step j (by omega)
    obtain ⟨c1, c2, c3⟩ := FRAC_FACT_correct (13 - j) (by omega)
    have habsA : |PR (rv y) j| ≤ 1 := by
      rw [abs_of_nonneg (by linarith)]; linarith
    have habsa : |rv (hp y j)| ≤ 2 := by
      have := abs_sub_abs_le_abs_sub (rv (hp y j)) (PR (rv y) j)
      have e : (4 : ℝ) / 2 ^ 106 ≤ 1 := by norm_num
      linarith
    have hprod : |rv y * rv (hp y j)| ≤ 2 ^ 1019 := by
      rw [abs_mul]
      calc |rv y| * |rv (hp y j)| ≤ 1 / 128 * 2 := mul_le_mul ht habsa (abs_nonneg _) (by norm_num)
        _ ≤ 2 ^ 1019 := by norm_num
    obtain ⟨mvw, hm⟩ := mul_rv hy hvw hprod
    have hmabs : |rv (arithmetic.impl_Mul_TwoFloat_for_TwoFloat.mul y (hp y j))| ≤ 2 ^ 1000 := by
      have := abs_sub_abs_le_abs_sub (rv (arithmetic.impl_Mul_TwoFloat_for_TwoFloat.mul y (hp y j)))
        (rv y * rv (hp y j))
      have hp2 : |rv y * rv (hp y j)| ≤ 1 / 64 := by
        rw [abs_mul]
        calc |rv y| * |rv (hp y j)| ≤ 1 / 128 * 2 := mul_le_mul ht habsa (abs_nonneg _) (by norm_num)
          _ = 1 / 64 := by norm_num
      have := mul_le_mul_of_nonneg_left hp2 (by positivity : (0 : ℝ) ≤ 7 / 2 ^ 106)
      have e : (7 : ℝ) / 2 ^ 106 * (1 / 64) + 1 / 2 ^ 950 + 1 / 64 ≤ 2 ^ 1000 := by norm_num
      linarith
    have hCabs : |rv (explog.FRAC_FACT.getD (13 - j) default)| ≤ 2 ^ 1000 := by
      have := abs_sub_abs_le_abs_sub (rv (explog.FRAC_FACT.getD (13 - j) default))
        (1 / (((13 - j : ℕ)).factorial : ℝ))
      have hpos : (0 : ℝ) < 1 / (((13 - j : ℕ)).factorial : ℝ) := by positivity
      rw [abs_of_pos hpos] at this
      have : 1 / (((13 - j : ℕ)).factorial : ℝ) / 2 ^ 107 ≤ 1 := by
        refine le_trans (div_le_div_of_nonneg_right f2 (by positivity)) (by norm_num)
      have e : (1 : ℝ) / 2 + 1 ≤ 2 ^ 1000 := by norm_num
      linarith
    obtain ⟨nvw, hn⟩ := add_rv mvw ⟨c1, c2⟩ hmabs hCabs
    have key := horner_step_real ht hA1 hA2 f3 f1 f2 ha hm c3 hn
    refine ⟨nvw, ?_, ?_, ?_⟩
    · exact key.1
    · have e : 14 - (j + 1) = 13 - j := by omega
      rw [e]; exact key.2.1
    · have e : 14 - (j + 1) = 13 - j := by omega
      rw [e]; exact key.2.2

theorem PR_sum (t : ℝ) :
    t * (t * PR t 12 + 1) = ∑ k ∈ Finset.range 14, t ^ (k + 1) / ((k + 1).factorial : ℝ) := by
  simp only [PR, Finset.sum_range_succ, Finset.sum_range_zero]
  norm_num [Nat.factorial]
  ring

/-- real-number core of `expm1_y = y·(y·P + 1)` -/
theorem expm1_y_real {t p Pe m1 q w : ℝ} (ht : |t| ≤ 1 / 128)
    (hp : |p - Pe| ≤ 4 / 2 ^ 106) (hP1 : 1 / 4 ≤ Pe) (hP2 : Pe ≤ 1)
    (hm1 : |m1 - t * p| ≤ 7 / 2 ^ 106 * |t * p| + 1 / 2 ^ 950)
    (hq : |q - (m1 + 1)| ≤ 1 / 2 ^ 105 * |m1 + 1|)
    (hw : |w - t * q| ≤ 7 / 2 ^ 106 * |t * q| + 1 / 2 ^ 950) :
    |w - t * (t * Pe + 1)| ≤ 93 / 10 / 2 ^ 106 * |t| + 1 / 2 ^ 948 := by
  have hT := abs_nonneg t
  have hpabs : |p| ≤ 101 / 100 := by
    have := abs_sub_abs_le_abs_sub p Pe
    rw [abs_of_nonneg (by linarith : (0 : ℝ) ≤ Pe)] at this
    have e : (4 : ℝ) / 2 ^ 106 ≤ 1 / 100 := by norm_num
    linarith
  have htp : |t * p| ≤ 101 / 100 * |t| := by
    rw [abs_mul, mul_comm]; exact mul_le_mul_of_nonneg_right hpabs hT
  have htPe : |t * Pe| ≤ |t| := by
    rw [abs_mul, abs_of_nonneg (by linarith : (0 : ℝ) ≤ Pe)]
    calc |t| * Pe ≤ |t| * 1 := mul_le_mul_of_nonneg_left hP2 hT
      _ = |t| := mul_one _
  have d1 : |m1 - t * Pe| ≤ 1107 / 100 / 2 ^ 106 * |t| + 1 / 2 ^ 950 := by
    have h1 := abs_add_le (m1 - t * p) (t * p - t * Pe)
    rw [show m1 - t * p + (t * p - t * Pe) = m1 - t * Pe by ring] at h1
    have h2 : |t * p - t * Pe| ≤ 4 / 2 ^ 106 * |t| := by
      rw [← mul_sub, abs_mul, mul_comm]; exact mul_le_mul_of_nonneg_right hp hT
    have h3 := mul_le_mul_of_nonneg_left htp (by positivity : (0 : ℝ) ≤ 7 / 2 ^ 106)
    have e : (7 : ℝ) / 2 ^ 106 * (101 / 100 * |t|) + 4 / 2 ^ 106 * |t| = 1107 / 100 / 2 ^ 106 * |t| := by ring
    linarith
  have d1' : |m1 - t * Pe| ≤ 9 / 100 / 2 ^ 106 := by
    have := mul_le_mul_of_nonneg_left ht (by positivity : (0 : ℝ) ≤ 1107 / 100 / 2 ^ 106)
    have e : (1107 : ℝ) / 100 / 2 ^ 106 * (1 / 128) + 1 / 2 ^ 950 ≤ 9 / 100 / 2 ^ 106 := by norm_num
    linarith
  have hm1abs : |m1| ≤ 1 / 100 := by
    have := abs_sub_abs_le_abs_sub m1 (t * Pe)
    have e : (9 : ℝ) / 100 / 2 ^ 106 + 1 / 128 ≤ 1 / 100 := by norm_num
    linarith
  have hm11 : |m1 + 1| ≤ 101 / 100 := by
    have := abs_add_le m1 1
    rw [abs_one] at this; linarith
  have d2 : |q - (t * Pe + 1)| ≤ 211 / 100 / 2 ^ 106 + 1 / 2 ^ 950 := by
    have h1 := abs_add_le (q - (m1 + 1)) (m1 - t * Pe)
    rw [show q - (m1 + 1) + (m1 - t * Pe) = q - (t * Pe + 1) by ring] at h1
    have h3 := mul_le_mul_of_nonneg_left hm11 (by positivity : (0 : ℝ) ≤ 1 / 2 ^ 105)
    have e : (1 : ℝ) / 2 ^ 105 * (101 / 100) + 9 / 100 / 2 ^ 106 = 211 / 100 / 2 ^ 106 := by norm_num
    linarith
  have hqabs : |q| ≤ 101 / 100 := by
    have h1 := abs_sub_abs_le_abs_sub q (t * Pe + 1)
    have h2 := abs_add_le (t * Pe) 1
    rw [abs_one] at h2
    have e : (211 : ℝ) / 100 / 2 ^ 106 + 1 / 2 ^ 950 + 1 / 128 + 1 ≤ 101 / 100 := by norm_num
    linarith
  have htq : |t * q| ≤ 101 / 100 * |t| := by
    rw [abs_mul, mul_comm]; exact mul_le_mul_of_nonneg_right hqabs hT
  have h1 := abs_add_le (w - t * q) (t * q - t * (t * Pe + 1))
  rw [show w - t * q + (t * q - t * (t * Pe + 1)) = w - t * (t * Pe + 1) by ring] at h1
  have h2 : |t * q - t * (t * Pe + 1)| ≤ (211 / 100 / 2 ^ 106 + 1 / 2 ^ 950) * |t| := by
    rw [← mul_sub, abs_mul, mul_comm]; exact mul_le_mul_of_nonneg_right d2 hT
  have h3 := mul_le_mul_of_nonneg_left htq (by positivity : (0 : ℝ) ≤ 7 / 2 ^ 106)
  have h4 : (1 : ℝ) / 2 ^ 950 * |t| ≤ 1 / 2 ^ 950 := by
    have := mul_le_mul_of_nonneg_left ht (by positivity : (0 : ℝ) ≤ 1 / 2 ^ 950)
    have e : (1 : ℝ) / 2 ^ 950 * (1 / 128) ≤ 1 / 2 ^ 950 := by norm_num
    linarith
  have e : (7 : ℝ) / 2 ^ 106 * (101 / 100 * |t|) + (211 / 100 / 2 ^ 106 + 1 / 2 ^ 950) * |t|
      = 918 / 100 / 2 ^ 106 * |t| + 1 / 2 ^ 950 * |t| := by ring
  have e' : (918 : ℝ) / 100 / 2 ^ 106 * |t| ≤ 93 / 10 / 2 ^ 106 * |t| :=
    mul_le_mul_of_nonneg_right (by norm_num) hT
  have e'' : (1 : ℝ) / 2 ^ 950 + 1 / 2 ^ 950 + 1 / 2 ^ 950 ≤ 1 / 2 ^ 948 := by norm_num
  linarith

/-- Taylor tail in the form used below: `|t| ≤ 1/128` -/
theorem taylor_tail {t : ℝ} (ht : |t| ≤ 1 / 128) :
    |Real.exp t - 1 - t * (t * PR t 12 + 1)| ≤ 1 / 100 / 2 ^ 106 * |t| := by
  rw [PR_sum]
  refine le_trans (expm1_taylor14 (le_trans ht (by norm_num))) ?_
  have h14 : |t| ^ 14 ≤ (1 / 128) ^ 14 := pow_le_pow_left₀ (abs_nonneg _) ht 14
  have e : |t| ^ 15 = |t| ^ 14 * |t| := pow_succ _ _
  rw [e, mul_assoc, mul_comm |t| _, ← mul_assoc]
  refine mul_le_mul_of_nonneg_right ?_ (abs_nonneg _)
  calc |t| ^ 14 * (16 / (1307674368000 * 15)) ≤ (1 / 128) ^ 14 * (16 / (1307674368000 * 15)) :=
        mul_le_mul_of_nonneg_right h14 (by positivity)
    _ ≤ 1 / 100 / 2 ^ 106 := by norm_num

theorem cA_le' : cA ≤ 301 / 100 / 2 ^ 106 := by
  unfold cA
  rw [div_div, div_le_div_iff₀ (by positivity) (by positivity)]
  norm_num

theorem exp_quarter_le : Real.exp (1 / 4) ≤ 1285 / 1000 := by
  have h := (exp_encl (1 / 4) (by norm_num [abs_of_pos]) 8 (by norm_num)).2
  rw [show (((1 / 4 : ℚ)) : ℝ) = 1 / 4 by norm_num] at h
  refine le_trans h ?_
  have : expSum (1 / 4) 8 + expRem (1 / 4) 8 ≤ (1285 / 1000 : ℚ) := by decide +kernel
  exact le_trans ((Rat.cast_le (K := ℝ)).2 this) (by norm_num)

/-- `exp x0 ∈ [0.778, 1.285]` for `|x0| ≤ 1/4` -/
theorem exp_range_quarter {x0 : ℝ} (h : |x0| ≤ 1 / 4) : 778 / 1000 ≤ Real.exp x0 ∧ Real.exp x0 ≤ 1285 / 1000 := by
  obtain ⟨h1, h2⟩ := abs_le.1 h
  constructor
  · have : Real.exp (-(1 / 4)) ≤ Real.exp x0 := Real.exp_le_exp.2 h1
    rw [Real.exp_neg] at this
    have hq := exp_quarter_le
    have hpos := Real.exp_pos (1 / 4)
    have : (1285 / 1000 : ℝ)⁻¹ ≤ (Real.exp (1 / 4))⁻¹ := inv_anti₀ hpos hq
    have e : (778 : ℝ) / 1000 ≤ (1285 / 1000 : ℝ)⁻¹ := by norm_num
    linarith
  · exact le_trans (Real.exp_le_exp.2 h2) exp_quarter_le

theorem expm1q_real {x0 t E Ep w m2 r : ℝ} (hx0 : |x0| ≤ 1 / 4) (ht : |t| ≤ 1 / 128)
    (hE : |E - (Real.exp x0 - 1)| ≤ |Real.exp x0 - 1| / 2 ^ 107)
    (hEp : |Ep - (E + 1)| ≤ 1 / 2 ^ 105 * |E + 1|)
    (hw : |w - (Real.exp t - 1)| ≤ 931 / 100 / 2 ^ 106 * |t| + 1 / 2 ^ 948)
    (hm2 : |m2 - Ep * w| ≤ 7 / 2 ^ 106 * |Ep * w| + 1 / 2 ^ 950)
    (hr : |r - (E + m2)| ≤ cA * |E + m2|) :
    |r - (Real.exp (x0 + t) - 1)| ≤ 15 / 10 / 2 ^ 106 ∧ |r| ≤ 1 / 2 := by
  obtain ⟨g1, g2⟩ := exp_range_quarter hx0
  have hW : |Real.exp t - 1| ≤ 1 / 64 := by
    have := Real.abs_exp_sub_one_le (le_trans ht (by norm_num))
    linarith
  set G0 := Real.exp x0 with hG0
  set W := Real.exp t - 1 with hWd
  have hEs : |G0 - 1| ≤ 285 / 1000 := by rw [abs_le]; constructor <;> linarith
  have hE' : |E - (G0 - 1)| ≤ 15 / 100 / 2 ^ 106 := by
    refine le_trans hE ?_
    calc |G0 - 1| / 2 ^ 107 ≤ 285 / 1000 / 2 ^ 107 := div_le_div_of_nonneg_right hEs (by positivity)
      _ ≤ 15 / 100 / 2 ^ 106 := by norm_num
  have hEabs : |E| ≤ 286 / 1000 := by
    have := abs_sub_abs_le_abs_sub E (G0 - 1)
    have e : (15 : ℝ) / 100 / 2 ^ 106 + 285 / 1000 ≤ 286 / 1000 := by norm_num
    linarith
  have hE1 : |E + 1| ≤ 1286 / 1000 := by
    have := abs_add_le E 1; rw [abs_one] at this; linarith
  have hEpG : |Ep - G0| ≤ 28 / 10 / 2 ^ 106 := by
    have h1 := abs_add_le (Ep - (E + 1)) (E - (G0 - 1))
    rw [show Ep - (E + 1) + (E - (G0 - 1)) = Ep - G0 by ring] at h1
    have h2 := mul_le_mul_of_nonneg_left hE1 (by positivity : (0 : ℝ) ≤ 1 / 2 ^ 105)
    have e : (1 : ℝ) / 2 ^ 105 * (1286 / 1000) + 15 / 100 / 2 ^ 106 ≤ 28 / 10 / 2 ^ 106 := by norm_num
    linarith
  have hEpabs : |Ep| ≤ 13 / 10 := by
    have := abs_sub_abs_le_abs_sub Ep G0
    rw [abs_of_pos (by linarith : (0 : ℝ) < G0)] at this
    have e : (28 : ℝ) / 10 / 2 ^ 106 + 1285 / 1000 ≤ 13 / 10 := by norm_num
    linarith
  have hwW : |w - W| ≤ 8 / 100 / 2 ^ 106 := by
    refine le_trans hw ?_
    have := mul_le_mul_of_nonneg_left ht (by positivity : (0 : ℝ) ≤ 931 / 100 / 2 ^ 106)
    have e : (931 : ℝ) / 100 / 2 ^ 106 * (1 / 128) + 1 / 2 ^ 948 ≤ 8 / 100 / 2 ^ 106 := by norm_num
    linarith
  have hwabs : |w| ≤ 16 / 1000 := by
    have := abs_sub_abs_le_abs_sub w W
    have e : (8 : ℝ) / 100 / 2 ^ 106 + 1 / 64 ≤ 16 / 1000 := by norm_num
    linarith
  have hEpw : |Ep * w| ≤ 13 / 10 * (16 / 1000) := by
    rw [abs_mul]; exact mul_le_mul hEpabs hwabs (abs_nonneg _) (by norm_num)
  have hprod : |Ep * w - G0 * W| ≤ 28 / 10 / 2 ^ 106 * (16 / 1000) + 1285 / 1000 * (8 / 100 / 2 ^ 106) := by
    have h1 := abs_add_le ((Ep - G0) * w) (G0 * (w - W))
    rw [show (Ep - G0) * w + G0 * (w - W) = Ep * w - G0 * W by ring] at h1
    have h2 : |(Ep - G0) * w| ≤ 28 / 10 / 2 ^ 106 * (16 / 1000) := by
      rw [abs_mul]; exact mul_le_mul hEpG hwabs (abs_nonneg _) (by positivity)
    have h3 : |G0 * (w - W)| ≤ 1285 / 1000 * (8 / 100 / 2 ^ 106) := by
      rw [abs_mul, abs_of_pos (by linarith : (0 : ℝ) < G0)]
      exact mul_le_mul g2 hwW (abs_nonneg _) (by norm_num)
    linarith
  have hm2G : |m2 - G0 * W| ≤ 3 / 10 / 2 ^ 106 := by
    have h1 := abs_add_le (m2 - Ep * w) (Ep * w - G0 * W)
    rw [show m2 - Ep * w + (Ep * w - G0 * W) = m2 - G0 * W by ring] at h1
    have h2 := mul_le_mul_of_nonneg_left hEpw (by positivity : (0 : ℝ) ≤ 7 / 2 ^ 106)
    have e : (7 : ℝ) / 2 ^ 106 * (13 / 10 * (16 / 1000)) + 1 / 2 ^ 950
        + (28 / 10 / 2 ^ 106 * (16 / 1000) + 1285 / 1000 * (8 / 100 / 2 ^ 106)) ≤ 3 / 10 / 2 ^ 106 := by norm_num
    linarith
  have hGW : |G0 * W| ≤ 1285 / 1000 * (1 / 64) := by
    rw [abs_mul, abs_of_pos (by linarith : (0 : ℝ) < G0)]
    exact mul_le_mul g2 hW (abs_nonneg _) (by norm_num)
  have hm2abs : |m2| ≤ 21 / 1000 := by
    have := abs_sub_abs_le_abs_sub m2 (G0 * W)
    have e : (3 : ℝ) / 10 / 2 ^ 106 + 1285 / 1000 * (1 / 64) ≤ 21 / 1000 := by norm_num
    linarith
  have hsum : |E + m2| ≤ 307 / 1000 := by
    have := abs_add_le E m2; linarith
  have hr' : |r - (E + m2)| ≤ 301 / 100 / 2 ^ 106 * (307 / 1000) := by
    refine le_trans hr ?_
    exact mul_le_mul cA_le' hsum (abs_nonneg _) (by positivity)
  have etarget : Real.exp (x0 + t) - 1 = (G0 - 1) + G0 * W := by
    rw [Real.exp_add]; ring
  rw [etarget]
  constructor
  · have h1 := abs_add_le (r - (E + m2)) ((E - (G0 - 1)) + (m2 - G0 * W))
    have h2 := abs_add_le (E - (G0 - 1)) (m2 - G0 * W)
    rw [show r - (E + m2) + ((E - (G0 - 1)) + (m2 - G0 * W)) = r - ((G0 - 1) + G0 * W) by ring] at h1
    have e : (301 : ℝ) / 100 / 2 ^ 106 * (307 / 1000) + (15 / 100 / 2 ^ 106 + 3 / 10 / 2 ^ 106)
        ≤ 15 / 10 / 2 ^ 106 := by norm_num
    linarith
  · have := abs_sub_abs_le_abs_sub r (E + m2)
    have e : (301 : ℝ) / 100 / 2 ^ 106 * (307 / 1000) + 307 / 1000 ≤ 1 / 2 := by norm_num
    linarith

theorem round_fin_nat (s : Bool) (n : ℕ) :
    ∃ K : ℕ, F64.round (fin s n) = fin s (K * unit) ∧ 2 * (K * unit) ≤ 2 * n + unit ∧ 2 * n ≤ 2 * (K * unit) + unit := by
  have hU := unit_pos
  have hdm := Nat.div_add_mod n unit
  have hml := Nat.mod_lt n hU
  have hle := Nat.div_mul_le_self n unit
  have hcomm : unit * (n / unit) = n / unit * unit := Nat.mul_comm _ _
  unfold F64.round
  simp only
  by_cases hc : 2 * (n - n / unit * unit) ≥ unit
  · rw [if_pos hc]
    have e : n / unit * unit + unit = (n / unit + 1) * unit := by ring
    refine ⟨n / unit + 1, by rw [e], ?_, ?_⟩ <;> rw [← e] <;> omega
  · rw [if_neg hc]
    refine ⟨n / unit, rfl, ?_, ?_⟩ <;> omega

/-- `F64.round` of a finite double: an integer `q` (in units) within half a unit -/
theorem round_val {p : F64} (hf : p.is_finite = true) :
    ∃ q : ℤ, (F64.round p).is_finite = true ∧ (F64.round p).toInt = q * (unit : ℤ) ∧
      2 * |q * (unit : ℤ) - p.toInt| ≤ (unit : ℤ) ∧ F64.trunc (F64.round p) = F64.round p := by
  obtain ⟨s, n, rfl⟩ := is_finite_iff.mp hf
  obtain ⟨K, hK, h1, h2⟩ := round_fin_nat s n
  have h1' : 2 * ((K : ℤ) * (unit : ℤ)) ≤ 2 * (n : ℤ) + (unit : ℤ) := by exact_mod_cast h1
  have h2' : 2 * (n : ℤ) ≤ 2 * ((K : ℤ) * (unit : ℤ)) + (unit : ℤ) := by exact_mod_cast h2
  rw [hK]
  refine ⟨if s then -(K : ℤ) else (K : ℤ), rfl, ?_, ?_, ?_⟩
  · rw [toInt_fin]; cases s <;> simp
  · rw [toInt_fin]
    cases s <;> simp only [if_true, if_false, Bool.false_eq_true]
    · rcases abs_cases ((K : ℤ) * (unit : ℤ) - (n : ℤ)) with ⟨e, _⟩ | ⟨e, _⟩ <;> rw [e] <;> linarith
    · rcases abs_cases (-(K : ℤ) * (unit : ℤ) - -(n : ℤ)) with ⟨e, _⟩ | ⟨e, _⟩ <;> rw [e] <;> linarith
  · show fin s (K * unit / unit * unit) = _
    rw [Nat.mul_div_cancel _ unit_pos]

def idxOK (i : ℕ) : Bool :=
  decide (explog.expm1_128th (⟨(i : ℤ) - 32⟩ : I32) = explog.expm1_128th.EXPM1_128TH.getD i default) &&
  decide ((explog.expm1_128th.EXPM1_128TH.getD i default).Valid) &&
  decide ((explog.expm1_128th.EXPM1_128TH.getD i default).WF)

theorem idx_check : (List.range 65).all idxOK = true := by decide +kernel

theorem expm1_table_index (i : ℕ) (hi : i < 65) :
    explog.expm1_128th (⟨(i : ℤ) - 32⟩ : I32) = explog.expm1_128th.EXPM1_128TH.getD i default ∧
    VW (explog.expm1_128th.EXPM1_128TH.getD i default) := by
  have h := List.all_eq_true.1 idx_check i (List.mem_range.2 hi)
  unfold idxOK at h
  simp only [Bool.and_eq_true, decide_eq_true_eq] at h
  exact ⟨h.1.1, h.1.2, h.2⟩

/-- the reduction inside `expm1_quarter`: `n = round(128·z.hi)` is an integer `q` with `|q| ≤ 32`, held exactly;
`x0 = n/128 = q/128` exactly; the table index is `q`; `|z.hi − q/128| ≤ 1/256` -/
theorem quarter_reduce {zh : F64} (hf : zh.is_finite = true) (hw : zh.WF) (hb : zh.toInt.natAbs ≤ 2 ^ 1072) :
    ∃ q : ℤ, -32 ≤ q ∧ q ≤ 32 ∧
      (RCast.cast (F64.trunc (F64.round ((f64lit 0x4060000000000000) *. zh))) : I32) = ⟨q⟩ ∧
      IsVal (F64.round ((f64lit 0x4060000000000000) *. zh) /. (f64lit 0x4060000000000000)) (q * 2 ^ 1067) ∧
      2 * |q * 2 ^ 1067 - zh.toInt| ≤ 2 ^ 1067 := by
  have hbI : |zh.toInt| ≤ 2 ^ 1072 := by
    have := abs_le_of_natAbs_le hb; exact_mod_cast this
  have h128 : IsVal (f64lit 0x4060000000000000) (128 * (F64.unit : Int)) := by
    rw [PF.lit_128]
    exact ⟨rfl, by show ((128 * F64.unit : Nat) : Int) = _; push_cast; rfl⟩
  have hM : (2 : Int) ^ 1090 ≤ (maxFin : Int) := by exact_mod_cast PF.maxFin_ge
  have hm : IsVal (F64.mul (f64lit 0x4060000000000000) zh) (zh.toInt * 2 ^ 7) := by
    apply h128.mul_exact ⟨hf, rfl⟩
    · ring
    · exact repI_mul_pow2_iff.2 hw.repI
    · rw [abs_mul, abs_of_pos (by positivity : (0 : Int) < 2 ^ 7)]
      calc |zh.toInt| * 2 ^ 7 ≤ 2 ^ 1072 * 2 ^ 7 := by nlinarith
        _ ≤ 2 ^ 1090 := by norm_num
        _ ≤ _ := hM
  obtain ⟨q, rf, rq, rnear, rtr⟩ := round_val hm.1
  have hmul : ((f64lit 0x4060000000000000) *. zh) = F64.mul (f64lit 0x4060000000000000) zh := rfl
  rw [hmul]
  rw [hm.2] at rnear
  have hU : (unit : ℤ) = 2 ^ 1074 := unit_cast_eq
  rw [hU] at rnear rq
  have e1 : (2 : ℤ) ^ 1074 = 2 ^ 7 * 2 ^ 1067 := by norm_num
  have e2 : (2 : ℤ) ^ 1072 = 2 ^ 5 * 2 ^ 1067 := by norm_num
  have hP : (0 : ℤ) < 2 ^ 1067 := by positivity
  rw [e1] at rnear
  rw [e2] at hbI
  have hnear : 2 * |q * 2 ^ 1067 - zh.toInt| ≤ 2 ^ 1067 := by
    have e : q * (2 ^ 7 * 2 ^ 1067) - zh.toInt * 2 ^ 7 = (q * 2 ^ 1067 - zh.toInt) * 2 ^ 7 := by ring
    rw [e, abs_mul, abs_of_pos (by positivity : (0 : ℤ) < 2 ^ 7)] at rnear
    generalize (2 : ℤ) ^ 1067 = P at *
    generalize |q * P - zh.toInt| = D at *
    omega
  have hq : -32 ≤ q ∧ q ≤ 32 := by
    generalize (2 : ℤ) ^ 1067 = P at *
    rcases abs_cases (q * P - zh.toInt) with ⟨e, _⟩ | ⟨e, _⟩ <;> rw [e] at hnear <;>
      rcases abs_cases zh.toInt with ⟨e', _⟩ | ⟨e', _⟩ <;> rw [e'] at hbI <;>
      constructor <;> by_contra hc <;> have hc' := not_le.1 hc <;> nlinarith
  refine ⟨q, hq.1, hq.2, ?_, ?_, hnear⟩
  · rw [rtr]
    exact PF.cast_f64_i32 rf (by rw [rq, hU]) (by omega)
  · have hdiv : (F64.round (F64.mul (f64lit 0x4060000000000000) zh) /. (f64lit 0x4060000000000000))
        = F64.div (F64.round (F64.mul (f64lit 0x4060000000000000) zh)) (f64lit 0x4060000000000000) := rfl
    rw [hdiv]
    apply IsVal.div_exact ⟨rf, rq⟩ h128
    · rw [hU]; positivity
    · rw [hU]; ring
    · exact PF.repI_small_mul_pow2 _ (by omega)
    · rw [abs_mul, abs_of_pos hP]
      have : |q| ≤ 32 := abs_le.2 ⟨hq.1, hq.2⟩
      calc |q| * 2 ^ 1067 ≤ 32 * 2 ^ 1067 := by nlinarith
        _ ≤ 2 ^ 1090 := by norm_num
        _ ≤ _ := hM

/-- **`expm1_y = y·(y·P(y) + 1)`** for a valid `y` with `|y| ≤ 1/128`: within `9.31u²·|y| + 2^-948` of `exp(y) − 1` -/
theorem expm1_y_bound {y : TwoFloat} (hy : VW y) (ht : |rv y| ≤ 1 / 128) :
    VW (arithmetic.impl_Mul_TwoFloat_for_TwoFloat.mul y (arithmetic.impl_Add_f64_for_TwoFloat.add
      (arithmetic.impl_Mul_TwoFloat_for_TwoFloat.mul y (hp y 12)) (f64lit 0x3ff0000000000000))) ∧
    |rv (arithmetic.impl_Mul_TwoFloat_for_TwoFloat.mul y (arithmetic.impl_Add_f64_for_TwoFloat.add
      (arithmetic.impl_Mul_TwoFloat_for_TwoFloat.mul y (hp y 12)) (f64lit 0x3ff0000000000000)))
      - (Real.exp (rv y) - 1)| ≤ 931 / 100 / 2 ^ 106 * |rv y| + 1 / 2 ^ 948 := by
  obtain ⟨pvw, hpe, hP1, hP2⟩ := horner_inv hy ht 12 (le_refl _)
  have e2 : ((14 - 12 : ℕ).factorial : ℝ) = 2 := by norm_num [Nat.factorial]
  rw [e2] at hP1 hP2
  have hP1' : (1 : ℝ) / 4 ≤ PR (rv y) 12 := by linarith
  have hP2' : PR (rv y) 12 ≤ 1 := by linarith
  have hpabs : |rv (hp y 12)| ≤ 2 := by
    have := abs_sub_abs_le_abs_sub (rv (hp y 12)) (PR (rv y) 12)
    rw [abs_of_nonneg (by linarith : (0 : ℝ) ≤ PR (rv y) 12)] at this
    have e : (4 : ℝ) / 2 ^ 106 ≤ 1 := by norm_num
    linarith
  have hprod : |rv y * rv (hp y 12)| ≤ 1 / 64 := by
    rw [abs_mul]
    calc |rv y| * |rv (hp y 12)| ≤ 1 / 128 * 2 := mul_le_mul ht hpabs (abs_nonneg _) (by norm_num)
      _ = 1 / 64 := by norm_num
  obtain ⟨m1vw, hm1⟩ := mul_rv hy pvw (le_trans hprod (by norm_num))
  have hm1abs : |rv (arithmetic.impl_Mul_TwoFloat_for_TwoFloat.mul y (hp y 12))| ≤ 1 / 32 := by
    have := abs_sub_abs_le_abs_sub (rv (arithmetic.impl_Mul_TwoFloat_for_TwoFloat.mul y (hp y 12)))
      (rv y * rv (hp y 12))
    have := mul_le_mul_of_nonneg_left hprod (by positivity : (0 : ℝ) ≤ 7 / 2 ^ 106)
    have e : (7 : ℝ) / 2 ^ 106 * (1 / 64) + 1 / 2 ^ 950 + 1 / 64 ≤ 1 / 32 := by norm_num
    linarith
  obtain ⟨qvw, hq⟩ := add_one_rv m1vw (le_trans hm1abs (by norm_num))
  have hqabs : |rv (arithmetic.impl_Add_f64_for_TwoFloat.add
      (arithmetic.impl_Mul_TwoFloat_for_TwoFloat.mul y (hp y 12)) (f64lit 0x3ff0000000000000))| ≤ 2 := by
    have h1 := abs_sub_abs_le_abs_sub (rv (arithmetic.impl_Add_f64_for_TwoFloat.add
      (arithmetic.impl_Mul_TwoFloat_for_TwoFloat.mul y (hp y 12)) (f64lit 0x3ff0000000000000)))
      (rv (arithmetic.impl_Mul_TwoFloat_for_TwoFloat.mul y (hp y 12)) + 1)
    have h2 := abs_add_le (rv (arithmetic.impl_Mul_TwoFloat_for_TwoFloat.mul y (hp y 12))) 1
    rw [abs_one] at h2
    have h3 : |rv (arithmetic.impl_Mul_TwoFloat_for_TwoFloat.mul y (hp y 12)) + 1| ≤ 33 / 32 := by linarith
    have := mul_le_mul_of_nonneg_left h3 (by positivity : (0 : ℝ) ≤ 1 / 2 ^ 105)
    have e : (1 : ℝ) / 2 ^ 105 * (33 / 32) + 33 / 32 ≤ 2 := by norm_num
    linarith
  have hprod2 : |rv y * rv (arithmetic.impl_Add_f64_for_TwoFloat.add
      (arithmetic.impl_Mul_TwoFloat_for_TwoFloat.mul y (hp y 12)) (f64lit 0x3ff0000000000000))| ≤ 2 ^ 1019 := by
    rw [abs_mul]
    calc _ ≤ 1 / 128 * 2 := mul_le_mul ht hqabs (abs_nonneg _) (by norm_num)
      _ ≤ 2 ^ 1019 := by norm_num
  obtain ⟨wvw, hw⟩ := mul_rv hy qvw hprod2
  refine ⟨wvw, ?_⟩
  have core := expm1_y_real ht hpe hP1' hP2' hm1 hq hw
  have tay := taylor_tail ht
  generalize rv (arithmetic.impl_Mul_TwoFloat_for_TwoFloat.mul y (arithmetic.impl_Add_f64_for_TwoFloat.add
      (arithmetic.impl_Mul_TwoFloat_for_TwoFloat.mul y (hp y 12)) (f64lit 0x3ff0000000000000))) = w at *
  have h1 := abs_add_le (w - rv y * (rv y * PR (rv y) 12 + 1))
    (-(Real.exp (rv y) - 1 - rv y * (rv y * PR (rv y) 12 + 1)))
  rw [abs_neg, show w - rv y * (rv y * PR (rv y) 12 + 1)
    + -(Real.exp (rv y) - 1 - rv y * (rv y * PR (rv y) 12 + 1)) = w - (Real.exp (rv y) - 1) by ring] at h1
  have e : (93 : ℝ) / 10 / 2 ^ 106 * |rv y| + 1 / 100 / 2 ^ 106 * |rv y| = 931 / 100 / 2 ^ 106 * |rv y| := by ring
  linarith

/-- table entry `q + 32` against `exp(q/128) − 1` -/
theorem table_entry (q : ℤ) (h1 : -32 ≤ q) (h2 : q ≤ 32) :
    VW (explog.expm1_128th (⟨q⟩ : I32)) ∧
    |rv (explog.expm1_128th (⟨q⟩ : I32)) - (Real.exp ((q : ℝ) / 128) - 1)|
      ≤ |Real.exp ((q : ℝ) / 128) - 1| / 2 ^ 107 := by
  obtain ⟨i, hi⟩ : ∃ i : ℕ, (i : ℤ) = q + 32 := ⟨(q + 32).toNat, by omega⟩
  have hi65 : i < 65 := by omega
  have hq : q = (i : ℤ) - 32 := by omega
  obtain ⟨e1, e2⟩ := expm1_table_index i hi65
  rw [hq, e1]
  refine ⟨e2, ?_⟩
  have ecast : (((i : ℤ) - 32 : ℤ) : ℝ) / 128 = ((i : ℝ) - 32) / 128 := by push_cast; ring
  rw [ecast]
  by_cases h32 : i = 32
  · subst h32
    have hz := EXPM1_128TH_zero
    have : rv (explog.expm1_128th.EXPM1_128TH.getD 32 default) = 0 := by unfold rv; rw [hz]; simp
    rw [this]
    norm_num
  · obtain ⟨c1, c2⟩ := EXPM1_128TH_correct i hi65 h32
    exact rel_err_of_correctlyRounded c1 c2

/-- **`expm1_quarter`**: for a valid `z` with `|z.hi| ≤ 1/4` the result is a valid pair within `1.6u²` (absolute)
of `exp(z) − 1` -/
theorem expm1_quarter_bound {z : TwoFloat} (hz : VW z) (hb : z.hi.toInt.natAbs ≤ 2 ^ 1072) :
    VW (TwoFloat.expm1_quarter z) ∧
    |rv (TwoFloat.expm1_quarter z) - (Real.exp (rv z) - 1)| ≤ 16 / 10 / 2 ^ 106 ∧
    |rv (TwoFloat.expm1_quarter z)| ≤ 1 / 2 := by
  obtain ⟨q, hq1, hq2, hcast, hx0, hnear⟩ := quarter_reduce hz.1.1 hz.2.1 hb
  unfold TwoFloat.expm1_quarter TwoFloat.hi_m
  dsimp only
  rw [polyFold_eq, hcast]
  generalize hX0 : (F64.round ((f64lit 0x4060000000000000) *. z.hi) /. (f64lit 0x4060000000000000)) = X0 at *
  -- magnitudes of z
  have hU : (0 : ℝ) < 2 ^ 1074 := by positivity
  have hzhi : |(z.hi.toInt : ℝ)| ≤ 2 ^ 1072 := by
    have := abs_le_of_natAbs_le hb
    have h' : ((|z.hi.toInt| : ℤ) : ℝ) ≤ ((2 ^ 1072 : ℕ) : ℝ) := by exact_mod_cast this
    rw [Int.cast_abs] at h'; exact_mod_cast h'
  have hzlo : (2 : ℝ) ^ 53 * |(z.lo.toInt : ℝ)| ≤ |(z.hi.toInt : ℝ)| := by
    have := abs_lo_le_of_half_ulp hz.1.two_mul_abs_lo_le
    exact_mod_cast this
  have hrvz : rv z = (z.hi.toInt : ℝ) / 2 ^ 1074 + (z.lo.toInt : ℝ) / 2 ^ 1074 := by
    unfold rv TwoFloat.V; push_cast; ring
  have hfv : fv X0 = (q : ℝ) / 128 := by
    unfold fv; rw [hx0.2]; push_cast
    rw [div_eq_div_iff (by positivity) (by norm_num)]
    have : (2 : ℝ) ^ 1074 = 2 ^ 1067 * 128 := by norm_num
    rw [this]; ring
  have hqabs : |(q : ℝ)| ≤ 32 := by
    rw [abs_le]; constructor
    · have : ((-32 : ℤ) : ℝ) ≤ (q : ℝ) := by exact_mod_cast hq1
      simpa using this
    · exact_mod_cast hq2
  have hx0abs : |(q : ℝ) / 128| ≤ 1 / 4 := by
    rw [abs_div, abs_of_pos (by norm_num : (0 : ℝ) < 128), div_le_iff₀ (by norm_num)]; linarith
  -- distance of z from the grid point
  have hnearR : |(z.hi.toInt : ℝ) / 2 ^ 1074 - (q : ℝ) / 128| ≤ 1 / 256 := by
    have h' : 2 * |(q : ℝ) * 2 ^ 1067 - (z.hi.toInt : ℝ)| ≤ 2 ^ 1067 := by exact_mod_cast hnear
    have e : (z.hi.toInt : ℝ) / 2 ^ 1074 - (q : ℝ) / 128 = -((q : ℝ) * 2 ^ 1067 - z.hi.toInt) / 2 ^ 1074 := by
      have : (2 : ℝ) ^ 1074 = 2 ^ 1067 * 128 := by norm_num
      rw [this]; field_simp; ring
    rw [e, abs_div, abs_neg, abs_of_pos hU, div_le_div_iff₀ hU (by norm_num)]
    have : (2 : ℝ) ^ 1074 = 2 ^ 1067 * 128 := by norm_num
    rw [this]
    nlinarith [abs_nonneg ((q : ℝ) * 2 ^ 1067 - (z.hi.toInt : ℝ))]
  have hloR : |(z.lo.toInt : ℝ) / 2 ^ 1074| ≤ 1 / 2 ^ 55 := by
    rw [abs_div, abs_of_pos hU, div_le_div_iff₀ hU (by positivity)]
    have e : (2 : ℝ) ^ 1074 = 2 ^ 1072 * 4 := by norm_num
    have e2 : (2 : ℝ) ^ 55 = 2 ^ 53 * 4 := by norm_num
    rw [e2]
    nlinarith [abs_nonneg (z.lo.toInt : ℝ)]
  have htstar : |rv z - (q : ℝ) / 128| ≤ 1 / 256 + 1 / 2 ^ 55 := by
    have := abs_add_le ((z.hi.toInt : ℝ) / 2 ^ 1074 - (q : ℝ) / 128) ((z.lo.toInt : ℝ) / 2 ^ 1074)
    rw [show (z.hi.toInt : ℝ) / 2 ^ 1074 - (q : ℝ) / 128 + (z.lo.toInt : ℝ) / 2 ^ 1074 = rv z - (q : ℝ) / 128 by
      rw [hrvz]; ring] at this
    linarith
  have hrvzabs : |rv z| ≤ 2 ^ 1000 := by
    have := abs_sub_abs_le_abs_sub (rv z) ((q : ℝ) / 128)
    have e : (1 : ℝ) / 256 + 1 / 2 ^ 55 + 1 / 4 ≤ 2 ^ 1000 := by norm_num
    linarith
  -- y = z - x0
  have hX0b : X0.toInt.natAbs < 2 ^ 2095 := by
    rw [hx0.2]
    apply natAbs_lt_of_abs_lt
    rw [abs_mul, abs_of_pos (by positivity : (0 : ℤ) < 2 ^ 1067)]
    have : |q| ≤ 32 := abs_le.2 ⟨hq1, hq2⟩
    calc |q| * 2 ^ 1067 ≤ 32 * 2 ^ 1067 := by nlinarith
      _ < 2 ^ 2095 := by norm_num
  have hX0WF : X0.WF := by rw [← hX0]; exact div_WF _ _
  obtain ⟨yvw, hy⟩ := sub_tf_rv hz hx0.1 hX0WF hrvzabs hX0b
  rw [hfv] at hy
  generalize arithmetic.impl_Sub_f64_for_TwoFloat.sub z X0 = y at *
  have hdt : |rv y - (rv z - (q : ℝ) / 128)| ≤ 1 / 2 ^ 105 * (1 / 256 + 1 / 2 ^ 55) :=
    le_trans hy (mul_le_mul_of_nonneg_left htstar (by positivity))
  have hyabs : |rv y| ≤ 1 / 128 := by
    have := abs_sub_abs_le_abs_sub (rv y) (rv z - (q : ℝ) / 128)
    have e : (1 : ℝ) / 2 ^ 105 * (1 / 256 + 1 / 2 ^ 55) + (1 / 256 + 1 / 2 ^ 55) ≤ 1 / 128 := by norm_num
    linarith
  -- the table entry and exp_x0
  obtain ⟨Evw, hE⟩ := table_entry q hq1 hq2
  generalize explog.expm1_128th (⟨q⟩ : I32) = E at *
  obtain ⟨g1, g2⟩ := exp_range_quarter hx0abs
  have hEabs : |rv E| ≤ 1 := by
    have := abs_sub_abs_le_abs_sub (rv E) (Real.exp ((q : ℝ) / 128) - 1)
    have h2 : |Real.exp ((q : ℝ) / 128) - 1| ≤ 285 / 1000 := by rw [abs_le]; constructor <;> linarith
    have h3 : |Real.exp ((q : ℝ) / 128) - 1| / 2 ^ 107 ≤ 285 / 1000 := by
      refine le_trans (div_le_self (abs_nonneg _) ?_) h2
      exact one_le_pow₀ (by norm_num)
    linarith
  obtain ⟨Epvw, hEp⟩ := add_one_rv Evw (le_trans hEabs (by norm_num))
  -- expm1_y
  obtain ⟨wvw, hw⟩ := expm1_y_bound yvw hyabs
  generalize arithmetic.impl_Mul_TwoFloat_for_TwoFloat.mul y (arithmetic.impl_Add_f64_for_TwoFloat.add
      (arithmetic.impl_Mul_TwoFloat_for_TwoFloat.mul y (hp y 12)) (f64lit 0x3ff0000000000000)) = w at *
  generalize arithmetic.impl_Add_f64_for_TwoFloat.add E (f64lit 0x3ff0000000000000) = Ep at *
  have hEpabs : |rv Ep| ≤ 3 := by
    have h1 := abs_sub_abs_le_abs_sub (rv Ep) (rv E + 1)
    have h2 := abs_add_le (rv E) 1
    rw [abs_one] at h2
    have h3 : |rv E + 1| ≤ 2 := by linarith
    have := mul_le_mul_of_nonneg_left h3 (by positivity : (0 : ℝ) ≤ 1 / 2 ^ 105)
    have e : (1 : ℝ) / 2 ^ 105 * 2 + 2 ≤ 3 := by norm_num
    linarith
  have hwabs : |rv w| ≤ 1 / 32 := by
    have h1 := abs_sub_abs_le_abs_sub (rv w) (Real.exp (rv y) - 1)
    have h2 := Real.abs_exp_sub_one_le (le_trans hyabs (by norm_num))
    have h3 := mul_le_mul_of_nonneg_left hyabs (by positivity : (0 : ℝ) ≤ 931 / 100 / 2 ^ 106)
    have e : (931 : ℝ) / 100 / 2 ^ 106 * (1 / 128) + 1 / 2 ^ 948 + 2 * (1 / 128) ≤ 1 / 32 := by norm_num
    linarith
  have hprod : |rv Ep * rv w| ≤ 2 ^ 1019 := by
    rw [abs_mul]
    calc |rv Ep| * |rv w| ≤ 3 * (1 / 32) := mul_le_mul hEpabs hwabs (abs_nonneg _) (by norm_num)
      _ ≤ 2 ^ 1019 := by norm_num
  obtain ⟨m2vw, hm2⟩ := mul_rv Epvw wvw hprod
  have hm2abs : |rv (arithmetic.impl_Mul_TwoFloat_for_TwoFloat.mul Ep w)| ≤ 2 ^ 1000 := by
    have h1 := abs_sub_abs_le_abs_sub (rv (arithmetic.impl_Mul_TwoFloat_for_TwoFloat.mul Ep w)) (rv Ep * rv w)
    have hp' : |rv Ep * rv w| ≤ 3 * (1 / 32) := by
      rw [abs_mul]; exact mul_le_mul hEpabs hwabs (abs_nonneg _) (by norm_num)
    have := mul_le_mul_of_nonneg_left hp' (by positivity : (0 : ℝ) ≤ 7 / 2 ^ 106)
    have e : (7 : ℝ) / 2 ^ 106 * (3 * (1 / 32)) + 1 / 2 ^ 950 + 3 * (1 / 32) ≤ 2 ^ 1000 := by norm_num
    linarith
  obtain ⟨rvw, hr⟩ := add_rv Evw m2vw (le_trans hEabs (by norm_num)) hm2abs
  obtain ⟨core1, core2⟩ := expm1q_real hx0abs hyabs hE hEp hw hm2 hr
  refine ⟨rvw, ?_, core2⟩
  generalize rv (arithmetic.impl_Add_TwoFloat_for_TwoFloat.add E (arithmetic.impl_Mul_TwoFloat_for_TwoFloat.mul Ep w))
    = r at *
  -- exp (x0 + t) versus exp (rv z)
  set X := (q : ℝ) / 128 + rv y with hX
  have hXz : |X - rv z| ≤ 1 / 2 ^ 105 * (1 / 256 + 1 / 2 ^ 55) := by
    rw [show X - rv z = rv y - (rv z - (q : ℝ) / 128) by rw [hX]; ring]; exact hdt
  have hzq : |rv z| ≤ 1 / 4 + 1 / 128 := by
    have := abs_sub_abs_le_abs_sub (rv z) ((q : ℝ) / 128)
    have e : (1 : ℝ) / 256 + 1 / 2 ^ 55 ≤ 1 / 128 := by norm_num
    linarith
  have hexpz : Real.exp (rv z) ≤ 131 / 100 := by
    have h1 : rv z ≤ 1 / 4 + 1 / 128 := le_trans (le_abs_self _) hzq
    have h2 : Real.exp (rv z) ≤ Real.exp (1 / 4) * Real.exp (1 / 128) := by
      rw [← Real.exp_add]; exact Real.exp_le_exp.2 h1
    have h3 := (exp_range_quarter (x0 := 1 / 4) (by norm_num [abs_of_pos])).2
    have h4 : Real.exp (1 / 128) ≤ 1 + 2 * (1 / 128) := by
      have := Real.abs_exp_sub_one_le (x := 1 / 128) (by norm_num [abs_of_pos])
      rw [abs_of_pos (by norm_num : (0 : ℝ) < 1 / 128)] at this
      have := (abs_le.1 this).2
      linarith
    have hp2 := Real.exp_pos (1 / 128)
    calc Real.exp (rv z) ≤ Real.exp (1 / 4) * Real.exp (1 / 128) := h2
      _ ≤ 1285 / 1000 * (1 + 2 * (1 / 128)) := mul_le_mul h3 h4 hp2.le (by norm_num)
      _ ≤ 131 / 100 := by norm_num
  have hdiff : |Real.exp X - Real.exp (rv z)| ≤ 1 / 10 / 2 ^ 106 := by
    have e : Real.exp X - Real.exp (rv z) = Real.exp (rv z) * (Real.exp (X - rv z) - 1) := by
      rw [mul_sub, mul_one, ← Real.exp_add]; congr 2; ring
    rw [e, abs_mul, abs_of_pos (Real.exp_pos _)]
    have h1 := Real.abs_exp_sub_one_le (x := X - rv z) (le_trans hXz (by norm_num))
    have h2 : |Real.exp (X - rv z) - 1| ≤ 2 * (1 / 2 ^ 105 * (1 / 256 + 1 / 2 ^ 55)) := by linarith
    calc Real.exp (rv z) * |Real.exp (X - rv z) - 1|
        ≤ 131 / 100 * (2 * (1 / 2 ^ 105 * (1 / 256 + 1 / 2 ^ 55))) :=
          mul_le_mul hexpz h2 (abs_nonneg _) (by norm_num)
      _ ≤ 1 / 10 / 2 ^ 106 := by norm_num
  have h1 := abs_add_le (r - (Real.exp X - 1)) (Real.exp X - Real.exp (rv z))
  rw [show r - (Real.exp X - 1) + (Real.exp X - Real.exp (rv z)) = r - (Real.exp (rv z) - 1) by ring] at h1
  have e : (15 : ℝ) / 10 / 2 ^ 106 + 1 / 10 / 2 ^ 106 = 16 / 10 / 2 ^ 106 := by ring
  linarith

end horner

/-! ## 6. `exp_half`, and the assembly -/

section assembly
open F64 TwoFloat

/-- **`TwoFloat * TwoFloat`, purely relative**: product of magnitude in `[2^-957, 2^1019]` -/
theorem mul_rv_rel {x y : TwoFloat} (hx : VW x) (hy : VW y) (hlo : 1 / 2 ^ 957 ≤ |rv x * rv y|)
    (hhi : |rv x * rv y| ≤ 2 ^ 1019) :
    VW (arithmetic.impl_Mul_TwoFloat_for_TwoFloat.mul x y) ∧
    |rv (arithmetic.impl_Mul_TwoFloat_for_TwoFloat.mul x y) - rv x * rv y| ≤ 7 / 2 ^ 106 * |rv x * rv y| := by
  show VW (arithmetic.impl_Mul_rTwoFloat_for_rTwoFloat.mul x y) ∧
    |rv (arithmetic.impl_Mul_rTwoFloat_for_rTwoFloat.mul x y) - rv x * rv y| ≤ 7 / 2 ^ 106 * |rv x * rv y|
  obtain ⟨bx1, bx2⟩ := PowiBound.hi_bounds hx.1
  obtain ⟨by1, by2⟩ := PowiBound.hi_bounds hy.1
  have hU : (0 : ℝ) < 2 ^ 1074 := by positivity
  have eprod : rv x * rv y = ((x.V * y.V : ℤ) : ℝ) / (2 ^ 1074 * 2 ^ 1074) := by
    unfold rv; push_cast; field_simp
  have hVV : |x.V * y.V| ≤ (2 : ℤ) ^ 3167 := by
    rw [eprod, abs_div, abs_of_pos (by positivity : (0 : ℝ) < 2 ^ 1074 * 2 ^ 1074), div_le_iff₀ (by positivity),
      ← Int.cast_abs] at hhi
    have e : (2 : ℝ) ^ 1019 * (2 ^ 1074 * 2 ^ 1074) = 2 ^ 3167 := by rw [← pow_add, ← pow_add]
    rw [e] at hhi
    exact_mod_cast hhi
  have hVVlo : (2 : ℤ) ^ 1191 ≤ |x.V * y.V| := by
    rw [eprod, abs_div, abs_of_pos (by positivity : (0 : ℝ) < 2 ^ 1074 * 2 ^ 1074), le_div_iff₀ (by positivity),
      ← Int.cast_abs] at hlo
    have e : (1 : ℝ) / 2 ^ 957 * (2 ^ 1074 * 2 ^ 1074) = 2 ^ 1191 := by
      rw [← pow_add, one_div, inv_mul_eq_div, div_eq_iff (by positivity), ← pow_add]
    rw [e] at hlo
    exact_mod_cast hlo
  have pX := abs_nonneg x.hi.toInt
  have pY := abs_nonneg y.hi.toInt
  have pVx := abs_nonneg x.V
  have pVy := abs_nonneg y.V
  have u1 : (2 ^ 53 * |x.V|) * (2 ^ 53 * |y.V|) ≤ ((2 ^ 53 + 1) * |x.hi.toInt|) * ((2 ^ 53 + 1) * |y.hi.toInt|) :=
    mul_le_mul bx2 by2 (by positivity) (by positivity)
  have u2 : ((2 ^ 53 - 1) * |x.hi.toInt|) * ((2 ^ 53 - 1) * |y.hi.toInt|) ≤ (2 ^ 53 * |x.V|) * (2 ^ 53 * |y.V|) :=
    mul_le_mul bx1 by1 (by positivity) (by positivity)
  have e1 : (2 ^ 53 * |x.V|) * (2 ^ 53 * |y.V|) = 2 ^ 106 * |x.V * y.V| := by rw [abs_mul]; ring
  have e2 : ((2 ^ 53 + 1) * |x.hi.toInt|) * ((2 ^ 53 + 1) * |y.hi.toInt|)
      = (2 ^ 53 + 1) ^ 2 * |x.hi.toInt * y.hi.toInt| := by rw [abs_mul]; ring
  have e3 : ((2 ^ 53 - 1) * |x.hi.toInt|) * ((2 ^ 53 - 1) * |y.hi.toInt|)
      = (2 ^ 53 - 1) ^ 2 * |x.hi.toInt * y.hi.toInt| := by rw [abs_mul]; ring
  rw [e1, e2] at u1
  rw [e1, e3] at u2
  have hbig : (2 : ℤ) ^ 1188 ≤ |x.hi.toInt * y.hi.toInt| := by
    have k : (2 : ℤ) ^ 1191 = 8 * 2 ^ 1188 := by norm_num
    rw [k] at hVVlo
    generalize (2 : ℤ) ^ 1188 = S at *
    generalize |x.hi.toInt * y.hi.toInt| = AB at *
    generalize |x.V * y.V| = PR at *
    norm_num at u1 ⊢
    linarith
  have hlt : |x.hi.toInt * y.hi.toInt| < (2 : ℤ) ^ 3169 := by
    have k2 : (2 : ℤ) ^ 3169 = 4 * 2 ^ 3167 := by norm_num
    rw [k2]
    generalize (2 : ℤ) ^ 3167 = S at *
    generalize |x.hi.toInt * y.hi.toInt| = AB at *
    generalize |x.V * y.V| = PR at *
    norm_num at u2 ⊢
    linarith
  obtain ⟨hV, hb⟩ := TwoFloat.mul_tt_bound_7u2_partial hx.1 hx.2 hy.1 hy.2 (Or.inr ⟨hbig, hlt⟩)
  refine ⟨⟨hV, TwoFloat.mul_tt_WF x y⟩, ?_⟩
  generalize arithmetic.impl_Mul_rTwoFloat_for_rTwoFloat.mul x y = R at *
  rw [unit_cast_eq] at hb
  have hq : |(R.V : ℝ) * 2 ^ 1074 - x.V * y.V| * 2 ^ 106 ≤ 7 * |(x.V : ℝ) * y.V| := by
    exact_mod_cast hb
  have e4 : rv R - rv x * rv y = ((R.V : ℝ) * 2 ^ 1074 - x.V * y.V) / (2 ^ 1074 * 2 ^ 1074) := by
    unfold rv; field_simp
  have e5 : rv x * rv y = ((x.V : ℝ) * y.V) / (2 ^ 1074 * 2 ^ 1074) := by unfold rv; field_simp
  rw [e4, e5, abs_div, abs_div, abs_of_pos (by positivity : (0 : ℝ) < 2 ^ 1074 * 2 ^ 1074), ← mul_div_assoc,
    div_le_div_iff_of_pos_right (by positivity), div_mul_eq_mul_div, le_div_iff₀ (by positivity)]
  exact hq

/-- reciprocal of an approximation (over `ℝ`; cf. `PowiBound.recip_rel`) -/
theorem recip_rel_real {ρ s e E δ : ℝ} (he : e ≠ 0) (hs : |s - e| ≤ E * |e|) (hρ : |1 - ρ * s| ≤ δ)
    (hE : 0 ≤ E) (hE' : E ≤ 1 / 2 ^ 71) (hδ' : δ ≤ 1 / 2 ^ 71) :
    |ρ - e⁻¹| ≤ (δ + E * (1 + 1 / 2 ^ 68)) * |e⁻¹| := by
  have ha : 0 < |e| := abs_pos.2 he
  have hδ : 0 ≤ δ := le_trans (abs_nonneg _) hρ
  have key : |ρ * e - 1| ≤ δ + E * (1 + 1 / 2 ^ 68) := by
    have t1 : |e| ≤ |s| + |s - e| := by
      have := abs_add_le s (e - s)
      rw [show s + (e - s) = e by ring, abs_sub_comm e s] at this
      exact this
    have t2 : |ρ * s| ≤ 1 + δ := by
      have := abs_add_le (1 : ℝ) (-(1 - ρ * s))
      rw [show (1 : ℝ) + -(1 - ρ * s) = ρ * s by ring, abs_neg, abs_one] at this
      linarith
    have t3 : |ρ * e - 1| ≤ |1 - ρ * s| + |ρ| * |s - e| := by
      have := abs_add_le (-(1 - ρ * s)) (-(ρ * (s - e)))
      rw [show -(1 - ρ * s) + -(ρ * (s - e)) = ρ * e - 1 by ring, abs_neg, abs_neg, abs_mul] at this
      exact this
    rw [abs_mul] at t2
    have pρ := abs_nonneg ρ
    have pt : 0 ≤ |ρ| * |e| := mul_nonneg pρ (le_of_lt ha)
    have m1 : |ρ| * |s - e| ≤ E * (|ρ| * |e|) := by
      have := mul_le_mul_of_nonneg_left hs pρ
      rwa [show |ρ| * (E * |e|) = E * (|ρ| * |e|) by ring] at this
    have m2 : (1 - E) * (|ρ| * |e|) ≤ |ρ| * |s| := by
      have := mul_le_mul_of_nonneg_left (show (1 - E) * |e| ≤ |s| by linarith) pρ
      rwa [show |ρ| * ((1 - E) * |e|) = (1 - E) * (|ρ| * |e|) by ring] at this
    have m3 : (|ρ| * |e|) * E ≤ (|ρ| * |e|) * (1 / 2 ^ 71) := mul_le_mul_of_nonneg_left hE' pt
    have m4 : |ρ| * |e| ≤ 1 + 1 / 2 ^ 68 := by
      have : |ρ| * |e| - (|ρ| * |e|) * (1 / 2 ^ 71) ≤ 1 + 1 / 2 ^ 71 := by linarith
      norm_num at this ⊢
      linarith
    have m5 : E * (|ρ| * |e|) ≤ E * (1 + 1 / 2 ^ 68) := mul_le_mul_of_nonneg_left m4 hE
    linarith
  have e1 : ρ - e⁻¹ = (ρ * e - 1) * e⁻¹ := by field_simp
  rw [e1, abs_mul]
  exact mul_le_mul_of_nonneg_right key (abs_nonneg _)

theorem EH_entry (j : ℕ) (hj : j < 31) :
    VW (explog.exp_half.EXP_HALF_N.getD j default) ∧
    |rv (explog.exp_half.EXP_HALF_N.getD j default) - Real.exp (((j : ℝ) + 1) / 2)|
      ≤ Real.exp (((j : ℝ) + 1) / 2) / 2 ^ 107 := by
  obtain ⟨c1, c2⟩ := EXP_HALF_N_correct j hj
  have hm := C14p.getD_mem_of_lt explog.exp_half.EXP_HALF_N j (by
    have : explog.exp_half.EXP_HALF_N.length = 31 := by decide
    omega)
  have := rel_err_of_correctlyRounded c1 c2
  rw [abs_of_pos (Real.exp_pos _)] at this
  exact ⟨C14p.EXP_HALF_N_valid _ hm, this⟩

theorem E16_entry (j : ℕ) (hj : j < 44) :
    VW (explog.exp_half.EXP_16_N.getD j default) ∧
    |rv (explog.exp_half.EXP_16_N.getD j default) - Real.exp (16 * ((j : ℝ) + 1))|
      ≤ Real.exp (16 * ((j : ℝ) + 1)) / 2 ^ 107 := by
  obtain ⟨c1, c2⟩ := EXP_16_N_correct j hj
  have hm := C14p.getD_mem_of_lt explog.exp_half.EXP_16_N j (by
    have : explog.exp_half.EXP_16_N.length = 44 := by decide
    omega)
  have := rel_err_of_correctlyRounded c1 c2
  rw [abs_of_pos (Real.exp_pos _)] at this
  exact ⟨C14p.EXP_16_N_valid _ hm, this⟩

theorem hHi_pow_1407 : hHi ^ 1407 ≤ 2 ^ 1018 := by decide +kernel

theorem hHi_pow_1201 : hHi ^ 1201 ≤ 2 ^ 867 := by decide +kernel

theorem hLo_ge_one : 1 ≤ hLo := by decide +kernel

/-- `exp(k/2) ≤ hHi^N` for `0 ≤ k ≤ N` -/
theorem exp_half_le {k : ℤ} {N : ℕ} (h0 : 0 ≤ k) (h1 : k ≤ N) : Real.exp ((k : ℝ) / 2) ≤ ((hHi ^ N : ℚ) : ℝ) := by
  obtain ⟨n, rfl⟩ := Int.eq_ofNat_of_zero_le h0
  have hn : n ≤ N := by exact_mod_cast h1
  have e : ((n : ℤ) : ℝ) / 2 = (n : ℝ) * (1 / 2) := by push_cast; ring
  rw [e, Real.exp_nat_mul]
  have hb := exp_half_encl.2
  have h1' : (1 : ℝ) ≤ Real.exp (1 / 2) := by
    have := exp_half_encl.1
    have : ((1 : ℚ) : ℝ) ≤ (hLo : ℝ) := (Rat.cast_le (K := ℝ)).2 hLo_ge_one
    push_cast at this; linarith
  calc Real.exp (1 / 2) ^ n ≤ Real.exp (1 / 2) ^ N := pow_le_pow_right₀ h1' hn
    _ ≤ (hHi : ℝ) ^ N := pow_le_pow_left₀ (Real.exp_pos _).le hb N
    _ = ((hHi ^ N : ℚ) : ℝ) := by push_cast; rfl

theorem exp_half_le_1018 {k : ℤ} (h0 : 0 ≤ k) (h1 : k ≤ 1407) : Real.exp ((k : ℝ) / 2) ≤ 2 ^ 1018 := by
  refine le_trans (exp_half_le (N := 1407) h0 (by exact_mod_cast h1)) ?_
  have := (Rat.cast_le (K := ℝ)).2 hHi_pow_1407
  push_cast at this ⊢
  exact this

theorem exp_half_le_867 {k : ℤ} (h0 : 0 ≤ k) (h1 : k ≤ 1201) : Real.exp ((k : ℝ) / 2) ≤ 2 ^ 867 := by
  refine le_trans (exp_half_le (N := 1201) h0 (by exact_mod_cast h1)) ?_
  have := (Rat.cast_le (K := ℝ)).2 hHi_pow_1201
  push_cast at this ⊢
  exact this

/-- a product of two approximations, each within relative `2^-107`, then one rounding `7u²` -/
theorem prod_rel_real {a b A B r : ℝ} (hA : 0 < A) (hB : 0 < B) (ha : |a - A| ≤ A / 2 ^ 107)
    (hb : |b - B| ≤ B / 2 ^ 107) (hr : |r - a * b| ≤ 7 / 2 ^ 106 * |a * b|) :
    |r - A * B| ≤ 81 / 10 / 2 ^ 106 * (A * B) := by
  have hAB : 0 < A * B := mul_pos hA hB
  have h1 : |a * b - A * B| ≤ (1 / 2 ^ 107 + 1 / 2 ^ 107 + 1 / 2 ^ 107 * (1 / 2 ^ 107)) * (A * B) := by
    have e : a * b - A * B = (a - A) * B + A * (b - B) + (a - A) * (b - B) := by ring
    rw [e]
    have t1 : |(a - A) * B| ≤ A / 2 ^ 107 * B := by
      rw [abs_mul, abs_of_pos hB]; exact mul_le_mul_of_nonneg_right ha hB.le
    have t2 : |A * (b - B)| ≤ A * (B / 2 ^ 107) := by
      rw [abs_mul, abs_of_pos hA]; exact mul_le_mul_of_nonneg_left hb hA.le
    have t3 : |(a - A) * (b - B)| ≤ A / 2 ^ 107 * (B / 2 ^ 107) := by
      rw [abs_mul]; exact mul_le_mul ha hb (abs_nonneg _) (by positivity)
    have := abs_add_le ((a - A) * B + A * (b - B)) ((a - A) * (b - B))
    have := abs_add_le ((a - A) * B) (A * (b - B))
    have e2 : A / 2 ^ 107 * B + A * (B / 2 ^ 107) + A / 2 ^ 107 * (B / 2 ^ 107)
        = (1 / 2 ^ 107 + 1 / 2 ^ 107 + 1 / 2 ^ 107 * (1 / 2 ^ 107)) * (A * B) := by ring
    linarith
  have h2 : |a * b| ≤ (1 + (1 / 2 ^ 107 + 1 / 2 ^ 107 + 1 / 2 ^ 107 * (1 / 2 ^ 107))) * (A * B) := by
    have := abs_sub_abs_le_abs_sub (a * b) (A * B)
    rw [abs_of_pos hAB] at this
    linarith
  have h3 := abs_add_le (r - a * b) (a * b - A * B)
  rw [show r - a * b + (a * b - A * B) = r - A * B by ring] at h3
  have h4 := mul_le_mul_of_nonneg_left h2 (by positivity : (0 : ℝ) ≤ 7 / 2 ^ 106)
  have e3 : (7 : ℝ) / 2 ^ 106 * ((1 + (1 / 2 ^ 107 + 1 / 2 ^ 107 + 1 / 2 ^ 107 * (1 / 2 ^ 107))) * (A * B))
      + (1 / 2 ^ 107 + 1 / 2 ^ 107 + 1 / 2 ^ 107 * (1 / 2 ^ 107)) * (A * B)
      ≤ 81 / 10 / 2 ^ 106 * (A * B) := by
    rw [← mul_assoc, ← add_mul]
    exact mul_le_mul_of_nonneg_right (by norm_num) hAB.le
  linarith

/-- **`exp_half` on `0 ≤ k ≤ 1407`**: a valid pair within `8.1u²` (relative) of `exp(k/2)` -/
theorem exp_half_nonneg (fuel : ℕ) (k : ℤ) (h0 : 0 ≤ k) (h1 : k ≤ 1407) :
    VW (explog.exp_half.go (fuel + 1) (⟨k⟩ : I32)) ∧
    |rv (explog.exp_half.go (fuel + 1) (⟨k⟩ : I32)) - Real.exp ((k : ℝ) / 2)|
      ≤ 81 / 10 / 2 ^ 106 * Real.exp ((k : ℝ) / 2) := by
  simp only [explog.exp_half.go]
  have hneg : (⟨k⟩ : I32).is_negative = false := by
    show decide (k < 0) = false
    simp; omega
  have hd : ((⟨k⟩ : I32) /. (32 : I32)) = ⟨k / 32⟩ := by
    show (⟨Int.tdiv k 32⟩ : I32) = _
    rw [Int.tdiv_eq_ediv_of_nonneg h0]
  have hm : ((⟨k⟩ : I32) %. (32 : I32)) = ⟨k % 32⟩ := by
    show (⟨Int.tmod k 32⟩ : I32) = _
    rw [Int.tmod_eq_emod_of_nonneg h0]
  have hA0 : 0 ≤ k / 32 := by omega
  have hA1 : k / 32 ≤ 43 := by omega
  have hB0 : 0 ≤ k % 32 := by omega
  have hB1 : k % 32 ≤ 31 := by omega
  have hk : k = 32 * (k / 32) + k % 32 := by omega
  rw [hneg]
  simp only [Bool.false_eq_true, if_false]
  rw [hd, hm, PF.cast_i32_usize _ hA0 (by omega), PF.cast_i32_usize _ hB0 (by omega)]
  generalize k / 32 = A at *
  generalize k % 32 = B at *
  have hkR : (k : ℝ) / 2 = 16 * (A : ℝ) + (B : ℝ) / 2 := by rw [hk]; push_cast; ring
  have eA : ((⟨A⟩ : Usize) -. (1 : Usize)) = ⟨A - 1⟩ := rfl
  have eB : ((⟨B⟩ : Usize) -. (1 : Usize)) = ⟨B - 1⟩ := rfl
  have idxA : RIndex.index explog.exp_half.EXP_16_N (⟨A - 1⟩ : Usize)
      = explog.exp_half.EXP_16_N.getD (A - 1).toNat default := rfl
  have idxB : RIndex.index explog.exp_half.EXP_HALF_N (⟨B - 1⟩ : Usize)
      = explog.exp_half.EXP_HALF_N.getD (B - 1).toNat default := rfl
  rw [eA, eB, idxA, idxB]
  have castA : 0 < A → (((A - 1).toNat : ℕ) : ℝ) + 1 = (A : ℝ) := by
    intro h
    have : (((A - 1).toNat : ℕ) : ℤ) = A - 1 := Int.toNat_of_nonneg (by omega)
    have h' : ((((A - 1).toNat : ℕ) : ℤ) : ℝ) = ((A - 1 : ℤ) : ℝ) := by rw [this]
    push_cast at h'; linarith
  have castB : 0 < B → (((B - 1).toNat : ℕ) : ℝ) + 1 = (B : ℝ) := by
    intro h
    have : (((B - 1).toNat : ℕ) : ℤ) = B - 1 := Int.toNat_of_nonneg (by omega)
    have h' : ((((B - 1).toNat : ℕ) : ℤ) : ℝ) = ((B - 1 : ℤ) : ℝ) := by rw [this]
    push_cast at h'; linarith
  cases hcA : ((⟨A⟩ : Usize) >. (0 : Usize)) <;> cases hcB : ((⟨B⟩ : Usize) >. (0 : Usize))
  · -- k = 0
    have hA : A = 0 := by
      have := (PF.igt_iff (⟨A⟩ : Usize) (0 : Usize)).not.1 (by rw [hcA]; simp)
      have : ¬ (0 : ℤ) < A := this
      omega
    have hB : B = 0 := by
      have := (PF.igt_iff (⟨B⟩ : Usize) (0 : Usize)).not.1 (by rw [hcB]; simp)
      have : ¬ (0 : ℤ) < B := this
      omega
    simp only
    have hone : VW (convert.impl_From_i32_for_TwoFloat.from (1 : I32)) ∧
        rv (convert.impl_From_i32_for_TwoFloat.from (1 : I32)) = 1 := by
      have h1 : (convert.impl_From_i32_for_TwoFloat.from (1 : I32)).Valid := by decide +kernel
      have h2 : (convert.impl_From_i32_for_TwoFloat.from (1 : I32)).WF := by decide +kernel
      have h3 : (convert.impl_From_i32_for_TwoFloat.from (1 : I32)).V = (2 : ℤ) ^ 1074 := by decide +kernel
      refine ⟨⟨h1, h2⟩, ?_⟩
      unfold rv; rw [h3]
      simp only [Int.cast_pow, Int.cast_ofNat]
      exact div_self (by positivity : ((2 : ℝ) ^ 1074) ≠ 0)
    rw [hkR, hA, hB]
    refine ⟨hone.1, ?_⟩
    rw [hone.2]
    norm_num
  · -- k = B
    have hA : A = 0 := by
      have := (PF.igt_iff (⟨A⟩ : Usize) (0 : Usize)).not.1 (by rw [hcA]; simp)
      have : ¬ (0 : ℤ) < A := this
      omega
    have hB : 0 < B := (PF.igt_iff (⟨B⟩ : Usize) (0 : Usize)).1 hcB
    simp only
    obtain ⟨v, hb⟩ := EH_entry (B - 1).toNat (by omega)
    rw [castB hB] at hb
    rw [hkR, hA]
    refine ⟨v, ?_⟩
    have e : 16 * ((0 : ℤ) : ℝ) + (B : ℝ) / 2 = (B : ℝ) / 2 := by push_cast; ring
    rw [e]
    refine le_trans hb ?_
    rw [div_eq_mul_one_div, mul_comm]
    exact mul_le_mul_of_nonneg_right (by norm_num) (Real.exp_pos _).le
  · -- k = 32 A
    have hA : 0 < A := (PF.igt_iff (⟨A⟩ : Usize) (0 : Usize)).1 hcA
    have hB : B = 0 := by
      have := (PF.igt_iff (⟨B⟩ : Usize) (0 : Usize)).not.1 (by rw [hcB]; simp)
      have : ¬ (0 : ℤ) < B := this
      omega
    simp only
    obtain ⟨v, hb⟩ := E16_entry (A - 1).toNat (by omega)
    rw [castA hA] at hb
    rw [hkR, hB]
    refine ⟨v, ?_⟩
    have e : 16 * (A : ℝ) + ((0 : ℤ) : ℝ) / 2 = 16 * (A : ℝ) := by push_cast; ring
    rw [e]
    refine le_trans hb ?_
    rw [div_eq_mul_one_div, mul_comm]
    exact mul_le_mul_of_nonneg_right (by norm_num) (Real.exp_pos _).le
  · -- k = 32 A + B
    have hA : 0 < A := (PF.igt_iff (⟨A⟩ : Usize) (0 : Usize)).1 hcA
    have hB : 0 < B := (PF.igt_iff (⟨B⟩ : Usize) (0 : Usize)).1 hcB
    simp only
    obtain ⟨va, ha⟩ := E16_entry (A - 1).toNat (by omega)
    obtain ⟨vb, hb⟩ := EH_entry (B - 1).toNat (by omega)
    rw [castA hA] at ha
    rw [castB hB] at hb
    generalize explog.exp_half.EXP_16_N.getD (A - 1).toNat default = Ta at *
    generalize explog.exp_half.EXP_HALF_N.getD (B - 1).toNat default = Tb at *
    have hpA := Real.exp_pos (16 * (A : ℝ))
    have hpB := Real.exp_pos ((B : ℝ) / 2)
    have hexp : Real.exp ((k : ℝ) / 2) = Real.exp (16 * (A : ℝ)) * Real.exp ((B : ℝ) / 2) := by
      rw [hkR, Real.exp_add]
    have hle := exp_half_le_1018 h0 h1
    have hge : (1 : ℝ) ≤ Real.exp ((k : ℝ) / 2) := by
      have : (0 : ℝ) ≤ (k : ℝ) / 2 := by
        have : (0 : ℝ) ≤ (k : ℝ) := by exact_mod_cast h0
        positivity
      exact Real.one_le_exp this
    rw [hexp] at hle hge ⊢
    have hTa : |rv Ta| ≤ 5 / 4 * Real.exp (16 * (A : ℝ)) ∧ Real.exp (16 * (A : ℝ)) / 2 ≤ |rv Ta| := by
      have h3 := abs_sub_abs_le_abs_sub (rv Ta) (Real.exp (16 * (A : ℝ)))
      have h4 := abs_sub_abs_le_abs_sub (Real.exp (16 * (A : ℝ))) (rv Ta)
      rw [abs_of_pos hpA] at h3 h4
      rw [abs_sub_comm] at h4
      have : Real.exp (16 * (A : ℝ)) / 2 ^ 107 ≤ Real.exp (16 * (A : ℝ)) / 4 :=
        div_le_div_of_nonneg_left hpA.le (by norm_num) (by norm_num)
      constructor <;> linarith
    have hTb : |rv Tb| ≤ 5 / 4 * Real.exp ((B : ℝ) / 2) ∧ Real.exp ((B : ℝ) / 2) / 2 ≤ |rv Tb| := by
      have h3 := abs_sub_abs_le_abs_sub (rv Tb) (Real.exp ((B : ℝ) / 2))
      have h4 := abs_sub_abs_le_abs_sub (Real.exp ((B : ℝ) / 2)) (rv Tb)
      rw [abs_of_pos hpB] at h3 h4
      rw [abs_sub_comm] at h4
      have : Real.exp ((B : ℝ) / 2) / 2 ^ 107 ≤ Real.exp ((B : ℝ) / 2) / 4 :=
        div_le_div_of_nonneg_left hpB.le (by norm_num) (by norm_num)
      constructor <;> linarith
    have habs1 : |rv Ta * rv Tb| ≤ 2 ^ 1019 := by
      rw [abs_mul]
      calc |rv Ta| * |rv Tb| ≤ (5 / 4 * Real.exp (16 * (A : ℝ))) * (5 / 4 * Real.exp ((B : ℝ) / 2)) :=
            mul_le_mul hTa.1 hTb.1 (abs_nonneg _) (by positivity)
        _ = 25 / 16 * (Real.exp (16 * (A : ℝ)) * Real.exp ((B : ℝ) / 2)) := by ring
        _ ≤ 25 / 16 * 2 ^ 1018 := by linarith
        _ ≤ 2 ^ 1019 := by norm_num
    have habs0 : 1 / 2 ^ 957 ≤ |rv Ta * rv Tb| := by
      rw [abs_mul]
      calc (1 : ℝ) / 2 ^ 957 ≤ 1 / 4 := by norm_num
        _ ≤ (Real.exp (16 * (A : ℝ)) * Real.exp ((B : ℝ) / 2)) / 4 := by linarith
        _ = (Real.exp (16 * (A : ℝ)) / 2) * (Real.exp ((B : ℝ) / 2) / 2) := by ring
        _ ≤ |rv Ta| * |rv Tb| := mul_le_mul hTa.2 hTb.2 (by positivity) (abs_nonneg _)
    obtain ⟨mv, hmul⟩ := mul_rv_rel va vb habs0 habs1
    exact ⟨mv, prod_rel_real hpA hpB ha hb hmul⟩

/-- **`exp_half` on `−1200 ≤ k ≤ 1407`**: a valid pair within `24.2u²` (relative) of `exp(k/2)`
(`8.1u²` for `k ≥ 0`; the reciprocal adds `16u²`) -/
theorem exp_half_bound (k : ℤ) (h0 : -1200 ≤ k) (h1 : k ≤ 1407) :
    VW (explog.exp_half (⟨k⟩ : I32)) ∧
    |rv (explog.exp_half (⟨k⟩ : I32)) - Real.exp ((k : ℝ) / 2)| ≤ 242 / 10 / 2 ^ 106 * Real.exp ((k : ℝ) / 2) := by
  by_cases hk : 0 ≤ k
  · obtain ⟨v, hb⟩ := exp_half_nonneg 1 k hk h1
    refine ⟨v, le_trans hb ?_⟩
    exact mul_le_mul_of_nonneg_right (by norm_num) (Real.exp_pos _).le
  · have hgo : explog.exp_half (⟨k⟩ : I32) = TwoFloat.recip (explog.exp_half.go (0 + 1) (⟨-k⟩ : I32)) := by
      show explog.exp_half.go 2 (⟨k⟩ : I32) = _
      rw [explog.exp_half.go]
      have hneg : (⟨k⟩ : I32).is_negative = true := by
        show decide (k < 0) = true
        simp; omega
      rw [hneg]
      simp only [if_true]
      rfl
    rw [hgo]
    obtain ⟨Rv, hR⟩ := exp_half_nonneg 0 (-k) (by omega) (by omega)
    generalize explog.exp_half.go (0 + 1) (⟨-k⟩ : I32) = R at *
    have ecast : ((-k : ℤ) : ℝ) / 2 = -((k : ℝ) / 2) := by push_cast; ring
    set e := Real.exp (((-k : ℤ) : ℝ) / 2) with he
    have hepos : 0 < e := Real.exp_pos _
    have hele : e ≤ 2 ^ 867 := exp_half_le_867 (by omega) (by omega)
    have hege : 1 ≤ e := by
      apply Real.one_le_exp
      have : (0 : ℝ) ≤ ((-k : ℤ) : ℝ) := by exact_mod_cast (by omega : (0 : ℤ) ≤ -k)
      positivity
    have hRabs : e / 2 ≤ |rv R| ∧ |rv R| ≤ 2 * e := by
      have h3 := abs_sub_abs_le_abs_sub (rv R) e
      have h4 := abs_sub_abs_le_abs_sub e (rv R)
      rw [abs_of_pos hepos] at h3 h4
      rw [abs_sub_comm] at h4
      have : (81 : ℝ) / 10 / 2 ^ 106 * e ≤ e / 2 := by
        have : (81 : ℝ) / 10 / 2 ^ 106 ≤ 1 / 2 := by norm_num
        nlinarith
      constructor <;> linarith
    have hq1 : (1 : ℚ) / 2 ^ 901 ≤ |PowiBound.val R| := by
      have : ((1 / 2 ^ 901 : ℚ) : ℝ) ≤ ((|PowiBound.val R| : ℚ) : ℝ) := by
        rw [Rat.cast_abs, ← rv_eq_val]
        push_cast
        have : (1 : ℝ) / 2 ^ 901 ≤ 1 / 2 := by norm_num
        linarith [hRabs.1]
      exact_mod_cast this
    have hq2 : |PowiBound.val R| ≤ (2 : ℚ) ^ 901 := by
      have : ((|PowiBound.val R| : ℚ) : ℝ) ≤ (((2 : ℚ) ^ 901 : ℚ) : ℝ) := by
        rw [Rat.cast_abs, ← rv_eq_val]
        push_cast
        have : (2 : ℝ) * 2 ^ 867 ≤ 2 ^ 901 := by norm_num
        linarith [hRabs.2]
      exact_mod_cast this
    obtain ⟨rv', rw', rb⟩ := PowiBound.recip_val Rv.1 hq1 hq2
    refine ⟨⟨rv', rw'⟩, ?_⟩
    have rbR : |1 - rv (TwoFloat.recip R) * rv R| ≤ 1 / 2 ^ 102 := by
      rw [rv_eq_val, rv_eq_val]
      have := (Rat.cast_le (K := ℝ)).2 rb
      push_cast at this ⊢
      exact this
    have hs : |rv R - e| ≤ 81 / 10 / 2 ^ 106 * |e| := by rw [abs_of_pos hepos]; exact hR
    have key := recip_rel_real hepos.ne' hs rbR (by positivity) (by norm_num) (by norm_num)
    have einv : e⁻¹ = Real.exp ((k : ℝ) / 2) := by
      rw [he, ecast, Real.exp_neg, inv_inv]
    rw [einv, abs_of_pos (Real.exp_pos _)] at key
    refine le_trans key ?_
    exact mul_le_mul_of_nonneg_right (by norm_num) (Real.exp_pos _).le

/-- product of two relative approximations followed by one relative rounding -/
theorem prod_rel_gen {a b A B r α β γ ε : ℝ} (hA : 0 < A) (hB : 0 < B) (ha : |a - A| ≤ α * A)
    (hb : |b - B| ≤ β * B) (hr : |r - a * b| ≤ γ * |a * b|) (hα : 0 ≤ α) (hγ : 0 ≤ γ)
    (hε : (α + β + α * β) + γ * (1 + (α + β + α * β)) ≤ ε) :
    |r - A * B| ≤ ε * (A * B) := by
  have hAB : 0 < A * B := mul_pos hA hB
  have h1 : |a * b - A * B| ≤ (α + β + α * β) * (A * B) := by
    have e : a * b - A * B = (a - A) * B + A * (b - B) + (a - A) * (b - B) := by ring
    rw [e]
    have t1 : |(a - A) * B| ≤ α * A * B := by
      rw [abs_mul, abs_of_pos hB]; exact mul_le_mul_of_nonneg_right ha hB.le
    have t2 : |A * (b - B)| ≤ A * (β * B) := by
      rw [abs_mul, abs_of_pos hA]; exact mul_le_mul_of_nonneg_left hb hA.le
    have t3 : |(a - A) * (b - B)| ≤ α * A * (β * B) := by
      rw [abs_mul]; exact mul_le_mul ha hb (abs_nonneg _) (by positivity)
    have := abs_add_le ((a - A) * B + A * (b - B)) ((a - A) * (b - B))
    have := abs_add_le ((a - A) * B) (A * (b - B))
    have e2 : α * A * B + A * (β * B) + α * A * (β * B) = (α + β + α * β) * (A * B) := by ring
    linarith
  have h2 : |a * b| ≤ (1 + (α + β + α * β)) * (A * B) := by
    have := abs_sub_abs_le_abs_sub (a * b) (A * B)
    rw [abs_of_pos hAB] at this
    linarith
  have h3 := abs_add_le (r - a * b) (a * b - A * B)
  rw [show r - a * b + (a * b - A * B) = r - A * B by ring] at h3
  have h4 := mul_le_mul_of_nonneg_left h2 hγ
  have e3 : γ * ((1 + (α + β + α * β)) * (A * B)) + (α + β + α * β) * (A * B)
      = ((α + β + α * β) + γ * (1 + (α + β + α * β))) * (A * B) := by ring
  have h5 := mul_le_mul_of_nonneg_right hε hAB.le
  linarith

theorem hHi_pow_1400 : hHi ^ 1400 ≤ 2 ^ 1011 := by decide +kernel

theorem exp_half_le_1011 {k : ℤ} (h0 : 0 ≤ k) (h1 : k ≤ 1400) : Real.exp ((k : ℝ) / 2) ≤ 2 ^ 1011 := by
  refine le_trans (exp_half_le (N := 1400) h0 (by exact_mod_cast h1)) ?_
  have := (Rat.cast_le (K := ℝ)).2 hHi_pow_1400
  push_cast at this ⊢
  exact this

/-- `2^-867 ≤ exp(k/2) ≤ 2^1011` for `−1200 ≤ k ≤ 1400` -/
theorem exp_half_range {k : ℤ} (h0 : -1200 ≤ k) (h1 : k ≤ 1400) :
    1 / 2 ^ 867 ≤ Real.exp ((k : ℝ) / 2) ∧ Real.exp ((k : ℝ) / 2) ≤ 2 ^ 1011 := by
  by_cases hk : 0 ≤ k
  · refine ⟨?_, exp_half_le_1011 hk h1⟩
    have : (1 : ℝ) ≤ Real.exp ((k : ℝ) / 2) := by
      apply Real.one_le_exp
      have : (0 : ℝ) ≤ (k : ℝ) := by exact_mod_cast hk
      positivity
    have e : (1 : ℝ) / 2 ^ 867 ≤ 1 := by norm_num
    linarith
  · have hk' : (0 : ℤ) ≤ -k := by omega
    have h := exp_half_le_867 hk' (by omega)
    have ecast : ((-k : ℤ) : ℝ) / 2 = -((k : ℝ) / 2) := by push_cast; ring
    rw [ecast, Real.exp_neg] at h
    have hp := Real.exp_pos ((k : ℝ) / 2)
    constructor
    · rw [one_div]
      exact (inv_le_comm₀ hp (by positivity : (0 : ℝ) < 2 ^ 867)).1 h
    · have : Real.exp ((k : ℝ) / 2) ≤ 1 := by
        rw [← Real.exp_zero]
        apply Real.exp_le_exp.2
        have : (k : ℝ) ≤ 0 := by exact_mod_cast (by omega : k ≤ 0)
        linarith
      have e : (1 : ℝ) ≤ 2 ^ 1011 := by norm_num
      linarith

/-- real-number core of the final assembly -/
theorem exp_final_real {r ez ey res zr D Y β ε : ℝ} (hD : |D| ≤ 2501 / 10000)
    (hz : |zr - D| ≤ 1 / 2 ^ 105 * |D|)
    (hr : |r - (Real.exp zr - 1)| ≤ 16 / 10 / 2 ^ 106)
    (hez : |ez - (r + 1)| ≤ 1 / 2 ^ 105 * |r + 1|)
    (hY : 0 < Y) (hey : |ey - Y| ≤ β * Y)
    (hres : |res - ez * ey| ≤ 7 / 2 ^ 106 * |ez * ey|)
    (hε : (52 / 10 / 2 ^ 106 + β + 52 / 10 / 2 ^ 106 * β)
      + 7 / 2 ^ 106 * (1 + (52 / 10 / 2 ^ 106 + β + 52 / 10 / 2 ^ 106 * β)) ≤ ε) :
    |res - Real.exp D * Y| ≤ ε * (Real.exp D * Y) ∧ 1 / 2 ≤ ez ∧ ez ≤ 2 := by
  have hG := Real.exp_pos D
  -- exp D ∈ [0.77, 1.29]
  have hDq : |D| ≤ 1 / 4 + 1 / 128 := le_trans hD (by norm_num)
  obtain ⟨d1, d2⟩ := abs_le.1 hD
  have gup : Real.exp D ≤ 1286 / 1000 := by
    have h1 : Real.exp D ≤ Real.exp (1 / 4) * Real.exp (1 / 10000) := by
      rw [← Real.exp_add]; exact Real.exp_le_exp.2 (by linarith)
    have h3 := (exp_range_quarter (x0 := 1 / 4) (by norm_num [abs_of_pos])).2
    have h4 : Real.exp (1 / 10000) ≤ 1 + 2 * (1 / 10000) := by
      have := Real.abs_exp_sub_one_le (x := 1 / 10000) (by norm_num [abs_of_pos])
      rw [abs_of_pos (by norm_num : (0 : ℝ) < 1 / 10000)] at this
      have := (abs_le.1 this).2
      linarith
    calc Real.exp D ≤ Real.exp (1 / 4) * Real.exp (1 / 10000) := h1
      _ ≤ 1285 / 1000 * (1 + 2 * (1 / 10000)) := mul_le_mul h3 h4 (Real.exp_pos _).le (by norm_num)
      _ ≤ 1286 / 1000 := by norm_num
  have glo : 777 / 1000 ≤ Real.exp D := by
    have h1 : Real.exp (-(1 / 4)) * Real.exp (-(1 / 10000)) ≤ Real.exp D := by
      rw [← Real.exp_add]; exact Real.exp_le_exp.2 (by linarith)
    have h3 := (exp_range_quarter (x0 := -(1 / 4)) (by norm_num [abs_of_pos])).1
    have h4 : 1 - 2 * (1 / 10000) ≤ Real.exp (-(1 / 10000)) := by
      have := Real.abs_exp_sub_one_le (x := -(1 / 10000)) (by norm_num [abs_of_pos])
      rw [abs_neg, abs_of_pos (by norm_num : (0 : ℝ) < 1 / 10000)] at this
      have := (abs_le.1 this).1
      linarith
    calc (777 : ℝ) / 1000 ≤ 778 / 1000 * (1 - 2 * (1 / 10000)) := by norm_num
      _ ≤ Real.exp (-(1 / 4)) * Real.exp (-(1 / 10000)) :=
          mul_le_mul h3 h4 (by norm_num) (Real.exp_pos _).le
      _ ≤ Real.exp D := h1
  -- exp zr versus exp D
  have hzd : |zr - D| ≤ 1 / 2 ^ 105 * (2501 / 10000) :=
    le_trans hz (mul_le_mul_of_nonneg_left hD (by positivity))
  have hexpz : |Real.exp zr - Real.exp D| ≤ 102 / 100 / 2 ^ 106 * Real.exp D := by
    have e : Real.exp zr - Real.exp D = Real.exp D * (Real.exp (zr - D) - 1) := by
      rw [mul_sub, mul_one, ← Real.exp_add]; congr 2; ring
    rw [e, abs_mul, abs_of_pos hG, mul_comm]
    refine mul_le_mul_of_nonneg_right ?_ hG.le
    have h1 := Real.abs_exp_sub_one_le (x := zr - D) (le_trans hzd (by norm_num))
    have e2 : 2 * ((1 : ℝ) / 2 ^ 105 * (2501 / 10000)) ≤ 102 / 100 / 2 ^ 106 := by norm_num
    linarith
  -- ez versus exp D
  have hr1 : |r + 1 - Real.exp D| ≤ 16 / 10 / 2 ^ 106 + 102 / 100 / 2 ^ 106 * Real.exp D := by
    have := abs_add_le (r - (Real.exp zr - 1)) (Real.exp zr - Real.exp D)
    rw [show r - (Real.exp zr - 1) + (Real.exp zr - Real.exp D) = r + 1 - Real.exp D by ring] at this
    linarith
  have hr1abs : |r + 1| ≤ 13 / 10 := by
    have := abs_sub_abs_le_abs_sub (r + 1) (Real.exp D)
    rw [abs_of_pos hG] at this
    have h2 : (102 : ℝ) / 100 / 2 ^ 106 * Real.exp D ≤ 102 / 100 / 2 ^ 106 * (1286 / 1000) :=
      mul_le_mul_of_nonneg_left gup (by positivity)
    have e : (16 : ℝ) / 10 / 2 ^ 106 + 102 / 100 / 2 ^ 106 * (1286 / 1000) + 1286 / 1000 ≤ 13 / 10 := by norm_num
    linarith
  have hr1abs' : |r + 1| ≤ Real.exp D + 3 / 2 ^ 106 := by
    have := abs_sub_abs_le_abs_sub (r + 1) (Real.exp D)
    rw [abs_of_pos hG] at this
    have h2 : (102 : ℝ) / 100 / 2 ^ 106 * Real.exp D ≤ 102 / 100 / 2 ^ 106 * (1286 / 1000) :=
      mul_le_mul_of_nonneg_left gup (by positivity)
    have e : (16 : ℝ) / 10 / 2 ^ 106 + 102 / 100 / 2 ^ 106 * (1286 / 1000) ≤ 3 / 2 ^ 106 := by norm_num
    linarith
  have hezG : |ez - Real.exp D| ≤ 52 / 10 / 2 ^ 106 * Real.exp D := by
    have h1 := abs_add_le (ez - (r + 1)) (r + 1 - Real.exp D)
    rw [show ez - (r + 1) + (r + 1 - Real.exp D) = ez - Real.exp D by ring] at h1
    have h2 := mul_le_mul_of_nonneg_left hr1abs' (by positivity : (0 : ℝ) ≤ 1 / 2 ^ 105)
    have hconst : (1 : ℝ) / 2 ^ 105 * (3 / 2 ^ 106) + 16 / 10 / 2 ^ 106 ≤ 207 / 100 / 2 ^ 106 * (777 / 1000) := by
      norm_num
    have h3 : (207 : ℝ) / 100 / 2 ^ 106 * (777 / 1000) ≤ 207 / 100 / 2 ^ 106 * Real.exp D :=
      mul_le_mul_of_nonneg_left glo (by positivity)
    have e : (1 : ℝ) / 2 ^ 105 * Real.exp D + 207 / 100 / 2 ^ 106 * Real.exp D + 102 / 100 / 2 ^ 106 * Real.exp D
        = 509 / 100 / 2 ^ 106 * Real.exp D := by ring
    have h4 : (509 : ℝ) / 100 / 2 ^ 106 * Real.exp D ≤ 52 / 10 / 2 ^ 106 * Real.exp D :=
      mul_le_mul_of_nonneg_right (by norm_num) hG.le
    have e5 : (1 : ℝ) / 2 ^ 105 * (Real.exp D + 3 / 2 ^ 106)
        = 1 / 2 ^ 105 * Real.exp D + 1 / 2 ^ 105 * (3 / 2 ^ 106) := by ring
    linarith
  have hezr : 1 / 2 ≤ ez ∧ ez ≤ 2 := by
    obtain ⟨l1, l2⟩ := abs_le.1 hezG
    have h5 : (52 : ℝ) / 10 / 2 ^ 106 * Real.exp D ≤ 52 / 10 / 2 ^ 106 * (1286 / 1000) :=
      mul_le_mul_of_nonneg_left gup (by positivity)
    have e : (52 : ℝ) / 10 / 2 ^ 106 * (1286 / 1000) ≤ 1 / 10 := by norm_num
    constructor <;> linarith
  refine ⟨?_, hezr⟩
  exact prod_rel_gen hG hY hezG hey hres (by positivity) (by positivity) hε

/-- **accuracy of `TwoFloat::exp`**: for a valid `x` with `−600 ≤ x ≤ 700` the result is a valid pair within
relative `37u² = 37·2^-106 < 2^-100` of `e^x` -/
theorem exp_bound_split (x : TwoFloat) (hv : x.Valid) (hw : x.WF) (hlo : -600 ≤ rv x) (hhi : rv x ≤ 700) :
    VW (TwoFloat.exp x) ∧ |rv (TwoFloat.exp x) - Real.exp (rv x)| ≤ 37 / 2 ^ 106 * Real.exp (rv x) ∧
    (0 ≤ rv x → |rv (TwoFloat.exp x) - Real.exp (rv x)| ≤ 21 / 2 ^ 106 * Real.exp (rv x)) := by
  have hU : (0 : ℝ) < 2 ^ 1074 := by positivity
  -- the high word is inside (−709, 709)
  have hVabs : |x.V| ≤ 700 * 2 ^ 1074 := by
    have h1 : |rv x| ≤ 700 := abs_le.2 ⟨by linarith, hhi⟩
    rw [rv_abs, div_le_iff₀ hU] at h1
    exact_mod_cast h1
  obtain ⟨b1, _⟩ := PowiBound.hi_bounds hv
  have hhiabs : |x.hi.toInt| < 709 * (F64.unit : ℤ) := by
    rw [unit_cast_eq]
    have hT : (0 : ℤ) < 2 ^ 1074 := by positivity
    generalize (2 : ℤ) ^ 1074 = T at *
    have : (0 : ℤ) ≤ |x.hi.toInt| := abs_nonneg _
    norm_num at b1
    omega
  obtain ⟨hl, hh⟩ := abs_lt.1 hhiabs
  have hl' : -(709 * (F64.unit : Int)) < x.hi.toInt := by linarith
  unfold TwoFloat.exp
  split_ifs with c1 c2 c3 c4
  · exfalso
    rw [PF.rle_eq, PF.EXP_LOWER_val, le_iff_toInt hv.1 rfl] at c1
    have : (fin true (709 * F64.unit)).toInt = -(709 * (F64.unit : Int)) := by
      show -((709 * F64.unit : Nat) : Int) = _; push_cast; rfl
    rw [this] at c1; omega
  · exfalso
    rw [PF.rge_eq', PF.EXP_UPPER_val, ge_iff_toInt hv.1 rfl] at c2
    have : (fin false (709 * F64.unit)).toInt = 709 * (F64.unit : Int) := by
      show ((709 * F64.unit : Nat) : Int) = _; push_cast; rfl
    rw [this] at c2; omega
  · -- x.hi = ±0, hence x = 0
    have h0 : x.hi.toInt = 0 := by
      rcases Ident.f64_eq_zero_cases _ c3 with e | e <;> rw [e] <;> rfl
    have hl0 : x.lo.toInt = 0 := by
      have := hv.abs_lo_le
      rw [h0, abs_zero] at this
      exact abs_eq_zero.1 (le_antisymm this (abs_nonneg _))
    have hx0 : rv x = 0 := by unfold rv TwoFloat.V; rw [h0, hl0]; simp
    have h1 : (convert.impl_From_f64_for_TwoFloat.from (f64lit 0x3ff0000000000000)).Valid := by decide +kernel
    have h2 : (convert.impl_From_f64_for_TwoFloat.from (f64lit 0x3ff0000000000000)).WF := by decide +kernel
    have h3 : (convert.impl_From_f64_for_TwoFloat.from (f64lit 0x3ff0000000000000)).V = (2 : ℤ) ^ 1074 := by
      decide +kernel
    refine ⟨⟨h1, h2⟩, ?_⟩
    have : rv (convert.impl_From_f64_for_TwoFloat.from (f64lit 0x3ff0000000000000)) = 1 := by
      unfold rv; rw [h3]
      simp only [Int.cast_pow, Int.cast_ofNat]
      exact div_self (by positivity : ((2 : ℝ) ^ 1074) ≠ 0)
    rw [this, hx0, Real.exp_zero]
    norm_num
  · exfalso
    have := hv.1
    cases hx : x.hi <;> rw [hx] at c4 this <;> simp_all [F64.is_nan, F64.is_finite]
  · -- the main branch
    obtain ⟨⟨zf, zb⟩, k, hyf, hyk, hkb⟩ := PF.exp_reduce x hv hw hl' hh
    dsimp only
    unfold TwoFloat.hi_m
    rw [PF.cast_f64_i32 hyf hyk (by omega)]
    generalize hy : (TwoFloat.round (arithmetic.impl_Mul_TwoFloat_for_f64.mul (f64lit 0x4000000000000000) x)).hi
      = y at *
    have hdiv : (y /. f64lit 0x4000000000000000) = F64.div y (f64lit 0x4000000000000000) := rfl
    rw [hdiv]
    -- y / 2 = k/2 exactly
    have htwo : IsVal (f64lit 0x4000000000000000) (2 * (F64.unit : Int)) := by
      rw [PF.lit_two]
      exact ⟨rfl, by show ((2 * F64.unit : Nat) : Int) = _; push_cast; ring⟩
    have hkabs : |k| ≤ 1418 := by rw [← Int.natCast_natAbs]; exact_mod_cast hkb
    have hM : (2 : Int) ^ 1090 ≤ (maxFin : Int) := by exact_mod_cast PF.maxFin_ge
    have hUz : (F64.unit : ℤ) = 2 ^ 1074 := unit_cast_eq
    have hP : (0 : ℤ) < 2 ^ 1073 := by positivity
    have hW : IsVal (F64.div y (f64lit 0x4000000000000000)) (k * 2 ^ 1073) := by
      apply IsVal.div_exact ⟨hyf, hyk⟩ htwo
      · rw [hUz]; positivity
      · rw [hUz]; ring
      · exact PF.repI_small_mul_pow2 _ (by omega)
      · rw [abs_mul, abs_of_pos hP]
        calc |k| * 2 ^ 1073 ≤ 1418 * 2 ^ 1073 := by nlinarith
          _ ≤ 2 ^ 1090 := by norm_num
          _ ≤ _ := hM
    have hWWF : (F64.div y (f64lit 0x4000000000000000)).WF := div_WF _ _
    generalize F64.div y (f64lit 0x4000000000000000) = Wf at *
    have hfvW : fv Wf = (k : ℝ) / 2 := by
      unfold fv; rw [hW.2]; push_cast
      rw [div_eq_div_iff (by positivity) (by norm_num)]
      have : (2 : ℝ) ^ 1074 = 2 ^ 1073 * 2 := by norm_num
      rw [this]; ring
    have hWb : Wf.toInt.natAbs < 2 ^ 2095 := by
      rw [hW.2]
      apply natAbs_lt_of_abs_lt
      rw [abs_mul, abs_of_pos hP]
      calc |k| * 2 ^ 1073 ≤ 1418 * 2 ^ 1073 := by nlinarith
        _ < 2 ^ 2095 := by norm_num
    have hxabs : |rv x| ≤ 2 ^ 1000 := by
      have : |rv x| ≤ 700 := abs_le.2 ⟨by linarith, hhi⟩
      exact le_trans this (by norm_num)
    obtain ⟨zvw, hz⟩ := sub_tf_rv ⟨hv, hw⟩ hW.1 hWWF hxabs hWb
    rw [hfvW] at hz
    generalize arithmetic.impl_Sub_f64_for_TwoFloat.sub x Wf = z at *
    -- |rv z| ≤ (1 + 2^-53)/4 and hence |D| ≤ 0.2501
    set D := rv x - (k : ℝ) / 2 with hD
    have hzabs : |rv z| ≤ 25001 / 100000 := by
      obtain ⟨_, c2⟩ := PowiBound.hi_bounds zvw.1
      have hzb : |z.hi.toInt| ≤ 2 ^ 1072 := by
        have := abs_le_of_natAbs_le zb; exact_mod_cast this
      have hzV : |z.V| ≤ 2 ^ 1072 + 2 ^ 1020 := by
        have e1 : (2 : ℤ) ^ 1072 = 2 ^ 52 * 2 ^ 1020 := by norm_num
        rw [e1] at hzb ⊢
        generalize (2 : ℤ) ^ 1020 = T at *
        norm_num at c2 ⊢
        omega
      rw [rv_abs, div_le_iff₀ hU]
      have : ((|z.V| : ℤ) : ℝ) ≤ (((2 : ℤ) ^ 1072 + 2 ^ 1020 : ℤ) : ℝ) := by exact_mod_cast hzV
      refine le_trans this ?_
      push_cast
      norm_num
    have hDabs : |D| ≤ 2501 / 10000 := by
      have h1 := abs_sub_abs_le_abs_sub D (rv z)
      rw [abs_sub_comm D (rv z)] at h1
      have h2 : (1 : ℝ) / 2 ^ 105 * |D| ≤ 1 / 1000000 * |D| :=
        mul_le_mul_of_nonneg_right (by norm_num) (abs_nonneg _)
      linarith
    -- the range of k
    have hk1 : -1200 ≤ k := by
      obtain ⟨d1, _⟩ := abs_le.1 hDabs
      have : (-1201 : ℝ) < (k : ℝ) := by rw [hD] at d1; linarith
      have : (-1201 : ℤ) < k := by exact_mod_cast this
      omega
    have hk2 : k ≤ 1400 := by
      obtain ⟨_, d2⟩ := abs_le.1 hDabs
      have : (k : ℝ) < 1401 := by rw [hD] at d2; linarith
      have : k < (1401 : ℤ) := by exact_mod_cast this
      omega
    obtain ⟨rvw, hr, hrabs⟩ := expm1_quarter_bound zvw zb
    obtain ⟨ezvw, hez⟩ := add_one_rv rvw (le_trans hrabs (by norm_num))
    obtain ⟨eyvw, hey⟩ := exp_half_bound k hk1 (by omega)
    have hey0 : 0 ≤ k → |rv (explog.exp_half (⟨k⟩ : I32)) - Real.exp ((k : ℝ) / 2)|
        ≤ 81 / 10 / 2 ^ 106 * Real.exp ((k : ℝ) / 2) := fun h => (exp_half_nonneg 1 k h (by omega)).2
    obtain ⟨y1, y2⟩ := exp_half_range hk1 hk2
    have hY := Real.exp_pos ((k : ℝ) / 2)
    generalize TwoFloat.expm1_quarter z = r at *
    generalize arithmetic.impl_Add_f64_for_TwoFloat.add r (f64lit 0x3ff0000000000000) = ez at *
    generalize explog.exp_half (⟨k⟩ : I32) = ey at *
    -- crude ranges for the final product
    have hezr : 1 / 4 ≤ |rv ez| ∧ |rv ez| ≤ 2 := by
      have h1 := abs_sub_abs_le_abs_sub (rv ez) (rv r + 1)
      have h2 := abs_sub_abs_le_abs_sub (rv r + 1) (rv ez)
      rw [abs_sub_comm] at h2
      obtain ⟨r1, r2⟩ := abs_le.1 hrabs
      have h3 : |rv r + 1| = rv r + 1 := abs_of_pos (by linarith)
      rw [h3] at h1 h2 hez
      have h4 : (1 : ℝ) / 2 ^ 105 * (rv r + 1) ≤ 1 / 2 ^ 105 * (3 / 2) :=
        mul_le_mul_of_nonneg_left (by linarith) (by positivity)
      have e : (1 : ℝ) / 2 ^ 105 * (3 / 2) ≤ 1 / 4 := by norm_num
      constructor <;> linarith
    have heyr : Real.exp ((k : ℝ) / 2) / 2 ≤ |rv ey| ∧ |rv ey| ≤ 2 * Real.exp ((k : ℝ) / 2) := by
      have h1 := abs_sub_abs_le_abs_sub (rv ey) (Real.exp ((k : ℝ) / 2))
      have h2 := abs_sub_abs_le_abs_sub (Real.exp ((k : ℝ) / 2)) (rv ey)
      rw [abs_sub_comm] at h2
      rw [abs_of_pos hY] at h1 h2
      have : (242 : ℝ) / 10 / 2 ^ 106 * Real.exp ((k : ℝ) / 2) ≤ Real.exp ((k : ℝ) / 2) / 2 := by
        have : (242 : ℝ) / 10 / 2 ^ 106 ≤ 1 / 2 := by norm_num
        nlinarith
      constructor <;> linarith
    have hp1 : |rv ez * rv ey| ≤ 2 ^ 1019 := by
      rw [abs_mul]
      calc |rv ez| * |rv ey| ≤ 2 * (2 * Real.exp ((k : ℝ) / 2)) :=
            mul_le_mul hezr.2 heyr.2 (abs_nonneg _) (by norm_num)
        _ ≤ 2 * (2 * 2 ^ 1011) := by linarith
        _ ≤ 2 ^ 1019 := by norm_num
    have hp0 : 1 / 2 ^ 957 ≤ |rv ez * rv ey| := by
      rw [abs_mul]
      calc (1 : ℝ) / 2 ^ 957 ≤ 1 / 4 * (1 / 2 ^ 867 / 2) := by norm_num
        _ ≤ 1 / 4 * (Real.exp ((k : ℝ) / 2) / 2) := by
            apply mul_le_mul_of_nonneg_left _ (by norm_num); linarith
        _ ≤ |rv ez| * |rv ey| := mul_le_mul hezr.1 heyr.1 (by positivity) (abs_nonneg _)
    obtain ⟨resvw, hres⟩ := mul_rv_rel ezvw eyvw hp0 hp1
    have e : Real.exp D * Real.exp ((k : ℝ) / 2) = Real.exp (rv x) := by
      rw [← Real.exp_add, hD]; congr 1; ring
    refine ⟨resvw, ?_, ?_⟩
    · have fin := (exp_final_real hDabs hz hr hez hY hey hres (ε := 37 / 2 ^ 106) (by norm_num)).1
      rw [e] at fin
      exact fin
    · intro hx0
      have hk0 : 0 ≤ k := by
        obtain ⟨_, d2⟩ := abs_le.1 hDabs
        have : (-1 : ℝ) < (k : ℝ) := by rw [hD] at d2; linarith
        have : (-1 : ℤ) < k := by exact_mod_cast this
        omega
      have fin := (exp_final_real hDabs hz hr hez hY (hey0 hk0) hres (ε := 21 / 2 ^ 106) (by norm_num)).1
      rw [e] at fin
      exact fin

theorem exp_bound_37 (x : TwoFloat) (hv : x.Valid) (hw : x.WF) (hlo : -600 ≤ rv x) (hhi : rv x ≤ 700) :
    VW (TwoFloat.exp x) ∧ |rv (TwoFloat.exp x) - Real.exp (rv x)| ≤ 37 / 2 ^ 106 * Real.exp (rv x) :=
  ⟨(exp_bound_split x hv hw hlo hhi).1, (exp_bound_split x hv hw hlo hhi).2.1⟩

end assembly

end ExpBound
