/-
Lemmas.Log2Bound — the Newton iteration of `TwoFloat::log2` over `ℝ`, PARAMETRISED by the accuracy `dE` of `exp2` and the
accuracy `η₀` of the seed `libm::log2` (so that sharper bounds for either propagate without touching this file):

  x₀ = libm::log2(hi),  x ← x + (v·exp2(−x) − 1)·FRAC_1_LN_2   (twice).

With `e = x − log₂ v` one step gives `|e'| ≤ 0.7·e² + 1.4431·dE + 11u² + 4u²·|log₂ v|` (`log2_step_real`, `log2_step`):
`(2^(−e) − 1)/ln 2 = −e + O(ln 2·e²)`, the relative error of `exp2` enters divided by `ln 2`, the products cost `7u²` each.
`log2_bound_of` assembles the two steps.  `FRAC_1_LN_2` is the correctly rounded `1/ln 2` (`C12x.LOG2_E_rel_err`).
-/
import TFV.Lemmas.LnBound

set_option exponentiation.threshold 4000

namespace Log2Bound

open ConstBounds ExpBound LnBound

/-! ## 1. one step over `ℝ` -/

section real

/-- the product `P ≈ v·E` against `t = exp(−e·c)` -/
theorem log2_P {ℓ e c E P dE : ℝ} (hc1 : 693 / 1000 ≤ c) (hc2 : c ≤ 694 / 1000)
    (he : |e| ≤ 1 / 2 ^ 20) (hdE0 : 0 ≤ dE) (hdE : dE ≤ 1 / 2 ^ 80)
    (hE : |E - Real.exp (-(ℓ * c + e * c))| ≤ dE * Real.exp (-(ℓ * c + e * c)))
    (hP : |P - Real.exp (ℓ * c) * E| ≤ 7 / 2 ^ 106 * |Real.exp (ℓ * c) * E|) :
    |P - Real.exp (-(e * c))| ≤ 100001 / 100000 * dE + 7001 / 1000 / 2 ^ 106 ∧ |P - 1| ≤ 1 / 2 ^ 18 ∧
    |Real.exp (-(e * c)) - 1 + e * c| ≤ (e * c) ^ 2 := by
  have hc0 : 0 < c := by linarith
  have ht := Real.exp_pos (-(e * c))
  have hec : |e * c| ≤ 1 / 2 ^ 20 := by
    rw [abs_mul, abs_of_pos hc0]
    calc |e| * c ≤ 1 / 2 ^ 20 * 1 := mul_le_mul he (by linarith) hc0.le (by positivity)
      _ = 1 / 2 ^ 20 := by ring
  obtain ⟨g1, g2⟩ := exp_neg_small hec (by norm_num)
  obtain ⟨_, hPt⟩ := prod_near hE hP
  obtain ⟨t1, t2⟩ := abs_le.1 g2
  have hb1 : (dE + 7 / 2 ^ 106 + 7 / 2 ^ 106 * dE) * Real.exp (-(e * c))
      ≤ 100001 / 100000 * dE + 7001 / 1000 / 2 ^ 106 := by
    have h2 : (0 : ℝ) ≤ dE + 7 / 2 ^ 106 + 7 / 2 ^ 106 * dE := by positivity
    have h3 : (dE + 7 / 2 ^ 106 + 7 / 2 ^ 106 * dE) * Real.exp (-(e * c))
        ≤ (dE + 7 / 2 ^ 106 + 7 / 2 ^ 106 * dE) * (1 + 2 * (1 / 2 ^ 20)) :=
      mul_le_mul_of_nonneg_left (by linarith only [t2]) h2
    have h4 : (dE + 7 / 2 ^ 106 + 7 / 2 ^ 106 * dE) * (1 + 2 * (1 / 2 ^ 20))
        ≤ 100001 / 100000 * dE + 7001 / 1000 / 2 ^ 106 := by
      have e0 : (dE + 7 / 2 ^ 106 + 7 / 2 ^ 106 * dE) * (1 + 2 * (1 / 2 ^ 20))
          = ((1 + 7 / 2 ^ 106) * (1 + 2 * (1 / 2 ^ 20))) * dE + 7 / 2 ^ 106 * (1 + 2 * (1 / 2 ^ 20)) := by ring
      rw [e0]
      have c1 : ((1 : ℝ) + 7 / 2 ^ 106) * (1 + 2 * (1 / 2 ^ 20)) ≤ 100001 / 100000 := by norm_num
      have c2 : (7 : ℝ) / 2 ^ 106 * (1 + 2 * (1 / 2 ^ 20)) ≤ 7001 / 1000 / 2 ^ 106 := by norm_num
      have := mul_le_mul_of_nonneg_right c1 hdE0
      linarith only [this, c2]
    exact le_trans h3 h4
  have hPt' : |P - Real.exp (-(e * c))| ≤ 100001 / 100000 * dE + 7001 / 1000 / 2 ^ 106 := le_trans hPt hb1
  refine ⟨hPt', ?_, g1⟩
  obtain ⟨p1, p2⟩ := abs_le.1 hPt'
  have hb1s : (100001 : ℝ) / 100000 * dE + 7001 / 1000 / 2 ^ 106 ≤ 1 / 2 ^ 79 := by
    have h1 : (100001 : ℝ) / 100000 * dE ≤ 100001 / 100000 * (1 / 2 ^ 80) :=
      mul_le_mul_of_nonneg_left hdE (by norm_num)
    have h2 : (100001 : ℝ) / 100000 * (1 / 2 ^ 80) + 7001 / 1000 / 2 ^ 106 ≤ 1 / 2 ^ 79 := by norm_num
    linarith only [h1, h2]
  rw [abs_le]
  have e1 : (1 : ℝ) / 2 ^ 79 + 2 * (1 / 2 ^ 20) ≤ 1 / 2 ^ 18 := by norm_num
  constructor
  · linarith only [p1, t1, hb1s, e1]
  · linarith only [p2, t2, hb1s, e1]

/-- the correction `M ≈ (P − 1)/c` -/
theorem log2_M {c P S F M : ℝ} (hc1 : 693 / 1000 ≤ c) (hP1 : |P - 1| ≤ 1 / 2 ^ 18)
    (hS : |S - (P - 1)| ≤ 1 / 2 ^ 105 * |P - 1|)
    (hF : |1 / c - F| ≤ 1 / c / 2 ^ 107)
    (hM : |M - S * F| ≤ 7 / 2 ^ 106 * |S * F| + 1 / 2 ^ 950) :
    |M - (P - 1) / c| ≤ 1 / 2 ^ 118 := by
  have hc0 : 0 < c := by linarith
  have hS' : |S - (P - 1)| ≤ 1 / 2 ^ 123 := by
    refine le_trans hS ?_
    calc (1 : ℝ) / 2 ^ 105 * |P - 1| ≤ 1 / 2 ^ 105 * (1 / 2 ^ 18) := mul_le_mul_of_nonneg_left hP1 (by positivity)
      _ = 1 / 2 ^ 123 := by norm_num
  have hSabs : |S| ≤ 1 / 2 ^ 17 := by
    have h := abs_sub_abs_le_abs_sub S (P - 1)
    have e1 : (1 : ℝ) / 2 ^ 123 + 1 / 2 ^ 18 ≤ 1 / 2 ^ 17 := by norm_num
    linarith only [h, hS', hP1, e1]
  have hic : 1 / c ≤ 1444 / 1000 := by
    rw [div_le_iff₀ hc0]; linarith only [hc1]
  have hic0 : 0 < 1 / c := by positivity
  obtain ⟨f1, f2⟩ := abs_le.1 hF
  have hF0 : 0 ≤ F := by
    have : 1 / c / 2 ^ 107 ≤ 1 / c := div_le_self hic0.le (by norm_num)
    linarith only [this, f2]
  have hFup : F ≤ 1445 / 1000 := by
    have h1 : 1 / c / 2 ^ 107 ≤ 1444 / 1000 / 2 ^ 107 := div_le_div_of_nonneg_right hic (by positivity)
    have h2 : (1444 : ℝ) / 1000 / 2 ^ 107 ≤ 1 / 1000 := by norm_num
    linarith only [h1, h2, f1, hic]
  have hSF : |S * F| ≤ 1 / 2 ^ 16 := by
    rw [abs_mul, abs_of_nonneg hF0]
    calc |S| * F ≤ 1 / 2 ^ 17 * (1445 / 1000) := mul_le_mul hSabs hFup hF0 (by positivity)
      _ ≤ 1 / 2 ^ 16 := by norm_num
  have hM' : |M - S * F| ≤ 1 / 2 ^ 119 := by
    refine le_trans hM ?_
    have h1 : (7 : ℝ) / 2 ^ 106 * |S * F| ≤ 7 / 2 ^ 106 * (1 / 2 ^ 16) :=
      mul_le_mul_of_nonneg_left hSF (by positivity)
    have h2 : (7 : ℝ) / 2 ^ 106 * (1 / 2 ^ 16) + 1 / 2 ^ 950 ≤ 1 / 2 ^ 119 := by norm_num
    linarith only [h1, h2]
  have hSFc : |S * F - (P - 1) / c| ≤ 1 / 2 ^ 121 := by
    have e0 : S * F - (P - 1) / c = (S - (P - 1)) * F + (P - 1) * (F - 1 / c) := by ring
    rw [e0]
    refine le_trans (abs_add_le _ _) ?_
    have h1 : |(S - (P - 1)) * F| ≤ 1 / 2 ^ 123 * (1445 / 1000) := by
      rw [abs_mul, abs_of_nonneg hF0]; exact mul_le_mul hS' hFup hF0 (by positivity)
    have h2 : |(P - 1) * (F - 1 / c)| ≤ 1 / 2 ^ 18 * (1444 / 1000 / 2 ^ 107) := by
      rw [abs_mul]
      refine mul_le_mul hP1 ?_ (abs_nonneg _) (by positivity)
      rw [abs_sub_comm]
      exact le_trans hF (div_le_div_of_nonneg_right hic (by positivity))
    have h3 : (1 : ℝ) / 2 ^ 123 * (1445 / 1000) + 1 / 2 ^ 18 * (1444 / 1000 / 2 ^ 107) ≤ 1 / 2 ^ 121 := by norm_num
    linarith only [h1, h2, h3]
  have h := abs_add_le (M - S * F) (S * F - (P - 1) / c)
  rw [show M - S * F + (S * F - (P - 1) / c) = M - (P - 1) / c by ring] at h
  have h3 : (1 : ℝ) / 2 ^ 119 + 1 / 2 ^ 121 ≤ 1 / 2 ^ 118 := by norm_num
  linarith only [h, hM', hSFc, h3]

/-- one Newton step of `log2` over `ℝ`: `c = ln 2`, `ℓ = log₂ v`, `x = ℓ + e`, `E ≈ 2^(−x)` (relative `dE`),
`P ≈ v·E`, `S ≈ P − 1`, `F ≈ 1/c`, `M ≈ S·F`, `x' ≈ x + M` -/
theorem log2_step_real {ℓ e c E P S F M x' dE : ℝ} (hc1 : 693 / 1000 ≤ c) (hc2 : c ≤ 694 / 1000)
    (he : |e| ≤ 1 / 2 ^ 20) (hdE0 : 0 ≤ dE) (hdE : dE ≤ 1 / 2 ^ 80)
    (hE : |E - Real.exp (-(ℓ * c + e * c))| ≤ dE * Real.exp (-(ℓ * c + e * c)))
    (hP : |P - Real.exp (ℓ * c) * E| ≤ 7 / 2 ^ 106 * |Real.exp (ℓ * c) * E|)
    (hS : |S - (P - 1)| ≤ 1 / 2 ^ 105 * |P - 1|)
    (hF : |1 / c - F| ≤ 1 / c / 2 ^ 107)
    (hM : |M - S * F| ≤ 7 / 2 ^ 106 * |S * F| + 1 / 2 ^ 950)
    (hx : |x' - (ℓ + e + M)| ≤ cA * |ℓ + e + M|) :
    |x' - ℓ| ≤ 7 / 10 * e ^ 2 + 14431 / 10000 * dE + 11 / 2 ^ 106 + 4 / 2 ^ 106 * |ℓ| := by
  have hc0 : 0 < c := by linarith
  obtain ⟨hPt', hP1, g1⟩ := log2_P hc1 hc2 he hdE0 hdE hE hP
  have hMc := log2_M hc1 hP1 hS hF hM
  clear hE hP hS hF hM
  -- (t − 1)/c = −e + r, |r| ≤ c e²
  have hr : |(Real.exp (-(e * c)) - 1) / c + e| ≤ 694 / 1000 * e ^ 2 := by
    have e0 : (Real.exp (-(e * c)) - 1) / c + e = (Real.exp (-(e * c)) - 1 + e * c) / c := by field_simp
    rw [e0, abs_div, abs_of_pos hc0, div_le_iff₀ hc0]
    refine le_trans g1 ?_
    have h1 : (e * c) ^ 2 = (e ^ 2 * c) * c := by ring
    rw [h1]
    have he2 : 0 ≤ e ^ 2 * c := by positivity
    have h2 : e ^ 2 * c ≤ 694 / 1000 * e ^ 2 := by nlinarith [sq_nonneg e]
    exact mul_le_mul_of_nonneg_right h2 hc0.le
  -- (P − t)/c
  have hPtc : |(P - Real.exp (-(e * c))) / c| ≤ 14431 / 10000 * dE + 1011 / 100 / 2 ^ 106 := by
    rw [abs_div, abs_of_pos hc0, div_le_iff₀ hc0]
    refine le_trans hPt' ?_
    have h1 : (14431 / 10000 * dE + 1011 / 100 / 2 ^ 106) * (693 / 1000)
        ≤ (14431 / 10000 * dE + 1011 / 100 / 2 ^ 106) * c := mul_le_mul_of_nonneg_left hc1 (by positivity)
    have h2 : (100001 : ℝ) / 100000 * dE + 7001 / 1000 / 2 ^ 106
        ≤ (14431 / 10000 * dE + 1011 / 100 / 2 ^ 106) * (693 / 1000) := by
      have e0 : (14431 / 10000 * dE + 1011 / 100 / 2 ^ 106) * (693 / 1000)
          = (14431 / 10000 * (693 / 1000)) * dE + 1011 / 100 / 2 ^ 106 * (693 / 1000) := by ring
      rw [e0]
      have c1 : (100001 : ℝ) / 100000 ≤ 14431 / 10000 * (693 / 1000) := by norm_num
      have c2 : (7001 : ℝ) / 1000 / 2 ^ 106 ≤ 1011 / 100 / 2 ^ 106 * (693 / 1000) := by norm_num
      have := mul_le_mul_of_nonneg_right c1 hdE0
      linarith only [this, c2]
    linarith only [h1, h2]
  -- e + M
  have heM : |e + M| ≤ 694 / 1000 * e ^ 2 + 14431 / 10000 * dE + 1012 / 100 / 2 ^ 106 := by
    have e0 : e + M = ((Real.exp (-(e * c)) - 1) / c + e) + (P - Real.exp (-(e * c))) / c
        + (M - (P - 1) / c) := by ring
    rw [e0]
    have a2 := abs_add_le (((Real.exp (-(e * c)) - 1) / c + e) + (P - Real.exp (-(e * c))) / c)
        (M - (P - 1) / c)
    have a3 := abs_add_le ((Real.exp (-(e * c)) - 1) / c + e) ((P - Real.exp (-(e * c))) / c)
    have num : (1 : ℝ) / 2 ^ 118 ≤ 1 / 100 / 2 ^ 106 := by norm_num
    linarith only [a2, a3, num, hr, hPtc, hMc]
  have he2 : e ^ 2 ≤ 1 / 2 ^ 40 := by
    rw [← sq_abs]
    calc |e| ^ 2 ≤ (1 / 2 ^ 20) ^ 2 := pow_le_pow_left₀ (abs_nonneg _) he 2
      _ = 1 / 2 ^ 40 := by norm_num
  have heMs : |e + M| ≤ 1 / 2 ^ 39 := by
    have h1 : (14431 : ℝ) / 10000 * dE ≤ 14431 / 10000 * (1 / 2 ^ 80) := mul_le_mul_of_nonneg_left hdE (by norm_num)
    have h2 : (694 : ℝ) / 1000 * e ^ 2 ≤ 694 / 1000 * (1 / 2 ^ 40) := mul_le_mul_of_nonneg_left he2 (by norm_num)
    have h3 : (694 : ℝ) / 1000 * (1 / 2 ^ 40) + 14431 / 10000 * (1 / 2 ^ 80) + 1012 / 100 / 2 ^ 106 ≤ 1 / 2 ^ 39 := by
      norm_num
    linarith only [heM, h1, h2, h3]
  have hLa := abs_nonneg ℓ
  have hsum : |ℓ + e + M| ≤ |ℓ| + 1 / 2 ^ 39 := by
    have h := abs_add_le ℓ (e + M)
    rw [show ℓ + (e + M) = ℓ + e + M by ring] at h
    linarith only [h, heMs]
  have hx' : |x' - (ℓ + e + M)| ≤ 301 / 100 / 2 ^ 106 * (|ℓ| + 1 / 2 ^ 39) :=
    le_trans hx (mul_le_mul cA_le' hsum (abs_nonneg _) (by positivity))
  have fin := abs_add_le (x' - (ℓ + e + M)) (e + M)
  rw [show x' - (ℓ + e + M) + (e + M) = x' - ℓ by ring] at fin
  have he20 : 0 ≤ e ^ 2 := sq_nonneg e
  have h4 : (301 : ℝ) / 100 / 2 ^ 106 * (|ℓ| + 1 / 2 ^ 39)
      = 301 / 100 / 2 ^ 106 * |ℓ| + 301 / 100 / 2 ^ 106 * (1 / 2 ^ 39) := by ring
  have h5 : (301 : ℝ) / 100 / 2 ^ 106 * (1 / 2 ^ 39) ≤ 1 / 100 / 2 ^ 106 := by norm_num
  have h6 : (301 : ℝ) / 100 / 2 ^ 106 * |ℓ| ≤ 4 / 2 ^ 106 * |ℓ| := mul_le_mul_of_nonneg_right (by norm_num) hLa
  have h7 : (694 : ℝ) / 1000 * e ^ 2 ≤ 7 / 10 * e ^ 2 := mul_le_mul_of_nonneg_right (by norm_num) he20
  have h8 : (1012 : ℝ) / 100 / 2 ^ 106 + 1 / 100 / 2 ^ 106 ≤ 11 / 2 ^ 106 := by norm_num
  rw [h4] at hx'
  linarith only [fin, hx', heM, h5, h6, h7, h8]

end real

/-! ## 2. one step on pairs -/

section tf
open F64 TwoFloat

/-- the accuracy hypothesis on `exp2`: relative error `dE` against `2^x = e^(x·ln 2)` on `[−900, 1000]` -/
def Exp2Acc (dE : ℝ) : Prop :=
  ∀ y : TwoFloat, y.Valid → y.WF → -900 ≤ rv y → rv y ≤ 1000 →
    VW (TwoFloat.exp2 y) ∧
    |rv (TwoFloat.exp2 y) - Real.exp (rv y * Real.log 2)| ≤ dE * Real.exp (rv y * Real.log 2)

theorem FRAC_1_LN_2_facts : VW explog.FRAC_1_LN_2 ∧ explog.FRAC_1_LN_2 = consts.LOG2_E :=
  ⟨⟨by decide +kernel, by decide +kernel⟩, rfl⟩

theorem log_two_range : 693 / 1000 ≤ Real.log 2 ∧ Real.log 2 ≤ 694 / 1000 := by
  have l1 := Real.log_two_lt_d9
  have l2 := Real.log_two_gt_d9
  constructor <;> linarith

theorem FRAC_1_LN_2_err : |1 / Real.log 2 - rv explog.FRAC_1_LN_2| ≤ 1 / Real.log 2 / 2 ^ 107 := by
  rw [FRAC_1_LN_2_facts.2]
  have h := C12x.LOG2_E_rel_err
  have e : Real.logb 2 (Real.exp 1) = 1 / Real.log 2 := by
    unfold Real.logb; rw [Real.log_exp]
  rw [e] at h
  have hp : (0 : ℝ) < 1 / Real.log 2 := by
    have := log_two_range.1
    positivity
  rwa [abs_of_pos hp] at h

/-- the correction term `(v·exp2(−x) − 1)·FRAC_1_LN_2` -/
def corr2 (v x : TwoFloat) : TwoFloat :=
  arithmetic.impl_Mul_TwoFloat_for_TwoFloat.mul
    (arithmetic.impl_Sub_f64_for_TwoFloat.sub
      (arithmetic.impl_Mul_TwoFloat_for_TwoFloat.mul v (TwoFloat.exp2 (arithmetic.impl_Neg_for_TwoFloat.neg x)))
      (f64lit 0x3ff0000000000000))
    explog.FRAC_1_LN_2

/-- **one Newton step of `log2` on pairs**, `x ← x + (v·exp2(−x) − 1)·FRAC_1_LN_2`, with `ℓ = log₂ v ∈ [−999.5, 899]` -/
theorem log2_step {dE : ℝ} (H : Exp2Acc dE) (hdE0 : 0 ≤ dE) (hdE : dE ≤ 1 / 2 ^ 80)
    {v x : TwoFloat} (hv : VW v) (hx : VW x) (hpos : 0 < rv v)
    (hL1 : -(9995 / 10) ≤ Real.log (rv v) / Real.log 2) (hL2 : Real.log (rv v) / Real.log 2 ≤ 899)
    (he : |rv x - Real.log (rv v) / Real.log 2| ≤ 1 / 2 ^ 20) :
    VW (arithmetic.impl_Add_TwoFloat_for_TwoFloat.add x (corr2 v x)) ∧
    |rv (arithmetic.impl_Add_TwoFloat_for_TwoFloat.add x (corr2 v x)) - Real.log (rv v) / Real.log 2|
      ≤ 7 / 10 * (rv x - Real.log (rv v) / Real.log 2) ^ 2 + 14431 / 10000 * dE + 11 / 2 ^ 106
        + 4 / 2 ^ 106 * |Real.log (rv v) / Real.log 2| := by
  obtain ⟨hc1, hc2⟩ := log_two_range
  have hc0 : 0 < Real.log 2 := by linarith
  set c := Real.log 2 with hc
  set ℓ := Real.log (rv v) / c with hℓ
  obtain ⟨e1, e2⟩ := abs_le.1 he
  have h20 : (1 : ℝ) / 2 ^ 20 ≤ 1 / 10 := by norm_num
  have hN := VW_neg hx
  have hNr := rv_neg x
  obtain ⟨hE, hEb⟩ := H (arithmetic.impl_Neg_for_TwoFloat.neg x) hN.1 hN.2
    (by rw [hNr]; linarith) (by rw [hNr]; linarith)
  rw [hNr] at hEb
  have hvexp : Real.exp (ℓ * c) = rv v := by
    rw [hℓ, div_mul_cancel₀ _ hc0.ne', Real.exp_log hpos]
  have eqx : -rv x * c = -(ℓ * c + (rv x - ℓ) * c) := by ring
  rw [eqx] at hEb
  unfold corr2
  generalize TwoFloat.exp2 (arithmetic.impl_Neg_for_TwoFloat.neg x) = Ex at *
  -- the product v·E ∈ [1/2, 2]
  have hec : |(rv x - ℓ) * c| ≤ 1 / 2 ^ 19 := by
    rw [abs_mul, abs_of_pos hc0]
    calc |rv x - ℓ| * c ≤ 1 / 2 ^ 20 * 1 := mul_le_mul he (by linarith) hc0.le (by positivity)
      _ ≤ 1 / 2 ^ 19 := by norm_num
  have hd37 : dE ≤ 1 / 2 ^ 80 := hdE
  have hr12 : 1 / 2 ≤ rv v * rv Ex ∧ rv v * rv Ex ≤ 2 := by
    have ht := Real.exp_pos (-((rv x - ℓ) * c))
    have et : Real.exp (ℓ * c) * Real.exp (-(ℓ * c + (rv x - ℓ) * c)) = Real.exp (-((rv x - ℓ) * c)) := by
      rw [← Real.exp_add]; congr 1; ring
    have hvp := Real.exp_pos (ℓ * c)
    have h1 : |Real.exp (ℓ * c) * rv Ex - Real.exp (-((rv x - ℓ) * c))| ≤ dE * Real.exp (-((rv x - ℓ) * c)) := by
      rw [← et, ← mul_sub, abs_mul, abs_of_pos hvp]
      calc Real.exp (ℓ * c) * |rv Ex - Real.exp (-(ℓ * c + (rv x - ℓ) * c))|
          ≤ Real.exp (ℓ * c) * (dE * Real.exp (-(ℓ * c + (rv x - ℓ) * c))) := mul_le_mul_of_nonneg_left hEb hvp.le
        _ = dE * (Real.exp (ℓ * c) * Real.exp (-(ℓ * c + (rv x - ℓ) * c))) := by ring
    obtain ⟨_, h2⟩ := exp_neg_small hec (by norm_num)
    obtain ⟨a1, a2⟩ := abs_le.1 h1
    obtain ⟨b1, b2⟩ := abs_le.1 h2
    have h3 : dE * Real.exp (-((rv x - ℓ) * c)) ≤ 1 / 2 ^ 80 * Real.exp (-((rv x - ℓ) * c)) :=
      mul_le_mul_of_nonneg_right hdE ht.le
    rw [hvexp] at a1 a2
    constructor <;> nlinarith
  have habs : |rv v * rv Ex| = rv v * rv Ex := abs_of_pos (by linarith [hr12.1])
  obtain ⟨hP, hPb⟩ := mul_rv_rel hv hE (by rw [habs]; exact le_trans (by norm_num) hr12.1)
    (by rw [habs]; exact le_trans hr12.2 (by norm_num))
  have hP4 : |rv (arithmetic.impl_Mul_TwoFloat_for_TwoFloat.mul v Ex)| ≤ 4 := by
    rw [habs] at hPb
    obtain ⟨p1, p2⟩ := abs_le.1 hPb
    rw [abs_le]
    constructor <;> nlinarith [hr12.1, hr12.2]
  rw [← hvexp] at hPb
  generalize arithmetic.impl_Mul_TwoFloat_for_TwoFloat.mul v Ex = P at *
  obtain ⟨hS, hSb⟩ := sub_one_rv hP (le_trans hP4 (by norm_num))
  generalize arithmetic.impl_Sub_f64_for_TwoFloat.sub P (f64lit 0x3ff0000000000000) = S at *
  have hSabs : |rv S| ≤ 10 := by
    obtain ⟨p1, p2⟩ := abs_le.1 hP4
    have h1 : |rv P - 1| ≤ 5 := abs_le.2 ⟨by linarith, by linarith⟩
    have h2 := abs_sub_abs_le_abs_sub (rv S) (rv P - 1)
    have h3 : (1 : ℝ) / 2 ^ 105 * |rv P - 1| ≤ 1 * 5 := mul_le_mul (by norm_num) h1 (abs_nonneg _) (by norm_num)
    linarith
  -- the product with 1/ln 2
  have hFerr := FRAC_1_LN_2_err
  rw [← hc] at hFerr
  have hFabs : |rv explog.FRAC_1_LN_2| ≤ 2 := by
    have hic : 1 / c ≤ 1444 / 1000 := by rw [div_le_iff₀ hc0]; nlinarith
    have hic0 : 0 < 1 / c := by positivity
    have h1 := abs_sub_abs_le_abs_sub (rv explog.FRAC_1_LN_2) (1 / c)
    rw [abs_sub_comm, abs_of_pos hic0] at h1
    have : 1 / c / 2 ^ 107 ≤ 1 / c := div_le_self hic0.le (by norm_num)
    linarith
  obtain ⟨hM, hMb⟩ := mul_rv hS FRAC_1_LN_2_facts.1 (by
    rw [abs_mul]
    calc |rv S| * |rv explog.FRAC_1_LN_2| ≤ 10 * 2 := mul_le_mul hSabs hFabs (abs_nonneg _) (by norm_num)
      _ ≤ 2 ^ 1019 := by norm_num)
  generalize arithmetic.impl_Mul_TwoFloat_for_TwoFloat.mul S explog.FRAC_1_LN_2 = M at *
  have hMabs : |rv M| ≤ 2 ^ 1000 := by
    have h1 : |rv S * rv explog.FRAC_1_LN_2| ≤ 20 := by
      rw [abs_mul]
      calc |rv S| * |rv explog.FRAC_1_LN_2| ≤ 10 * 2 := mul_le_mul hSabs hFabs (abs_nonneg _) (by norm_num)
        _ = 20 := by norm_num
    have h2 := abs_sub_abs_le_abs_sub (rv M) (rv S * rv explog.FRAC_1_LN_2)
    have h3 : (7 : ℝ) / 2 ^ 106 * |rv S * rv explog.FRAC_1_LN_2| ≤ 1 * 20 :=
      mul_le_mul (by norm_num) h1 (abs_nonneg _) (by norm_num)
    have h4 : (1 : ℝ) / 2 ^ 950 ≤ 1 := by
      rw [div_le_one (by positivity)]; exact one_le_pow₀ (by norm_num)
    have : |rv M| ≤ 41 := by linarith
    exact le_trans this (by norm_num)
  have hxabs : |rv x| ≤ 2 ^ 1000 := by
    have : |rv x| ≤ 1001 := abs_le.2 ⟨by linarith, by linarith⟩
    exact le_trans this (by norm_num)
  obtain ⟨hX, hXb⟩ := add_rv hx hM hxabs hMabs
  refine ⟨hX, ?_⟩
  have e3 : rv x = ℓ + (rv x - ℓ) := by ring
  rw [e3] at hXb
  exact log2_step_real hc1 hc2 he hdE0 hdE hEb hPb hSb hFerr hMb hXb

end tf

/-! ## 3. assembly -/

section assembly
open F64 TwoFloat

/-- the generic branch of `log2` as two steps -/
theorem log2_eq_steps (v : TwoFloat)
    (h1 : base.impl_PartialEq_f64_for_TwoFloat.eq v (f64lit 0x3ff0000000000000) = false)
    (h2 : ROrd.isLe (base.impl_PartialOrd_f64_for_TwoFloat.partial_cmp v (f64lit 0)) = false) :
    TwoFloat.log2 v =
      (let x0 := convert.impl_From_f64_for_TwoFloat.from (Libm.log2 v.hi)
       let x1 := arithmetic.impl_Add_TwoFloat_for_TwoFloat.add x0 (corr2 v x0)
       arithmetic.impl_Add_TwoFloat_for_TwoFloat.add x1 (corr2 v x1)) := by
  unfold TwoFloat.log2
  simp only [h1, h2]
  rfl

/-- `log₂` of a high word in `[2^-999, 2^899]` -/
theorem log2_hi_range {h : ℝ} (h1 : 1 / 2 ^ 999 ≤ h) (h2 : h ≤ 2 ^ 899) :
    -999 ≤ Real.log h / Real.log 2 ∧ Real.log h / Real.log 2 ≤ 899 := by
  have hpos : 0 < h := lt_of_lt_of_le (by positivity) h1
  have hc0 : 0 < Real.log 2 := log_two_range.1.trans_lt' (by norm_num)
  constructor
  · have := Real.log_le_log (by positivity) h1
    rw [one_div, Real.log_inv, Real.log_pow] at this
    rw [le_div_iff₀ hc0]
    push_cast at this
    linarith
  · have := Real.log_le_log hpos h2
    rw [Real.log_pow] at this
    rw [div_le_iff₀ hc0]
    push_cast at this
    linarith

/-- **accuracy of `TwoFloat::log2`, given the accuracy `dE` of `exp2` and `η₀` of the seed**: for a valid `v` with high
word in `[2^-999, 2^898]`, with `D = 1.4431·dE + 11u² + 4u²·|log₂ v|`:
`|log2(v) − log₂ v| ≤ 0.7·(0.7·(η₀ + 2^-50)² + D)² + D` -/
theorem log2_bound_of {dE η0 : ℝ} (H : Exp2Acc dE) (hdE0 : 0 ≤ dE) (hdE : dE ≤ 1 / 2 ^ 80)
    (hη0 : 0 ≤ η0) (hη : η0 ≤ 1 / 2 ^ 21)
    (v : TwoFloat) (hv : v.Valid) (hw : v.WF)
    (hlo : 1 / 2 ^ 999 ≤ fv v.hi) (hhi : fv v.hi ≤ 2 ^ 898)
    (hseed : (Libm.log2 v.hi).is_finite = true ∧
      |fv (Libm.log2 v.hi) - Real.log (fv v.hi) / Real.log 2| ≤ η0) :
    VW (TwoFloat.log2 v) ∧
    |rv (TwoFloat.log2 v) - Real.log (rv v) / Real.log 2|
      ≤ 7 / 10 * (7 / 10 * (η0 + 1 / 2 ^ 50) ^ 2 + (14431 / 10000 * dE + 11 / 2 ^ 106
          + 4 / 2 ^ 106 * |Real.log (rv v) / Real.log 2|)) ^ 2
        + (14431 / 10000 * dE + 11 / 2 ^ 106 + 4 / 2 ^ 106 * |Real.log (rv v) / Real.log 2|) := by
  obtain ⟨hc1, hc2⟩ := log_two_range
  have hc0 : 0 < Real.log 2 := by linarith
  have hhpos : 0 < fv v.hi := lt_of_lt_of_le (by positivity) hlo
  obtain ⟨hpos, hnear, _⟩ := log_rv_near_hi hv hhpos
  obtain ⟨g1, g2⟩ := log2_hi_range hlo (le_trans hhi (by norm_num))
  have g2' : Real.log (fv v.hi) / Real.log 2 ≤ 898 := by
    have := Real.log_le_log hhpos hhi
    rw [Real.log_pow] at this
    rw [div_le_iff₀ hc0]
    push_cast at this
    linarith
  -- log₂(hi + lo) versus log₂ hi
  have hnear2 : |Real.log (rv v) / Real.log 2 - Real.log (fv v.hi) / Real.log 2| ≤ 1 / 2 ^ 51 := by
    rw [← sub_div, abs_div, abs_of_pos hc0, div_le_iff₀ hc0]
    refine le_trans hnear ?_
    have : (1 : ℝ) / 2 ^ 51 * (693 / 1000) ≤ 1 / 2 ^ 51 * Real.log 2 := mul_le_mul_of_nonneg_left hc1 (by positivity)
    have : (1 : ℝ) / 2 ^ 52 ≤ 1 / 2 ^ 51 * (693 / 1000) := by norm_num
    linarith
  obtain ⟨n1, n2⟩ := abs_le.1 hnear2
  have h51 : (1 : ℝ) / 2 ^ 51 ≤ 1 / 10 := by norm_num
  set ℓ := Real.log (rv v) / Real.log 2 with hℓ
  have hL1 : -(9995 / 10) ≤ ℓ := by linarith
  have hL2 : ℓ ≤ 899 := by linarith
  have hVpos : 0 < v.V := by
    have : (0 : ℝ) < (v.V : ℝ) := by
      have : rv v = (v.V : ℝ) / 2 ^ 1074 := rfl
      rw [this] at hpos
      exact (div_pos_iff_of_pos_right (by positivity)).1 hpos
    exact_mod_cast this
  set D := 14431 / 10000 * dE + 11 / 2 ^ 106 + 4 / 2 ^ 106 * |ℓ| with hD
  have hD0 : 0 ≤ D := by positivity
  have hDs : D ≤ 1 / 2 ^ 78 := by
    have hℓabs : |ℓ| ≤ 1001 := abs_le.2 ⟨by linarith, by linarith⟩
    have h1 : (14431 : ℝ) / 10000 * dE ≤ 14431 / 10000 * (1 / 2 ^ 80) := mul_le_mul_of_nonneg_left hdE (by norm_num)
    have h2 : (4 : ℝ) / 2 ^ 106 * |ℓ| ≤ 4 / 2 ^ 106 * 1001 := mul_le_mul_of_nonneg_left hℓabs (by positivity)
    have : (14431 : ℝ) / 10000 * (1 / 2 ^ 80) + 11 / 2 ^ 106 + 4 / 2 ^ 106 * 1001 ≤ 1 / 2 ^ 78 := by norm_num
    linarith
  cases hone : base.impl_PartialEq_f64_for_TwoFloat.eq v (f64lit 0x3ff0000000000000)
  · have hle : ROrd.isLe (base.impl_PartialOrd_f64_for_TwoFloat.partial_cmp v (f64lit 0)) = false := by
      rw [Ident.f64lit_zero, partial_cmp_tf_exact_of F64.roundFacts hv (WF_zero false) rfl, Bool.eq_false_iff]
      intro hc
      have := ROrd.isLe_ofInts.1 hc
      rw [toInt_zero] at this
      omega
    rw [log2_eq_steps v hone hle]
    dsimp only
    have hLw : (Libm.log2 v.hi).WF := PF.libm_log2_WF hw.1
    have hx0 : VW (convert.impl_From_f64_for_TwoFloat.from (Libm.log2 v.hi)) ∧
        rv (convert.impl_From_f64_for_TwoFloat.from (Libm.log2 v.hi)) = fv (Libm.log2 v.hi) := by
      rw [from_eq]
      obtain ⟨p1, p2, p3⟩ := pair_zero_spec hseed.1 hLw
      refine ⟨⟨p2, p3⟩, ?_⟩
      unfold rv fv; rw [p1]
    generalize convert.impl_From_f64_for_TwoFloat.from (Libm.log2 v.hi) = x0 at *
    have he0 : |rv x0 - ℓ| ≤ η0 + 1 / 2 ^ 50 := by
      rw [hx0.2]
      obtain ⟨s1, s2⟩ := abs_le.1 hseed.2
      rw [abs_le]
      have : (1 : ℝ) / 2 ^ 51 ≤ 1 / 2 ^ 50 := by norm_num
      constructor <;> linarith
    have he0' : |rv x0 - ℓ| ≤ 1 / 2 ^ 20 := by
      refine le_trans he0 ?_
      have : (1 : ℝ) / 2 ^ 21 + 1 / 2 ^ 50 ≤ 1 / 2 ^ 20 := by norm_num
      linarith
    obtain ⟨hx1, hb1⟩ := log2_step H hdE0 hdE ⟨hv, hw⟩ hx0.1 hpos hL1 hL2 he0'
    generalize arithmetic.impl_Add_TwoFloat_for_TwoFloat.add x0 (corr2 v x0) = x1 at *
    have hsq0 : (rv x0 - ℓ) ^ 2 ≤ (η0 + 1 / 2 ^ 50) ^ 2 := by
      rw [← sq_abs]; exact pow_le_pow_left₀ (abs_nonneg _) he0 2
    have he1 : |rv x1 - ℓ| ≤ 7 / 10 * (η0 + 1 / 2 ^ 50) ^ 2 + D := by
      rw [hD]; linarith
    have he1' : |rv x1 - ℓ| ≤ 1 / 2 ^ 20 := by
      refine le_trans he1 ?_
      have : (η0 + 1 / 2 ^ 50) ^ 2 ≤ (1 / 2 ^ 20) ^ 2 := by
        apply pow_le_pow_left₀ (by positivity)
        have : (1 : ℝ) / 2 ^ 21 + 1 / 2 ^ 50 ≤ 1 / 2 ^ 20 := by norm_num
        linarith
      have e : (7 : ℝ) / 10 * (1 / 2 ^ 20) ^ 2 + 1 / 2 ^ 78 ≤ 1 / 2 ^ 20 := by norm_num
      linarith
    obtain ⟨hx2, hb2⟩ := log2_step H hdE0 hdE ⟨hv, hw⟩ hx1 hpos hL1 hL2 he1'
    refine ⟨hx2, le_trans hb2 ?_⟩
    have hsq1 : (rv x1 - ℓ) ^ 2 ≤ (7 / 10 * (η0 + 1 / 2 ^ 50) ^ 2 + D) ^ 2 := by
      rw [← sq_abs]; exact pow_le_pow_left₀ (abs_nonneg _) he1 2
    rw [hD] at hsq1 ⊢
    linarith
  · -- `v == 1.0`
    rw [C15.log2_one v hone, C15.zero_words]
    have hV1 : rv v = 1 := by
      unfold base.impl_PartialEq_f64_for_TwoFloat.eq at hone
      rw [Bool.and_eq_true, req_eq, req_eq, eq_iff_toInt hv.1 C01d.one_isVal.1, Ident.f64lit_zero,
        eq_iff_toInt hv.2.1 rfl, C01d.one_isVal.2, toInt_zero] at hone
      unfold rv TwoFloat.V
      rw [hone.1, hone.2, unit_cast_eq]
      simp only [add_zero, Int.cast_pow, Int.cast_ofNat]
      exact div_self (by positivity : ((2 : ℝ) ^ 1074) ≠ 0)
    have hz : VW (⟨F64.zero, F64.zero⟩ : TwoFloat) := ⟨by decide +kernel, by decide +kernel⟩
    have hz0 : rv (⟨F64.zero, F64.zero⟩ : TwoFloat) = 0 := by
      unfold rv
      rw [show (⟨F64.zero, F64.zero⟩ : TwoFloat).V = 0 by decide +kernel]
      simp
    refine ⟨hz, ?_⟩
    have hℓ0 : ℓ = 0 := by rw [hℓ, hV1, Real.log_one, zero_div]
    rw [hz0, hℓ0]
    simp only [sub_zero, abs_zero]
    positivity

end assembly

end Log2Bound
