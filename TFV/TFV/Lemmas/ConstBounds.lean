/-
Lemmas.ConstBounds — integer / real-analysis lemmas behind property C12 (the published constants):

* §1  the largest value a valid double-double can have (`valid_V_le`),
* §2  the rounding cell of a double (`InCell`) and the notion "t is the correctly rounded double-double of the
      real number c" (`CorrectlyRoundedDD`), with the link to the model's rounding function `roundQ`,
* §3  tools for turning polynomial sign conditions / series enclosures into cell membership
      (`inCell_sqrt`, `inCell_of_enclosure`, `Encl` = rational enclosure of a real with interval arithmetic,
      `inCell_of_encl`, `correctlyRounded_of_encl`), and the enclosures themselves, all *proved*:
      `e` (Taylor sum, 41 terms, `Real.exp_bound`), `log 2`, `log (5/4)`, `log 10` (series
      `Σ k^-(i+1)/(i+1)` with `Real.abs_log_sub_add_sum_range_le`), `π` to 136 bits (`pi_gt_136`, `pi_lt_136`,
      Mathlib's `pi_lower_bound` / `pi_upper_bound` with 75 doublings), `√π`, and the derived quotients.
-/
import TFV.Spec.Defs
import TFV.Spec.Rounding
import TFV.Lemmas.Cmp
import Mathlib.Tactic.Ring
import Mathlib.Tactic.Linarith
import Mathlib.Tactic.NormNum
import Mathlib.Tactic.Positivity
import Mathlib.Analysis.Real.Sqrt
import Mathlib.Analysis.Complex.Exponential
import Mathlib.Analysis.SpecialFunctions.Log.Deriv
import Mathlib.Analysis.SpecialFunctions.Log.Base
import Mathlib.Analysis.Real.Pi.Bounds

set_option exponentiation.threshold 3000

namespace ConstBounds
open F64

/-! ## 1. the extreme valid pairs -/

/-- the low word of `TwoFloat::MAX`: the double just below `2^970` (scaled: `2^2044 − 2^1991`) -/
def maxLo : ℕ := (2 ^ 53 - 1) * 2 ^ 1991

theorem rn53_maxFin : rn53 maxFin = maxFin := rn53_of_rep rep_maxFin

/-- `f64::MAX + 2^970` is a tie between `f64::MAX` (odd significand) and `2^1024`; it rounds up (to even) -/
theorem rn53_overflow_tie : rn53 (maxFin + 2 ^ 2044) = 2 ^ 2098 := by
  rw [maxFin_eq]; decide +kernel

/-- a representable magnitude above `maxLo` is at least `2^2044` (`maxLo` is the predecessor of `2^2044`) -/
theorem rep_gt_maxLo {n : ℕ} (h : Rep n) (hn : maxLo < n) : 2 ^ 2044 ≤ n := by
  by_contra hc
  have hlt : n < 2 ^ 2044 := by omega
  have hd : 2 ^ 1991 ∣ n := h.dvd_of_le (e := 1991) (by unfold maxLo at hn; norm_num at hn ⊢; omega)
  obtain ⟨k, rfl⟩ := hd
  unfold maxLo at hn
  have h1 : 2 ^ 53 - 1 < k := by
    apply Nat.lt_of_mul_lt_mul_left (a := 2 ^ 1991); rw [Nat.mul_comm] at hn; exact hn
  have h2 : k < 2 ^ 53 := by
    apply Nat.lt_of_mul_lt_mul_left (a := 2 ^ 1991)
    calc 2 ^ 1991 * k < 2 ^ 2044 := hlt
      _ = 2 ^ 1991 * 2 ^ 53 := by rw [← pow_add]
  omega

/-- integer core of "MAX is the largest valid value": if `H = RN(H + L)` with `|H| ≤ f64::MAX` and `L` a
double, then `H + L ≤ f64::MAX + pred(2^970)`. -/
theorem valid_V_le {H L : ℤ} (hH : H = rnI (H + L)) (hHm : H ≤ (maxFin : ℤ)) (hL : Rep L.natAbs) :
    H + L ≤ (maxFin : ℤ) + (maxLo : ℤ) := by
  by_contra hc
  have hV : (maxFin : ℤ) + (maxLo : ℤ) < H + L := by omega
  have hlo0 : (0 : ℤ) ≤ (maxLo : ℤ) := Int.natCast_nonneg _
  -- step 1: the high word is f64::MAX
  have h1 : (maxFin : ℤ) ≤ H := by
    have := roundFacts.rnI_mono (show ((maxFin : ℕ) : ℤ) ≤ H + L by omega)
    rw [rnI_of_nonneg (Int.natCast_nonneg _), Int.natAbs_natCast, rn53_maxFin, ← hH] at this
    exact this
  have hHeq : H = (maxFin : ℤ) := le_antisymm hHm h1
  -- step 2: the low word is at least 2^970
  have hLpos : (maxLo : ℤ) < L := by omega
  have hLn : ((L.natAbs : ℕ) : ℤ) = L := Int.natAbs_of_nonneg (by omega)
  have hL2 : 2 ^ 2044 ≤ L.natAbs := rep_gt_maxLo hL (by omega)
  -- step 3: then the sum rounds to 2^1024
  have hge : ((maxFin + 2 ^ 2044 : ℕ) : ℤ) ≤ H + L := by
    rw [hHeq]; push_cast
    have : ((2 ^ 2044 : ℕ) : ℤ) ≤ ((L.natAbs : ℕ) : ℤ) := by exact_mod_cast hL2
    push_cast at this; omega
  have := roundFacts.rnI_mono hge
  rw [rnI_of_nonneg (Int.natCast_nonneg _), Int.natAbs_natCast, rn53_overflow_tie, ← hH, hHeq] at this
  have hlt : maxFin < 2 ^ 2098 := by rw [maxFin_eq]; norm_num
  have : ((2 ^ 2098 : ℕ) : ℤ) ≤ ((maxFin : ℕ) : ℤ) := this
  have : 2 ^ 2098 ≤ maxFin := by exact_mod_cast this
  omega

/-- the mirror image -/
theorem valid_V_ge {H L : ℤ} (hH : H = rnI (H + L)) (hHm : -(maxFin : ℤ) ≤ H) (hL : Rep L.natAbs) :
    -((maxFin : ℤ) + (maxLo : ℤ)) ≤ H + L := by
  have h := valid_V_le (H := -H) (L := -L) (by rw [← neg_add, rnI_neg, ← hH]) (by omega)
    (by rwa [Int.natAbs_neg])
  omega

theorem rep_natAbs_toInt {x : F64} (h : x.WF) : Rep x.toInt.natAbs := by
  cases x with
  | nan => exact rep_zero
  | inf s => exact rep_zero
  | fin s n => cases s <;> simpa [toInt] using h.1

theorem toInt_le_maxFin {x : F64} (h : x.WF) : x.toInt ≤ (maxFin : ℤ) ∧ -(maxFin : ℤ) ≤ x.toInt := by
  cases x with
  | nan => simp [toInt]
  | inf s => simp [toInt]
  | fin s n =>
    have : ((n : ℕ) : ℤ) ≤ ((maxFin : ℕ) : ℤ) := by exact_mod_cast h.2
    cases s <;> simp only [toInt] <;> omega

/-! ## 2. rounding cells and "correctly rounded double-double" -/

/-- spacing of the doubles at scaled magnitude `n` (the ulp of `n`, units of 2^-1074): `2^(⌊log2 n⌋ − 52)`,
and `1` (= 2^-1074) in the subnormal range -/
def ulp (n : ℕ) : ℕ := 2 ^ (Nat.log2 n - 52)

theorem ulp_pos (n : ℕ) : 0 < ulp n := Nat.two_pow_pos _

theorem ulp_le_self {n : ℕ} (h : n ≠ 0) : ulp n ≤ n :=
  Nat.le_trans (Nat.pow_le_pow_right (by decide) (Nat.sub_le _ _)) (Nat.log2_self_le h)

theorem ulp_zero : ulp 0 = 1 := by decide

/-- **`InCell x H`**: the real number `x` (in units of 2^-1074) lies strictly inside the rounding cell of the
double with scaled value `H`: `|x − H| < ulp(H)/2`, where `H` is not a power of two (so that the doubles next
to `H` on both sides are exactly `H ± ulp(H)`).  Then `H` is the unique double nearest to `x`
(`InCell.lt_of_ne`), i.e. `H = RN(x)` for every tie-breaking rule, and the model's rounding function returns
`H` on every rational in the cell (`InCell.roundQ_eq`). -/
structure InCell (x : ℝ) (H : ℤ) : Prop where
  not_pow2 : H.natAbs ≠ 2 ^ Nat.log2 H.natAbs
  near : 2 * |x - (H : ℝ)| < (ulp H.natAbs : ℝ)

/-- the doubles below a double `a` that is not a power of two are at least `ulp a` away -/
theorem rep_gap_below {a b : ℕ} (ha : Rep a) (hb : Rep b) (h : b < a) (hp : a ≠ 2 ^ Nat.log2 a) :
    ulp a + b ≤ a := by
  have ha0 : a ≠ 0 := by omega
  have h1 : 2 ^ Nat.log2 a ≤ a := Nat.log2_self_le ha0
  have h2 : a < 2 ^ (Nat.log2 a + 1) := Nat.lt_log2_self
  rcases Nat.lt_or_ge b (2 ^ Nat.log2 a) with hlt | hge
  · have hd1 : ulp a ∣ a := ha.dvd_ulp'
    have hd2 : ulp a ∣ 2 ^ Nat.log2 a := Nat.pow_dvd_pow 2 (Nat.sub_le _ _)
    have hd : ulp a ∣ a - 2 ^ Nat.log2 a := Nat.dvd_sub hd1 hd2
    have := Nat.le_of_dvd (by omega) hd
    omega
  · have hb0 : b ≠ 0 := by have := Nat.two_pow_pos (Nat.log2 a); omega
    have hlog : Nat.log2 b = Nat.log2 a := by
      apply Nat.le_antisymm
      · have : Nat.log2 b < Nat.log2 a + 1 := (Nat.log2_lt hb0).2 (by omega)
        omega
      · exact (Nat.le_log2 hb0).2 hge
    have := hb.ulp_le_sub_of_lt ha h
    rw [hlog] at this
    unfold ulp; omega

/-- every other double is at least one `ulp H` away from a double `H` that is not a power of two -/
theorem rep_gap {H y : ℤ} (hH : Rep H.natAbs) (hy : Rep y.natAbs) (hne : y ≠ H)
    (hp : H.natAbs ≠ 2 ^ Nat.log2 H.natAbs) : (ulp H.natAbs : ℤ) ≤ |y - H| := by
  have hlt : y.natAbs < H.natAbs → ulp H.natAbs + y.natAbs ≤ H.natAbs := fun h => rep_gap_below hH hy h hp
  have hgt : H.natAbs < y.natAbs → ulp H.natAbs + H.natAbs ≤ y.natAbs := fun h => by
    have := hH.ulp_le_sub_of_lt hy h; unfold ulp; omega
  have hu1 : H.natAbs ≠ 0 → ulp H.natAbs ≤ H.natAbs := ulp_le_self
  have hu0 : H.natAbs = 0 → ulp H.natAbs = 1 := fun h => by rw [h, ulp_zero]
  generalize ulp H.natAbs = u at *
  rcases abs_cases (y - H) with ⟨e, _⟩ | ⟨e, _⟩ <;> rw [e] <;> omega

/-- **uniqueness of the nearest double**: inside the cell of `H`, every other double is strictly farther away -/
theorem InCell.lt_of_ne {x : ℝ} {H : ℤ} (h : InCell x H) (hH : Rep H.natAbs) {y : ℤ}
    (hy : Rep y.natAbs) (hne : y ≠ H) : |x - (H : ℝ)| < |x - (y : ℝ)| := by
  have hg : ((ulp H.natAbs : ℕ) : ℝ) ≤ |(y : ℝ) - (H : ℝ)| := by
    have := rep_gap hH hy hne h.not_pow2
    have h' : (((ulp H.natAbs : ℕ) : ℤ) : ℝ) ≤ ((|y - H| : ℤ) : ℝ) := by exact_mod_cast this
    simpa using h'
  have htri : |(y : ℝ) - (H : ℝ)| ≤ |x - (H : ℝ)| + |x - (y : ℝ)| := by
    have : (y : ℝ) - (H : ℝ) = (x - (H : ℝ)) - (x - (y : ℝ)) := by ring
    rw [this]; exact abs_sub _ _
  have := h.near
  linarith

/-- **link to the model's rounding**: `F64.roundQ p q` (IEEE round-to-nearest-even of the rational `p/q` to 53
significant bits, the function every arithmetic operation of the model rounds with) returns `H` for every
rational `p/q` strictly inside the cell of the double `H` -/
theorem InCell.roundQ_eq {p q H : ℕ} (hq : 0 < q) (hH : Rep H) (h : InCell ((p : ℝ) / (q : ℝ)) (H : ℤ)) :
    roundQ p q = H := by
  by_contra hne
  have hq' : (0 : ℝ) < (q : ℝ) := by exact_mod_cast hq
  have h1 := h.lt_of_ne (y := ((roundQ p q : ℕ) : ℤ)) (by simpa using hH) (by simpa using roundQ_rep p q hq)
    (by exact_mod_cast hne)
  have h2 := roundQ_nearest p q hq hH
  have h2' : |((roundQ p q : ℕ) : ℝ) * q - p| ≤ |(H : ℝ) * q - p| := by exact_mod_cast h2
  have e1 : ∀ z : ℝ, |z * q - p| = |(p : ℝ) / q - z| * q := by
    intro z
    have : z * q - p = -(((p : ℝ) / q - z) * q) := by field_simp; ring
    rw [this, abs_neg, abs_mul, abs_of_pos hq']
  rw [e1, e1] at h2'
  have := le_of_mul_le_mul_right h2' hq'
  simp only [Int.cast_natCast] at h1
  linarith

/-- **`t` is the correctly rounded double-double of the real number `c`**: `hi = RN(c)` and `lo = RN(c − hi)`,
both strictly inside their rounding cells (no ties — automatic for irrational `c`).  Scaled units: `c · 2^1074`. -/
structure CorrectlyRoundedDD (c : ℝ) (t : TwoFloat) : Prop where
  hi : InCell (c * 2 ^ 1074) t.hi.toInt
  lo : InCell (c * 2 ^ 1074 - (t.hi.toInt : ℝ)) t.lo.toInt

/-- **accuracy of a correctly rounded double-double**: `|c − (hi + lo)| ≤ 2^-107·|c|`, in scaled units.  The side
condition (`2^107·ulp(lo) + ulp(hi) ≤ 2·hi`, a closed integer fact for each constant) says that the low word is
at least 2^53 times smaller than the high word, as it is for every normal, non-truncated double-double. -/
theorem CorrectlyRoundedDD.rel_err {c : ℝ} {t : TwoFloat} (h : CorrectlyRoundedDD c t)
    (hchk : 2 ^ 107 * (ulp t.lo.toInt.natAbs : ℤ) + (ulp t.hi.toInt.natAbs : ℤ) ≤ 2 * t.hi.toInt) :
    2 ^ 107 * |c * 2 ^ 1074 - (t.V : ℝ)| ≤ |c * 2 ^ 1074| := by
  have h1 := h.hi.near
  have h2 := h.lo.near
  have hV : (t.V : ℝ) = (t.hi.toInt : ℝ) + (t.lo.toInt : ℝ) := by unfold TwoFloat.V; push_cast; ring
  have hchk' : (2 : ℝ) ^ 107 * (ulp t.lo.toInt.natAbs : ℝ) + (ulp t.hi.toInt.natAbs : ℝ)
      ≤ 2 * (t.hi.toInt : ℝ) := by exact_mod_cast hchk
  rw [hV]
  generalize c * 2 ^ 1074 = x at *
  generalize (t.hi.toInt : ℝ) = H at *
  generalize (t.lo.toInt : ℝ) = L at *
  generalize (ulp t.hi.toInt.natAbs : ℝ) = u at *
  generalize (ulp t.lo.toInt.natAbs : ℝ) = v at *
  have hx : H - u / 2 < x := by have := (abs_lt.1 (show |x - H| < u / 2 by linarith)).1; linarith
  have e : x - (H + L) = x - H - L := by ring
  rw [e]
  have h3 : (2 : ℝ) ^ 107 * |x - H - L| ≤ 2 ^ 107 * (v / 2) :=
    mul_le_mul_of_nonneg_left (by linarith) (by positivity)
  have : x ≤ |x| := le_abs_self x
  linarith

/-- the same in ordinary units -/
theorem CorrectlyRoundedDD.rel_err' {c : ℝ} {t : TwoFloat} (h : CorrectlyRoundedDD c t)
    (hchk : 2 ^ 107 * (ulp t.lo.toInt.natAbs : ℤ) + (ulp t.hi.toInt.natAbs : ℤ) ≤ 2 * t.hi.toInt) :
    |c - (t.V : ℝ) / 2 ^ 1074| ≤ |c| / 2 ^ 107 := by
  have h0 := h.rel_err hchk
  have hU : (0 : ℝ) < 2 ^ 1074 := by positivity
  have e1 : c * 2 ^ 1074 - (t.V : ℝ) = (c - (t.V : ℝ) / 2 ^ 1074) * 2 ^ 1074 := by field_simp
  rw [e1, abs_mul, abs_mul, abs_of_pos hU] at h0
  rw [le_div_iff₀ (by positivity)]
  have : 2 ^ 107 * (|c - (t.V : ℝ) / 2 ^ 1074| * 2 ^ 1074) = (|c - (t.V : ℝ) / 2 ^ 1074| * 2 ^ 107) * 2 ^ 1074 := by
    ring
  rw [this] at h0
  exact le_of_mul_le_mul_right h0 hU

/-! ## 3. from enclosures to cells -/

/-- cell membership from two-sided bounds on `x + A` (used with `A = hi` for the low word) -/
theorem inCell_of_bounds {x : ℝ} {A L : ℤ} {u : ℕ} (hp : L.natAbs ≠ 2 ^ Nat.log2 L.natAbs)
    (hu : ulp L.natAbs = u) (h1 : ((2 * (A + L) - u : ℤ) : ℝ) < 2 * x) (h2 : 2 * x < ((2 * (A + L) + u : ℤ) : ℝ)) :
    InCell (x - (A : ℝ)) L := by
  refine ⟨hp, ?_⟩
  rw [hu]
  push_cast at h1 h2
  have : |x - (A : ℝ) - (L : ℝ)| < (u : ℝ) / 2 := by rw [abs_lt]; constructor <;> linarith
  linarith

theorem inCell_of_bounds₀ {x : ℝ} {L : ℤ} {u : ℕ} (hp : L.natAbs ≠ 2 ^ Nat.log2 L.natAbs)
    (hu : ulp L.natAbs = u) (h1 : ((2 * L - u : ℤ) : ℝ) < 2 * x) (h2 : 2 * x < ((2 * L + u : ℤ) : ℝ)) :
    InCell x L := by
  have := inCell_of_bounds (x := x) (A := 0) hp hu (by simpa using h1) (by simpa using h2)
  simpa using this

/-- bracketing `2·√N` between integers by comparing squares -/
theorem two_sqrt_bounds {N : ℕ} {a b : ℤ} (ha : 0 ≤ a) (hb : 0 ≤ b) (h1 : a ^ 2 < 4 * N) (h2 : 4 * (N : ℤ) < b ^ 2) :
    (a : ℝ) < 2 * √(N : ℝ) ∧ 2 * √(N : ℝ) < (b : ℝ) := by
  have e : 2 * √(N : ℝ) = √(4 * (N : ℝ)) := by
    rw [Real.sqrt_mul (by norm_num), show (4 : ℝ) = 2 ^ 2 by norm_num, Real.sqrt_sq (by norm_num)]
  rw [e]
  constructor
  · rw [Real.lt_sqrt (by exact_mod_cast ha)]; exact_mod_cast h1
  · rw [Real.sqrt_lt (by positivity) (by exact_mod_cast hb)]; exact_mod_cast h2

/-- cell membership for a square root: `√N − A` lies in the cell of `L` when `4N` lies strictly between the
squares of the doubled cell end points `2(A+L) ∓ u` -/
theorem inCell_sqrt {N : ℕ} {A L : ℤ} {u : ℕ} (hp : L.natAbs ≠ 2 ^ Nat.log2 L.natAbs)
    (hu : ulp L.natAbs = u) (h0 : 0 ≤ 2 * (A + L) - (u : ℤ))
    (h1 : (2 * (A + L) - (u : ℤ)) ^ 2 < 4 * (N : ℤ)) (h2 : 4 * (N : ℤ) < (2 * (A + L) + (u : ℤ)) ^ 2) :
    InCell (√(N : ℝ) - (A : ℝ)) L := by
  have hb := two_sqrt_bounds h0 (by omega) h1 h2
  exact inCell_of_bounds hp hu hb.1 hb.2

theorem sqrt_two_scaled : √2 * 2 ^ 1074 = √((2 ^ 2149 : ℕ) : ℝ) := by
  rw [show (((2 : ℕ) ^ 2149 : ℕ) : ℝ) = 2 * (2 ^ 1074) ^ 2 by norm_num,
    Real.sqrt_mul (by norm_num), Real.sqrt_sq (by positivity)]

theorem inv_sqrt_two_scaled : 1 / √2 * 2 ^ 1074 = √((2 ^ 2147 : ℕ) : ℝ) := by
  rw [show (((2 : ℕ) ^ 2147 : ℕ) : ℝ) = (2 ^ 1074) ^ 2 / 2 by norm_num,
    Real.sqrt_div (by positivity), Real.sqrt_sq (by positivity)]
  ring

/-- cell membership from a rational enclosure `n₁/d₁ ≤ c ≤ n₂/d₂`: it suffices that the enclosure, scaled by
`2^1074`, lies strictly inside the cell — two inequalities between explicit integers -/
theorem inCell_of_enclosure {c : ℝ} {A L : ℤ} {u : ℕ} {n₁ n₂ : ℤ} {d₁ d₂ : ℕ}
    (hp : L.natAbs ≠ 2 ^ Nat.log2 L.natAbs) (hu : ulp L.natAbs = u)
    (hd₁ : 0 < d₁) (hd₂ : 0 < d₂)
    (h₁ : (n₁ : ℝ) / (d₁ : ℝ) ≤ c) (h₂ : c ≤ (n₂ : ℝ) / (d₂ : ℝ))
    (c₁ : (2 * (A + L) - (u : ℤ)) * (d₁ : ℤ) < 2 * (n₁ * 2 ^ 1074))
    (c₂ : 2 * (n₂ * 2 ^ 1074) < (2 * (A + L) + (u : ℤ)) * (d₂ : ℤ)) :
    InCell (c * 2 ^ 1074 - (A : ℝ)) L := by
  have hd₁' : (0 : ℝ) < (d₁ : ℝ) := by exact_mod_cast hd₁
  have hd₂' : (0 : ℝ) < (d₂ : ℝ) := by exact_mod_cast hd₂
  have c₁' : ((2 * (A + L) - (u : ℤ) : ℤ) : ℝ) * (d₁ : ℝ) < 2 * ((n₁ : ℝ) * 2 ^ 1074) := by exact_mod_cast c₁
  have c₂' : 2 * ((n₂ : ℝ) * 2 ^ 1074) < ((2 * (A + L) + (u : ℤ) : ℤ) : ℝ) * (d₂ : ℝ) := by exact_mod_cast c₂
  rw [div_le_iff₀ hd₁'] at h₁
  rw [le_div_iff₀ hd₂'] at h₂
  apply inCell_of_bounds hp hu
  · generalize ((2 * (A + L) - (u : ℤ) : ℤ) : ℝ) = a at c₁' ⊢
    have h : a * (d₁ : ℝ) < (2 * (c * 2 ^ 1074)) * (d₁ : ℝ) := by nlinarith
    exact lt_of_mul_lt_mul_right h hd₁'.le
  · generalize ((2 * (A + L) + (u : ℤ) : ℤ) : ℝ) = b at c₂' ⊢
    have h : (2 * (c * 2 ^ 1074)) * (d₂ : ℝ) < b * (d₂ : ℝ) := by nlinarith
    exact lt_of_mul_lt_mul_right h hd₂'.le

theorem inCell_of_enclosure₀ {c : ℝ} {L : ℤ} {u : ℕ} {n₁ n₂ : ℤ} {d₁ d₂ : ℕ}
    (hp : L.natAbs ≠ 2 ^ Nat.log2 L.natAbs) (hu : ulp L.natAbs = u)
    (hd₁ : 0 < d₁) (hd₂ : 0 < d₂)
    (h₁ : (n₁ : ℝ) / (d₁ : ℝ) ≤ c) (h₂ : c ≤ (n₂ : ℝ) / (d₂ : ℝ))
    (c₁ : (2 * (0 + L) - (u : ℤ)) * (d₁ : ℤ) < 2 * (n₁ * 2 ^ 1074))
    (c₂ : 2 * (n₂ * 2 ^ 1074) < (2 * (0 + L) + (u : ℤ)) * (d₂ : ℤ)) :
    InCell (c * 2 ^ 1074) L := by
  have := inCell_of_enclosure (A := 0) hp hu hd₁ hd₂ h₁ h₂ c₁ c₂
  simpa using this

/-! ### `e` -/

/-- `expNum (n+1) = Σ_{m ≤ n} n!/m!`, by the recurrence `a₀ = 0`, `aₙ₊₁ = n·aₙ + 1` -/
def expNum : ℕ → ℕ
  | 0 => 0
  | n + 1 => expNum n * n + 1

theorem sum_inv_factorial (n : ℕ) :
    ∑ m ∈ Finset.range (n + 1), (1 : ℝ) ^ m / (m.factorial : ℝ) = (expNum (n + 1) : ℝ) / (n.factorial : ℝ) := by
  induction n with
  | zero => simp [expNum]
  | succ n ih =>
    rw [Finset.sum_range_succ, ih]
    have h1 : ((n + 1).factorial : ℝ) = ((n : ℝ) + 1) * (n.factorial : ℝ) := by
      rw [Nat.factorial_succ]; push_cast; ring
    have h2 : (expNum (n + 1 + 1) : ℝ) = (expNum (n + 1) : ℝ) * ((n : ℝ) + 1) + 1 := by
      rw [show expNum (n + 1 + 1) = expNum (n + 1) * (n + 1) + 1 from rfl]; push_cast; ring
    have hf : (0 : ℝ) < (n.factorial : ℝ) := by exact_mod_cast n.factorial_pos
    rw [h1, h2, one_pow]
    field_simp

/-- `e` to about 159 bits: the Taylor sum of 41 terms, with the remainder bound `Real.exp_bound` -/
theorem exp_one_enclosure :
    ((expNum 41 * 1681 - 42 : ℤ) : ℝ) / ((Nat.factorial 40 * 1681 : ℕ) : ℝ) ≤ Real.exp 1 ∧
    Real.exp 1 ≤ ((expNum 41 * 1681 + 42 : ℤ) : ℝ) / ((Nat.factorial 40 * 1681 : ℕ) : ℝ) := by
  have hb := Real.exp_bound (x := 1) (by norm_num) (n := 41) (by norm_num)
  rw [sum_inv_factorial 40, abs_one, one_pow, one_mul] at hb
  have h41 : ((Nat.factorial 41 : ℕ) : ℝ) = 41 * (Nat.factorial 40 : ℝ) := by
    rw [Nat.factorial_succ]; push_cast; ring
  have hf : (0 : ℝ) < (Nat.factorial 40 : ℝ) := by exact_mod_cast (Nat.factorial_pos 40)
  rw [h41] at hb
  have hs : ((Nat.succ 41 : ℕ) : ℝ) = 42 := by norm_num
  rw [hs] at hb
  obtain ⟨h1, h2⟩ := abs_le.1 hb
  push_cast
  generalize (Nat.factorial 40 : ℝ) = F at *
  generalize (expNum 41 : ℝ) = E at *
  have e1 : (E * 1681 - 42) / (F * 1681) = E / F - 42 / (41 * F * 41) := by field_simp; ring
  have e2 : (E * 1681 + 42) / (F * 1681) = E / F + 42 / (41 * F * 41) := by field_simp; ring
  rw [e1, e2]
  constructor <;> linarith

/-! ### logarithms: `log (k/(k−1)) = Σ_{i ≥ 0} k^-(i+1)/(i+1)` -/

/-- numerator of the partial sum `Σ_{i<n} k^-(i+1)/(i+1) = logNum k n / (n!·k^n)` -/
def logNum (k : ℕ) : ℕ → ℕ
  | 0 => 0
  | n + 1 => logNum k n * (k * (n + 1)) + n.factorial

theorem sum_log_series (k : ℕ) (hk : 0 < k) (n : ℕ) :
    ∑ i ∈ Finset.range n, ((k : ℝ)⁻¹) ^ (i + 1) / ((i : ℝ) + 1)
      = (logNum k n : ℝ) / ((n.factorial : ℝ) * (k : ℝ) ^ n) := by
  have hk' : (0 : ℝ) < (k : ℝ) := by exact_mod_cast hk
  induction n with
  | zero => simp [logNum]
  | succ n ih =>
    rw [Finset.sum_range_succ, ih]
    have h1 : ((n + 1).factorial : ℝ) = ((n : ℝ) + 1) * (n.factorial : ℝ) := by
      rw [Nat.factorial_succ]; push_cast; ring
    have h2 : (logNum k (n + 1) : ℝ) = (logNum k n : ℝ) * ((k : ℝ) * ((n : ℝ) + 1)) + (n.factorial : ℝ) := by
      rw [show logNum k (n + 1) = logNum k n * (k * (n + 1)) + n.factorial from rfl]; push_cast; ring
    have hf : (0 : ℝ) < (n.factorial : ℝ) := by exact_mod_cast n.factorial_pos
    have hn : (0 : ℝ) < (n : ℝ) + 1 := by positivity
    rw [h1, h2, inv_pow, pow_succ]
    field_simp

/-- enclosure of `log ((j+1)/j)` by the `n`-term partial sum of the series in `1/(j+1)`, with Mathlib's
remainder bound `Real.abs_log_sub_add_sum_range_le`: error at most `1/((j+1)^n·j)` -/
theorem log_enclosure (j n : ℕ) (hj : 0 < j) :
    ((logNum (j + 1) n * j - n.factorial : ℤ) : ℝ) / ((n.factorial * (j + 1) ^ n * j : ℕ) : ℝ)
        ≤ Real.log (((j + 1 : ℕ) : ℝ) / (j : ℝ)) ∧
      Real.log (((j + 1 : ℕ) : ℝ) / (j : ℝ))
        ≤ ((logNum (j + 1) n * j + n.factorial : ℤ) : ℝ) / ((n.factorial * (j + 1) ^ n * j : ℕ) : ℝ) := by
  have hj' : (0 : ℝ) < (j : ℝ) := by exact_mod_cast hj
  have hk' : (0 : ℝ) < ((j + 1 : ℕ) : ℝ) := by positivity
  have hx : |(((j + 1 : ℕ) : ℝ))⁻¹| < 1 := by
    rw [abs_of_pos (inv_pos.2 hk')]
    apply inv_lt_one_of_one_lt₀
    push_cast; linarith
  have hb := Real.abs_log_sub_add_sum_range_le hx n
  rw [sum_log_series (j + 1) (by omega) n, abs_of_pos (inv_pos.2 hk')] at hb
  have e1 : (1 : ℝ) - (((j + 1 : ℕ) : ℝ))⁻¹ = ((((j + 1 : ℕ) : ℝ)) / (j : ℝ))⁻¹ := by
    push_cast; field_simp; ring
  rw [e1, Real.log_inv] at hb
  have e2 : ((((j + 1 : ℕ) : ℝ)) / (j : ℝ))⁻¹ = (j : ℝ) / ((j + 1 : ℕ) : ℝ) := inv_div _ _
  have e3 : ((((j + 1 : ℕ) : ℝ))⁻¹) ^ (n + 1) / ((j : ℝ) / ((j + 1 : ℕ) : ℝ))
      = 1 / (((j + 1 : ℕ) : ℝ) ^ n * (j : ℝ)) := by
    rw [inv_pow, pow_succ]; field_simp
  rw [e2, e3] at hb
  obtain ⟨h1, h2⟩ := abs_le.1 hb
  have hf : (0 : ℝ) < (n.factorial : ℝ) := by exact_mod_cast n.factorial_pos
  have hK : (0 : ℝ) < ((j + 1 : ℕ) : ℝ) ^ n := by positivity
  push_cast at h1 h2 ⊢
  generalize Real.log (((j : ℝ) + 1) / (j : ℝ)) = lg at *
  generalize (n.factorial : ℝ) = F at *
  generalize ((j : ℝ) + 1) ^ n = K at *
  generalize (logNum (j + 1) n : ℝ) = N at *
  generalize (j : ℝ) = J at *
  have e4 : (N * J - F) / (F * K * J) = N / (F * K) - 1 / (K * J) := by field_simp
  have e5 : (N * J + F) / (F * K * J) = N / (F * K) + 1 / (K * J) := by field_simp
  rw [e4, e5]
  constructor <;> linarith

/-- `log_enclosure` with the base `k = j + 1` as a separate variable (so that literals stay literals) -/
theorem log_enclosure' (k j n : ℕ) (hj : 0 < j) (hk : k = j + 1) :
    ((logNum k n * j - n.factorial : ℤ) : ℝ) / ((n.factorial * k ^ n * j : ℕ) : ℝ)
        ≤ Real.log ((k : ℝ) / (j : ℝ)) ∧
      Real.log ((k : ℝ) / (j : ℝ))
        ≤ ((logNum k n * j + n.factorial : ℤ) : ℝ) / ((n.factorial * k ^ n * j : ℕ) : ℝ) := by
  subst hk; exact log_enclosure j n hj

/-! ### rational enclosures and their arithmetic -/

/-- `Encl c a b`: the rational interval `[a, b]` contains the real number `c` -/
def Encl (c : ℝ) (a b : ℚ) : Prop := (a : ℝ) ≤ c ∧ c ≤ (b : ℝ)

theorem Encl.of_int_div {c : ℝ} {n₁ n₂ : ℤ} {d₁ d₂ : ℕ}
    (h : (n₁ : ℝ) / (d₁ : ℝ) ≤ c ∧ c ≤ (n₂ : ℝ) / (d₂ : ℝ)) :
    Encl c ((n₁ : ℚ) / (d₁ : ℚ)) ((n₂ : ℚ) / (d₂ : ℚ)) := by
  unfold Encl; push_cast; exact h

theorem Encl.add {x y : ℝ} {a b a' b' : ℚ} (hx : Encl x a b) (hy : Encl y a' b') :
    Encl (x + y) (a + a') (b + b') := by
  unfold Encl at *; push_cast; constructor <;> linarith [hx.1, hx.2, hy.1, hy.2]

theorem Encl.smul {x : ℝ} {a b : ℚ} (k : ℚ) (hk : 0 ≤ k) (hx : Encl x a b) :
    Encl ((k : ℝ) * x) (k * a) (k * b) := by
  have hk' : (0 : ℝ) ≤ (k : ℝ) := by exact_mod_cast hk
  unfold Encl at *; push_cast
  exact ⟨mul_le_mul_of_nonneg_left hx.1 hk', mul_le_mul_of_nonneg_left hx.2 hk'⟩

theorem Encl.pos {x : ℝ} {a b : ℚ} (hx : Encl x a b) (ha : 0 < a) : 0 < x :=
  lt_of_lt_of_le (by exact_mod_cast ha) hx.1

theorem Encl.inv {x : ℝ} {a b : ℚ} (hx : Encl x a b) (ha : 0 < a) : Encl x⁻¹ b⁻¹ a⁻¹ := by
  have ha' : (0 : ℝ) < (a : ℝ) := by exact_mod_cast ha
  have hx0 := hx.pos ha
  unfold Encl at *; push_cast
  exact ⟨inv_anti₀ hx0 hx.2, inv_anti₀ ha' hx.1⟩

theorem Encl.mul {x y : ℝ} {a b a' b' : ℚ} (hx : Encl x a b) (hy : Encl y a' b') (ha : 0 ≤ a)
    (ha' : 0 ≤ a') : Encl (x * y) (a * a') (b * b') := by
  have h1 : (0 : ℝ) ≤ (a : ℝ) := by exact_mod_cast ha
  have h2 : (0 : ℝ) ≤ (a' : ℝ) := by exact_mod_cast ha'
  unfold Encl at *; push_cast
  exact ⟨mul_le_mul hx.1 hy.1 h2 (le_trans h1 hx.1),
    mul_le_mul hx.2 hy.2 (le_trans h2 hy.1) (le_trans (le_trans h1 hx.1) hx.2)⟩

theorem Encl.div {x y : ℝ} {a b a' b' : ℚ} (hx : Encl x a b) (hy : Encl y a' b') (ha : 0 ≤ a)
    (ha' : 0 < a') : Encl (x / y) (a / b') (b / a') := by
  have hb' : 0 < b' := by
    have : (a' : ℝ) ≤ (b' : ℝ) := le_trans hy.1 hy.2
    exact lt_of_lt_of_le ha' (by exact_mod_cast this)
  have := hx.mul (hy.inv ha') ha (le_of_lt (inv_pos.2 hb'))
  rwa [← div_eq_mul_inv, ← div_eq_mul_inv, ← div_eq_mul_inv] at this

theorem Encl.congr {x y : ℝ} {a b : ℚ} (hx : Encl x a b) (h : x = y) : Encl y a b := h ▸ hx

/-- cell membership from a rational enclosure: it suffices that the enclosure, scaled by `2^1074`, lies
strictly inside the cell — two inequalities between explicit rationals -/
theorem inCell_of_encl {c : ℝ} {A L : ℤ} {u : ℕ} {a b : ℚ} (hc : Encl c a b)
    (hp : L.natAbs ≠ 2 ^ Nat.log2 L.natAbs) (hu : ulp L.natAbs = u)
    (c₁ : ((2 * (A + L) - (u : ℤ) : ℤ) : ℚ) < 2 * (a * 2 ^ 1074))
    (c₂ : 2 * (b * 2 ^ 1074) < ((2 * (A + L) + (u : ℤ) : ℤ) : ℚ)) :
    InCell (c * 2 ^ 1074 - (A : ℝ)) L := by
  have c₁' := (Rat.cast_lt (K := ℝ)).2 c₁
  have c₂' := (Rat.cast_lt (K := ℝ)).2 c₂
  simp only [Rat.cast_intCast, Rat.cast_mul, Rat.cast_pow, Rat.cast_ofNat] at c₁' c₂'
  have hU : (0 : ℝ) < 2 ^ 1074 := by positivity
  apply inCell_of_bounds hp hu
  · refine lt_of_lt_of_le c₁' ?_
    have := mul_le_mul_of_nonneg_right hc.1 hU.le
    linarith
  · refine lt_of_le_of_lt ?_ c₂'
    have := mul_le_mul_of_nonneg_right hc.2 hU.le
    linarith

theorem inCell_of_encl₀ {c : ℝ} {L : ℤ} {u : ℕ} {a b : ℚ} (hc : Encl c a b)
    (hp : L.natAbs ≠ 2 ^ Nat.log2 L.natAbs) (hu : ulp L.natAbs = u)
    (c₁ : ((2 * (0 + L) - (u : ℤ) : ℤ) : ℚ) < 2 * (a * 2 ^ 1074))
    (c₂ : 2 * (b * 2 ^ 1074) < ((2 * (0 + L) + (u : ℤ) : ℤ) : ℚ)) :
    InCell (c * 2 ^ 1074) L := by
  have := inCell_of_encl (A := 0) hc hp hu c₁ c₂
  simpa using this

/-- both cells at once -/
theorem correctlyRounded_of_encl {c : ℝ} {t : TwoFloat} {u v : ℕ} {a b : ℚ} (hc : Encl c a b)
    (hp : t.hi.toInt.natAbs ≠ 2 ^ Nat.log2 t.hi.toInt.natAbs) (hu : ulp t.hi.toInt.natAbs = u)
    (hq : t.lo.toInt.natAbs ≠ 2 ^ Nat.log2 t.lo.toInt.natAbs) (hv : ulp t.lo.toInt.natAbs = v)
    (c₁ : ((2 * (0 + t.hi.toInt) - (u : ℤ) : ℤ) : ℚ) < 2 * (a * 2 ^ 1074))
    (c₂ : 2 * (b * 2 ^ 1074) < ((2 * (0 + t.hi.toInt) + (u : ℤ) : ℤ) : ℚ))
    (c₃ : ((2 * (t.hi.toInt + t.lo.toInt) - (v : ℤ) : ℤ) : ℚ) < 2 * (a * 2 ^ 1074))
    (c₄ : 2 * (b * 2 ^ 1074) < ((2 * (t.hi.toInt + t.lo.toInt) + (v : ℤ) : ℤ) : ℚ)) :
    CorrectlyRoundedDD c t :=
  ⟨inCell_of_encl₀ hc hp hu c₁ c₂, inCell_of_encl hc hq hv c₃ c₄⟩

/-- `log 2` to 200 bits -/
def ln2Lo : ℚ := ((logNum 2 200 * 1 - Nat.factorial 200 : ℤ) : ℚ) / ((Nat.factorial 200 * 2 ^ 200 * 1 : ℕ) : ℚ)
def ln2Hi : ℚ := ((logNum 2 200 * 1 + Nat.factorial 200 : ℤ) : ℚ) / ((Nat.factorial 200 * 2 ^ 200 * 1 : ℕ) : ℚ)

theorem log_two_encl : Encl (Real.log 2) ln2Lo ln2Hi := by
  have h := log_enclosure' 2 1 200 Nat.one_pos rfl
  rw [show (((2 : ℕ) : ℝ) / ((1 : ℕ) : ℝ)) = 2 by norm_num] at h
  exact Encl.of_int_div h

/-- `log (5/4)` to 208 bits -/
def ln54Lo : ℚ := ((logNum 5 90 * 4 - Nat.factorial 90 : ℤ) : ℚ) / ((Nat.factorial 90 * 5 ^ 90 * 4 : ℕ) : ℚ)
def ln54Hi : ℚ := ((logNum 5 90 * 4 + Nat.factorial 90 : ℤ) : ℚ) / ((Nat.factorial 90 * 5 ^ 90 * 4 : ℕ) : ℚ)

theorem log_five_quarters_encl : Encl (Real.log (5 / 4)) ln54Lo ln54Hi := by
  have h := log_enclosure' 5 4 90 (by norm_num) rfl
  rw [show (((5 : ℕ) : ℝ) / ((4 : ℕ) : ℝ)) = 5 / 4 by norm_num] at h
  exact Encl.of_int_div h

theorem log_ten_eq : Real.log 10 = ((3 : ℚ) : ℝ) * Real.log 2 + Real.log (5 / 4) := by
  have : (10 : ℝ) = 2 ^ 3 * (5 / 4) := by norm_num
  rw [this, Real.log_mul (by norm_num) (by norm_num), Real.log_pow]
  push_cast; ring

def ln10Lo : ℚ := 3 * ln2Lo + ln54Lo
def ln10Hi : ℚ := 3 * ln2Hi + ln54Hi

/-- `log 10 = 3·log 2 + log (5/4)` -/
theorem log_ten_encl : Encl (Real.log 10) ln10Lo ln10Hi :=
  ((log_two_encl.smul 3 (by norm_num)).add log_five_quarters_encl).congr log_ten_eq.symm

theorem ln2Lo_pos : 0 < ln2Lo := by decide +kernel
theorem ln10Lo_pos : 0 < ln10Lo := by decide +kernel

/-- `log₂ e = 1 / log 2` -/
theorem log2_e_encl : Encl (Real.logb 2 (Real.exp 1)) ln2Hi⁻¹ ln2Lo⁻¹ :=
  (log_two_encl.inv ln2Lo_pos).congr (by simp [Real.logb])

/-- `log₁₀ e = 1 / log 10` -/
theorem log10_e_encl : Encl (Real.logb 10 (Real.exp 1)) ln10Hi⁻¹ ln10Lo⁻¹ :=
  (log_ten_encl.inv ln10Lo_pos).congr (by simp [Real.logb])

/-- `log₁₀ 2 = log 2 / log 10` -/
theorem log10_2_encl : Encl (Real.logb 10 2) (ln2Lo / ln10Hi) (ln2Hi / ln10Lo) :=
  log_two_encl.div log_ten_encl ln2Lo_pos.le ln10Lo_pos

/-- `log₂ 10 = log 10 / log 2` -/
theorem log2_10_encl : Encl (Real.logb 2 10) (ln10Lo / ln2Hi) (ln10Hi / ln2Lo) :=
  log_ten_encl.div log_two_encl ln10Lo_pos.le ln2Lo_pos

/-! ### `π`: Mathlib's `sqrtTwoAddSeries` bounds (`Real.pi_gt_sqrtTwoAddSeries`, `Real.pi_lt_sqrtTwoAddSeries`:
Archimedes' polygons, `π ≈ 2^(n+1)·√(2 − 2cos(π/2^(n+1)))`) with 75 doublings and machine-generated rational
witnesses for the nested square roots, checked by `norm_num` — the method of `Real.pi_gt_d20`, pushed to 136 bits -/

theorem pi_gt_136 : (273671317520631487452078175529438920524963 : ℝ) / 2 ^ 136 < Real.pi := by
  pi_lower_bound [
    1058240223715249875626367471623070219522150574575935/748288838313422294120286634350736906063837462003712,
    5530629936995347449587304106829482088507891327714123/2993155353253689176481146537402947624255349848014848,
    23485141699450798619079619636139456675711549851465661/11972621413014756705924586149611790497021399392059392,
    190639519495372517125744021139692456352320330878414335/95780971304118053647396689196894323976171195136475136,
    1530649582871537874073517095695246051796917832324122971/766247770432944429179173513575154591809369561091801088,
    6128135927443318604318534250459572153983892605810576215/3064991081731777716716694054300618367237478244367204352,
    24518082348322279438361250363662432756257151042675193421/12259964326927110866866776217202473468949912977468817408,
    98077868292506691133825997292494505590719623420336280185/49039857307708443467467104868809893875799651909875269632,
    392317012134412768115779922509621497286269493466967099899/196159429230833773869868419475239575503198607639501078528,
    49039799609947789503167936251705070614544012090013226111/24519928653854221733733552434404946937899825954937634816,
    6277099889058068300089942835818948477163147004935705252335/3138550867693340381917894711603833208051177722232017256448,
    1569275318451127669210640686857329922369586854867828443625/784637716923335095479473677900958302012794430558004314112,
    100433625919858194902342647050651808208991073122275330970261/50216813883093446110686315385661331328818843555712276103168,
    401734509218418867323696250610941083890158114603538578771075/200867255532373784442745261542645325315275374222849104412672,
    803469021206330786459738373229843885235200389607940806544099/401734511064747568885490523085290650630550748445698208825344,
    1606938043797408099820047563763806290614381226656170612683435/803469022129495137770981046170581301261101496891396417650688,
    12855504353148757852858721085518714110062546702027769096052171/6427752177035961102167848369364650410088811975131171341205504,
    51422017415364524465857524652692499281248554233352929715691349/25711008708143844408671393477458601640355247900524685364822016,
    411376139328455181835767627710381141006115150189110829915962085/205688069665150755269371147819668813122841983204197482918576128,
    1645504557319359713451993478797267249270757597332628682954006335/822752278660603021077484591278675252491367932816789931674304512,
    822752278660372229989612595938942133941027789692154659424659169/411376139330301510538742295639337626245683966408394965837152256,
    26328072917137450345776530893460297708143826953861430030039573987/13164036458569648337239753460458804039861886925068638906788872192,
    105312291668555340369215051640028260591520558314447026254685655613/52656145834278593348959013841835216159447547700274555627155488768,
    210624583337113450231484567343496671104628589617068695800001519505/105312291668557186697918027683670432318895095400549111254310977536,
    52656145834278535651187045840313343006289411144119725280554016855/26328072917139296674479506920917608079723773850137277813577744384,
    3369993333393829051169025397852977419524770721955844638771526857223/1684996666696914987166688442938726917102321526408785780068975640576,
    13479973333575318974169156055485307311081364343915582054223208601105/6739986666787659948666753771754907668409286105635143120275902562304,
    53919893334301278666169678686014745418772747093603061156137645207453/26959946667150639794667015087019630673637144422540572481103610249216,
    431359146674410234868343538416265054969809060315631285362710569553937/215679573337205118357336120696157045389097155380324579848828881993728,
    215679573337205118126545032824150915789568306357757917089740406674897/107839786668602559178668060348078522694548577690162289924414440996864,
    3450873173395281892794213579650488207703958397277987198044655053448613/1725436586697640946858688965569256363112777243042596638790631055949824,
    27606985387162255147892694746132052772699503364708664347322627064562125/13803492693581127574869511724554050904902217944340773110325048447598592,
    110427941548649020597109765093456358202097375944163685580709095750773859/55213970774324510299478046898216203619608871777363092441300193790394368,
    55213970774324510299247255810344197489968343479586854483921160857982619/27606985387162255149739023449108101809804435888681546220650096895197184,
    1766847064778384329581451172039942466790358705800497203373288693917916371/883423532389192164791648750371459257913741948437809479060803100646309888,
    441711766194596082395708979641793625892050634703382882185361624172119859/220855883097298041197912187592864814478435487109452369765200775161577472,
    28269553036454149273330913683183720204202616857468246621731980074500952717/14134776518227074636666380005943348126619871175004951664972849610340958208,
    113078212145816597093329193718843808963921843892424629863895807654605355265/56539106072908298546665520023773392506479484700019806659891398441363832832,
    56539106072908298546665289232685520500349844011096892267040735097787875025/28269553036454149273332760011886696253239742350009903329945699220681916416,
    1809251394333065553493294794432045584158306384888308415051989863994913649193/904625697166532776746648320380374280103671755200316906558262375061821325312,
    7237005577332262213973184716714291264780336916089974333671131719520811266261/3618502788666131106986593281521497120414687020801267626233049500247285301248,
    28948022309329048855892744405843273987268459040897521210886820622293265490045/14474011154664524427946373126085988481658748083205070504932198000989141204992,
    115792089237316195423570983162359204877220947540127929520434356603550298324071/57896044618658097711785492504343953926634992332820282019728792003956564819968,
    231584178474632390847141969094211464218515450768524808979397847810560116822449/115792089237316195423570985008687907853269984665640564039457584007913129639936,
    1852673427797059126777135758292677822676270717524736385512283850464535425924385/926336713898529563388567880069503262826159877325124512315660672063305037119488,
    7410693711188236507108543038709697399633229981475483459176247169531480057791377/3705346855594118253554271520278013051304639509300498049262642688253220148477952,
    29642774844752946028434172160377775707461067037278471754694603120722579550946605/14821387422376473014217086081112052205218558037201992197050570753012880593911808,
    29642774844752946028434172161762522234693103815122606234245913148554451941247333/14821387422376473014217086081112052205218558037201992197050570753012880593911808,
    237142198758023568227473377296869670932008904076669118833096878452690714090757847/118571099379011784113736688648896417641748464297615937576404566024103044751294464,
    1897137590064188545819787018380496353564999379724729488583047650754331586737710005/948568795032094272909893509191171341133987714380927500611236528192824358010355712,
    7588550360256754183279148073527524400368925666010294492250466595301206140185009463/3794275180128377091639574036764685364535950857523710002444946112771297432041422848,
    3794275180128377091639574036764454573448078851394069313365017901972059104222479731/1897137590064188545819787018382342682267975428761855001222473056385648716020711424,
    121416805764108066932466369176468085336447451391721594565598849908249481728110559025/60708402882054033466233184588234965832575213720379360039119137804340758912662765568,
    60708402882054033466233184588234735041487341714249719350039209591348062854427661955/30354201441027016733116592294117482916287606860189680019559568902170379456331382784,
    971334446112864535459730953411758530156851931501551197869586492017042666823580602537/485667223056432267729865476705879726660601709763034880312953102434726071301302124544,
    7770675568902916283677847627294073780240924380159520959494610213250578843489745083553/3885337784451458141838923813647037813284813678104279042503624819477808570410416996352,
    31082702275611665134711390509176300659949806448785195214516359130117375429508986657653/15541351137805832567355695254588151253139254712417116170014499277911234281641667985408,
    62165404551223330269422781018352604089392667361643946117301677398792383705124089734549/31082702275611665134711390509176302506278509424834232340028998555822468563283335970816,
    62165404551223330269422781018352604781765930977662335039368917183431798342796313417955/31082702275611665134711390509176302506278509424834232340028998555822468563283335970816,
    497323236409786642155382248146820839638873975053335458159085817036733219230787801999749/248661618204893321077691124073410420050228075398673858720231988446579748506266687766528,
    7957171782556586274486115970349133439760969709781514441921910990864846840859346857909715/3978585891278293137243057985174566720803649206378781739523711815145275976100267004264448,
    31828687130226345097944463881396533764582864948054204879064181881736502697407397669374915/15914343565113172548972231940698266883214596825515126958094847260581103904401068017057792,
    127314748520905380391777855525586135063870445901144966627633265445223126123800417968191295/63657374260452690195888927762793067532858387302060507832379389042324415617604272068231168,
    254629497041810760783555711051172270130510384856754006810954799849584809914711351713347855/127314748520905380391777855525586135065716774604121015664758778084648831235208544136462336,
    1018517988167243043134222844204689080524811032481480100799507468357477797325962198163261547/509258994083621521567111422102344540262867098416484062659035112338595324940834176545849344,
    2037035976334486086268445688409378161051006811490192238376859071194524873485483576423071265/1018517988167243043134222844204689080525734196832968125318070224677190649881668353091698688,
    2037035976334486086268445688409378161051352998122000247571320104814417193193873420474809127/1018517988167243043134222844204689080525734196832968125318070224677190649881668353091698688,
    130370302485407109521180524058200202307292130865916943991675863246040977479742136611325993195/65185151242703554760590262029100101153646988597309960020356494379340201592426774597868716032,
    260740604970814219042361048116400404614587031224888352056907414761041093517151392097634891333/130370302485407109521180524058200202307293977194619920040712988758680403184853549195737432064,
    1042962419883256876169444192465601618458350894392607872301185347313123512626272687271650920377/521481209941628438084722096232800809229175908778479680162851955034721612739414196782949728256,
    2085924839766513752338888384931203236916703173531742976639148538760726594531378933984623574539/1042962419883256876169444192465601618458351817556959360325703910069443225478828393565899456512,
    33374797436264220037422214158899251790667256315493996554373487996709543789617397181520030184027/16687398718132110018711107079449625895333629080911349765211262561111091607661254297054391304192,
    133499189745056880149688856635597007162669030800962095145641063363376093435584922963846365241575/66749594872528440074844428317798503581334516323645399060845050244444366430645017188217565216768,
    266998379490113760299377713271194014325338064371417244755355682415021146009727513046575876675141/133499189745056880149688856635597007162669032647290798121690100488888732861290034376435130433536,
    2135987035920910082395021706169552114602704520510324066970992570696707086354935438610373317754739/1067993517960455041197510853084776057301352261178326384973520803911109862890320275011481043468288]

theorem pi_lt_136 : Real.pi < (273671317520631487452078175529438920524966 : ℝ) / 2 ^ 136 := by
  pi_upper_bound [

    2116480447430499751252734943246140439044282927519631/1496577676626844588240573268701473812127674924007424,
    22122519747981389798349216427317928354031525864951267/11972621413014756705924586149611790497021399392059392,
    5871285424862699654769904909034864168927884949197903/2993155353253689176481146537402947624255349848014848,
    381279038990745034251488042279384912704640621343531401/191561942608236107294793378393788647952342390272950272,
    1530649582871537874073517095695246051796917791862087407/766247770432944429179173513575154591809369561091801088,
    3064067963721659302159267125229786076991946282668175285/1532495540865888858358347027150309183618739122183602176,
    24518082348322279438361250363662432756257151002197919911/12259964326927110866866776217202473468949912977468817408,
    49038934146253345566912998646247252795359811689929122343/24519928653854221733733552434404946937899825954937634816,
    392317012134412768115779922509621497286269493426488873901/196159429230833773869868419475239575503198607639501078528,
    196159198439791158012671745006820282458176048354993120241/98079714615416886934934209737619787751599303819750539264,
    1569274972264517075022485708954737119290786751223806741701/784637716923335095479473677900958302012794430558004314112,
    25108405095218042707370250989717278757913389677844776809491/12554203470773361527671578846415332832204710888928069025792,
    100433625919858194902342647050651808208991073122234852681007/50216813883093446110686315385661331328818843555712276103168,
    200867254609209433661848125305470541945079057301749050240817/100433627766186892221372630771322662657637687111424552206336,
    1606938042412661572919476746459687770470400779215841134798709/803469022129495137770981046170581301261101496891396417650688,
    6427752175189632399280190255055225162457524906624641972444239/3213876088517980551083924184682325205044405987565585670602752,
    25711008706297515705717442171037428220125093404055497713814837/12855504354071922204335696738729300820177623950262342682411008,
    12855504353841131116464381163173124820312138558338227369136649/6427752177035961102167848369364650410088811975131171341205504,
    205688069664227590917883813855190570503057575094555394718836289/102844034832575377634685573909834406561420991602098741459288064,
    1645504557319359713451993478797267249270757597332628642475716827/822752278660603021077484591278675252491367932816789931674304512,
    6582018229282977839916900767511537071528222317537237234918983843/3291009114642412084309938365114701009965471731267159726697218048,
    26328072917137450345776530893460297708143826953861429989561284477/13164036458569648337239753460458804039861886925068638906788872192,
    52656145834277670184607525820014130295760279157223513107103683051/26328072917139296674479506920917608079723773850137277813577744384,
    210624583337113450231484567343496671104628589617068695779762374749/105312291668557186697918027683670432318895095400549111254310977536,
    1684996666696913140837985466890026976201261156611831208937250249847/842498333348457493583344221469363458551160763204392890034487820288,
    1684996666696914525584512698926488709762385360977922319375643856233/842498333348457493583344221469363458551160763204392890034487820288,
    26959946667150637948338312110970614622162728687831164108405938912695/13479973333575319897333507543509815336818572211270286240551805124608,
    53919893334301278666169678686014745418772747093603061156117406062695/26959946667150639794667015087019630673637144422540572481103610249216,
    107839786668602558717085884604066263742452265078907821340667522816105/53919893334301279589334030174039261347274288845081144962207220498432,
    862718293348820472506180131296603663158273225431031668358941387554829/431359146674410236714672241392314090778194310760649159697657763987456,
    6901746346790563785588427159300976415407916794555974396089269628607707/3450873173395281893717377931138512726225554486085193277581262111899648,
    27606985387162255147892694746132052772699503364708664347322586586272605/13803492693581127574869511724554050904902217944340773110325048447598592,
    55213970774324510298554882546728179101048687972081842790354527636242169/27606985387162255149739023449108101809804435888681546220650096895197184,
    220855883097298041196989023241376789959873373918347417935684623192785715/110427941548649020598956093796432407239217743554726184882600387580788736,
    55213970774324510299420349126248202087198709556265537605415270419988339/27606985387162255149739023449108101809804435888681546220650096895197184,
    1766847064778384329582835918567174503568202538813531528741446486568907055/883423532389192164791648750371459257913741948437809479060803100646309888,
    3533694129556768659166364210397965025525327107183530827716497504252832899/1766847064778384329583297500742918515827483896875618958121606201292619776,
    113078212145816597093329193718843808963921843892424629863895807614127065739/56539106072908298546665520023773392506479484700019806659891398441363832832,
    452312848583266388373322313861484164002798752088775138136325880741824710673/226156424291633194186662080095093570025917938800079226639565593765455331328,
    1809251394333065553493294794432045584158306384888308415051989863954435359665/904625697166532776746648320380374280103671755200316906558262375061821325312,
    1809251394333065553493296179178572816195084229022493583417782929870083244183/904625697166532776746648320380374280103671755200316906558262375061821325312,
    28948022309329048855892744405843273987268459040897521210886820622252787200515/14474011154664524427946373126085988481658748083205070504932198000989141204992,
    28948022309329048855892745790589801219305236885031982380108589150877455008635/14474011154664524427946373126085988481658748083205070504932198000989141204992,
    231584178474632390847141969094211464218515450768524808979397847810539877677683/115792089237316195423570985008687907853269984665640564039457584007913129639936,
    463168356949264781694283939573169455669067679381184096378070962616123736908713/231584178474632390847141970017375815706539969331281128078915168015826259279872,
    7410693711188236507108543038709697399633229981475483459176247169531439579501843/3705346855594118253554271520278013051304639509300498049262642688253220148477952,
    14821387422376473014217086080188887853730533518639235877347301560361269536328535/7410693711188236507108543040556026102609279018600996098525285376506440296955904,
    29642774844752946028434172161762522234693103815122606234245913148554441821674949/14821387422376473014217086081112052205218558037201992197050570753012880593911808,
    474284397516047136454946754593739341864017808153338237666193756905381387703226157/237142198758023568227473377297792835283496928595231875152809132048206089502588928,
    1897137590064188545819787018380496353564999379724729488583047650754331546259420467/948568795032094272909893509191171341133987714380927500611236528192824358010355712,
    1897137590064188545819787018381881100092231416502573623062616648825301524926679981/948568795032094272909893509191171341133987714380927500611236528192824358010355712,
    7588550360256754183279148073528909146896157702788138626730035803944118198325387077/3794275180128377091639574036764685364535950857523710002444946112771297432041422848,
    30354201441027016733116592294117021334111862847930398641399712477062370421908067371/15177100720513508366558296147058741458143803430094840009779784451085189728165691392,
    242833611528216133864932738352938940165949366856998877400156838365392251397471503049/121416805764108066932466369176469931665150427440758720078238275608681517825325531136,
    1942668892225729070919461906823517060313703863003102395739172984034085333606682915531/971334446112864535459730953411759453321203419526069760625906204869452142602604249088,
    7770675568902916283677847627294073780240924380159520959494610213250578843449266794009/3885337784451458141838923813647037813284813678104279042503624819477808570410416996352,
    7770675568902916283677847627294075164987451612196298803629089782529343857367127092027/3885337784451458141838923813647037813284813678104279042503624819477808570410416996352,
    3885337784451458141838923813647037755587041710102746632331354837424523981568990661861/1942668892225729070919461906823518906642406839052139521251812409738904285205208498176,
    497323236409786642155382248146820838254127447821298680314951337467454386742330029054093/248661618204893321077691124073410420050228075398673858720231988446579748506266687766528,
    248661618204893321077691124073410419819436987526667729079542908518366609615388841213681/124330809102446660538845562036705210025114037699336929360115994223289874253133343883264,
    3978585891278293137243057985174566719880484854890757220960955495432423420429653189810083/1989292945639146568621528992587283360401824603189390869761855907572637988050133502132224,
    31828687130226345097944463881396533764582864948054204879064181881736502697407357191085365/15914343565113172548972231940698266883214596825515126958094847260581103904401068017057792,
    7957171782556586274486115970349133441491902868821560414227079090326445382737523593118859/3978585891278293137243057985174566720803649206378781739523711815145275976100267004264448,
    254629497041810760783555711051172270130510384856754006810954799849584809914711331474203079/127314748520905380391777855525586135065716774604121015664758778084648831235208544136462336,
    2037035976334486086268445688409378161049622064962960201599014936714955594651924355848233541/1018517988167243043134222844204689080525734196832968125318070224677190649881668353091698688,
    4074071952668972172536891376818756322102013622980384476753718142389049746970967132606997753/2037035976334486086268445688409378161051468393665936250636140449354381299763336706183397376,
    32592575621351777380295131014550050576821647969952003961141121677030675091101974687118656477/16296287810675888690147565507275025288411747149327490005089123594835050398106693649467179008,
    130370302485407109521180524058200202307292130865916943991675863246040977479742136570847703639/65185151242703554760590262029100101153646988597309960020356494379340201592426774597868716032,
    521481209941628438084722096232800809229174062449776704113814829522082187034302784154791493109/260740604970814219042361048116400404614587954389239840081425977517360806369707098391474864128,
    521481209941628438084722096232800809229175447196303936150592673656561756313136343625705887799/260740604970814219042361048116400404614587954389239840081425977517360806369707098391474864128,
    8343699359066055009355553539724812947666812694126971906556594155042906378125515735898016008597/4171849679533027504677776769862406473833407270227837441302815640277772901915313574263597826048,
    33374797436264220037422214158899251790667256315493996554373487996709543789617397181479551894467/16687398718132110018711107079449625895333629080911349765211262561111091607661254297054391304192,
    66749594872528440074844428317798503581334515400481047572820531681688046717792461481902943476007/33374797436264220037422214158899251790667258161822699530422525122222183215322508594108782608384,
    33374797436264220037422214158899251790667258046427155594419460301877643251215939130819454691295/16687398718132110018711107079449625895333629080911349765211262561111091607661254297054391304192,
    266998379490113760299377713271194014325338065063790508371374071337088385794366929826291604933147/133499189745056880149688856635597007162669032647290798121690100488888732861290034376435130433536]

def piLo : ℚ := 273671317520631487452078175529438920524963 / 2 ^ 136
def piHi : ℚ := 273671317520631487452078175529438920524966 / 2 ^ 136

theorem pi_encl : Encl Real.pi piLo piHi := by
  unfold Encl piLo piHi; push_cast
  exact ⟨pi_gt_136.le, pi_lt_136.le⟩

theorem piLo_pos : 0 < piLo := by decide +kernel

/-- square roots of enclosures: any rationals `s`, `t` with `s² ≤ a` and `b ≤ t²` enclose `√x` -/
theorem Encl.sqrt {x : ℝ} {a b : ℚ} (hx : Encl x a b) (s t : ℚ) (hs : 0 ≤ s) (hs2 : s ^ 2 ≤ a)
    (ht : 0 ≤ t) (ht2 : b ≤ t ^ 2) : Encl (√x) s t := by
  have hs' : (0 : ℝ) ≤ (s : ℝ) := by exact_mod_cast hs
  have ht' : (0 : ℝ) ≤ (t : ℝ) := by exact_mod_cast ht
  have hs2' : (s : ℝ) ^ 2 ≤ (a : ℝ) := by exact_mod_cast hs2
  have ht2' : (b : ℝ) ≤ (t : ℝ) ^ 2 := by exact_mod_cast ht2
  constructor
  · exact Real.le_sqrt_of_sq_le (le_trans hs2' hx.1)
  · rw [Real.sqrt_le_left ht']; exact le_trans hx.2 ht2'

def sqrtPiLo : ℚ := 2470440106574893720504763246394163958382132 / 2 ^ 140
def sqrtPiHi : ℚ := 2470440106574893720504763246394163958382146 / 2 ^ 140

theorem sqrt_pi_encl : Encl (√Real.pi) sqrtPiLo sqrtPiHi :=
  pi_encl.sqrt sqrtPiLo sqrtPiHi (by decide +kernel) (by decide +kernel) (by decide +kernel) (by decide +kernel)

theorem sqrtPiLo_pos : 0 < sqrtPiLo := by decide +kernel

theorem Encl.smul_div {x : ℝ} {a b : ℚ} (hx : Encl x a b) (p q : ℕ) (hq : 0 < q) :
    Encl ((p : ℝ) * x / (q : ℝ)) ((p : ℚ) / (q : ℚ) * a) ((p : ℚ) / (q : ℚ) * b) := by
  have h := hx.smul ((p : ℚ) / (q : ℚ)) (by positivity)
  refine h.congr ?_
  push_cast; ring

/-- `k·π/m` -/
theorem pi_mul_div_encl (p q : ℕ) (hq : 0 < q) :
    Encl ((p : ℝ) * Real.pi / (q : ℝ)) ((p : ℚ) / (q : ℚ) * piLo) ((p : ℚ) / (q : ℚ) * piHi) :=
  pi_encl.smul_div p q hq

theorem tau_encl : Encl (2 * Real.pi) ((2 : ℕ) / (1 : ℕ) * piLo) ((2 : ℕ) / (1 : ℕ) * piHi) :=
  (pi_mul_div_encl 2 1 Nat.one_pos).congr (by push_cast; ring)
theorem pi_div_2_encl : Encl (Real.pi / 2) ((1 : ℕ) / (2 : ℕ) * piLo) ((1 : ℕ) / (2 : ℕ) * piHi) :=
  (pi_mul_div_encl 1 2 (by norm_num)).congr (by push_cast; ring)
theorem pi_div_3_encl : Encl (Real.pi / 3) ((1 : ℕ) / (3 : ℕ) * piLo) ((1 : ℕ) / (3 : ℕ) * piHi) :=
  (pi_mul_div_encl 1 3 (by norm_num)).congr (by push_cast; ring)
theorem pi_div_4_encl : Encl (Real.pi / 4) ((1 : ℕ) / (4 : ℕ) * piLo) ((1 : ℕ) / (4 : ℕ) * piHi) :=
  (pi_mul_div_encl 1 4 (by norm_num)).congr (by push_cast; ring)
theorem pi_div_6_encl : Encl (Real.pi / 6) ((1 : ℕ) / (6 : ℕ) * piLo) ((1 : ℕ) / (6 : ℕ) * piHi) :=
  (pi_mul_div_encl 1 6 (by norm_num)).congr (by push_cast; ring)
theorem pi_div_8_encl : Encl (Real.pi / 8) ((1 : ℕ) / (8 : ℕ) * piLo) ((1 : ℕ) / (8 : ℕ) * piHi) :=
  (pi_mul_div_encl 1 8 (by norm_num)).congr (by push_cast; ring)

theorem one_div_pi_encl : Encl (1 / Real.pi) piHi⁻¹ piLo⁻¹ :=
  (pi_encl.inv piLo_pos).congr (by rw [one_div])

theorem two_div_pi_encl : Encl (2 / Real.pi) (2 * piHi⁻¹) (2 * piLo⁻¹) :=
  ((pi_encl.inv piLo_pos).smul 2 (by norm_num)).congr (by push_cast; rw [div_eq_mul_inv])

theorem two_div_sqrt_pi_encl : Encl (2 / √Real.pi) (2 * sqrtPiHi⁻¹) (2 * sqrtPiLo⁻¹) :=
  ((sqrt_pi_encl.inv sqrtPiLo_pos).smul 2 (by norm_num)).congr (by push_cast; rw [div_eq_mul_inv])

end ConstBounds
