/-
Lemmas.ConstBounds — integer / real-analysis lemmas behind property C12 (the published constants):

* §1  the largest value a valid double-double can have (`valid_V_le`),
* §2  the rounding cell of a double (`InCell`) and the notion "t is the correctly rounded double-double of the
      real number c" (`CorrectlyRoundedDD`), with the link to the model's rounding function `roundQ`,
* §3  tools for turning polynomial sign conditions / series enclosures into cell membership.
-/
import TFV.Spec.Defs
import TFV.Spec.Rounding
import TFV.Lemmas.Cmp
import Mathlib.Tactic.Ring
import Mathlib.Tactic.Linarith
import Mathlib.Tactic.NormNum
import Mathlib.Tactic.Positivity
import Mathlib.Analysis.Real.Sqrt

set_option exponentiation.threshold 3000

namespace ConstBounds
open F64

/-! ## 1. the extreme valid pairs -/

/-- the low word of `TwoFloat::MAX`: the double just below `2^970` (scaled: `2^2044 − 2^1991`) -/
def maxLo : ℕ := (2 ^ 53 - 1) * 2 ^ 1991

theorem rn53_maxFin : rn53 maxFin = maxFin := rn53_of_rep rep_maxFin

/-- `f64::MAX + 2^970` is a tie between `f64::MAX` (odd significand) and `2^1024`; it rounds up (to even) -/
theorem rn53_overflow_tie : rn53 (maxFin + 2 ^ 2044) = 2 ^ 2098 := by
  rw [maxFin_eq]; decide +kernel

/-- a representable magnitude above `maxLo` is at least `2^2044` (`maxLo` is the predecessor of `2^2044`) -/
theorem rep_gt_maxLo {n : ℕ} (h : Rep n) (hn : maxLo < n) : 2 ^ 2044 ≤ n := by
  by_contra hc
  have hlt : n < 2 ^ 2044 := by omega
  have hd : 2 ^ 1991 ∣ n := h.dvd_of_le (e := 1991) (by unfold maxLo at hn; norm_num at hn ⊢; omega)
  obtain ⟨k, rfl⟩ := hd
  unfold maxLo at hn
  have h1 : 2 ^ 53 - 1 < k := by
    apply Nat.lt_of_mul_lt_mul_left (a := 2 ^ 1991); rw [Nat.mul_comm] at hn; exact hn
  have h2 : k < 2 ^ 53 := by
    apply Nat.lt_of_mul_lt_mul_left (a := 2 ^ 1991)
    calc 2 ^ 1991 * k < 2 ^ 2044 := hlt
      _ = 2 ^ 1991 * 2 ^ 53 := by rw [← pow_add]
  omega

/-- integer core of "MAX is the largest valid value": if `H = RN(H + L)` with `|H| ≤ f64::MAX` and `L` a
double, then `H + L ≤ f64::MAX + pred(2^970)`. -/
theorem valid_V_le {H L : ℤ} (hH : H = rnI (H + L)) (hHm : H ≤ (maxFin : ℤ)) (hL : Rep L.natAbs) :
    H + L ≤ (maxFin : ℤ) + (maxLo : ℤ) := by
  by_contra hc
  have hV : (maxFin : ℤ) + (maxLo : ℤ) < H + L := by omega
  have hlo0 : (0 : ℤ) ≤ (maxLo : ℤ) := Int.natCast_nonneg _
  -- step 1: the high word is f64::MAX
  have h1 : (maxFin : ℤ) ≤ H := by
    have := roundFacts.rnI_mono (show ((maxFin : ℕ) : ℤ) ≤ H + L by omega)
    rw [rnI_of_nonneg (Int.natCast_nonneg _), Int.natAbs_natCast, rn53_maxFin, ← hH] at this
    exact this
  have hHeq : H = (maxFin : ℤ) := le_antisymm hHm h1
  -- step 2: the low word is at least 2^970
  have hLpos : (maxLo : ℤ) < L := by omega
  have hLn : ((L.natAbs : ℕ) : ℤ) = L := Int.natAbs_of_nonneg (by omega)
  have hL2 : 2 ^ 2044 ≤ L.natAbs := rep_gt_maxLo hL (by omega)
  -- step 3: then the sum rounds to 2^1024
  have hge : ((maxFin + 2 ^ 2044 : ℕ) : ℤ) ≤ H + L := by
    rw [hHeq]; push_cast
    have : ((2 ^ 2044 : ℕ) : ℤ) ≤ ((L.natAbs : ℕ) : ℤ) := by exact_mod_cast hL2
    push_cast at this; omega
  have := roundFacts.rnI_mono hge
  rw [rnI_of_nonneg (Int.natCast_nonneg _), Int.natAbs_natCast, rn53_overflow_tie, ← hH, hHeq] at this
  have hlt : maxFin < 2 ^ 2098 := by rw [maxFin_eq]; norm_num
  have : ((2 ^ 2098 : ℕ) : ℤ) ≤ ((maxFin : ℕ) : ℤ) := this
  have : 2 ^ 2098 ≤ maxFin := by exact_mod_cast this
  omega

/-- the mirror image -/
theorem valid_V_ge {H L : ℤ} (hH : H = rnI (H + L)) (hHm : -(maxFin : ℤ) ≤ H) (hL : Rep L.natAbs) :
    -((maxFin : ℤ) + (maxLo : ℤ)) ≤ H + L := by
  have h := valid_V_le (H := -H) (L := -L) (by rw [← neg_add, rnI_neg, ← hH]) (by omega)
    (by rwa [Int.natAbs_neg])
  omega

theorem rep_natAbs_toInt {x : F64} (h : x.WF) : Rep x.toInt.natAbs := by
  cases x with
  | nan => exact rep_zero
  | inf s => exact rep_zero
  | fin s n => cases s <;> simpa [toInt] using h.1

theorem toInt_le_maxFin {x : F64} (h : x.WF) : x.toInt ≤ (maxFin : ℤ) ∧ -(maxFin : ℤ) ≤ x.toInt := by
  cases x with
  | nan => simp [toInt]
  | inf s => simp [toInt]
  | fin s n =>
    have : ((n : ℕ) : ℤ) ≤ ((maxFin : ℕ) : ℤ) := by exact_mod_cast h.2
    cases s <;> simp only [toInt] <;> omega

/-! ## 2. rounding cells and "correctly rounded double-double" -/

/-- spacing of the doubles at scaled magnitude `n` (the ulp of `n`, units of 2^-1074): `2^(⌊log2 n⌋ − 52)`,
and `1` (= 2^-1074) in the subnormal range -/
def ulp (n : ℕ) : ℕ := 2 ^ (Nat.log2 n - 52)

theorem ulp_pos (n : ℕ) : 0 < ulp n := Nat.two_pow_pos _

theorem ulp_le_self {n : ℕ} (h : n ≠ 0) : ulp n ≤ n :=
  Nat.le_trans (Nat.pow_le_pow_right (by decide) (Nat.sub_le _ _)) (Nat.log2_self_le h)

theorem ulp_zero : ulp 0 = 1 := by decide

/-- **`InCell x H`**: the real number `x` (in units of 2^-1074) lies strictly inside the rounding cell of the
double with scaled value `H`: `|x − H| < ulp(H)/2`, where `H` is not a power of two (so that the doubles next
to `H` on both sides are exactly `H ± ulp(H)`).  Then `H` is the unique double nearest to `x`
(`InCell.lt_of_ne`), i.e. `H = RN(x)` for every tie-breaking rule, and the model's rounding function returns
`H` on every rational in the cell (`InCell.roundQ_eq`). -/
structure InCell (x : ℝ) (H : ℤ) : Prop where
  not_pow2 : H.natAbs ≠ 2 ^ Nat.log2 H.natAbs
  near : 2 * |x - (H : ℝ)| < (ulp H.natAbs : ℝ)

/-- the doubles below a double `a` that is not a power of two are at least `ulp a` away -/
theorem rep_gap_below {a b : ℕ} (ha : Rep a) (hb : Rep b) (h : b < a) (hp : a ≠ 2 ^ Nat.log2 a) :
    ulp a + b ≤ a := by
  have ha0 : a ≠ 0 := by omega
  have h1 : 2 ^ Nat.log2 a ≤ a := Nat.log2_self_le ha0
  have h2 : a < 2 ^ (Nat.log2 a + 1) := Nat.lt_log2_self
  rcases Nat.lt_or_ge b (2 ^ Nat.log2 a) with hlt | hge
  · have hd1 : ulp a ∣ a := ha.dvd_ulp'
    have hd2 : ulp a ∣ 2 ^ Nat.log2 a := Nat.pow_dvd_pow 2 (Nat.sub_le _ _)
    have hd : ulp a ∣ a - 2 ^ Nat.log2 a := Nat.dvd_sub hd1 hd2
    have := Nat.le_of_dvd (by omega) hd
    omega
  · have hb0 : b ≠ 0 := by have := Nat.two_pow_pos (Nat.log2 a); omega
    have hlog : Nat.log2 b = Nat.log2 a := by
      apply Nat.le_antisymm
      · have : Nat.log2 b < Nat.log2 a + 1 := (Nat.log2_lt hb0).2 (by omega)
        omega
      · exact (Nat.le_log2 hb0).2 hge
    have := hb.ulp_le_sub_of_lt ha h
    rw [hlog] at this
    unfold ulp; omega

/-- every other double is at least one `ulp H` away from a double `H` that is not a power of two -/
theorem rep_gap {H y : ℤ} (hH : Rep H.natAbs) (hy : Rep y.natAbs) (hne : y ≠ H)
    (hp : H.natAbs ≠ 2 ^ Nat.log2 H.natAbs) : (ulp H.natAbs : ℤ) ≤ |y - H| := by
  have hlt : y.natAbs < H.natAbs → ulp H.natAbs + y.natAbs ≤ H.natAbs := fun h => rep_gap_below hH hy h hp
  have hgt : H.natAbs < y.natAbs → ulp H.natAbs + H.natAbs ≤ y.natAbs := fun h => by
    have := hH.ulp_le_sub_of_lt hy h; unfold ulp; omega
  have hu1 : H.natAbs ≠ 0 → ulp H.natAbs ≤ H.natAbs := ulp_le_self
  have hu0 : H.natAbs = 0 → ulp H.natAbs = 1 := fun h => by rw [h, ulp_zero]
  generalize ulp H.natAbs = u at *
  rcases abs_cases (y - H) with ⟨e, _⟩ | ⟨e, _⟩ <;> rw [e] <;> omega

/-- **uniqueness of the nearest double**: inside the cell of `H`, every other double is strictly farther away -/
theorem InCell.lt_of_ne {x : ℝ} {H : ℤ} (h : InCell x H) (hH : Rep H.natAbs) {y : ℤ}
    (hy : Rep y.natAbs) (hne : y ≠ H) : |x - (H : ℝ)| < |x - (y : ℝ)| := by
  have hg : ((ulp H.natAbs : ℕ) : ℝ) ≤ |(y : ℝ) - (H : ℝ)| := by
    have := rep_gap hH hy hne h.not_pow2
    have h' : (((ulp H.natAbs : ℕ) : ℤ) : ℝ) ≤ ((|y - H| : ℤ) : ℝ) := by exact_mod_cast this
    simpa using h'
  have htri : |(y : ℝ) - (H : ℝ)| ≤ |x - (H : ℝ)| + |x - (y : ℝ)| := by
    have : (y : ℝ) - (H : ℝ) = (x - (H : ℝ)) - (x - (y : ℝ)) := by ring
    rw [this]; exact abs_sub _ _
  have := h.near
  linarith

/-- **link to the model's rounding**: `F64.roundQ p q` (IEEE round-to-nearest-even of the rational `p/q` to 53
significant bits, the function every arithmetic operation of the model rounds with) returns `H` for every
rational `p/q` strictly inside the cell of the double `H` -/
theorem InCell.roundQ_eq {p q H : ℕ} (hq : 0 < q) (hH : Rep H) (h : InCell ((p : ℝ) / (q : ℝ)) (H : ℤ)) :
    roundQ p q = H := by
  by_contra hne
  have hq' : (0 : ℝ) < (q : ℝ) := by exact_mod_cast hq
  have h1 := h.lt_of_ne (y := ((roundQ p q : ℕ) : ℤ)) (by simpa using hH) (by simpa using roundQ_rep p q hq)
    (by exact_mod_cast hne)
  have h2 := roundQ_nearest p q hq hH
  have h2' : |((roundQ p q : ℕ) : ℝ) * q - p| ≤ |(H : ℝ) * q - p| := by exact_mod_cast h2
  have e1 : ∀ z : ℝ, |z * q - p| = |(p : ℝ) / q - z| * q := by
    intro z
    have : z * q - p = -(((p : ℝ) / q - z) * q) := by field_simp; ring
    rw [this, abs_neg, abs_mul, abs_of_pos hq']
  rw [e1, e1] at h2'
  have := le_of_mul_le_mul_right h2' hq'
  simp only [Int.cast_natCast] at h1
  linarith

/-- **`t` is the correctly rounded double-double of the real number `c`**: `hi = RN(c)` and `lo = RN(c − hi)`,
both strictly inside their rounding cells (no ties — automatic for irrational `c`).  Scaled units: `c · 2^1074`. -/
structure CorrectlyRoundedDD (c : ℝ) (t : TwoFloat) : Prop where
  hi : InCell (c * 2 ^ 1074) t.hi.toInt
  lo : InCell (c * 2 ^ 1074 - (t.hi.toInt : ℝ)) t.lo.toInt

/-! ## 3. from enclosures to cells -/

/-- cell membership from two-sided bounds on `x + A` (used with `A = hi` for the low word) -/
theorem inCell_of_bounds {x : ℝ} {A L : ℤ} {u : ℕ} (hp : L.natAbs ≠ 2 ^ Nat.log2 L.natAbs)
    (hu : ulp L.natAbs = u) (h1 : ((2 * (A + L) - u : ℤ) : ℝ) < 2 * x) (h2 : 2 * x < ((2 * (A + L) + u : ℤ) : ℝ)) :
    InCell (x - (A : ℝ)) L := by
  refine ⟨hp, ?_⟩
  rw [hu]
  push_cast at h1 h2
  have : |x - (A : ℝ) - (L : ℝ)| < (u : ℝ) / 2 := by rw [abs_lt]; constructor <;> linarith
  linarith

theorem inCell_of_bounds₀ {x : ℝ} {L : ℤ} {u : ℕ} (hp : L.natAbs ≠ 2 ^ Nat.log2 L.natAbs)
    (hu : ulp L.natAbs = u) (h1 : ((2 * L - u : ℤ) : ℝ) < 2 * x) (h2 : 2 * x < ((2 * L + u : ℤ) : ℝ)) :
    InCell x L := by
  have := inCell_of_bounds (x := x) (A := 0) hp hu (by simpa using h1) (by simpa using h2)
  simpa using this

/-- bracketing `2·√N` between integers by comparing squares -/
theorem two_sqrt_bounds {N : ℕ} {a b : ℤ} (ha : 0 ≤ a) (hb : 0 ≤ b) (h1 : a ^ 2 < 4 * N) (h2 : 4 * (N : ℤ) < b ^ 2) :
    (a : ℝ) < 2 * √(N : ℝ) ∧ 2 * √(N : ℝ) < (b : ℝ) := by
  have e : 2 * √(N : ℝ) = √(4 * (N : ℝ)) := by
    rw [Real.sqrt_mul (by norm_num), show (4 : ℝ) = 2 ^ 2 by norm_num, Real.sqrt_sq (by norm_num)]
  rw [e]
  constructor
  · rw [Real.lt_sqrt (by exact_mod_cast ha)]; exact_mod_cast h1
  · rw [Real.sqrt_lt (by positivity) (by exact_mod_cast hb)]; exact_mod_cast h2

end ConstBounds
