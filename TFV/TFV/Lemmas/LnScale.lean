/-
Lemmas.LnScale — the rescaling branch of `TwoFloat::ln` (`self.hi < 2^-1000`): the arithmetic facts.

For a valid positive `x` with high word below `2^-1000` the product `x * 2^200` is exact word for word
(`C04x.mul_tf_pow2_up`), its high word is at least `2^-1074·2^200 = 2^-874 ≥ 2^-1000`, so the recursive call takes the
Newton branch: `ln x = lnCore (x·2^200) − 200·LN_2` (`ln_tiny_eq_of_valid`), one level of recursion only.
-/
import TFV.Lemmas.LnCore
import TFV.Properties.C04x
import TFV.Properties.C06

set_option exponentiation.threshold 3000

namespace LnScale

open F64 TwoFloat LnCore

theorem tinyLim_val : tinyLim = fin false (2 ^ 74) := by decide +kernel
theorem scale_val : scale = fin false (2 ^ 200 * unit) := by decide +kernel
theorem scale_finite : scale.is_finite = true := by decide +kernel
theorem scale_toInt : scale.toInt = 1 * 2 ^ 200 * (unit : Int) := by decide +kernel
theorem tinyLim_toInt : tinyLim.toInt = 2 ^ 74 := by decide +kernel

/-- in the rescaling branch the high word is finite (a NaN or `+∞` high word is not `< 2^-1000`, a `−∞` high word
compares `≤ 0`) -/
theorem hi_finite_of_tiny {x : TwoFloat}
    (h2 : ROrd.isLe (base.impl_PartialOrd_f64_for_TwoFloat.partial_cmp x (f64lit 0x0000000000000000)) = false)
    (h3 : (x.hi <. tinyLim) = true) : x.hi.is_finite = true := by
  rcases x with ⟨hi, lo⟩
  cases hi with
  | nan => exact absurd (show (F64.nan <. tinyLim) = true from h3) (by decide +kernel)
  | inf s =>
    cases s
    · exact absurd (show (F64.inf false <. tinyLim) = true from h3) (by decide +kernel)
    · have : ROrd.isLe (base.impl_PartialOrd_f64_for_TwoFloat.partial_cmp ⟨F64.inf true, lo⟩
          (f64lit 0x0000000000000000)) = true := rfl
      rw [this] at h2; cases h2
  | fin s n => rfl

/-- an argument satisfying the invariant of C01 that reaches the rescaling branch is valid -/
theorem valid_of_tiny {x : TwoFloat} (hi : x.Inv)
    (h2 : ROrd.isLe (base.impl_PartialOrd_f64_for_TwoFloat.partial_cmp x (f64lit 0x0000000000000000)) = false)
    (h3 : (x.hi <. tinyLim) = true) : x.Valid := by
  rcases hi with h | h
  · exact h
  · rw [hi_finite_of_tiny h2 h3] at h; cases h

/-- the rescaling branch on exact values: `0 < x`, `0 < x.hi < 2^-1000` -/
theorem tiny_facts {x : TwoFloat} (hv : x.Valid)
    (h2 : ROrd.isLe (base.impl_PartialOrd_f64_for_TwoFloat.partial_cmp x (f64lit 0x0000000000000000)) = false)
    (h3 : (x.hi <. tinyLim) = true) :
    0 < x.V ∧ 0 < x.hi.toInt ∧ x.hi.toInt < 2 ^ 74 := by
  have hV : 0 < x.V := by
    by_contra hc
    have h2' : ROrd.isLe (base.impl_PartialOrd_f64_for_TwoFloat.partial_cmp x (f64lit 0x0000000000000000)) = true := by
      rw [f64lit_zero]
      exact (C06.le_f64_exact hv (WF_zero false) rfl).2 (by show x.V ≤ 0; omega)
    rw [h2'] at h2; cases h2
  refine ⟨hV, (hv.hi_pos_iff F64.roundFacts).2 hV, ?_⟩
  rw [rlt_eq, ← lt_eq_isLt] at h3
  have := (lt_iff_toInt hv.1 (by rw [tinyLim_val]; rfl)).1 h3
  rwa [tinyLim_toInt] at this

/-- the converse direction used for the statements on exact values -/
theorem tiny_of_hi_lt {x : TwoFloat} (hf : x.hi.is_finite = true) (h : x.hi.toInt < 2 ^ 74) :
    (x.hi <. tinyLim) = true := by
  rw [rlt_eq, ← lt_eq_isLt]
  refine (lt_iff_toInt hf (by rw [tinyLim_val]; rfl)).2 ?_
  rwa [tinyLim_toInt]

theorem not_tiny_of_hi_ge {x : TwoFloat} (hf : x.hi.is_finite = true) (h : 2 ^ 74 ≤ x.hi.toInt) :
    (x.hi <. tinyLim) = false := by
  rw [Bool.eq_false_iff]
  intro hc
  rw [rlt_eq, ← lt_eq_isLt] at hc
  have := (lt_iff_toInt hf (by rw [tinyLim_val]; rfl)).1 hc
  rw [tinyLim_toInt] at this
  omega

/-- **`x * 2^200` is exact** for a valid `x` with `|x.hi| < 2^-1000` -/
theorem scaled_spec {x : TwoFloat} (hv : x.Valid) (hw : x.WF) (hlt : |x.hi.toInt| < 2 ^ 74) :
    (scaled x).hi.toInt = 2 ^ 200 * x.hi.toInt ∧ (scaled x).lo.toInt = 2 ^ 200 * x.lo.toInt ∧
    (scaled x).V = 2 ^ 200 * x.V ∧ (scaled x).Valid ∧ (scaled x).WF := by
  have hov : x.hi.toInt.natAbs * 2 ^ 200 ≤ maxFin := by
    have h1 : x.hi.toInt.natAbs < 2 ^ 74 := by
      have : ((x.hi.toInt.natAbs : ℕ) : ℤ) < ((2 ^ 74 : ℕ) : ℤ) := by
        rw [Int.natCast_natAbs]; push_cast; exact hlt
      exact_mod_cast this
    calc x.hi.toInt.natAbs * 2 ^ 200 ≤ 2 ^ 74 * 2 ^ 200 := Nat.mul_le_mul_right _ h1.le
      _ = 2 ^ 274 := by rw [← pow_add]
      _ ≤ 2 ^ 2097 := Nat.pow_le_pow_right (by decide) (by decide)
      _ ≤ maxFin := two_pow_2097_le_maxFin
  obtain ⟨p1, p2, p3, p4, p5⟩ :=
    C04x.mul_tf_pow2_up x scale 1 200 (Or.inl rfl) hv hw scale_finite scale_toInt hov
  rw [one_mul] at p1 p2 p3
  exact ⟨p1, p2, p3, p4, p5⟩

/-- the rescaled argument is not tiny any more -/
theorem scaled_not_tiny {x : TwoFloat} (hv : x.Valid) (hw : x.WF) (h0 : 0 < x.hi.toInt) (h1 : x.hi.toInt < 2 ^ 74) :
    ((scaled x).hi <. tinyLim) = false := by
  obtain ⟨p1, -, -, p4, -⟩ := scaled_spec hv hw (by rw [abs_of_pos h0]; exact h1)
  refine not_tiny_of_hi_ge p4.1 ?_
  rw [p1]
  have : (2 : ℤ) ^ 74 ≤ 2 ^ 200 := pow_le_pow_right₀ (by norm_num) (by norm_num)
  nlinarith

/-- **the rescaling branch of `ln`, one level**: for a valid `x` that is not `≤ 0` and has high word below `2^-1000`,
`ln x = lnCore (x·2^200) − 200·LN_2`, where `x·2^200` is exact -/
theorem ln_tiny_eq_of_valid {x : TwoFloat} (hv : x.Valid) (hw : x.WF)
    (h2 : ROrd.isLe (base.impl_PartialOrd_f64_for_TwoFloat.partial_cmp x (f64lit 0x0000000000000000)) = false)
    (h3 : (x.hi <. tinyLim) = true) :
    TwoFloat.ln x = arithmetic.impl_Sub_TwoFloat_for_TwoFloat.sub (TwoFloat.lnCore (scaled x)) shift ∧
    TwoFloat.ln x = arithmetic.impl_Sub_TwoFloat_for_TwoFloat.sub (TwoFloat.ln (scaled x)) shift ∧
    TwoFloat.ln.pf x = TwoFloat.lnCore.pf (scaled x) ∧
    ((scaled x).hi <. tinyLim) = false := by
  obtain ⟨-, q0, q1⟩ := tiny_facts hv h2 h3
  have h4 := scaled_not_tiny hv hw q0 q1
  cases h1 : base.impl_PartialEq_f64_for_TwoFloat.eq x (f64lit 0x3ff0000000000000)
  · exact ⟨ln_tiny_eq x h1 h2 h3 h4, ln_tiny_eq_ln x h1 h2 h3 h4, ln_pf_tiny_eq x h1 h2 h3 h4, h4⟩
  · -- `x == 1.0` contradicts `x.hi < 2^-1000`
    exfalso
    have := (C06.eq_f64_exact hv (show (f64lit 0x3ff0000000000000).WF by decide +kernel)
      (show (f64lit 0x3ff0000000000000).is_finite = true by decide +kernel)).1 h1
    have e1 : (f64lit 0x3ff0000000000000).toInt = 2 ^ 1074 := by decide +kernel
    rw [e1] at this
    -- `V = 2^1074` but `hi < 2^74`: `hi = RN(V)` and `2^1074` is representable
    have hh := hv.hi_toInt
    rw [this] at hh
    have r : rnI ((2 : ℤ) ^ 1074) = 2 ^ 1074 := by
      have := F64.roundFacts.rnI_toInt (show (f64lit 0x3ff0000000000000).WF by decide +kernel)
      rwa [e1] at this
    rw [r] at hh
    rw [hh] at q1
    exact absurd q1 (by norm_num)

end LnScale
