/-
Lemmas.RemMixed — the tolerance clause of property C19 for the MIXED remainders `TwoFloat % f64`, `f64 % TwoFloat`
(hence `%=` with an `f64` right-hand side), and for `div_euclid` / `rem_euclid` on arbitrary valid operands.

Units as everywhere: values are scaled integers (units of `2^-1074`), `unit = 2^1074` is the integer 1.

* §1 shared pieces: magnitude of the truncated quotient, the range of `trunc(q).hi · b.hi`, the final error budget;
* §2 `TwoFloat % f64`  : division `3u²` (C05c), `trunc` exact (C08), product `2u²` (C04b), difference `3u² + 13u³` (C03b);
       total `≤ 6·2^-106·|a|` (relative to the dividend alone, see `resid_le`);
* §3 `f64 % TwoFloat`  : division `16u²` (C01d), `trunc` exact, product `7u²`, difference `2u²` (C03b);
       total `≤ 11·2^-106·|f|`;
* §4 `x ± 1.0` is EXACT for an integer-valued pair `x` with `|x| ≤ 2^102` (the Euclidean correction of `div_euclid`);
* §5 `div_euclid`, `rem_euclid` on general operands.
-/
import TFV.Lemmas.RemExact
import TFV.Properties.C05c
import TFV.Properties.C03b
import TFV.Properties.C04b

set_option exponentiation.threshold 3000

namespace RemMixed

open F64 TwoFloat C08 C01

/-! ## 1. shared pieces -/

/-- `|K·B| ≤ (1 + 2^-102)|A|` and `|A| ≤ 2^100 |B|` bound the integer quotient: `|K| ≤ 2^101` -/
theorem quot_le {A B K : ℤ} (hB : B ≠ 0) (hR : |A| ≤ 2 ^ 100 * |B|)
    (n2 : 2 ^ 102 * |K * B| ≤ (2 ^ 102 + 1) * |A|) : |K| ≤ 2 ^ 101 := by
  have hBpos : 0 < |B| := abs_pos.2 hB
  rw [abs_mul] at n2
  have : 2 ^ 102 * |K| * |B| ≤ 2 ^ 102 * 2 ^ 101 * |B| := by nlinarith
  have := le_of_mul_le_mul_right this hBpos
  linarith

/-- the high word of an exact integer `K·unit`, `|K| ≤ 2^101`, times a word of magnitude in `[2^-450, 2^450]` is `0`
or in the no-underflow / no-overflow window of the error-free product -/
theorem int_hi_mul_range {T B K : ℤ} (hT : T = rnI (K * (unit : ℤ))) (hK : |K| ≤ 2 ^ 101)
    (hB : 2 ^ 624 ≤ B.natAbs ∧ B.natAbs ≤ 2 ^ 1524) :
    T * B = 0 ∨ ((2 : ℤ) ^ 1188 ≤ |T * B| ∧ |T * B| < (2 : ℤ) ^ 3169) := by
  have hUi := unit_pos_int
  by_cases hK0 : K = 0
  · left; rw [hT, hK0, zero_mul, rnI_zero, zero_mul]
  · right
    have k1 : 1 ≤ |K| := abs_pos.2 hK0
    have l1 : |(unit : ℤ)| ≤ |K * (unit : ℤ)| := by
      rw [abs_mul]; exact le_mul_of_one_le_left (abs_nonneg _) k1
    have l2 := le_abs_rnI repI_unit l1
    rw [abs_of_pos hUi, C01d.unit_int_eq] at l2
    have u1 : |K * (unit : ℤ)| ≤ 2 ^ 1175 := by
      rw [abs_mul, abs_of_pos hUi, C01d.unit_int_eq]
      calc |K| * 2 ^ 1074 ≤ 2 ^ 101 * 2 ^ 1074 := mul_le_mul_of_nonneg_right hK (by positivity)
        _ = 2 ^ 1175 := by rw [← pow_add]
    have u2 := abs_rnI_le_pow u1
    have b1 : (2 : ℤ) ^ 624 ≤ |B| := by rw [← Int.natCast_natAbs]; exact_mod_cast hB.1
    have b2 : |B| ≤ (2 : ℤ) ^ 1524 := by rw [← Int.natCast_natAbs]; exact_mod_cast hB.2
    rw [hT, abs_mul]
    constructor
    · calc (2 : ℤ) ^ 1188 ≤ 2 ^ 1074 * 2 ^ 624 := by
            rw [← pow_add]; exact pow_le_pow_right₀ (by norm_num) (by norm_num)
        _ ≤ _ := mul_le_mul l2 b1 (by positivity) (abs_nonneg _)
    · calc _ ≤ (2 : ℤ) ^ 1175 * 2 ^ 1524 := mul_le_mul u2 b2 (abs_nonneg _) (by positivity)
        _ < 2 ^ 3169 := by rw [← pow_add]; exact pow_lt_pow_right₀ (by norm_num) (by norm_num)

/-- the value of a valid pair whose high word is at most `2^1524` in magnitude -/
theorem abs_V_le_of_hi {a : TwoFloat} (ha : a.Valid) (h : a.hi.toInt.natAbs ≤ 2 ^ 1524) : |a.V| ≤ 2 ^ 1525 := by
  have a2 : |a.hi.toInt| ≤ (2 : ℤ) ^ 1524 := by rw [← Int.natCast_natAbs]; exact_mod_cast h
  have := ha.abs_lo_le
  have := abs_add_le a.hi.toInt a.lo.toInt
  unfold TwoFloat.V; linarith

/-- a valid pair of value at most `2^1528` has a high word below `2^2094` -/
theorem hi_lt_of_abs_V_le {p : TwoFloat} (pv : p.Valid) (h : |p.V| ≤ 2 ^ 1528) : p.hi.toInt.natAbs < 2 ^ 2094 := by
  apply natAbs_lt_of_abs_lt
  rw [pv.hi_toInt]
  have := abs_rnI_le_two_mul p.V
  linarith

/-- a product error relative to `|K·B|·unit` brought down to the scale of the values -/
theorem mul_err_descale {P K B c : ℤ} (h : 2 ^ 106 * |P * (unit : ℤ) - K * (unit : ℤ) * B| ≤ c * |K * (unit : ℤ) * B|) :
    2 ^ 106 * |P - K * B| ≤ c * |K * B| := by
  have hUi := unit_pos_int
  have e1 : P * (unit : ℤ) - K * (unit : ℤ) * B = (P - K * B) * (unit : ℤ) := by ring
  have e2 : K * (unit : ℤ) * B = (K * B) * (unit : ℤ) := by ring
  rw [e1, e2, abs_mul_pos_right _ hUi, abs_mul_pos_right _ hUi] at h
  have : (2 ^ 106 * |P - K * B|) * (unit : ℤ) ≤ (c * |K * B|) * (unit : ℤ) := by linarith
  exact le_of_mul_le_mul_right this hUi

/-- bound on the computed product `p ≈ K·B` -/
theorem prod_abs_le {A B K P : ℤ} (hA : |A| ≤ 2 ^ 1525)
    (n2 : 2 ^ 102 * |K * B| ≤ (2 ^ 102 + 1) * |A|) (hmul : 2 ^ 106 * |P - K * B| ≤ 7 * |K * B|) :
    |P| ≤ 2 ^ 1528 := by
  have t := abs_le_add_abs_sub P (K * B)
  have := abs_nonneg (K * B)
  have := abs_nonneg (P - K * B)
  linarith

/-- the exact residual `A − K·B` is at most `(1 + 2^-101)|A|`: `|A − tdiv(A,B)·B| = |tmod(A,B)| ≤ |A|`, and in the
adjacent case `A/B` is within `2^-102` of a NON-ZERO integer, so `|B| ≤ (1 + 2^-102)|A|` -/
theorem resid_le {A B K : ℤ} (hA : A ≠ 0)
    (n1 : K = A.tdiv B ∨
      ((K = A.tdiv B + 1 ∨ K = A.tdiv B - 1) ∧ ∃ j : ℤ, 2 ^ 102 * |A - j * B| ≤ |A|))
    (n3 : 2 ^ 102 * |A - K * B| ≤ 2 ^ 102 * |B| + |A|) :
    2 ^ 102 * |A - K * B| ≤ (2 ^ 102 + 2) * |A| := by
  have hApos : 0 < |A| := abs_pos.2 hA
  rcases n1 with h | ⟨-, j, hj⟩
  · have e : A - K * B = A.tmod B := by
      have := Int.tmod_add_tdiv_mul A B
      rw [h]; linarith
    have h2 : |A.tmod B| ≤ |A| := by
      rw [Int.abs_eq_natAbs, Int.abs_eq_natAbs, Int.natAbs_tmod]
      exact_mod_cast Nat.mod_le _ _
    rw [e]; linarith
  · have hj0 : j ≠ 0 := by
      rintro rfl
      rw [zero_mul, sub_zero] at hj
      linarith
    have j1 : 1 ≤ |j| := abs_pos.2 hj0
    have hB1 : |B| ≤ |j * B| := by
      rw [abs_mul]; exact le_mul_of_one_le_left (abs_nonneg _) j1
    have hB2 : |j * B| ≤ |A| + |A - j * B| := by
      have e : j * B = A - (A - j * B) := by ring
      calc |j * B| = |A - (A - j * B)| := by rw [← e]
        _ ≤ |A| + |A - j * B| := abs_sub _ _
    linarith

/-- **the error budget of `a − K·b`.**  `P` the computed product (relative error `c·2^-106`, `c ≤ 7`), `R` the computed
difference (relative error `d·2^-159`, `d ≤ 3·2^53 + 13`), `K` with `|K·B| ≤ (1 + 2^-102)|A|`,
`|A − K·B| ≤ (1 + 2^-101)|A|`: the total error is at most `(c + 4)·2^-106·|A|` -/
theorem rem_budget {A B K P R c : ℤ} (hc0 : 0 ≤ c) (hc : c ≤ 7)
    (hmul : 2 ^ 106 * |P - K * B| ≤ c * |K * B|)
    (n2 : 2 ^ 102 * |K * B| ≤ (2 ^ 102 + 1) * |A|)
    (n4 : 2 ^ 102 * |A - K * B| ≤ (2 ^ 102 + 2) * |A|)
    (hsub : |R - (A - P)| * 2 ^ 159 ≤ (3 * 2 ^ 53 + 13) * |A - P|) :
    2 ^ 106 * |R - (A - K * B)| ≤ (c + 4) * |A| := by
  have t1 : |R - (A - K * B)| ≤ |R - (A - P)| + |P - K * B| := by
    have e : R - (A - K * B) = (R - (A - P)) - (P - K * B) := by ring
    rw [e]; exact abs_sub _ _
  have t2 : |A - P| ≤ |A - K * B| + |P - K * B| := by
    have e : A - P = (A - K * B) - (P - K * B) := by ring
    rw [e]; exact abs_sub _ _
  have z1 := abs_nonneg (P - K * B)
  have z2 := abs_nonneg (R - (A - P))
  have z3 := abs_nonneg (K * B)
  have z5 := abs_nonneg A
  have hcK : 2 ^ 102 * (c * |K * B|) ≤ c * ((2 ^ 102 + 1) * |A|) := by
    have : c * (2 ^ 102 * |K * B|) ≤ c * ((2 ^ 102 + 1) * |A|) := mul_le_mul_of_nonneg_left n2 hc0
    linarith
  have hcM : c * |A| ≤ 7 * |A| := mul_le_mul_of_nonneg_right hc z5
  have hcM0 : 0 ≤ c * |A| := mul_nonneg hc0 z5
  linarith

/-! ## 2. `TwoFloat % f64` (and `%=` with an `f64` right-hand side) -/

/-- **the tolerance clause of C19 for `TwoFloat % f64`.**  Budget: division `3u²` (only decides `K`), `trunc` exact,
product `2u²·|K·f|`, difference `(3u² + 13u³)·|a − p|`. -/
theorem rem_tf_tolerance {a : TwoFloat} {f : F64} (ha : a.Valid) (hwa : a.WF)
    (hf : f.is_finite = true) (hwf : f.WF)
    (hA : 2 ^ 624 ≤ a.hi.toInt.natAbs ∧ a.hi.toInt.natAbs ≤ 2 ^ 1524)
    (hB : 2 ^ 624 ≤ f.toInt.natAbs ∧ f.toInt.natAbs ≤ 2 ^ 1524)
    (hR : |a.V| ≤ 2 ^ 100 * |f.toInt|) :
    ∃ K : ℤ, (TwoFloat.trunc (a /. f)).V = K * (unit : ℤ) ∧
      (K = a.V.tdiv f.toInt ∨
        ((K = a.V.tdiv f.toInt + 1 ∨ K = a.V.tdiv f.toInt - 1) ∧
          ∃ j : ℤ, 2 ^ 102 * |a.V - j * f.toInt| ≤ |a.V|)) ∧
      (a %. f).Valid ∧
      2 ^ 106 * |(a %. f).V - (a.V - K * f.toInt)| ≤ 6 * |a.V| := by
  have hUi := unit_pos_int
  obtain ⟨qv, acc3, -⟩ := C05c.div_tf_f64_bound a f ha hwa hf hwf hA.1 hA.2 hB.1 hB.2
  have qw : (divTF a f).WF := div_tf_WF a f
  have acc : 2 ^ 102 * |a.V * (unit : ℤ) - (divTF a f).V * f.toInt| ≤ |a.V * (unit : ℤ)| := by
    rw [abs_sub_comm]
    have := abs_nonneg (a.V * (unit : ℤ))
    have := abs_nonneg ((divTF a f).V * f.toInt - a.V * (unit : ℤ))
    linarith
  obtain ⟨tv, tvalid⟩ := C08.trunc_exact qv qw
  have twf := C08.trunc_WF qw
  have hf0 : f.toInt ≠ 0 := by
    intro h0
    have := hB.1
    rw [h0] at this
    norm_num at this
  have hR' : |a.V| ≤ 2 ^ 100 * |f.toInt| := by
    have := abs_nonneg f.toInt
    linarith
  have tv' : (TwoFloat.trunc (divTF a f)).V = (divTF a f).V.tdiv (unit : ℤ) * (unit : ℤ) := tv
  obtain ⟨n1, n2, n3⟩ := quot_near hUi hf0 hR' acc
  generalize (divTF a f).V.tdiv (unit : ℤ) = K at *
  refine ⟨K, tv', n1, ?_⟩
  have hK := quot_le hf0 hR n2
  have hThi := tvalid.hi_toInt
  rw [tv'] at hThi
  have hr := int_hi_mul_range hThi hK hB
  obtain ⟨pv, hmul⟩ := C04b.mul_tf_f64_bound tvalid twf hf hwf hr
  rw [tv'] at hmul
  have hmul' : 2 ^ 106 * |(arithmetic.impl_Mul_rf64_for_rTwoFloat.mul (TwoFloat.trunc (divTF a f)) f).V - K * f.toInt| ≤ 2 * |K * f.toInt| := by
    apply mul_err_descale
    linarith
  generalize hp : arithmetic.impl_Mul_rf64_for_rTwoFloat.mul (TwoFloat.trunc (divTF a f)) f = p at *
  have pw : p.WF := by rw [← hp]; exact mul_tf_WF _ _
  have hAV := abs_V_le_of_hi ha hA.2
  have hPV : |p.V| ≤ 2 ^ 1528 := prod_abs_le hAV n2 (by linarith [abs_nonneg (K * f.toInt)])
  have hPhi := hi_lt_of_abs_V_le pv hPV
  have hAhi : a.hi.toInt.natAbs < 2 ^ 2094 := lt_of_le_of_lt hA.2 (by norm_num)
  obtain ⟨rv, hsub⟩ := TwoFloat.sub_tt_bound ha hwa pv pw hAhi hPhi
  have hrem : (a %. f) = subTT a p := by rw [← hp]; rfl
  rw [hrem]
  refine ⟨rv, ?_⟩
  have hAV0 : a.V ≠ 0 := fun h => by
    have h0 := ha.V_zero_iff.1 h
    have := hA.1
    rw [h0] at this
    norm_num at this
  have := rem_budget (c := 2) (by norm_num) (by norm_num) hmul' n2 (resid_le hAV0 n1 n3) hsub
  linarith

/-! ## 3. `f64 % TwoFloat` -/

/-- **the tolerance clause of C19 for `f64 % TwoFloat`.**  Budget: division `16u²` (only decides `K`), `trunc` exact,
product `7u²·|K·b|`, difference `2u²·|f − p|`. -/
theorem rem_ft_tolerance {f : F64} {b : TwoFloat} (hf : f.is_finite = true) (hwf : f.WF)
    (hb : b.Valid) (hwb : b.WF)
    (hA : 2 ^ 624 ≤ f.toInt.natAbs ∧ f.toInt.natAbs ≤ 2 ^ 1524)
    (hB : 2 ^ 624 ≤ b.hi.toInt.natAbs ∧ b.hi.toInt.natAbs ≤ 2 ^ 1524)
    (hR : |f.toInt| ≤ 2 ^ 100 * |b.V|) :
    ∃ K : ℤ, (TwoFloat.trunc (f /. b)).V = K * (unit : ℤ) ∧
      (K = f.toInt.tdiv b.V ∨
        ((K = f.toInt.tdiv b.V + 1 ∨ K = f.toInt.tdiv b.V - 1) ∧
          ∃ j : ℤ, 2 ^ 102 * |f.toInt - j * b.V| ≤ |f.toInt|)) ∧
      (f %. b).Valid ∧
      2 ^ 106 * |(f %. b).V - (f.toInt - K * b.V)| ≤ 11 * |f.toInt| := by
  have hUi := unit_pos_int
  obtain ⟨qv, qw⟩ := C01d.div_ft_valid f b hf hwf hb hwb hA.1 hA.2 hB.1 hB.2
  have acc := C01d.div_ft_bound f b hf hwf hb hwb hA.1 hA.2 hB.1 hB.2
  obtain ⟨tv, tvalid⟩ := C08.trunc_exact qv qw
  have twf := C08.trunc_WF qw
  have hb0 : b.hi.toInt ≠ 0 := by
    intro h0
    have := hB.1
    rw [h0] at this
    norm_num at this
  have hBV0 : b.V ≠ 0 := fun h => hb0 (hb.V_zero_iff.1 h)
  have hR' : |f.toInt| ≤ 2 ^ 100 * |b.V| := by
    have := abs_nonneg b.V
    linarith
  have tv' : (TwoFloat.trunc (divFT f b)).V = (divFT f b).V.tdiv (unit : ℤ) * (unit : ℤ) := tv
  obtain ⟨n1, n2, n3⟩ := quot_near hUi hBV0 hR' acc
  generalize (divFT f b).V.tdiv (unit : ℤ) = K at *
  refine ⟨K, tv', n1, ?_⟩
  have hK := quot_le hBV0 hR n2
  have hThi := tvalid.hi_toInt
  rw [tv'] at hThi
  have hr := int_hi_mul_range hThi hK hB
  obtain ⟨pv, hmul⟩ := TwoFloat.mul_tt_bound_7u2_partial tvalid twf hb hwb hr
  rw [tv'] at hmul
  have hmul' : 2 ^ 106 * |(arithmetic.impl_Mul_rTwoFloat_for_rTwoFloat.mul (TwoFloat.trunc (divFT f b)) b).V - K * b.V| ≤ 7 * |K * b.V| := by
    apply mul_err_descale
    linarith
  generalize hp : arithmetic.impl_Mul_rTwoFloat_for_rTwoFloat.mul (TwoFloat.trunc (divFT f b)) b = p at *
  have pw : p.WF := by rw [← hp]; exact mul_tt_WF _ _
  have hAV : |f.toInt| ≤ 2 ^ 1525 := by
    have a2 : |f.toInt| ≤ (2 : ℤ) ^ 1524 := by rw [← Int.natCast_natAbs]; exact_mod_cast hA.2
    linarith
  have hPV : |p.V| ≤ 2 ^ 1528 := prod_abs_le hAV n2 hmul'
  have hPhi := hi_lt_of_abs_V_le pv hPV
  have hFhi : f.toInt.natAbs < 2 ^ 2095 := lt_of_le_of_lt hA.2 (by norm_num)
  obtain ⟨rv, hsub⟩ := TwoFloat.sub_ft_bound pv pw hf hwf (lt_trans hPhi (by norm_num)) hFhi
  have hrem : (f %. b) = subFT f p := by rw [← hp]; rfl
  rw [hrem]
  refine ⟨rv, ?_⟩
  have hsub' : |(subFT f p).V - (f.toInt - p.V)| * 2 ^ 159 ≤ (3 * 2 ^ 53 + 13) * |f.toInt - p.V| := by
    have := abs_nonneg (f.toInt - p.V)
    linarith
  have hF0 : f.toInt ≠ 0 := fun h0 => by
    have := hA.1
    rw [h0] at this
    norm_num at this
  have := rem_budget (c := 7) (by norm_num) (by norm_num) hmul' n2 (resid_le hF0 n1 n3) hsub'
  linarith

/-! ## 4. `x ± 1.0` on an integer-valued pair is exact -/

/-- the value returned by the closing Fast2Sum of DWPlusFP (the first half of `F64.dwplusfp_tail`) -/
theorem dwplusfp_tail_V {sh v : F64} {xh xl f : ℤ}
    (hsh : IsVal sh (rnI (xh + f))) (hv : IsVal v (rnI (xl + (xh + f - rnI (xh + f)))))
    (hwsh : sh.WF) (hwv : v.WF)
    (hxh : RepI xh) (hf : RepI f) (hfix : xh = rnI (xh + xl))
    (bx : |xh| < 2 ^ 2095) (bf : |f| < 2 ^ 2095) :
    (arithmetic.fast_two_sum sh v).V = rnI (xh + f) + rnI (xl + (xh + f - rnI (xh + f))) := by
  have hl := half_ulp_of_fix hfix
  have hxl_le := abs_lo_le_of_fix hfix
  have hsl : |xh + f - rnI (xh + f)| ≤ |f| := abs_add_err_le_right hxh
  have hs_le : |rnI (xh + f)| ≤ 2 ^ 2096 := by
    have := abs_rnI_le (v := xh + f) (F64.repI_two_pow 2096)
      (by rw [abs_two_pow, two_pow_2096]; have := abs_add_le xh f; omega)
    rwa [abs_two_pow] at this
  have hv_le : |rnI (xl + (xh + f - rnI (xh + f)))| ≤ 2 ^ 2096 := by
    have := abs_rnI_le (v := xl + (xh + f - rnI (xh + f))) (F64.repI_two_pow 2096)
      (by rw [abs_two_pow, two_pow_2096]
          have := abs_add_le xl (xh + f - rnI (xh + f)); omega)
    rwa [abs_two_pow] at this
  have hov : rn53 (sh.toInt + v.toInt).natAbs ≤ maxFin := by
    rw [hsh.2, hv.2]
    refine Nat.le_trans (rn53_le_pow (k := 2097) ?_) two_pow_2097_le_maxFin
    apply natAbs_le_of_abs_le
    rw [natCast_two_pow_2097]
    rw [two_pow_2096] at hs_le hv_le
    have := abs_add_le (rnI (xh + f)) (rnI (xl + (xh + f - rnI (xh + f))))
    omega
  have key : (arithmetic.fast_two_sum sh v).V = sh.toInt + v.toInt := by
    by_cases hs0 : rnI (xh + f) = 0
    · exact (fast_two_sum_spec_of_dvd hsh.1 hv.1 hwsh hwv
        (by rw [hsh.2, hs0]; exact dvd_zero _) hov).2.1
    · have hp := dwplusfp_pre hxh hf hl hs0
      have := abs_rnI_le (repI_rnI (xh + f)) hp
      exact (fast_two_sum_spec hsh.1 hv.1 hwsh hwv (by rw [hsh.2, hv.2]; exact this) hov).2.1
  rw [key, hsh.2, hv.2]

/-- `TwoFloat − f64` preserves divisibility of the words by a power of two -/
theorem sub_tf_dvd {x : TwoFloat} {f : F64} {k : ℕ} (hv : x.Valid) (hw : x.WF)
    (hff : f.is_finite = true) (hwf : f.WF)
    (bx : x.hi.toInt.natAbs < 2 ^ 2095) (bf : f.toInt.natAbs < 2 ^ 2095)
    (d1 : (2 : ℤ) ^ k ∣ x.hi.toInt) (d2 : (2 : ℤ) ^ k ∣ x.lo.toInt) (d3 : (2 : ℤ) ^ k ∣ f.toInt) :
    (2 : ℤ) ^ k ∣ (arithmetic.impl_Sub_rf64_for_rTwoFloat.sub x f).V := by
  rw [sub_tf_eq]
  have hA := hw.1.two_mul_abs_le (lt_2097_of_lt_2095 bx)
  have hB := hwf.two_mul_abs_le (lt_2097_of_lt_2095 bf)
  have hB' : 2 * |-f.toInt| ≤ (maxFin : ℤ) := by rwa [abs_neg]
  obtain ⟨wh, wl⟩ := new_sub_words hv.1 hff hw.1 hwf hA hB
  rw [Int.sub_eq_add_neg] at wh wl
  have vv := (IsVal.of_finite hv.2.1).add wl (dwplusfp_mid_bound hw.1.repI hv.rnI_eq hA hB')
  rw [dwplusfp_tail_V wh vv (new_sub_WF _ _).1 (add_WF _ _) hw.1.repI hwf.repI.neg hv.rnI_eq
    (natAbs_lt_to_abs bx) (by rw [abs_neg]; exact natAbs_lt_to_abs bf)]
  have d3' : (2 : ℤ) ^ k ∣ -f.toInt := (dvd_neg).2 d3
  have e1 := rnI_dvd (dvd_add d1 d3')
  exact dvd_add e1 (rnI_dvd (dvd_add d2 (dvd_sub (dvd_add d1 d3') e1)))

/-- `TwoFloat + f64` preserves divisibility of the words by a power of two -/
theorem add_tf_dvd {x : TwoFloat} {f : F64} {k : ℕ} (hv : x.Valid) (hw : x.WF)
    (hff : f.is_finite = true) (hwf : f.WF)
    (bx : x.hi.toInt.natAbs < 2 ^ 2095) (bf : f.toInt.natAbs < 2 ^ 2095)
    (d1 : (2 : ℤ) ^ k ∣ x.hi.toInt) (d2 : (2 : ℤ) ^ k ∣ x.lo.toInt) (d3 : (2 : ℤ) ^ k ∣ f.toInt) :
    (2 : ℤ) ^ k ∣ (arithmetic.impl_Add_rf64_for_rTwoFloat.add x f).V := by
  rw [add_tf_eq]
  have hA := hw.1.two_mul_abs_le (lt_2097_of_lt_2095 bx)
  have hB := hwf.two_mul_abs_le (lt_2097_of_lt_2095 bf)
  obtain ⟨wh, wl⟩ := new_add_words hv.1 hff hw.1 hwf hA hB
  have vv := (IsVal.of_finite hv.2.1).add wl (dwplusfp_mid_bound hw.1.repI hv.rnI_eq hA hB)
  rw [dwplusfp_tail_V wh vv (new_add_WF _ _).1 (add_WF _ _) hw.1.repI hwf.repI hv.rnI_eq
    (natAbs_lt_to_abs bx) (natAbs_lt_to_abs bf)]
  have e1 := rnI_dvd (dvd_add d1 d3)
  exact dvd_add e1 (rnI_dvd (dvd_add d2 (dvd_sub (dvd_add d1 d3) e1)))

/-- the words of a valid pair with an integer value are integer-valued -/
theorem int_words_dvd {t : TwoFloat} {K : ℤ} (tv : t.Valid) (hV : t.V = K * (unit : ℤ)) :
    (2 : ℤ) ^ 1074 ∣ t.hi.toInt ∧ (2 : ℤ) ^ 1074 ∣ t.lo.toInt := by
  have hV' : (2 : ℤ) ^ 1074 ∣ t.V := by rw [hV, C01d.unit_int_eq]; exact Dvd.intro_left _ rfl
  have h1 : (2 : ℤ) ^ 1074 ∣ t.hi.toInt := by rw [tv.hi_toInt]; exact rnI_dvd hV'
  refine ⟨h1, ?_⟩
  have : t.lo.toInt = t.V - t.hi.toInt := by unfold TwoFloat.V; ring
  rw [this]; exact dvd_sub hV' h1

/-- a multiple of `unit` within relative `2^-105` of `J·unit`, `|J| < 2^105`, is `J·unit` -/
theorem eq_of_dvd_of_close {R J : ℤ} (hd : (2 : ℤ) ^ 1074 ∣ R) (hJ : |J| < 2 ^ 105)
    (h : |R - J * (unit : ℤ)| * 2 ^ 105 ≤ |J * (unit : ℤ)|) : R = J * (unit : ℤ) := by
  have hUi := unit_pos_int
  rw [C01d.unit_int_eq] at h hUi
  have hd' : (2 : ℤ) ^ 1074 ∣ R - J * 2 ^ 1074 := dvd_sub hd (Dvd.intro_left _ rfl)
  rw [C01d.unit_int_eq]
  have hlt : |R - J * 2 ^ 1074| < 2 ^ 1074 := by
    rw [abs_mul, abs_of_pos hUi] at h
    have : |J| * 2 ^ 1074 < 2 ^ 105 * 2 ^ 1074 := mul_lt_mul_of_pos_right hJ hUi
    by_contra hc
    push Not at hc
    have : 2 ^ 1074 * 2 ^ 105 ≤ |R - J * 2 ^ 1074| * 2 ^ 105 := mul_le_mul_of_nonneg_right hc (by positivity)
    linarith
  have := Int.eq_zero_of_abs_lt_dvd hd' hlt
  linarith

/-- **`x − 1.0` is exact** for a valid integer-valued pair `x = K`, `|K| ≤ 2^102` -/
theorem int_sub_one_exact {t : TwoFloat} {K : ℤ} (tv : t.Valid) (tw : t.WF) (hV : t.V = K * (unit : ℤ))
    (hK : |K| ≤ 2 ^ 102) :
    (t -. (f64lit 0x3ff0000000000000)).Valid ∧ (t -. (f64lit 0x3ff0000000000000)).V = (K - 1) * (unit : ℤ) := by
  have hUi := unit_pos_int
  obtain ⟨o1, o2⟩ := C01d.one_isVal
  obtain ⟨d1, d2⟩ := int_words_dvd tv hV
  have bf : (f64lit 0x3ff0000000000000).toInt.natAbs < 2 ^ 2095 := by
    rw [o2, Int.natAbs_natCast, F64.unit_eq]; norm_num
  have bx : t.hi.toInt.natAbs < 2 ^ 2095 := by
    apply natAbs_lt_of_abs_lt
    rw [tv.hi_toInt, hV]
    have h1 : |K * (unit : ℤ)| ≤ 2 ^ 1176 := by
      rw [abs_mul_pos_right _ hUi, C01d.unit_int_eq]
      calc |K| * 2 ^ 1074 ≤ 2 ^ 102 * 2 ^ 1074 := mul_le_mul_of_nonneg_right hK (by positivity)
        _ = 2 ^ 1176 := by rw [← pow_add]
    have := abs_rnI_le_pow h1
    linarith
  obtain ⟨rv, hb⟩ := TwoFloat.sub_tf_bound tv tw o1 C01d.one_WF bx bf
  have hd := sub_tf_dvd tv tw o1 C01d.one_WF bx bf d1 d2
    (by rw [o2, C01d.unit_int_eq])
  refine ⟨rv, ?_⟩
  rw [hV, o2] at hb
  have e : K * (unit : ℤ) - (unit : ℤ) = (K - 1) * (unit : ℤ) := by ring
  rw [e] at hb
  have hJ : |K - 1| < 2 ^ 105 := by
    have := abs_sub K 1
    rw [abs_one] at this
    linarith
  exact eq_of_dvd_of_close hd hJ hb

/-- **`x + 1.0` is exact** for a valid integer-valued pair `x = K`, `|K| ≤ 2^102` -/
theorem int_add_one_exact {t : TwoFloat} {K : ℤ} (tv : t.Valid) (tw : t.WF) (hV : t.V = K * (unit : ℤ))
    (hK : |K| ≤ 2 ^ 102) :
    (t +. (f64lit 0x3ff0000000000000)).Valid ∧ (t +. (f64lit 0x3ff0000000000000)).V = (K + 1) * (unit : ℤ) := by
  have hUi := unit_pos_int
  obtain ⟨o1, o2⟩ := C01d.one_isVal
  obtain ⟨d1, d2⟩ := int_words_dvd tv hV
  have bf : (f64lit 0x3ff0000000000000).toInt.natAbs < 2 ^ 2095 := by
    rw [o2, Int.natAbs_natCast, F64.unit_eq]; norm_num
  have bx : t.hi.toInt.natAbs < 2 ^ 2095 := by
    apply natAbs_lt_of_abs_lt
    rw [tv.hi_toInt, hV]
    have h1 : |K * (unit : ℤ)| ≤ 2 ^ 1176 := by
      rw [abs_mul_pos_right _ hUi, C01d.unit_int_eq]
      calc |K| * 2 ^ 1074 ≤ 2 ^ 102 * 2 ^ 1074 := mul_le_mul_of_nonneg_right hK (by positivity)
        _ = 2 ^ 1176 := by rw [← pow_add]
    have := abs_rnI_le_pow h1
    linarith
  obtain ⟨rv, hb⟩ := TwoFloat.add_tf_bound tv tw o1 C01d.one_WF bx bf
  have hd := add_tf_dvd tv tw o1 C01d.one_WF bx bf d1 d2
    (by rw [o2, C01d.unit_int_eq])
  refine ⟨rv, ?_⟩
  rw [hV, o2] at hb
  have e : K * (unit : ℤ) + (unit : ℤ) = (K + 1) * (unit : ℤ) := by ring
  rw [e] at hb
  have hJ : |K + 1| < 2 ^ 105 := by
    have := abs_add_le K 1
    rw [abs_one] at this
    linarith
  exact eq_of_dvd_of_close hd hJ hb

/-! ## 5. `TwoFloat % TwoFloat` once more (with the side facts), `div_euclid`, `rem_euclid` -/

/-- `TwoFloat % TwoFloat`: as `TwoFloat.rem_tt_tolerance`, with the bound relative to `|a|` alone and with the facts
about the integer quotient needed by the Euclidean operations -/
theorem rem_tt_core {a b : TwoFloat} (ha : a.Valid) (hwa : a.WF) (hb : b.Valid) (hwb : b.WF)
    (hA : 2 ^ 624 ≤ a.hi.toInt.natAbs ∧ a.hi.toInt.natAbs ≤ 2 ^ 1524)
    (hB : 2 ^ 624 ≤ b.hi.toInt.natAbs ∧ b.hi.toInt.natAbs ≤ 2 ^ 1524)
    (hR : |a.V| ≤ 2 ^ 100 * |b.V|) :
    ∃ K : ℤ, (TwoFloat.trunc (a /. b)).V = K * (unit : ℤ) ∧
      (TwoFloat.trunc (a /. b)).Valid ∧ (TwoFloat.trunc (a /. b)).WF ∧ |K| ≤ 2 ^ 101 ∧
      (K = a.V.tdiv b.V ∨
        ((K = a.V.tdiv b.V + 1 ∨ K = a.V.tdiv b.V - 1) ∧ ∃ j : ℤ, 2 ^ 102 * |a.V - j * b.V| ≤ |a.V|)) ∧
      2 ^ 102 * |a.V - K * b.V| ≤ 2 ^ 102 * |b.V| + |a.V| ∧
      (a %. b).Valid ∧
      2 ^ 106 * |(a %. b).V - (a.V - K * b.V)| ≤ 11 * |a.V| := by
  have hUi := unit_pos_int
  obtain ⟨qv, qw⟩ := C01d.div_tt_valid a b ha hwa hb hwb hA.1 hA.2 hB.1 hB.2
  have acc := C01d.div_tt_bound a b ha hwa hb hwb hA.1 hA.2 hB.1 hB.2
  obtain ⟨tv, tvalid⟩ := C08.trunc_exact qv qw
  have twf := C08.trunc_WF qw
  have hb0 : b.hi.toInt ≠ 0 := by
    intro h0
    have := hB.1
    rw [h0] at this
    norm_num at this
  have hBV0 : b.V ≠ 0 := fun h => hb0 (hb.V_zero_iff.1 h)
  have hAV0 : a.V ≠ 0 := fun h => by
    have h0 := ha.V_zero_iff.1 h
    have := hA.1
    rw [h0] at this
    norm_num at this
  have hR' : |a.V| ≤ 2 ^ 100 * |b.V| := by
    have := abs_nonneg b.V
    linarith
  have tv' : (TwoFloat.trunc (divTT a b)).V = (divTT a b).V.tdiv (unit : ℤ) * (unit : ℤ) := tv
  obtain ⟨n1, n2, n3⟩ := quot_near hUi hBV0 hR' acc
  generalize (divTT a b).V.tdiv (unit : ℤ) = K at *
  have hK := quot_le hBV0 hR n2
  refine ⟨K, tv', tvalid, twf, hK, n1, n3, ?_⟩
  have hThi := tvalid.hi_toInt
  rw [tv'] at hThi
  have hr := int_hi_mul_range hThi hK hB
  obtain ⟨pv, hmul⟩ := TwoFloat.mul_tt_bound_7u2_partial tvalid twf hb hwb hr
  rw [tv'] at hmul
  have hmul' : 2 ^ 106 * |(arithmetic.impl_Mul_rTwoFloat_for_rTwoFloat.mul (TwoFloat.trunc (divTT a b)) b).V
      - K * b.V| ≤ 7 * |K * b.V| := by
    apply mul_err_descale
    linarith
  generalize hp : arithmetic.impl_Mul_rTwoFloat_for_rTwoFloat.mul (TwoFloat.trunc (divTT a b)) b = p at *
  have pw : p.WF := by rw [← hp]; exact mul_tt_WF _ _
  have hAV := abs_V_le_of_hi ha hA.2
  have hPV : |p.V| ≤ 2 ^ 1528 := prod_abs_le hAV n2 hmul'
  have hPhi := hi_lt_of_abs_V_le pv hPV
  have hAhi : a.hi.toInt.natAbs < 2 ^ 2094 := lt_of_le_of_lt hA.2 (by norm_num)
  obtain ⟨rv, hsub⟩ := TwoFloat.sub_tt_bound ha hwa pv pw hAhi hPhi
  have hrem : (a %. b) = subTT a p := by rw [← hp]; rfl
  rw [hrem]
  refine ⟨rv, ?_⟩
  have := rem_budget (c := 7) (by norm_num) (by norm_num) hmul' n2 (resid_le hAV0 n1 n3) hsub
  linarith

/-! ### pure integer facts about the Euclidean correction -/

/-- a residual in `[0, |B|)` identifies the Euclidean quotient (`Int.ediv`: floor for `B > 0`, ceiling for `B < 0`) -/
theorem ediv_eq_of_resid {A B q : ℤ} (hB : B ≠ 0) (h0 : 0 ≤ A - q * B) (h1 : A - q * B < |B|) : A / B = q := by
  rcases lt_or_gt_of_ne hB with h | h
  · rw [abs_of_neg h] at h1
    exact ((Int.ediv_emod_unique' h).2 ⟨by ring, h0, h1⟩).1
  · rw [abs_of_pos h] at h1
    exact ((Int.ediv_emod_unique h).2 ⟨by ring, h0, h1⟩).1

/-- **a quotient whose residual `A − q·B` is within `2^-102 |A|` of the interval `[0, |B|)` is the Euclidean quotient,
or adjacent to it — and then `A / B` is within relative `2^-102` of an integer** -/
theorem euclid_quot_of_resid {A B q : ℤ} (hB : B ≠ 0) (hR : |A| ≤ 2 ^ 100 * |B|)
    (hL : -|A| ≤ 2 ^ 102 * (A - q * B)) (hU : 2 ^ 102 * (A - q * B - |B|) ≤ |A|) :
    q = A / B ∨ ((q = A / B + 1 ∨ q = A / B - 1) ∧ ∃ j : ℤ, 2 ^ 102 * |A - j * B| ≤ |A|) := by
  have hBpos : 0 < |B| := abs_pos.2 hB
  by_cases h0 : 0 ≤ A - q * B
  · by_cases h1 : A - q * B < |B|
    · exact Or.inl (ediv_eq_of_resid hB h0 h1).symm
    · push Not at h1
      right
      rcases lt_or_gt_of_ne hB with h | h
      · rw [abs_of_neg h] at hR hU h1 hBpos
        have e : A - (q - 1) * B = A - q * B + B := by ring
        have := ediv_eq_of_resid (q := q - 1) hB (by rw [e]; linarith) (by rw [e, abs_of_neg h]; linarith)
        refine ⟨Or.inl (by omega), q - 1, ?_⟩
        rw [e, abs_of_nonneg (by linarith)]; linarith
      · rw [abs_of_pos h] at hR hU h1 hBpos
        have e : A - (q + 1) * B = A - q * B - B := by ring
        have := ediv_eq_of_resid (q := q + 1) hB (by rw [e]; linarith) (by rw [e, abs_of_pos h]; linarith)
        refine ⟨Or.inr (by omega), q + 1, ?_⟩
        rw [e, abs_of_nonneg (by linarith)]; linarith
  · push Not at h0
    right
    rcases lt_or_gt_of_ne hB with h | h
    · rw [abs_of_neg h] at hR hBpos
      have e : A - (q + 1) * B = A - q * B - B := by ring
      have := ediv_eq_of_resid (q := q + 1) hB (by rw [e]; linarith) (by rw [e, abs_of_neg h]; linarith)
      refine ⟨Or.inr (by omega), q, ?_⟩
      rw [abs_of_neg h0]; linarith
    · rw [abs_of_pos h] at hR hBpos
      have e : A - (q - 1) * B = A - q * B + B := by ring
      have := ediv_eq_of_resid (q := q - 1) hB (by rw [e]; linarith) (by rw [e, abs_of_pos h]; linarith)
      refine ⟨Or.inl (by omega), q, ?_⟩
      rw [abs_of_neg h0]; linarith

/-- the residual of the corrected quotient is within `2^-102 |A|` of `[0, |B|)` -/
theorem euclid_resid_bounds {A B K q r : ℤ}
    (he : 2 ^ 106 * |r - (A - K * B)| ≤ 11 * |A|)
    (n3 : 2 ^ 102 * |A - K * B| ≤ 2 ^ 102 * |B| + |A|)
    (hq : (0 ≤ r ∧ q = K) ∨ (r < 0 ∧ 0 < B ∧ q = K - 1) ∨ (r < 0 ∧ B < 0 ∧ q = K + 1)) :
    -|A| ≤ 2 ^ 102 * (A - q * B) ∧ 2 ^ 102 * (A - q * B - |B|) ≤ |A| := by
  have zA := abs_nonneg A
  have e1 := le_abs_self (r - (A - K * B))
  have e2 := neg_abs_le (r - (A - K * B))
  have e3 := le_abs_self (A - K * B)
  have e4 := neg_abs_le (A - K * B)
  rcases hq with ⟨hr, rfl⟩ | ⟨hr, hb, rfl⟩ | ⟨hr, hb, rfl⟩
  · constructor <;> linarith
  · rw [abs_of_pos hb] at n3 ⊢
    have e : A - (K - 1) * B = A - K * B + B := by ring
    constructor <;> linarith
  · rw [abs_of_neg hb] at n3 ⊢
    have e : A - (K + 1) * B = A - K * B - B := by ring
    constructor <;> linarith

/-- the Euclidean remainder `r'` (`r` itself, or `r + |B|` computed with relative error `3u² + 13u³`) against the
residual `ρ` of the corrected quotient -/
theorem euclid_rem_bounds {A B K r r' ρ M : ℤ} (hM1 : |A| ≤ M) (hM2 : |B| ≤ M)
    (he : 2 ^ 106 * |r - (A - K * B)| ≤ 11 * |A|)
    (n3 : 2 ^ 102 * |A - K * B| ≤ 2 ^ 102 * |B| + |A|)
    (h : (0 ≤ r ∧ ρ = A - K * B ∧ r' = r) ∨
      (r < 0 ∧ ρ = A - K * B + |B| ∧ |r' - (r + |B|)| * 2 ^ 159 ≤ (3 * 2 ^ 53 + 13) * abs (r + |B|))) :
    2 ^ 106 * |r' - ρ| ≤ 16 * M ∧ -(31 * M) ≤ 2 ^ 106 * r' ∧ 2 ^ 106 * r' ≤ 2 ^ 106 * |B| + 27 * M := by
  have zA := abs_nonneg A
  have zB := abs_nonneg B
  have e1 := le_abs_self (r - (A - K * B))
  have e2 := neg_abs_le (r - (A - K * B))
  have e3 := le_abs_self (A - K * B)
  have e4 := neg_abs_le (A - K * B)
  rcases h with ⟨hr, rfl, rfl⟩ | ⟨hr, rfl, hadd⟩
  · refine ⟨by linarith, by linarith, by linarith⟩
  · have hs : abs (r + |B|) ≤ M := abs_le.2 ⟨by linarith, by linarith⟩
    have zs := abs_nonneg (r + |B|)
    have d1 := le_abs_self (r' - (r + |B|))
    have d2 := neg_abs_le (r' - (r + |B|))
    have t : |r' - (A - K * B + |B|)| ≤ |r' - (r + |B|)| + |r - (A - K * B)| := by
      have e : r' - (A - K * B + |B|) = (r' - (r + |B|)) + (r - (A - K * B)) := by ring
      rw [e]; exact abs_add_le _ _
    refine ⟨by linarith, by linarith, by linarith⟩

/-! ### the model level -/

/-- `|b|` of a valid non-zero pair: valid, well formed, exact value `|b.V|`, same high-word magnitude -/
theorem abs_facts {b : TwoFloat} (hb : b.Valid) (hwb : b.WF) (hb0 : b.hi.toInt ≠ 0) :
    (TwoFloat.abs b).Valid ∧ (TwoFloat.abs b).WF ∧ (TwoFloat.abs b).V = |b.V| ∧
    (TwoFloat.abs b).hi.toInt.natAbs = b.hi.toInt.natAbs := by
  have hV := C06.abs_exact_partial hb hb0
  rcases C06.abs_eq_or_neg b with h | h
  · rw [h] at hV ⊢; exact ⟨hb, hwb, hV, rfl⟩
  · rw [h] at hV ⊢
    refine ⟨hb.neg hwb.1, neg_WF' hwb, hV, ?_⟩
    show (F64.neg b.hi).toInt.natAbs = _
    rw [toInt_neg, Int.natAbs_neg]

/-- the sign test `x < 0.0` on a valid pair is exact -/
theorem lt_zero_iff {x : TwoFloat} (hx : x.Valid) :
    ROrd.isLt (base.impl_PartialOrd_f64_for_TwoFloat.partial_cmp x (f64lit 0)) = true ↔ x.V < 0 := by
  obtain ⟨z1, z2, z3⟩ := f64lit_zero_facts
  rw [C06.lt_f64_exact hx z1 z2, z3]

/-- the sign test `x > 0.0` on a valid pair is exact -/
theorem gt_zero_iff {x : TwoFloat} (hx : x.Valid) :
    ROrd.isGt (base.impl_PartialOrd_f64_for_TwoFloat.partial_cmp x (f64lit 0)) = true ↔ 0 < x.V := by
  obtain ⟨z1, z2, z3⟩ := f64lit_zero_facts
  rw [C06.gt_f64_exact hx z1 z2, z3]

/-- **`div_euclid` and `rem_euclid` on general valid operands.**  `K = trunc(a / b)` as computed (the exact integer of
`rem_tt_core`), `r = a % b` as computed.
* `div_euclid` returns EXACTLY the integer `q`: `q = K` when `r ≥ 0`, `q = K − 1` when `r < 0 < b`, `q = K + 1` when
  `r < 0`, `b < 0` (the corrections `± 1.0` are exact), a valid pair;
* `rem_euclid` returns `r` itself when `r ≥ 0` and `r + |b|` (one `TwoFloat + TwoFloat`, relative error `3u² + 13u³`)
  when `r < 0`; the two operations take the same branch. -/
theorem euclid_core {a b : TwoFloat} (ha : a.Valid) (hwa : a.WF) (hb : b.Valid) (hwb : b.WF)
    (hA : 2 ^ 624 ≤ a.hi.toInt.natAbs ∧ a.hi.toInt.natAbs ≤ 2 ^ 1524)
    (hB : 2 ^ 624 ≤ b.hi.toInt.natAbs ∧ b.hi.toInt.natAbs ≤ 2 ^ 1524)
    (hR : |a.V| ≤ 2 ^ 100 * |b.V|) :
    ∃ K q : ℤ,
      (K = a.V.tdiv b.V ∨
        ((K = a.V.tdiv b.V + 1 ∨ K = a.V.tdiv b.V - 1) ∧ ∃ j : ℤ, 2 ^ 102 * |a.V - j * b.V| ≤ |a.V|)) ∧
      2 ^ 102 * |a.V - K * b.V| ≤ 2 ^ 102 * |b.V| + |a.V| ∧
      (a %. b).Valid ∧
      2 ^ 106 * |(a %. b).V - (a.V - K * b.V)| ≤ 11 * |a.V| ∧
      (TwoFloat.div_euclid a b).V = q * (unit : ℤ) ∧ (TwoFloat.div_euclid a b).Valid ∧
      (TwoFloat.rem_euclid a b).Valid ∧
      ((0 ≤ (a %. b).V ∧ q = K ∧ TwoFloat.rem_euclid a b = a %. b) ∨
        ((a %. b).V < 0 ∧ ((0 < b.V ∧ q = K - 1) ∨ (b.V < 0 ∧ q = K + 1)) ∧
          TwoFloat.rem_euclid a b = (a %. b) +. TwoFloat.abs b ∧
          |(TwoFloat.rem_euclid a b).V - ((a %. b).V + |b.V|)| * 2 ^ 159
            ≤ (3 * 2 ^ 53 + 13) * abs ((a %. b).V + |b.V|))) := by
  obtain ⟨K, tV, tvalid, twf, hK, n1, n3, rv, he⟩ := rem_tt_core ha hwa hb hwb hA hB hR
  have hK' : |K| ≤ 2 ^ 102 := le_trans hK (by norm_num)
  have hb0 : b.hi.toInt ≠ 0 := by
    intro h0
    have := hB.1
    rw [h0] at this
    norm_num at this
  have hBV0 : b.V ≠ 0 := fun h => hb0 (hb.V_zero_iff.1 h)
  have htest := lt_zero_iff rv
  have hgt := gt_zero_iff hb
  by_cases hr : (a %. b).V < 0
  · have h1 := htest.2 hr
    obtain ⟨av, aw, aV, ahi⟩ := abs_facts hb hwb hb0
    have rw' : (a %. b).WF := sub_tt_WF _ _
    -- magnitudes for the addition
    have hAV := abs_V_le_of_hi ha hA.2
    have hBV := abs_V_le_of_hi hb hB.2
    have hrV : |(a %. b).V| ≤ 2 ^ 1528 := by
      have t := abs_le_add_abs_sub (a %. b).V (a.V - K * b.V)
      have := abs_nonneg a.V
      have := abs_nonneg (a.V - K * b.V)
      have := abs_nonneg ((a %. b).V - (a.V - K * b.V))
      linarith
    have bx := hi_lt_of_abs_V_le rv hrV
    have by' : (TwoFloat.abs b).hi.toInt.natAbs < 2 ^ 2094 := by
      rw [ahi]; exact lt_of_le_of_lt hB.2 (by norm_num)
    obtain ⟨sv, hadd⟩ := TwoFloat.add_tt_bound rv rw' av aw bx by'
    rw [aV] at hadd
    have hre := C19.rem_euclid_of_rem_neg a b h1
    by_cases hpos : 0 < b.V
    · obtain ⟨dv, dV⟩ := int_sub_one_exact tvalid twf tV hK'
      have hde := C19.div_euclid_of_rem_neg_pos a b h1 (hgt.2 hpos)
      refine ⟨K, K - 1, n1, n3, rv, he, ?_, ?_, ?_, Or.inr ⟨hr, Or.inl ⟨hpos, rfl⟩, hre, ?_⟩⟩
      · rw [hde]; exact dV
      · rw [hde]; exact dv
      · rw [hre]; exact sv
      · rw [hre]; exact hadd
    · have hneg : b.V < 0 := lt_of_le_of_ne (not_lt.1 hpos) hBV0
      obtain ⟨dv, dV⟩ := int_add_one_exact tvalid twf tV hK'
      have hde := C19.div_euclid_of_rem_neg_nonpos a b h1 (by rw [← Bool.not_eq_true, hgt]; exact hpos)
      refine ⟨K, K + 1, n1, n3, rv, he, ?_, ?_, ?_, Or.inr ⟨hr, Or.inr ⟨hneg, rfl⟩, hre, ?_⟩⟩
      · rw [hde]; exact dV
      · rw [hde]; exact dv
      · rw [hre]; exact sv
      · rw [hre]; exact hadd
  · have h1 : ROrd.isLt (base.impl_PartialOrd_f64_for_TwoFloat.partial_cmp (a %. b) (f64lit 0)) = false := by
      rw [← Bool.not_eq_true, htest]; exact hr
    have hre := C19.rem_euclid_of_rem_nonneg a b h1
    have hde := C19.div_euclid_of_rem_nonneg a b h1
    refine ⟨K, K, n1, n3, rv, he, ?_, ?_, ?_, Or.inl ⟨not_lt.1 hr, rfl, hre⟩⟩
    · rw [hde]; exact tV
    · rw [hde]; exact tvalid
    · rw [hre]; exact rv

end RemMixed
