/-
Lemmas.PowfTight — sharper constants for `exp`, `ln`, `powf` near the origin / near `x = 1`, and the two missing slivers
of `exp_m1` (statements collected in `TFV/Properties/C14h.lean`).

 §1  word-level facts: products below half the least subnormal round to zero (`rqI_small`, `IsVal.mul_small`,
     `IsVal.fma_small`); `x * (1, ε) = x` word for word when `x.hi·ε` underflows (`mul_tt_near_one`);
     `RN(1 + t) = 1` (`rnI_near_unit`); `m + 1.0 = (1.0, m.hi)` for a tiny valid `m` (`add_tf_one_tiny`).
 §2  `exp_main`: the main branch of `exp` as an equation `exp x = (expm1_quarter z + 1.0) * exp_half k`.
 §3  `mul_rv5`: `TwoFloat * TwoFloat` over `ℝ` with the constant `5u²` of `C04c`.
 §4  the table `exp_half(k)` for `|k| ≤ 6` by evaluation (`1.25u²`; `0.25u²` for `|k| ≤ 2`); `ez_real`.
 §5  `exp_tight`: `exp` for `|x| ≤ 3.2498`: `5.2u²` (`k = 0`, exact final product), `10.46u²` (`|k| ≤ 2`), `11.46u²`.
 §6  `newton_final_real5`: the last Newton step of `ln` with the `5u²` product: `(d + 8.02u²) + 5.02u²·|ln v|`.
 §7  `final_bound5`, `ln_tight`: `ln` for `|ln v| ≤ 1.2`: `18.48u² + 5.02u²·|ln v|` (`13.22u² + …` for `|ln v| ≤ 0.2497`).
 §8  `powf`: `powf_real5` (error propagation, parametrised), `ln_case`/`exp_case` (regimes `LamCase`, `DCase`),
     `powf_tight_gen`, `floor_of_cases`, `powf_floor` (the floor for `|w| ≤ 4.4` or `13.23|w| − 53.9|w·ln v| ≤ 52.5`).
 §9  tiny arguments: `expm1_quarter_tiny`, `exp_tiny` (`exp x = (1.0, ε)` word for word), `exp_m1_tiny`
     (`exp_m1 x = x` exactly for `0 < |x| ≤ 2^-600`).
 §10 below `−600`: `exp_half(k)` for `−1418 ≤ k ≤ −1333` by evaluation (`half_tiny_check`), `exp_coarse_neg`
     (`|exp x| ≤ 2^-850`, valid), `exp_m1_below`.
-/
import TFV.Lemmas.PowfBound
import TFV.Properties.C04c
import TFV.Properties.C04x
import TFV.Properties.C14f
import Mathlib.Tactic.IntervalCases

set_option exponentiation.threshold 4000

namespace PowfTight

open F64 TwoFloat ConstBounds ExpBound LnBound Exp2Bound

/-! ## 1. word-level facts -/

/-- a quotient of magnitude below one half rounds to zero -/
theorem roundQ_small {p q : Nat} (h : 2 * p < q) : roundQ p q = 0 := by
  have hq : 0 < q := by omega
  rw [roundQ_of_lt hq (by
    have : 0 < 2 ^ 53 := Nat.two_pow_pos 53
    calc p < q := by omega
      _ ≤ 2 ^ 53 * q := Nat.le_mul_of_pos_left q this)]
  apply rint_eq_of _ _ _ hq <;> omega

theorem rqI_small {z : Int} {den : Nat} (h : 2 * |z| < (den : Int)) : rqI z den = 0 := by
  have h1 : 2 * z.natAbs < den := by
    have : ((2 * z.natAbs : Nat) : Int) < (den : Int) := by
      push_cast; exact h
    exact_mod_cast this
  unfold rqI
  rw [roundQ_small h1]
  simp

/-- a product of two finite words of magnitude below half the least subnormal is a zero -/
theorem IsVal.mul_small {x y : F64} {v w : Int} (hx : IsVal x v) (hy : IsVal y w)
    (h : 2 * |v * w| < (unit : Int)) : IsVal (F64.mul x y) 0 := by
  have e : rqI (x.toInt * y.toInt) unit = 0 := by rw [hx.2, hy.2]; exact rqI_small h
  have := mul_spec hx.1 hy.1 (by rw [← natAbs_rqI, e]; exact Nat.zero_le _)
  rwa [e] at this

/-- `fma x y z` with `z = 0` and a product of magnitude below half the least subnormal is a zero -/
theorem IsVal.fma_small {x y z : F64} {v w : Int} (hx : IsVal x v) (hy : IsVal y w) (hz : IsVal z 0)
    (h : 2 * |v * w| < (unit : Int)) : IsVal (F64.fma x y z) 0 := by
  have e : rqI (x.toInt * y.toInt + z.toInt * (unit : Int)) unit = 0 := by
    rw [hx.2, hy.2, hz.2, zero_mul, add_zero]; exact rqI_small h
  have := fma_spec hx.1 hy.1 hz.1 (by rw [← natAbs_rqI, e]; exact Nat.zero_le _)
  rwa [e] at this

/-- **`x * (1, ε)` with `|x.hi·ε|` below half the least subnormal returns `x` word for word** (DWTimesDW3: the two
cross products with `ε` underflow to zero, everything else is exact) -/
theorem mul_tt_near_one {x y : TwoFloat} {yl : Int} (hx : x.Valid) (hw : x.WF) (hy : y.IsV (unit : Int) yl)
    (h1 : 2 * |x.hi.toInt * yl| < (unit : Int)) :
    (arithmetic.impl_Mul_rTwoFloat_for_rTwoFloat.mul x y).IsV x.hi.toInt x.lo.toInt := by
  rw [mul_tt_eq]
  have hxv := IsV.of_valid hx
  have hlo := hx.abs_lo_le
  have h2 : 2 * |x.lo.toInt * yl| < (unit : Int) := by
    refine lt_of_le_of_lt ?_ h1
    rw [abs_mul, abs_mul]
    have := mul_le_mul_of_nonneg_right hlo (abs_nonneg yl)
    omega
  have hc := new_mul_isV_exact hxv.1 hy.1 (q := x.hi.toInt) rfl hw.1.repI hw.1.abs_toInt_le
  have h0 : IsVal (F64.mul x.lo y.lo) 0 := IsVal.mul_small hxv.2 hy.2 h2
  have ht1 : IsVal (F64.fma x.hi y.lo (F64.mul x.lo y.lo)) 0 := IsVal.fma_small hxv.1 hy.2 h0 h1
  have hc2 : IsVal (F64.fma x.lo y.hi (F64.fma x.hi y.lo (F64.mul x.lo y.lo))) x.lo.toInt :=
    hxv.2.fma_exact hy.1 ht1 (by rw [zero_mul, add_zero]) hw.2.repI hw.2.abs_toInt_le
  have hc3 : IsVal (F64.add (TwoFloat.new_mul x.hi y.hi).lo
      (F64.fma x.lo y.hi (F64.fma x.hi y.lo (F64.mul x.lo y.lo)))) x.lo.toInt := by
    have := hc.2.add_exact hc2 (by rw [zero_add]; exact hw.2.repI) (by rw [zero_add]; exact hw.2.abs_toInt_le)
    rwa [zero_add] at this
  exact f2s_isV_fixed hc.1 hc3 (new_mul_WF _ _).1 (add_WF _ _) hx.rnI_eq

/-- `RN(1 + t) = 1` for `|t| < 2^-54` (scaled: `|t| < 2^1020`) -/
theorem rnI_near_unit {t : Int} (h : |t| < 2 ^ 1020) : rnI ((unit : Int) + t) = (unit : Int) := by
  obtain ⟨t1, t2⟩ := abs_lt.1 h
  have hU : (unit : Int) = 2 ^ 1074 := by rw [unit_eq]; norm_num
  have hpos : 0 < (unit : Int) + t := by
    rw [hU]
    have : (2:Int)^1020 < 2^1074 := by norm_num
    omega
  obtain ⟨n, hn⟩ := Int.eq_ofNat_of_zero_le hpos.le
  rw [hn, rnI_natCast]
  have hrep : Rep (2 ^ 1074) := rep_two_pow 1074
  have key : rn53 n = 2 ^ 1074 := by
    by_cases ht : 0 ≤ t
    · have b1 : 2 ^ 52 * 2 ^ 1022 ≤ n := by
        have : ((2 ^ 52 * 2 ^ 1022 : Nat) : Int) ≤ (n : Int) := by rw [← hn, hU]; push_cast; norm_num; omega
        exact_mod_cast this
      have b2 : n < 2 ^ 53 * 2 ^ 1022 := by
        have : (n : Int) < ((2 ^ 53 * 2 ^ 1022 : Nat) : Int) := by
          rw [← hn, hU]; push_cast
          have : (2:Int)^1074 + 2 ^ 1020 < 2 ^ 53 * 2 ^ 1022 := by norm_num
          omega
        exact_mod_cast this
      apply rn53_eq_of_abs_lt hrep
      rw [log2_sub_eq b1 b2]
      have e : ((2 ^ 1074 : Nat) : Int) - (n : Int) = -t := by rw [← hn, hU]; push_cast; ring
      rw [e, abs_neg]
      push_cast
      have : (2 : Int) * 2 ^ 1020 < 2 ^ 1022 := by norm_num
      omega
    · have b1 : 2 ^ 52 * 2 ^ 1021 ≤ n := by
        have : ((2 ^ 52 * 2 ^ 1021 : Nat) : Int) ≤ (n : Int) := by
          rw [← hn, hU]; push_cast
          have : (2:Int) ^ 52 * 2 ^ 1021 ≤ 2^1074 - 2 ^ 1020 := by norm_num
          omega
        exact_mod_cast this
      have b2 : n < 2 ^ 53 * 2 ^ 1021 := by
        have : (n : Int) < ((2 ^ 53 * 2 ^ 1021 : Nat) : Int) := by
          rw [← hn, hU]; push_cast
          have : (2:Int)^1074 = 2 ^ 53 * 2 ^ 1021 := by norm_num
          omega
        exact_mod_cast this
      apply rn53_eq_of_abs_lt hrep
      rw [log2_sub_eq b1 b2]
      have e : ((2 ^ 1074 : Nat) : Int) - (n : Int) = -t := by rw [← hn, hU]; push_cast; ring
      rw [e, abs_neg]
      push_cast
      have : (2 : Int) * 2 ^ 1020 = 2 ^ 1021 := by norm_num
      omega
  rw [key, hU]; norm_num

/-- **`m + 1.0` for a valid tiny `m`** (`|m.hi| < 2^-54`): the result is `(1.0, m.hi)` word for word -/
theorem add_tf_one_tiny {m : TwoFloat} {o : F64} (hm : m.Valid) (hw : m.WF) (ho : IsVal o (unit : Int)) (how : o.WF)
    (h : |m.hi.toInt| < 2 ^ 1020) :
    (arithmetic.impl_Add_rf64_for_rTwoFloat.add m o).IsV (unit : Int) m.hi.toInt := by
  rw [add_tf_eq]
  have hmv := IsV.of_valid hm
  have hM : (2 : Int) ^ 1090 ≤ (maxFin : Int) := by exact_mod_cast PF.maxFin_ge
  have hU : (unit : Int) = 2 ^ 1074 := by rw [unit_eq]; norm_num
  have e1 := rnI_near_unit h
  have hA : 2 * |m.hi.toInt| ≤ (maxFin : Int) := by
    have : (2:Int) * 2 ^ 1020 ≤ 2 ^ 1090 := by norm_num
    omega
  have hB : 2 * |o.toInt| ≤ (maxFin : Int) := by
    rw [ho.2, hU, abs_of_pos (by positivity)]
    have : (2:Int) * 2 ^ 1074 ≤ 2 ^ 1090 := by norm_num
    omega
  obtain ⟨n1, n2⟩ := new_add_words hm.1 ho.1 hw.1 how hA hB
  rw [ho.2, add_comm m.hi.toInt, e1] at n1 n2
  rw [show (unit : Int) + m.hi.toInt - (unit : Int) = m.hi.toInt by ring] at n2
  have hv : IsVal (F64.add m.lo (TwoFloat.new_add m.hi o).lo) m.hi.toInt := by
    have hlo := hm.abs_lo_le
    have := hmv.2.add n2 (by
      have := abs_add_le m.lo.toInt m.hi.toInt
      have : (2:Int) * 2 ^ 1020 ≤ 2 ^ 1090 := by norm_num
      omega)
    rwa [add_comm, ← hm.rnI_eq] at this
  have := f2s_isV_of n1 hv (new_add_WF _ _).1 (add_WF _ _) (by rw [e1]; exact abs_unit_le_maxFin)
    (by rw [e1, sub_self]; exact repI_zero) (by rw [e1, sub_self]; exact abs_zero_le_maxFin)
  rwa [e1, add_sub_cancel_left] at this

/-! ## 2. the main branch of `exp` -/

/-- **the main branch of `exp`, structurally**: for a valid `x` with `0 ≠ |x.hi| < 709`,
`exp x = (expm1_quarter(z) + 1.0) * exp_half(k)` with `k = round(2x)`, `z = x − k/2` (one `TwoFloat − f64`) -/
theorem exp_main (x : TwoFloat) (hv : x.Valid) (hw : x.WF)
    (hl : -(709 * (F64.unit : Int)) < x.hi.toInt) (hh : x.hi.toInt < 709 * (F64.unit : Int))
    (h0 : x.hi.toInt ≠ 0) :
    ∃ (k : ℤ) (z : TwoFloat), |k| ≤ 1418 ∧ VW z ∧ z.hi.toInt.natAbs ≤ 2 ^ 1072 ∧
      |rv z - (rv x - (k : ℝ) / 2)| ≤ 1 / 2 ^ 105 * |rv x - (k : ℝ) / 2| ∧
      |rv x - (k : ℝ) / 2| ≤ 2501 / 10000 ∧
      TwoFloat.exp x = arithmetic.impl_Mul_TwoFloat_for_TwoFloat.mul
        (arithmetic.impl_Add_f64_for_TwoFloat.add (TwoFloat.expm1_quarter z) (f64lit 0x3ff0000000000000))
        (explog.exp_half (⟨k⟩ : I32)) := by
  have hU : (0 : ℝ) < 2 ^ 1074 := by positivity
  unfold TwoFloat.exp
  split_ifs with c1 c2 c3 c4
  · exfalso
    rw [PF.rle_eq, PF.EXP_LOWER_val, le_iff_toInt hv.1 rfl] at c1
    have : (fin true (709 * F64.unit)).toInt = -(709 * (F64.unit : Int)) := by
      show -((709 * F64.unit : Nat) : Int) = _; push_cast; rfl
    rw [this] at c1; omega
  · exfalso
    rw [PF.rge_eq', PF.EXP_UPPER_val, ge_iff_toInt hv.1 rfl] at c2
    have : (fin false (709 * F64.unit)).toInt = 709 * (F64.unit : Int) := by
      show ((709 * F64.unit : Nat) : Int) = _; push_cast; rfl
    rw [this] at c2; omega
  · exfalso
    apply h0
    rcases Ident.f64_eq_zero_cases _ c3 with e | e <;> rw [e] <;> rfl
  · exfalso
    have := hv.1
    cases hx : x.hi <;> rw [hx] at c4 this <;> simp_all [F64.is_nan, F64.is_finite]
  · obtain ⟨⟨zf, zb⟩, k, hyf, hyk, hkb⟩ := PF.exp_reduce x hv hw hl hh
    dsimp only
    unfold TwoFloat.hi_m
    rw [PF.cast_f64_i32 hyf hyk (by omega)]
    generalize hy : (TwoFloat.round (arithmetic.impl_Mul_TwoFloat_for_f64.mul (f64lit 0x4000000000000000) x)).hi
      = y at *
    have hdiv : (y /. f64lit 0x4000000000000000) = F64.div y (f64lit 0x4000000000000000) := rfl
    rw [hdiv]
    have htwo : IsVal (f64lit 0x4000000000000000) (2 * (F64.unit : Int)) := by
      rw [PF.lit_two]
      exact ⟨rfl, by show ((2 * F64.unit : Nat) : Int) = _; push_cast; ring⟩
    have hkabs : |k| ≤ 1418 := by rw [← Int.natCast_natAbs]; exact_mod_cast hkb
    have hM : (2 : Int) ^ 1090 ≤ (maxFin : Int) := by exact_mod_cast PF.maxFin_ge
    have hUz : (F64.unit : ℤ) = 2 ^ 1074 := unit_cast_eq
    have hP : (0 : ℤ) < 2 ^ 1073 := by positivity
    have hW : IsVal (F64.div y (f64lit 0x4000000000000000)) (k * 2 ^ 1073) := by
      apply IsVal.div_exact ⟨hyf, hyk⟩ htwo
      · rw [hUz]; positivity
      · rw [hUz]; ring
      · exact PF.repI_small_mul_pow2 _ (by omega)
      · rw [abs_mul, abs_of_pos hP]
        calc |k| * 2 ^ 1073 ≤ 1418 * 2 ^ 1073 := by nlinarith
          _ ≤ 2 ^ 1090 := by norm_num
          _ ≤ _ := hM
    have hWWF : (F64.div y (f64lit 0x4000000000000000)).WF := div_WF _ _
    generalize F64.div y (f64lit 0x4000000000000000) = Wf at *
    have hfvW : fv Wf = (k : ℝ) / 2 := by
      unfold fv; rw [hW.2]; push_cast
      rw [div_eq_div_iff (by positivity) (by norm_num)]
      have : (2 : ℝ) ^ 1074 = 2 ^ 1073 * 2 := by norm_num
      rw [this]; ring
    have hWb : Wf.toInt.natAbs < 2 ^ 2095 := by
      rw [hW.2]
      apply natAbs_lt_of_abs_lt
      rw [abs_mul, abs_of_pos hP]
      calc |k| * 2 ^ 1073 ≤ 1418 * 2 ^ 1073 := by nlinarith
        _ < 2 ^ 2095 := by norm_num
    have hxabs : |rv x| ≤ 2 ^ 1000 := by
      obtain ⟨_, b2⟩ := PowiBound.hi_bounds hv
      have h1 : |x.hi.toInt| ≤ 709 * 2 ^ 1074 := by rw [← hUz]; exact abs_le.2 ⟨by omega, by omega⟩
      have h2 : |x.V| ≤ 710 * 2 ^ 1074 := by
        have hT : (0 : ℤ) < 2 ^ 1074 := by positivity
        generalize (2 : ℤ) ^ 1074 = T at *
        norm_num at b2
        omega
      rw [rv_abs, div_le_iff₀ hU]
      have : ((|x.V| : ℤ) : ℝ) ≤ ((710 * 2 ^ 1074 : ℤ) : ℝ) := by exact_mod_cast h2
      refine le_trans this ?_
      push_cast
      have : (710 : ℝ) ≤ 2 ^ 1000 := by norm_num
      nlinarith
    obtain ⟨zvw, hz⟩ := sub_tf_rv ⟨hv, hw⟩ hW.1 hWWF hxabs hWb
    rw [hfvW] at hz
    generalize arithmetic.impl_Sub_f64_for_TwoFloat.sub x Wf = z at *
    have hzabs : |rv z| ≤ 25001 / 100000 := by
      obtain ⟨_, c2⟩ := PowiBound.hi_bounds zvw.1
      have hzb : |z.hi.toInt| ≤ 2 ^ 1072 := by
        have := abs_le_of_natAbs_le zb; exact_mod_cast this
      have hzV : |z.V| ≤ 2 ^ 1072 + 2 ^ 1020 := by
        have e1 : (2 : ℤ) ^ 1072 = 2 ^ 52 * 2 ^ 1020 := by norm_num
        rw [e1] at hzb ⊢
        generalize (2 : ℤ) ^ 1020 = T at *
        norm_num at c2 ⊢
        omega
      rw [rv_abs, div_le_iff₀ hU]
      have : ((|z.V| : ℤ) : ℝ) ≤ (((2 : ℤ) ^ 1072 + 2 ^ 1020 : ℤ) : ℝ) := by exact_mod_cast hzV
      refine le_trans this ?_
      push_cast
      norm_num
    have hDabs : |rv x - (k : ℝ) / 2| ≤ 2501 / 10000 := by
      have h1 := abs_sub_abs_le_abs_sub (rv x - (k : ℝ) / 2) (rv z)
      rw [abs_sub_comm (rv x - (k : ℝ) / 2) (rv z)] at h1
      have h2 : (1 : ℝ) / 2 ^ 105 * |rv x - (k : ℝ) / 2| ≤ 1 / 1000000 * |rv x - (k : ℝ) / 2| :=
        mul_le_mul_of_nonneg_right (by norm_num) (abs_nonneg _)
      linarith
    exact ⟨k, z, hkabs, zvw, zb, hz, hDabs, rfl⟩

/-! ## 3. the `5u²` product over `ℝ` -/

/-- from a lower bound of the value to a lower bound of the high word (scaled integers) -/
theorem hi_ge_of_rv {t : TwoFloat} (hv : t.Valid) {p : ℕ} (hp : p ≤ 1073) (h : 1 / 2 ^ p ≤ |rv t|) :
    (2 : ℤ) ^ (1073 - p) ≤ |t.hi.toInt| := by
  have hU : (0 : ℝ) < 2 ^ 1074 := by positivity
  have hV : (2 : ℤ) ^ (1074 - p) ≤ |t.V| := by
    rw [rv_abs, le_div_iff₀ hU] at h
    have e : (1 : ℝ) / 2 ^ p * 2 ^ 1074 = 2 ^ (1074 - p) := by
      rw [one_div, inv_mul_eq_div, div_eq_iff (by positivity), ← pow_add]
      congr 1; omega
    rw [e] at h
    exact_mod_cast h
  obtain ⟨_, b2⟩ := PowiBound.hi_bounds hv
  have e2 : (2 : ℤ) ^ (1074 - p) = 2 * 2 ^ (1073 - p) := by
    rw [← pow_succ']; congr 1; omega
  rw [e2] at hV
  have hS : (0 : ℤ) < 2 ^ (1073 - p) := by positivity
  generalize (2 : ℤ) ^ (1073 - p) = S at *
  generalize |t.V| = W at *
  generalize |t.hi.toInt| = H at *
  norm_num at b2 ⊢
  omega

/-- **`TwoFloat * TwoFloat` with the constant `5u²`** (`C04c`), over `ℝ`: both factors of magnitude `≥ 2^-1000`, product
of magnitude in `[2^-890, 2^1019]` -/
theorem mul_rv5 {x y : TwoFloat} (hx : VW x) (hy : VW y)
    (hx1 : 1 / 2 ^ 1000 ≤ |rv x|) (hy1 : 1 / 2 ^ 1000 ≤ |rv y|)
    (hlo : 1 / 2 ^ 890 ≤ |rv x * rv y|) (hhi : |rv x * rv y| ≤ 2 ^ 1019) :
    VW (arithmetic.impl_Mul_TwoFloat_for_TwoFloat.mul x y) ∧
    |rv (arithmetic.impl_Mul_TwoFloat_for_TwoFloat.mul x y) - rv x * rv y| ≤ 5 / 2 ^ 106 * |rv x * rv y| := by
  show VW (arithmetic.impl_Mul_rTwoFloat_for_rTwoFloat.mul x y) ∧
    |rv (arithmetic.impl_Mul_rTwoFloat_for_rTwoFloat.mul x y) - rv x * rv y| ≤ 5 / 2 ^ 106 * |rv x * rv y|
  obtain ⟨bx1, bx2⟩ := PowiBound.hi_bounds hx.1
  obtain ⟨by1, by2⟩ := PowiBound.hi_bounds hy.1
  have hU : (0 : ℝ) < 2 ^ 1074 := by positivity
  have eprod : rv x * rv y = ((x.V * y.V : ℤ) : ℝ) / (2 ^ 1074 * 2 ^ 1074) := by
    unfold rv; push_cast; field_simp
  have hVV : |x.V * y.V| ≤ (2 : ℤ) ^ 3167 := by
    rw [eprod, abs_div, abs_of_pos (by positivity : (0 : ℝ) < 2 ^ 1074 * 2 ^ 1074), div_le_iff₀ (by positivity),
      ← Int.cast_abs] at hhi
    have e : (2 : ℝ) ^ 1019 * (2 ^ 1074 * 2 ^ 1074) = 2 ^ 3167 := by rw [← pow_add, ← pow_add]
    rw [e] at hhi
    exact_mod_cast hhi
  have hVVlo : (2 : ℤ) ^ 1258 ≤ |x.V * y.V| := by
    rw [eprod, abs_div, abs_of_pos (by positivity : (0 : ℝ) < 2 ^ 1074 * 2 ^ 1074), le_div_iff₀ (by positivity),
      ← Int.cast_abs] at hlo
    have e : (1 : ℝ) / 2 ^ 890 * (2 ^ 1074 * 2 ^ 1074) = 2 ^ 1258 := by
      rw [one_div, inv_mul_eq_div, div_eq_iff (by positivity), ← pow_add, ← pow_add]
    rw [e] at hlo
    exact_mod_cast hlo
  have pX := abs_nonneg x.hi.toInt
  have pY := abs_nonneg y.hi.toInt
  have pVx := abs_nonneg x.V
  have pVy := abs_nonneg y.V
  have u1 : (2 ^ 53 * |x.V|) * (2 ^ 53 * |y.V|) ≤ ((2 ^ 53 + 1) * |x.hi.toInt|) * ((2 ^ 53 + 1) * |y.hi.toInt|) :=
    mul_le_mul bx2 by2 (by positivity) (by positivity)
  have u2 : ((2 ^ 53 - 1) * |x.hi.toInt|) * ((2 ^ 53 - 1) * |y.hi.toInt|) ≤ (2 ^ 53 * |x.V|) * (2 ^ 53 * |y.V|) :=
    mul_le_mul bx1 by1 (by positivity) (by positivity)
  have e1 : (2 ^ 53 * |x.V|) * (2 ^ 53 * |y.V|) = 2 ^ 106 * |x.V * y.V| := by rw [abs_mul]; ring
  have e2 : ((2 ^ 53 + 1) * |x.hi.toInt|) * ((2 ^ 53 + 1) * |y.hi.toInt|)
      = (2 ^ 53 + 1) ^ 2 * |x.hi.toInt * y.hi.toInt| := by rw [abs_mul]; ring
  have e3 : ((2 ^ 53 - 1) * |x.hi.toInt|) * ((2 ^ 53 - 1) * |y.hi.toInt|)
      = (2 ^ 53 - 1) ^ 2 * |x.hi.toInt * y.hi.toInt| := by rw [abs_mul]; ring
  rw [e1, e2] at u1
  rw [e1, e3] at u2
  have hbig : (2 : ℤ) ^ 1247 ≤ |x.hi.toInt * y.hi.toInt| := by
    have k : (2 : ℤ) ^ 1258 = 2048 * 2 ^ 1247 := by norm_num
    rw [k] at hVVlo
    have hS : (0 : ℤ) < 2 ^ 1247 := by positivity
    generalize (2 : ℤ) ^ 1247 = S at *
    generalize |x.hi.toInt * y.hi.toInt| = AB at *
    generalize |x.V * y.V| = PR at *
    norm_num at u1 ⊢
    linarith
  have hlt : |x.hi.toInt * y.hi.toInt| < (2 : ℤ) ^ 3169 := by
    have k2 : (2 : ℤ) ^ 3169 = 4 * 2 ^ 3167 := by norm_num
    rw [k2]
    generalize (2 : ℤ) ^ 3167 = S at *
    generalize |x.hi.toInt * y.hi.toInt| = AB at *
    generalize |x.V * y.V| = PR at *
    norm_num at u2 ⊢
    linarith
  have hxh : (2 : ℤ) ^ 53 ≤ |x.hi.toInt| :=
    le_trans (by norm_num) (hi_ge_of_rv hx.1 (p := 1000) (by norm_num) hx1)
  have hyh : (2 : ℤ) ^ 53 ≤ |y.hi.toInt| :=
    le_trans (by norm_num) (hi_ge_of_rv hy.1 (p := 1000) (by norm_num) hy1)
  obtain ⟨hV, hb⟩ := TwoFloat.mul_tt_bound_5u2_wide hx.1 hx.2 hy.1 hy.2 hxh hyh hbig hlt
  refine ⟨⟨hV, TwoFloat.mul_tt_WF x y⟩, ?_⟩
  generalize arithmetic.impl_Mul_rTwoFloat_for_rTwoFloat.mul x y = R at *
  rw [unit_cast_eq] at hb
  have hq : |(R.V : ℝ) * 2 ^ 1074 - x.V * y.V| * 2 ^ 106 ≤ 5 * |(x.V : ℝ) * y.V| := by
    exact_mod_cast hb
  have e4 : rv R - rv x * rv y = ((R.V : ℝ) * 2 ^ 1074 - x.V * y.V) / (2 ^ 1074 * 2 ^ 1074) := by
    unfold rv; field_simp
  have e5 : rv x * rv y = ((x.V : ℝ) * y.V) / (2 ^ 1074 * 2 ^ 1074) := by unfold rv; field_simp
  rw [e4, e5, abs_div, abs_div, abs_of_pos (by positivity : (0 : ℝ) < 2 ^ 1074 * 2 ^ 1074), ← mul_div_assoc,
    div_le_div_iff_of_pos_right (by positivity), div_mul_eq_mul_div, le_div_iff₀ (by positivity)]
  exact hq

/-! ## 4. the table `exp_half(k)`, `|k| ≤ 6`, by evaluation -/

/-- lower/upper rational enclosure of `e^(k/2)` -/
def ehLo (k : ℤ) : ℚ := if 0 ≤ k then hLo ^ k.toNat else mhLo ^ (-k).toNat
def ehHi (k : ℤ) : ℚ := if 0 ≤ k then hHi ^ k.toNat else mhHi ^ (-k).toNat

theorem mhLo_pos : 0 ≤ mhLo := by decide +kernel

theorem eh_encl (k : ℤ) : Encl (Real.exp ((k : ℝ) / 2)) (ehLo k) (ehHi k) := by
  unfold ehLo ehHi
  by_cases hk : 0 ≤ k
  · rw [if_pos hk, if_pos hk]
    obtain ⟨n, rfl⟩ := Int.eq_ofNat_of_zero_le hk
    have e : ((n : ℤ) : ℝ) / 2 = (n : ℝ) * (1 / 2) := by push_cast; ring
    rw [e, Real.exp_nat_mul, Int.toNat_natCast]
    exact exp_half_encl.pow hLo_pos n
  · rw [if_neg hk, if_neg hk]
    obtain ⟨n, hn⟩ := Int.eq_ofNat_of_zero_le (by omega : 0 ≤ -k)
    have e : (k : ℝ) / 2 = (n : ℝ) * (-1 / 2) := by
      have : (k : ℝ) = -((n : ℤ) : ℝ) := by rw [← hn]; push_cast; ring
      rw [this]; push_cast; ring
    rw [e, Real.exp_nat_mul, hn, Int.toNat_natCast]
    exact exp_neg_half_encl.pow mhLo_pos n

/-- the evaluated test: `exp_half(k)` is a valid pair within relative `(num/4)·u²` of the enclosure of `e^(k/2)` -/
def halfErrOK (num : ℕ) (k : ℤ) : Bool :=
  decide ((explog.exp_half (⟨k⟩ : I32)).Valid) && decide ((explog.exp_half (⟨k⟩ : I32)).hi.WF) &&
  decide ((explog.exp_half (⟨k⟩ : I32)).lo.WF) &&
  decide (0 < ehLo k ∧
    PowiBound.val (explog.exp_half (⟨k⟩ : I32)) - ehLo k ≤ ehLo k * (num : ℚ) / (4 * 2 ^ 106) ∧
    ehHi k - PowiBound.val (explog.exp_half (⟨k⟩ : I32)) ≤ ehLo k * (num : ℚ) / (4 * 2 ^ 106))

theorem half_err_6 : (List.range 13).all (fun i => halfErrOK 5 ((i : ℤ) - 6)) = true := by decide +kernel
theorem half_err_2 : (List.range 5).all (fun i => halfErrOK 1 ((i : ℤ) - 2)) = true := by decide +kernel

theorem half_err_of {num : ℕ} {k : ℤ} (h : halfErrOK num k = true) :
    VW (explog.exp_half (⟨k⟩ : I32)) ∧
    |rv (explog.exp_half (⟨k⟩ : I32)) - Real.exp ((k : ℝ) / 2)|
      ≤ (num : ℝ) / 4 / 2 ^ 106 * Real.exp ((k : ℝ) / 2) := by
  unfold halfErrOK at h
  simp only [Bool.and_eq_true, decide_eq_true_eq] at h
  obtain ⟨⟨⟨hv, hw1⟩, hw2⟩, h0, h1, h2⟩ := h
  refine ⟨⟨hv, hw1, hw2⟩, ?_⟩
  obtain ⟨e1, e2⟩ := eh_encl k
  rw [rv_eq_val]
  have h0' : (0 : ℝ) < ((ehLo k : ℚ) : ℝ) := by exact_mod_cast h0
  have h1' := (Rat.cast_le (K := ℝ)).2 h1
  have h2' := (Rat.cast_le (K := ℝ)).2 h2
  push_cast at h1' h2'
  generalize ((PowiBound.val (explog.exp_half (⟨k⟩ : I32)) : ℚ) : ℝ) = w at *
  generalize ((ehLo k : ℚ) : ℝ) = a at *
  generalize ((ehHi k : ℚ) : ℝ) = b at *
  generalize Real.exp ((k : ℝ) / 2) = E at *
  have hn : (0 : ℝ) ≤ (num : ℝ) / 4 / 2 ^ 106 := by positivity
  have h3 : a * (num : ℝ) / (4 * 2 ^ 106) ≤ (num : ℝ) / 4 / 2 ^ 106 * E := by
    have : a * (num : ℝ) / (4 * 2 ^ 106) = (num : ℝ) / 4 / 2 ^ 106 * a := by ring
    rw [this]; exact mul_le_mul_of_nonneg_left e1 hn
  rw [abs_le]
  constructor <;> linarith

theorem int_range_mem {k : ℤ} {m : ℕ} (h : |k| ≤ m) : ∃ i, i ∈ List.range (2 * m + 1) ∧ (i : ℤ) - m = k := by
  obtain ⟨h1, h2⟩ := abs_le.1 h
  refine ⟨(k + m).toNat, List.mem_range.2 ?_, ?_⟩ <;> omega

/-- `|k| ≤ 6`: within `1.25u²` -/
theorem exp_half_err6 {k : ℤ} (hk : |k| ≤ 6) :
    VW (explog.exp_half (⟨k⟩ : I32)) ∧
    |rv (explog.exp_half (⟨k⟩ : I32)) - Real.exp ((k : ℝ) / 2)| ≤ 125 / 100 / 2 ^ 106 * Real.exp ((k : ℝ) / 2) := by
  obtain ⟨i, hi, rfl⟩ := int_range_mem (m := 6) hk
  have := half_err_of (List.all_eq_true.1 half_err_6 i hi)
  norm_num at this ⊢
  exact this

/-- `|k| ≤ 2`: within `0.25u²` -/
theorem exp_half_err2 {k : ℤ} (hk : |k| ≤ 2) :
    VW (explog.exp_half (⟨k⟩ : I32)) ∧
    |rv (explog.exp_half (⟨k⟩ : I32)) - Real.exp ((k : ℝ) / 2)| ≤ 25 / 100 / 2 ^ 106 * Real.exp ((k : ℝ) / 2) := by
  obtain ⟨i, hi, rfl⟩ := int_range_mem (m := 2) hk
  have := half_err_of (List.all_eq_true.1 half_err_2 i hi)
  norm_num at this ⊢
  exact this

/-- the factor `e^D ≈ 1 + expm1_quarter(z)` of `exp` (the first half of `ExpBound.exp_final_real`): within relative
`5.2u²` -/
theorem ez_real {r ez zr D : ℝ} (hD : |D| ≤ 2501 / 10000)
    (hz : |zr - D| ≤ 1 / 2 ^ 105 * |D|)
    (hr : |r - (Real.exp zr - 1)| ≤ 16 / 10 / 2 ^ 106)
    (hez : |ez - (r + 1)| ≤ 1 / 2 ^ 105 * |r + 1|) :
    |ez - Real.exp D| ≤ 52 / 10 / 2 ^ 106 * Real.exp D ∧ 1 / 2 ≤ ez ∧ ez ≤ 2 := by
  have hG := Real.exp_pos D
  obtain ⟨d1, d2⟩ := abs_le.1 hD
  have gup : Real.exp D ≤ 1286 / 1000 := by
    have h1 : Real.exp D ≤ Real.exp (1 / 4) * Real.exp (1 / 10000) := by
      rw [← Real.exp_add]; exact Real.exp_le_exp.2 (by linarith)
    have h3 := (exp_range_quarter (x0 := 1 / 4) (by norm_num [abs_of_pos])).2
    have h4 : Real.exp (1 / 10000) ≤ 1 + 2 * (1 / 10000) := by
      have := Real.abs_exp_sub_one_le (x := 1 / 10000) (by norm_num [abs_of_pos])
      rw [abs_of_pos (by norm_num : (0 : ℝ) < 1 / 10000)] at this
      have := (abs_le.1 this).2
      linarith
    calc Real.exp D ≤ Real.exp (1 / 4) * Real.exp (1 / 10000) := h1
      _ ≤ 1285 / 1000 * (1 + 2 * (1 / 10000)) := mul_le_mul h3 h4 (Real.exp_pos _).le (by norm_num)
      _ ≤ 1286 / 1000 := by norm_num
  have glo : 777 / 1000 ≤ Real.exp D := by
    have h1 : Real.exp (-(1 / 4)) * Real.exp (-(1 / 10000)) ≤ Real.exp D := by
      rw [← Real.exp_add]; exact Real.exp_le_exp.2 (by linarith)
    have h3 := (exp_range_quarter (x0 := -(1 / 4)) (by norm_num [abs_of_pos])).1
    have h4 : 1 - 2 * (1 / 10000) ≤ Real.exp (-(1 / 10000)) := by
      have := Real.abs_exp_sub_one_le (x := -(1 / 10000)) (by norm_num [abs_of_pos])
      rw [abs_neg, abs_of_pos (by norm_num : (0 : ℝ) < 1 / 10000)] at this
      have := (abs_le.1 this).1
      linarith
    calc (777 : ℝ) / 1000 ≤ 778 / 1000 * (1 - 2 * (1 / 10000)) := by norm_num
      _ ≤ Real.exp (-(1 / 4)) * Real.exp (-(1 / 10000)) :=
          mul_le_mul h3 h4 (by norm_num) (Real.exp_pos _).le
      _ ≤ Real.exp D := h1
  have hzd : |zr - D| ≤ 1 / 2 ^ 105 * (2501 / 10000) :=
    le_trans hz (mul_le_mul_of_nonneg_left hD (by positivity))
  have hexpz : |Real.exp zr - Real.exp D| ≤ 102 / 100 / 2 ^ 106 * Real.exp D := by
    have e : Real.exp zr - Real.exp D = Real.exp D * (Real.exp (zr - D) - 1) := by
      rw [mul_sub, mul_one, ← Real.exp_add]; congr 2; ring
    rw [e, abs_mul, abs_of_pos hG, mul_comm]
    refine mul_le_mul_of_nonneg_right ?_ hG.le
    have h1 := Real.abs_exp_sub_one_le (x := zr - D) (le_trans hzd (by norm_num))
    have e2 : 2 * ((1 : ℝ) / 2 ^ 105 * (2501 / 10000)) ≤ 102 / 100 / 2 ^ 106 := by norm_num
    linarith
  have hr1 : |r + 1 - Real.exp D| ≤ 16 / 10 / 2 ^ 106 + 102 / 100 / 2 ^ 106 * Real.exp D := by
    have := abs_add_le (r - (Real.exp zr - 1)) (Real.exp zr - Real.exp D)
    rw [show r - (Real.exp zr - 1) + (Real.exp zr - Real.exp D) = r + 1 - Real.exp D by ring] at this
    linarith
  have hr1abs' : |r + 1| ≤ Real.exp D + 3 / 2 ^ 106 := by
    have := abs_sub_abs_le_abs_sub (r + 1) (Real.exp D)
    rw [abs_of_pos hG] at this
    have h2 : (102 : ℝ) / 100 / 2 ^ 106 * Real.exp D ≤ 102 / 100 / 2 ^ 106 * (1286 / 1000) :=
      mul_le_mul_of_nonneg_left gup (by positivity)
    have e : (16 : ℝ) / 10 / 2 ^ 106 + 102 / 100 / 2 ^ 106 * (1286 / 1000) ≤ 3 / 2 ^ 106 := by norm_num
    linarith
  have hezG : |ez - Real.exp D| ≤ 52 / 10 / 2 ^ 106 * Real.exp D := by
    have h1 := abs_add_le (ez - (r + 1)) (r + 1 - Real.exp D)
    rw [show ez - (r + 1) + (r + 1 - Real.exp D) = ez - Real.exp D by ring] at h1
    have h2 := mul_le_mul_of_nonneg_left hr1abs' (by positivity : (0 : ℝ) ≤ 1 / 2 ^ 105)
    have hconst : (1 : ℝ) / 2 ^ 105 * (3 / 2 ^ 106) + 16 / 10 / 2 ^ 106 ≤ 207 / 100 / 2 ^ 106 * (777 / 1000) := by
      norm_num
    have h3 : (207 : ℝ) / 100 / 2 ^ 106 * (777 / 1000) ≤ 207 / 100 / 2 ^ 106 * Real.exp D :=
      mul_le_mul_of_nonneg_left glo (by positivity)
    have e : (1 : ℝ) / 2 ^ 105 * Real.exp D + 207 / 100 / 2 ^ 106 * Real.exp D + 102 / 100 / 2 ^ 106 * Real.exp D
        = 509 / 100 / 2 ^ 106 * Real.exp D := by ring
    have h4 : (509 : ℝ) / 100 / 2 ^ 106 * Real.exp D ≤ 52 / 10 / 2 ^ 106 * Real.exp D :=
      mul_le_mul_of_nonneg_right (by norm_num) hG.le
    have e5 : (1 : ℝ) / 2 ^ 105 * (Real.exp D + 3 / 2 ^ 106)
        = 1 / 2 ^ 105 * Real.exp D + 1 / 2 ^ 105 * (3 / 2 ^ 106) := by ring
    linarith
  refine ⟨hezG, ?_⟩
  obtain ⟨l1, l2⟩ := abs_le.1 hezG
  have h5 : (52 : ℝ) / 10 / 2 ^ 106 * Real.exp D ≤ 52 / 10 / 2 ^ 106 * (1286 / 1000) :=
    mul_le_mul_of_nonneg_left gup (by positivity)
  have e : (52 : ℝ) / 10 / 2 ^ 106 * (1286 / 1000) ≤ 1 / 10 := by norm_num
  constructor <;> linarith

theorem one_i32_facts : (convert.impl_From_i32_for_TwoFloat.from (1 : I32)).hi.is_finite = true ∧
    (convert.impl_From_i32_for_TwoFloat.from (1 : I32)).lo.is_finite = true ∧
    (convert.impl_From_i32_for_TwoFloat.from (1 : I32)).hi.toInt = (unit : Int) ∧
    (convert.impl_From_i32_for_TwoFloat.from (1 : I32)).lo.toInt = 0 := by decide +kernel

theorem exp_half_zero : explog.exp_half (⟨0⟩ : I32) = convert.impl_From_i32_for_TwoFloat.from (1 : I32) := by
  decide +kernel

/-! ## 5. `exp` for `|x| ≤ 3.2498` with sharp constants -/

/-- `exp(x) = 1` exactly when the high word is a zero -/
theorem exp_zero_hi (x : TwoFloat) (hv : x.Valid) (h0 : x.hi.toInt = 0) :
    TwoFloat.exp x = convert.impl_From_f64_for_TwoFloat.from (f64lit 0x3ff0000000000000) := by
  have hU : (0 : ℤ) < (F64.unit : ℤ) := by rw [unit_cast_eq]; positivity
  unfold TwoFloat.exp
  have hc3 : (x.hi ==. f64lit 0) = true := by
    rw [req_eq, Ident.f64lit_zero]
    exact (F64.eq_zero_iff hv.1).2 h0
  split_ifs with c1 c2
  · exfalso
    rw [PF.rle_eq, PF.EXP_LOWER_val, le_iff_toInt hv.1 rfl] at c1
    have : (fin true (709 * F64.unit)).toInt = -(709 * (F64.unit : Int)) := by
      show -((709 * F64.unit : Nat) : Int) = _; push_cast; rfl
    rw [this] at c1; omega
  · exfalso
    rw [PF.rge_eq', PF.EXP_UPPER_val, ge_iff_toInt hv.1 rfl] at c2
    have : (fin false (709 * F64.unit)).toInt = 709 * (F64.unit : Int) := by
      show ((709 * F64.unit : Nat) : Int) = _; push_cast; rfl
    rw [this] at c2; omega
  · rfl

theorem exp3_le : Real.exp 3 ≤ 27 := by
  have e : (3 : ℝ) = ((3 : ℕ) : ℝ) * 1 := by norm_num
  rw [e, Real.exp_nat_mul]
  calc Real.exp 1 ^ 3 ≤ 3 ^ 3 := pow_le_pow_left₀ (Real.exp_pos 1).le
        (le_trans Real.exp_one_lt_d9.le (by norm_num)) 3
    _ = 27 := by norm_num

/-- `1/27 ≤ e^(k/2) ≤ 27` for `|k| ≤ 6` -/
theorem exp_half_range6 {k : ℤ} (hk : |k| ≤ 6) :
    1 / 27 ≤ Real.exp ((k : ℝ) / 2) ∧ Real.exp ((k : ℝ) / 2) ≤ 27 := by
  obtain ⟨k1, k2⟩ := abs_le.1 hk
  have a1 : (-6 : ℝ) ≤ (k : ℝ) := by exact_mod_cast k1
  have a2 : (k : ℝ) ≤ 6 := by exact_mod_cast k2
  constructor
  · have h1 : Real.exp (-3) ≤ Real.exp ((k : ℝ) / 2) := Real.exp_le_exp.2 (by linarith)
    have h2 : (1 : ℝ) / 27 ≤ Real.exp (-3) := by
      rw [Real.exp_neg, one_div]
      exact inv_anti₀ (Real.exp_pos _) exp3_le
    linarith
  · exact le_trans (Real.exp_le_exp.2 (by linarith)) exp3_le

/-- **`exp` for `|x| ≤ 3.2498`**: `k = round(2x)` has `|k| ≤ 6`; relative error `5.2u²` for `k = 0` (the final product
by `(1, 0)` is exact), `10.46u²` for `|k| ≤ 2`, `11.46u²` for `|k| ≤ 6` (table `exp_half` by evaluation, product `5u²`) -/
theorem exp_tight (x : TwoFloat) (hv : x.Valid) (hw : x.WF) (hx : |rv x| ≤ 32498 / 10000) :
    VW (TwoFloat.exp x) ∧ ∃ k : ℤ, |k| ≤ 6 ∧ |rv x - (k : ℝ) / 2| ≤ 2501 / 10000 ∧
      (k = 0 → |rv (TwoFloat.exp x) - Real.exp (rv x)| ≤ 52 / 10 / 2 ^ 106 * Real.exp (rv x)) ∧
      (|k| ≤ 2 → |rv (TwoFloat.exp x) - Real.exp (rv x)| ≤ 1046 / 100 / 2 ^ 106 * Real.exp (rv x)) ∧
      |rv (TwoFloat.exp x) - Real.exp (rv x)| ≤ 1146 / 100 / 2 ^ 106 * Real.exp (rv x) := by
  have hU : (0 : ℝ) < 2 ^ 1074 := by positivity
  by_cases h0 : x.hi.toInt = 0
  · -- x = 0
    have hl0 : x.lo.toInt = 0 := by
      have := hv.abs_lo_le
      rw [h0, abs_zero] at this
      exact abs_eq_zero.1 (le_antisymm this (abs_nonneg _))
    have hx0 : rv x = 0 := by unfold rv TwoFloat.V; rw [h0, hl0]; simp
    rw [exp_zero_hi x hv h0]
    have h1 : (convert.impl_From_f64_for_TwoFloat.from (f64lit 0x3ff0000000000000)).Valid := by decide +kernel
    have h2 : (convert.impl_From_f64_for_TwoFloat.from (f64lit 0x3ff0000000000000)).WF := by decide +kernel
    have h3 : (convert.impl_From_f64_for_TwoFloat.from (f64lit 0x3ff0000000000000)).V = (2 : ℤ) ^ 1074 := by
      decide +kernel
    have h4 : rv (convert.impl_From_f64_for_TwoFloat.from (f64lit 0x3ff0000000000000)) = 1 := by
      unfold rv; rw [h3]
      simp only [Int.cast_pow, Int.cast_ofNat]
      exact div_self (by positivity : ((2 : ℝ) ^ 1074) ≠ 0)
    refine ⟨⟨h1, h2⟩, 0, by norm_num, by rw [hx0]; norm_num, ?_, ?_, ?_⟩ <;>
    · try intro _
      rw [h4, hx0, Real.exp_zero, sub_self, abs_zero]; positivity
  · -- the main branch
    have hhi : |x.hi.toInt| < 709 * (F64.unit : ℤ) := by
      obtain ⟨b1, _⟩ := PowiBound.hi_bounds hv
      have hV : |x.V| ≤ 4 * 2 ^ 1074 := by
        have h1 : |rv x| ≤ 4 := le_trans hx (by norm_num)
        rw [rv_abs, div_le_iff₀ hU] at h1
        exact_mod_cast h1
      rw [unit_cast_eq]
      have hT : (0 : ℤ) < 2 ^ 1074 := by positivity
      generalize (2 : ℤ) ^ 1074 = T at *
      have : (0 : ℤ) ≤ |x.hi.toInt| := abs_nonneg _
      norm_num at b1
      omega
    obtain ⟨hl, hh⟩ := abs_lt.1 hhi
    obtain ⟨k, z, hk1418, zvw, zb, hz, hD, heq⟩ := exp_main x hv hw (by linarith) hh h0
    rw [heq]
    set D := rv x - (k : ℝ) / 2 with hDdef
    have hk6 : |k| ≤ 6 := by
      obtain ⟨d1, d2⟩ := abs_le.1 hD
      obtain ⟨x1, x2⟩ := abs_le.1 hx
      have a1 : (-7 : ℝ) < (k : ℝ) := by rw [hDdef] at d1 d2; linarith
      have a2 : (k : ℝ) < 7 := by rw [hDdef] at d1 d2; linarith
      have b1 : (-7 : ℤ) < k := by exact_mod_cast a1
      have b2 : k < (7 : ℤ) := by exact_mod_cast a2
      exact abs_le.2 ⟨by omega, by omega⟩
    obtain ⟨rvw, hr, hrabs⟩ := expm1_quarter_bound zvw zb
    obtain ⟨ezvw, hez⟩ := add_one_rv rvw (le_trans hrabs (by norm_num))
    obtain ⟨hezG, ez1, ez2⟩ := ez_real hD hz hr hez
    generalize TwoFloat.expm1_quarter z = r at *
    generalize arithmetic.impl_Add_f64_for_TwoFloat.add r (f64lit 0x3ff0000000000000) = ez at *
    have hG := Real.exp_pos D
    have hY := Real.exp_pos ((k : ℝ) / 2)
    have eprod : Real.exp D * Real.exp ((k : ℝ) / 2) = Real.exp (rv x) := by
      rw [← Real.exp_add, hDdef]; congr 1; ring
    obtain ⟨y1, y2⟩ := exp_half_range6 hk6
    -- the generic estimate with the table error β
    have gen : ∀ β ε : ℝ, 0 ≤ β → β ≤ 125 / 100 / 2 ^ 106 →
        |rv (explog.exp_half (⟨k⟩ : I32)) - Real.exp ((k : ℝ) / 2)| ≤ β * Real.exp ((k : ℝ) / 2) →
        (52 / 10 / 2 ^ 106 + β + 52 / 10 / 2 ^ 106 * β)
          + 5 / 2 ^ 106 * (1 + (52 / 10 / 2 ^ 106 + β + 52 / 10 / 2 ^ 106 * β)) ≤ ε →
        VW (arithmetic.impl_Mul_TwoFloat_for_TwoFloat.mul ez (explog.exp_half (⟨k⟩ : I32))) ∧
        |rv (arithmetic.impl_Mul_TwoFloat_for_TwoFloat.mul ez (explog.exp_half (⟨k⟩ : I32))) - Real.exp (rv x)|
          ≤ ε * Real.exp (rv x) := by
      intro β ε hβ0 hβ1 hey hε
      obtain ⟨eyvw, _⟩ := exp_half_err6 hk6
      generalize explog.exp_half (⟨k⟩ : I32) = ey at *
      have heyr : 1 / 28 ≤ |rv ey| ∧ |rv ey| ≤ 28 := by
        have h1 := abs_sub_abs_le_abs_sub (rv ey) (Real.exp ((k : ℝ) / 2))
        have h2 := abs_sub_abs_le_abs_sub (Real.exp ((k : ℝ) / 2)) (rv ey)
        rw [abs_sub_comm] at h2
        rw [abs_of_pos hY] at h1 h2
        have h3 : β * Real.exp ((k : ℝ) / 2) ≤ 1 / 1000 * Real.exp ((k : ℝ) / 2) :=
          mul_le_mul_of_nonneg_right (le_trans hβ1 (by norm_num)) hY.le
        constructor <;> nlinarith
      have hezabs : |rv ez| = rv ez := abs_of_pos (by linarith)
      have hp1 : |rv ez * rv ey| ≤ 2 ^ 1019 := by
        rw [abs_mul, hezabs]
        calc rv ez * |rv ey| ≤ 2 * 28 := mul_le_mul ez2 heyr.2 (abs_nonneg _) (by norm_num)
          _ ≤ 2 ^ 1019 := by norm_num
      have hp0 : 1 / 2 ^ 890 ≤ |rv ez * rv ey| := by
        rw [abs_mul, hezabs]
        calc (1 : ℝ) / 2 ^ 890 ≤ 1 / 2 * (1 / 28) := by norm_num
          _ ≤ rv ez * |rv ey| := mul_le_mul ez1 heyr.1 (by norm_num) (by linarith)
      obtain ⟨resvw, hres⟩ := mul_rv5 ezvw eyvw (by rw [hezabs]; exact le_trans (by norm_num) ez1)
        (le_trans (by norm_num) heyr.1) hp0 hp1
      refine ⟨resvw, ?_⟩
      have := prod_rel_gen hG hY hezG hey hres (by positivity) (by positivity) hε
      rwa [eprod] at this
    obtain ⟨_, hey6⟩ := exp_half_err6 hk6
    obtain ⟨resvw, b6⟩ := gen (125 / 100 / 2 ^ 106) (1146 / 100 / 2 ^ 106) (by positivity) (le_refl _) hey6
      (by norm_num)
    refine ⟨resvw, k, hk6, hD, ?_, ?_, b6⟩
    · -- k = 0: the product by (1, 0) is exact
      intro hk0
      subst hk0
      rw [exp_half_zero]
      obtain ⟨o1, o2, o3, o4⟩ := one_i32_facts
      obtain ⟨-, -, hVeq, -, -⟩ := C04x.mul_tt_one_right ez _ ezvw.1 ezvw.2 o1 o2 o3 o4
      have hrveq : rv (arithmetic.impl_Mul_TwoFloat_for_TwoFloat.mul ez
          (convert.impl_From_i32_for_TwoFloat.from (1 : I32))) = rv ez := by
        unfold rv
        have : (arithmetic.impl_Mul_TwoFloat_for_TwoFloat.mul ez
          (convert.impl_From_i32_for_TwoFloat.from (1 : I32))).V = ez.V := hVeq
        rw [this]
      rw [hrveq]
      have : D = rv x := by rw [hDdef]; simp
      rw [this] at hezG
      exact hezG
    · intro hk2
      obtain ⟨_, hey2⟩ := exp_half_err2 hk2
      exact (gen (25 / 100 / 2 ^ 106) (1046 / 100 / 2 ^ 106) (by positivity) (by norm_num) hey2 (by norm_num)).2

/-! ## 6. the last Newton step of `ln` with sharp constants -/

/-- `LnBound.prod_near` with the `5u²` product -/
theorem prod_near5 {L e E P d : ℝ}
    (hE : |E - Real.exp (-(L + e))| ≤ d * Real.exp (-(L + e)))
    (hP : |P - Real.exp L * E| ≤ 5 / 2 ^ 106 * |Real.exp L * E|) :
    |P - Real.exp (-e)| ≤ (d + 5 / 2 ^ 106 + 5 / 2 ^ 106 * d) * Real.exp (-e) := by
  have hv := Real.exp_pos L
  have ht := Real.exp_pos (-e)
  have et : Real.exp L * Real.exp (-(L + e)) = Real.exp (-e) := by rw [← Real.exp_add]; congr 1; ring
  have h1 : |Real.exp L * E - Real.exp (-e)| ≤ d * Real.exp (-e) := by
    rw [← et, ← mul_sub, abs_mul, abs_of_pos hv]
    calc Real.exp L * |E - Real.exp (-(L + e))| ≤ Real.exp L * (d * Real.exp (-(L + e))) :=
          mul_le_mul_of_nonneg_left hE hv.le
      _ = d * (Real.exp L * Real.exp (-(L + e))) := by ring
  have h2 : |Real.exp L * E| ≤ (1 + d) * Real.exp (-e) := by
    have := abs_sub_abs_le_abs_sub (Real.exp L * E) (Real.exp (-e))
    rw [abs_of_pos ht] at this
    linarith
  have h3 := abs_add_le (P - Real.exp L * E) (Real.exp L * E - Real.exp (-e))
  rw [show P - Real.exp L * E + (Real.exp L * E - Real.exp (-e)) = P - Real.exp (-e) by ring] at h3
  have h4 := mul_le_mul_of_nonneg_left h2 (by positivity : (0 : ℝ) ≤ 5 / 2 ^ 106)
  linarith

/-- **the last Newton step** `R = (x + v·exp(−x)) − 1` with the `5u²` product: `(d + 8.02u²) + 5.02u²·|L|` -/
theorem newton_final_real5 {L e E P A R d : ℝ} (hL : |L| ≤ 700) (he : |e| ≤ 1 / 2 ^ 70)
    (hd0 : 0 ≤ d) (hd : d ≤ 37 / 2 ^ 106)
    (hE : |E - Real.exp (-(L + e))| ≤ d * Real.exp (-(L + e)))
    (hP : |P - Real.exp L * E| ≤ 5 / 2 ^ 106 * |Real.exp L * E|)
    (hA : |A - (L + e + P)| ≤ cA * |L + e + P|)
    (hR : |R - (A - 1)| ≤ 1 / 2 ^ 105 * |A - 1|) :
    |R - L| ≤ (d + 802 / 100 / 2 ^ 106) + 502 / 100 / 2 ^ 106 * |L| := by
  have ht := Real.exp_pos (-e)
  obtain ⟨g1, g2⟩ := exp_neg_small he (by norm_num)
  have hPt := prod_near5 hE hP
  obtain ⟨t1, t2⟩ := abs_le.1 g2
  have he2 : e ^ 2 ≤ 1 / 2 ^ 140 := by
    have : e ^ 2 = |e| ^ 2 := (sq_abs e).symm
    rw [this]
    calc |e| ^ 2 ≤ (1 / 2 ^ 70) ^ 2 := pow_le_pow_left₀ (abs_nonneg _) he 2
      _ = 1 / 2 ^ 140 := by norm_num
  have hc : (d + 5 / 2 ^ 106 + 5 / 2 ^ 106 * d) * Real.exp (-e) ≤ d + 5 / 2 ^ 106 + 1 / 2 ^ 169 := by
    have h1 : d + 5 / 2 ^ 106 + 5 / 2 ^ 106 * d ≤ d + 5 / 2 ^ 106 + 185 / 2 ^ 212 := by nlinarith
    have h1' : d + 5 / 2 ^ 106 + 5 / 2 ^ 106 * d ≤ 431 / 10 / 2 ^ 106 := by nlinarith
    have h2 : (0 : ℝ) ≤ d + 5 / 2 ^ 106 + 5 / 2 ^ 106 * d := by positivity
    have h3 : (d + 5 / 2 ^ 106 + 5 / 2 ^ 106 * d) * (Real.exp (-e) - 1)
        ≤ (431 / 10 / 2 ^ 106) * (2 * (1 / 2 ^ 70)) :=
      le_trans (mul_le_mul_of_nonneg_left t2 h2) (mul_le_mul_of_nonneg_right h1' (by positivity))
    have h4 : (185 : ℝ) / 2 ^ 212 + (431 / 10 / 2 ^ 106) * (2 * (1 / 2 ^ 70)) ≤ 1 / 2 ^ 169 := by norm_num
    nlinarith
  have hPt' : |P - Real.exp (-e)| ≤ d + 5 / 2 ^ 106 + 1 / 2 ^ 169 := le_trans hPt hc
  obtain ⟨p1, p2⟩ := abs_le.1 hPt'
  obtain ⟨e1, e2⟩ := abs_le.1 he
  have hLa := abs_nonneg L
  obtain ⟨l1, l2⟩ := abs_le.1 (le_refl |L|)
  have hsum : |L + e + P| ≤ |L| + 1 + 1 / 2 ^ 67 := by
    rw [abs_le]
    have : (1 : ℝ) / 2 ^ 70 + 2 * (1 / 2 ^ 70) + (37 / 2 ^ 106 + 5 / 2 ^ 106 + 1 / 2 ^ 169) ≤ 1 / 2 ^ 67 := by norm_num
    constructor <;> linarith
  have hA' : |A - (L + e + P)| ≤ 301 / 100 / 2 ^ 106 * (|L| + 1 + 1 / 2 ^ 67) :=
    le_trans hA (mul_le_mul cA_le' hsum (abs_nonneg _) (by positivity))
  obtain ⟨a1, a2⟩ := abs_le.1 hA'
  obtain ⟨k1, k2⟩ := abs_le.1 g1
  have hQ : |A - 1 - L| ≤ d + 8011 / 1000 / 2 ^ 106 + 301 / 100 / 2 ^ 106 * |L| := by
    rw [abs_le]
    have : (301 : ℝ) / 100 / 2 ^ 106 * (1 + 1 / 2 ^ 67) + 1 / 2 ^ 140 + 5 / 2 ^ 106 + 1 / 2 ^ 169
        ≤ 8011 / 1000 / 2 ^ 106 := by norm_num
    constructor <;> nlinarith
  obtain ⟨q1, q2⟩ := abs_le.1 hQ
  have hA1 : |A - 1| ≤ |L| + 1 / 2 ^ 90 := by
    rw [abs_le]
    have h700 : (301 : ℝ) / 100 / 2 ^ 106 * |L| ≤ 301 / 100 / 2 ^ 106 * 700 :=
      mul_le_mul_of_nonneg_left hL (by positivity)
    have : (37 : ℝ) / 2 ^ 106 + 8011 / 1000 / 2 ^ 106 + 301 / 100 / 2 ^ 106 * 700 ≤ 1 / 2 ^ 90 := by norm_num
    constructor <;> linarith
  have hR' : |R - (A - 1)| ≤ 1 / 2 ^ 105 * (|L| + 1 / 2 ^ 90) :=
    le_trans hR (mul_le_mul_of_nonneg_left hA1 (by positivity))
  obtain ⟨r1, r2⟩ := abs_le.1 hR'
  have fin : (1 : ℝ) / 2 ^ 105 * (|L| + 1 / 2 ^ 90) + (8011 / 1000 / 2 ^ 106 + 301 / 100 / 2 ^ 106 * |L|)
      ≤ 802 / 100 / 2 ^ 106 + 502 / 100 / 2 ^ 106 * |L| := by
    have h1 : (1 : ℝ) / 2 ^ 105 = 2 / 2 ^ 106 := by norm_num
    rw [h1]
    nlinarith
  rw [abs_le]
  constructor <;> linarith

/-! ## 7. `ln` near `1` -/

theorem exp13_le : Real.exp (13 / 10) ≤ 4 := by
  have h1 : Real.exp (13 / 10) ≤ Real.exp 1 * Real.exp (3 / 10) := by
    rw [← Real.exp_add]; exact Real.exp_le_exp.2 (by norm_num)
  have h2 : Real.exp (3 / 10 : ℝ) ≤ 139 / 100 := by
    have := Real.abs_exp_sub_one_sub_id_le (x := 3 / 10) (by norm_num [abs_of_pos])
    have := (abs_le.1 this).2
    norm_num at this ⊢
    linarith
  have h3 := Real.exp_one_lt_d9.le
  calc Real.exp (13 / 10) ≤ Real.exp 1 * Real.exp (3 / 10) := h1
    _ ≤ 2.7182818286 * (139 / 100) := mul_le_mul h3 h2 (Real.exp_pos _).le (by norm_num)
    _ ≤ 4 := by norm_num

/-- **the last Newton step of `ln`** for `|ln v| ≤ 1.2`, `|x − ln v| ≤ 2^-70`: error at most `18.48u² + 5.02u²·|ln v|`,
and `13.22u² + 5.02u²·|ln v|` when `|ln v| ≤ 0.2497` -/
theorem final_bound5 {v x : TwoFloat} (hv : VW v) (hx : VW x) (hpos : 0 < rv v)
    (hL : |Real.log (rv v)| ≤ 12 / 10)
    (he : |rv x - Real.log (rv v)| ≤ 1 / 2 ^ 70) :
    VW (arithmetic.impl_Sub_f64_for_TwoFloat.sub (arithmetic.impl_Add_TwoFloat_for_TwoFloat.add x
      (arithmetic.impl_Mul_TwoFloat_for_TwoFloat.mul v (TwoFloat.exp (arithmetic.impl_Neg_for_TwoFloat.neg x))))
      (f64lit 0x3ff0000000000000)) ∧
    |rv (arithmetic.impl_Sub_f64_for_TwoFloat.sub (arithmetic.impl_Add_TwoFloat_for_TwoFloat.add x
      (arithmetic.impl_Mul_TwoFloat_for_TwoFloat.mul v (TwoFloat.exp (arithmetic.impl_Neg_for_TwoFloat.neg x))))
      (f64lit 0x3ff0000000000000)) - Real.log (rv v)|
      ≤ 1848 / 100 / 2 ^ 106 + 502 / 100 / 2 ^ 106 * |Real.log (rv v)| ∧
    (|Real.log (rv v)| ≤ 2497 / 10000 →
      |rv (arithmetic.impl_Sub_f64_for_TwoFloat.sub (arithmetic.impl_Add_TwoFloat_for_TwoFloat.add x
        (arithmetic.impl_Mul_TwoFloat_for_TwoFloat.mul v (TwoFloat.exp (arithmetic.impl_Neg_for_TwoFloat.neg x))))
        (f64lit 0x3ff0000000000000)) - Real.log (rv v)|
        ≤ 1322 / 100 / 2 ^ 106 + 502 / 100 / 2 ^ 106 * |Real.log (rv v)|) := by
  set L := Real.log (rv v) with hLdef
  obtain ⟨e1, e2⟩ := abs_le.1 he
  obtain ⟨l1, l2⟩ := abs_le.1 hL
  have h70 : (1 : ℝ) / 2 ^ 70 ≤ 1 / 10000 := by norm_num
  have hN := VW_neg hx
  have hNr := rv_neg x
  have hxabs' : |rv x| ≤ 12001 / 10000 := abs_le.2 ⟨by linarith, by linarith⟩
  obtain ⟨hE, k, hk6, hkD, hk0, hk2, -⟩ := exp_tight (arithmetic.impl_Neg_for_TwoFloat.neg x) hN.1 hN.2
    (by rw [hNr, abs_neg]; exact le_trans hxabs' (by norm_num))
  rw [hNr] at hkD hk0 hk2
  -- the reduction index
  obtain ⟨d1, d2⟩ := abs_le.1 hkD
  have hkle2 : |k| ≤ 2 := by
    obtain ⟨x1, x2⟩ := abs_le.1 hxabs'
    have a1 : (-3 : ℝ) < (k : ℝ) := by linarith
    have a2 : (k : ℝ) < 3 := by linarith
    have b1 : (-3 : ℤ) < k := by exact_mod_cast a1
    have b2 : k < (3 : ℤ) := by exact_mod_cast a2
    exact abs_le.2 ⟨by omega, by omega⟩
  have hE2 := hk2 hkle2
  have hk0' : |L| ≤ 2497 / 10000 → k = 0 := by
    intro hs
    obtain ⟨s1, s2⟩ := abs_le.1 hs
    have a1 : (-1 : ℝ) < (k : ℝ) := by linarith
    have a2 : (k : ℝ) < 1 := by linarith
    have b1 : (-1 : ℤ) < k := by exact_mod_cast a1
    have b2 : k < (1 : ℤ) := by exact_mod_cast a2
    omega
  generalize TwoFloat.exp (arithmetic.impl_Neg_for_TwoFloat.neg x) = Ex at *
  have eqx : -(L + (rv x - L)) = -rv x := by ring
  have hexpL : Real.exp L = rv v := Real.exp_log hpos
  -- range of the exact product
  have hEb2 : |rv Ex - Real.exp (-(L + (rv x - L)))| ≤ 1046 / 100 / 2 ^ 106 * Real.exp (-(L + (rv x - L))) := by
    rw [eqx]; exact hE2
  obtain ⟨r1, r2⟩ := prod_range (le_trans he (by norm_num)) (by norm_num) hEb2
  rw [hexpL] at r1 r2
  have habs : |rv v * rv Ex| = rv v * rv Ex := abs_of_pos (by linarith)
  have hvlo : 1 / 4 ≤ rv v := by
    have h1 : Real.exp (-(13 / 10)) ≤ Real.exp L := Real.exp_le_exp.2 (by linarith)
    have h2 : (1 : ℝ) / 4 ≤ Real.exp (-(13 / 10)) := by
      rw [Real.exp_neg, one_div]; exact inv_anti₀ (Real.exp_pos _) exp13_le
    rw [hexpL] at h1; linarith
  have hvhi : rv v ≤ 4 := by
    have h1 : Real.exp L ≤ Real.exp (13 / 10) := Real.exp_le_exp.2 (by linarith)
    rw [hexpL] at h1; linarith [exp13_le]
  have hExpos : 0 < rv Ex := by
    by_contra hc
    have : rv v * rv Ex ≤ 0 := mul_nonpos_of_nonneg_of_nonpos hpos.le (not_lt.1 hc)
    linarith
  have hExlo : 1 / 8 ≤ rv Ex := by nlinarith
  obtain ⟨hP, hPb⟩ := mul_rv5 hv hE (by rw [abs_of_pos hpos]; exact le_trans (by norm_num) hvlo)
    (by rw [abs_of_pos hExpos]; exact le_trans (by norm_num) hExlo)
    (by rw [habs]; exact le_trans (by norm_num) r1) (by rw [habs]; exact le_trans r2 (by norm_num))
  have hP4 : |rv (arithmetic.impl_Mul_TwoFloat_for_TwoFloat.mul v Ex)| ≤ 4 := by
    rw [habs] at hPb
    obtain ⟨p1, p2⟩ := abs_le.1 hPb
    rw [abs_le]
    constructor <;> nlinarith
  generalize arithmetic.impl_Mul_TwoFloat_for_TwoFloat.mul v Ex = P at *
  have hLabs : |L| ≤ 700 := le_trans hL (by norm_num)
  have hxabs : |rv x| ≤ 2 ^ 1000 := le_trans hxabs' (by norm_num)
  obtain ⟨hA, hAb⟩ := add_rv hx hP hxabs (le_trans hP4 (by norm_num))
  generalize arithmetic.impl_Add_TwoFloat_for_TwoFloat.add x P = A at *
  have hAabs : |rv A| ≤ 2 ^ 1000 := by
    obtain ⟨p1, p2⟩ := abs_le.1 hP4
    obtain ⟨x1, x2⟩ := abs_le.1 hxabs'
    have h1 : |rv x + rv P| ≤ 6 := abs_le.2 ⟨by linarith, by linarith⟩
    have h2 := abs_sub_abs_le_abs_sub (rv A) (rv x + rv P)
    have h3 : cA * |rv x + rv P| ≤ 1 * 6 :=
      mul_le_mul (le_trans cA_le (by norm_num)) h1 (abs_nonneg _) (by norm_num)
    have : |rv A| ≤ 12 := by linarith
    exact le_trans this (by norm_num)
  obtain ⟨hR, hRb⟩ := LnBound.sub_one_rv hA hAabs
  refine ⟨hR, ?_, ?_⟩
  · generalize arithmetic.impl_Sub_f64_for_TwoFloat.sub A (f64lit 0x3ff0000000000000) = R at *
    have e3 : rv x = L + (rv x - L) := by ring
    rw [e3] at hAb
    rw [← hexpL] at hPb
    have key := newton_final_real5 hLabs he (by positivity) (by norm_num) hEb2 hPb hAb hRb
    refine le_trans key (le_of_eq ?_)
    ring
  · intro hs
    have hE0 := hk0 (hk0' hs)
    have hEb0 : |rv Ex - Real.exp (-(L + (rv x - L)))| ≤ 52 / 10 / 2 ^ 106 * Real.exp (-(L + (rv x - L))) := by
      rw [eqx]; exact hE0
    generalize arithmetic.impl_Sub_f64_for_TwoFloat.sub A (f64lit 0x3ff0000000000000) = R at *
    have e3 : rv x = L + (rv x - L) := by ring
    rw [e3] at hAb
    rw [← hexpL] at hPb
    have key := newton_final_real5 hLabs he (by positivity) (by norm_num) hEb0 hPb hAb hRb
    refine le_trans key (le_of_eq ?_)
    ring


/-- `1/4 ≤ v ≤ 4` for `|ln v| ≤ 1.3` -/
theorem range_of_log {v : ℝ} (hpos : 0 < v) (hL : |Real.log v| ≤ 13 / 10) : 1 / 4 ≤ v ∧ v ≤ 4 := by
  obtain ⟨l1, l2⟩ := abs_le.1 hL
  have hexpL : Real.exp (Real.log v) = v := Real.exp_log hpos
  constructor
  · have h1 : Real.exp (-(13 / 10)) ≤ Real.exp (Real.log v) := Real.exp_le_exp.2 (by linarith)
    have h2 : (1 : ℝ) / 4 ≤ Real.exp (-(13 / 10)) := by
      rw [Real.exp_neg, one_div]; exact inv_anti₀ (Real.exp_pos _) exp13_le
    rw [hexpL] at h1; linarith
  · have h1 : Real.exp (Real.log v) ≤ Real.exp (13 / 10) := Real.exp_le_exp.2 (by linarith)
    rw [hexpL] at h1; linarith [exp13_le]

/-- **accuracy of `TwoFloat::ln` near `1`** (`|ln v| ≤ 1.2`, i.e. `0.302 ≤ v ≤ 3.32`): absolute error at most
`18.48u² + 5.02u²·|ln v|`, and `13.22u² + 5.02u²·|ln v|` when `|ln v| ≤ 0.2497` -/
theorem ln_tight (v : TwoFloat) (hvw : VW v) (hpos : 0 < rv v) (hL : |Real.log (rv v)| ≤ 12 / 10) :
    VW (TwoFloat.ln v) ∧
    |rv (TwoFloat.ln v) - Real.log (rv v)| ≤ 1848 / 100 / 2 ^ 106 + 502 / 100 / 2 ^ 106 * |Real.log (rv v)| ∧
    (|Real.log (rv v)| ≤ 2497 / 10000 →
      |rv (TwoFloat.ln v) - Real.log (rv v)| ≤ 1322 / 100 / 2 ^ 106 + 502 / 100 / 2 ^ 106 * |Real.log (rv v)|) := by
  obtain ⟨hv, hw⟩ := hvw
  obtain ⟨hr1, hr2⟩ := range_of_log hpos (le_trans hL (by norm_num))
  -- the high word
  have hVpos : 0 < v.V := PowfBound.rv_pos_iff.1 hpos
  have hhipos : 0 < v.hi.toInt := (hv.hi_pos_iff F64.roundFacts).2 hVpos
  obtain ⟨b1, b2⟩ := PowiBound.hi_bounds hv
  rw [abs_of_pos hVpos, abs_of_pos hhipos] at b1 b2
  have c1 : ((2 : ℝ) ^ 53 - 1) * (v.hi.toInt : ℝ) ≤ 2 ^ 53 * (v.V : ℝ) := by exact_mod_cast b1
  have c2 : (2 : ℝ) ^ 53 * (v.V : ℝ) ≤ (2 ^ 53 + 1) * (v.hi.toInt : ℝ) := by exact_mod_cast b2
  have hp : (0 : ℝ) < 2 ^ 1074 := by positivity
  have eV : (v.V : ℝ) = rv v * 2 ^ 1074 := by unfold rv; field_simp
  have eH : (v.hi.toInt : ℝ) = fv v.hi * 2 ^ 1074 := by unfold fv; field_simp
  rw [eV, eH] at c1 c2
  have d1 : ((2 : ℝ) ^ 53 - 1) * fv v.hi ≤ 2 ^ 53 * rv v := by
    have : (((2 : ℝ) ^ 53 - 1) * fv v.hi) * 2 ^ 1074 ≤ (2 ^ 53 * rv v) * 2 ^ 1074 := by linarith
    exact le_of_mul_le_mul_right this hp
  have d2 : (2 : ℝ) ^ 53 * rv v ≤ (2 ^ 53 + 1) * fv v.hi := by
    have : ((2 : ℝ) ^ 53 * rv v) * 2 ^ 1074 ≤ ((2 ^ 53 + 1) * fv v.hi) * 2 ^ 1074 := by linarith
    exact le_of_mul_le_mul_right this hp
  have hlo8 : 1 / 8 ≤ fv v.hi := by norm_num at d2; linarith
  have hhi8 : fv v.hi ≤ 8 := by norm_num at d1; linarith
  have hlo : 1 / 2 ^ 1000 ≤ fv v.hi := le_trans (by norm_num) hlo8
  have hhi : fv v.hi ≤ 2 ^ 960 - 2 ^ 944 := le_trans hhi8 (by norm_num)
  have hhpos : 0 < fv v.hi := lt_of_lt_of_le (by positivity) hlo
  obtain ⟨_, hnear, _⟩ := log_rv_near_hi hv hhpos
  obtain ⟨l1, l2⟩ := abs_le.1 hL
  have hvhi : rv v ≤ 2 ^ 960 * (1 - 1 / 2 ^ 17) := le_trans hr2 (by norm_num)
  have hL1 : -694 ≤ Real.log (rv v) := by linarith
  have hL2 : Real.log (rv v) ≤ 66543 / 100 := by linarith
  obtain ⟨n1, n2⟩ := abs_le.1 hnear
  cases hone : base.impl_PartialEq_f64_for_TwoFloat.eq v (f64lit 0x3ff0000000000000)
  · -- the generic branch
    have hle : ROrd.isLe (base.impl_PartialOrd_f64_for_TwoFloat.partial_cmp v (f64lit 0)) = false := by
      rw [Ident.f64lit_zero, partial_cmp_tf_exact_of F64.roundFacts hv (WF_zero false) rfl, Bool.eq_false_iff]
      intro hc
      have := ROrd.isLe_ofInts.1 hc
      rw [toInt_zero] at this
      omega
    rw [ln_eq_steps v hone hle (LnBound.not_tiny_of_fv hv.1 hlo)]
    dsimp only
    have hseed := seed_ok hv.1 hw.1 hhpos
    have hLw : (Libm.log v.hi).WF := PF.libm_log_WF hw.1
    have hx0 : VW (convert.impl_From_f64_for_TwoFloat.from (Libm.log v.hi)) ∧
        rv (convert.impl_From_f64_for_TwoFloat.from (Libm.log v.hi)) = fv (Libm.log v.hi) := by
      rw [from_eq]
      obtain ⟨p1, p2, p3⟩ := pair_zero_spec hseed.1 hLw
      refine ⟨⟨p2, p3⟩, ?_⟩
      unfold rv fv; rw [p1]
    generalize convert.impl_From_f64_for_TwoFloat.from (Libm.log v.hi) = x0 at *
    have he0 : |rv x0 - Real.log (rv v)| ≤ 1 / 2 ^ 19 := by
      rw [hx0.2]
      obtain ⟨s1, s2⟩ := abs_le.1 hseed.2
      rw [abs_le]
      have : (1 : ℝ) / 2 ^ 20 + 1 / 2 ^ 52 ≤ 1 / 2 ^ 19 := by norm_num
      constructor <;> linarith
    obtain ⟨hx1, hb1⟩ := step_bound ⟨hv, hw⟩ hx0.1 hpos hL1 hL2 hvhi he0
    generalize arithmetic.impl_AddAssign_TwoFloat_for_TwoFloat.add_assign x0 (corr v x0) = x1 at *
    have he1 : |rv x1 - Real.log (rv v)| ≤ 1 / 2 ^ 37 := by
      refine le_trans hb1 ?_
      have : (rv x0 - Real.log (rv v)) ^ 2 ≤ (1 / 2 ^ 19) ^ 2 := by
        rw [← sq_abs]; exact pow_le_pow_left₀ (abs_nonneg _) he0 2
      have e : ((1 : ℝ) / 2 ^ 19) ^ 2 + 1 / 2 ^ 92 ≤ 1 / 2 ^ 37 := by norm_num
      linarith
    obtain ⟨hx2, hb2⟩ := step_bound ⟨hv, hw⟩ hx1 hpos hL1 hL2 hvhi (le_trans he1 (by norm_num))
    generalize arithmetic.impl_AddAssign_TwoFloat_for_TwoFloat.add_assign x1 (corr v x1) = x2 at *
    have he2 : |rv x2 - Real.log (rv v)| ≤ 1 / 2 ^ 70 := by
      refine le_trans hb2 ?_
      have : (rv x1 - Real.log (rv v)) ^ 2 ≤ (1 / 2 ^ 37) ^ 2 := by
        rw [← sq_abs]; exact pow_le_pow_left₀ (abs_nonneg _) he1 2
      have e : ((1 : ℝ) / 2 ^ 37) ^ 2 + 1 / 2 ^ 92 ≤ 1 / 2 ^ 70 := by norm_num
      linarith
    exact final_bound5 ⟨hv, hw⟩ hx2 hpos hL he2
  · -- `v == 1.0`: the result is exactly `0 = ln 1`
    rw [C15.ln_one v hone, C15.zero_words]
    have hV1 : rv v = 1 := by
      unfold base.impl_PartialEq_f64_for_TwoFloat.eq at hone
      rw [Bool.and_eq_true, req_eq, req_eq, eq_iff_toInt hv.1 C01d.one_isVal.1, Ident.f64lit_zero,
        eq_iff_toInt hv.2.1 rfl, C01d.one_isVal.2, toInt_zero] at hone
      unfold rv TwoFloat.V
      rw [hone.1, hone.2, unit_cast_eq]
      simp only [add_zero, Int.cast_pow, Int.cast_ofNat]
      exact div_self (by positivity : ((2 : ℝ) ^ 1074) ≠ 0)
    have hz : VW (⟨F64.zero, F64.zero⟩ : TwoFloat) := ⟨by decide +kernel, by decide +kernel⟩
    have hz0 : rv (⟨F64.zero, F64.zero⟩ : TwoFloat) = 0 := by
      unfold rv
      rw [show (⟨F64.zero, F64.zero⟩ : TwoFloat).V = 0 by decide +kernel]
      simp
    refine ⟨hz, ?_, ?_⟩
    · rw [hz0, hV1, Real.log_one]; norm_num
    · intro _; rw [hz0, hV1, Real.log_one]; norm_num

/-! ## 8. `powf` -/

/-- the exponent of `powf`: `T ≈ L` (absolute error `λ ≤ 2^-95`), `P ≈ y·T` (`5u²` + underflow term) -/
theorem powf_delta {L T y P lam : ℝ} (hL : |L| ≤ 21) (hy : |y| ≤ 10)
    (hlam : lam ≤ 1 / 2 ^ 95)
    (hT : |T - L| ≤ lam)
    (hP : |P - y * T| ≤ 5 / 2 ^ 106 * |y * T| + 1 / 2 ^ 900) :
    |P - y * L| ≤ |y| * lam + 5 / 2 ^ 106 * |y * L| + 1 / 2 ^ 190 ∧ |P - y * L| ≤ 1 / 2 ^ 91 := by
  have hya := abs_nonneg y
  have hLa := abs_nonneg L
  have hlam0 : 0 ≤ lam := le_trans (abs_nonneg _) hT
  have hyL : |y * L| = |y| * |L| := abs_mul y L
  have hyLb : |y| * |L| ≤ 210 := by nlinarith
  have h1 : |y * T - y * L| ≤ |y| * lam := by
    rw [← mul_sub, abs_mul]; exact mul_le_mul_of_nonneg_left hT hya
  have h2 : |y * T| ≤ |y| * |L| + |y| * lam := by
    have := abs_sub_abs_le_abs_sub (y * T) (y * L)
    rw [hyL] at this
    linarith
  have h3 := abs_add_le (P - y * T) (y * T - y * L)
  rw [show P - y * T + (y * T - y * L) = P - y * L by ring] at h3
  have h4 := mul_le_mul_of_nonneg_left h2 (by positivity : (0 : ℝ) ≤ 5 / 2 ^ 106)
  have h5 : |y| * lam ≤ 10 * (1 / 2 ^ 95) := mul_le_mul hy hlam hlam0 (by norm_num)
  have first : |P - y * L| ≤ |y| * lam + 5 / 2 ^ 106 * |y * L| + 1 / 2 ^ 190 := by
    rw [hyL]
    have : (5 : ℝ) / 2 ^ 106 * (10 * (1 / 2 ^ 95)) + 1 / 2 ^ 900 ≤ 1 / 2 ^ 190 := by norm_num
    nlinarith
  refine ⟨first, le_trans first ?_⟩
  rw [hyL]
  have : (10 : ℝ) * (1 / 2 ^ 95) + 5 / 2 ^ 106 * 210 + 1 / 2 ^ 190 ≤ 1 / 2 ^ 91 := by norm_num
  nlinarith

/-- **error propagation of `exp(y·ln x)`**, parametrised by the absolute error `λ` of the logarithm and the relative
error `d` of the exponential: the relative error of the result against `exp(y·L)` is at most
`d + |y|·λ + 5u²·|y·L| + 0.001u²` -/
theorem powf_real5 {L T y P E d lam : ℝ} (hL : |L| ≤ 21) (hy : |y| ≤ 10)
    (hlam : lam ≤ 1 / 2 ^ 95)
    (hT : |T - L| ≤ lam)
    (hP : |P - y * T| ≤ 5 / 2 ^ 106 * |y * T| + 1 / 2 ^ 900)
    (hd0 : 0 ≤ d) (hd : d ≤ 37 / 2 ^ 106)
    (hE : |E - Real.exp P| ≤ d * Real.exp P) :
    |E - Real.exp (y * L)| ≤ (d + |y| * lam + 5 / 2 ^ 106 * |y * L| + 1 / 1000 / 2 ^ 106) * Real.exp (y * L) := by
  obtain ⟨hδ, hδs⟩ := powf_delta hL hy hlam hT hP
  generalize hδdef : P - y * L = δ at *
  have hPe : P = y * L + δ := by rw [← hδdef]; ring
  have hδ1 : |δ| ≤ 1 := le_trans hδs (by norm_num)
  have hx2 := Real.abs_exp_sub_one_sub_id_le hδ1
  have hδ2 : δ ^ 2 ≤ 1 / 2 ^ 182 := by
    rw [← sq_abs]
    calc |δ| ^ 2 ≤ (1 / 2 ^ 91) ^ 2 := pow_le_pow_left₀ (abs_nonneg _) hδs 2
      _ = 1 / 2 ^ 182 := by norm_num
  have hexpδ : |Real.exp δ - 1| ≤ |δ| + 1 / 2 ^ 182 := by
    have := abs_add_le (Real.exp δ - 1 - δ) δ
    rw [show Real.exp δ - 1 - δ + δ = Real.exp δ - 1 by ring] at this
    linarith
  have hG := Real.exp_pos (y * L)
  rw [hPe, Real.exp_add] at hE
  obtain ⟨g1, g2⟩ := abs_le.1 hexpδ
  have hexpδ2 : Real.exp δ ≤ 1 + 1 / 2 ^ 90 := by
    have : (1 : ℝ) / 2 ^ 91 + 1 / 2 ^ 182 ≤ 1 / 2 ^ 90 := by norm_num
    linarith
  have h5 : |E - Real.exp (y * L)| ≤ d * (Real.exp (y * L) * Real.exp δ)
      + Real.exp (y * L) * (|δ| + 1 / 2 ^ 182) := by
    have h6 := abs_add_le (E - Real.exp (y * L) * Real.exp δ) (Real.exp (y * L) * (Real.exp δ - 1))
    rw [show E - Real.exp (y * L) * Real.exp δ + Real.exp (y * L) * (Real.exp δ - 1) = E - Real.exp (y * L) by ring,
      abs_mul, abs_of_pos hG] at h6
    have := mul_le_mul_of_nonneg_left hexpδ hG.le
    linarith
  refine le_trans h5 ?_
  have h7 : d * (Real.exp (y * L) * Real.exp δ) ≤ d * (Real.exp (y * L) * (1 + 1 / 2 ^ 90)) :=
    mul_le_mul_of_nonneg_left (mul_le_mul_of_nonneg_left hexpδ2 hG.le) hd0
  have h8 : d * (1 / 2 ^ 90) ≤ 37 / 2 ^ 106 * (1 / 2 ^ 90) := mul_le_mul_of_nonneg_right hd (by positivity)
  have k : d * (1 + 1 / 2 ^ 90) + (|δ| + 1 / 2 ^ 182)
      ≤ d + |y| * lam + 5 / 2 ^ 106 * |y * L| + 1 / 1000 / 2 ^ 106 := by
    have : (37 : ℝ) / 2 ^ 106 * (1 / 2 ^ 90) + 1 / 2 ^ 182 + 1 / 2 ^ 190 ≤ 1 / 1000 / 2 ^ 106 := by norm_num
    linarith
  have := mul_le_mul_of_nonneg_right k hG.le
  nlinarith

/-- the three regimes of the proved `ln` bound on `[2^-30, 2^30]` -/
def LamCase (Lv lam : ℝ) : Prop :=
  (|Lv| ≤ 2497 / 10000 ∧ lam = 1322 / 100 / 2 ^ 106 + 502 / 100 / 2 ^ 106 * |Lv|) ∨
  (2497 / 10000 < |Lv| ∧ |Lv| ≤ 12 / 10 ∧ lam = 1848 / 100 / 2 ^ 106 + 502 / 100 / 2 ^ 106 * |Lv|) ∨
  (12 / 10 < |Lv| ∧ lam = 1 / 2 ^ 101 * (1 + |Lv|))

/-- the three regimes of the proved `exp` bound -/
def DCase (c d : ℝ) : Prop :=
  (|c| ≤ 2497 / 10000 ∧ d = 52 / 10 / 2 ^ 106) ∨
  (2497 / 10000 < |c| ∧ |c| ≤ 32497 / 10000 ∧ d = 1146 / 100 / 2 ^ 106) ∨
  (32497 / 10000 < |c| ∧ d = 37 / 2 ^ 106)

theorem LamCase.bounds {Lv lam : ℝ} (h : LamCase Lv lam) (hL : |Lv| ≤ 21) : 0 ≤ lam ∧ lam ≤ 1 / 2 ^ 95 := by
  have hLa := abs_nonneg Lv
  rcases h with ⟨_, rfl⟩ | ⟨_, _, rfl⟩ | ⟨_, rfl⟩
  · constructor
    · positivity
    · have : (1322 : ℝ) / 100 / 2 ^ 106 + 502 / 100 / 2 ^ 106 * 21 ≤ 1 / 2 ^ 95 := by norm_num
      nlinarith
  · constructor
    · positivity
    · have : (1848 : ℝ) / 100 / 2 ^ 106 + 502 / 100 / 2 ^ 106 * 21 ≤ 1 / 2 ^ 95 := by norm_num
      nlinarith
  · constructor
    · positivity
    · have : (1 : ℝ) / 2 ^ 101 * (1 + 21) ≤ 1 / 2 ^ 95 := by norm_num
      nlinarith

theorem DCase.bounds {c d : ℝ} (h : DCase c d) : 0 ≤ d ∧ d ≤ 37 / 2 ^ 106 := by
  rcases h with ⟨_, rfl⟩ | ⟨_, _, rfl⟩ | ⟨_, rfl⟩ <;> constructor <;> norm_num

/-- `ln x` for `2^-30 ≤ x ≤ 2^30` with the regime-dependent absolute error -/
theorem ln_case (x : TwoFloat) (hx : VW x) (hx1 : 1 / 2 ^ 30 ≤ rv x) (hx2 : rv x ≤ 2 ^ 30) :
    ∃ lam : ℝ, LamCase (Real.log (rv x)) lam ∧ VW (TwoFloat.ln x) ∧
      |rv (TwoFloat.ln x) - Real.log (rv x)| ≤ lam := by
  have hpos : 0 < rv x := lt_of_lt_of_le (by positivity) hx1
  by_cases h1 : |Real.log (rv x)| ≤ 12 / 10
  · obtain ⟨vw, b2, b0⟩ := ln_tight x hx hpos h1
    by_cases h0 : |Real.log (rv x)| ≤ 2497 / 10000
    · exact ⟨_, Or.inl ⟨h0, rfl⟩, vw, b0 h0⟩
    · exact ⟨_, Or.inr (Or.inl ⟨not_le.1 h0, h1, rfl⟩), vw, b2⟩
  · obtain ⟨vw, b⟩ := PowfBound.ln_rv hx (le_trans (by norm_num) hx1) (le_trans hx2 (by norm_num))
    exact ⟨_, Or.inr (Or.inr ⟨not_le.1 h1, rfl⟩), vw, b⟩

/-- `exp P` for an argument within `2^-91` of `c`, `|c| ≤ 211`, with the regime-dependent relative error -/
theorem exp_case (P : TwoFloat) (hP : VW P) {c : ℝ} (hc : |rv P - c| ≤ 1 / 2 ^ 91) (hcb : |c| ≤ 211) :
    ∃ d : ℝ, DCase c d ∧ VW (TwoFloat.exp P) ∧
      |rv (TwoFloat.exp P) - Real.exp (rv P)| ≤ d * Real.exp (rv P) := by
  obtain ⟨c1, c2⟩ := abs_le.1 hc
  have h91 : (1 : ℝ) / 2 ^ 91 ≤ 1 / 100000 := by norm_num
  by_cases h3 : |c| ≤ 32497 / 10000
  · obtain ⟨a1, a2⟩ := abs_le.1 h3
    have hPabs : |rv P| ≤ 32498 / 10000 := abs_le.2 ⟨by linarith, by linarith⟩
    obtain ⟨vw, k, _, hkD, hk0, -, b6⟩ := exp_tight P hP.1 hP.2 hPabs
    by_cases h0 : |c| ≤ 2497 / 10000
    · refine ⟨_, Or.inl ⟨h0, rfl⟩, vw, hk0 ?_⟩
      obtain ⟨s1, s2⟩ := abs_le.1 h0
      obtain ⟨d1, d2⟩ := abs_le.1 hkD
      have e1 : (-1 : ℝ) < (k : ℝ) := by linarith
      have e2 : (k : ℝ) < 1 := by linarith
      have f1 : (-1 : ℤ) < k := by exact_mod_cast e1
      have f2 : k < (1 : ℤ) := by exact_mod_cast e2
      omega
    · exact ⟨_, Or.inr (Or.inl ⟨not_le.1 h0, h3, rfl⟩), vw, b6⟩
  · obtain ⟨a1, a2⟩ := abs_le.1 hcb
    have p1 : -212 ≤ rv P := by linarith
    have p2 : rv P ≤ 212 := by linarith
    obtain ⟨vw, d, hb, hd⟩ := LnBound.exp_bound_sharp P hP.1 hP.2 (by linarith) (by linarith)
      (PowfBound.exp_ge_of_ge p1)
    refine ⟨_, Or.inr (Or.inr ⟨not_le.1 h3, rfl⟩), vw, le_trans hb ?_⟩
    apply mul_le_mul_of_nonneg_right _ (Real.exp_pos _).le
    rcases hd with h | ⟨h, -⟩
    · rw [h]; norm_num
    · rw [h]

theorem floor_core {u W Lam dd a b d lam : ℝ} (hu : 0 ≤ u) (hdv : d = dd * u) (hlv : lam = a * u + b * u * Lam)
    (key : dd + W * a + (b + 5) * (W * Lam) + 1 / 1000 ≤ 64 * (1 + W * Lam)) :
    d + W * lam + 5 * u * (W * Lam) + 1 / 1000 * u ≤ 64 * u * (1 + W * Lam) := by
  subst hdv hlv
  have h := mul_le_mul_of_nonneg_left key hu
  have e1 : dd * u + W * (a * u + b * u * Lam) + 5 * u * (W * Lam) + 1 / 1000 * u
      = u * (dd + W * a + (b + 5) * (W * Lam) + 1 / 1000) := by ring
  have e2 : 64 * u * (1 + W * Lam) = u * (64 * (1 + W * Lam)) := by ring
  rw [e1, e2]; exact h

/-- **the floor from the regimes**: with `W = |w| ≤ 10`, `Λ = |ln v|`, `p = W·Λ`, the analysed relative error
`d + W·λ + 5u²·p + 0.001u²` is at most `64u²·(1 + p)` as soon as `W ≤ 4.4` or `13.23·W − 53.9·p ≤ 52.5` -/
theorem floor_of_cases {W Lam d lam Lv c : ℝ} (hW0 : 0 ≤ W) (hW : W ≤ 10) (hLam : Lam = |Lv|)
    (hpc : W * Lam = |c|) (hd : DCase c d) (hl : LamCase Lv lam)
    (hreg : W ≤ 44 / 10 ∨ 1323 / 100 * W - 539 / 10 * (W * Lam) ≤ 525 / 10) :
    d + W * lam + 5 / 2 ^ 106 * (W * Lam) + 1 / 1000 / 2 ^ 106 ≤ 1 / 2 ^ 100 * (1 + W * Lam) := by
  have e100 : (1 : ℝ) / 2 ^ 100 = 64 * (1 / 2 ^ 106) := by norm_num
  have e101 : (1 : ℝ) / 2 ^ 101 = 32 * (1 / 2 ^ 106) := by norm_num
  have hu : (0 : ℝ) < 1 / 2 ^ 106 := by positivity
  have hLam0 : 0 ≤ Lam := by rw [hLam]; exact abs_nonneg _
  have hq0 : 0 ≤ W * Lam := by positivity
  unfold LamCase at hl
  unfold DCase at hd
  rw [← hLam] at hl
  rw [← hpc] at hd
  rw [e100]
  rw [e101] at hl
  have r1 : (52 : ℝ) / 10 / 2 ^ 106 = 52 / 10 * (1 / 2 ^ 106) := by ring
  have r2 : (1146 : ℝ) / 100 / 2 ^ 106 = 1146 / 100 * (1 / 2 ^ 106) := by ring
  have r3 : (37 : ℝ) / 2 ^ 106 = 37 * (1 / 2 ^ 106) := by ring
  have r4 : (1322 : ℝ) / 100 / 2 ^ 106 = 1322 / 100 * (1 / 2 ^ 106) := by ring
  have r5 : (1848 : ℝ) / 100 / 2 ^ 106 = 1848 / 100 * (1 / 2 ^ 106) := by ring
  have r6 : (502 : ℝ) / 100 / 2 ^ 106 = 502 / 100 * (1 / 2 ^ 106) := by ring
  have r7 : (5 : ℝ) / 2 ^ 106 = 5 * (1 / 2 ^ 106) := by ring
  have r8 : (1 : ℝ) / 1000 / 2 ^ 106 = 1 / 1000 * (1 / 2 ^ 106) := by ring
  rw [r1, r2, r3] at hd
  rw [r4, r5, r6] at hl
  rw [r7, r8]
  generalize (1 : ℝ) / 2 ^ 106 = u at *
  rcases hl with ⟨l1, hlv⟩ | ⟨l1, l2, hlv⟩ | ⟨l1, hlv⟩
  · -- |ln v| ≤ 0.2497
    rcases hd with ⟨d1, hdv⟩ | ⟨d1, d2, hdv⟩ | ⟨d1, hdv⟩
    · refine floor_core hu.le hdv hlv ?_
      rcases hreg with h | h <;> linarith
    · refine floor_core hu.le hdv hlv ?_
      rcases hreg with h | h <;> linarith
    · refine floor_core hu.le hdv hlv ?_
      linarith
  · -- 0.2497 < |ln v| ≤ 1.2
    have hqW : 2497 / 10000 * W ≤ W * Lam := by
      rw [mul_comm]; exact mul_le_mul_of_nonneg_left l1.le hW0
    rcases hd with ⟨d1, hdv⟩ | ⟨d1, d2, hdv⟩ | ⟨d1, hdv⟩
    · refine floor_core hu.le hdv hlv ?_
      linarith
    · refine floor_core hu.le hdv hlv ?_
      linarith
    · refine floor_core hu.le hdv hlv ?_
      linarith
  · -- 1.2 < |ln v|
    have hqW : 12 / 10 * W ≤ W * Lam := by
      rw [mul_comm]; exact mul_le_mul_of_nonneg_left l1.le hW0
    have hlv' : lam = 32 * u + 32 * u * Lam := by rw [hlv]; ring
    rcases hd with ⟨d1, hdv⟩ | ⟨d1, d2, hdv⟩ | ⟨d1, hdv⟩
    · refine floor_core hu.le hdv hlv' ?_
      linarith
    · refine floor_core hu.le hdv hlv' ?_
      linarith
    · refine floor_core hu.le hdv hlv' ?_
      linarith

/-- **`powf` for a positive base** with regime-dependent constants: relative error at most
`d + |w|·λ + 5u²·|w·ln v| + 0.001u²`, `λ` the absolute error of `ln` (`LamCase`), `d` the relative error of `exp`
(`DCase`) -/
theorem powf_tight_gen (x y : TwoFloat) (hx : VW x) (hy : VW y) (hx1 : 1 / 2 ^ 30 ≤ rv x) (hx2 : rv x ≤ 2 ^ 30)
    (hyb : |rv y| ≤ 10) :
    VW (TwoFloat.powf x y) ∧ ∃ d lam : ℝ, DCase (rv y * Real.log (rv x)) d ∧ LamCase (Real.log (rv x)) lam ∧
      |rv (TwoFloat.powf x y) - Real.exp (rv y * Real.log (rv x))|
        ≤ (d + |rv y| * lam + 5 / 2 ^ 106 * |rv y * Real.log (rv x)| + 1 / 1000 / 2 ^ 106)
          * Real.exp (rv y * Real.log (rv x)) := by
  have hpos : 0 < rv x := lt_of_lt_of_le (by positivity) hx1
  have hx0 := PowfBound.eq_zero_false_of_pos hx.1 hpos
  have hL := PowfBound.log_range_30 hx1 hx2
  obtain ⟨lam, hlc, hT, hTb⟩ := ln_case x hx hx1 hx2
  obtain ⟨hlam0, hlam95⟩ := hlc.bounds hL
  cases hy0 : base.impl_PartialEq_f64_for_TwoFloat.eq y (f64lit 0x0000000000000000)
  · -- the generic branch
    rw [C14.powf_pos_base x y hx0 hy0 (PowfBound.sign_positive_of_pos hx.1 hpos)]
    rw [show (y *. TwoFloat.ln x) = arithmetic.impl_Mul_TwoFloat_for_TwoFloat.mul y (TwoFloat.ln x) from rfl]
    generalize TwoFloat.ln x = T at *
    have h95 : (1 : ℝ) / 2 ^ 95 ≤ 1 := by norm_num
    have hTabs : |rv T| ≤ 22 := by
      have h1 := abs_sub_abs_le_abs_sub (rv T) (Real.log (rv x))
      linarith
    have hyT : |rv y * rv T| ≤ 220 := by
      rw [abs_mul]
      calc |rv y| * |rv T| ≤ 10 * 22 := mul_le_mul hyb hTabs (abs_nonneg _) (by norm_num)
        _ = 220 := by norm_num
    -- the product
    have hPP : VW (arithmetic.impl_Mul_TwoFloat_for_TwoFloat.mul y T) ∧
        |rv (arithmetic.impl_Mul_TwoFloat_for_TwoFloat.mul y T) - rv y * rv T|
          ≤ 5 / 2 ^ 106 * |rv y * rv T| + 1 / 2 ^ 900 := by
      by_cases hbig : 1 / 2 ^ 890 ≤ |rv y * rv T|
      · have hya := abs_nonneg (rv y)
        have hTa := abs_nonneg (rv T)
        rw [abs_mul] at hbig
        have hy1 : 1 / 2 ^ 1000 ≤ |rv y| := by
          by_contra hc
          have hlt := not_le.1 hc
          have : |rv y| * |rv T| ≤ 1 / 2 ^ 1000 * 22 := mul_le_mul hlt.le hTabs hTa (by positivity)
          have : (1 : ℝ) / 2 ^ 1000 * 22 < 1 / 2 ^ 890 := by norm_num
          linarith
        have hT1 : 1 / 2 ^ 1000 ≤ |rv T| := by
          by_contra hc
          have hlt := not_le.1 hc
          have : |rv y| * |rv T| ≤ 10 * (1 / 2 ^ 1000) := mul_le_mul hyb hlt.le hTa (by norm_num)
          have : (10 : ℝ) * (1 / 2 ^ 1000) < 1 / 2 ^ 890 := by norm_num
          linarith
        obtain ⟨vw, hb⟩ := mul_rv5 hy hT hy1 hT1 (by rw [abs_mul]; exact hbig) (le_trans hyT (by norm_num))
        refine ⟨vw, le_trans hb ?_⟩
        have : (0 : ℝ) ≤ 1 / 2 ^ 900 := by positivity
        linarith
      · obtain ⟨vw, hb⟩ := mul_rv hy hT (le_trans hyT (by norm_num))
        refine ⟨vw, le_trans hb ?_⟩
        have hlt := not_le.1 hbig
        have h1 : (7 : ℝ) / 2 ^ 106 * |rv y * rv T| ≤ 7 / 2 ^ 106 * (1 / 2 ^ 890) :=
          mul_le_mul_of_nonneg_left hlt.le (by positivity)
        have h2 : (7 : ℝ) / 2 ^ 106 * (1 / 2 ^ 890) + 1 / 2 ^ 950 ≤ 1 / 2 ^ 900 := by norm_num
        have h3 : (0 : ℝ) ≤ 5 / 2 ^ 106 * |rv y * rv T| := by positivity
        linarith
    obtain ⟨hP, hPb⟩ := hPP
    generalize arithmetic.impl_Mul_TwoFloat_for_TwoFloat.mul y T = P at *
    obtain ⟨_, hδ⟩ := powf_delta hL hyb hlam95 hTb hPb
    have hcb : |rv y * Real.log (rv x)| ≤ 211 := by
      rw [abs_mul]
      calc |rv y| * |Real.log (rv x)| ≤ 10 * 21 := mul_le_mul hyb hL (abs_nonneg _) (by norm_num)
        _ ≤ 211 := by norm_num
    obtain ⟨d, hdc, hE, hEb⟩ := exp_case P hP hδ hcb
    obtain ⟨hd0, hd37⟩ := hdc.bounds
    exact ⟨hE, d, lam, hdc, hlc, powf_real5 hL hyb hlam95 hTb hPb hd0 hd37 hEb⟩
  · -- y == 0: the result is exactly 1 = v^0
    rw [C14.powf_zero_exponent x y hx0 hy0]
    have hw0 := PowfBound.rv_zero_of_eq_zero hy.1 hy0
    refine ⟨PowfBound.VW_one, 52 / 10 / 2 ^ 106, lam, Or.inl ⟨by rw [hw0]; norm_num, rfl⟩, hlc, ?_⟩
    rw [hw0, PowfBound.rv_one]
    simp
    positivity

/-- **the floor of property C14 for `powf`** on the region `|w| ≤ 4.4` or `13.23·|w| − 53.9·|w·ln v| ≤ 52.5` (in
particular whenever `|ln v| ≥ 0.2455`) -/
theorem powf_floor (x y : TwoFloat) (hx : VW x) (hy : VW y) (hx1 : 1 / 2 ^ 30 ≤ rv x) (hx2 : rv x ≤ 2 ^ 30)
    (hyb : |rv y| ≤ 10)
    (hreg : |rv y| ≤ 44 / 10 ∨ 1323 / 100 * |rv y| - 539 / 10 * |rv y * Real.log (rv x)| ≤ 525 / 10) :
    VW (TwoFloat.powf x y) ∧
    |rv (TwoFloat.powf x y) - Real.exp (rv y * Real.log (rv x))|
      ≤ 1 / 2 ^ 100 * (1 + |rv y * Real.log (rv x)|) * Real.exp (rv y * Real.log (rv x)) := by
  obtain ⟨vw, d, lam, hd, hl, hb⟩ := powf_tight_gen x y hx hy hx1 hx2 hyb
  refine ⟨vw, le_trans hb ?_⟩
  apply mul_le_mul_of_nonneg_right _ (Real.exp_pos _).le
  have e : |rv y * Real.log (rv x)| = |rv y| * |Real.log (rv x)| := abs_mul _ _
  rw [e] at hreg ⊢
  exact floor_of_cases (abs_nonneg _) hyb rfl e.symm hd hl hreg

/-! ## 9. tiny arguments: `expm1_quarter`, `exp`, `exp_m1` -/

/-- magnitude of the high word from the magnitude of the value (scaled integers) -/
theorem hi_le_of_rv {t : TwoFloat} (hv : t.Valid) {p : ℕ} (hp : p ≤ 1074) (h : |rv t| ≤ 1 / 2 ^ p) :
    |t.hi.toInt| ≤ (2 : ℤ) ^ (1075 - p) := by
  have hU : (0 : ℝ) < 2 ^ 1074 := by positivity
  have hV : |t.V| ≤ (2 : ℤ) ^ (1074 - p) := by
    rw [rv_abs, div_le_iff₀ hU] at h
    have e : (1 : ℝ) / 2 ^ p * 2 ^ 1074 = 2 ^ (1074 - p) := by
      rw [one_div, inv_mul_eq_div, div_eq_iff (by positivity), ← pow_add]
      congr 1; omega
    rw [e] at h
    exact_mod_cast h
  obtain ⟨b1, _⟩ := PowiBound.hi_bounds hv
  have e2 : (2 : ℤ) ^ (1075 - p) = 2 * 2 ^ (1074 - p) := by
    rw [← pow_succ']; congr 1; omega
  rw [e2]
  have hS : (0 : ℤ) < 2 ^ (1074 - p) := by positivity
  generalize (2 : ℤ) ^ (1074 - p) = S at *
  generalize |t.V| = W at *
  have hH := abs_nonneg t.hi.toInt
  generalize |t.hi.toInt| = H at *
  norm_num at b1 ⊢
  omega

/-- **`expm1_quarter` of a tiny argument is tiny**: `|z| ≤ 2^-599 ⟹ |expm1_quarter z| ≤ 2^-590` -/
theorem expm1_quarter_tiny {z : TwoFloat} (hz : VW z) (ht : |rv z| ≤ 1 / 2 ^ 599) :
    VW (TwoFloat.expm1_quarter z) ∧ |rv (TwoFloat.expm1_quarter z)| ≤ 1 / 2 ^ 590 := by
  have hzhi := hi_le_of_rv hz.1 (p := 599) (by norm_num) ht
  have hb : z.hi.toInt.natAbs ≤ 2 ^ 1072 := by
    have : |z.hi.toInt| ≤ (2 : ℤ) ^ 1072 := le_trans hzhi (by norm_num)
    rw [← Int.natCast_natAbs] at this
    exact_mod_cast this
  obtain ⟨q, hq1, hq2, hcast, hx0, hnear⟩ := quarter_reduce hz.1.1 hz.2.1 hb
  have hq0 : q = 0 := by
    have h1 : |q * 2 ^ 1067| ≤ |q * 2 ^ 1067 - z.hi.toInt| + |z.hi.toInt| := by
      have := abs_add_le (q * 2 ^ 1067 - z.hi.toInt) z.hi.toInt
      rwa [sub_add_cancel] at this
    rw [abs_mul, abs_of_pos (by positivity : (0 : ℤ) < 2 ^ 1067)] at h1
    have h2 : (2 : ℤ) ^ (1075 - 599) ≤ 2 ^ 1065 := by norm_num
    have h3 : (2 : ℤ) ^ 1067 = 4 * 2 ^ 1065 := by norm_num
    rw [h3] at h1 hnear
    have hS : (0 : ℤ) < 2 ^ 1065 := by positivity
    generalize (2 : ℤ) ^ 1065 = S at *
    have hqa : |q| < 1 := by
      by_contra hc
      have : 1 ≤ |q| := not_lt.1 hc
      nlinarith
    obtain ⟨q1, q2⟩ := abs_lt.1 hqa
    omega
  subst hq0
  unfold TwoFloat.expm1_quarter TwoFloat.hi_m
  dsimp only
  rw [polyFold_eq, hcast]
  generalize hX0 : (F64.round ((f64lit 0x4060000000000000) *. z.hi) /. (f64lit 0x4060000000000000)) = X0 at *
  have hX0v : X0.toInt = 0 := by rw [hx0.2]; ring
  have hfv : fv X0 = 0 := by unfold fv; rw [hX0v]; simp
  have hX0b : X0.toInt.natAbs < 2 ^ 2095 := by rw [hX0v]; norm_num
  have hX0WF : X0.WF := by rw [← hX0]; exact div_WF _ _
  have hrvzabs : |rv z| ≤ 2 ^ 1000 := le_trans ht (by norm_num)
  obtain ⟨yvw, hy⟩ := sub_tf_rv hz hx0.1 hX0WF hrvzabs hX0b
  rw [hfv, sub_zero] at hy
  generalize arithmetic.impl_Sub_f64_for_TwoFloat.sub z X0 = y at *
  have hyabs : |rv y| ≤ 1 / 2 ^ 598 := by
    have h1 := abs_sub_abs_le_abs_sub (rv y) (rv z)
    have h2 : (1 : ℝ) / 2 ^ 105 * |rv z| ≤ 1 * |rv z| := mul_le_mul_of_nonneg_right (by norm_num) (abs_nonneg _)
    have e : (1 : ℝ) / 2 ^ 598 = 2 * (1 / 2 ^ 599) := by norm_num
    rw [e]; linarith
  have hy128 : |rv y| ≤ 1 / 128 := le_trans hyabs (by norm_num)
  -- the table entry: exactly zero
  obtain ⟨Evw, hE⟩ := table_entry 0 (by norm_num) (by norm_num)
  have hE0 : rv (explog.expm1_128th (⟨0⟩ : I32)) = 0 := by
    have e : Real.exp (((0 : ℤ) : ℝ) / 128) - 1 = 0 := by simp
    rw [e, abs_zero, zero_div, sub_zero] at hE
    exact abs_eq_zero.1 (le_antisymm hE (abs_nonneg _))
  generalize explog.expm1_128th (⟨0⟩ : I32) = E at *
  obtain ⟨Epvw, hEp⟩ := add_one_rv Evw (by rw [hE0, abs_zero]; positivity)
  rw [hE0, zero_add, abs_one, mul_one] at hEp
  obtain ⟨wvw, hw⟩ := expm1_y_bound yvw hy128
  generalize arithmetic.impl_Mul_TwoFloat_for_TwoFloat.mul y (arithmetic.impl_Add_f64_for_TwoFloat.add
      (arithmetic.impl_Mul_TwoFloat_for_TwoFloat.mul y (hp y 12)) (f64lit 0x3ff0000000000000)) = w at *
  generalize arithmetic.impl_Add_f64_for_TwoFloat.add E (f64lit 0x3ff0000000000000) = Ep at *
  have hEpabs : |rv Ep| ≤ 2 := by
    have h1 := abs_sub_abs_le_abs_sub (rv Ep) 1
    rw [abs_one] at h1
    have : (1 : ℝ) / 2 ^ 105 ≤ 1 := by norm_num
    linarith
  have hwabs : |rv w| ≤ 1 / 2 ^ 596 := by
    have h1 := abs_sub_abs_le_abs_sub (rv w) (Real.exp (rv y) - 1)
    have h2 := Real.abs_exp_sub_one_le (le_trans hy128 (by norm_num))
    have h3 := mul_le_mul_of_nonneg_left hyabs (by positivity : (0 : ℝ) ≤ 931 / 100 / 2 ^ 106)
    have e : (931 : ℝ) / 100 / 2 ^ 106 * (1 / 2 ^ 598) + 1 / 2 ^ 948 + 2 * (1 / 2 ^ 598) ≤ 1 / 2 ^ 596 := by norm_num
    linarith
  have hpw : |rv Ep * rv w| ≤ 1 / 2 ^ 595 := by
    rw [abs_mul]
    calc |rv Ep| * |rv w| ≤ 2 * (1 / 2 ^ 596) := mul_le_mul hEpabs hwabs (abs_nonneg _) (by norm_num)
      _ = 1 / 2 ^ 595 := by norm_num
  obtain ⟨m2vw, hm2⟩ := mul_rv Epvw wvw (le_trans hpw (by norm_num))
  have hm2abs : |rv (arithmetic.impl_Mul_TwoFloat_for_TwoFloat.mul Ep w)| ≤ 1 / 2 ^ 594 := by
    have h1 := abs_sub_abs_le_abs_sub (rv (arithmetic.impl_Mul_TwoFloat_for_TwoFloat.mul Ep w)) (rv Ep * rv w)
    have := mul_le_mul_of_nonneg_left hpw (by positivity : (0 : ℝ) ≤ 7 / 2 ^ 106)
    have e : (7 : ℝ) / 2 ^ 106 * (1 / 2 ^ 595) + 1 / 2 ^ 950 + 1 / 2 ^ 595 ≤ 1 / 2 ^ 594 := by norm_num
    linarith
  generalize arithmetic.impl_Mul_TwoFloat_for_TwoFloat.mul Ep w = m2 at *
  obtain ⟨rvw, hr⟩ := add_rv Evw m2vw (by rw [hE0, abs_zero]; positivity) (le_trans hm2abs (by norm_num))
  refine ⟨rvw, ?_⟩
  rw [hE0, zero_add] at hr
  have h1 := abs_sub_abs_le_abs_sub (rv (arithmetic.impl_Add_TwoFloat_for_TwoFloat.add E m2)) (rv m2)
  have h2 : cA * |rv m2| ≤ 1 * |rv m2| :=
    mul_le_mul_of_nonneg_right (le_trans cA_le (by norm_num)) (abs_nonneg _)
  have e : (1 : ℝ) / 2 ^ 590 = 16 * (1 / 2 ^ 594) := by norm_num
  rw [e]
  have := abs_nonneg (rv m2)
  linarith

/-- **`exp` of a tiny non-zero argument is `(1.0, ε)` word for word**, `|ε| ≤ 2^-589` -/
theorem exp_tiny (x : TwoFloat) (hv : x.Valid) (hw : x.WF) (h0 : x.hi.toInt ≠ 0) (ht : |rv x| ≤ 1 / 2 ^ 600) :
    ∃ el : ℤ, (TwoFloat.exp x).IsV (unit : Int) el ∧ |el| ≤ 2 ^ 485 ∧ (TwoFloat.exp x).Valid ∧ (TwoFloat.exp x).WF := by
  have hxhi := hi_le_of_rv hv (p := 600) (by norm_num) ht
  have hhi : |x.hi.toInt| < 709 * (F64.unit : ℤ) := by
    rw [unit_cast_eq]
    have : (2 : ℤ) ^ (1075 - 600) < 709 * 2 ^ 1074 := by norm_num
    omega
  obtain ⟨hl, hh⟩ := abs_lt.1 hhi
  obtain ⟨k, z, -, zvw, zb, hz, hD, heq⟩ := exp_main x hv hw (by linarith) hh h0
  have hk0 : k = 0 := by
    obtain ⟨d1, d2⟩ := abs_le.1 hD
    obtain ⟨x1, x2⟩ := abs_le.1 ht
    have h600 : (1 : ℝ) / 2 ^ 600 ≤ 1 / 10 := by norm_num
    have a1 : (-1 : ℝ) < (k : ℝ) := by linarith
    have a2 : (k : ℝ) < 1 := by linarith
    have b1 : (-1 : ℤ) < k := by exact_mod_cast a1
    have b2 : k < (1 : ℤ) := by exact_mod_cast a2
    omega
  subst hk0
  rw [heq, exp_half_zero]
  have hzabs : |rv z| ≤ 1 / 2 ^ 599 := by
    simp only [Int.cast_zero, zero_div, sub_zero] at hz
    have h1 := abs_sub_abs_le_abs_sub (rv z) (rv x)
    have h2 : (1 : ℝ) / 2 ^ 105 * |rv x| ≤ 1 * |rv x| := mul_le_mul_of_nonneg_right (by norm_num) (abs_nonneg _)
    have e : (1 : ℝ) / 2 ^ 599 = 2 * (1 / 2 ^ 600) := by norm_num
    rw [e]; linarith
  obtain ⟨rvw, hrabs⟩ := expm1_quarter_tiny zvw hzabs
  generalize TwoFloat.expm1_quarter z = r at *
  have hrhi := hi_le_of_rv rvw.1 (p := 590) (by norm_num) hrabs
  have hrhi' : |r.hi.toInt| ≤ 2 ^ 485 := by simpa using hrhi
  have hrlt : |r.hi.toInt| < 2 ^ 1020 := lt_of_le_of_lt hrhi' (by norm_num)
  have hez : (arithmetic.impl_Add_rf64_for_rTwoFloat.add r (f64lit 0x3ff0000000000000)).IsV (unit : Int) r.hi.toInt :=
    add_tf_one_tiny rvw.1 rvw.2 C01d.one_isVal C01d.one_WF hrlt
  have hezW := TwoFloat.add_tf_WF r (f64lit 0x3ff0000000000000)
  have hezV := hez.valid hezW (rnI_near_unit hrlt).symm
  obtain ⟨o1, o2, o3, o4⟩ := one_i32_facts
  obtain ⟨m1, m2, -, m4, m5⟩ := C04x.mul_tt_one_right (arithmetic.impl_Add_rf64_for_rTwoFloat.add r
    (f64lit 0x3ff0000000000000)) _ hezV hezW o1 o2 o3 o4
  refine ⟨r.hi.toInt, ⟨⟨m4.1, ?_⟩, ⟨m4.2.1, ?_⟩⟩, hrhi', m4, m5⟩
  · exact m1.trans hez.1.2
  · exact m2.trans hez.2.2

/-- **`exp_m1` of a tiny non-zero argument returns the argument itself** (`|x| ≤ 2^-600`; every product with the
second-order term underflows to zero) -/
theorem exp_m1_tiny (x : TwoFloat) (hv : x.Valid) (hw : x.WF) (hne : x.V ≠ 0) (ht : |rv x| ≤ 1 / 2 ^ 600) :
    (TwoFloat.exp_m1 x).V = x.V ∧ (TwoFloat.exp_m1 x).Valid ∧ (TwoFloat.exp_m1 x).WF := by
  have hU : (0 : ℝ) < 2 ^ 1074 := by positivity
  have hxhi := hi_le_of_rv hv (p := 600) (by norm_num) ht
  have hxhi' : |x.hi.toInt| ≤ 2 ^ 475 := by simpa using hxhi
  have hVabs : |x.V| ≤ 2 ^ 1066 := by
    have h9 := ht
    rw [rv_abs, div_le_iff₀ hU] at h9
    have h' : ((|x.V| : ℤ) : ℝ) ≤ 2 ^ 1066 := by
      calc ((|x.V| : ℤ) : ℝ) ≤ 1 / 2 ^ 600 * 2 ^ 1074 := h9
        _ ≤ 2 ^ 1066 := by norm_num
    exact_mod_cast h'
  obtain ⟨v1, v2⟩ := abs_le.1 hVabs
  have hsw : ¬ (((ROrd.isLt (base.impl_PartialOrd_TwoFloat_for_TwoFloat.partial_cmp x (C14f.negf consts.LN_2))) ||
      (ROrd.isGt (base.impl_PartialOrd_TwoFloat_for_TwoFloat.partial_cmp x explog.LN_FRAC_3_2))) = true) := by
    rw [C14f.exp_m1_switch x hv hw]
    have a1 := C14f.negLN2_facts.2.2
    have a2 := C14f.LN32_facts.2.2
    have e1 : (2 : ℤ) ^ 1073 = 128 * 2 ^ 1066 := by norm_num
    have e2 : (2 : ℤ) ^ 1072 = 64 * 2 ^ 1066 := by norm_num
    have hp : (0 : ℤ) < 2 ^ 1066 := by positivity
    rw [e1] at a1; rw [e2] at a2
    generalize (2 : ℤ) ^ 1066 = T at *
    omega
  have hhi0 : x.hi.toInt ≠ 0 := fun h => hne (hv.V_zero_iff.2 h)
  unfold TwoFloat.exp_m1
  rw [if_neg hsw]
  dsimp only
  rw [polyFold_eq]
  obtain ⟨avw, harv⟩ := abs_rv' ⟨hv, hw⟩
  have h128 : |rv (TwoFloat.abs x)| ≤ 1 / 128 := by
    rw [harv, _root_.abs_abs]; exact le_trans ht (by norm_num)
  have hta : |rv (TwoFloat.abs x)| ≤ 1 / 2 ^ 600 := by rw [harv, _root_.abs_abs]; exact ht
  generalize TwoFloat.abs x = a at *
  -- m = a·P(a)
  obtain ⟨pvw, hpe, hP1, hP2⟩ := horner_inv avw h128 12 (le_refl _)
  have e2 : ((14 - 12 : ℕ).factorial : ℝ) = 2 := by norm_num [Nat.factorial]
  rw [e2] at hP1 hP2
  have hpabs : |rv (hp a 12)| ≤ 2 := by
    have := abs_sub_abs_le_abs_sub (rv (hp a 12)) (PR (rv a) 12)
    rw [abs_of_nonneg (by linarith : (0 : ℝ) ≤ PR (rv a) 12)] at this
    have e : (4 : ℝ) / 2 ^ 106 ≤ 1 := by norm_num
    linarith
  have hprod : |rv a * rv (hp a 12)| ≤ 1 / 2 ^ 599 := by
    rw [abs_mul]
    calc |rv a| * |rv (hp a 12)| ≤ 1 / 2 ^ 600 * 2 := mul_le_mul hta hpabs (abs_nonneg _) (by positivity)
      _ = 1 / 2 ^ 599 := by norm_num
  obtain ⟨mvw, hm⟩ := mul_rv avw pvw (le_trans hprod (by norm_num))
  have hmabs : |rv (arithmetic.impl_Mul_TwoFloat_for_TwoFloat.mul a (hp a 12))| ≤ 1 / 2 ^ 598 := by
    have := abs_sub_abs_le_abs_sub (rv (arithmetic.impl_Mul_TwoFloat_for_TwoFloat.mul a (hp a 12)))
      (rv a * rv (hp a 12))
    have := mul_le_mul_of_nonneg_left hprod (by positivity : (0 : ℝ) ≤ 7 / 2 ^ 106)
    have e : (7 : ℝ) / 2 ^ 106 * (1 / 2 ^ 599) + 1 / 2 ^ 950 + 1 / 2 ^ 599 ≤ 1 / 2 ^ 598 := by norm_num
    linarith
  generalize arithmetic.impl_Mul_TwoFloat_for_TwoFloat.mul a (hp a 12) = m at *
  have hmhi := hi_le_of_rv mvw.1 (p := 598) (by norm_num) hmabs
  have hmhi' : |m.hi.toInt| ≤ 2 ^ 477 := by simpa using hmhi
  have hmlt : |m.hi.toInt| < 2 ^ 1020 := lt_of_le_of_lt hmhi' (by norm_num)
  have hr : (arithmetic.impl_Add_rf64_for_rTwoFloat.add m (f64lit 0x3ff0000000000000)).IsV (unit : Int) m.hi.toInt :=
    add_tf_one_tiny mvw.1 mvw.2 C01d.one_isVal C01d.one_WF hmlt
  suffices h : ∀ R : TwoFloat,
      R = (if ROrd.isLt (base.impl_PartialOrd_f64_for_TwoFloat.partial_cmp x (f64lit 0x0000000000000000)) = true then
        arithmetic.impl_Mul_rTwoFloat_for_rTwoFloat.mul (arithmetic.impl_Mul_rTwoFloat_for_rTwoFloat.mul x
          (arithmetic.impl_Add_rf64_for_rTwoFloat.add m (f64lit 0x3ff0000000000000))) (TwoFloat.exp x)
      else arithmetic.impl_Mul_rTwoFloat_for_rTwoFloat.mul x
          (arithmetic.impl_Add_rf64_for_rTwoFloat.add m (f64lit 0x3ff0000000000000))) →
      R.V = x.V ∧ R.Valid ∧ R.WF from h _ rfl
  intro R hR
  generalize arithmetic.impl_Add_rf64_for_rTwoFloat.add m (f64lit 0x3ff0000000000000) = r at *
  -- w = x·r = x
  have hsmall : 2 * |x.hi.toInt * m.hi.toInt| < (unit : Int) := by
    rw [unit_cast_eq, abs_mul]
    have h1 : |x.hi.toInt| * |m.hi.toInt| ≤ 2 ^ 475 * 2 ^ 477 :=
      mul_le_mul hxhi' hmhi' (abs_nonneg _) (by positivity)
    have h2 : (2 : ℤ) * (2 ^ 475 * 2 ^ 477) < 2 ^ 1074 := by norm_num
    omega
  have hwv := mul_tt_near_one hv hw hr hsmall
  have hwW := TwoFloat.mul_tt_WF x r
  have hwV := hwv.valid hwW hv.rnI_eq
  split_ifs at hR with hneg
  · -- x < 0: (x·r)·exp(x)
    subst hR
    obtain ⟨el, hE, hel, -, -⟩ := exp_tiny x hv hw hhi0 ht
    generalize arithmetic.impl_Mul_rTwoFloat_for_rTwoFloat.mul x r = w at *
    have hsmall2 : 2 * |w.hi.toInt * el| < (unit : Int) := by
      rw [hwv.1.2, unit_cast_eq, abs_mul]
      have h1 : |x.hi.toInt| * |el| ≤ 2 ^ 475 * 2 ^ 485 :=
        mul_le_mul hxhi' hel (abs_nonneg _) (by positivity)
      have h2 : (2 : ℤ) * (2 ^ 475 * 2 ^ 485) < 2 ^ 1074 := by norm_num
      omega
    have hres := mul_tt_near_one hwV hwW hE hsmall2
    rw [hwv.1.2, hwv.2.2] at hres
    exact ⟨hres.V_eq, hres.valid (TwoFloat.mul_tt_WF _ _) hv.rnI_eq, TwoFloat.mul_tt_WF _ _⟩
  · subst hR
    exact ⟨hwv.V_eq, hwV, hwW⟩

/-! ## 10. `exp` and `exp_m1` below `−600` -/

/-- the evaluated test for the far end of the table: `exp_half(k)` is a valid pair of magnitude `≤ 2^-900` -/
def halfTinyOK (k : ℤ) : Bool :=
  decide ((explog.exp_half (⟨k⟩ : I32)).Valid) && decide ((explog.exp_half (⟨k⟩ : I32)).hi.WF) &&
  decide ((explog.exp_half (⟨k⟩ : I32)).lo.WF) && decide (|(explog.exp_half (⟨k⟩ : I32)).V| ≤ 2 ^ 174)

theorem half_tiny_c0 : (List.range 6).all (fun i => halfTinyOK (-1333 - (i : ℤ))) = true := by decide +kernel
theorem half_tiny_c1 : (List.range 6).all (fun i => halfTinyOK (-1339 - (i : ℤ))) = true := by decide +kernel
theorem half_tiny_c2 : (List.range 6).all (fun i => halfTinyOK (-1345 - (i : ℤ))) = true := by decide +kernel
theorem half_tiny_c3 : (List.range 6).all (fun i => halfTinyOK (-1351 - (i : ℤ))) = true := by decide +kernel
theorem half_tiny_c4 : (List.range 6).all (fun i => halfTinyOK (-1357 - (i : ℤ))) = true := by decide +kernel
theorem half_tiny_c5 : (List.range 6).all (fun i => halfTinyOK (-1363 - (i : ℤ))) = true := by decide +kernel
theorem half_tiny_c6 : (List.range 6).all (fun i => halfTinyOK (-1369 - (i : ℤ))) = true := by decide +kernel
theorem half_tiny_c7 : (List.range 6).all (fun i => halfTinyOK (-1375 - (i : ℤ))) = true := by decide +kernel
theorem half_tiny_c8 : (List.range 6).all (fun i => halfTinyOK (-1381 - (i : ℤ))) = true := by decide +kernel
theorem half_tiny_c9 : (List.range 6).all (fun i => halfTinyOK (-1387 - (i : ℤ))) = true := by decide +kernel
theorem half_tiny_c10 : (List.range 6).all (fun i => halfTinyOK (-1393 - (i : ℤ))) = true := by decide +kernel
theorem half_tiny_c11 : (List.range 6).all (fun i => halfTinyOK (-1399 - (i : ℤ))) = true := by decide +kernel
theorem half_tiny_c12 : (List.range 6).all (fun i => halfTinyOK (-1405 - (i : ℤ))) = true := by decide +kernel
theorem half_tiny_c13 : (List.range 6).all (fun i => halfTinyOK (-1411 - (i : ℤ))) = true := by decide +kernel
theorem half_tiny_c14 : (List.range 2).all (fun i => halfTinyOK (-1417 - (i : ℤ))) = true := by decide +kernel

/-- all `86` entries `−1418 ≤ k ≤ −1333` -/
theorem half_tiny_check {k : ℤ} (h1 : -1418 ≤ k) (h2 : k ≤ -1333) : halfTinyOK k = true := by
  have key : ∀ (n : ℕ) (off : ℤ), (List.range n).all (fun i => halfTinyOK (off - (i : ℤ))) = true →
      off - n < k → k ≤ off → halfTinyOK k = true := by
    intro n off h a b
    have := List.all_eq_true.1 h (off - k).toNat (List.mem_range.2 (by omega))
    rwa [show off - ((off - k).toNat : ℤ) = k by omega] at this
  have hc : ∃ j : ℕ, j < 15 ∧ -1333 - 6 * (j : ℤ) - 6 < k ∧ k ≤ -1333 - 6 * (j : ℤ) :=
    ⟨((-1333 - k) / 6).toNat, by omega, by omega, by omega⟩
  obtain ⟨j, hj, a, b⟩ := hc
  interval_cases j
  · exact key 6 (-1333) half_tiny_c0 (by omega) (by omega)
  · exact key 6 (-1339) half_tiny_c1 (by omega) (by omega)
  · exact key 6 (-1345) half_tiny_c2 (by omega) (by omega)
  · exact key 6 (-1351) half_tiny_c3 (by omega) (by omega)
  · exact key 6 (-1357) half_tiny_c4 (by omega) (by omega)
  · exact key 6 (-1363) half_tiny_c5 (by omega) (by omega)
  · exact key 6 (-1369) half_tiny_c6 (by omega) (by omega)
  · exact key 6 (-1375) half_tiny_c7 (by omega) (by omega)
  · exact key 6 (-1381) half_tiny_c8 (by omega) (by omega)
  · exact key 6 (-1387) half_tiny_c9 (by omega) (by omega)
  · exact key 6 (-1393) half_tiny_c10 (by omega) (by omega)
  · exact key 6 (-1399) half_tiny_c11 (by omega) (by omega)
  · exact key 6 (-1405) half_tiny_c12 (by omega) (by omega)
  · exact key 6 (-1411) half_tiny_c13 (by omega) (by omega)
  · exact key 2 (-1417) half_tiny_c14 (by omega) (by omega)

theorem exp_600 : Real.exp (-600) ≤ 1 / 2 ^ 865 := by
  have h1 : (865 : ℝ) * Real.log 2 ≤ 600 := by
    have := Real.log_two_lt_d9
    linarith
  have h2 : (2 : ℝ) ^ 865 ≤ Real.exp 600 := by
    have e : (2 : ℝ) ^ 865 = Real.exp (865 * Real.log 2) := by
      rw [mul_comm, Real.exp_mul, Real.exp_log (by norm_num)]
      norm_num
    rw [e]; exact Real.exp_le_exp.2 h1
  rw [Real.exp_neg, one_div]
  exact inv_anti₀ (by positivity) h2

/-- `exp_half(k)` for `−1418 ≤ k ≤ −1200`: a valid pair of magnitude `≤ 2^-860` -/
theorem exp_half_small {k : ℤ} (h1 : -1418 ≤ k) (h2 : k ≤ -1200) :
    VW (explog.exp_half (⟨k⟩ : I32)) ∧ |rv (explog.exp_half (⟨k⟩ : I32))| ≤ 1 / 2 ^ 860 := by
  by_cases hk : -1332 ≤ k
  · obtain ⟨vw, hb⟩ := exp_half_bound_wide k hk (by omega)
    refine ⟨vw, ?_⟩
    have hY := Real.exp_pos ((k : ℝ) / 2)
    have hle : Real.exp ((k : ℝ) / 2) ≤ 1 / 2 ^ 865 := by
      refine le_trans (Real.exp_le_exp.2 ?_) exp_600
      have : (k : ℝ) ≤ -1200 := by exact_mod_cast h2
      linarith
    have h3 := abs_sub_abs_le_abs_sub (rv (explog.exp_half (⟨k⟩ : I32))) (Real.exp ((k : ℝ) / 2))
    rw [abs_of_pos hY] at h3
    have h4 : (242 : ℝ) / 10 / 2 ^ 106 * Real.exp ((k : ℝ) / 2) ≤ Real.exp ((k : ℝ) / 2) := by
      have : (242 : ℝ) / 10 / 2 ^ 106 ≤ 1 := by norm_num
      nlinarith
    have h5 : (2 : ℝ) * (1 / 2 ^ 865) ≤ 1 / 2 ^ 860 := by norm_num
    linarith
  · have h := half_tiny_check h1 (by omega : k ≤ -1333)
    unfold halfTinyOK at h
    simp only [Bool.and_eq_true, decide_eq_true_eq] at h
    obtain ⟨⟨⟨hv, hw1⟩, hw2⟩, hV⟩ := h
    refine ⟨⟨hv, hw1, hw2⟩, ?_⟩
    have hU : (0 : ℝ) < 2 ^ 1074 := by positivity
    rw [rv_abs, div_le_iff₀ hU]
    have : ((|(explog.exp_half (⟨k⟩ : I32)).V| : ℤ) : ℝ) ≤ (((2 : ℤ) ^ 174 : ℤ) : ℝ) := by exact_mod_cast hV
    refine le_trans this ?_
    push_cast
    have e : (1 : ℝ) / 2 ^ 860 * 2 ^ 1074 = 2 ^ 214 := by
      rw [one_div, inv_mul_eq_div, div_eq_iff (by positivity), ← pow_add]
    rw [e]; norm_num

/-- `exp(x) = 0` exactly at and below the lower limit -/
theorem exp_low (x : TwoFloat) (hv : x.Valid) (h : x.hi.toInt ≤ -(709 * (F64.unit : Int))) :
    TwoFloat.exp x = convert.impl_From_f64_for_TwoFloat.from (f64lit 0x0000000000000000) := by
  unfold TwoFloat.exp
  rw [if_pos]
  rw [PF.rle_eq, PF.EXP_LOWER_val, le_iff_toInt hv.1 rfl]
  have : (fin true (709 * F64.unit)).toInt = -(709 * (F64.unit : Int)) := by
    show -((709 * F64.unit : Nat) : Int) = _; push_cast; rfl
  rw [this]; exact h

/-- **`exp` below `−600`**: a valid pair of magnitude `≤ 2^-850` (no accuracy claim: the table division and the final
product run into the subnormal range) -/
theorem exp_coarse_neg (x : TwoFloat) (hv : x.Valid) (hw : x.WF) (hx : rv x < -600) :
    VW (TwoFloat.exp x) ∧ |rv (TwoFloat.exp x)| ≤ 1 / 2 ^ 850 := by
  have hU : (0 : ℝ) < 2 ^ 1074 := by positivity
  by_cases hlow : x.hi.toInt ≤ -(709 * (F64.unit : Int))
  · rw [exp_low x hv hlow]
    have h1 : (convert.impl_From_f64_for_TwoFloat.from (f64lit 0x0000000000000000)).Valid := by decide +kernel
    have h2 : (convert.impl_From_f64_for_TwoFloat.from (f64lit 0x0000000000000000)).WF := by decide +kernel
    have h3 : (convert.impl_From_f64_for_TwoFloat.from (f64lit 0x0000000000000000)).V = 0 := by decide +kernel
    refine ⟨⟨h1, h2⟩, ?_⟩
    unfold rv; rw [h3]; simp
  · have hl : -(709 * (F64.unit : Int)) < x.hi.toInt := not_le.1 hlow
    have hVneg : x.V < 0 := by
      have : rv x < 0 := by linarith
      unfold rv at this
      have h2 : (x.V : ℝ) < 0 := by
        by_contra hc
        have := div_nonneg (not_lt.1 hc) hU.le
        linarith
      exact_mod_cast h2
    have hhneg : x.hi.toInt < 0 := (hv.hi_neg_iff F64.roundFacts).2 hVneg
    have hh : x.hi.toInt < 709 * (F64.unit : Int) := by
      have : (0 : ℤ) < (F64.unit : Int) := by rw [unit_cast_eq]; positivity
      omega
    obtain ⟨k, z, hk1418, zvw, zb, hz, hD, heq⟩ := exp_main x hv hw hl hh (by omega)
    rw [heq]
    obtain ⟨k1, k2⟩ := abs_le.1 hk1418
    have hk1200 : k ≤ -1200 := by
      obtain ⟨d1, d2⟩ := abs_le.1 hD
      have a2 : (k : ℝ) < -1199 := by linarith
      have b2 : k < (-1199 : ℤ) := by exact_mod_cast a2
      omega
    obtain ⟨rvw, hr, hrabs⟩ := expm1_quarter_bound zvw zb
    obtain ⟨ezvw, hez⟩ := add_one_rv rvw (le_trans hrabs (by norm_num))
    obtain ⟨-, ez1, ez2⟩ := ez_real hD hz hr hez
    obtain ⟨eyvw, hey⟩ := exp_half_small k1 hk1200
    generalize TwoFloat.expm1_quarter z = r at *
    generalize arithmetic.impl_Add_f64_for_TwoFloat.add r (f64lit 0x3ff0000000000000) = ez at *
    generalize explog.exp_half (⟨k⟩ : I32) = ey at *
    have hprod : |rv ez * rv ey| ≤ 1 / 2 ^ 859 := by
      rw [abs_mul, abs_of_pos (by linarith : (0 : ℝ) < rv ez)]
      calc rv ez * |rv ey| ≤ 2 * (1 / 2 ^ 860) := mul_le_mul ez2 hey (abs_nonneg _) (by norm_num)
        _ = 1 / 2 ^ 859 := by norm_num
    obtain ⟨resvw, hres⟩ := mul_rv ezvw eyvw (le_trans hprod (by norm_num))
    refine ⟨resvw, ?_⟩
    have h1 := abs_sub_abs_le_abs_sub (rv (arithmetic.impl_Mul_TwoFloat_for_TwoFloat.mul ez ey)) (rv ez * rv ey)
    have h2 := mul_le_mul_of_nonneg_left hprod (by positivity : (0 : ℝ) ≤ 7 / 2 ^ 106)
    have e : (7 : ℝ) / 2 ^ 106 * (1 / 2 ^ 859) + 1 / 2 ^ 950 + 1 / 2 ^ 859 ≤ 1 / 2 ^ 850 := by norm_num
    linarith

/-- **`exp_m1` below `−600`**: the result `exp(x) − 1.0` is within relative `2^-100` of `e^x − 1` -/
theorem exp_m1_below (x : TwoFloat) (hv : x.Valid) (hw : x.WF) (hx : rv x < -600) :
    VW (TwoFloat.exp_m1 x) ∧
    |rv (TwoFloat.exp_m1 x) - (Real.exp (rv x) - 1)| ≤ |Real.exp (rv x) - 1| / 2 ^ 100 := by
  have hU : (0 : ℝ) < 2 ^ 1074 := by positivity
  have hsw : x.V < (C14f.negf consts.LN_2).V := by
    have h1 : (x.V : ℝ) < -600 * 2 ^ 1074 := by
      have : rv x = (x.V : ℝ) / 2 ^ 1074 := rfl
      rw [this, div_lt_iff₀ hU] at hx; exact hx
    have h2 : x.V < -600 * 2 ^ 1074 := by
      have : ((x.V : ℤ) : ℝ) < ((-600 * 2 ^ 1074 : ℤ) : ℝ) := by
        simp only [Int.cast_mul, Int.cast_neg, Int.cast_pow, Int.cast_ofNat]; exact h1
      exact_mod_cast this
    have := C14f.negLN2_ge
    have hp : (0 : ℤ) < 2 ^ 1074 := by positivity
    generalize (2 : ℤ) ^ 1074 = T at *
    omega
  obtain ⟨evw, heabs⟩ := exp_coarse_neg x hv hw hx
  unfold TwoFloat.exp_m1
  rw [if_pos ((C14f.exp_m1_switch x hv hw).2 (Or.inl hsw))]
  obtain ⟨rvw, hr⟩ := C14f.sub_one_rv evw (le_trans heabs (by norm_num))
  refine ⟨rvw, ?_⟩
  generalize rv (arithmetic.impl_Sub_f64_for_TwoFloat.sub (TwoFloat.exp x) (f64lit 0x3ff0000000000000)) = res at *
  generalize rv (TwoFloat.exp x) = ε at *
  have hA := Real.exp_pos (rv x)
  have hAle : Real.exp (rv x) ≤ 1 / 2 ^ 865 := le_trans (Real.exp_le_exp.2 hx.le) exp_600
  generalize Real.exp (rv x) = A at *
  obtain ⟨e1, e2⟩ := abs_le.1 heabs
  have h850 : (1 : ℝ) / 2 ^ 850 ≤ 1 / 2 ^ 200 := by norm_num
  have h865 : (1 : ℝ) / 2 ^ 865 ≤ 1 / 2 ^ 200 := by norm_num
  have habs1 : |ε - 1| = 1 - ε := by rw [abs_of_neg (by linarith)]; ring
  have habs2 : |A - 1| = 1 - A := by rw [abs_of_neg (by linarith)]; ring
  rw [habs1] at hr
  rw [habs2]
  obtain ⟨r1, r2⟩ := abs_le.1 hr
  have e105 : (1 : ℝ) / 2 ^ 105 * (1 - ε) ≤ 1 / 2 ^ 105 * (1 + 1 / 2 ^ 200) :=
    mul_le_mul_of_nonneg_left (by linarith) (by positivity)
  have fin : (1 : ℝ) / 2 ^ 105 * (1 + 1 / 2 ^ 200) + 1 / 2 ^ 200 + 1 / 2 ^ 200 ≤ (1 - 1 / 2 ^ 200) / 2 ^ 100 := by norm_num
  have fin2 : (1 - 1 / 2 ^ 200 : ℝ) / 2 ^ 100 ≤ (1 - A) / 2 ^ 100 :=
    div_le_div_of_nonneg_right (by linarith) (by positivity)
  rw [abs_le]
  constructor <;> linarith

end PowfTight
