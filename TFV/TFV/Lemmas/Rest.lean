/-
Lemmas.Rest — the three remaining error-bound clauses (statements for the checker in `Properties/C04c`, `C05c`, `C13c`).

 §1  DWTimesDW3 (`TwoFloat * TwoFloat`) with the paper's constant `5u²` EXACTLY (`F64.dwtimesdw_err_5u2_exact`,
     `TwoFloat.mul_tt_bound_5u2`, `mul_tt_bound_5u2_wide`).
 §2  DWDivFP3 (`TwoFloat / f64`) with the paper's constant `3u²` (`F64.divtf_3u2_int`, `F64.div_tf_val_3u2`).
 §2b accuracy of `TwoFloat / TwoFloat` on the whole of `DivRange` with the absolute error terms kept
     (`F64.div_acc_int_abs`, `TwoFloat.div_tt_acc_abs`, `TwoFloat.div_q12_acc`).
 §2c `TwoFloat / TwoFloat` returns a normalised pair for every numerator: `F64.renorm3_exact`, `F64.renorm3_crude`,
     `F64.mul_tf_tiny`, `TwoFloat.div_tt_crude` (divisor at least `2^-41`), `TwoFloat.div_tt_alpha` (numerator at least
     `2^9` absolute-error levels); assembled in §6 (`CbrtBound.div_tt_tiny`, `CbrtBound.div_tt_any`).
 §3  the correctly rounded cube root `F64.cbrt` (`F64.icbrt_spec`, `F64.cbrt_spec`).
 §4  one Newton step of `cbrt` over the reals (`CbrtReal.newton_norm`, `newton_scaled`): `E ↦ 1.001E² + 6.5u²`.
 §5  the double-word operations as relative-error statements over the reals (`CbrtBound.mul_tt_real`, …).
 §6  `TwoFloat::cbrt`: `CbrtBound.cbrt_init` (`E₀ ≤ 1.51·2^-53`), `cbrt_step`, `cbrt_val` (`7u²` on
     `|x.hi| ∈ [2^-900, 2^900]`, unconditional), `cubes_of_real` (root-free form).
-/
import TFV.Lemmas.PowiBound
import TFV.Lemmas.SqrtBound
import TFV.Lemmas.DivInv
import Mathlib.Analysis.SpecialFunctions.Pow.Real

set_option exponentiation.threshold 5000

namespace F64

/-! ## 1. DWTimesDW3 with the constant `5u²` exactly

The binade analysis of `dwtimesdw_err_5u2_j66` bounds the four rounding errors by `5κ + O(u³)` (`κ = u²·W`, `W` the
power of two just below `|xh·yh|`), which is not enough when `|x·y| < W(1 + u/10)`.  The missing observation: a high
word is either a power of two — then `2Prod` is exact (`cl1 = 0`) and `cl3 = RN(cl2) = cl2` is exact, so only
`3κ + O(u³)` of error remains — or it is at least one ulp above the power of two; if that holds for both words then
`|x·y| ≥ W(1 + u)²`, which absorbs the `O(u³)` term. -/

/-- a multiple of `2^k` of magnitude at least `2^52·2^k` is `2^52·2^k` or at least `(2^52+1)·2^k` in magnitude -/
theorem pow2_or_succ_of_dvd {b : Int} {k : Nat} (hd : (2 : Int) ^ k ∣ b) (f1 : 2 ^ 52 * 2 ^ k ≤ |b|) :
    |b| = 2 ^ 52 * 2 ^ k ∨ (2 ^ 52 + 1) * 2 ^ k ≤ |b| := by
  obtain ⟨m, hm⟩ := hd
  have pu := two_pow_pos' k
  generalize (2 : Int) ^ k = u at *
  have habs : |b| = u * |m| := by rw [hm, abs_mul, abs_of_pos pu]
  rw [habs] at f1 ⊢
  have hm52 : 2 ^ 52 ≤ |m| := by
    by_contra hlt
    have : |m| + 1 ≤ 2 ^ 52 := by omega
    have := mul_le_mul_of_nonneg_left this (le_of_lt pu)
    nlinarith
  rcases eq_or_lt_of_le hm52 with he | hlt
  · left; rw [← he]; ring
  · right
    have : 2 ^ 52 + 1 ≤ |m| := by omega
    have := mul_le_mul_of_nonneg_left this (le_of_lt pu)
    linarith

/-- a normal representable integer is a power of two (in its binade) or at least one ulp above it -/
theorem RepI.pow2_or_succ {b : Int} (hb : RepI b) (h : Nat.log2 b.natAbs - 52 ≠ 0) :
    |b| = 2 ^ 52 * 2 ^ (Nat.log2 b.natAbs - 52) ∨
      (2 ^ 52 + 1) * 2 ^ (Nat.log2 b.natAbs - 52) ≤ |b| :=
  pow2_or_succ_of_dvd hb.ulp_dvd (ulp_mul_le_abs h)

/-- a product by a power of two (in magnitude) divided by a power of two is representable -/
theorem repI_of_mul_pow2 {a b Q : Int} {w e : Nat} (hb : RepI b) (ha : |a| = 2 ^ e)
    (hQ : a * b = Q * (2 : Int) ^ w) : RepI Q := by
  have h1 : |a| * |b| = |Q| * 2 ^ w := by
    rw [← abs_mul, hQ, abs_mul, abs_two_pow]
  rw [ha, ← Int.natCast_natAbs b, ← Int.natCast_natAbs Q] at h1
  have h2 : 2 ^ e * b.natAbs = Q.natAbs * 2 ^ w := by exact_mod_cast h1
  have h3 : Rep (b.natAbs * 2 ^ e) := rep_mul_pow2 e hb
  rw [Nat.mul_comm, h2] at h3
  exact Rep.of_mul_pow2 h3

/-- **DWTimesDW3 in the crate's form, binade analysis with the power-of-two refinement: `5u²` exactly.** -/
theorem dwtimesdw_err_5u2_exact {xh xl yh yl Q : Int} {U j w : Nat} (hU : 0 < U) (hUw : U = 2 ^ w) (hxh : RepI xh) (hyh : RepI yh)
    (hx : 2 * |xl| ≤ 2 ^ (Nat.log2 xh.natAbs - 52)) (hy : 2 * |yl| ≤ 2 ^ (Nat.log2 yh.natAbs - 52))
    (hax : Nat.log2 xh.natAbs - 52 ≠ 0) (hay : Nat.log2 yh.natAbs - 52 ≠ 0)
    (hκ : (2 : Int) ^ (Nat.log2 xh.natAbs - 52) * 2 ^ (Nat.log2 yh.natAbs - 52) = 4 * ((U : Int) * 2 ^ j))
    (hj : 66 ≤ j) (hQ : xh * yh = Q * (U : Int))
    {tl0 tl1 cl2 cl3 : Int} (ht0 : tl0 = rqI (xl * yl) U) (ht1 : tl1 = rqI (xh * yl + tl0 * (U : Int)) U)
    (hc2 : cl2 = rqI (xl * yh + tl1 * (U : Int)) U) (hc3 : cl3 = rnI (Q - rnI Q + cl2)) :
    2 ^ 106 * |(rnI Q + cl3) * (U : Int) - (xh + xl) * (yh + yl)|
      ≤ 5 * |(xh + xl) * (yh + yl)| := by
  have dx := hxh.pow2_or_succ hax
  have dy := hyh.pow2_or_succ hay
  have hUc : (U : Int) = 2 ^ w := by rw [hUw]; norm_cast
  have c0x : |xh| = 2 ^ 52 * 2 ^ (Nat.log2 xh.natAbs - 52) → RepI Q := fun h =>
    repI_of_mul_pow2 (e := 52 + (Nat.log2 xh.natAbs - 52)) hyh (by rw [h, ← pow_add]) (by rw [hQ, hUc])
  have c0y : |yh| = 2 ^ 52 * 2 ^ (Nat.log2 yh.natAbs - 52) → RepI Q := fun h =>
    repI_of_mul_pow2 (e := 52 + (Nat.log2 yh.natAbs - 52)) hxh (by rw [h, ← pow_add])
      (by rw [mul_comm, hQ, hUc])
  have z0 : RepI Q → |Q - rnI Q| * (U : Int) = 0 ∧ |cl3 - (Q - rnI Q + cl2)| * (U : Int) = 0 := by
    intro hR
    have hc2R : RepI cl2 := by
      rw [hc2]; unfold RepI; rw [natAbs_rqI]; exact roundQ_rep _ _ hU
    rw [hc3, rnI_of_repI hR, sub_self, zero_add, rnI_of_repI hc2R, sub_self]
    simp
  have hUi : (0 : Int) < (U : Int) := Int.natCast_pos.2 hU
  have f1 := ulp_mul_le_abs hax
  have f2 := hxh.add_ulp_le
  have f3 := ulp_mul_le_abs hay
  have f4 := hyh.add_ulp_le
  have pux := two_pow_pos' (Nat.log2 xh.natAbs - 52)
  have puy := two_pow_pos' (Nat.log2 yh.natAbs - 52)
  generalize (2 : Int) ^ (Nat.log2 xh.natAbs - 52) = ux at *
  generalize (2 : Int) ^ (Nat.log2 yh.natAbs - 52) = uy at *
  have hUκ : 2 ^ 66 * (U : Int) ≤ (U : Int) * 2 ^ j := by
    rw [mul_comm]
    exact mul_le_mul_of_nonneg_left (pow_le_pow_right₀ (by norm_num) hj) (le_of_lt hUi)
  have e1 : (U : Int) * 2 ^ (j + 1) = 2 * ((U : Int) * 2 ^ j) := by rw [pow_succ]; ring
  have e2 : (U : Int) * 2 ^ (j + 2) = 4 * ((U : Int) * 2 ^ j) := by rw [pow_add]; ring
  have e3 : (U : Int) * 2 ^ (j + 3) = 8 * ((U : Int) * 2 ^ j) := by rw [pow_add]; ring
  have e54 : (U : Int) * 2 ^ (j + 54) = 2 ^ 54 * ((U : Int) * 2 ^ j) := by rw [pow_add]; ring
  have e55 : (U : Int) * 2 ^ (j + 55) = 2 ^ 55 * ((U : Int) * 2 ^ j) := by rw [pow_add]; ring
  have pκ : (0 : Int) < (U : Int) * 2 ^ j := mul_pos hUi (two_pow_pos' j)
  -- products of magnitudes
  have pAx := abs_nonneg xh
  have pAy := abs_nonneg yh
  have pLx := abs_nonneg xl
  have pLy := abs_nonneg yl
  have g1 : 2 ^ 54 * ((U : Int) * 2 ^ j) ≤ |xh| * uy := by
    have := mul_le_mul_of_nonneg_right f1 (le_of_lt puy)
    have e : (2 : Int) ^ 52 * ux * uy = 2 ^ 52 * (ux * uy) := by ring
    rw [e, hκ] at this
    linarith
  have g2 : |xh| * uy + 4 * ((U : Int) * 2 ^ j) ≤ 2 ^ 55 * ((U : Int) * 2 ^ j) := by
    have := mul_le_mul_of_nonneg_right f2 (le_of_lt puy)
    have e : (2 : Int) ^ 53 * ux * uy = 2 ^ 53 * (ux * uy) := by ring
    have e' : (|xh| + ux) * uy = |xh| * uy + ux * uy := by ring
    rw [e, e', hκ] at this
    linarith
  have g3 : 2 ^ 54 * ((U : Int) * 2 ^ j) ≤ ux * |yh| := by
    have := mul_le_mul_of_nonneg_left f3 (le_of_lt pux)
    have e : ux * ((2 : Int) ^ 52 * uy) = 2 ^ 52 * (ux * uy) := by ring
    rw [e, hκ] at this
    linarith
  have g4 : ux * |yh| + 4 * ((U : Int) * 2 ^ j) ≤ 2 ^ 55 * ((U : Int) * 2 ^ j) := by
    have := mul_le_mul_of_nonneg_left f4 (le_of_lt pux)
    have e : ux * ((2 : Int) ^ 53 * uy) = 2 ^ 53 * (ux * uy) := by ring
    have e' : ux * (|yh| + uy) = ux * |yh| + ux * uy := by ring
    rw [e, e', hκ] at this
    linarith
  have g5 : 2 * (|xh| * |yl|) ≤ |xh| * uy := by
    have := mul_le_mul_of_nonneg_left hy pAx
    linarith
  have g6 : 2 * (|xl| * |yh|) ≤ ux * |yh| := by
    have := mul_le_mul_of_nonneg_right hx pAy
    linarith
  have g7 : |xl| * |yl| ≤ (U : Int) * 2 ^ j := by
    have := mul_le_mul hx hy (by positivity) (le_of_lt pux)
    rw [hκ] at this
    linarith
  have g8 : 2 ^ 52 * (ux * |yh|) + 2 ^ 52 * (|xh| * uy) ≤ |xh| * |yh| + 2 ^ 106 * ((U : Int) * 2 ^ j) := by
    have := mul_nonneg (sub_nonneg.2 f1) (sub_nonneg.2 f3)
    have e : (|xh| - 2 ^ 52 * ux) * (|yh| - 2 ^ 52 * uy)
        = |xh| * |yh| - 2 ^ 52 * (ux * |yh|) - 2 ^ 52 * (|xh| * uy) + 2 ^ 104 * (ux * uy) := by ring
    rw [e, hκ] at this
    linarith
  have g9 : |xh| * |yh| < 2 ^ 108 * ((U : Int) * 2 ^ j) := by
    have h1 : |xh| < 2 ^ 53 * ux := by linarith
    have h2 : |yh| < 2 ^ 53 * uy := by linarith
    have := mul_lt_mul'' h1 h2 pAx pAy
    have e : (2 : Int) ^ 53 * ux * (2 ^ 53 * uy) = 2 ^ 106 * (ux * uy) := by ring
    rw [e, hκ] at this
    linarith
  -- lower bound of the exact product when neither high word is a power of two
  have hPl : (2 ^ 52 + 1) * ux ≤ |xh| → (2 ^ 52 + 1) * uy ≤ |yh| →
      (2 ^ 106 + 2 ^ 54 + 1) * ((U : Int) * 2 ^ j) ≤ |(xh + xl) * (yh + yl)| := by
    intro h1 h2
    have hX : |xh| ≤ |xh + xl| + |xl| := by
      have := abs_add_le (xh + xl) (-xl)
      rwa [abs_neg, add_neg_cancel_right] at this
    have hY : |yh| ≤ |yh + yl| + |yl| := by
      have := abs_add_le (yh + yl) (-yl)
      rwa [abs_neg, add_neg_cancel_right] at this
    have hX2 : (2 ^ 53 + 1) * ux ≤ 2 * |xh + xl| := by linarith
    have hY2 : (2 ^ 53 + 1) * uy ≤ 2 * |yh + yl| := by linarith
    have := mul_le_mul hX2 hY2 (by positivity) (by positivity)
    have e : (2 ^ 53 + 1) * ux * ((2 ^ 53 + 1) * uy) = (2 ^ 53 + 1) ^ 2 * (ux * uy) := by ring
    rw [e, hκ] at this
    rw [abs_mul]
    linarith
  -- abs of the products
  have a0 : |xh * yh| = |xh| * |yh| := abs_mul _ _
  have a1 : |xh * yl| = |xh| * |yl| := abs_mul _ _
  have a2 : |xl * yh| = |xl| * |yh| := abs_mul _ _
  have a3 : |xl * yl| = |xl| * |yl| := abs_mul _ _
  -- rounding errors
  have r1 := rqI_err_le (xl * yl) hU
  rw [← ht0] at r1
  have m0 : |tl0 * (U : Int)| ≤ |xl * yl| + |xl * yl + -tl0 * (U : Int)| := by
    have := abs_add_le (xl * yl) (-(xl * yl + -tl0 * (U : Int)))
    rw [abs_neg] at this
    have e : xl * yl + -(xl * yl + -tl0 * (U : Int)) = tl0 * (U : Int) := by ring
    rwa [e] at this
  have n2 := abs_add_le (xh * yl) (tl0 * (U : Int))
  have r2 := rqI_err_of_lt (p := xh * yl + tl0 * (U : Int)) (m := j + 1) hU (by rw [e1]; linarith)
  rw [← ht1, e1] at r2
  have m1 : |tl1 * (U : Int)| ≤ |xh * yl + tl0 * (U : Int)| + |xh * yl + tl0 * (U : Int) + -tl1 * (U : Int)| := by
    have := abs_add_le (xh * yl + tl0 * (U : Int)) (-(xh * yl + tl0 * (U : Int) + -tl1 * (U : Int)))
    rw [abs_neg] at this
    have e : xh * yl + tl0 * (U : Int) + -(xh * yl + tl0 * (U : Int) + -tl1 * (U : Int)) = tl1 * (U : Int) := by ring
    rwa [e] at this
  have n3 := abs_add_le (xl * yh) (tl1 * (U : Int))
  have r3 := rqI_err_of_lt (p := xl * yh + tl1 * (U : Int)) (m := j + 2) hU (by rw [e2]; linarith)
  rw [← hc2, e2] at r3
  have m2 : |cl2 * (U : Int)| ≤ |xl * yh + tl1 * (U : Int)| + |xl * yh + tl1 * (U : Int) + -cl2 * (U : Int)| := by
    have := abs_add_le (xl * yh + tl1 * (U : Int)) (-(xl * yh + tl1 * (U : Int) + -cl2 * (U : Int)))
    rw [abs_neg] at this
    have e : xl * yh + tl1 * (U : Int) + -(xl * yh + tl1 * (U : Int) + -cl2 * (U : Int)) = cl2 * (U : Int) := by ring
    rwa [e] at this
  have c1a : |xh * yh| < 2 ^ 107 * ((U : Int) * 2 ^ j) →
      2 * (|Q - rnI Q| * (U : Int)) ≤ 2 ^ 54 * ((U : Int) * 2 ^ j) := by
    intro h
    have := resid_le_of_lt (Q := Q) (m := j + 54) hU (by rw [← hQ, e54]; linarith)
    rwa [e54] at this
  have c1b : 2 * (|Q - rnI Q| * (U : Int)) ≤ 2 ^ 55 * ((U : Int) * 2 ^ j) := by
    have := resid_le_of_lt (Q := Q) (m := j + 55) hU (by rw [← hQ, e55, a0]; linarith)
    rwa [e55] at this
  have n4 : |Q - rnI Q + cl2| * (U : Int) ≤ |Q - rnI Q| * (U : Int) + |cl2 * (U : Int)| := by
    have := mul_le_mul_of_nonneg_right (abs_add_le (Q - rnI Q) cl2) (le_of_lt hUi)
    rw [abs_mul cl2, abs_of_pos hUi]
    linarith
  have r4a : |Q - rnI Q + cl2| * (U : Int) < 2 ^ 55 * ((U : Int) * 2 ^ j) →
      2 * (|cl3 - (Q - rnI Q + cl2)| * (U : Int)) ≤ 4 * ((U : Int) * 2 ^ j) := by
    intro h
    have := rnI_err_mul_of_lt (n := Q - rnI Q + cl2) (m := j + 2) hU (by rw [e2]; linarith)
    rwa [e2, ← hc3] at this
  have r4b : |Q - rnI Q + cl2| * (U : Int) < 2 ^ 56 * ((U : Int) * 2 ^ j) →
      2 * (|cl3 - (Q - rnI Q + cl2)| * (U : Int)) ≤ 8 * ((U : Int) * 2 ^ j) := by
    intro h
    have := rnI_err_mul_of_lt (n := Q - rnI Q + cl2) (m := j + 3) hU (by rw [e3]; linarith)
    rwa [e3, ← hc3] at this
  -- the error is the sum of the four rounding errors
  have herr : (rnI Q + cl3) * (U : Int) - (xh + xl) * (yh + yl)
      = -((xl * yl + -tl0 * (U : Int)) + (xh * yl + tl0 * (U : Int) + -tl1 * (U : Int))
          + (xl * yh + tl1 * (U : Int) + -cl2 * (U : Int))) + (cl3 - (Q - rnI Q + cl2)) * (U : Int) := by
    have : (xh + xl) * (yh + yl) = Q * (U : Int) + xh * yl + xl * yh + xl * yl := by rw [← hQ]; ring
    rw [this]; ring
  have t1 := abs_add_le (-((xl * yl + -tl0 * (U : Int)) + (xh * yl + tl0 * (U : Int) + -tl1 * (U : Int))
          + (xl * yh + tl1 * (U : Int) + -cl2 * (U : Int)))) ((cl3 - (Q - rnI Q + cl2)) * (U : Int))
  rw [abs_neg, abs_mul (cl3 - (Q - rnI Q + cl2)), abs_of_pos hUi] at t1
  have t2 := abs_add_le ((xl * yl + -tl0 * (U : Int)) + (xh * yl + tl0 * (U : Int) + -tl1 * (U : Int)))
    (xl * yh + tl1 * (U : Int) + -cl2 * (U : Int))
  have t3 := abs_add_le (xl * yl + -tl0 * (U : Int)) (xh * yl + tl0 * (U : Int) + -tl1 * (U : Int))
  have hP : |xh * yh| ≤ |(xh + xl) * (yh + yl)| + |xh * yl| + |xl * yh| + |xl * yl| := by
    have p1 := abs_add_le ((xh + xl) * (yh + yl)) (-(xh * yl + xl * yh + xl * yl))
    have p2 := abs_add_le (xh * yl + xl * yh) (xl * yl)
    have p3 := abs_add_le (xh * yl) (xl * yh)
    rw [abs_neg] at p1
    have e : (xh + xl) * (yh + yl) + -(xh * yl + xl * yh + xl * yl) = xh * yh := by ring
    rw [e] at p1
    linarith
  rw [herr]
  rw [a0] at hP c1a
  rw [a1] at hP n2
  rw [a2] at hP n3
  rw [a3] at hP m0 r1
  generalize |xl * yl + -tl0 * (U : Int)| = D1 at *
  generalize |xh * yl + tl0 * (U : Int) + -tl1 * (U : Int)| = D2 at *
  generalize |xl * yh + tl1 * (U : Int) + -cl2 * (U : Int)| = D3 at *
  generalize |cl3 - (Q - rnI Q + cl2)| * (U : Int) = D4 at *
  generalize |Q - rnI Q| * (U : Int) = C1 at *
  generalize |Q - rnI Q + cl2| * (U : Int) = N4 at *
  generalize |xh * yl + tl0 * (U : Int)| = N2 at *
  generalize |xl * yh + tl1 * (U : Int)| = N3 at *
  generalize |tl0 * (U : Int)| = T0 at *
  generalize |tl1 * (U : Int)| = T1 at *
  generalize |cl2 * (U : Int)| = C2 at *
  generalize |xh| * |yh| = A at *
  generalize |xh| * |yl| = B1 at *
  generalize |xl| * |yh| = B2 at *
  generalize |xl| * |yl| = Z at *
  generalize |xh| * uy = p at *
  generalize ux * |yh| = q at *
  generalize (U : Int) * 2 ^ j = κ at *
  generalize |(xh + xl) * (yh + yl)| = P at *
  have hpow : ∀ hR : RepI Q, 2 ^ 106 * (D1 + D2 + D3 + D4) ≤ 5 * P := by
    intro hR
    obtain ⟨hC0, hD0⟩ := z0 hR
    have hD2 := r2
    have hD3 := r3
    linarith
  rcases dx with hx2 | hx1
  · have := hpow (c0x hx2)
    linarith
  rcases dy with hy2 | hy1
  · have := hpow (c0y hy2)
    linarith
  have hP := hPl hx1 hy1
  rcases lt_or_ge A (2 ^ 107 * κ) with hA | hA
  · have hC1 := c1a hA
    rcases lt_or_ge N4 (2 ^ 55 * κ) with hN | hN
    · have hD4 := r4a hN
      linarith
    · have hD4 := r4b (by linarith)
      linarith
  · have hD4 := r4b (by linarith)
    linarith

end F64

namespace TwoFloat

open F64

/-- **`TwoFloat * TwoFloat` (DWTimesDW3), relative error `≤ 5u²` EXACTLY, wide range**: both high words normal, and
their product of magnitude in `[2^-901, 2^1021)` (scaled `[2^1247, 2^3169)`). -/
theorem mul_tt_bound_5u2_wide {x y : TwoFloat} (hvx : x.Valid) (hwx : x.WF) (hvy : y.Valid) (hwy : y.WF)
    (hx : 2 ^ 53 ≤ |x.hi.toInt|) (hy : 2 ^ 53 ≤ |y.hi.toInt|)
    (hlo : 2 ^ 1247 ≤ |x.hi.toInt * y.hi.toInt|) (hhi : |x.hi.toInt * y.hi.toInt| < 2 ^ 3169) :
    (arithmetic.impl_Mul_rTwoFloat_for_rTwoFloat.mul x y).Valid ∧
    |(arithmetic.impl_Mul_rTwoFloat_for_rTwoFloat.mul x y).V * (unit : Int) - x.V * y.V| * 2 ^ 106
      ≤ 5 * |x.V * y.V| := by
  have hr : x.hi.toInt * y.hi.toInt = 0 ∨
      ((2 : Int) ^ 1188 ≤ |x.hi.toInt * y.hi.toInt| ∧ |x.hi.toInt * y.hi.toInt| < (2 : Int) ^ 3169) :=
    Or.inr ⟨le_trans (pow_le_pow_right₀ (by norm_num) (by norm_num)) hlo, hhi⟩
  obtain ⟨Q, hQ, hV, hval⟩ := mul_tt_values hvx hwx hvy hwy hr
  refine ⟨hV, ?_⟩
  rw [hval]
  obtain ⟨hax, hay, j, hj, hκ⟩ := ulp_prod_of_prod_ge hx hy hlo
  have h := dwtimesdw_err_5u2_exact unit_pos unit_eq hwx.1.repI hwy.1.repI hvx.two_mul_abs_lo_le
    hvy.two_mul_abs_lo_le hax hay hκ hj hQ rfl rfl rfl rfl
  have eP : x.V * y.V = (x.hi.toInt + x.lo.toInt) * (y.hi.toInt + y.lo.toInt) := by unfold TwoFloat.V; ring
  rw [eP, mul_comm _ ((2 : Int) ^ 106)]
  exact h

/-- **C04, `TwoFloat * TwoFloat`: relative error `≤ 5u² = 5·2^-106` exactly** on the property's range (high words of
magnitude in `[2^-450, 2^450]`, scaled `[2^624, 2^1524]`). -/
theorem mul_tt_bound_5u2 {x y : TwoFloat} (hvx : x.Valid) (hwx : x.WF) (hvy : y.Valid) (hwy : y.WF)
    (hx : 2 ^ 624 ≤ x.hi.toInt.natAbs ∧ x.hi.toInt.natAbs ≤ 2 ^ 1524)
    (hy : 2 ^ 624 ≤ y.hi.toInt.natAbs ∧ y.hi.toInt.natAbs ≤ 2 ^ 1524) :
    (arithmetic.impl_Mul_rTwoFloat_for_rTwoFloat.mul x y).Valid ∧
    |(arithmetic.impl_Mul_rTwoFloat_for_rTwoFloat.mul x y).V * (unit : Int) - x.V * y.V| * 2 ^ 106
      ≤ 5 * |x.V * y.V| := by
  have h1 : (2 : Int) ^ 624 ≤ |x.hi.toInt| := by rw [← Int.natCast_natAbs]; exact_mod_cast hx.1
  have h2 : |x.hi.toInt| ≤ (2 : Int) ^ 1524 := by rw [← Int.natCast_natAbs]; exact_mod_cast hx.2
  have h3 : (2 : Int) ^ 624 ≤ |y.hi.toInt| := by rw [← Int.natCast_natAbs]; exact_mod_cast hy.1
  have h4 : |y.hi.toInt| ≤ (2 : Int) ^ 1524 := by rw [← Int.natCast_natAbs]; exact_mod_cast hy.2
  apply mul_tt_bound_5u2_wide hvx hwx hvy hwy
  · exact le_trans (pow_le_pow_right₀ (by norm_num) (by norm_num)) h1
  · exact le_trans (pow_le_pow_right₀ (by norm_num) (by norm_num)) h3
  · rw [abs_mul]
    calc (2 : Int) ^ 1247 ≤ 2 ^ 624 * 2 ^ 624 := by
          rw [← pow_add]; exact pow_le_pow_right₀ (by norm_num) (by norm_num)
      _ ≤ |x.hi.toInt| * |y.hi.toInt| := mul_le_mul h1 h3 (by positivity) (abs_nonneg _)
  · rw [abs_mul]
    calc |x.hi.toInt| * |y.hi.toInt| ≤ 2 ^ 1524 * 2 ^ 1524 := mul_le_mul h2 h4 (abs_nonneg _) (by positivity)
      _ < (2 : Int) ^ 3169 := by
          rw [← pow_add]; exact pow_lt_pow_right₀ (by norm_num) (by norm_num)

end TwoFloat

/-! ## 2. DWDivFP3 (`TwoFloat / f64`) with the paper's constant `3u²`

Joldes–Muller–Popescu 2017, Algorithm 15 / Theorem 4.1.  `T = RN(A·U/B)`, `T·B = Q·U` (2Prod exact), `A − Q` exact,
`δ = A − Q + Al`, `d = RN(δ)`, `tl = RN(d·U/B)`; the error is `(tl·B − d·U) + (d − δ)·U`.  With `ea, eb` the ulps of
`A, B` and `et = 2^54·g` the ulp of the exact quotient there are two exponent configurations
(`F64.div_exponents`): `ea·U = 2^52·et·eb` (quotient mantissa `≥` 1, "H") or `ea·U = 2^53·et·eb` ("L").
* L: `|δ| < ea`, errors `≤ 2^-54 ea` and `≤ 2^-53 et·|B|`; closes with `|A + Al| ≥ (2^52 − 1/4) ea` (`fix_lower`:
  inward low words at a binade boundary are at most a quarter ulp).
* H, `|δ| ≤ ea`: errors `≤ 2^-54 ea`, `≤ 2^-54 et·|B|`; closes with `|A|·eb ≥ |B|·ea`.
* H, `|δ| > ea`: then `B` is not a power of two and the quotient is not exact, hence `|A|·eb ≥ (|B| + eb)·ea`;
  errors `≤ 2^-53 ea`, and `|d·U/B| ≤ et` so the second error is `≤ 2^-54 et·|B|`. -/

namespace F64

open TwoFloat

/-- the error of a rounded quotient, factored by the sign of the numerator -/
theorem rdI_mul_sub (p q : Int) :
    rdI p q * q - p = Int.sign p * (((roundQ p.natAbs q.natAbs : Nat) : Int) * |q| - |p|) := by
  unfold rdI
  have h1 : Int.sign q * q = |q| := Int.sign_mul_self_eq_abs q
  have h2 : Int.sign p * |p| = p := Int.sign_mul_abs p
  calc Int.sign p * Int.sign q * ((roundQ p.natAbs q.natAbs : Nat) : Int) * q - p
      = Int.sign p * ((roundQ p.natAbs q.natAbs : Nat) : Int) * (Int.sign q * q)
          - Int.sign p * |p| := by rw [h2]; ring
    _ = _ := by rw [h1]; ring

/-- a quotient that is representable is computed exactly -/
theorem rdI_exact {p q : Int} {n : Nat} (hq : q ≠ 0) (hn : Rep n) (h : |p| = (n : Int) * |q|) :
    rdI p q * q = p := by
  have hqn : 0 < q.natAbs := Int.natAbs_pos.2 hq
  have e1 : p.natAbs = n * q.natAbs := by
    rw [← Int.natCast_natAbs p, ← Int.natCast_natAbs q] at h; exact_mod_cast h
  have e2 := rdI_mul_sub p q
  rw [e1, roundQ_mul_of_rep hqn hn, h, sub_self, mul_zero] at e2
  linarith

/-- half-ulp error of a rounded quotient of magnitude AT MOST `2^53·2^m` (the power of two itself is exact) -/
theorem rdI_err_cap {p q : Int} {m : Nat} (hq : q ≠ 0) (h : |p| ≤ 2 ^ 53 * (|q| * 2 ^ m)) :
    2 * |rdI p q * q - p| ≤ |q| * 2 ^ m := by
  rcases lt_or_eq_of_le h with h1 | h1
  · have he := rdI_err p hq
    have hqn : 0 < q.natAbs := Int.natAbs_pos.2 hq
    have hk : Nat.log2 (p.natAbs / q.natAbs) - 52 ≤ m := by
      apply log2_sub_le
      rw [Nat.div_lt_iff_lt_mul hqn]
      rw [← Int.natCast_natAbs p, ← Int.natCast_natAbs q] at h1
      have h' : p.natAbs < 2 ^ 53 * (q.natAbs * 2 ^ m) := by exact_mod_cast h1
      calc p.natAbs < 2 ^ 53 * (q.natAbs * 2 ^ m) := h'
        _ = 2 ^ 53 * 2 ^ m * q.natAbs := by ring
    have hp : (2 : Int) ^ (Nat.log2 (p.natAbs / q.natAbs) - 52) ≤ 2 ^ m := pow_le_pow_right₀ (by norm_num) hk
    exact le_trans he (mul_le_mul_of_nonneg_left hp (abs_nonneg q))
  · have := rdI_exact (n := 2 ^ 53 * 2 ^ m) hq (by rw [← Nat.pow_add]; exact rep_two_pow _)
      (by rw [h1]; push_cast; ring)
    rw [this, sub_self, abs_zero, mul_zero]; positivity

/-- closing step: from `ea·U = c·g·eb`, `ea·S ≤ 3·eb·X` and `2^106·E ≤ c·g·S` conclude `2^106·E ≤ 3·X·U` -/
theorem close3 {E X U ea eb g S c : Int} (heb : 0 < eb) (hU : 0 ≤ U) (hrel : ea * U = c * g * eb)
    (hkey : ea * S ≤ 3 * eb * X) (hE : 2 ^ 106 * E ≤ c * g * S) : 2 ^ 106 * E ≤ 3 * X * U := by
  have h1 := mul_le_mul_of_nonneg_right hkey hU
  have h2 := mul_le_mul_of_nonneg_right hE heb.le
  have h3 : c * g * S * eb = ea * S * U := by
    rw [show c * g * S * eb = (c * g * eb) * S by ring, ← hrel]; ring
  have h4 : 2 ^ 106 * E * eb ≤ 3 * X * U * eb := by rw [h3] at h2; linarith
  exact le_of_mul_le_mul_right h4 heb


/-- **DWDivFP3 (Joldes–Muller–Popescu 2017, Algorithm 15, Theorem 4.1) on scaled integers: `3u²`.** -/
theorem divtf_3u2_int {A Al B Q T d tl : Int} {U eA eB m0 u : Nat} (hU : U = 2 ^ u)
    (hfix : A = rnI (A + Al))
    (hA1 : 2 ^ 52 * 2 ^ eA ≤ |A|) (hAd : (2 : Int) ^ eA ∣ A) (heA : 1 ≤ eA)
    (hB1 : 2 ^ 52 * 2 ^ eB ≤ |B|) (hB2 : |B| + 2 ^ eB ≤ 2 ^ 53 * 2 ^ eB) (hBd : (2 : Int) ^ eB ∣ B)
    (hT : T = rdI (A * (U : Int)) B) (hTB : T * B = Q * (U : Int))
    (hres : 2 * (|A - Q| * (U : Int)) ≤ |B| * 2 ^ (m0 + 54))
    (hq1 : 2 ^ 52 * (|B| * 2 ^ (m0 + 54)) ≤ |A| * (U : Int))
    (hexp : eA + u = m0 + 54 + eB + 52 ∨ eA + u = m0 + 54 + eB + 53)
    (hAl : 2 * |Al| ≤ 2 ^ eA)
    (hd : d = rnI (A - Q + Al)) (htl : tl = rdI (d * (U : Int)) B) :
    2 ^ 106 * |(T + tl) * B - (A + Al) * (U : Int)| ≤ 3 * |(A + Al) * (U : Int)| := by
  have hUc : (U : Int) = 2 ^ u := by rw [hU]; norm_cast
  have hUi : (0 : Int) < (U : Int) := by rw [hUc]; positivity
  have pea := two_pow_pos' eA
  have peb := two_pow_pos' eB
  have pg := two_pow_pos' m0
  have hB0 : B ≠ 0 := by
    intro h; rw [h, abs_zero] at hB1
    have := mul_pos (two_pow_pos' 52) peb
    linarith
  have eet : (2 : Int) ^ (m0 + 54) = 2 ^ 54 * 2 ^ m0 := by rw [pow_add]; ring
  have e2g : (2 : Int) ^ (m0 + 1) = 2 * 2 ^ m0 := by rw [pow_succ]; ring
  have e4g : (2 : Int) ^ (m0 + 2) = 4 * 2 ^ m0 := by rw [pow_add]; ring
  have eea : (2 : Int) ^ (eA + 1) = 2 * 2 ^ eA := by rw [pow_succ]; ring
  have h106 : (2 : Int) ^ 106 * 2 ^ m0 * 2 ^ eB = 2 ^ (106 + m0 + eB) := by rw [pow_add, pow_add]
  have h107 : (2 : Int) ^ 107 * 2 ^ m0 * 2 ^ eB = 2 ^ (107 + m0 + eB) := by rw [pow_add, pow_add]
  have hrel : (2 : Int) ^ eA * (U : Int) = 2 ^ 106 * 2 ^ m0 * 2 ^ eB ∨
      (2 : Int) ^ eA * (U : Int) = 2 ^ 107 * 2 ^ m0 * 2 ^ eB := by
    rcases hexp with h | h
    · left; rw [hUc, h106, ← pow_add, h]; congr 1; omega
    · right; rw [hUc, h107, ← pow_add, h]; congr 1; omega
  -- the pair's value is at least a quarter ulp below the binade boundary
  have hFL : (2 ^ 54 - 1) * (2 : Int) ^ eA ≤ 4 * |A + Al| := by
    obtain ⟨k, hk⟩ : ∃ k, eA = k + 1 := ⟨eA - 1, by omega⟩
    have e : (2 : Int) ^ eA = 2 * 2 ^ k := by rw [hk, pow_succ]; ring
    have := fix_lower (e := k) hfix (by rw [e] at hA1; linarith)
    rw [e]; linarith
  -- rounding facts
  have R1 : |A - Q + Al| ≤ 2 ^ eA → 2 ^ 54 * |d - (A - Q + Al)| ≤ 2 ^ eA := by
    intro h; rw [hd]; exact err_le_of_abs_le_pow h
  have R1' : |A - Q + Al| < 2 * 2 ^ eA → 2 ^ 54 * |d - (A - Q + Al)| ≤ 2 * 2 ^ eA := by
    intro h; rw [hd, ← eea]; exact err_le_of_abs_lt_pow (by rw [eea]; exact h)
  have R2 : |A - Q + Al| ≤ 2 ^ eA → |d| ≤ 2 ^ eA := by
    intro h; rw [hd]; exact abs_rnI_le_pow h
  have R3 : |d| * (U : Int) ≤ 2 ^ 53 * (|B| * (4 * 2 ^ m0)) →
      2 * |tl * B - d * (U : Int)| ≤ |B| * (4 * 2 ^ m0) := by
    intro h; rw [htl, ← e4g]; exact rdI_err_cap hB0 (by rw [abs_mul, abs_of_pos hUi, e4g]; exact h)
  have R4 : |d| * (U : Int) ≤ 2 ^ 53 * (|B| * (2 * 2 ^ m0)) →
      2 * |tl * B - d * (U : Int)| ≤ |B| * (2 * 2 ^ m0) := by
    intro h; rw [htl, ← e2g]; exact rdI_err_cap hB0 (by rw [abs_mul, abs_of_pos hUi, e2g]; exact h)
  -- exact quotient
  have X1 : (2 : Int) ^ eA * (U : Int) = 2 ^ 106 * 2 ^ m0 * 2 ^ eB → |A| * 2 ^ eB = |B| * 2 ^ eA →
      |A - Q| = 0 := by
    intro hr he
    have h1 : |A * (U : Int)| = ((2 ^ (106 + m0) : Nat) : Int) * |B| := by
      rw [abs_mul, abs_of_pos hUi]; push_cast; rw [pow_add]
      have : (|A| * (U : Int)) * 2 ^ eB = (2 ^ 106 * 2 ^ m0 * |B|) * 2 ^ eB := by
        calc |A| * (U : Int) * 2 ^ eB = (|A| * 2 ^ eB) * (U : Int) := by ring
          _ = |B| * (2 ^ eA * (U : Int)) := by rw [he]; ring
          _ = _ := by rw [hr]; ring
      exact mul_right_cancel₀ (ne_of_gt peb) this
    have h2 := rdI_exact hB0 (rep_two_pow (106 + m0)) h1
    rw [← hT, hTB] at h2
    have h3 : Q = A := mul_right_cancel₀ (ne_of_gt hUi) h2
    rw [h3, sub_self, abs_zero]
  have DV1 := pow2_or_succ_of_dvd hBd hB1
  have DV2 : |B| * 2 ^ eA ≤ |A| * 2 ^ eB →
      |A| * 2 ^ eB = |B| * 2 ^ eA ∨ |B| * 2 ^ eA + 2 ^ eA * 2 ^ eB ≤ |A| * 2 ^ eB := by
    obtain ⟨m, hm⟩ := hAd
    obtain ⟨n, hn⟩ := hBd
    have ha : |A| = 2 ^ eA * |m| := by rw [hm, abs_mul, abs_of_pos pea]
    have hb : |B| = 2 ^ eB * |n| := by rw [hn, abs_mul, abs_of_pos peb]
    rw [ha, hb]; intro h
    have pp := mul_pos pea peb
    have hmn : |n| ≤ |m| := by
      by_contra hc
      have h1 : |m| + 1 ≤ |n| := by omega
      have := mul_le_mul_of_nonneg_left h1 (le_of_lt pp)
      linarith
    rcases eq_or_lt_of_le hmn with he | hlt
    · left; rw [he]; ring
    · right
      have h1 : |n| + 1 ≤ |m| := by omega
      have := mul_le_mul_of_nonneg_left h1 (le_of_lt pp)
      linarith
  -- triangle inequalities
  have F1 := abs_add_le (A - Q) Al
  have F2 : |A| ≤ |A + Al| + |Al| := by
    have := abs_add_le (A + Al) (-Al)
    rwa [abs_neg, add_neg_cancel_right] at this
  have F3 : |(T + tl) * B - (A + Al) * (U : Int)|
      ≤ |tl * B - d * (U : Int)| + |d - (A - Q + Al)| * (U : Int) := by
    have e : (T + tl) * B - (A + Al) * (U : Int)
        = (tl * B - d * (U : Int)) + (d - (A - Q + Al)) * (U : Int) := by linarith [hTB]
    rw [e]
    have := abs_add_le (tl * B - d * (U : Int)) ((d - (A - Q + Al)) * (U : Int))
    rwa [abs_mul (d - (A - Q + Al)), abs_of_pos hUi] at this
  have F4 : |(A + Al) * (U : Int)| = |A + Al| * (U : Int) := abs_mul_pos_right _ hUi
  have F5 := abs_le_add_abs_sub d (A - Q + Al)
  have n1 := abs_nonneg (A - Q)
  have n2 := abs_nonneg Al
  have n3 := abs_nonneg (d - (A - Q + Al))
  have n4 := abs_nonneg (tl * B - d * (U : Int))
  have n5 := abs_nonneg d
  have n6 := abs_nonneg (A + Al)
  have n7 := abs_nonneg (A - Q + Al)
  rw [F4]
  rw [eet] at hres hq1
  clear hT hTB hd htl hfix hAd hBd F4 eet e2g e4g eea h106 h107 hexp hUc hB0
  generalize |(T + tl) * B - (A + Al) * (U : Int)| = Eabs at *
  generalize |tl * B - d * (U : Int)| = e2 at *
  generalize |d - (A - Q + Al)| = e1 at *
  generalize |A - Q + Al| = dl at *
  generalize |d| = dd at *
  generalize |A - Q| = r at *
  generalize |Al| = l at *
  generalize |A + Al| = X at *
  generalize |A| = a at *
  generalize |B| = b at *
  generalize (2 : Int) ^ eA = ea at *
  generalize (2 : Int) ^ eB = eb at *
  generalize (2 : Int) ^ m0 = g at *
  generalize (U : Int) = Ui at *
  -- product facts
  have pee := mul_pos pea peb
  have pbg := mul_pos peb pg
  have pAe := mul_le_mul_of_nonneg_right hA1 peb.le
  have pBe := mul_le_mul_of_nonneg_right hB1 pea.le
  have pBg := mul_le_mul_of_nonneg_right hB1 pg.le
  have pB2g := mul_le_mul_of_nonneg_right hB2 pg.le
  have pB2e := mul_le_mul_of_nonneg_right hB2 pea.le
  have pLe := mul_le_mul_of_nonneg_right hAl peb.le
  have pXe := mul_le_mul_of_nonneg_right F2 peb.le
  have pFLe := mul_le_mul_of_nonneg_right hFL peb.le
  rcases hrel with hr | hr
  · -- quotient mantissa ≥ 1
    have hab : b * ea ≤ a * eb := by
      have h1 := mul_le_mul_of_nonneg_right hq1 peb.le
      have h3 : b * (ea * Ui) = b * (2 ^ 106 * g * eb) := by rw [hr]
      have : (b * ea) * Ui ≤ (a * eb) * Ui := by linarith
      exact le_of_mul_le_mul_right this hUi
    have s1 : r < ea := by
      have : r * Ui < ea * Ui := by linarith
      exact lt_of_mul_lt_mul_right this hUi.le
    have hdl2 : dl < 2 * ea := by linarith
    rcases le_or_gt dl ea with hdl | hdl
    · have h1 := R1 hdl
      have h2 := R2 hdl
      have h3 := mul_le_mul_of_nonneg_right h2 hUi.le
      have h4 := R4 (by linarith)
      have h5 := mul_le_mul_of_nonneg_right h1 hUi.le
      have key : ea * (b + 2 ^ 52 * eb) ≤ 3 * eb * X := by linarith
      have hE : 2 ^ 106 * Eabs ≤ 2 ^ 106 * g * (b + 2 ^ 52 * eb) := by linarith
      have := close3 peb hUi.le hr key hE
      linarith
    · -- the divisor is not a power of two
      have hb1 : (2 ^ 52 + 1) * eb ≤ b := by
        rcases DV1 with h | h
        · exfalso
          rw [h] at hres
          have : (2 * r) * Ui ≤ ea * Ui := by linarith
          have := le_of_mul_le_mul_right this hUi
          linarith
        · exact h
      -- the quotient is not exact
      have hab1 : b * ea + ea * eb ≤ a * eb := by
        rcases DV2 hab with h | h
        · exfalso
          have := X1 hr h
          linarith
        · exact h
      have h1 := R1' hdl2
      have hr53 : 2 ^ 53 * eb * r ≤ ea * b := by
        have h2 := mul_le_mul_of_nonneg_right hres (show (0 : Int) ≤ 2 ^ 52 * eb by positivity)
        have h3 : b * (ea * Ui) = b * (2 ^ 106 * g * eb) := by rw [hr]
        have : (2 ^ 53 * eb * r) * Ui ≤ (ea * b) * Ui := by linarith
        exact le_of_mul_le_mul_right this hUi
      have pdl := mul_le_mul_of_nonneg_left F1 (show (0 : Int) ≤ 2 ^ 53 * eb by positivity)
      have pe1 := mul_le_mul_of_nonneg_right h1 peb.le
      have pdd := mul_le_mul_of_nonneg_left F5 (show (0 : Int) ≤ 2 ^ 53 * eb by positivity)
      have pb1 := mul_le_mul_of_nonneg_right hb1 pea.le
      have hdd : 2 ^ 52 * eb * dd ≤ ea * b := by linarith
      have hddU : dd * Ui ≤ 2 ^ 53 * (b * (2 * g)) := by
        have h2 := mul_le_mul_of_nonneg_right hdd hUi.le
        have h3 : b * (ea * Ui) = b * (2 ^ 106 * g * eb) := by rw [hr]
        have : (2 ^ 52 * (dd * Ui)) * eb ≤ (2 ^ 106 * (b * g)) * eb := by linarith
        have := le_of_mul_le_mul_right this peb
        linarith
      have h4 := R4 hddU
      have h5 := mul_le_mul_of_nonneg_right h1 hUi.le
      have key : ea * (b + 2 ^ 53 * eb) ≤ 3 * eb * X := by linarith
      have hE : 2 ^ 106 * Eabs ≤ 2 ^ 106 * g * (b + 2 ^ 53 * eb) := by linarith
      have := close3 peb hUi.le hr key hE
      linarith
  · -- quotient mantissa < 1
    have s1 : 2 * r < ea := by
      have : (2 * r) * Ui < ea * Ui := by linarith
      exact lt_of_mul_lt_mul_right this hUi.le
    have hdl : dl ≤ ea := by linarith
    have h1 := R1 hdl
    have h2 := R2 hdl
    have h3 := mul_le_mul_of_nonneg_right h2 hUi.le
    have h4 := R3 (by linarith)
    have h5 := mul_le_mul_of_nonneg_right h1 hUi.le
    have key : ea * (b + 2 ^ 52 * eb) ≤ 3 * eb * X := by linarith
    have hE : 2 ^ 106 * Eabs ≤ 2 ^ 107 * g * (b + 2 ^ 52 * eb) := by linarith
    have := close3 peb hUi.le hr key hE
    linarith

/-- **`TwoFloat / f64` (DWDivFP3), value level, with the paper's constant `3u²`.**  Hypotheses as for
`div_tf_val_partial`: divisor normal, `|x.hi| ≥ 2^-969`, `|x.hi / c| ≥ 2^-954`, no overflow. -/
theorem div_tf_val_3u2 {x : TwoFloat} {c : F64} (hx : x.Valid) (hwx : x.WF) (hc : c.is_finite = true)
    (hwc : c.WF) (hB52 : 2 ^ 52 ≤ c.toInt.natAbs) (hA105 : 2 ^ 105 ≤ x.hi.toInt.natAbs)
    (hA2 : 2 * |x.hi.toInt| ≤ (maxFin : Int))
    (hq : 2 ^ 120 * c.toInt.natAbs ≤ x.hi.toInt.natAbs * unit)
    (hov : 2 * roundQ (x.hi.toInt.natAbs * unit) c.toInt.natAbs ≤ maxFin) :
    (arithmetic.impl_Div_rf64_for_rTwoFloat.div x c).Valid ∧
    2 ^ 106 * |(arithmetic.impl_Div_rf64_for_rTwoFloat.div x c).V * c.toInt - x.V * (unit : Int)|
      ≤ 3 * |x.V * (unit : Int)| := by
  have hUi := unit_pos_int
  have hq52 : 2 ^ 52 * c.toInt.natAbs ≤ x.hi.toInt.natAbs * unit :=
    Nat.le_trans (Nat.mul_le_mul_right _ (by norm_num)) hq
  obtain ⟨Q, hQ, r1, r2, r3, m1, m2, m3, m4, hres⟩ :=
    div_residual_int' unit_eq hwx.1.repI hwc.repI hB52 hA105 hq52
  have hB0 : c.toInt ≠ 0 := by
    intro h; rw [h] at hB52; simp at hB52
  have hbpos : 0 < c.toInt.natAbs := Int.natAbs_pos.2 hB0
  have hAmax := hwx.1.abs_toInt_le
  have hTabs := abs_rdI (x.hi.toInt * (unit : Int)) hB0
  rw [natAbs_mul_natCast] at hTabs
  -- th
  have hth : IsVal (F64.div x.hi c) (rdI (x.hi.toInt * (unit : Int)) c.toInt) :=
    div_spec hx.1 hc hB0 (by rw [natAbs_mul_natCast]; omega)
  -- 2Prod
  have hQmax : rn53 Q.natAbs ≤ maxFin := rn53_natAbs_le_maxFin (by omega)
  have hmul := new_mul_words_of (a := F64.div x.hi c) (b := c) hth.1 hc (Q := Q)
    (by rw [hth.2]; exact hQ) hQmax r1
  have hdh := (IsVal.of_finite hx.1).sub_exact hmul.1 r2 (by omega)
  have e1 : x.hi.toInt - rnI Q - (Q - rnI Q) = x.hi.toInt - Q := by ring
  have hdt := hdh.sub_exact hmul.2 (by rw [e1]; exact r3) (by rw [e1]; omega)
  rw [e1] at hdt
  -- the residual is at most `u |xh|`
  have hexp := roundQ_exp_le hbpos hq52
  have hexp' : (2 : Int) ^ 52 * (|c.toInt| * 2 ^ (Nat.log2 (x.hi.toInt.natAbs * unit / c.toInt.natAbs) - 52))
      ≤ |x.hi.toInt| * (unit : Int) := by
    rw [← Int.natCast_natAbs x.hi.toInt, ← Int.natCast_natAbs c.toInt]; exact_mod_cast hexp
  have hdtb : 2 ^ 53 * |(x.hi.toInt - Q) * (unit : Int)| ≤ |x.hi.toInt * (unit : Int)| := by
    rw [abs_mul_pos_right _ hUi, abs_mul_pos_right _ hUi]
    have h1 := hexp'
    generalize |c.toInt| * (2 : Int) ^ (Nat.log2 (x.hi.toInt.natAbs * unit / c.toInt.natAbs) - 52) = E at *
    omega
  have hxl := two_pow_mul_abs_le_of_half_ulp hx.two_mul_abs_lo_le
  have hdtb' : 2 ^ 53 * |x.hi.toInt - Q| ≤ |x.hi.toInt| := by
    rw [abs_mul_pos_right _ hUi, abs_mul_pos_right _ hUi] at hdtb
    have : (2 ^ 53 * |x.hi.toInt - Q|) * (unit : Int) ≤ |x.hi.toInt| * (unit : Int) := by linarith
    exact le_of_mul_le_mul_right this hUi
  have n0 := abs_nonneg x.hi.toInt
  have hsle : |x.hi.toInt - Q + x.lo.toInt| ≤ |x.hi.toInt| := by
    have := abs_add_le (x.hi.toInt - Q) x.lo.toInt
    omega
  -- d
  have hd := hdt.add (IsVal.of_finite hx.2.1) (by omega)
  have hdle : |rnI (x.hi.toInt - Q + x.lo.toInt)| ≤ |x.hi.toInt| := abs_rnI_le hwx.1.repI hsle
  -- tl
  have hmono : roundQ ((rnI (x.hi.toInt - Q + x.lo.toInt)).natAbs * unit) c.toInt.natAbs
      ≤ roundQ (x.hi.toInt.natAbs * unit) c.toInt.natAbs :=
    roundQ_mono _ hbpos (Nat.mul_le_mul_right _ (natAbs_le_of_abs_le (by rw [Int.natCast_natAbs]; exact hdle)))
  have htl : IsVal (F64.div (F64.add (F64.sub (F64.sub x.hi (TwoFloat.new_mul (F64.div x.hi c) c).hi)
      (TwoFloat.new_mul (F64.div x.hi c) c).lo) x.lo) c)
      (rdI (rnI (x.hi.toInt - Q + x.lo.toInt) * (unit : Int)) c.toInt) := by
    have := div_spec hd.1 hc hB0 (by rw [hd.2, natAbs_mul_natCast]; omega)
    rwa [hd.2] at this
  have htlabs := abs_rdI (rnI (x.hi.toInt - Q + x.lo.toInt) * (unit : Int)) hB0
  rw [natAbs_mul_natCast] at htlabs
  have hle : |rdI (rnI (x.hi.toInt - Q + x.lo.toInt) * (unit : Int)) c.toInt|
      ≤ |rdI (x.hi.toInt * (unit : Int)) c.toInt| := by
    rw [htlabs, hTabs]; exact Int.ofNat_le.2 hmono
  rw [div_tf_eq]
  have hf := fast_two_sum_words hth.1 htl.1 (div_WF _ _) (div_WF _ _)
    (by rw [hth.2, htl.2]; exact hle)
    (by
      rw [hth.2, htl.2]
      apply rn53_natAbs_le_maxFin
      have := abs_add_le (rdI (x.hi.toInt * (unit : Int)) c.toInt)
        (rdI (rnI (x.hi.toInt - Q + x.lo.toInt) * (unit : Int)) c.toInt)
      have h2 : |rdI (x.hi.toInt * (unit : Int)) c.toInt| * 2 ≤ (maxFin : Int) := by
        rw [hTabs]; exact_mod_cast (by omega : roundQ (x.hi.toInt.natAbs * unit) c.toInt.natAbs * 2 ≤ maxFin)
      omega)
  rw [hth.2, htl.2] at hf
  obtain ⟨-, pV, pValid, -⟩ := eft_package hf.1 hf.2 (fast_two_sum_WF _ _).1 (fast_two_sum_WF _ _).2
  refine ⟨pValid, ?_⟩
  rw [pV]
  -- exponent bookkeeping
  have ha52 : 2 ^ 52 ≤ x.hi.toInt.natAbs := Nat.le_trans (by norm_num) hA105
  have hq52' : 2 ^ 52 * c.toInt.natAbs ≤ x.hi.toInt.natAbs * 2 ^ 1074 := by rw [← unit_eq]; exact hq52
  obtain ⟨x1, x2⟩ := div_exponents ha52 hB52 hq52'
  rw [← unit_eq] at x1 x2
  have he68 : 68 ≤ Nat.log2 (x.hi.toInt.natAbs * unit / c.toInt.natAbs) - 52 := by
    have h1 : 2 ^ 120 ≤ x.hi.toInt.natAbs * unit / c.toInt.natAbs :=
      (Nat.le_div_iff_mul_le hbpos).2 hq
    have h2 : 120 ≤ Nat.log2 (x.hi.toInt.natAbs * unit / c.toInt.natAbs) :=
      (Nat.le_log2 (by omega)).2 h1
    omega
  obtain ⟨m0, hm0⟩ : ∃ m0, Nat.log2 (x.hi.toInt.natAbs * unit / c.toInt.natAbs) - 52 = m0 + 54 :=
    ⟨Nat.log2 (x.hi.toInt.natAbs * unit / c.toInt.natAbs) - 52 - 54, by omega⟩
  rw [hm0] at hres hexp' x1 x2
  have hA1 : (2 : Int) ^ 52 * 2 ^ (Nat.log2 x.hi.toInt.natAbs - 52) ≤ |x.hi.toInt| := by
    rw [← Int.natCast_natAbs x.hi.toInt]; exact_mod_cast (log2_sub_spec ha52).1
  have hB1 : (2 : Int) ^ 52 * 2 ^ (Nat.log2 c.toInt.natAbs - 52) ≤ |c.toInt| := by
    rw [← Int.natCast_natAbs c.toInt]; exact_mod_cast (log2_sub_spec hB52).1
  have heA : 1 ≤ Nat.log2 x.hi.toInt.natAbs - 52 := by
    have : 53 ≤ Nat.log2 x.hi.toInt.natAbs - 52 := by
      apply le_ulpexp_of_le_abs
      rw [← pow_add, ← Int.natCast_natAbs x.hi.toInt]; exact_mod_cast hA105
    omega
  have eV : x.V = x.hi.toInt + x.lo.toInt := rfl
  rw [eV]
  exact divtf_3u2_int (u := 1074) unit_eq hx.rnI_eq hA1 hwx.1.repI.ulp_dvd heA hB1 hwc.repI.add_ulp_le
    hwc.repI.ulp_dvd rfl hQ hres hexp' (by omega) hx.two_mul_abs_lo_le rfl rfl

end F64

/-! ## 2b. accuracy of `TwoFloat / TwoFloat` on the whole of `DivRange` (absolute terms kept) -/

namespace F64
open TwoFloat

/-- `div_acc_int` without the lower bounds on the numerator and the quotient: the absolute terms (half a unit of
the second quotient digit, two units of the product) are kept -/
theorem div_acc_int_abs {A Al B q1 q2 N1 L1 N2 L2 P1 P1h P1l R1 R1h R1l U : Int} (hU : 0 < U)
    (hAl : 2 ^ 53 * |Al| ≤ |A|)
    (hN1 : N1 = q1 * B) (hN2 : N2 = q2 * B)
    (hq1 : 2 ^ 53 * |q1 * B - A * U| ≤ 2 ^ 52 * |B| + |A * U|)
    (hL1 : 2 ^ 53 * |L1| ≤ |N1|)
    (hP1 : 2 ^ 159 * |P1 * U - (N1 + L1)| ≤ (3 * 2 ^ 53 + 1) * |N1| + 2 ^ 160 * U)
    (hP1s : P1 = P1h + P1l) (hP1l : 2 ^ 53 * |P1l| ≤ |P1h|)
    (hR1 : 2 ^ 106 * |R1 - (A + Al - P1)| ≤ 3 * |A - P1h| + (2 ^ 53 + 4) * |Al - P1l|)
    (hR1s : R1 = R1h + R1l) (hR1l : 2 ^ 53 * |R1l| ≤ |R1h|)
    (hq2 : 2 ^ 53 * |q2 * B - R1h * U| ≤ 2 ^ 52 * |B| + |R1h * U|)
    (hL2 : 2 ^ 53 * |L2| ≤ |N2|) :
    2 ^ 106 * |(A + Al) * U - (N1 + L1 + (N2 + L2))| ≤ 15 * |(A + Al) * U| + 2 ^ 106 * |B| + 2 ^ 108 * U := by
  have hAl' : 2 ^ 53 * |Al * U| ≤ |A * U| := by
    have := mul_le_mul_of_nonneg_right hAl hU.le
    rw [abs_mul_pos_right _ hU, abs_mul_pos_right _ hU]; linarith
  have hP1l' : 2 ^ 53 * |P1l * U| ≤ |P1h * U| := by
    have := mul_le_mul_of_nonneg_right hP1l hU.le
    rw [abs_mul_pos_right _ hU, abs_mul_pos_right _ hU]; linarith
  have hR1l' : 2 ^ 53 * |R1l * U| ≤ |R1h * U| := by
    have := mul_le_mul_of_nonneg_right hR1l hU.le
    rw [abs_mul_pos_right _ hU, abs_mul_pos_right _ hU]; linarith
  have hR1' : 2 ^ 106 * |R1 * U - (A * U + Al * U - P1 * U)|
      ≤ 3 * |A * U - P1h * U| + (2 ^ 53 + 4) * |Al * U - P1l * U| := by
    have := mul_le_mul_of_nonneg_right hR1 hU.le
    have e1 : R1 * U - (A * U + Al * U - P1 * U) = (R1 - (A + Al - P1)) * U := by ring
    have e2 : A * U - P1h * U = (A - P1h) * U := by ring
    have e3 : Al * U - P1l * U = (Al - P1l) * U := by ring
    rw [e1, e2, e3, abs_mul_pos_right _ hU, abs_mul_pos_right _ hU, abs_mul_pos_right _ hU]; linarith
  -- triangle inequalities
  have tG : |(A + Al) * U - (N1 + L1 + (N2 + L2))|
      ≤ |q2 * B - R1h * U| + |R1l * U| + |L2| + |P1 * U - (N1 + L1)|
        + |R1 * U - (A * U + Al * U - P1 * U)| := by
    have e : (A + Al) * U - (N1 + L1 + (N2 + L2))
        = -(q2 * B - R1h * U) + R1l * U + -L2 + (P1 * U - (N1 + L1))
          + -(R1 * U - (A * U + Al * U - P1 * U)) := by
      rw [hN2, hR1s]; ring
    rw [e]
    refine le_trans (abs_add_le _ _) ?_
    rw [abs_neg]
    refine add_le_add_left (le_trans (abs_add_le _ _) ?_) _
    refine add_le_add_left (le_trans (abs_add_le _ _) ?_) _
    rw [abs_neg]
    refine add_le_add_left (le_trans (abs_add_le _ _) ?_) _
    rw [abs_neg]
  have tN2 : |N2| ≤ |R1h * U| + |q2 * B - R1h * U| := by
    rw [hN2]; exact abs_le_add_abs_sub _ _
  have tR1h : |R1h * U| ≤ |R1 * U| + |R1l * U| := by
    have e : R1h * U = R1 * U - R1l * U := by rw [hR1s]; ring
    rw [e]; exact abs_sub_le_add _ _
  have tR1 := abs_le_add_abs_sub (R1 * U) (A * U + Al * U - P1 * U)
  have tX : |A * U + Al * U - P1 * U|
      ≤ |q1 * B - A * U| + |Al * U| + |L1| + |P1 * U - (N1 + L1)| := by
    have e : A * U + Al * U - P1 * U = -(q1 * B - A * U) + Al * U + -L1 + -(P1 * U - (N1 + L1)) := by
      rw [hN1]; ring
    rw [e]
    refine le_trans (abs_add_le _ _) ?_
    rw [abs_neg]
    refine add_le_add_left (le_trans (abs_add_le _ _) ?_) _
    rw [abs_neg]
    refine add_le_add_left (le_trans (abs_add_le _ _) ?_) _
    rw [abs_neg]
  have tN1 : |N1| ≤ |A * U| + |q1 * B - A * U| := by
    rw [hN1]; exact abs_le_add_abs_sub _ _
  have tS : |A * U - P1h * U| ≤ |A * U + Al * U - P1 * U| + |Al * U| + |P1l * U| := by
    have e : A * U - P1h * U = (A * U + Al * U - P1 * U) + -(Al * U) + P1l * U := by rw [hP1s]; ring
    rw [e]
    refine le_trans (abs_add_le _ _) ?_
    refine add_le_add_left (le_trans (abs_add_le _ _) ?_) _
    rw [abs_neg]
  have tP1h : |P1h * U| ≤ |P1 * U| + |P1l * U| := by
    have e : P1h * U = P1 * U - P1l * U := by rw [hP1s]; ring
    rw [e]; exact abs_sub_le_add _ _
  have tP1 : |P1 * U| ≤ |N1| + |L1| + |P1 * U - (N1 + L1)| := by
    have := abs_le_add_abs_sub (P1 * U) (N1 + L1)
    have := abs_add_le N1 L1
    omega
  have tT := abs_sub_le_add (Al * U) (P1l * U)
  have tD : |A * U| ≤ |(A + Al) * U| + |Al * U| := by
    have e : A * U = (A + Al) * U - Al * U := by ring
    conv_lhs => rw [e]
    exact abs_sub_le_add _ _
  have n1 := abs_nonneg B
  have n2 := abs_nonneg (Al * U)
  have n3 := abs_nonneg (P1l * U)
  have n4 := abs_nonneg (R1l * U)
  have n5 := abs_nonneg L1
  have n6 := abs_nonneg L2
  have n7 := abs_nonneg (q1 * B - A * U)
  have n8 := abs_nonneg (q2 * B - R1h * U)
  have n9 := abs_nonneg (P1 * U - (N1 + L1))
  have n10 := abs_nonneg (R1 * U - (A * U + Al * U - P1 * U))
  generalize |(A + Al) * U - (N1 + L1 + (N2 + L2))| = g at *
  generalize |(A + Al) * U| = x at *
  generalize |q2 * B - R1h * U| = d2 at *
  generalize |q1 * B - A * U| = d1 at *
  generalize |R1l * U| = r1l at *
  generalize |R1h * U| = r1h at *
  generalize |R1 * U| = r1 at *
  generalize |L1| = l1 at *
  generalize |L2| = l2 at *
  generalize |N1| = n1' at *
  generalize |N2| = n2' at *
  generalize |P1 * U - (N1 + L1)| = e1 at *
  generalize |R1 * U - (A * U + Al * U - P1 * U)| = e2 at *
  generalize |A * U + Al * U - P1 * U| = xp at *
  generalize |A * U - P1h * U| = s at *
  generalize |Al * U - P1l * U| = t at *
  generalize |Al * U| = al at *
  generalize |P1l * U| = p1l at *
  generalize |P1h * U| = p1h at *
  generalize |P1 * U| = p1 at *
  generalize |A * U| = a at *
  generalize |B| = b at *
  linarith

/-- accuracy of `q1 + q2` for both long divisions (`sub p = r − p` resp. `f − p` as in `step_core`) -/
theorem div_acc_core_abs {y : TwoFloat} {xh : F64} {xl : Int} (sub : TwoFloat → TwoFloat)
    (hy : y.Valid) (fx : xh.is_finite = true)
    (hxl : 2 ^ 53 * |xl| ≤ |xh.toInt|)
    (hy0 : y.hi.toInt ≠ 0) (hUB : (unit : Int) ≤ 2 ^ 2026 * |y.hi.toInt|)
    (hBU : |y.hi.toInt| ≤ 2 ^ 2026 * (unit : Int))
    (A_hi : |xh.toInt| ≤ 2 ^ 2090) (B_hi : |y.hi.toInt| ≤ 2 ^ 2090)
    (Q_hi : |xh.toInt * (unit : Int)| ≤ 2 ^ 2090 * |y.hi.toInt|)
    (hsub : ∀ p : TwoFloat, p.Valid → p.WF → |p.hi.toInt| ≤ 2 ^ 2094 →
      (sub p).Valid ∧ 2 ^ 103 * |(sub p).V - (xh.toInt + xl - p.V)| ≤ |xh.toInt| + |p.hi.toInt| ∧
      2 ^ 106 * |(sub p).V - (xh.toInt + xl - p.V)|
        ≤ 3 * |xh.toInt - p.hi.toInt| + (2 ^ 53 + 4) * |xl - p.lo.toInt|) :
    2 ^ 106 * |(xh.toInt + xl) * (unit : Int)
        - ((F64.div xh y.hi).toInt +
            (F64.div (sub (arithmetic.impl_Mul_rf64_for_rTwoFloat.mul y (F64.div xh y.hi))).hi y.hi).toInt) * y.V|
      ≤ 15 * |(xh.toInt + xl) * (unit : Int)| + 2 ^ 106 * |y.hi.toInt| + 2 ^ 108 * (unit : Int) := by
  have hUi := unit_pos_int
  obtain ⟨vq1, pv1, hPt1, rv1, hS1, hRt1⟩ := step_core sub hy fx hy0 hxl A_hi B_hi Q_hi hsub
  obtain ⟨-, b1'⟩ := next_bounds_int hUi hUB hBU A_hi Q_hi hS1
  obtain ⟨vq2, -⟩ := div_digit rv1.1 hy.1 hy0 b1'
  have hq1 := rdI_err_gen (xh.toInt * (unit : Int)) hy0
  rw [← vq1.2] at hq1
  have hq2 := rdI_err_gen
    ((sub (arithmetic.impl_Mul_rf64_for_rTwoFloat.mul y (F64.div xh y.hi))).hi.toInt * (unit : Int)) hy0
  rw [← vq2.2] at hq2
  have key := div_acc_int_abs (A := xh.toInt) (Al := xl) (B := y.hi.toInt)
    (q1 := (F64.div xh y.hi).toInt)
    (q2 := (F64.div (sub (arithmetic.impl_Mul_rf64_for_rTwoFloat.mul y (F64.div xh y.hi))).hi y.hi).toInt)
    (N1 := y.hi.toInt * (F64.div xh y.hi).toInt) (L1 := y.lo.toInt * (F64.div xh y.hi).toInt)
    (N2 := y.hi.toInt *
      (F64.div (sub (arithmetic.impl_Mul_rf64_for_rTwoFloat.mul y (F64.div xh y.hi))).hi y.hi).toInt)
    (L2 := y.lo.toInt *
      (F64.div (sub (arithmetic.impl_Mul_rf64_for_rTwoFloat.mul y (F64.div xh y.hi))).hi y.hi).toInt)
    (P1 := (arithmetic.impl_Mul_rf64_for_rTwoFloat.mul y (F64.div xh y.hi)).V)
    (P1h := (arithmetic.impl_Mul_rf64_for_rTwoFloat.mul y (F64.div xh y.hi)).hi.toInt)
    (P1l := (arithmetic.impl_Mul_rf64_for_rTwoFloat.mul y (F64.div xh y.hi)).lo.toInt)
    (R1 := (sub (arithmetic.impl_Mul_rf64_for_rTwoFloat.mul y (F64.div xh y.hi))).V)
    (R1h := (sub (arithmetic.impl_Mul_rf64_for_rTwoFloat.mul y (F64.div xh y.hi))).hi.toInt)
    (R1l := (sub (arithmetic.impl_Mul_rf64_for_rTwoFloat.mul y (F64.div xh y.hi))).lo.toInt)
    hUi hxl (mul_comm _ _) (mul_comm _ _) hq1 (lo_mul_le hy.two_mul_abs_lo_le) hPt1 rfl
    (two_pow_mul_abs_le_of_half_ulp pv1.two_mul_abs_lo_le) hRt1 rfl
    (two_pow_mul_abs_le_of_half_ulp rv1.two_mul_abs_lo_le) hq2 (lo_mul_le hy.two_mul_abs_lo_le)
  have e : ((F64.div xh y.hi).toInt +
        (F64.div (sub (arithmetic.impl_Mul_rf64_for_rTwoFloat.mul y (F64.div xh y.hi))).hi y.hi).toInt) * y.V
      = y.hi.toInt * (F64.div xh y.hi).toInt + y.lo.toInt * (F64.div xh y.hi).toInt +
        (y.hi.toInt *
          (F64.div (sub (arithmetic.impl_Mul_rf64_for_rTwoFloat.mul y (F64.div xh y.hi))).hi y.hi).toInt +
        y.lo.toInt *
          (F64.div (sub (arithmetic.impl_Mul_rf64_for_rTwoFloat.mul y (F64.div xh y.hi))).hi y.hi).toInt) := by
    unfold TwoFloat.V; ring
  rw [e]; exact key

end F64

namespace TwoFloat

open F64

/-- **accuracy of `TwoFloat / TwoFloat` on the whole of `DivRange`**: relative error `15u²` plus the absolute terms
`|b.hi|` (a unit of the quotient) and `4·2^-1074·2^1074` (two units of the first partial product), cross-multiplied. -/
theorem div_tt_acc_abs {a b : TwoFloat} (ha : a.Valid) (hwa : a.WF) (hb : b.Valid)
    (R : DivRange a.hi.toInt b.hi.toInt) :
    2 ^ 106 * |a.V * (unit : Int) - (arithmetic.impl_Div_rTwoFloat_for_rTwoFloat.div a b).V * b.V|
      ≤ 15 * |a.V * (unit : Int)| + 2 ^ 106 * |b.hi.toInt| + 2 ^ 108 * (unit : Int) := by
  have hV : (arithmetic.impl_Div_rTwoFloat_for_rTwoFloat.div a b).V
      = (F64.div a.hi b.hi).toInt + (F64.div (divStep a b).hi b.hi).toInt := by
    rw [(div_tt_isV_of_range ha hwa hb R).V_eq]; exact add_sub_cancel _ _
  have A_hi := R.A_hi
  rw [hV]
  exact div_acc_core_abs (y := b) (xh := a.hi) (xl := a.lo.toInt)
    (fun p => arithmetic.impl_Sub_rTwoFloat_for_rTwoFloat.sub a p) hb ha.1
    (two_pow_mul_abs_le_of_half_ulp ha.two_mul_abs_lo_le) R.B_ne R.aux.1 R.aux.2.1 R.A_hi R.B_hi R.Q_hi
    (fun p hp hwp bp => sub_tt_val ha hp hwa hwp (by omega) bp)

/-- accuracy of the first two quotient digits, without any lower bound on the numerator -/
theorem div_q12_acc {a b : TwoFloat} (ha : a.Valid) (hwa : a.WF) (hb : b.Valid)
    (hy0 : b.hi.toInt ≠ 0) (hUB : (unit : Int) ≤ 2 ^ 2026 * |b.hi.toInt|)
    (hBU : |b.hi.toInt| ≤ 2 ^ 2026 * (unit : Int))
    (A_hi : |a.hi.toInt| ≤ 2 ^ 2090) (B_hi : |b.hi.toInt| ≤ 2 ^ 2090)
    (Q_hi : |a.hi.toInt * (unit : Int)| ≤ 2 ^ 2090 * |b.hi.toInt|) :
    2 ^ 106 * |a.V * (unit : Int)
        - ((F64.div a.hi b.hi).toInt + (F64.div (divStep a b).hi b.hi).toInt) * b.V|
      ≤ 15 * |a.V * (unit : Int)| + 2 ^ 106 * |b.hi.toInt| + 2 ^ 108 * (unit : Int) :=
  div_acc_core_abs (y := b) (xh := a.hi) (xl := a.lo.toInt)
    (fun p => arithmetic.impl_Sub_rTwoFloat_for_rTwoFloat.sub a p) hb ha.1
    (two_pow_mul_abs_le_of_half_ulp ha.two_mul_abs_lo_le) hy0 hUB hBU A_hi B_hi Q_hi
    (fun p hp hwp bp => sub_tt_val ha hp hwa hwp (by omega) bp)

end TwoFloat

/-! ## 2c. `TwoFloat / TwoFloat` returns a normalised pair for every numerator when `|b.hi| ≥ 2^-41` -/

namespace F64
open TwoFloat

theorem repI_of_abs_lt {z : Int} (h : |z| < 2 ^ 53) : RepI z := by
  apply rep_of_lt
  rw [← Int.natCast_natAbs z] at h
  exact_mod_cast h

/-- `renorm3` on three small integers (everything below `2^53` units): all additions are exact -/
theorem renorm3_exact {q1 q2 q3 : F64} (f1 : q1.is_finite = true) (f2 : q2.is_finite = true)
    (f3 : q3.is_finite = true) (w1 : q1.WF) (w2 : q2.WF) (w3 : q3.WF)
    (h : |q1.toInt| + |q2.toInt| + |q3.toInt| < 2 ^ 53) :
    (arithmetic.renorm3 q1 q2 q3).IsV (q3.toInt + (q1.toInt + q2.toInt)) 0 := by
  rw [renorm3_eq']
  have hm := two_pow_le_maxFin_int (k := 53) (by norm_num)
  have a0 := abs_nonneg q1.toInt
  have b0 := abs_nonneg q2.toInt
  have c0 := abs_nonneg q3.toInt
  have t1 := abs_add_le q1.toInt q2.toInt
  have t2 := abs_add_le q3.toInt (q1.toInt + q2.toInt)
  have hu := f2s_isV_exact (IsVal.of_finite f1) (IsVal.of_finite f2) w1 w2 (repI_of_abs_lt (by omega)) (by omega)
  have hv := f2s_isV_exact (IsVal.of_finite f3) hu.1 w3 (fast_two_sum_WF _ _).1 (repI_of_abs_lt (by omega))
    (by omega)
  have hw := hu.2.add_exact hv.2 (by rw [add_zero]; exact repI_zero) (by rw [add_zero]; exact abs_zero_le_maxFin)
  rw [add_zero] at hw
  have := f2s_isV_exact hv.1 hw (fast_two_sum_WF _ _).1 (add_WF _ _) (by rw [add_zero]; exact repI_of_abs_lt (by omega))
    (by rw [add_zero]; omega)
  rwa [add_zero] at this


/-- integer core of `renorm3_crude`: the five rounding errors are tiny relative to `q1` -/
theorem renorm3_crude_int {a b c H S Z L W : Int}
    (h12 : 2 * |b| ≤ |a|) (h13 : 32 * |c| ≤ |a|)
    (e1 : 2 ^ 53 * |H - (a + b)| ≤ |a + b|)
    (e2 : 2 ^ 53 * |S - (c + H)| ≤ |c + H|)
    (e3 : 2 ^ 53 * |Z - (S - c)| ≤ |S - c|)
    (e4 : 2 ^ 53 * |L - (H - Z)| ≤ |H - Z|)
    (e5 : 2 ^ 53 * |W - (a + b - H + L)| ≤ |a + b - H + L|) :
    |c + H| ≤ 2 * |a| ∧ |S - c| ≤ 3 * |a| ∧ |H - Z| ≤ |a| ∧ |a + b - H + L| ≤ |a| ∧
    |W| ≤ |S| ∧ |S + W| ≤ 2 * |a| ∧ |H| ≤ 2 * |a| := by
  have t1 := abs_add_le a b
  have t2 : |a| ≤ |a + b| + |b| := by
    have := abs_add_le (a + b) (-b); rwa [abs_neg, add_neg_cancel_right] at this
  have t3 := abs_le_add_abs_sub H (a + b)
  have t4 : |a + b| ≤ |H| + |H - (a + b)| := by
    have := abs_le_add_abs_sub (a + b) H; rwa [abs_sub_comm] at this
  have t5 := abs_add_le c H
  have t6 : |H| ≤ |c + H| + |c| := by
    have := abs_add_le (c + H) (-c); rw [abs_neg] at this
    have e : c + H + -c = H := by ring
    rwa [e] at this
  have t7 := abs_le_add_abs_sub S (c + H)
  have t8 : |c + H| ≤ |S| + |S - (c + H)| := by
    have := abs_le_add_abs_sub (c + H) S; rwa [abs_sub_comm] at this
  have t9 : |S - c| ≤ |S| + |c| := abs_sub_le_add S c
  have t10 : |H - Z| ≤ |S - (c + H)| + |Z - (S - c)| := by
    have e : H - Z = -(S - (c + H)) + -(Z - (S - c)) := by ring
    rw [e]; have := abs_add_le (-(S - (c + H))) (-(Z - (S - c))); rwa [abs_neg, abs_neg] at this
  have t11 := abs_le_add_abs_sub L (H - Z)
  have t12 : |a + b - H + L| ≤ |H - (a + b)| + |L| := by
    have e : a + b - H + L = -(H - (a + b)) + L := by ring
    rw [e]; have := abs_add_le (-(H - (a + b))) L; rwa [abs_neg] at this
  have t13 := abs_le_add_abs_sub W (a + b - H + L)
  have t14 := abs_add_le S W
  have n1 := abs_nonneg a
  have n2 := abs_nonneg b
  have n3 := abs_nonneg c
  generalize |a| = xa at *
  generalize |b| = xb at *
  generalize |c| = xc at *
  generalize |a + b| = xab at *
  generalize |H| = xH at *
  generalize |H - (a + b)| = d1 at *
  generalize |c + H| = xcH at *
  generalize |S| = xS at *
  generalize |S - (c + H)| = d2 at *
  generalize |S - c| = xSc at *
  generalize |Z - (S - c)| = d3 at *
  generalize |H - Z| = xHZ at *
  generalize |L| = xL at *
  generalize |L - (H - Z)| = d4 at *
  generalize |a + b - H + L| = xw at *
  generalize |W| = xW at *
  generalize |W - (a + b - H + L)| = d5 at *
  generalize |S + W| = xSW at *
  refine ⟨?_, ?_, ?_, ?_, ?_, ?_, ?_⟩ <;> omega


/-- the value of `renorm3_crude` is within `2^-48 |q1|` of `q1 + q2 + q3` (integer core) -/
theorem renorm3_crude_close_int {a b c H S Z L W : Int}
    (h12 : 2 * |b| ≤ |a|) (h13 : 32 * |c| ≤ |a|)
    (e1 : 2 ^ 53 * |H - (a + b)| ≤ |a + b|)
    (e2 : 2 ^ 53 * |S - (c + H)| ≤ |c + H|)
    (e3 : 2 ^ 53 * |Z - (S - c)| ≤ |S - c|)
    (e4 : 2 ^ 53 * |L - (H - Z)| ≤ |H - Z|)
    (e5 : 2 ^ 53 * |W - (a + b - H + L)| ≤ |a + b - H + L|) :
    2 ^ 48 * |S + W - (a + b + c)| ≤ |a| := by
  obtain ⟨g1, g2, g3, g4, -, -, -⟩ := renorm3_crude_int h12 h13 e1 e2 e3 e4 e5
  have e : S + W - (a + b + c) = -(Z - (S - c)) + (L - (H - Z)) + (W - (a + b - H + L)) := by ring
  rw [e]
  have t1 := abs_add_le (-(Z - (S - c)) + (L - (H - Z))) (W - (a + b - H + L))
  have t2 := abs_add_le (-(Z - (S - c))) (L - (H - Z))
  rw [abs_neg] at t2
  have n0 := abs_nonneg a
  generalize |Z - (S - c)| = d3 at *
  generalize |L - (H - Z)| = d4 at *
  generalize |W - (a + b - H + L)| = d5 at *
  generalize |S - c| = x1 at *
  generalize |H - Z| = x2 at *
  generalize |a + b - H + L| = x3 at *
  generalize |a| = xa at *
  omega

/-- a quotient within half a unit of a small integer rounds to that integer -/
theorem rqI_eq_of_near {p k : Int} {U : Nat} (hU : 0 < U) (hk : |k| ≤ 2 ^ 52)
    (h : 2 * |p - k * (U : Int)| < (U : Int)) : rqI p U = k := by
  have hUi : (0 : Int) < (U : Int) := Int.natCast_pos.2 hU
  have he := abs_sub_rqI_mul p hU
  have hp : |p| < 2 ^ 53 * (U : Int) := by
    have t := abs_le_add_abs_sub p (k * (U : Int))
    rw [abs_mul, abs_of_pos hUi] at t
    have : |k| * (U : Int) ≤ 2 ^ 52 * (U : Int) := mul_le_mul_of_nonneg_right hk hUi.le
    linarith
  have hlog : Nat.log2 (p.natAbs / U) - 52 = 0 := by
    apply log2_sub_eq_zero
    rw [Nat.div_lt_iff_lt_mul hU]
    rw [← Int.natCast_natAbs p] at hp
    exact_mod_cast hp
  rw [hlog, pow_zero, mul_one] at he
  -- |r - k| * U < U
  have t : |(rqI p U - k) * (U : Int)| ≤ |p + -(rqI p U) * (U : Int)| + |p - k * (U : Int)| := by
    have e : (rqI p U - k) * (U : Int) = -(p + -(rqI p U) * (U : Int)) + (p - k * (U : Int)) := by ring
    rw [e]
    have := abs_add_le (-(p + -(rqI p U) * (U : Int))) (p - k * (U : Int))
    rwa [abs_neg] at this
  rw [abs_mul, abs_of_pos hUi] at t
  have h1 : |rqI p U - k| * (U : Int) < 1 * (U : Int) := by linarith
  have h2 : |rqI p U - k| < 1 := lt_of_mul_lt_mul_right h1 hUi.le
  have h3 : |rqI p U - k| = 0 := by have := abs_nonneg (rqI p U - k); omega
  have := abs_eq_zero.1 h3
  omega


/-- **`TwoFloat * f64` when the product is within half a unit of a small integer `A`** (deep in the subnormal range):
the result is exactly `(A, 0)` -/
theorem mul_tf_tiny {m : TwoFloat} {q : F64} {A : Int} (mv : m.Valid) (hq : q.is_finite = true)
    (hA : |A| ≤ 2 ^ 52)
    (hX : 2 * |m.hi.toInt * q.toInt - A * (unit : Int)| < (unit : Int))
    (hL : 2 * |m.lo.toInt * q.toInt| < (unit : Int)) :
    (arithmetic.impl_Mul_rf64_for_rTwoFloat.mul m q).IsV A 0 := by
  have hm52 := two_pow_le_maxFin_int (k := 52) (by norm_num)
  have hAm : A.natAbs ≤ maxFin := natAbs_le_of_abs_le (by omega)
  rw [mul_tf_eq, new_mul_eq]
  -- ch
  have e1 : rqI (m.hi.toInt * q.toInt) unit = A := rqI_eq_of_near unit_pos hA hX
  have hch : IsVal (F64.mul m.hi q) A := by
    have := mul_spec mv.1 hq (by rw [← natAbs_rqI, e1]; exact hAm)
    rwa [e1] at this
  -- cl1
  have e2 : rqI (m.hi.toInt * q.toInt + (F64.neg (F64.mul m.hi q)).toInt * (unit : Int)) unit = 0 := by
    rw [toInt_neg, hch.2]
    apply rqI_eq_of_near unit_pos (by simp)
    rw [zero_mul, sub_zero]
    have e : m.hi.toInt * q.toInt + -A * (unit : Int) = m.hi.toInt * q.toInt - A * (unit : Int) := by ring
    rw [e]; exact hX
  have hcl1 : IsVal (F64.fma m.hi q (F64.neg (F64.mul m.hi q))) 0 := by
    have := fma_spec mv.1 hq (by rw [is_finite_neg]; exact hch.1) (by rw [← natAbs_rqI, e2]; simp)
    rwa [e2] at this
  -- cl3
  have e3 : rqI (m.lo.toInt * q.toInt + (F64.fma m.hi q (F64.neg (F64.mul m.hi q))).toInt * (unit : Int)) unit
      = 0 := by
    rw [hcl1.2]
    apply rqI_eq_of_near unit_pos (by simp)
    rw [zero_mul, sub_zero]; simpa using hL
  have hcl3 : IsVal (F64.fma m.lo q (F64.fma m.hi q (F64.neg (F64.mul m.hi q)))) 0 := by
    have := fma_spec mv.2.1 hq hcl1.1 (by rw [← natAbs_rqI, e3]; simp)
    rwa [e3] at this
  have hrep : RepI A := repI_of_abs_lt (lt_of_le_of_lt hA (by norm_num))
  have := f2s_isV_exact hch hcl3 (mul_WF _ _) (fma_WF _ _ _) (by rw [add_zero]; exact hrep)
    (by rw [add_zero]; omega)
  rwa [add_zero] at this


/-- **`renorm3 q1 q2 q3` with `|q2| ≤ |q1|/2`, `|q3| ≤ |q1|/32`** (the third word is NOT negligible): the result is
the normalised pair of some `v` with `|v| ≤ 2|q1|`.  The middle `fast_two_sum c u.hi` (small word first) is not
error-free here, but its low word stays far below `u.hi`, so the last `fast_two_sum` is. -/
theorem renorm3_crude {q1 q2 q3 : F64} (f1 : q1.is_finite = true) (f2 : q2.is_finite = true)
    (f3 : q3.is_finite = true) (w1 : q1.WF) (w2 : q2.WF)
    (h12 : 2 * |q2.toInt| ≤ |q1.toInt|) (h13 : 32 * |q3.toInt| ≤ |q1.toInt|)
    (hov : 4 * |q1.toInt| ≤ (maxFin : Int)) :
    ∃ v : Int, (arithmetic.renorm3 q1 q2 q3).IsV (rnI v) (v - rnI v) ∧ |v| ≤ 2 * |q1.toInt| ∧
      2 ^ 48 * |v - (q1.toInt + q2.toInt + q3.toInt)| ≤ |q1.toInt| := by
  rw [renorm3_eq']
  have a0 := abs_nonneg q1.toInt
  have b0 := abs_nonneg q2.toInt
  have hsum := abs_add_le q1.toInt q2.toInt
  have hov1 : rn53 (q1.toInt + q2.toInt).natAbs ≤ maxFin := rn53_natAbs_le_maxFin (by omega)
  obtain ⟨uh, ul⟩ := fast_two_sum_words f1 f2 w1 w2 (by omega) hov1
  have wu := fast_two_sum_WF q1 q2
  have v3 := IsVal.of_finite f3
  have gc := renorm3_crude_close_int (a := q1.toInt) (b := q2.toInt) (c := q3.toInt)
    (H := rnI (q1.toInt + q2.toInt)) (S := rnI (q3.toInt + rnI (q1.toInt + q2.toInt)))
    (Z := rnI (rnI (q3.toInt + rnI (q1.toInt + q2.toInt)) - q3.toInt))
    (L := rnI (rnI (q1.toInt + q2.toInt) - rnI (rnI (q3.toInt + rnI (q1.toInt + q2.toInt)) - q3.toInt)))
    (W := rnI (q1.toInt + q2.toInt - rnI (q1.toInt + q2.toInt)
      + rnI (rnI (q1.toInt + q2.toInt) - rnI (rnI (q3.toInt + rnI (q1.toInt + q2.toInt)) - q3.toInt))))
    h12 h13 (rel_err_rnI _) (rel_err_rnI _) (rel_err_rnI _) (rel_err_rnI _) (rel_err_rnI _)
  obtain ⟨g1, g2, g3, g4, g5, g6, g7⟩ := renorm3_crude_int (a := q1.toInt) (b := q2.toInt) (c := q3.toInt)
    (H := rnI (q1.toInt + q2.toInt)) (S := rnI (q3.toInt + rnI (q1.toInt + q2.toInt)))
    (Z := rnI (rnI (q3.toInt + rnI (q1.toInt + q2.toInt)) - q3.toInt))
    (L := rnI (rnI (q1.toInt + q2.toInt) - rnI (rnI (q3.toInt + rnI (q1.toInt + q2.toInt)) - q3.toInt)))
    (W := rnI (q1.toInt + q2.toInt - rnI (q1.toInt + q2.toInt)
      + rnI (rnI (q1.toInt + q2.toInt) - rnI (rnI (q3.toInt + rnI (q1.toInt + q2.toInt)) - q3.toInt))))
    h12 h13 (rel_err_rnI _) (rel_err_rnI _) (rel_err_rnI _) (rel_err_rnI _) (rel_err_rnI _)
  have hs := v3.add uh (by omega)
  have hz := hs.sub v3 (by omega)
  have hvl := uh.sub hz (by omega)
  have hw := ul.add hvl (by omega)
  have hf := fast_two_sum_words hs.1 hw.1 (add_WF _ _) (add_WF _ _) (by rw [hs.2, hw.2]; exact g5)
    (by rw [hs.2, hw.2]; exact rn53_natAbs_le_maxFin (by omega))
  rw [hs.2, hw.2] at hf
  exact ⟨_, hf, g6, gc⟩


/-- crude magnitudes of the second and third quotient digits when the divisor is at least `2^-41`
(`U ≤ 2^41 |B|`): `|q2|, |q3| ≤ 2^-47 |q1| + 2^45` -/
theorem digits_crude_int {A B r1 r2 q1 q2 q3 U : Int} (_hU : 0 < U) (hB : B ≠ 0) (hβ : U ≤ 2 ^ 41 * |B|)
    (hS1 : 2 ^ 48 * |r1 * U| ≤ |A * U| + 2 ^ 50 * |B| + 2 ^ 51 * U)
    (hS2 : 2 ^ 48 * |r2 * U| ≤ |r1 * U| + 2 ^ 50 * |B| + 2 ^ 51 * U)
    (hQ1 : 2 ^ 53 * |q1 * B - A * U| ≤ 2 ^ 52 * |B| + |A * U|)
    (hQ2 : 2 ^ 53 * |q2 * B - r1 * U| ≤ 2 ^ 52 * |B| + |r1 * U|)
    (hQ3 : 2 ^ 53 * |q3 * B - r2 * U| ≤ 2 ^ 52 * |B| + |r2 * U|) :
    2 ^ 47 * |q2| ≤ |q1| + 2 ^ 92 ∧ 2 ^ 47 * |q3| ≤ |q1| + 2 ^ 92 ∧ |q1| * |B| ≤ 2 * |A * U| + |B| := by
  have hBp : 0 < |B| := abs_pos.2 hB
  have t1 := abs_le_add_abs_sub (A * U) (q1 * B)
  rw [abs_sub_comm] at t1
  have t1' := abs_le_add_abs_sub (q1 * B) (A * U)
  have t2 := abs_le_add_abs_sub (q2 * B) (r1 * U)
  have t3 := abs_le_add_abs_sub (q3 * B) (r2 * U)
  have n1 := abs_nonneg (r1 * U)
  have n2 := abs_nonneg (r2 * U)
  have n3 := abs_nonneg (A * U)
  have k2 : 2 ^ 47 * |q2 * B| ≤ |q1 * B| + 2 ^ 92 * |B| := by
    generalize |q1 * B| = b1 at *
    generalize |q2 * B| = b2 at *
    generalize |q3 * B| = b3 at *
    generalize |q1 * B - A * U| = c1 at *
    generalize |q2 * B - r1 * U| = c2 at *
    generalize |q3 * B - r2 * U| = c3 at *
    generalize |A * U| = a at *
    generalize |r1 * U| = d1 at *
    generalize |r2 * U| = d2 at *
    generalize |B| = b at *
    omega
  have k3 : 2 ^ 47 * |q3 * B| ≤ |q1 * B| + 2 ^ 92 * |B| := by
    generalize |q1 * B| = b1 at *
    generalize |q2 * B| = b2 at *
    generalize |q3 * B| = b3 at *
    generalize |q1 * B - A * U| = c1 at *
    generalize |q2 * B - r1 * U| = c2 at *
    generalize |q3 * B - r2 * U| = c3 at *
    generalize |A * U| = a at *
    generalize |r1 * U| = d1 at *
    generalize |r2 * U| = d2 at *
    generalize |B| = b at *
    omega
  have k1 : |q1 * B| ≤ 2 * |A * U| + |B| := by
    generalize |q1 * B| = b1 at *
    generalize |q1 * B - A * U| = c1 at *
    generalize |A * U| = a at *
    generalize |B| = b at *
    omega
  rw [abs_mul] at k1
  rw [abs_mul, abs_mul] at k2 k3
  refine ⟨?_, ?_, k1⟩
  · have : (2 ^ 47 * |q2|) * |B| ≤ (|q1| + 2 ^ 92) * |B| := by linarith
    exact le_of_mul_le_mul_right this hBp
  · have : (2 ^ 47 * |q3|) * |B| ≤ (|q1| + 2 ^ 92) * |B| := by linarith
    exact le_of_mul_le_mul_right this hBp


/-- magnitudes of the quotient digits when the numerator is at least `2^9` times the absolute error level
(`2^9·(|B| + U) ≤ |A·U|`): the first digit dominates -/
theorem digits_alpha_int {A B r1 r2 q1 q2 q3 U : Int} (_hU : 0 < U) (hB : B ≠ 0)
    (hα : 2 ^ 9 * (|B| + U) ≤ |A * U|)
    (hS1 : 2 ^ 48 * |r1 * U| ≤ |A * U| + 2 ^ 50 * |B| + 2 ^ 51 * U)
    (hS2 : 2 ^ 48 * |r2 * U| ≤ |r1 * U| + 2 ^ 50 * |B| + 2 ^ 51 * U)
    (hQ1 : 2 ^ 53 * |q1 * B - A * U| ≤ 2 ^ 52 * |B| + |A * U|)
    (hQ2 : 2 ^ 53 * |q2 * B - r1 * U| ≤ 2 ^ 52 * |B| + |r1 * U|)
    (hQ3 : 2 ^ 53 * |q3 * B - r2 * U| ≤ 2 ^ 52 * |B| + |r2 * U|) :
    2 * |q2| ≤ |q1| ∧ 32 * |q3| ≤ |q1| ∧ |q1| * |B| ≤ 2 * |A * U| ∧
    2 ^ 40 * (|q3| * |B|) ≤ |A * U| + 2 ^ 43 * |B| + 2 ^ 44 * U := by
  have hBp : 0 < |B| := abs_pos.2 hB
  have t1 := abs_le_add_abs_sub (A * U) (q1 * B)
  rw [abs_sub_comm] at t1
  have t1' := abs_le_add_abs_sub (q1 * B) (A * U)
  have t2 := abs_le_add_abs_sub (q2 * B) (r1 * U)
  have t3 := abs_le_add_abs_sub (q3 * B) (r2 * U)
  have n1 := abs_nonneg (r1 * U)
  have n2 := abs_nonneg (r2 * U)
  have n3 := abs_nonneg (A * U)
  have k2 : 2 * |q2 * B| ≤ |q1 * B| := by
    generalize |q1 * B| = b1 at *
    generalize |q2 * B| = b2 at *
    generalize |q3 * B| = b3 at *
    generalize |q1 * B - A * U| = c1 at *
    generalize |q2 * B - r1 * U| = c2 at *
    generalize |q3 * B - r2 * U| = c3 at *
    generalize |A * U| = a at *
    generalize |r1 * U| = d1 at *
    generalize |r2 * U| = d2 at *
    generalize |B| = b at *
    omega
  have k3 : 32 * |q3 * B| ≤ |q1 * B| := by
    generalize |q1 * B| = b1 at *
    generalize |q2 * B| = b2 at *
    generalize |q3 * B| = b3 at *
    generalize |q1 * B - A * U| = c1 at *
    generalize |q2 * B - r1 * U| = c2 at *
    generalize |q3 * B - r2 * U| = c3 at *
    generalize |A * U| = a at *
    generalize |r1 * U| = d1 at *
    generalize |r2 * U| = d2 at *
    generalize |B| = b at *
    omega
  have k1 : |q1 * B| ≤ 2 * |A * U| := by
    generalize |q1 * B| = b1 at *
    generalize |q1 * B - A * U| = c1 at *
    generalize |A * U| = a at *
    generalize |B| = b at *
    omega
  have k4 : 2 ^ 40 * |q3 * B| ≤ |A * U| + 2 ^ 43 * |B| + 2 ^ 44 * U := by
    generalize |q1 * B| = b1 at *
    generalize |q2 * B| = b2 at *
    generalize |q3 * B| = b3 at *
    generalize |q1 * B - A * U| = c1 at *
    generalize |q2 * B - r1 * U| = c2 at *
    generalize |q3 * B - r2 * U| = c3 at *
    generalize |A * U| = a at *
    generalize |r1 * U| = d1 at *
    generalize |r2 * U| = d2 at *
    generalize |B| = b at *
    omega
  rw [abs_mul] at k1 k4
  rw [abs_mul, abs_mul] at k2 k3
  refine ⟨?_, ?_, k1, k4⟩
  · have : (2 * |q2|) * |B| ≤ |q1| * |B| := by linarith
    exact le_of_mul_le_mul_right this hBp
  · have : (32 * |q3|) * |B| ≤ |q1| * |B| := by linarith
    exact le_of_mul_le_mul_right this hBp


end F64

namespace TwoFloat

open F64

/-- **`TwoFloat / TwoFloat` returns a normalised pair for EVERY numerator** (no lower bound on `|a.hi|` or on the
quotient) as soon as the divisor is at least `2^-41` in magnitude (`U ≤ 2^41·|b.hi|` scaled): below the range of
`div_tt_valid_of_range` the three quotient digits are either all small integers (every addition of `renorm3` is
exact) or dominated by the first one (`renorm3_crude`).  The value is at most `4|a.hi/b.hi| + 2^47` units. -/
theorem div_tt_crude {a b : TwoFloat} (ha : a.Valid) (hwa : a.WF) (hb : b.Valid)
    (A_hi : |a.hi.toInt| ≤ 2 ^ 2090) (B_hi : |b.hi.toInt| ≤ 2 ^ 2090)
    (Q_hi : |a.hi.toInt * (unit : Int)| ≤ 2 ^ 2090 * |b.hi.toInt|)
    (hβ : (unit : Int) ≤ 2 ^ 41 * |b.hi.toInt|) :
    (arithmetic.impl_Div_rTwoFloat_for_rTwoFloat.div a b).Valid ∧
    (arithmetic.impl_Div_rTwoFloat_for_rTwoFloat.div a b).WF ∧
    |(arithmetic.impl_Div_rTwoFloat_for_rTwoFloat.div a b).V| * |b.hi.toInt|
      ≤ 4 * |a.hi.toInt * (unit : Int)| + 2 ^ 48 * |b.hi.toInt| := by
  have hUi := unit_pos_int
  have hy0 : b.hi.toInt ≠ 0 := by
    intro h; rw [h, abs_zero, mul_zero] at hβ; omega
  have hUB : (unit : Int) ≤ 2 ^ 2026 * |b.hi.toInt| := by
    have := abs_nonneg b.hi.toInt; omega
  have hBU : |b.hi.toInt| ≤ 2 ^ 2026 * (unit : Int) := by
    have : (2 : Int) ^ 1074 ≤ (unit : Int) := by rw [unit_eq]; norm_cast
    omega
  rw [div_tt_eq]
  obtain ⟨vq1, -, -, rv1, hS1, -⟩ := step_core (y := b) (xh := a.hi) (xl := a.lo.toInt)
    (fun p => arithmetic.impl_Sub_rTwoFloat_for_rTwoFloat.sub a p) hb ha.1 hy0
    (two_pow_mul_abs_le_of_half_ulp ha.two_mul_abs_lo_le) A_hi B_hi Q_hi
    (fun p hp hwp bp => sub_tt_val ha hp hwa hwp (by omega) bp)
  change (divStep a b).Valid at rv1
  change 2 ^ 48 * |(divStep a b).hi.toInt * (unit : Int)| ≤ _ at hS1
  obtain ⟨b1, b1'⟩ := next_bounds_int hUi hUB hBU A_hi Q_hi hS1
  obtain ⟨vq2, -, -, rv2, hS2, -⟩ := step_core (y := b) (xh := (divStep a b).hi) (xl := (divStep a b).lo.toInt)
    (fun p => arithmetic.impl_Sub_rTwoFloat_for_rTwoFloat.sub (divStep a b) p) hb rv1.1 hy0
    (two_pow_mul_abs_le_of_half_ulp rv1.two_mul_abs_lo_le) b1 B_hi b1'
    (fun p hp hwp bp => sub_tt_val rv1 hp (divStep_WF _ _) hwp (by omega) bp)
  change (divStep (divStep a b) b).Valid at rv2
  change 2 ^ 48 * |(divStep (divStep a b) b).hi.toInt * (unit : Int)| ≤ _ at hS2
  obtain ⟨b2, b2'⟩ := next_bounds_int hUi hUB hBU b1 b1' hS2
  obtain ⟨vq3, _⟩ := div_digit rv2.1 hb.1 hy0 b2'
  have hQ1 := rdI_err_gen (a.hi.toInt * (unit : Int)) hy0
  have hQ2 := rdI_err_gen ((divStep a b).hi.toInt * (unit : Int)) hy0
  have hQ3 := rdI_err_gen ((divStep (divStep a b) b).hi.toInt * (unit : Int)) hy0
  rw [← vq1.2] at hQ1
  rw [← vq2.2] at hQ2
  rw [← vq3.2] at hQ3
  obtain ⟨d2, d3, d1⟩ := digits_crude_int hUi hy0 hβ hS1 hS2 hQ1 hQ2 hQ3
  have hq1b : |(F64.div a.hi b.hi).toInt| ≤ 2 ^ 2090 := by
    rw [vq1.2]; exact (div_digit ha.1 hb.1 hy0 Q_hi).2
  have hm := two_pow_le_maxFin_int (k := 2092) (by norm_num)
  have wr := renorm3_WF (F64.div a.hi b.hi) (F64.div (divStep a b).hi b.hi)
    (F64.div (divStep (divStep a b) b).hi b.hi)
  have n1 := abs_nonneg (F64.div a.hi b.hi).toInt
  have n2 := abs_nonneg (F64.div (divStep a b).hi b.hi).toInt
  have n3 := abs_nonneg (F64.div (divStep (divStep a b) b).hi b.hi).toInt
  have nB := abs_nonneg b.hi.toInt
  rcases lt_or_ge |(F64.div a.hi b.hi).toInt| (2 ^ 51) with hlt | hge
  · have h := renorm3_exact vq1.1 vq2.1 vq3.1 (div_WF _ _) (div_WF _ _) (div_WF _ _) (by omega)
    have t1 := abs_add_le (F64.div (divStep (divStep a b) b).hi b.hi).toInt
      ((F64.div a.hi b.hi).toInt + (F64.div (divStep a b).hi b.hi).toInt)
    have t2 := abs_add_le (F64.div a.hi b.hi).toInt (F64.div (divStep a b).hi b.hi).toInt
    refine ⟨h.valid wr (by rw [add_zero]; exact (rnI_of_repI (repI_of_abs_lt (by omega))).symm), wr, ?_⟩
    rw [h.V_eq, add_zero]
    have : |(F64.div (divStep (divStep a b) b).hi b.hi).toInt
        + ((F64.div a.hi b.hi).toInt + (F64.div (divStep a b).hi b.hi).toInt)|
        ≤ 2 * |(F64.div a.hi b.hi).toInt| + 2 ^ 46 := by omega
    have h2 := mul_le_mul_of_nonneg_right this nB
    nlinarith
  · obtain ⟨v, hv, hvb, -⟩ := renorm3_crude vq1.1 vq2.1 vq3.1 (div_WF _ _) (div_WF _ _) (by omega) (by omega)
      (by omega)
    refine ⟨hv.valid wr (by rw [add_sub_cancel]), wr, ?_⟩
    rw [hv.V_eq, add_sub_cancel]
    have h2 := mul_le_mul_of_nonneg_right hvb nB
    nlinarith

/-- **`TwoFloat / TwoFloat` when the numerator is at least `2^9` times the absolute error level**
(`2^9·(|b.hi| + U) ≤ |a.hi·U|`, no other lower bound): a normalised pair with relative error `2^-37` plus a few units -/
theorem div_tt_alpha {a b : TwoFloat} (ha : a.Valid) (hwa : a.WF) (hb : b.Valid)
    (hy0 : b.hi.toInt ≠ 0) (hUB : (unit : Int) ≤ 2 ^ 2026 * |b.hi.toInt|)
    (hBU : |b.hi.toInt| ≤ 2 ^ 2026 * (unit : Int))
    (A_hi : |a.hi.toInt| ≤ 2 ^ 2090) (B_hi : |b.hi.toInt| ≤ 2 ^ 2090)
    (Q_hi : |a.hi.toInt * (unit : Int)| ≤ 2 ^ 2090 * |b.hi.toInt|)
    (hα : 2 ^ 9 * (|b.hi.toInt| + (unit : Int)) ≤ |a.hi.toInt * (unit : Int)|) :
    (arithmetic.impl_Div_rTwoFloat_for_rTwoFloat.div a b).Valid ∧
    (arithmetic.impl_Div_rTwoFloat_for_rTwoFloat.div a b).WF ∧
    2 ^ 37 * |a.V * (unit : Int) - (arithmetic.impl_Div_rTwoFloat_for_rTwoFloat.div a b).V * b.V|
      ≤ |a.V * (unit : Int)| + 2 ^ 42 * |b.hi.toInt| + 2 ^ 43 * (unit : Int) := by
  have hUi := unit_pos_int
  have hacc := div_q12_acc ha hwa hb hy0 hUB hBU A_hi B_hi Q_hi
  rw [div_tt_eq]
  obtain ⟨vq1, -, -, rv1, hS1, -⟩ := step_core (y := b) (xh := a.hi) (xl := a.lo.toInt)
    (fun p => arithmetic.impl_Sub_rTwoFloat_for_rTwoFloat.sub a p) hb ha.1 hy0
    (two_pow_mul_abs_le_of_half_ulp ha.two_mul_abs_lo_le) A_hi B_hi Q_hi
    (fun p hp hwp bp => sub_tt_val ha hp hwa hwp (by omega) bp)
  change (divStep a b).Valid at rv1
  change 2 ^ 48 * |(divStep a b).hi.toInt * (unit : Int)| ≤ _ at hS1
  obtain ⟨b1, b1'⟩ := next_bounds_int hUi hUB hBU A_hi Q_hi hS1
  obtain ⟨vq2, -, -, rv2, hS2, -⟩ := step_core (y := b) (xh := (divStep a b).hi) (xl := (divStep a b).lo.toInt)
    (fun p => arithmetic.impl_Sub_rTwoFloat_for_rTwoFloat.sub (divStep a b) p) hb rv1.1 hy0
    (two_pow_mul_abs_le_of_half_ulp rv1.two_mul_abs_lo_le) b1 B_hi b1'
    (fun p hp hwp bp => sub_tt_val rv1 hp (divStep_WF _ _) hwp (by omega) bp)
  change (divStep (divStep a b) b).Valid at rv2
  change 2 ^ 48 * |(divStep (divStep a b) b).hi.toInt * (unit : Int)| ≤ _ at hS2
  obtain ⟨b2, b2'⟩ := next_bounds_int hUi hUB hBU b1 b1' hS2
  obtain ⟨vq3, _⟩ := div_digit rv2.1 hb.1 hy0 b2'
  have hQ1 := rdI_err_gen (a.hi.toInt * (unit : Int)) hy0
  have hQ2 := rdI_err_gen ((divStep a b).hi.toInt * (unit : Int)) hy0
  have hQ3 := rdI_err_gen ((divStep (divStep a b) b).hi.toInt * (unit : Int)) hy0
  rw [← vq1.2] at hQ1
  rw [← vq2.2] at hQ2
  rw [← vq3.2] at hQ3
  obtain ⟨d2, d3, d1, d4⟩ := digits_alpha_int hUi hy0 hα hS1 hS2 hQ1 hQ2 hQ3
  have hq1b : |(F64.div a.hi b.hi).toInt| ≤ 2 ^ 2090 := by
    rw [vq1.2]; exact (div_digit ha.1 hb.1 hy0 Q_hi).2
  have hm := two_pow_le_maxFin_int (k := 2092) (by norm_num)
  have wr := renorm3_WF (F64.div a.hi b.hi) (F64.div (divStep a b).hi b.hi)
    (F64.div (divStep (divStep a b) b).hi b.hi)
  obtain ⟨v, hv, -, hvc⟩ := renorm3_crude vq1.1 vq2.1 vq3.1 (div_WF _ _) (div_WF _ _) d2 d3 (by omega)
  refine ⟨hv.valid wr (by rw [add_sub_cancel]), wr, ?_⟩
  rw [hv.V_eq, add_sub_cancel]
  -- accuracy
  obtain ⟨hb1, hb2⟩ := PowiBound.hi_bounds hb
  obtain ⟨ha1, ha2⟩ := PowiBound.hi_bounds ha
  have nB := abs_nonneg b.hi.toInt
  have nq3 := abs_nonneg (F64.div (divStep (divStep a b) b).hi b.hi).toInt
  have hbV : |b.V| ≤ 2 * |b.hi.toInt| := by omega
  have e : a.V * (unit : Int) - v * b.V
      = (a.V * (unit : Int) - ((F64.div a.hi b.hi).toInt + (F64.div (divStep a b).hi b.hi).toInt) * b.V)
        - (F64.div (divStep (divStep a b) b).hi b.hi).toInt * b.V
        - (v - ((F64.div a.hi b.hi).toInt + (F64.div (divStep a b).hi b.hi).toInt
            + (F64.div (divStep (divStep a b) b).hi b.hi).toInt)) * b.V := by ring
  rw [e]
  have t1 := abs_sub (a.V * (unit : Int) - ((F64.div a.hi b.hi).toInt + (F64.div (divStep a b).hi b.hi).toInt) * b.V
        - (F64.div (divStep (divStep a b) b).hi b.hi).toInt * b.V)
      ((v - ((F64.div a.hi b.hi).toInt + (F64.div (divStep a b).hi b.hi).toInt
            + (F64.div (divStep (divStep a b) b).hi b.hi).toInt)) * b.V)
  have t2 := abs_sub (a.V * (unit : Int) - ((F64.div a.hi b.hi).toInt + (F64.div (divStep a b).hi b.hi).toInt) * b.V)
      ((F64.div (divStep (divStep a b) b).hi b.hi).toInt * b.V)
  rw [abs_mul] at t1 t2
  have p2 : |(F64.div (divStep (divStep a b) b).hi b.hi).toInt| * |b.V|
      ≤ 2 * (|(F64.div (divStep (divStep a b) b).hi b.hi).toInt| * |b.hi.toInt|) := by
    have := mul_le_mul_of_nonneg_left hbV nq3
    linarith
  have p3 : |v - ((F64.div a.hi b.hi).toInt + (F64.div (divStep a b).hi b.hi).toInt
            + (F64.div (divStep (divStep a b) b).hi b.hi).toInt)| * |b.V|
      ≤ 2 * (|v - ((F64.div a.hi b.hi).toInt + (F64.div (divStep a b).hi b.hi).toInt
            + (F64.div (divStep (divStep a b) b).hi b.hi).toInt)| * |b.hi.toInt|) := by
    have := mul_le_mul_of_nonneg_left hbV (abs_nonneg (v - ((F64.div a.hi b.hi).toInt
      + (F64.div (divStep a b).hi b.hi).toInt + (F64.div (divStep (divStep a b) b).hi b.hi).toInt)))
    linarith
  have p4 : 2 ^ 48 * (|v - ((F64.div a.hi b.hi).toInt + (F64.div (divStep a b).hi b.hi).toInt
            + (F64.div (divStep (divStep a b) b).hi b.hi).toInt)| * |b.hi.toInt|)
      ≤ |(F64.div a.hi b.hi).toInt| * |b.hi.toInt| := by
    have := mul_le_mul_of_nonneg_right hvc nB
    linarith
  have hAx : |a.hi.toInt * (unit : Int)| ≤ 2 * |a.V * (unit : Int)| := by
    rw [abs_mul_pos_right _ hUi, abs_mul_pos_right _ hUi]
    have : |a.hi.toInt| ≤ 2 * |a.V| := by
      have := abs_nonneg a.hi.toInt; omega
    have := mul_le_mul_of_nonneg_right this hUi.le
    linarith
  have n9 := abs_nonneg (a.V * (unit : Int))
  generalize |a.V * (unit : Int) - ((F64.div a.hi b.hi).toInt + (F64.div (divStep a b).hi b.hi).toInt) * b.V
        - (F64.div (divStep (divStep a b) b).hi b.hi).toInt * b.V
        - (v - ((F64.div a.hi b.hi).toInt + (F64.div (divStep a b).hi b.hi).toInt
            + (F64.div (divStep (divStep a b) b).hi b.hi).toInt)) * b.V| = G at *
  generalize |a.V * (unit : Int) - ((F64.div a.hi b.hi).toInt + (F64.div (divStep a b).hi b.hi).toInt) * b.V
        - (F64.div (divStep (divStep a b) b).hi b.hi).toInt * b.V| = G1 at *
  generalize |a.V * (unit : Int) - ((F64.div a.hi b.hi).toInt + (F64.div (divStep a b).hi b.hi).toInt) * b.V| = G0 at *
  generalize |v - ((F64.div a.hi b.hi).toInt + (F64.div (divStep a b).hi b.hi).toInt
            + (F64.div (divStep (divStep a b) b).hi b.hi).toInt)| * |b.V| = T3 at *
  generalize |v - ((F64.div a.hi b.hi).toInt + (F64.div (divStep a b).hi b.hi).toInt
            + (F64.div (divStep (divStep a b) b).hi b.hi).toInt)| * |b.hi.toInt| = T3' at *
  generalize |(F64.div (divStep (divStep a b) b).hi b.hi).toInt| * |b.V| = T2 at *
  generalize |(F64.div (divStep (divStep a b) b).hi b.hi).toInt| * |b.hi.toInt| = T2' at *
  generalize |(F64.div a.hi b.hi).toInt| * |b.hi.toInt| = Q1B at *
  generalize |a.V * (unit : Int)| = x at *
  generalize |a.hi.toInt * (unit : Int)| = au at *
  generalize |b.hi.toInt| = bb at *
  omega

end TwoFloat

namespace F64

/-! ## 3. the correctly rounded cube root -/

/-- the bisection of `icbrt` keeps the invariant `acc³ ≤ m < (acc + 2^k)³` -/
theorem icbrt_go_spec (m : Nat) : ∀ k acc : Nat, acc ^ 3 ≤ m → m < (acc + 2 ^ k) ^ 3 →
    (icbrt.go m k acc) ^ 3 ≤ m ∧ m < (icbrt.go m k acc + 1) ^ 3 := by
  intro k
  induction k with
  | zero =>
    intro acc h1 h2
    simp only [icbrt.go]
    exact ⟨h1, by simpa using h2⟩
  | succ k ih =>
    intro acc h1 h2
    simp only [icbrt.go]
    by_cases hc : (acc + 2 ^ k) * (acc + 2 ^ k) * (acc + 2 ^ k) ≤ m
    · rw [if_pos hc]
      apply ih
      · calc (acc + 2 ^ k) ^ 3 = (acc + 2 ^ k) * (acc + 2 ^ k) * (acc + 2 ^ k) := by ring
          _ ≤ m := hc
      · have : acc + 2 ^ k + 2 ^ k = acc + 2 ^ (k + 1) := by rw [pow_succ]; ring
        rw [this]; exact h2
    · rw [if_neg hc]
      apply ih _ h1
      have : (acc + 2 ^ k) ^ 3 = (acc + 2 ^ k) * (acc + 2 ^ k) * (acc + 2 ^ k) := by ring
      rw [this]; omega

/-- `icbrt m` is the floor of the cube root -/
theorem icbrt_spec (m : Nat) : (icbrt m) ^ 3 ≤ m ∧ m < (icbrt m + 1) ^ 3 := by
  unfold icbrt
  apply icbrt_go_spec m _ 0 (by simp)
  rw [Nat.zero_add, ← pow_mul]
  rcases Nat.eq_zero_or_pos m with h0 | hpos
  · subst h0; positivity
  · have h1 : m < 2 ^ (Nat.log2 m + 1) := Nat.lt_log2_self
    refine lt_of_lt_of_le h1 (Nat.pow_le_pow_right (by norm_num) ?_)
    have := Nat.div_add_mod (Nat.log2 m) 3
    have := Nat.mod_lt (Nat.log2 m) (show 3 > 0 by norm_num)
    omega


/-- the rounding core of `F64.cbrt`: nearest-even 53-bit rounding of `∛m` -/
def cbrtRound (m : Nat) : Nat :=
  let r := icbrt m
  let e := Nat.log2 r - 52
  let q := r / 2 ^ e
  let h := (2 * q + 1) * 2 ^ (e - 1)
  let q' := if m > h * h * h then q + 1 else if m < h * h * h then q else (if q % 2 = 0 then q else q + 1)
  q' * 2 ^ e

theorem cbrt_fin (s : Bool) (n : Nat) (hn : n ≠ 0) :
    F64.cbrt (fin s n) = fin s (cbrtRound (n * 2 ^ 2148)) := by
  rw [F64.cbrt, if_neg hn, pow_core_eq 2 2148]
  rfl


/-- the rounding step of `F64.cbrt` on the integer `m = n·2^2148` -/
theorem cbrt_round_nat (m : Nat) (hm : 2 ^ 159 ≤ m) :
    ∃ e0 : Nat, Nat.log2 (icbrt m) - 52 = e0 + 1 ∧
      (∀ q' : Nat,
        q' = (if m > ((2 * (icbrt m / 2 ^ (e0 + 1)) + 1) * 2 ^ e0) * ((2 * (icbrt m / 2 ^ (e0 + 1)) + 1) * 2 ^ e0)
                  * ((2 * (icbrt m / 2 ^ (e0 + 1)) + 1) * 2 ^ e0)
              then icbrt m / 2 ^ (e0 + 1) + 1
              else if m < ((2 * (icbrt m / 2 ^ (e0 + 1)) + 1) * 2 ^ e0) * ((2 * (icbrt m / 2 ^ (e0 + 1)) + 1) * 2 ^ e0)
                  * ((2 * (icbrt m / 2 ^ (e0 + 1)) + 1) * 2 ^ e0)
              then icbrt m / 2 ^ (e0 + 1)
              else (if (icbrt m / 2 ^ (e0 + 1)) % 2 = 0 then icbrt m / 2 ^ (e0 + 1)
                    else icbrt m / 2 ^ (e0 + 1) + 1)) →
        2 ^ 52 ≤ q' ∧ q' ≤ 2 ^ 53 ∧ (2 ^ 53 * 2 ^ e0) ^ 3 ≤ m ∧
          ((2 * q' - 1) * 2 ^ e0) ^ 3 ≤ m ∧ m ≤ ((2 * q' + 1) * 2 ^ e0) ^ 3) := by
  obtain ⟨hs1, hs2⟩ := icbrt_spec m
  have hr53 : 2 ^ 53 ≤ icbrt m := by
    by_contra hc
    have h1 : icbrt m + 1 ≤ 2 ^ 53 := by omega
    have h2 : (icbrt m + 1) ^ 3 ≤ (2 ^ 53) ^ 3 := Nat.pow_le_pow_left h1 3
    have h3 : ((2 : Nat) ^ 53) ^ 3 = 2 ^ 159 := by norm_num
    omega
  obtain ⟨hb1, hb2⟩ := log2_sub_spec (n := icbrt m) (by omega)
  have he1 : 1 ≤ Nat.log2 (icbrt m) - 52 := le_log2_sub (by
    calc 2 ^ 52 * 2 ^ 1 = 2 ^ 53 := by norm_num
      _ ≤ icbrt m := hr53)
  obtain ⟨e0, he0⟩ : ∃ e0, Nat.log2 (icbrt m) - 52 = e0 + 1 := ⟨Nat.log2 (icbrt m) - 52 - 1, by omega⟩
  refine ⟨e0, he0, ?_⟩
  rw [he0] at hb1 hb2
  generalize icbrt m = r at *
  have hE : 2 ^ (e0 + 1) = 2 * 2 ^ e0 := by rw [Nat.pow_succ, Nat.mul_comm]
  have hF : 0 < 2 ^ e0 := Nat.two_pow_pos e0
  rw [hE] at hb1 hb2 ⊢
  generalize 2 ^ e0 = F at *
  have hq1 : r / (2 * F) * (2 * F) ≤ r := Nat.div_mul_le_self r (2 * F)
  have hq2 : r < (r / (2 * F) + 1) * (2 * F) := by
    have := Nat.lt_div_mul_add (a := r) (b := 2 * F) (by omega)
    rw [Nat.add_mul, Nat.one_mul]; exact this
  have hq52 : 2 ^ 52 ≤ r / (2 * F) := by
    rw [Nat.le_div_iff_mul_le (by omega)]; exact hb1
  have hq53 : r / (2 * F) < 2 ^ 53 := by
    rw [Nat.div_lt_iff_lt_mul (by omega)]; exact hb2
  generalize r / (2 * F) = q at *
  -- cubes
  have hlow : (q * (2 * F)) ^ 3 ≤ m := le_trans (Nat.pow_le_pow_left hq1 3) hs1
  have hup : m < ((q + 1) * (2 * F)) ^ 3 :=
    lt_of_lt_of_le hs2 (Nat.pow_le_pow_left (by omega) 3)
  have h53 : (2 ^ 53 * F) ^ 3 ≤ m := by
    have : 2 ^ 53 * F ≤ r := by
      calc 2 ^ 53 * F = 2 ^ 52 * (2 * F) := by ring
        _ ≤ r := hb1
    exact le_trans (Nat.pow_le_pow_left this 3) hs1
  have eA : q * (2 * F) = (2 * q) * F := by ring
  have eB : (q + 1) * (2 * F) = (2 * (q + 1)) * F := by ring
  have eH : ((2 * q + 1) * F) * ((2 * q + 1) * F) * ((2 * q + 1) * F) = ((2 * q + 1) * F) ^ 3 := by ring
  rw [eA] at hlow; rw [eB] at hup; rw [eH]
  have mono : ∀ a b : Nat, a ≤ b → (a * F) ^ 3 ≤ (b * F) ^ 3 := fun a b h =>
    Nat.pow_le_pow_left (Nat.mul_le_mul_right F h) 3
  intro q' hq'
  by_cases c1 : m > ((2 * q + 1) * F) ^ 3
  · rw [if_pos c1] at hq'
    subst hq'
    refine ⟨by omega, by omega, h53, ?_, ?_⟩
    · have : 2 * (q + 1) - 1 = 2 * q + 1 := by omega
      rw [this]; exact Nat.le_of_lt c1
    · exact le_trans (Nat.le_of_lt hup) (mono _ _ (by omega))
  · rw [if_neg c1] at hq'
    by_cases c2 : m < ((2 * q + 1) * F) ^ 3
    · rw [if_pos c2] at hq'
      subst hq'
      refine ⟨by omega, by omega, h53, ?_, Nat.le_of_lt c2⟩
      exact le_trans (mono _ _ (by omega)) hlow
    · rw [if_neg c2] at hq'
      have c3 : m = ((2 * q + 1) * F) ^ 3 := by omega
      by_cases c4 : q % 2 = 0
      · rw [if_pos c4] at hq'
        subst hq'
        refine ⟨by omega, by omega, h53, ?_, Nat.le_of_eq c3⟩
        exact le_trans (mono _ _ (by omega)) hlow
      · rw [if_neg c4] at hq'
        subst hq'
        refine ⟨by omega, by omega, h53, ?_, ?_⟩
        · have : 2 * (q + 1) - 1 = 2 * q + 1 := by omega
          rw [this]; exact Nat.le_of_eq c3.symm
        · exact le_trans (Nat.le_of_lt hup) (mono _ _ (by omega))

theorem cbrtRound_spec (m : Nat) (hm : 2 ^ 159 ≤ m) :
    ∃ q' e0 : Nat, cbrtRound m = q' * 2 ^ (e0 + 1) ∧
      2 ^ 52 ≤ q' ∧ q' ≤ 2 ^ 53 ∧ (2 ^ 53 * 2 ^ e0) ^ 3 ≤ m ∧
      ((2 * q' - 1) * 2 ^ e0) ^ 3 ≤ m ∧ m ≤ ((2 * q' + 1) * 2 ^ e0) ^ 3 := by
  obtain ⟨e0, he0, H⟩ := cbrt_round_nat m hm
  unfold cbrtRound
  simp only []
  rw [he0]
  have e1 : e0 + 1 - 1 = e0 := by omega
  rw [e1]
  exact ⟨_, e0, rfl, H _ rfl⟩

/-- **`F64.cbrt` is correctly rounded** (integer statement): on a non-zero finite input `±n·2^-1074` the result is
`±r`, `r = q'·2^(e+1)` with `2^52 ≤ q' ≤ 2^53` and `(r - 2^e)³ ≤ n·2^2148 ≤ (r + 2^e)³` (`2^e` is half an ulp of `r`),
and `2^53·2^e ≤ ∛(n·2^2148)`. -/
theorem cbrt_spec (s : Bool) (n : Nat) (hn : 0 < n) :
    ∃ q' e0 : Nat, F64.cbrt (fin s n) = fin s (q' * 2 ^ (e0 + 1)) ∧
      2 ^ 52 ≤ q' ∧ q' ≤ 2 ^ 53 ∧ (2 ^ 53 * 2 ^ e0) ^ 3 ≤ n * 2 ^ 2148 ∧
      ((2 * q' - 1) * 2 ^ e0) ^ 3 ≤ n * 2 ^ 2148 ∧ n * 2 ^ 2148 ≤ ((2 * q' + 1) * 2 ^ e0) ^ 3 := by
  have hm : 2 ^ 159 ≤ n * 2 ^ 2148 := by
    calc 2 ^ 159 ≤ 1 * 2 ^ 2148 := by rw [Nat.one_mul]; exact Nat.pow_le_pow_right (by norm_num) (by norm_num)
      _ ≤ n * 2 ^ 2148 := Nat.mul_le_mul_right _ hn
  obtain ⟨q', e0, h1, h2⟩ := cbrtRound_spec (n * 2 ^ 2148) hm
  exact ⟨q', e0, by rw [cbrt_fin s n (by omega), h1], h2⟩

end F64

/-! ## 4. the Newton step of `cbrt` over the reals -/

namespace CbrtReal

open SqrtReal

theorem abs_le_of_sub {a b r : ℝ} (h : |a - b| ≤ r) : |a| ≤ |b| + r := by
  have := abs_add_le b (a - b)
  rw [add_sub_cancel] at this
  linarith

/-- Newton step, stage A: the two products -/
theorem newton_A {η E X P Q : ℝ} (hη0 : 0 < η) (hη : η ≤ 1 / 2 ^ 100)
    (hE0 : 0 ≤ E) (hE : E ≤ 1 / 2 ^ 50)
    (hX : |X - 1| ≤ E)
    (hP : |P - X ^ 2| ≤ 5 * η * X ^ 2)
    (hQ : |Q - P * X| ≤ 5 * η * |P * X|) :
    |X| ≤ 1 + E ∧ 1 - 2 * E ≤ X ^ 2 ∧
    |P - X ^ 2| ≤ (5001 / 1000) * η ∧ |P| ≤ 10001 / 10000 ∧ |Q - P * X| ≤ (5001 / 1000) * η ∧
    |(P - X ^ 2) * X| ≤ (5002 / 1000) * η ∧
    |Q - 1| ≤ (30001 / 10000) * E + (10003 / 1000) * η := by
  obtain ⟨e, rfl⟩ : ∃ e, X = 1 + e := ⟨X - 1, by ring⟩
  have he : |e| ≤ E := by simpa using hX
  obtain ⟨he1, he2⟩ := abs_le.1 he
  have hηE : η * E ≤ η * (1 / 2 ^ 50) := mul_le_mul_of_nonneg_left hE hη0.le
  have hEE : E * E ≤ E * (1 / 2 ^ 50) := mul_le_mul_of_nonneg_left hE hE0
  have hee : e * e ≤ E * E := by
    have := abs_mul_le' he he
    rw [abs_mul_self] at this; exact this
  have he0 : 0 ≤ e * e := mul_self_nonneg e
  have hXa : |1 + e| ≤ 1 + E := by
    have := abs_add_le (1 : ℝ) e; rw [abs_one] at this; linarith
  have hX2u : (1 + e) ^ 2 ≤ 1 + 3 * E := by nlinarith
  have hX2l : 1 - 2 * E ≤ (1 + e) ^ 2 := by nlinarith
  have hd1 : |P - (1 + e) ^ 2| ≤ (5001 / 1000) * η := by
    refine le_trans hP ?_
    have := mul_le_mul_of_nonneg_left hX2u (show (0 : ℝ) ≤ 5 * η by positivity)
    nlinarith
  have hPa : |P| ≤ 10001 / 10000 := by
    have := abs_le_of_sub hd1
    rw [abs_of_nonneg (sq_nonneg (1 + e))] at this
    linarith
  have hPX : |P * (1 + e)| ≤ 10002 / 10000 := by
    have := abs_mul_le' hPa hXa
    nlinarith
  have hd2 : |Q - P * (1 + e)| ≤ (5001 / 1000) * η := by
    refine le_trans hQ ?_
    have := mul_le_mul_of_nonneg_left hPX (show (0 : ℝ) ≤ 5 * η by positivity)
    linarith
  have hT : |(1 + e) ^ 3 - 1| ≤ (30001 / 10000) * E := by
    have e1 : (1 + e) ^ 3 - 1 = e * (3 + 3 * e + e * e) := by ring
    have h2 : |3 + 3 * e + e * e| ≤ 30001 / 10000 := by
      rw [abs_le]; constructor <;> nlinarith
    rw [e1]
    have := abs_mul_le' he h2
    linarith
  have hd1X : |(P - (1 + e) ^ 2) * (1 + e)| ≤ (5002 / 1000) * η := by
    have := abs_mul_le' hd1 hXa
    nlinarith
  refine ⟨hXa, hX2l, hd1, hPa, hd2, hd1X, ?_⟩
  have e1 : Q - 1 = ((1 + e) ^ 3 - 1) + (P - (1 + e) ^ 2) * (1 + e) + (Q - P * (1 + e)) := by ring
  rw [e1]
  have t1 := abs_add_le (((1 + e) ^ 3 - 1) + (P - (1 + e) ^ 2) * (1 + e)) (Q - P * (1 + e))
  have t2 := abs_add_le ((1 + e) ^ 3 - 1) ((P - (1 + e) ^ 2) * (1 + e))
  linarith

/-- Newton step, stage B: numerator, denominator, quotient -/
theorem newton_B {η τ B1 X2 P Q N M K : ℝ} (hη0 : 0 < η) (hη : η ≤ 1 / 2 ^ 100) (hτ0 : 0 ≤ τ)
    (hX2l : 99999 / 100000 ≤ X2)
    (hd1 : |P - X2| ≤ (5001 / 1000) * η) (hPa : |P| ≤ 10001 / 10000)
    (hQ1 : |Q - 1| ≤ B1)
    (hN : |N - (Q - 1)| ≤ (301 / 100) * η * |Q - 1|)
    (hM : |M - 3 * P| ≤ 2 * η * |3 * P|)
    (hK : |N - K * M| ≤ 16 * η * |N| + τ) :
    |N - (Q - 1)| ≤ (301 / 100) * (η * B1) ∧ |M - 3 * X2| ≤ (21004 / 1000) * η ∧
    |N - K * M| ≤ (16002 / 1000) * (η * B1) + τ ∧ |K| ≤ (34 / 100) * (B1 + τ) := by
  have hB0 : 0 ≤ B1 := le_trans (abs_nonneg _) hQ1
  have hηB0 : 0 ≤ η * B1 := mul_nonneg hη0.le hB0
  have h2 : η * B1 ≤ (1 / 2 ^ 100) * B1 := mul_le_mul_of_nonneg_right hη hB0
  have h3 : (1 : ℝ) / 2 ^ 100 ≤ 1 / 10 ^ 9 := by norm_num
  have h4 : (1 / 2 ^ 100) * B1 ≤ (1 / 10 ^ 9) * B1 := mul_le_mul_of_nonneg_right h3 hB0
  have hd3 : |N - (Q - 1)| ≤ (301 / 100) * (η * B1) := by
    refine le_trans hN ?_
    have := mul_le_mul_of_nonneg_left hQ1 (show (0 : ℝ) ≤ (301 / 100) * η by positivity)
    linarith
  have hNa : |N| ≤ (10001 / 10000) * B1 := by
    have := abs_le_of_sub hd3
    linarith
  have hd4 : |M - 3 * P| ≤ (6001 / 1000) * η := by
    refine le_trans hM ?_
    have h1 : |3 * P| ≤ 3 * (10001 / 10000) := by
      rw [abs_mul, abs_of_pos (by norm_num : (0 : ℝ) < 3)]; linarith
    have := mul_le_mul_of_nonneg_left h1 (show (0 : ℝ) ≤ 2 * η by positivity)
    linarith
  have hM3 : |M - 3 * X2| ≤ (21004 / 1000) * η := by
    have e1 : M - 3 * X2 = (M - 3 * P) + 3 * (P - X2) := by ring
    rw [e1]
    have t1 := abs_add_le (M - 3 * P) (3 * (P - X2))
    rw [abs_mul, abs_of_pos (by norm_num : (0 : ℝ) < 3)] at t1
    linarith
  have hMl : 29999 / 10000 ≤ M := by
    have := (abs_le.1 hM3).1
    linarith
  have hd5 : |N - K * M| ≤ (16002 / 1000) * (η * B1) + τ := by
    refine le_trans hK ?_
    have := mul_le_mul_of_nonneg_left hNa (show (0 : ℝ) ≤ 16 * η by positivity)
    linarith
  refine ⟨hd3, hM3, hd5, ?_⟩
  have h1 : |K * M| ≤ (10002 / 10000) * B1 + τ := by
    have e1 : K * M = N - (N - K * M) := by ring
    rw [e1]
    have t := abs_sub (N) (N - K * M)
    linarith
  rw [abs_mul, abs_of_pos (by linarith : (0 : ℝ) < M)] at h1
  have h5 : |K| * (29999 / 10000) ≤ |K| * M := mul_le_mul_of_nonneg_left hMl (abs_nonneg K)
  linarith


/-- Newton step, stage C: the Newton identity and the final subtraction -/
theorem newton_C {η τ E B1 X P Q N M K X' : ℝ} (hη0 : 0 < η) (hη : η ≤ 1 / 2 ^ 100)
    (_hτ0 : 0 ≤ τ) (hτ : τ ≤ η / 1000)
    (hE0 : 0 ≤ E) (hE : E ≤ 1 / 2 ^ 50) (hB0 : 0 ≤ B1) (hB1 : B1 ≤ 1 / 2 ^ 48)
    (hX : |X - 1| ≤ E) (hX2l : 1 - 2 * E ≤ X ^ 2)
    (hd2 : |Q - P * X| ≤ (5001 / 1000) * η) (hd1X : |(P - X ^ 2) * X| ≤ (5002 / 1000) * η)
    (hd3 : |N - (Q - 1)| ≤ (301 / 100) * (η * B1)) (hM3 : |M - 3 * X ^ 2| ≤ (21004 / 1000) * η)
    (hd5 : |N - K * M| ≤ (16002 / 1000) * (η * B1) + τ) (hKa : |K| ≤ (34 / 100) * (B1 + τ))
    (hX' : |X' - (X - K)| ≤ (301 / 100) * η * |X - K|) :
    |X' - 1| ≤ (1001 / 1000) * E ^ 2 + (13 / 2) * η := by
  obtain ⟨e, rfl⟩ : ∃ e, X = 1 + e := ⟨X - 1, by ring⟩
  have he : |e| ≤ E := by simpa using hX
  have hEE0 : 0 ≤ E * E := mul_nonneg hE0 hE0
  have hee : |e * e| ≤ E * E := abs_mul_le' he he
  have heee : |e * e * e| ≤ E * E * E := abs_mul_le' hee he
  have hEEE : E * E * E ≤ (E * E) * (1 / 2 ^ 50) := mul_le_mul_of_nonneg_left hE hEE0
  have hηB : η * B1 ≤ η * (1 / 2 ^ 48) := mul_le_mul_of_nonneg_left hB1 hη0.le
  have hηB0 : 0 ≤ η * B1 := mul_nonneg hη0.le hB0
  have key : 3 * (1 + e) ^ 2 * ((1 + e) - K - 1)
      = 3 * (e * e) + 2 * (e * e * e) - ((P - (1 + e) ^ 2) * (1 + e) + (Q - P * (1 + e)) + (N - (Q - 1)))
        + (N - K * M) + K * (M - 3 * (1 + e) ^ 2) := by ring
  have hKM : |K * (M - 3 * (1 + e) ^ 2)| ≤ (34 / 100) * (B1 + τ) * ((21004 / 1000) * η) := abs_mul_le' hKa hM3
  have hτη : τ * η ≤ (η / 1000) * η := mul_le_mul_of_nonneg_right hτ hη0.le
  have hηη : η * η ≤ η * (1 / 2 ^ 100) := mul_le_mul_of_nonneg_left hη hη0.le
  have h3 : (1 : ℝ) / 2 ^ 50 ≤ 1 / 10 ^ 9 := by norm_num
  have h4 : (1 : ℝ) / 2 ^ 48 ≤ 1 / 10 ^ 9 := by norm_num
  have hW3 : |3 * (1 + e) ^ 2 * ((1 + e) - K - 1)| ≤ (30001 / 10000) * (E * E) + (10006 / 1000) * η := by
    rw [key]
    have t1 := abs_add_le (3 * (e * e) + 2 * (e * e * e) - ((P - (1 + e) ^ 2) * (1 + e) + (Q - P * (1 + e)) + (N - (Q - 1)))
        + (N - K * M)) (K * (M - 3 * (1 + e) ^ 2))
    have t2 := abs_add_le (3 * (e * e) + 2 * (e * e * e) - ((P - (1 + e) ^ 2) * (1 + e) + (Q - P * (1 + e)) + (N - (Q - 1))))
        (N - K * M)
    have t3 := abs_sub (3 * (e * e) + 2 * (e * e * e)) ((P - (1 + e) ^ 2) * (1 + e) + (Q - P * (1 + e)) + (N - (Q - 1)))
    have t4 := abs_add_le (3 * (e * e)) (2 * (e * e * e))
    have t5 := abs_add_le ((P - (1 + e) ^ 2) * (1 + e) + (Q - P * (1 + e))) (N - (Q - 1))
    have t6 := abs_add_le ((P - (1 + e) ^ 2) * (1 + e)) (Q - P * (1 + e))
    rw [abs_mul (3 : ℝ), abs_of_pos (by norm_num : (0 : ℝ) < 3)] at t4
    rw [abs_mul (2 : ℝ), abs_of_pos (by norm_num : (0 : ℝ) < 2)] at t4
    have h10 : (1 : ℝ) / 2 ^ 100 ≤ 1 / 10 ^ 9 := by norm_num
    nlinarith
  -- divide by 3X²
  have hW : |(1 + e) - K - 1| ≤ (10001 / 10000) * (E * E) + (3337 / 1000) * η := by
    rw [abs_mul, abs_of_nonneg (by positivity : (0 : ℝ) ≤ 3 * (1 + e) ^ 2)] at hW3
    have h5 : (3 * (1 - 2 * E)) * |(1 + e) - K - 1| ≤ 3 * (1 + e) ^ 2 * |(1 + e) - K - 1| :=
      mul_le_mul_of_nonneg_right (by linarith) (abs_nonneg _)
    have h6 : E * |(1 + e) - K - 1| ≤ (1 / 10 ^ 9) * |(1 + e) - K - 1| :=
      mul_le_mul_of_nonneg_right (by linarith) (abs_nonneg _)
    have n0 := abs_nonneg ((1 + e) - K - 1)
    nlinarith
  -- final subtraction
  have hXK : |(1 + e) - K| ≤ 10001 / 10000 := by
    have e1 : (1 + e) - K = 1 + ((1 + e) - K - 1) := by ring
    rw [e1]
    have := abs_add_le (1 : ℝ) ((1 + e) - K - 1)
    rw [abs_one] at this
    have h7 : E * E ≤ E * (1 / 2 ^ 50) := mul_le_mul_of_nonneg_left hE hE0
    have h8 : E * (1 / 2 ^ 50) ≤ (1 / 2 ^ 50) * (1 / 2 ^ 50) := mul_le_mul_of_nonneg_right hE (by positivity)
    have h9 : (1 : ℝ) / 2 ^ 50 * (1 / 2 ^ 50) ≤ 1 / 10 ^ 9 := by norm_num
    have h10 : (1 : ℝ) / 2 ^ 100 ≤ 1 / 10 ^ 9 := by norm_num
    linarith
  have hd6 : |X' - ((1 + e) - K)| ≤ (3011 / 1000) * η := by
    refine le_trans hX' ?_
    have := mul_le_mul_of_nonneg_left hXK (show (0 : ℝ) ≤ (301 / 100) * η by positivity)
    linarith
  have e2 : X' - 1 = (X' - ((1 + e) - K)) + ((1 + e) - K - 1) := by ring
  rw [e2]
  have := abs_add_le (X' - ((1 + e) - K)) ((1 + e) - K - 1)
  have e3 : E ^ 2 = E * E := by ring
  rw [e3]
  linarith

/-- **one Newton step `x ↦ x − (x²·x − a)/(3x²)` in double-word arithmetic, normalised by the exact cube root**
(`c = 1`): `X ≈ 1` within `E ≤ 2^-50`; `P ≈ X²`, `Q ≈ P·X` (products, `5η`), `N ≈ Q − 1` (difference, `3.01η`),
`M ≈ 3P` (`2η`), `K ≈ N/M` (`16η`), `X' ≈ X − K` (`3.01η`).  Then `|X' − 1| ≤ 1.001E² + 6.5η`. -/
theorem newton_norm {η τ E X P Q N M K X' : ℝ} (hη0 : 0 < η) (hη : η ≤ 1 / 2 ^ 100)
    (hτ0 : 0 ≤ τ) (hτ : τ ≤ η / 1000)
    (hE0 : 0 ≤ E) (hE : E ≤ 1 / 2 ^ 50)
    (hX : |X - 1| ≤ E)
    (hP : |P - X ^ 2| ≤ 5 * η * X ^ 2)
    (hQ : |Q - P * X| ≤ 5 * η * |P * X|)
    (hN : |N - (Q - 1)| ≤ (301 / 100) * η * |Q - 1|)
    (hM : |M - 3 * P| ≤ 2 * η * |3 * P|)
    (hK : |N - K * M| ≤ 16 * η * |N| + τ)
    (hX' : |X' - (X - K)| ≤ (301 / 100) * η * |X - K|) :
    |X' - 1| ≤ (1001 / 1000) * E ^ 2 + (13 / 2) * η := by
  obtain ⟨hXa, hX2l, hd1, hPa, hd2, hd1X, hQ1⟩ := newton_A hη0 hη hE0 hE hX hP hQ
  have hB1 : (30001 / 10000) * E + (10003 / 1000) * η ≤ 1 / 2 ^ 48 := by
    have h1 : (1 : ℝ) / 2 ^ 100 ≤ (1 / 2 ^ 8) * (1 / 2 ^ 52) := by norm_num
    have h3 : (1 : ℝ) / 2 ^ 50 = 4 * (1 / 2 ^ 52) := by norm_num
    have h4 : (1 : ℝ) / 2 ^ 48 = 16 * (1 / 2 ^ 52) := by norm_num
    have h6 : (0 : ℝ) < 1 / 2 ^ 52 := by positivity
    linarith
  have hB0 : 0 ≤ (30001 / 10000) * E + (10003 / 1000) * η := by positivity
  have hX2l' : (99999 : ℝ) / 100000 ≤ X ^ 2 := by
    have : (1 : ℝ) / 2 ^ 50 ≤ 1 / 10 ^ 9 := by norm_num
    linarith
  obtain ⟨hd3, hM3, hd5, hKa⟩ := newton_B (X2 := X ^ 2) hη0 hη hτ0 hX2l' hd1 hPa hQ1 hN hM hK
  exact newton_C hη0 hη hτ0 hτ hE0 hE hB0 hB1 hX hX2l hd2 hd1X hd3 hM3 hd5 hKa hX'


theorem mul_rel {u v w κ : ℝ} (s : ℝ) (h : |u - v| ≤ κ * |w|) : |u * s - v * s| ≤ κ * |w * s| := by
  have e : u * s - v * s = (u - v) * s := by ring
  rw [e, abs_mul, abs_mul]
  have := mul_le_mul_of_nonneg_right h (abs_nonneg s)
  linarith

/-- **one Newton step on scaled values** (`U = 2^1074`; `xs, ps, … ` are the integer values `t.V` of the pairs, `C` the
scaled cube root, `C³ = as·U²`), hypotheses in the cross-multiplied form delivered by the error bounds of the
double-word operations -/
theorem newton_scaled {η τ E U C xs as ps qs ns ms ks xs' : ℝ} (hη0 : 0 < η) (hη : η ≤ 1 / 2 ^ 100)
    (hτ0 : 0 ≤ τ) (hτ : τ ≤ η / 1000)
    (hE0 : 0 ≤ E) (hE : E ≤ 1 / 2 ^ 50) (hU : 0 < U) (hC : C ≠ 0) (hCa : C ^ 3 = as * U ^ 2)
    (hX : |xs - C| ≤ E * |C|)
    (hP : |ps * U - xs * xs| ≤ 5 * η * |xs * xs|)
    (hQ : |qs * U - ps * xs| ≤ 5 * η * |ps * xs|)
    (hN : |ns - (qs - as)| ≤ (301 / 100) * η * |qs - as|)
    (hM : |ms * U - 3 * U * ps| ≤ 2 * η * |3 * U * ps|)
    (hK : |ns * U - ks * ms| ≤ 16 * η * |ns * U| + τ * (|C| ^ 3 / U))
    (hX' : |xs' - (xs - ks)| ≤ (301 / 100) * η * |xs - ks|) :
    |xs' - C| ≤ ((1001 / 1000) * E ^ 2 + (13 / 2) * η) * |C| := by
  have hU0 : U ≠ 0 := ne_of_gt hU
  have h := newton_norm (X := xs / C) (P := ps * U / C ^ 2) (Q := qs * U ^ 2 / C ^ 3) (N := ns * U ^ 2 / C ^ 3)
    (M := ms * U / C ^ 2) (K := ks / C) (X' := xs' / C) hη0 hη hτ0 hτ hE0 hE
    (by
      have := mul_rel (1 / C) hX
      have e1 : xs * (1 / C) - C * (1 / C) = xs / C - 1 := by field_simp
      have e2 : |C * (1 / C)| = 1 := by rw [mul_one_div_cancel hC, abs_one]
      rw [e1, e2, mul_one] at this
      exact this)
    (by
      have := mul_rel (1 / C ^ 2) hP
      have e1 : ps * U * (1 / C ^ 2) - xs * xs * (1 / C ^ 2) = ps * U / C ^ 2 - (xs / C) ^ 2 := by
        field_simp
      have e2 : |xs * xs * (1 / C ^ 2)| = (xs / C) ^ 2 := by
        have e3 : xs * xs * (1 / C ^ 2) = (xs / C) ^ 2 := by field_simp
        rw [e3, abs_of_nonneg (sq_nonneg _)]
      rw [e1, e2] at this
      exact this)
    (by
      have := mul_rel (U / C ^ 3) hQ
      have e1 : qs * U * (U / C ^ 3) - ps * xs * (U / C ^ 3) = qs * U ^ 2 / C ^ 3 - ps * U / C ^ 2 * (xs / C) := by
        field_simp
      have e2 : ps * xs * (U / C ^ 3) = ps * U / C ^ 2 * (xs / C) := by field_simp
      rw [e1, e2] at this
      exact this)
    (by
      have := mul_rel (U ^ 2 / C ^ 3) hN
      have e3 : (qs - as) * (U ^ 2 / C ^ 3) = qs * U ^ 2 / C ^ 3 - 1 := by
        have : as * U ^ 2 / C ^ 3 = 1 := by rw [← hCa]; field_simp
        rw [sub_mul, mul_div_assoc', mul_div_assoc', this]
      have e1 : ns * (U ^ 2 / C ^ 3) - (qs - as) * (U ^ 2 / C ^ 3) = ns * U ^ 2 / C ^ 3 - (qs * U ^ 2 / C ^ 3 - 1) := by
        rw [e3]; ring
      rw [e1, e3] at this
      exact this)
    (by
      have := mul_rel (1 / C ^ 2) hM
      have e2 : 3 * U * ps * (1 / C ^ 2) = 3 * (ps * U / C ^ 2) := by field_simp
      have e1 : ms * U * (1 / C ^ 2) - 3 * U * ps * (1 / C ^ 2) = ms * U / C ^ 2 - 3 * (ps * U / C ^ 2) := by
        rw [e2]; ring
      rw [e1, e2] at this
      exact this)
    (by
      have hCp : 0 < |C| := abs_pos.2 hC
      have e2 : ns * U * (U / C ^ 3) = ns * U ^ 2 / C ^ 3 := by field_simp
      have e1 : ns * U ^ 2 / C ^ 3 - ks / C * (ms * U / C ^ 2) = (ns * U - ks * ms) * (U / C ^ 3) := by
        field_simp
      have e3 : |U / C ^ 3| = U / |C| ^ 3 := by rw [abs_div, abs_of_pos hU, abs_pow]
      rw [e1, abs_mul, ← e2, abs_mul, e3]
      have := mul_le_mul_of_nonneg_right hK (show 0 ≤ U / |C| ^ 3 by positivity)
      have e4 : τ * (|C| ^ 3 / U) * (U / |C| ^ 3) = τ := by field_simp
      nlinarith [this, e4])
    (by
      have := mul_rel (1 / C) hX'
      have e2 : (xs - ks) * (1 / C) = xs / C - ks / C := by field_simp
      have e1 : xs' * (1 / C) - (xs - ks) * (1 / C) = xs' / C - (xs / C - ks / C) := by
        rw [e2]; ring
      rw [e1, e2] at this
      exact this)
  have hCp : 0 < |C| := abs_pos.2 hC
  have e : xs' - C = (xs' / C - 1) * C := by field_simp
  rw [e, abs_mul]
  exact mul_le_mul_of_nonneg_right h hCp.le

end CbrtReal

/-! ## 5. the double-word operations over the reals -/

namespace CbrtBound

open F64 TwoFloat


/-- `TwoFloat * TwoFloat` over the reals -/
theorem mul_tt_real {x y : TwoFloat} (hvx : x.Valid) (hwx : x.WF) (hvy : y.Valid) (hwy : y.WF)
    (hx : 2 ^ 53 ≤ |x.hi.toInt|) (hy : 2 ^ 53 ≤ |y.hi.toInt|)
    (hlo : 2 ^ 1247 ≤ |x.hi.toInt * y.hi.toInt|) (hhi : |x.hi.toInt * y.hi.toInt| < 2 ^ 3169) :
    (arithmetic.impl_Mul_rTwoFloat_for_rTwoFloat.mul x y).Valid ∧
    (arithmetic.impl_Mul_rTwoFloat_for_rTwoFloat.mul x y).WF ∧
    |((arithmetic.impl_Mul_rTwoFloat_for_rTwoFloat.mul x y).V : ℝ) * 2 ^ 1074 - (x.V : ℝ) * (y.V : ℝ)|
      ≤ 5 * (1 / 2 ^ 106) * |(x.V : ℝ) * (y.V : ℝ)| := by
  obtain ⟨hV, hb⟩ := mul_tt_bound_5u2_wide hvx hwx hvy hwy hx hy hlo hhi
  refine ⟨hV, mul_tt_WF x y, ?_⟩
  have h2 : |((arithmetic.impl_Mul_rTwoFloat_for_rTwoFloat.mul x y).V : ℝ) * ((unit : Nat) : ℝ)
      - (x.V : ℝ) * (y.V : ℝ)| * 2 ^ 106 ≤ 5 * |(x.V : ℝ) * (y.V : ℝ)| := by exact_mod_cast hb
  rw [unit_real] at h2
  have hp : (0 : ℝ) < 2 ^ 106 := by positivity
  rw [show (5 : ℝ) * (1 / 2 ^ 106) * |(x.V : ℝ) * (y.V : ℝ)| = 5 * |(x.V : ℝ) * (y.V : ℝ)| / 2 ^ 106 by ring,
    le_div_iff₀ hp]
  exact h2

/-- `TwoFloat - TwoFloat` over the reals (`3u² + 13u³ ≤ 3.01u²`) -/
theorem sub_tt_real {x y : TwoFloat} (hvx : x.Valid) (hwx : x.WF) (hvy : y.Valid) (hwy : y.WF)
    (bx : |x.hi.toInt| < 2 ^ 2094) (by' : |y.hi.toInt| < 2 ^ 2094) :
    (arithmetic.impl_Sub_rTwoFloat_for_rTwoFloat.sub x y).Valid ∧
    (arithmetic.impl_Sub_rTwoFloat_for_rTwoFloat.sub x y).WF ∧
    |((arithmetic.impl_Sub_rTwoFloat_for_rTwoFloat.sub x y).V : ℝ) - ((x.V : ℝ) - (y.V : ℝ))|
      ≤ (301 / 100) * (1 / 2 ^ 106) * |(x.V : ℝ) - (y.V : ℝ)| := by
  have bx' : x.hi.toInt.natAbs < 2 ^ 2094 := by
    have : ((x.hi.toInt.natAbs : Nat) : Int) < ((2 ^ 2094 : Nat) : Int) := by
      rw [Int.natCast_natAbs]; push_cast; exact bx
    exact_mod_cast this
  have by'' : y.hi.toInt.natAbs < 2 ^ 2094 := by
    have : ((y.hi.toInt.natAbs : Nat) : Int) < ((2 ^ 2094 : Nat) : Int) := by
      rw [Int.natCast_natAbs]; push_cast; exact by'
    exact_mod_cast this
  obtain ⟨hV, hb⟩ := sub_tt_bound hvx hwx hvy hwy bx' by''
  refine ⟨hV, sub_tt_WF x y, ?_⟩
  have h2 : |((arithmetic.impl_Sub_rTwoFloat_for_rTwoFloat.sub x y).V : ℝ) - ((x.V : ℝ) - (y.V : ℝ))| * 2 ^ 159
      ≤ (3 * 2 ^ 53 + 13) * |(x.V : ℝ) - (y.V : ℝ)| := by exact_mod_cast hb
  have hp : (0 : ℝ) < 2 ^ 159 := by positivity
  have n0 := abs_nonneg ((x.V : ℝ) - (y.V : ℝ))
  have h3 : |((arithmetic.impl_Sub_rTwoFloat_for_rTwoFloat.sub x y).V : ℝ) - ((x.V : ℝ) - (y.V : ℝ))|
      ≤ (3 * 2 ^ 53 + 13) * |(x.V : ℝ) - (y.V : ℝ)| / 2 ^ 159 := by
    rw [le_div_iff₀ hp]; exact h2
  refine le_trans h3 ?_
  rw [div_le_iff₀ hp]
  have : ((3 : ℝ) * 2 ^ 53 + 13) ≤ (301 / 100) * (1 / 2 ^ 106) * 2 ^ 159 := by norm_num
  nlinarith

/-- `f64 * TwoFloat` over the reals -/
theorem mul_ft_real {x : TwoFloat} {f : F64} (hv : x.Valid) (hw : x.WF)
    (hff : f.is_finite = true) (hwf : f.WF)
    (hr : (2 : Int) ^ 1188 ≤ |x.hi.toInt * f.toInt| ∧ |x.hi.toInt * f.toInt| < (2 : Int) ^ 3169) :
    (arithmetic.impl_Mul_rTwoFloat_for_rf64.mul f x).Valid ∧
    (arithmetic.impl_Mul_rTwoFloat_for_rf64.mul f x).WF ∧
    |((arithmetic.impl_Mul_rTwoFloat_for_rf64.mul f x).V : ℝ) * 2 ^ 1074 - (f.toInt : ℝ) * (x.V : ℝ)|
      ≤ 2 * (1 / 2 ^ 106) * |(f.toInt : ℝ) * (x.V : ℝ)| := by
  obtain ⟨hV, hb⟩ := mul_ft_bound hv hw hff hwf (Or.inr hr)
  refine ⟨hV, fast_two_sum_WF _ _, ?_⟩
  have h2 : |((arithmetic.impl_Mul_rTwoFloat_for_rf64.mul f x).V : ℝ) * ((unit : Nat) : ℝ)
      - (f.toInt : ℝ) * (x.V : ℝ)| * 2 ^ 105 ≤ |(f.toInt : ℝ) * (x.V : ℝ)| := by exact_mod_cast hb
  rw [unit_real] at h2
  have hp : (0 : ℝ) < 2 ^ 105 := by positivity
  have h3 : |((arithmetic.impl_Mul_rTwoFloat_for_rf64.mul f x).V : ℝ) * 2 ^ 1074 - (f.toInt : ℝ) * (x.V : ℝ)|
      ≤ |(f.toInt : ℝ) * (x.V : ℝ)| / 2 ^ 105 := by
    rw [le_div_iff₀ hp]; exact h2
  refine le_trans h3 (le_of_eq ?_)
  rw [show (2 : ℝ) ^ 106 = 2 * 2 ^ 105 by norm_num]
  field_simp

/-- `TwoFloat / TwoFloat` over the reals -/
theorem div_tt_real {a b : TwoFloat} (ha : a.Valid) (hwa : a.WF) (hb : b.Valid)
    (R : DivRange a.hi.toInt b.hi.toInt)
    (hB : 2 ^ 110 * |b.hi.toInt| ≤ |a.hi.toInt * (unit : Int)|) (hA : 2 ^ 110 ≤ |a.hi.toInt|) :
    (arithmetic.impl_Div_rTwoFloat_for_rTwoFloat.div a b).Valid ∧
    (arithmetic.impl_Div_rTwoFloat_for_rTwoFloat.div a b).WF ∧
    |(a.V : ℝ) * 2 ^ 1074 - ((arithmetic.impl_Div_rTwoFloat_for_rTwoFloat.div a b).V : ℝ) * (b.V : ℝ)|
      ≤ 16 * (1 / 2 ^ 106) * |(a.V : ℝ) * 2 ^ 1074| := by
  obtain ⟨hV, hW⟩ := div_tt_valid_of_range ha hwa hb R
  refine ⟨hV, hW, ?_⟩
  have hb' := div_tt_acc ha hwa hb R hB hA
  have h2 : 2 ^ 102 * |(a.V : ℝ) * ((unit : Nat) : ℝ)
      - ((arithmetic.impl_Div_rTwoFloat_for_rTwoFloat.div a b).V : ℝ) * (b.V : ℝ)|
      ≤ |(a.V : ℝ) * ((unit : Nat) : ℝ)| := by exact_mod_cast hb'
  rw [unit_real] at h2
  have hp : (0 : ℝ) < 2 ^ 102 := by positivity
  have h3 : |(a.V : ℝ) * 2 ^ 1074 - ((arithmetic.impl_Div_rTwoFloat_for_rTwoFloat.div a b).V : ℝ) * (b.V : ℝ)|
      ≤ |(a.V : ℝ) * 2 ^ 1074| / 2 ^ 102 := by
    rw [le_div_iff₀ hp, mul_comm]; exact h2
  refine le_trans h3 (le_of_eq ?_)
  rw [show (2 : ℝ) ^ 106 = 16 * 2 ^ 102 by norm_num]
  field_simp

/-- `TwoFloat / TwoFloat` over the reals, on the whole of `DivRange`, absolute terms kept -/
theorem div_tt_real_abs {a b : TwoFloat} (ha : a.Valid) (hwa : a.WF) (hb : b.Valid)
    (R : DivRange a.hi.toInt b.hi.toInt) :
    (arithmetic.impl_Div_rTwoFloat_for_rTwoFloat.div a b).Valid ∧
    (arithmetic.impl_Div_rTwoFloat_for_rTwoFloat.div a b).WF ∧
    |(a.V : ℝ) * 2 ^ 1074 - ((arithmetic.impl_Div_rTwoFloat_for_rTwoFloat.div a b).V : ℝ) * (b.V : ℝ)|
      ≤ 15 * (1 / 2 ^ 106) * |(a.V : ℝ) * 2 ^ 1074| + |(b.hi.toInt : ℝ)| + 4 * 2 ^ 1074 := by
  obtain ⟨hV, hW⟩ := div_tt_valid_of_range ha hwa hb R
  refine ⟨hV, hW, ?_⟩
  have hb' := div_tt_acc_abs ha hwa hb R
  have h2 : 2 ^ 106 * |(a.V : ℝ) * ((unit : Nat) : ℝ)
      - ((arithmetic.impl_Div_rTwoFloat_for_rTwoFloat.div a b).V : ℝ) * (b.V : ℝ)|
      ≤ 15 * |(a.V : ℝ) * ((unit : Nat) : ℝ)| + 2 ^ 106 * |(b.hi.toInt : ℝ)| + 2 ^ 108 * ((unit : Nat) : ℝ) := by
    exact_mod_cast hb'
  rw [unit_real] at h2
  have hp : (0 : ℝ) < 2 ^ 106 := by positivity
  have e : (15 : ℝ) * (1 / 2 ^ 106) * |(a.V : ℝ) * 2 ^ 1074| + |(b.hi.toInt : ℝ)| + 4 * 2 ^ 1074
      = (15 * |(a.V : ℝ) * 2 ^ 1074| + 2 ^ 106 * |(b.hi.toInt : ℝ)| + 2 ^ 108 * 2 ^ 1074) / 2 ^ 106 := by
    field_simp; ring
  rw [e, le_div_iff₀ hp, mul_comm]
  exact h2

/-- high word against value, over the reals -/
theorem hi_real {t : TwoFloat} (hv : t.Valid) :
    (1 - 1 / 2 ^ 53) * |(t.hi.toInt : ℝ)| ≤ |(t.V : ℝ)| ∧ |(t.V : ℝ)| ≤ (1 + 1 / 2 ^ 53) * |(t.hi.toInt : ℝ)| := by
  obtain ⟨h1, h2⟩ := PowiBound.hi_bounds hv
  have c1 : (2 ^ 53 - 1) * |(t.hi.toInt : ℝ)| ≤ 2 ^ 53 * |(t.V : ℝ)| := by exact_mod_cast h1
  have c2 : 2 ^ 53 * |(t.V : ℝ)| ≤ (2 ^ 53 + 1) * |(t.hi.toInt : ℝ)| := by exact_mod_cast h2
  constructor
  · have : (1 - 1 / 2 ^ 53) * |(t.hi.toInt : ℝ)| = (2 ^ 53 - 1) * |(t.hi.toInt : ℝ)| / 2 ^ 53 := by
      field_simp
    rw [this, div_le_iff₀ (by positivity)]; linarith
  · have : (1 + 1 / 2 ^ 53) * |(t.hi.toInt : ℝ)| = (2 ^ 53 + 1) * |(t.hi.toInt : ℝ)| / 2 ^ 53 := by
      field_simp
    rw [this, le_div_iff₀ (by positivity)]; linarith

/-! ## 6. the Newton step of `cbrt` in double-word arithmetic -/

open C01

/-- range facts about the scaled cube root `C` of `a` (`C³ = a.V·U²`, `U = 2^1074`) for `|a.hi| ∈ [2^-900, 2^900]` -/
theorem C_range {a : TwoFloat} {C : ℝ} (hva : a.Valid)
    (ha1 : 2 ^ 174 ≤ |a.hi.toInt|) (ha2 : |a.hi.toInt| ≤ 2 ^ 1974)
    (hCa : C ^ 3 = (a.V : ℝ) * (2 ^ 1074) ^ 2) :
    (99 / 100) * 2 ^ 174 ≤ |(a.V : ℝ)| ∧ |(a.V : ℝ)| ≤ (101 / 100) * 2 ^ 1974 ∧
    |C| ^ 3 = |(a.V : ℝ)| * (2 ^ 1074) ^ 2 ∧ 2 ^ 773 ≤ |C| ∧ |C| ≤ 2 ^ 1375 := by
  obtain ⟨h1, h2⟩ := hi_real hva
  have c1 : (2 : ℝ) ^ 174 ≤ |(a.hi.toInt : ℝ)| := by exact_mod_cast ha1
  have c2 : |(a.hi.toInt : ℝ)| ≤ (2 : ℝ) ^ 1974 := by exact_mod_cast ha2
  have u1 : (1 : ℝ) / 2 ^ 53 ≤ 1 / 100 := by norm_num
  have n0 := abs_nonneg (a.hi.toInt : ℝ)
  have l1 : (99 / 100) * 2 ^ 174 ≤ |(a.V : ℝ)| := by nlinarith
  have l2 : |(a.V : ℝ)| ≤ (101 / 100) * 2 ^ 1974 := by nlinarith
  have l3 : |C| ^ 3 = |(a.V : ℝ)| * (2 ^ 1074) ^ 2 := by
    rw [← abs_pow, hCa, abs_mul, abs_of_pos (by positivity : (0 : ℝ) < (2 ^ 1074) ^ 2)]
  refine ⟨l1, l2, l3, ?_, ?_⟩
  · by_contra hc
    rw [not_le] at hc
    have : |C| ^ 3 < (2 ^ 773) ^ 3 := pow_lt_pow_left₀ hc (abs_nonneg C) (by norm_num)
    rw [l3] at this
    have e1 : ((2 : ℝ) ^ 773) ^ 3 = (1 / 8) * 2 ^ 174 * (2 ^ 1074) ^ 2 := by norm_num
    have e2 : (0 : ℝ) < (2 ^ 1074) ^ 2 := by positivity
    nlinarith
  · by_contra hc
    rw [not_le] at hc
    have : (2 ^ 1375) ^ 3 < |C| ^ 3 := pow_lt_pow_left₀ hc (by positivity) (by norm_num)
    rw [l3] at this
    have e1 : ((2 : ℝ) ^ 1375) ^ 3 = 8 * 2 ^ 1974 * (2 ^ 1074) ^ 2 := by norm_num
    have e2 : (0 : ℝ) < (2 ^ 1074) ^ 2 := by positivity
    nlinarith


/-- magnitudes of value and high word of `x ≈ C` -/
theorem x_encl {x : TwoFloat} {C E : ℝ} (hvx : x.Valid) (hE : E ≤ 1 / 2 ^ 50)
    (hx : |(x.V : ℝ) - C| ≤ E * |C|) :
    (999 / 1000) * |C| ≤ |(x.V : ℝ)| ∧ |(x.V : ℝ)| ≤ (1001 / 1000) * |C| ∧
    (998 / 1000) * |C| ≤ |(x.hi.toInt : ℝ)| ∧ |(x.hi.toInt : ℝ)| ≤ (1002 / 1000) * |C| := by
  obtain ⟨h1, h2⟩ := hi_real hvx
  have t := abs_abs_sub_abs_le_abs_sub (x.V : ℝ) C
  obtain ⟨t1, t2⟩ := abs_le.1 (le_trans t hx)
  have hEc : E * |C| ≤ (1 / 2 ^ 50) * |C| := mul_le_mul_of_nonneg_right hE (abs_nonneg C)
  have u1 : (1 : ℝ) / 2 ^ 53 ≤ 1 / 10 ^ 9 := by norm_num
  have u2 : (1 : ℝ) / 2 ^ 50 ≤ 1 / 10 ^ 9 := by norm_num
  have n0 := abs_nonneg (x.hi.toInt : ℝ)
  have n1 := abs_nonneg C
  have n2 : (1 / 2 ^ 53) * |(x.hi.toInt : ℝ)| ≤ (1 / 10 ^ 9) * |(x.hi.toInt : ℝ)| :=
    mul_le_mul_of_nonneg_right u1 n0
  have n3 : (1 / 2 ^ 50) * |C| ≤ (1 / 10 ^ 9) * |C| := mul_le_mul_of_nonneg_right u2 n1
  refine ⟨by linarith, by linarith, by linarith, by linarith⟩


/-- crude enclosure of the high word by the value -/
theorem hi_encl {t : TwoFloat} (hv : t.Valid) :
    (999 / 1000) * |(t.V : ℝ)| ≤ |(t.hi.toInt : ℝ)| ∧ |(t.hi.toInt : ℝ)| ≤ (1001 / 1000) * |(t.V : ℝ)| := by
  obtain ⟨h1, h2⟩ := hi_real hv
  have u1 : (1 : ℝ) / 2 ^ 53 ≤ 1 / 10 ^ 9 := by norm_num
  have n0 := abs_nonneg (t.hi.toInt : ℝ)
  have n2 : (1 / 2 ^ 53) * |(t.hi.toInt : ℝ)| ≤ (1 / 10 ^ 9) * |(t.hi.toInt : ℝ)| :=
    mul_le_mul_of_nonneg_right u1 n0
  constructor <;> linarith

/-- a relative error bound `κ ≤ 2^-50` as an enclosure of magnitudes -/
theorem rel_encl {r s κ : ℝ} (hκ : κ ≤ 1 / 2 ^ 50) (h : |r - s| ≤ κ * |s|) :
    (999 / 1000) * |s| ≤ |r| ∧ |r| ≤ (1001 / 1000) * |s| := by
  have t := abs_abs_sub_abs_le_abs_sub r s
  obtain ⟨t1, t2⟩ := abs_le.1 (le_trans t h)
  have hk : κ * |s| ≤ (1 / 2 ^ 50) * |s| := mul_le_mul_of_nonneg_right hκ (abs_nonneg s)
  have u2 : (1 : ℝ) / 2 ^ 50 ≤ 1 / 10 ^ 9 := by norm_num
  have n3 : (1 / 2 ^ 50) * |s| ≤ (1 / 10 ^ 9) * |s| := mul_le_mul_of_nonneg_right u2 (abs_nonneg s)
  constructor <;> linarith

theorem eta_le : (5 : ℝ) * (1 / 2 ^ 106) ≤ 1 / 2 ^ 50 := by norm_num

/-- **stage 1 of the Newton step: the two products `p = x·x`, `q = p·x`** -/
theorem step_products {x a : TwoFloat} {C E : ℝ} (hvx : x.Valid) (hwx : x.WF) (hva : a.Valid)
    (ha1 : 2 ^ 174 ≤ |a.hi.toInt|) (ha2 : |a.hi.toInt| ≤ 2 ^ 1974)
    (hCa : C ^ 3 = (a.V : ℝ) * (2 ^ 1074) ^ 2) (hE : E ≤ 1 / 2 ^ 50)
    (hx : |(x.V : ℝ) - C| ≤ E * |C|) :
    (mulTT x x).Valid ∧ (mulTT x x).WF ∧ (mulTT (mulTT x x) x).Valid ∧ (mulTT (mulTT x x) x).WF ∧
    |((mulTT x x).V : ℝ) * 2 ^ 1074 - (x.V : ℝ) * (x.V : ℝ)| ≤ 5 * (1 / 2 ^ 106) * |(x.V : ℝ) * (x.V : ℝ)| ∧
    |((mulTT (mulTT x x) x).V : ℝ) * 2 ^ 1074 - ((mulTT x x).V : ℝ) * (x.V : ℝ)|
      ≤ 5 * (1 / 2 ^ 106) * |((mulTT x x).V : ℝ) * (x.V : ℝ)| := by
  obtain ⟨a1, a2, hC3, c1, c2⟩ := C_range hva ha1 ha2 hCa
  obtain ⟨x1, x2, x3, x4⟩ := x_encl hvx hE hx
  have nC := abs_nonneg C
  -- first product
  have hxx : (2 : ℝ) ^ 1247 ≤ |(x.hi.toInt : ℝ)| * |(x.hi.toInt : ℝ)| ∧
      |(x.hi.toInt : ℝ)| * |(x.hi.toInt : ℝ)| < 2 ^ 3169 := by
    have l1 : (998 / 1000 * 2 ^ 773) * (998 / 1000 * 2 ^ 773) ≤ |(x.hi.toInt : ℝ)| * |(x.hi.toInt : ℝ)| :=
      mul_le_mul (by linarith) (by linarith) (by positivity) (abs_nonneg _)
    have l2 : |(x.hi.toInt : ℝ)| * |(x.hi.toInt : ℝ)| ≤ (1002 / 1000 * 2 ^ 1375) * (1002 / 1000 * 2 ^ 1375) :=
      mul_le_mul (by linarith) (by linarith) (abs_nonneg _) (by positivity)
    constructor
    · refine le_trans ?_ l1; norm_num
    · refine lt_of_le_of_lt l2 ?_; norm_num
  have hx53 : (2 : Int) ^ 53 ≤ |x.hi.toInt| := by
    have : (2 : ℝ) ^ 53 ≤ |(x.hi.toInt : ℝ)| := by
      have : (2 : ℝ) ^ 53 ≤ 998 / 1000 * 2 ^ 773 := by norm_num
      linarith
    exact_mod_cast this
  have hlo1 : (2 : Int) ^ 1247 ≤ |x.hi.toInt * x.hi.toInt| := by
    have := hxx.1
    rw [← abs_mul] at this
    exact_mod_cast this
  have hhi1 : |x.hi.toInt * x.hi.toInt| < (2 : Int) ^ 3169 := by
    have := hxx.2
    rw [← abs_mul] at this
    exact_mod_cast this
  obtain ⟨pv, pw, hP⟩ := mul_tt_real hvx hwx hvx hwx hx53 hx53 hlo1 hhi1
  refine ⟨pv, pw, ?_⟩
  -- second product
  obtain ⟨p1, p2⟩ := rel_encl eta_le hP
  obtain ⟨ph1, ph2⟩ := hi_encl pv
  rw [abs_mul, abs_mul, abs_of_pos (by positivity : (0 : ℝ) < 2 ^ 1074)] at p1 p2
  have nvx := abs_nonneg (x.V : ℝ)
  have nvp := abs_nonneg ((mulTT x x).V : ℝ)
  have nhp := abs_nonneg ((mulTT x x).hi.toInt : ℝ)
  have nhx := abs_nonneg (x.hi.toInt : ℝ)
  have naV := abs_nonneg (a.V : ℝ)
  have hC3' : |C| * |C| * |C| = |(a.V : ℝ)| * (2 ^ 1074) ^ 2 := by rw [← hC3]; ring
  have kk : (2 : ℝ) ^ 1247 ≤ |((mulTT x x).hi.toInt : ℝ)| * |(x.hi.toInt : ℝ)| ∧
      |((mulTT x x).hi.toInt : ℝ)| * |(x.hi.toInt : ℝ)| < (2 : ℝ) ^ 3169 ∧
      (2 : ℝ) ^ 53 ≤ |((mulTT x x).hi.toInt : ℝ)| := by
    clear hP hx hCa hC3 hxx
    generalize |C| = c at *
    generalize |(x.V : ℝ)| = vx at *
    generalize |((mulTT x x).V : ℝ)| = vp at *
    generalize |((mulTT x x).hi.toInt : ℝ)| = hp at *
    generalize |(x.hi.toInt : ℝ)| = hx' at *
    generalize |(a.V : ℝ)| = va at *
    have s1 : (999 / 1000 * c) * (999 / 1000 * c) ≤ vx * vx :=
      mul_le_mul x1 x1 (by positivity) nvx
    have s1' : vx * vx ≤ (1001 / 1000 * c) * (1001 / 1000 * c) :=
      mul_le_mul x2 x2 nvx (by positivity)
    have cc : (2 : ℝ) ^ 773 * 2 ^ 773 ≤ c * c := mul_le_mul c1 c1 (by positivity) nC
    have s3 : (997 / 1000 * (c * c)) * c ≤ (vp * 2 ^ 1074) * c :=
      mul_le_mul_of_nonneg_right (by nlinarith) nC
    have s3' : (vp * 2 ^ 1074) * c ≤ (1004 / 1000 * (c * c)) * c :=
      mul_le_mul_of_nonneg_right (by nlinarith) nC
    have e1 : (997 / 1000 * (c * c)) * c = 997 / 1000 * (c * c * c) := by ring
    have e2 : (1004 / 1000 * (c * c)) * c = 1004 / 1000 * (c * c * c) := by ring
    rw [e1, hC3'] at s3
    rw [e2, hC3'] at s3'
    have s4 : (999 / 1000 * vp) * (998 / 1000 * c) ≤ hp * hx' :=
      mul_le_mul ph1 x3 (by positivity) nhp
    have s4' : hp * hx' ≤ (1001 / 1000 * vp) * (1002 / 1000 * c) :=
      mul_le_mul ph2 x4 nhx (by positivity)
    have k1 : (2 : ℝ) ^ 1247 ≤ hp * hx' := by
      have e3 : ((2 : ℝ) ^ 1074) ^ 2 = 2 ^ 1074 * 2 ^ 1074 := by ring
      have e4 : (2 : ℝ) ^ 1247 = (1 / 2) * 2 ^ 174 * 2 ^ 1074 := by norm_num
      have e5 : (0 : ℝ) < 2 ^ 1074 := by positivity
      rw [e3] at s3
      have s5 : 997 / 1000 * (va * 2 ^ 1074) ≤ vp * c := by
        have : (997 / 1000 * (va * 2 ^ 1074)) * 2 ^ 1074 ≤ (vp * c) * 2 ^ 1074 := by linarith
        exact le_of_mul_le_mul_right this e5
      have s6 : (99 / 100 * 2 ^ 174) * 2 ^ 1074 ≤ va * 2 ^ 1074 := mul_le_mul_of_nonneg_right a1 e5.le
      rw [e4]
      nlinarith
    have k2 : hp * hx' < (2 : ℝ) ^ 3169 := by
      have e3 : ((2 : ℝ) ^ 1074) ^ 2 = 2 ^ 1074 * 2 ^ 1074 := by ring
      have e5 : (0 : ℝ) < 2 ^ 1074 := by positivity
      rw [e3] at s3'
      have s5 : vp * c ≤ 1004 / 1000 * (va * 2 ^ 1074) := by
        have : (vp * c) * 2 ^ 1074 ≤ (1004 / 1000 * (va * 2 ^ 1074)) * 2 ^ 1074 := by linarith
        exact le_of_mul_le_mul_right this e5
      have s6 : va * 2 ^ 1074 ≤ (101 / 100 * 2 ^ 1974) * 2 ^ 1074 := mul_le_mul_of_nonneg_right a2 e5.le
      have e4 : (2 : ℝ) ^ 3169 = 2 ^ 121 * (2 ^ 1974 * 2 ^ 1074) := by norm_num
      have e6 : (0 : ℝ) < 2 ^ 1974 * 2 ^ 1074 := by positivity
      rw [e4]
      nlinarith
    have k3 : (2 : ℝ) ^ 53 ≤ hp := by
      have e4 : (2 : ℝ) ^ 773 * 2 ^ 773 = 2 ^ 472 * 2 ^ 1074 := by norm_num
      have e5 : (0 : ℝ) < 2 ^ 1074 := by positivity
      have s5 : 997 / 1000 * 2 ^ 472 ≤ vp := by
        have : (997 / 1000 * 2 ^ 472) * 2 ^ 1074 ≤ vp * 2 ^ 1074 := by nlinarith
        exact le_of_mul_le_mul_right this e5
      have e6 : (2 : ℝ) ^ 53 ≤ 999 / 1000 * (997 / 1000 * 2 ^ 472) := by norm_num
      linarith
    exact ⟨k1, k2, k3⟩
  obtain ⟨k1, k2, k3⟩ := kk
  have hp53 : (2 : Int) ^ 53 ≤ |(mulTT x x).hi.toInt| := by exact_mod_cast k3
  have hlo2 : (2 : Int) ^ 1247 ≤ |(mulTT x x).hi.toInt * x.hi.toInt| := by
    rw [← abs_mul] at k1
    exact_mod_cast k1
  have hhi2 : |(mulTT x x).hi.toInt * x.hi.toInt| < (2 : Int) ^ 3169 := by
    rw [← abs_mul] at k2
    exact_mod_cast k2
  obtain ⟨qv, qw, hQ⟩ := mul_tt_real pv pw hvx hwx hp53 hx53 hlo2 hhi2
  exact ⟨qv, qw, hP, hQ⟩


theorem three_facts : (f64lit 0x4008000000000000).is_finite = true ∧ (f64lit 0x4008000000000000).WF ∧
    (f64lit 0x4008000000000000).toInt = 3 * (unit : Int) := by
  refine ⟨by decide +kernel, by decide +kernel, ?_⟩
  have : (f64lit 0x4008000000000000).toInt = ((3 * unit : Nat) : Int) := by decide +kernel
  rw [this]; push_cast; ring

/-- magnitudes of `p ≈ x²/U` and `q ≈ p·x/U` -/
theorem encl_pq {C c va vx vp vq : ℝ} (hc : c = |C|) (hC3 : c ^ 3 = va * (2 ^ 1074) ^ 2)
    (x1 : (999 / 1000) * c ≤ vx) (x2 : vx ≤ (1001 / 1000) * c)
    (p1 : (999 / 1000) * (vx * vx) ≤ vp * 2 ^ 1074) (p2 : vp * 2 ^ 1074 ≤ (1001 / 1000) * (vx * vx))
    (q1 : (999 / 1000) * (vp * vx) ≤ vq * 2 ^ 1074) (q2 : vq * 2 ^ 1074 ≤ (1001 / 1000) * (vp * vx))
    (nvx : 0 ≤ vx) (nvp : 0 ≤ vp) :
    (997 / 1000) * (c * c) ≤ vp * 2 ^ 1074 ∧ vp * 2 ^ 1074 ≤ (1004 / 1000) * (c * c) ∧
    (99 / 100) * va ≤ vq ∧ vq ≤ (101 / 100) * va := by
  have nC : 0 ≤ c := by rw [hc]; exact abs_nonneg C
  have s1 : (999 / 1000 * c) * (999 / 1000 * c) ≤ vx * vx := mul_le_mul x1 x1 (by positivity) nvx
  have s1' : vx * vx ≤ (1001 / 1000 * c) * (1001 / 1000 * c) := mul_le_mul x2 x2 nvx (by positivity)
  have r1 : (997 / 1000) * (c * c) ≤ vp * 2 ^ 1074 := by nlinarith
  have r2 : vp * 2 ^ 1074 ≤ (1004 / 1000) * (c * c) := by nlinarith
  refine ⟨r1, r2, ?_, ?_⟩
  · have s2 : ((997 / 1000) * (c * c)) * ((999 / 1000) * c) ≤ (vp * 2 ^ 1074) * vx :=
      mul_le_mul r1 x1 (by positivity) (by positivity)
    have e5 : (0 : ℝ) < 2 ^ 1074 := by positivity
    have e1 : ((997 / 1000) * (c * c)) * ((999 / 1000) * c) = (997 / 1000 * (999 / 1000)) * c ^ 3 := by ring
    rw [e1, hC3] at s2
    have : ((99 / 100) * va) * ((2 ^ 1074) ^ 2) ≤ vq * ((2 ^ 1074) ^ 2) := by
      have h1 := mul_le_mul_of_nonneg_right q1 e5.le
      have n0 : 0 ≤ va := by
        have : 0 ≤ c ^ 3 := by positivity
        rw [hC3] at this
        exact nonneg_of_mul_nonneg_left this (by positivity)
      nlinarith
    exact le_of_mul_le_mul_right this (by positivity)
  · have s2 : (vp * 2 ^ 1074) * vx ≤ ((1004 / 1000) * (c * c)) * ((1001 / 1000) * c) :=
      mul_le_mul r2 x2 nvx (by positivity)
    have e5 : (0 : ℝ) < 2 ^ 1074 := by positivity
    have e1 : ((1004 / 1000) * (c * c)) * ((1001 / 1000) * c) = (1004 / 1000 * (1001 / 1000)) * c ^ 3 := by ring
    rw [e1, hC3] at s2
    have : vq * ((2 ^ 1074) ^ 2) ≤ ((101 / 100) * va) * ((2 ^ 1074) ^ 2) := by
      have h1 := mul_le_mul_of_nonneg_right q2 e5.le
      have n0 : 0 ≤ va := by
        have : 0 ≤ c ^ 3 := by positivity
        rw [hC3] at this
        exact nonneg_of_mul_nonneg_left this (by positivity)
      nlinarith
    exact le_of_mul_le_mul_right this (by positivity)


/-- **stage 2 of the Newton step: numerator `n = q − a` and denominator `m = 3·p`** -/
theorem step_num_den {a p q : TwoFloat} {C : ℝ} (hva : a.Valid) (hwa : a.WF)
    (pv : p.Valid) (pw : p.WF) (qv : q.Valid) (qw : q.WF)
    (ha2 : |a.hi.toInt| ≤ 2 ^ 1974) (c1 : 2 ^ 773 ≤ |C|) (c2 : |C| ≤ 2 ^ 1375)
    (ep1 : (997 / 1000) * (|C| * |C|) ≤ |(p.V : ℝ)| * 2 ^ 1074)
    (ep2 : |(p.V : ℝ)| * 2 ^ 1074 ≤ (1004 / 1000) * (|C| * |C|))
    (eq2 : |(q.V : ℝ)| ≤ (101 / 100) * |(a.V : ℝ)|) (a2 : |(a.V : ℝ)| ≤ (101 / 100) * 2 ^ 1974) :
    (subTT q a).Valid ∧ (subTT q a).WF ∧
    (mulFT (f64lit 0x4008000000000000) p).Valid ∧ (mulFT (f64lit 0x4008000000000000) p).WF ∧
    |((subTT q a).V : ℝ) - ((q.V : ℝ) - (a.V : ℝ))| ≤ (301 / 100) * (1 / 2 ^ 106) * |(q.V : ℝ) - (a.V : ℝ)| ∧
    |((mulFT (f64lit 0x4008000000000000) p).V : ℝ) * 2 ^ 1074 - 3 * 2 ^ 1074 * (p.V : ℝ)|
      ≤ 2 * (1 / 2 ^ 106) * |3 * 2 ^ 1074 * (p.V : ℝ)| := by
  obtain ⟨qh1, qh2⟩ := hi_encl qv
  obtain ⟨ph1, ph2⟩ := hi_encl pv
  obtain ⟨f1, f2, f3⟩ := three_facts
  have bq : |q.hi.toInt| < (2 : Int) ^ 2094 := by
    have : |(q.hi.toInt : ℝ)| < (2 : ℝ) ^ 2094 := by
      have e : (2 : ℝ) ^ 2094 = 2 ^ 120 * 2 ^ 1974 := by norm_num
      have e6 : (0 : ℝ) < 2 ^ 1974 := by positivity
      rw [e]; nlinarith
    exact_mod_cast this
  have ba : |a.hi.toInt| < (2 : Int) ^ 2094 :=
    lt_of_le_of_lt ha2 (pow_lt_pow_right₀ (by norm_num) (by norm_num))
  obtain ⟨nv, nw, hN⟩ := sub_tt_real qv qw hva hwa bq ba
  have cc1 : (2 : ℝ) ^ 773 * 2 ^ 773 ≤ |C| * |C| := mul_le_mul c1 c1 (by positivity) (abs_nonneg C)
  have cc2 : |C| * |C| ≤ (2 : ℝ) ^ 1375 * 2 ^ 1375 := mul_le_mul c2 c2 (abs_nonneg C) (by positivity)
  have hr : (2 : Int) ^ 1188 ≤ |p.hi.toInt * (f64lit 0x4008000000000000).toInt| ∧
      |p.hi.toInt * (f64lit 0x4008000000000000).toInt| < (2 : Int) ^ 3169 := by
    rw [f3, abs_mul, abs_of_pos (by have := unit_pos_int; omega : (0 : Int) < 3 * (unit : Int))]
    have e0 : (((3 * (unit : Int) : Int)) : ℝ) = 3 * 2 ^ 1074 := by
      push_cast; rw [unit_real]
    have n0 := abs_nonneg (p.hi.toInt : ℝ)
    have n1 := abs_nonneg (p.V : ℝ)
    constructor
    · have : (2 : ℝ) ^ 1188 ≤ |(p.hi.toInt : ℝ)| * (3 * 2 ^ 1074) := by
        have e : (2 : ℝ) ^ 773 * 2 ^ 773 = 2 ^ 358 * 2 ^ 1188 := by norm_num
        have e6 : (0 : ℝ) < 2 ^ 1188 := by positivity
        nlinarith
      rw [← e0] at this
      exact_mod_cast this
    · have : |(p.hi.toInt : ℝ)| * (3 * 2 ^ 1074) < (2 : ℝ) ^ 3169 := by
        have e : (2 : ℝ) ^ 3169 = 2 ^ 419 * (2 ^ 1375 * 2 ^ 1375) := by norm_num
        have e6 : (0 : ℝ) < 2 ^ 1375 * 2 ^ 1375 := by positivity
        rw [e]; nlinarith
      rw [← e0] at this
      exact_mod_cast this
  obtain ⟨mv, mw, hM⟩ := mul_ft_real pv pw f1 f2 hr
  refine ⟨nv, nw, mv, mw, hN, ?_⟩
  have e0 : (((f64lit 0x4008000000000000).toInt : Int) : ℝ) = 3 * 2 ^ 1074 := by
    rw [f3]; push_cast; rw [unit_real]
  rw [e0] at hM
  exact hM


/-- a quotient digit of a zero dividend -/
theorem zero_digit {x y : F64} (hx : x.is_finite = true) (hx0 : x.toInt = 0) (hy : y.is_finite = true)
    (hy0 : y.toInt ≠ 0) : IsVal (F64.div x y) 0 := by
  have h := div_spec hx hy hy0 (by
    rw [hx0, zero_mul]
    exact le_trans (roundQ_le_of_le (x := 0) (Int.natAbs_pos.2 hy0) rep_zero (by simp)) (Nat.zero_le _))
  rw [hx0, zero_mul, rdI_zero_left] at h
  exact h

/-- one step of the long division on a zero remainder -/
theorem zero_step {r m : TwoFloat} (rv : r.Valid) (rw' : r.WF) (mv : m.Valid) (mw : m.WF) (h0 : r.V = 0)
    (hm0 : m.hi.toInt ≠ 0) :
    IsVal (F64.div r.hi m.hi) 0 ∧ (divStep r m).Valid ∧ (divStep r m).WF ∧ (divStep r m).V = 0 := by
  have hr0 : r.hi.toInt = 0 := by rw [rv.hi_toInt, h0, rnI_zero]
  have hd := zero_digit rv.1 hr0 mv.1 hm0
  have hp := mul_tf_bound mv mw hd.1 (div_WF _ _) (Or.inl (by rw [hd.2, mul_zero]))
  have hpV : (arithmetic.impl_Mul_rf64_for_rTwoFloat.mul m (F64.div r.hi m.hi)).V = 0 := by
    have h := hp.2
    rw [hd.2, mul_zero, abs_zero, sub_zero] at h
    have h1 := abs_nonneg ((arithmetic.impl_Mul_rf64_for_rTwoFloat.mul m (F64.div r.hi m.hi)).V * (unit : Int))
    have h2 : |(arithmetic.impl_Mul_rf64_for_rTwoFloat.mul m (F64.div r.hi m.hi)).V * (unit : Int)| = 0 := by omega
    rcases mul_eq_zero.1 (abs_eq_zero.1 h2) with h | h
    · exact h
    · have := unit_pos_int; omega
  have hph : (arithmetic.impl_Mul_rf64_for_rTwoFloat.mul m (F64.div r.hi m.hi)).hi.toInt = 0 := by
    rw [hp.1.hi_toInt, hpV, rnI_zero]
  have hs := sub_tt_bound rv rw' hp.1 (mul_tf_WF _ _) (by rw [hr0]; simp) (by rw [hph]; simp)
  refine ⟨hd, hs.1, divStep_WF _ _, ?_⟩
  have h := hs.2
  rw [h0, hpV, sub_zero, abs_zero, mul_zero, sub_zero] at h
  have h1 := abs_nonneg (arithmetic.impl_Sub_rTwoFloat_for_rTwoFloat.sub r
    (arithmetic.impl_Mul_rf64_for_rTwoFloat.mul m (F64.div r.hi m.hi))).V
  have h2 : |(arithmetic.impl_Sub_rTwoFloat_for_rTwoFloat.sub r
    (arithmetic.impl_Mul_rf64_for_rTwoFloat.mul m (F64.div r.hi m.hi))).V| = 0 := by omega
  exact abs_eq_zero.1 h2

/-- `0 / m = 0` in double-word arithmetic -/
theorem div_zero_num {n m : TwoFloat} (nv : n.Valid) (nw : n.WF) (mv : m.Valid) (mw : m.WF)
    (h0 : n.V = 0) (hm0 : m.hi.toInt ≠ 0) :
    (divTT n m).Valid ∧ (divTT n m).WF ∧ (divTT n m).V = 0 := by
  obtain ⟨d1, r1v, r1w, r10⟩ := zero_step nv nw mv mw h0 hm0
  obtain ⟨d2, r2v, r2w, r20⟩ := zero_step r1v r1w mv mw r10 hm0
  have hr2 : (divStep (divStep n m) m).hi.toInt = 0 := by rw [r2v.hi_toInt, r20, rnI_zero]
  have d3 := zero_digit r2v.1 hr2 mv.1 hm0
  show (arithmetic.impl_Div_rTwoFloat_for_rTwoFloat.div n m).Valid ∧
    (arithmetic.impl_Div_rTwoFloat_for_rTwoFloat.div n m).WF ∧
    (arithmetic.impl_Div_rTwoFloat_for_rTwoFloat.div n m).V = 0
  rw [div_tt_eq]
  have h := renorm3_drop d1.1 d2.1 d3.1 (div_WF _ _) (div_WF _ _)
    (by rw [d1.2, d2.2]; simp) (by rw [d1.2, d3.2]; simp)
    (by rw [d1.2]; simp)
  rw [d1.2, d2.2] at h
  simp only [add_zero, rnI_zero, sub_zero] at h
  exact ⟨h.valid (renorm3_WF _ _ _) (by simp), renorm3_WF _ _ _, by rw [h.V_eq]; simp⟩


/-- **`TwoFloat / TwoFloat` for a numerator of at most `2^10` units of `2^-1074` and a divisor below `2^-41`**: the
first partial product is exact, the remainder vanishes, and the quotient is the single correctly rounded word
`(RN(n.hi/m.hi), 0)`. -/
theorem div_tt_tiny {n m : TwoFloat} (nv : n.Valid) (nw : n.WF) (mv : m.Valid) (mw : m.WF)
    (hA : |n.hi.toInt| ≤ 2 ^ 10) (hB0 : m.hi.toInt ≠ 0) (hβ : 2 ^ 41 * |m.hi.toInt| ≤ (unit : Int))
    (Q_hi : |n.hi.toInt * (unit : Int)| ≤ 2 ^ 2090 * |m.hi.toInt|) :
    (divTT n m).Valid ∧ (divTT n m).WF ∧
    |n.V * (unit : Int) - (divTT n m).V * m.V| ≤ |n.V * (unit : Int)| + |m.hi.toInt| := by
  have hUi := unit_pos_int
  -- the numerator is a single word
  have hlo : n.lo.toInt = 0 := by
    have h := nv.two_mul_abs_lo_le
    have hn : n.hi.toInt.natAbs < 2 ^ 53 := by
      have : ((n.hi.toInt.natAbs : Nat) : Int) < ((2 ^ 53 : Nat) : Int) := by
        rw [Int.natCast_natAbs]; push_cast; omega
      exact_mod_cast this
    rw [log2_sub_eq_zero hn, pow_zero] at h
    have := abs_nonneg n.lo.toInt
    have : |n.lo.toInt| = 0 := by omega
    exact abs_eq_zero.1 this
  have hV : n.V = n.hi.toInt := by unfold TwoFloat.V; rw [hlo, add_zero]
  -- first digit
  obtain ⟨vq1, hq1b⟩ := div_digit nv.1 mv.1 hB0 Q_hi
  have hQ1 := rdI_err_gen (n.hi.toInt * (unit : Int)) hB0
  rw [← vq1.2] at hQ1
  have hAU : |n.hi.toInt * (unit : Int)| ≤ 2 ^ 10 * (unit : Int) := by
    rw [abs_mul_pos_right _ hUi]; exact mul_le_mul_of_nonneg_right hA hUi.le
  have nB := abs_nonneg m.hi.toInt
  have hX : 2 * |m.hi.toInt * (F64.div n.hi m.hi).toInt - n.hi.toInt * (unit : Int)| < (unit : Int) := by
    rw [mul_comm m.hi.toInt]; omega
  have hL0 := lo_mul_le (q := (F64.div n.hi m.hi).toInt) mv.two_mul_abs_lo_le
  have hL : 2 * |m.lo.toInt * (F64.div n.hi m.hi).toInt| < (unit : Int) := by
    have t := abs_le_add_abs_sub (m.hi.toInt * (F64.div n.hi m.hi).toInt) (n.hi.toInt * (unit : Int))
    rw [mul_comm m.hi.toInt] at t hL0
    omega
  have hp := mul_tf_tiny mv vq1.1 (by omega) hX hL
  have pw := mul_tf_WF m (F64.div n.hi m.hi)
  have pv : (arithmetic.impl_Mul_rf64_for_rTwoFloat.mul m (F64.div n.hi m.hi)).Valid :=
    hp.valid pw (by rw [add_zero]; exact (rnI_of_repI (repI_of_abs_lt (by omega))).symm)
  have pV : (arithmetic.impl_Mul_rf64_for_rTwoFloat.mul m (F64.div n.hi m.hi)).V = n.hi.toInt := by
    rw [hp.V_eq, add_zero]
  -- the remainder vanishes
  have hm := two_pow_le_maxFin_int (k := 2094) (by norm_num)
  have hs := sub_tt_bound nv nw pv pw
    (by have : ((n.hi.toInt.natAbs : Nat) : Int) < ((2 ^ 2094 : Nat) : Int) := by
          rw [Int.natCast_natAbs]; push_cast; omega
        exact_mod_cast this)
    (by rw [hp.1.2]
        have : ((n.hi.toInt.natAbs : Nat) : Int) < ((2 ^ 2094 : Nat) : Int) := by
          rw [Int.natCast_natAbs]; push_cast; omega
        exact_mod_cast this)
  have r1v : (divStep n m).Valid := hs.1
  have r10 : (divStep n m).V = 0 := by
    have h := hs.2
    rw [pV, hV, sub_self, abs_zero, mul_zero, sub_zero] at h
    have h1 := abs_nonneg (arithmetic.impl_Sub_rTwoFloat_for_rTwoFloat.sub n
      (arithmetic.impl_Mul_rf64_for_rTwoFloat.mul m (F64.div n.hi m.hi))).V
    have h2 : |(arithmetic.impl_Sub_rTwoFloat_for_rTwoFloat.sub n
      (arithmetic.impl_Mul_rf64_for_rTwoFloat.mul m (F64.div n.hi m.hi))).V| = 0 := by omega
    exact abs_eq_zero.1 h2
  have hr1 : (divStep n m).hi.toInt = 0 := by rw [r1v.hi_toInt, r10, rnI_zero]
  have d2 := zero_digit r1v.1 hr1 mv.1 hB0
  obtain ⟨-, r2v, r2w, r20⟩ := zero_step r1v (divStep_WF _ _) mv mw r10 hB0
  have hr2 : (divStep (divStep n m) m).hi.toInt = 0 := by rw [r2v.hi_toInt, r20, rnI_zero]
  have d3 := zero_digit r2v.1 hr2 mv.1 hB0
  show (arithmetic.impl_Div_rTwoFloat_for_rTwoFloat.div n m).Valid ∧
    (arithmetic.impl_Div_rTwoFloat_for_rTwoFloat.div n m).WF ∧
    |n.V * (unit : Int) - (arithmetic.impl_Div_rTwoFloat_for_rTwoFloat.div n m).V * m.V| ≤ _
  rw [div_tt_eq]
  have h := renorm3_drop vq1.1 d2.1 d3.1 (div_WF _ _) (div_WF _ _)
    (by rw [d2.2]; simp) (by rw [d3.2]; simp)
    (by have hm2 := two_pow_le_maxFin_int (k := 2092) (by norm_num)
        rw [vq1.2]; omega)
  rw [d2.2, add_zero, rnI_of_repI (div_WF n.hi m.hi).repI, sub_self] at h
  have wr := renorm3_WF (F64.div n.hi m.hi) (F64.div (divStep n m).hi m.hi)
    (F64.div (divStep (divStep n m) m).hi m.hi)
  refine ⟨h.valid wr (by rw [add_zero]; exact (rnI_of_repI (div_WF n.hi m.hi).repI).symm), wr, ?_⟩
  rw [h.V_eq, add_zero, hV]
  -- accuracy
  have e : n.hi.toInt * (unit : Int) - (F64.div n.hi m.hi).toInt * m.V
      = -((F64.div n.hi m.hi).toInt * m.hi.toInt - n.hi.toInt * (unit : Int))
        - m.lo.toInt * (F64.div n.hi m.hi).toInt := by unfold TwoFloat.V; ring
  rw [e]
  have t := abs_sub (-((F64.div n.hi m.hi).toInt * m.hi.toInt - n.hi.toInt * (unit : Int)))
    (m.lo.toInt * (F64.div n.hi m.hi).toInt)
  rw [abs_neg] at t
  have n0 := abs_nonneg (n.hi.toInt * (unit : Int))
  have t3 := abs_le_add_abs_sub ((F64.div n.hi m.hi).toInt * m.hi.toInt) (n.hi.toInt * (unit : Int))
  rw [mul_comm m.hi.toInt] at hL0
  omega

/-- **`TwoFloat / TwoFloat` for every valid numerator and every divisor** (only the overflow-side bounds): a
normalised pair with `|n·U − k·m| ≤ 2^-37 |n·U| + 2^55 |m.hi| + 2^11 U`. -/
theorem div_tt_any {n m : TwoFloat} (nv : n.Valid) (nw : n.WF) (mv : m.Valid) (mw : m.WF)
    (hy0 : m.hi.toInt ≠ 0) (hUB : (unit : Int) ≤ 2 ^ 2026 * |m.hi.toInt|)
    (hBU : |m.hi.toInt| ≤ 2 ^ 2026 * (unit : Int))
    (A_hi : |n.hi.toInt| ≤ 2 ^ 2090) (B_hi : |m.hi.toInt| ≤ 2 ^ 2090)
    (Q_hi : |n.hi.toInt * (unit : Int)| ≤ 2 ^ 2090 * |m.hi.toInt|) :
    (arithmetic.impl_Div_rTwoFloat_for_rTwoFloat.div n m).Valid ∧ (arithmetic.impl_Div_rTwoFloat_for_rTwoFloat.div n m).WF ∧
    2 ^ 37 * |n.V * (unit : Int) - (arithmetic.impl_Div_rTwoFloat_for_rTwoFloat.div n m).V * m.V|
      ≤ |n.V * (unit : Int)| + 2 ^ 92 * |m.hi.toInt| + 2 ^ 48 * (unit : Int) := by
  have hUi := unit_pos_int
  have nB := abs_nonneg m.hi.toInt
  have nx := abs_nonneg (n.V * (unit : Int))
  obtain ⟨hn1, hn2⟩ := PowiBound.hi_bounds nv
  obtain ⟨hm1, hm2⟩ := PowiBound.hi_bounds mv
  have hx : |n.V * (unit : Int)| ≤ 2 * |n.hi.toInt * (unit : Int)| := by
    rw [abs_mul_pos_right _ hUi, abs_mul_pos_right _ hUi]
    have : |n.V| ≤ 2 * |n.hi.toInt| := by have := abs_nonneg n.V; omega
    have := mul_le_mul_of_nonneg_right this hUi.le
    linarith
  have hmV : |m.V| ≤ 2 * |m.hi.toInt| := by omega
  by_cases hα : 2 ^ 9 * (|m.hi.toInt| + (unit : Int)) ≤ |n.hi.toInt * (unit : Int)|
  · obtain ⟨kv, kw, hk⟩ := div_tt_alpha nv nw mv hy0 hUB hBU A_hi B_hi Q_hi hα
    exact ⟨kv, kw, by omega⟩
  rw [not_le] at hα
  by_cases hβ : (unit : Int) ≤ 2 ^ 41 * |m.hi.toInt|
  · obtain ⟨kv, kw, hk⟩ := div_tt_crude nv nw mv A_hi B_hi Q_hi hβ
    refine ⟨kv, kw, ?_⟩
    have t := abs_sub (n.V * (unit : Int)) ((arithmetic.impl_Div_rTwoFloat_for_rTwoFloat.div n m).V * m.V)
    rw [abs_mul ((arithmetic.impl_Div_rTwoFloat_for_rTwoFloat.div n m).V)] at t
    have p1 : |(arithmetic.impl_Div_rTwoFloat_for_rTwoFloat.div n m).V| * |m.V|
        ≤ 2 * (|(arithmetic.impl_Div_rTwoFloat_for_rTwoFloat.div n m).V| * |m.hi.toInt|) := by
      have := mul_le_mul_of_nonneg_left hmV (abs_nonneg (arithmetic.impl_Div_rTwoFloat_for_rTwoFloat.div n m).V)
      linarith
    generalize |n.V * (unit : Int) - (arithmetic.impl_Div_rTwoFloat_for_rTwoFloat.div n m).V * m.V| = G at *
    generalize |(arithmetic.impl_Div_rTwoFloat_for_rTwoFloat.div n m).V| * |m.V| = KM at *
    generalize |(arithmetic.impl_Div_rTwoFloat_for_rTwoFloat.div n m).V| * |m.hi.toInt| = KB at *
    generalize |n.V * (unit : Int)| = x at *
    generalize |n.hi.toInt * (unit : Int)| = au at *
    generalize |m.hi.toInt| = bb at *
    omega
  · rw [not_le] at hβ
    have hA : |n.hi.toInt| ≤ 2 ^ 10 := by
      rw [abs_mul_pos_right _ hUi] at hα
      by_contra hc
      rw [not_le] at hc
      have : (2 ^ 10 + 1) * (unit : Int) ≤ |n.hi.toInt| * (unit : Int) :=
        mul_le_mul_of_nonneg_right (by omega) hUi.le
      omega
    obtain ⟨kv, kw, hk⟩ := div_tt_tiny nv nw mv mw hA hy0 (by omega) Q_hi
    refine ⟨kv, kw, ?_⟩
    have hk' : |n.V * (unit : Int) - (arithmetic.impl_Div_rTwoFloat_for_rTwoFloat.div n m).V * m.V|
        ≤ |n.V * (unit : Int)| + |m.hi.toInt| := hk
    have hAU : |n.hi.toInt * (unit : Int)| ≤ 2 ^ 10 * (unit : Int) := by
      rw [abs_mul_pos_right _ hUi]; exact mul_le_mul_of_nonneg_right hA hUi.le
    omega

/-- range side conditions of the division in the Newton step -/
theorem step_div_ranges {a n m : TwoFloat} {C : ℝ} (nv : n.Valid) (mv : m.Valid)
    (c1 : 2 ^ 773 ≤ |C|) (c2 : |C| ≤ 2 ^ 1375)
    (hC3 : |C| ^ 3 = |(a.V : ℝ)| * (2 ^ 1074) ^ 2) (a2 : |(a.V : ℝ)| ≤ (101 / 100) * 2 ^ 1974)
    (en : |(n.V : ℝ)| ≤ (22 / 10) * |(a.V : ℝ)|)
    (em1 : (29 / 10) * (|C| * |C|) ≤ |(m.V : ℝ)| * 2 ^ 1074)
    (em2 : |(m.V : ℝ)| * 2 ^ 1074 ≤ (31 / 10) * (|C| * |C|)) :
    m.hi.toInt ≠ 0 ∧ |n.hi.toInt| ≤ (2 : Int) ^ 2090 ∧ |m.hi.toInt| ≤ (2 : Int) ^ 2090 ∧
    |n.hi.toInt * (unit : Int)| ≤ (2 : Int) ^ 2090 * |m.hi.toInt| := by
  obtain ⟨nh1, nh2⟩ := hi_encl nv
  obtain ⟨mh1, mh2⟩ := hi_encl mv
  have nC := abs_nonneg C
  have cc1 : (2 : ℝ) ^ 773 * 2 ^ 773 ≤ |C| * |C| := mul_le_mul c1 c1 (by positivity) nC
  have cc2 : |C| * |C| ≤ (2 : ℝ) ^ 1375 * 2 ^ 1375 := mul_le_mul c2 c2 nC (by positivity)
  have e5 : (0 : ℝ) < 2 ^ 1074 := by positivity
  have n0 := abs_nonneg (n.hi.toInt : ℝ)
  have n1 := abs_nonneg (m.hi.toInt : ℝ)
  have n2 := abs_nonneg (a.V : ℝ)
  have n3 := abs_nonneg (m.V : ℝ)
  have n4 := abs_nonneg (n.V : ℝ)
  have hmpos : (0 : ℝ) < |(m.hi.toInt : ℝ)| := by
    have : (0 : ℝ) < (2 : ℝ) ^ 773 * 2 ^ 773 := by positivity
    by_contra hc
    have h0 : |(m.hi.toInt : ℝ)| = 0 := le_antisymm (not_lt.1 hc) n1
    rw [h0] at mh1
    have : |(m.V : ℝ)| ≤ 0 := by linarith
    nlinarith
  have hm0 : m.hi.toInt ≠ 0 := by
    intro h; rw [h] at hmpos; simp at hmpos
  have A_hi : |n.hi.toInt| ≤ (2 : Int) ^ 2090 := by
    have : |(n.hi.toInt : ℝ)| ≤ (2 : ℝ) ^ 2090 := by
      have e : (2 : ℝ) ^ 2090 = 2 ^ 116 * 2 ^ 1974 := by norm_num
      have e6 : (0 : ℝ) < 2 ^ 1974 := by positivity
      rw [e]; nlinarith
    exact_mod_cast this
  have B_hi : |m.hi.toInt| ≤ (2 : Int) ^ 2090 := by
    have : |(m.hi.toInt : ℝ)| ≤ (2 : ℝ) ^ 2090 := by
      have e : (2 : ℝ) ^ 2090 * 2 ^ 1074 = 2 ^ 414 * (2 ^ 1375 * 2 ^ 1375) := by norm_num
      have e6 : (0 : ℝ) < 2 ^ 1375 * 2 ^ 1375 := by positivity
      have : |(m.hi.toInt : ℝ)| * 2 ^ 1074 ≤ (2 : ℝ) ^ 2090 * 2 ^ 1074 := by rw [e]; nlinarith
      exact le_of_mul_le_mul_right this e5
    exact_mod_cast this
  refine ⟨hm0, A_hi, B_hi, ?_⟩
  have : |(n.hi.toInt : ℝ)| * 2 ^ 1074 ≤ (2 : ℝ) ^ 2090 * |(m.hi.toInt : ℝ)| := by
    have hC3' : |C| * |C| * |C| = |(a.V : ℝ)| * (2 ^ 1074 * 2 ^ 1074) := by
      have : |C| * |C| * |C| = |C| ^ 3 := by ring
      rw [this, hC3]; ring
    have h1 : |(n.hi.toInt : ℝ)| * 2 ^ 1074 * 2 ^ 1074 ≤ (2203 / 1000) * (|C| * |C| * |C|) := by
      rw [hC3']; nlinarith
    have h2 : |C| * |C| * |C| ≤ (|C| * |C|) * 2 ^ 1375 := mul_le_mul_of_nonneg_left c2 (by positivity)
    have h3 : (2897 / 1000) * (|C| * |C|) ≤ |(m.hi.toInt : ℝ)| * 2 ^ 1074 := by nlinarith
    have h4 : (|(n.hi.toInt : ℝ)| * 2 ^ 1074) * 2 ^ 1074 ≤ ((2 : ℝ) ^ 2090 * |(m.hi.toInt : ℝ)|) * 2 ^ 1074 := by
      have e : (2 : ℝ) ^ 2090 = 2 ^ 715 * 2 ^ 1375 := by norm_num
      have e6 : (0 : ℝ) ≤ (|C| * |C|) * 2 ^ 1375 := by positivity
      have h5 : (2203 / 1000) * ((|C| * |C|) * 2 ^ 1375) ≤ 2 ^ 715 * 2 ^ 1375 * ((2897 / 1000) * (|C| * |C|)) := by
        have e7 : (2203 / 1000 : ℝ) ≤ 2 ^ 715 * (2897 / 1000) := by norm_num
        nlinarith
      rw [e]; nlinarith
    exact le_of_mul_le_mul_right h4 e5
  rw [abs_mul, abs_of_pos unit_pos_int]
  have e0 : (((unit : Nat) : Int) : ℝ) = 2 ^ 1074 := by
    rw [Int.cast_natCast, unit_real]
  rw [← e0] at this
  exact_mod_cast this

/-- the quotient when the numerator is in `DivRange` -/
theorem step_div_range {n m : TwoFloat} {C : ℝ} (nv : n.Valid) (nw : n.WF) (mv : m.Valid)
    (c1 : 2 ^ 773 ≤ |C|) (em2 : |(m.V : ℝ)| * 2 ^ 1074 ≤ (31 / 10) * (|C| * |C|))
    (R : DivRange n.hi.toInt m.hi.toInt) :
    (divTT n m).Valid ∧ (divTT n m).WF ∧
    |(n.V : ℝ) * 2 ^ 1074 - ((divTT n m).V : ℝ) * (m.V : ℝ)|
      ≤ 16 * (1 / 2 ^ 106) * |(n.V : ℝ) * 2 ^ 1074| + (1 / 2 ^ 106 / 1000) * (|C| ^ 3 / 2 ^ 1074) := by
  obtain ⟨mh1, mh2⟩ := hi_encl mv
  have nC := abs_nonneg C
  have e5 : (0 : ℝ) < 2 ^ 1074 := by positivity
  have n3 := abs_nonneg (m.V : ℝ)
  obtain ⟨kv, kw, hK⟩ := div_tt_real_abs nv nw mv R
  refine ⟨kv, kw, le_trans hK ?_⟩
  have hT : |(m.hi.toInt : ℝ)| + 4 * 2 ^ 1074 ≤ (1 / 2 ^ 106 / 1000) * (|C| ^ 3 / 2 ^ 1074) := by
    rw [show (1 / 2 ^ 106 / 1000 : ℝ) * (|C| ^ 3 / 2 ^ 1074) = (1 / 2 ^ 106 / 1000) * |C| ^ 3 / 2 ^ 1074 by ring,
      le_div_iff₀ e5]
    have cc1 : (2 : ℝ) ^ 773 * 2 ^ 773 ≤ |C| * |C| := mul_le_mul c1 c1 (by positivity) nC
    have h1 : |(m.hi.toInt : ℝ)| * 2 ^ 1074 ≤ (3104 / 1000) * (|C| * |C|) := by nlinarith
    have h2 : (|C| * |C|) * 2 ^ 773 ≤ |C| ^ 3 := by
      have := mul_le_mul_of_nonneg_left c1 (show (0 : ℝ) ≤ |C| * |C| by positivity)
      calc (|C| * |C|) * 2 ^ 773 ≤ (|C| * |C|) * |C| := this
        _ = |C| ^ 3 := by ring
    have h3 : (4 : ℝ) * 2 ^ 1074 * 2 ^ 1074 ≤ 2 ^ 604 * (2 ^ 773 * 2 ^ 773) := by norm_num
    have h4 : (1 / 2 ^ 106 / 1000 : ℝ) * 2 ^ 773 = 2 ^ 667 / 1000 := by norm_num
    have h5 : (3104 / 1000 : ℝ) + 2 ^ 604 ≤ 2 ^ 667 / 1000 := by norm_num
    have h6 : (0 : ℝ) ≤ |C| * |C| := by positivity
    have h7 : (1 / 2 ^ 106 / 1000 : ℝ) * ((|C| * |C|) * 2 ^ 773) ≤ (1 / 2 ^ 106 / 1000) * |C| ^ 3 :=
      mul_le_mul_of_nonneg_left h2 (by positivity)
    have h8 : (1 / 2 ^ 106 / 1000 : ℝ) * ((|C| * |C|) * 2 ^ 773) = (2 ^ 667 / 1000) * (|C| * |C|) := by
      rw [← h4]; ring
    nlinarith
  have n9 := abs_nonneg ((n.V : ℝ) * 2 ^ 1074)
  generalize |(n.V : ℝ) * 2 ^ 1074| = X at hT n9 ⊢
  generalize |C| ^ 3 / 2 ^ 1074 = Y at hT ⊢
  generalize |(m.hi.toInt : ℝ)| = Z at hT ⊢
  linarith only [hT, n9]

/-- the quotient when the numerator is non-zero and below `DivRange`: a normalised pair (`div_tt_any`) whose
contribution is negligible -/
theorem step_div_small {n m : TwoFloat} {C : ℝ} (nv : n.Valid) (nw : n.WF) (mv : m.Valid) (mw : m.WF)
    (c1 : 2 ^ 773 ≤ |C|)
    (em1 : (29 / 10) * (|C| * |C|) ≤ |(m.V : ℝ)| * 2 ^ 1074)
    (em2 : |(m.V : ℝ)| * 2 ^ 1074 ≤ (31 / 10) * (|C| * |C|))
    (hm0 : m.hi.toInt ≠ 0)
    (A_hi : |n.hi.toInt| ≤ (2 : Int) ^ 2090) (B_hi : |m.hi.toInt| ≤ (2 : Int) ^ 2090)
    (Q_hi : |n.hi.toInt * (unit : Int)| ≤ (2 : Int) ^ 2090 * |m.hi.toInt|)
    (hs : |n.hi.toInt| < 2 ^ 64 ∨ |n.hi.toInt * (unit : Int)| < 2 ^ 64 * |m.hi.toInt|) :
    (divTT n m).Valid ∧ (divTT n m).WF ∧
    |(n.V : ℝ) * 2 ^ 1074 - ((divTT n m).V : ℝ) * (m.V : ℝ)|
      ≤ 16 * (1 / 2 ^ 106) * |(n.V : ℝ) * 2 ^ 1074| + (1 / 2 ^ 106 / 1000) * (|C| ^ 3 / 2 ^ 1074) := by
  obtain ⟨nh1, nh2⟩ := hi_encl nv
  obtain ⟨mh1, mh2⟩ := hi_encl mv
  have nC := abs_nonneg C
  have e5 : (0 : ℝ) < 2 ^ 1074 := by positivity
  have cc1 : (2 : ℝ) ^ 773 * 2 ^ 773 ≤ |C| * |C| := mul_le_mul c1 c1 (by positivity) nC
  have n0 := abs_nonneg (n.hi.toInt : ℝ)
  have n1 := abs_nonneg (m.hi.toInt : ℝ)
  have n3 := abs_nonneg (m.V : ℝ)
  have n4 := abs_nonneg (n.V : ℝ)
  have e0 : (((unit : Nat) : Int) : ℝ) = 2 ^ 1074 := by
    rw [Int.cast_natCast, unit_real]
  -- the divisor is between `2^-1952` and `2^952` relative to the unit
  have hmlo : (2897 / 1000 : ℝ) * 2 ^ 472 ≤ |(m.hi.toInt : ℝ)| := by
    have e : (2 : ℝ) ^ 773 * 2 ^ 773 = 2 ^ 472 * 2 ^ 1074 := by norm_num
    have h1 : (2897 / 1000) * (2 ^ 472 * 2 ^ 1074) ≤ |(m.hi.toInt : ℝ)| * 2 ^ 1074 := by
      rw [← e]; nlinarith
    have : ((2897 / 1000 : ℝ) * 2 ^ 472) * 2 ^ 1074 ≤ |(m.hi.toInt : ℝ)| * 2 ^ 1074 := by linarith
    exact le_of_mul_le_mul_right this e5
  have hUB : (unit : Int) ≤ 2 ^ 2026 * |m.hi.toInt| := by
    have : (2 : ℝ) ^ 1074 ≤ 2 ^ 2026 * |(m.hi.toInt : ℝ)| := by
      have e : (2 : ℝ) ^ 1074 = 2 ^ 602 * 2 ^ 472 := by norm_num
      have e6 : (0 : ℝ) < 2 ^ 472 := by positivity
      have e7 : (2 : ℝ) ^ 602 ≤ 2 ^ 2026 := by norm_num
      rw [e]; nlinarith
    rw [← e0] at this
    exact_mod_cast this
  have hBU : |m.hi.toInt| ≤ 2 ^ 2026 * (unit : Int) := by
    have : (2 : Int) ^ 1074 ≤ (unit : Int) := by rw [unit_eq]; norm_cast
    omega
  obtain ⟨kv, kw, hk⟩ := div_tt_any nv nw mv mw hm0 hUB hBU A_hi B_hi Q_hi
  refine ⟨kv, kw, ?_⟩
  have hk' : 2 ^ 37 * |(n.V : ℝ) * 2 ^ 1074 - ((divTT n m).V : ℝ) * (m.V : ℝ)|
      ≤ |(n.V : ℝ) * 2 ^ 1074| + 2 ^ 92 * |(m.hi.toInt : ℝ)| + 2 ^ 48 * 2 ^ 1074 := by
    have : 2 ^ 37 * |(n.V : ℝ) * (((unit : Nat) : Int) : ℝ) - ((divTT n m).V : ℝ) * (m.V : ℝ)|
        ≤ |(n.V : ℝ) * (((unit : Nat) : Int) : ℝ)| + 2 ^ 92 * |(m.hi.toInt : ℝ)|
          + 2 ^ 48 * (((unit : Nat) : Int) : ℝ) := by
      exact_mod_cast hk
    rwa [e0] at this
  -- everything is negligible against `T`
  have hsr : |(n.hi.toInt : ℝ)| * 2 ^ 1074 ≤ 2 ^ 64 * 2 ^ 1074 + 2 ^ 64 * |(m.hi.toInt : ℝ)| := by
    rcases hs with h | h
    · have : |(n.hi.toInt : ℝ)| < 2 ^ 64 := by exact_mod_cast h
      nlinarith
    · have : |(n.hi.toInt : ℝ) * (((unit : Nat) : Int) : ℝ)| < 2 ^ 64 * |(m.hi.toInt : ℝ)| := by
        exact_mod_cast h
      rw [e0, abs_mul, abs_of_pos e5] at this
      nlinarith
  have hx : |(n.V : ℝ) * 2 ^ 1074| ≤ (1002 / 1000) * (2 ^ 64 * 2 ^ 1074 + 2 ^ 64 * |(m.hi.toInt : ℝ)|) := by
    rw [abs_mul, abs_of_pos e5]; nlinarith
  have hmU : |(m.hi.toInt : ℝ)| * 2 ^ 1074 ≤ (3104 / 1000) * (|C| * |C|) := by nlinarith
  have hT : 2 ^ 56 * |(m.hi.toInt : ℝ)| + 2 ^ 28 * 2 ^ 1074 ≤ (1 / 2 ^ 106 / 1000) * (|C| ^ 3 / 2 ^ 1074) := by
    rw [show (1 / 2 ^ 106 / 1000 : ℝ) * (|C| ^ 3 / 2 ^ 1074) = (1 / 2 ^ 106 / 1000) * |C| ^ 3 / 2 ^ 1074 by ring,
      le_div_iff₀ e5]
    have h2 : (|C| * |C|) * 2 ^ 773 ≤ |C| ^ 3 := by
      have := mul_le_mul_of_nonneg_left c1 (show (0 : ℝ) ≤ |C| * |C| by positivity)
      calc (|C| * |C|) * 2 ^ 773 ≤ (|C| * |C|) * |C| := this
        _ = |C| ^ 3 := by ring
    have h4 : (1 / 2 ^ 106 / 1000 : ℝ) * 2 ^ 773 = 2 ^ 667 / 1000 := by norm_num
    have h7 : (1 / 2 ^ 106 / 1000 : ℝ) * ((|C| * |C|) * 2 ^ 773) ≤ (1 / 2 ^ 106 / 1000) * |C| ^ 3 :=
      mul_le_mul_of_nonneg_left h2 (by positivity)
    have h8 : (1 / 2 ^ 106 / 1000 : ℝ) * ((|C| * |C|) * 2 ^ 773) = (2 ^ 667 / 1000) * (|C| * |C|) := by
      rw [← h4]; ring
    have h3 : (2 : ℝ) ^ 28 * 2 ^ 1074 * 2 ^ 1074 ≤ 2 ^ 630 * (2 ^ 773 * 2 ^ 773) := by norm_num
    have h5 : (2 : ℝ) ^ 630 + 2 ^ 56 * (3104 / 1000) ≤ 2 ^ 667 / 1000 := by norm_num
    have h6 : (0 : ℝ) ≤ |C| * |C| := by positivity
    nlinarith
  have n9 := abs_nonneg ((n.V : ℝ) * 2 ^ 1074)
  have hfin : |(n.V : ℝ) * 2 ^ 1074 - ((divTT n m).V : ℝ) * (m.V : ℝ)|
      ≤ 2 ^ 56 * |(m.hi.toInt : ℝ)| + 2 ^ 28 * 2 ^ 1074 := by
    generalize |(n.V : ℝ) * 2 ^ 1074 - ((divTT n m).V : ℝ) * (m.V : ℝ)| = G at hk' ⊢
    generalize |(n.V : ℝ) * 2 ^ 1074| = X at hk' hx
    generalize |(m.hi.toInt : ℝ)| = B' at hk' hx n1 ⊢
    have e11 : (0 : ℝ) < 2 ^ 37 := by positivity
    have : 2 ^ 37 * G ≤ 2 ^ 37 * (2 ^ 56 * B' + 2 ^ 28 * 2 ^ 1074) := by linarith only [hk', hx, n1]
    exact le_of_mul_le_mul_left this e11
  generalize |(n.V : ℝ) * 2 ^ 1074 - ((divTT n m).V : ℝ) * (m.V : ℝ)| = G at hfin ⊢
  generalize |(n.V : ℝ) * 2 ^ 1074| = X at n9 ⊢
  generalize |C| ^ 3 / 2 ^ 1074 = Y at hT ⊢
  generalize (2 : ℝ) ^ 56 * |(m.hi.toInt : ℝ)| + 2 ^ 28 * 2 ^ 1074 = W at hT hfin
  linarith only [hT, n9, hfin]

/-- **stage 3 of the Newton step: the quotient `k = n / m`** -/
theorem step_div {a n m : TwoFloat} {C : ℝ} (nv : n.Valid) (nw : n.WF) (mv : m.Valid) (mw : m.WF)
    (c1 : 2 ^ 773 ≤ |C|) (c2 : |C| ≤ 2 ^ 1375)
    (hC3 : |C| ^ 3 = |(a.V : ℝ)| * (2 ^ 1074) ^ 2) (a2 : |(a.V : ℝ)| ≤ (101 / 100) * 2 ^ 1974)
    (en : |(n.V : ℝ)| ≤ (22 / 10) * |(a.V : ℝ)|)
    (em1 : (29 / 10) * (|C| * |C|) ≤ |(m.V : ℝ)| * 2 ^ 1074)
    (em2 : |(m.V : ℝ)| * 2 ^ 1074 ≤ (31 / 10) * (|C| * |C|)) :
    (divTT n m).Valid ∧ (divTT n m).WF ∧
    |(n.V : ℝ) * 2 ^ 1074 - ((divTT n m).V : ℝ) * (m.V : ℝ)|
      ≤ 16 * (1 / 2 ^ 106) * |(n.V : ℝ) * 2 ^ 1074| + (1 / 2 ^ 106 / 1000) * (|C| ^ 3 / 2 ^ 1074) := by
  obtain ⟨hm0, A_hi, B_hi, Q_hi⟩ := step_div_ranges nv mv c1 c2 hC3 a2 en em1 em2
  by_cases h0 : n.V = 0
  · obtain ⟨kv, kw, k0⟩ := div_zero_num nv nw mv mw h0 hm0
    refine ⟨kv, kw, ?_⟩
    rw [h0, k0]; simp; positivity
  by_cases hR : 2 ^ 64 ≤ |n.hi.toInt| ∧ 2 ^ 64 * |m.hi.toInt| ≤ |n.hi.toInt * (unit : Int)|
  · exact step_div_range nv nw mv c1 em2 ⟨hR.1, A_hi, B_hi, hR.2, Q_hi⟩
  · have hs : |n.hi.toInt| < 2 ^ 64 ∨ |n.hi.toInt * (unit : Int)| < 2 ^ 64 * |m.hi.toInt| := by
      by_contra hc
      rw [not_or, not_lt, not_lt] at hc
      exact hR hc
    exact step_div_small nv nw mv mw c1 em1 em2 hm0 A_hi B_hi Q_hi hs

/-- the Newton step `x − (x²·x − a)/(3·x²)` of `TwoFloat::cbrt`, as computed by the crate -/
def cbrtStep (x a : TwoFloat) : TwoFloat :=
  subTT x (divTT (subTT (mulTT (mulTT x x) x) a) (mulFT (f64lit 0x4008000000000000) (mulTT x x)))

/-- the quotient of the Newton step is at most `0.8·|C|` in magnitude -/
theorem k_bound {a n m k : TwoFloat} {C : ℝ} (kv : k.Valid)
    (c1 : 2 ^ 773 ≤ |C|) (c2 : |C| ≤ 2 ^ 1375)
    (hC3 : |C| ^ 3 = |(a.V : ℝ)| * (2 ^ 1074) ^ 2)
    (en : |(n.V : ℝ)| ≤ (22 / 10) * |(a.V : ℝ)|)
    (em1 : (29 / 10) * (|C| * |C|) ≤ |(m.V : ℝ)| * 2 ^ 1074)
    (hK : |(n.V : ℝ) * 2 ^ 1074 - (k.V : ℝ) * (m.V : ℝ)|
      ≤ 16 * (1 / 2 ^ 106) * |(n.V : ℝ) * 2 ^ 1074| + (1 / 2 ^ 106 / 1000) * (|C| ^ 3 / 2 ^ 1074)) :
    |k.hi.toInt| < (2 : Int) ^ 2094 := by
  obtain ⟨-, kh2⟩ := hi_encl kv
  have e5 : (0 : ℝ) < 2 ^ 1074 := by positivity
  have nC := abs_nonneg C
  have hkm : |(k.V : ℝ)| * |(m.V : ℝ)| ≤ (1001 / 1000) * (|(n.V : ℝ)| * 2 ^ 1074)
      + (1 / 1000) * (|C| ^ 3 / 2 ^ 1074) := by
    have t1 := CbrtReal.abs_le_of_sub (a := (k.V : ℝ) * (m.V : ℝ)) (b := (n.V : ℝ) * 2 ^ 1074)
      (r := 16 * (1 / 2 ^ 106) * |(n.V : ℝ) * 2 ^ 1074| + (1 / 2 ^ 106 / 1000) * (|C| ^ 3 / 2 ^ 1074))
      (by rw [abs_sub_comm]; exact hK)
    rw [abs_mul, abs_mul, abs_of_pos e5] at t1
    have n0 : 0 ≤ |(n.V : ℝ)| * 2 ^ 1074 := by positivity
    have n1 : 0 ≤ |C| ^ 3 / 2 ^ 1074 := by positivity
    have h1 : (16 : ℝ) * (1 / 2 ^ 106) ≤ 1 / 1000 := by norm_num
    have h2 : (1 / 2 ^ 106 / 1000 : ℝ) ≤ 1 / 1000 := by norm_num
    nlinarith
  have hC3' : |C| * |C| * |C| = |(a.V : ℝ)| * (2 ^ 1074 * 2 ^ 1074) := by
    have : |C| * |C| * |C| = |C| ^ 3 := by ring
    rw [this, hC3]; ring
  have cc0 : (0 : ℝ) < |C| * |C| := by
    have : (0 : ℝ) < 2 ^ 773 := by positivity
    have : 0 < |C| := by linarith
    positivity
  have hk : |(k.V : ℝ)| ≤ (8 / 10) * |C| := by
    have h1 : (|(k.V : ℝ)| * |(m.V : ℝ)|) * 2 ^ 1074 ≤ (2204 / 1000) * (|C| * |C| * |C|) := by
      have := mul_le_mul_of_nonneg_right hkm e5.le
      have e9 : (1 / 1000 : ℝ) * (|C| ^ 3 / 2 ^ 1074) * 2 ^ 1074 = (1 / 1000) * (|C| * |C| * |C|) := by
        field_simp
      have n0 := abs_nonneg (a.V : ℝ)
      have e10 : (1001 / 1000 : ℝ) * (|(n.V : ℝ)| * 2 ^ 1074) * 2 ^ 1074
          ≤ (2203 / 1000) * (|(a.V : ℝ)| * (2 ^ 1074 * 2 ^ 1074)) := by nlinarith
      rw [← hC3'] at e10
      linarith
    have h2 : |(k.V : ℝ)| * ((29 / 10) * (|C| * |C|)) ≤ |(k.V : ℝ)| * (|(m.V : ℝ)| * 2 ^ 1074) :=
      mul_le_mul_of_nonneg_left em1 (abs_nonneg _)
    have h3 : (|(k.V : ℝ)| * (29 / 10)) * (|C| * |C|) ≤ ((2204 / 1000) * |C|) * (|C| * |C|) := by nlinarith
    have := le_of_mul_le_mul_right h3 cc0
    linarith
  have : |(k.hi.toInt : ℝ)| < (2 : ℝ) ^ 2094 := by
    have e : (2 : ℝ) ^ 2094 = 2 ^ 719 * 2 ^ 1375 := by norm_num
    have e6 : (0 : ℝ) < 2 ^ 1375 := by positivity
    rw [e]; nlinarith
  exact_mod_cast this

theorem eta3_le : (301 / 100 : ℝ) * (1 / 2 ^ 106) ≤ 1 / 2 ^ 50 := by norm_num
theorem eta2_le : (2 : ℝ) * (1 / 2 ^ 106) ≤ 1 / 2 ^ 50 := by norm_num

/-- **one Newton step of `cbrt` in double-word arithmetic**: from relative error `E ≤ 2^-50` to
`1.001·E² + 6.5·2^-106`, for `|a.hi| ∈ [2^-900, 2^900]`. -/
theorem cbrt_step {x a : TwoFloat} {C E : ℝ} (hvx : x.Valid) (hwx : x.WF) (hva : a.Valid) (hwa : a.WF)
    (ha1 : 2 ^ 174 ≤ |a.hi.toInt|) (ha2 : |a.hi.toInt| ≤ 2 ^ 1974)
    (hCa : C ^ 3 = (a.V : ℝ) * (2 ^ 1074) ^ 2) (hE0 : 0 ≤ E) (hE : E ≤ 1 / 2 ^ 50)
    (hx : |(x.V : ℝ) - C| ≤ E * |C|) :
    (cbrtStep x a).Valid ∧ (cbrtStep x a).WF ∧
    |((cbrtStep x a).V : ℝ) - C| ≤ ((1001 / 1000) * E ^ 2 + (13 / 2) * (1 / 2 ^ 106)) * |C| := by
  obtain ⟨a1, a2, hC3, c1, c2⟩ := C_range hva ha1 ha2 hCa
  obtain ⟨x1, x2, x3, x4⟩ := x_encl hvx hE hx
  obtain ⟨pv, pw, qv, qw, hP, hQ⟩ := step_products hvx hwx hva ha1 ha2 hCa hE hx
  have nC := abs_nonneg C
  have e5 : (0 : ℝ) < 2 ^ 1074 := by positivity
  have hC0 : C ≠ 0 := by
    intro h; rw [h, abs_zero] at c1
    have : (0 : ℝ) < 2 ^ 773 := by positivity
    linarith
  obtain ⟨p1, p2⟩ := rel_encl eta_le hP
  obtain ⟨q1, q2⟩ := rel_encl eta_le hQ
  rw [abs_mul, abs_mul, abs_of_pos e5] at p1 p2 q1 q2
  obtain ⟨ep1, ep2, eq1, eq2⟩ := encl_pq (C := C) rfl hC3 x1 x2 p1 p2 q1 q2 (abs_nonneg _) (abs_nonneg _)
  obtain ⟨nv, nw, mv, mw, hN, hM⟩ := step_num_den hva hwa pv pw qv qw ha2 c1 c2 ep1 ep2 eq2 a2
  -- enclosures of numerator and denominator
  have en : |((subTT (mulTT (mulTT x x) x) a).V : ℝ)| ≤ (22 / 10) * |(a.V : ℝ)| := by
    obtain ⟨-, n2⟩ := rel_encl eta3_le hN
    have := abs_sub ((mulTT (mulTT x x) x).V : ℝ) (a.V : ℝ)
    have n0 := abs_nonneg (a.V : ℝ)
    linarith
  obtain ⟨m1, m2⟩ := rel_encl eta2_le hM
  rw [abs_mul, abs_mul, abs_mul, abs_of_pos e5, abs_of_pos (by norm_num : (0 : ℝ) < 3)] at m1 m2
  have em1 : (29 / 10) * (|C| * |C|) ≤ |((mulFT (f64lit 0x4008000000000000) (mulTT x x)).V : ℝ)| * 2 ^ 1074 := by
    have : (0 : ℝ) ≤ |C| * |C| := by positivity
    linarith
  have em2 : |((mulFT (f64lit 0x4008000000000000) (mulTT x x)).V : ℝ)| * 2 ^ 1074 ≤ (31 / 10) * (|C| * |C|) := by
    have : (0 : ℝ) ≤ |C| * |C| := by positivity
    linarith
  obtain ⟨kv, kw, hK⟩ := step_div nv nw mv mw c1 c2 hC3 a2 en em1 em2
  -- the final subtraction
  have bx : |x.hi.toInt| < (2 : Int) ^ 2094 := by
    have : |(x.hi.toInt : ℝ)| < (2 : ℝ) ^ 2094 := by
      have e : (2 : ℝ) ^ 2094 = 2 ^ 719 * 2 ^ 1375 := by norm_num
      have e6 : (0 : ℝ) < 2 ^ 1375 := by positivity
      rw [e]; nlinarith
    exact_mod_cast this
  have bk : |(divTT (subTT (mulTT (mulTT x x) x) a) (mulFT (f64lit 0x4008000000000000) (mulTT x x))).hi.toInt|
      < (2 : Int) ^ 2094 := by
    exact k_bound kv c1 c2 hC3 en em1 hK
  obtain ⟨rv, rw', hX'⟩ := sub_tt_real hvx hwx kv kw bx bk
  refine ⟨rv, rw', ?_⟩
  exact CbrtReal.newton_scaled (η := 1 / 2 ^ 106) (τ := 1 / 2 ^ 106 / 1000) (U := 2 ^ 1074) (by positivity)
    (by norm_num) (by positivity) (le_refl _) hE0 hE e5 hC0 hCa hx hP hQ hN hM hK hX'


theorem maxFin_lt : maxFin < 2 ^ 2098 := by
  rw [maxFin_eq]
  calc (2 ^ 53 - 1) * 2 ^ 2045 < 2 ^ 53 * 2 ^ 2045 :=
        Nat.mul_lt_mul_of_pos_right (by norm_num) (Nat.two_pow_pos _)
    _ = 2 ^ 2098 := by rw [← Nat.pow_add]

/-- real-number core of the initial approximation: `R` within half an ulp `h ≤ 2^-53 R` of the cube root of `m`,
`|C|³` within `2^-53` of `m` -/
theorem init_real {R h m c : ℝ} (hR : 0 < R) (hh0 : 0 < h) (hh : 2 ^ 53 * h ≤ R) (hc0 : 0 ≤ c)
    (h1 : (R - h) ^ 3 ≤ m) (h2 : m ≤ (R + h) ^ 3)
    (c1 : (1 - 1 / 2 ^ 53) * m ≤ c ^ 3) (c2 : c ^ 3 ≤ (1 + 1 / 2 ^ 53) * m) :
    |R - c| ≤ (151 / 100) * (1 / 2 ^ 53) * c := by
  have hRh : 0 ≤ R - h := by nlinarith
  have hm0 : 0 ≤ m := le_trans (by positivity) h1
  have up : c ≤ (1 + 1 / 2 ^ 53 / 3) * (R + h) := by
    have e : (1 + 1 / 2 ^ 53 : ℝ) ≤ (1 + 1 / 2 ^ 53 / 3) ^ 3 := by norm_num
    have : c ^ 3 ≤ ((1 + 1 / 2 ^ 53 / 3) * (R + h)) ^ 3 := by
      rw [mul_pow]
      calc c ^ 3 ≤ (1 + 1 / 2 ^ 53) * m := c2
        _ ≤ (1 + 1 / 2 ^ 53) * (R + h) ^ 3 := mul_le_mul_of_nonneg_left h2 (by norm_num)
        _ ≤ (1 + 1 / 2 ^ 53 / 3) ^ 3 * (R + h) ^ 3 := mul_le_mul_of_nonneg_right e (by positivity)
    exact (pow_le_pow_iff_left₀ hc0 (by positivity) (by norm_num)).1 this
  have lo : (1 - 1 / 2 ^ 53 / 2) * (R - h) ≤ c := by
    have e : ((1 - 1 / 2 ^ 53 / 2) ^ 3 : ℝ) ≤ (1 - 1 / 2 ^ 53) := by norm_num
    have : ((1 - 1 / 2 ^ 53 / 2) * (R - h)) ^ 3 ≤ c ^ 3 := by
      rw [mul_pow]
      calc (1 - 1 / 2 ^ 53 / 2) ^ 3 * (R - h) ^ 3 ≤ (1 - 1 / 2 ^ 53) * (R - h) ^ 3 :=
            mul_le_mul_of_nonneg_right e (by positivity)
        _ ≤ (1 - 1 / 2 ^ 53) * m := mul_le_mul_of_nonneg_left h1 (by norm_num)
        _ ≤ c ^ 3 := c1
    have h0 : (0 : ℝ) ≤ 1 - 1 / 2 ^ 53 / 2 := by norm_num
    exact (pow_le_pow_iff_left₀ (mul_nonneg h0 hRh) hc0 (by norm_num)).1 this
  have hh' : h ≤ (1 / 2 ^ 53) * R := by
    have : (0 : ℝ) < 2 ^ 53 := by positivity
    rw [show (1 / 2 ^ 53 : ℝ) * R = R / 2 ^ 53 by ring, le_div_iff₀ this]; linarith
  rw [abs_le]
  constructor <;> nlinarith


/-- **the initial approximation `x0 = (cbrt(a.hi), 0)`**: a valid pair within `1.51·2^-53` of the cube root -/
theorem cbrt_init {a : TwoFloat} {C : ℝ} (hva : a.Valid) (hwa : a.WF) (ha0 : a.hi.toInt ≠ 0)
    (hCa : C ^ 3 = (a.V : ℝ) * (2 ^ 1074) ^ 2) :
    (convert.impl_From_f64_for_TwoFloat.from (F64.cbrt a.hi)).Valid ∧
    (convert.impl_From_f64_for_TwoFloat.from (F64.cbrt a.hi)).WF ∧
    |((convert.impl_From_f64_for_TwoFloat.from (F64.cbrt a.hi)).V : ℝ) - C|
      ≤ (151 / 100) * (1 / 2 ^ 53) * |C| := by
  obtain ⟨s, n, hsn⟩ := is_finite_iff.mp hva.1
  have hn : 0 < n := by
    rcases Nat.eq_zero_or_pos n with h | h
    · exfalso; apply ha0; rw [hsn, h]; exact toInt_zero s
    · exact h
  obtain ⟨q', e0, h0, q1, q2, m3, m1, m2⟩ := cbrt_spec s n hn
  have hnmax : n ≤ maxFin := by
    have := hwa.1; rw [hsn] at this; exact this.2
  -- the result is a finite well-formed double
  have hRlt : q' * 2 ^ (e0 + 1) < 2 ^ 1417 := by
    have hm : n * 2 ^ 2148 < 2 ^ 4246 := by
      calc n * 2 ^ 2148 < 2 ^ 2098 * 2 ^ 2148 :=
            Nat.mul_lt_mul_of_pos_right (lt_of_le_of_lt hnmax maxFin_lt) (Nat.two_pow_pos _)
        _ = 2 ^ 4246 := by rw [← Nat.pow_add]
    have h1 : (q' * 2 ^ e0) ^ 3 ≤ n * 2 ^ 2148 :=
      le_trans (Nat.pow_le_pow_left (Nat.mul_le_mul_right _ (by omega)) 3) m1
    have h2 : q' * 2 ^ e0 < 2 ^ 1416 := by
      by_contra hc
      have := Nat.pow_le_pow_left (not_lt.1 hc) 3
      have e : ((2 : Nat) ^ 1416) ^ 3 = 2 ^ 4248 := by rw [← pow_mul]
      have : (2 : Nat) ^ 4246 < 2 ^ 4248 := Nat.pow_lt_pow_right (by norm_num) (by norm_num)
      omega
    calc q' * 2 ^ (e0 + 1) = 2 * (q' * 2 ^ e0) := by rw [pow_succ]; ring
      _ < 2 * 2 ^ 1416 := by omega
      _ = 2 ^ 1417 := by rw [← pow_succ']
  have hRw : (fin s (q' * 2 ^ (e0 + 1))).WF :=
    ⟨rep_of_mul_pow _ q2, le_trans (le_of_lt hRlt)
      (le_trans (Nat.pow_le_pow_right (by norm_num) (by norm_num)) two_pow_2097_le_maxFin)⟩
  rw [hsn, h0, from_eq]
  obtain ⟨pV, pValid, pWF⟩ := pair_zero_spec (x := fin s (q' * 2 ^ (e0 + 1))) rfl hRw
  refine ⟨pValid, pWF, ?_⟩
  rw [pV]
  -- real statement
  have hV := hi_real hva
  rw [hsn] at hV
  have habs : |(((fin s n).toInt : Int) : ℝ)| = (n : ℝ) := by
    rw [← Int.cast_abs, abs_toInt_fin]; simp
  rw [habs] at hV
  have hC3 : |C| ^ 3 = |(a.V : ℝ)| * (2 ^ 1074) ^ 2 := by
    rw [← abs_pow, hCa, abs_mul, abs_of_pos (by positivity : (0 : ℝ) < (2 ^ 1074) ^ 2)]
  have e2148 : ((2 : ℝ) ^ 1074) ^ 2 = 2 ^ 2148 := by rw [← pow_mul]
  have r1 : (((2 * q' - 1 : ℕ) : ℝ) * 2 ^ e0) ^ 3 ≤ (n : ℝ) * 2 ^ 2148 := by exact_mod_cast m1
  have r2 : (n : ℝ) * 2 ^ 2148 ≤ (((2 * q' + 1 : ℕ) : ℝ) * 2 ^ e0) ^ 3 := by exact_mod_cast m2
  have e1 : ((2 * q' - 1 : ℕ) : ℝ) = 2 * (q' : ℝ) - 1 := by
    have : 1 ≤ 2 * q' := by omega
    push_cast [Nat.cast_sub this]; ring
  have e3 : ((2 * q' + 1 : ℕ) : ℝ) = 2 * (q' : ℝ) + 1 := by push_cast; ring
  rw [e1] at r1; rw [e3] at r2
  have hq52 : (2 : ℝ) ^ 52 ≤ (q' : ℝ) := by exact_mod_cast q1
  have hF : (0 : ℝ) < 2 ^ e0 := by positivity
  have hRe : ((q' * 2 ^ (e0 + 1) : ℕ) : ℝ) = (q' : ℝ) * (2 ^ e0 * 2) := by push_cast; rw [pow_succ]
  have key := init_real (R := (q' : ℝ) * (2 ^ e0 * 2)) (h := 2 ^ e0) (m := (n : ℝ) * 2 ^ 2148) (c := |C|)
    (by positivity) hF (by nlinarith) (abs_nonneg C)
    (by rw [show (q' : ℝ) * (2 ^ e0 * 2) - 2 ^ e0 = (2 * (q' : ℝ) - 1) * 2 ^ e0 by ring]; exact r1)
    (by rw [show (q' : ℝ) * (2 ^ e0 * 2) + 2 ^ e0 = (2 * (q' : ℝ) + 1) * 2 ^ e0 by ring]; exact r2)
    (by rw [hC3, e2148]
        have := mul_le_mul_of_nonneg_right hV.1 (show (0 : ℝ) ≤ 2 ^ 2148 by positivity)
        linarith)
    (by rw [hC3, e2148]
        have := mul_le_mul_of_nonneg_right hV.2 (show (0 : ℝ) ≤ 2 ^ 2148 by positivity)
        linarith)
  -- signs
  cases s with
  | false =>
    have hpos : 0 < a.hi.toInt := by rw [hsn]; simp [toInt]; exact hn
    have hVpos : (0 : ℝ) < (a.V : ℝ) := by exact_mod_cast hva.V_pos_of_hi_pos hpos
    have hCpos : 0 < C := by
      by_contra hc
      have : C ^ 3 ≤ 0 := by
        have h3 : C ^ 3 = C * C ^ 2 := by ring
        rw [h3]; exact mul_nonpos_of_nonpos_of_nonneg (not_lt.1 hc) (sq_nonneg C)
      rw [hCa] at this
      have : (0 : ℝ) < (a.V : ℝ) * (2 ^ 1074) ^ 2 := by positivity
      linarith
    rw [abs_of_pos hCpos] at key ⊢
    have e : (((fin false (q' * 2 ^ (e0 + 1))).toInt : Int) : ℝ) = (q' : ℝ) * (2 ^ e0 * 2) := by
      rw [← hRe]; simp [toInt]
    rw [e]; exact key
  | true =>
    have hneg : a.hi.toInt < 0 := by rw [hsn]; simp [toInt]; exact hn
    have hVneg : (a.V : ℝ) < 0 := by exact_mod_cast hva.V_neg_of_hi_neg hneg
    have hCneg : C < 0 := by
      by_contra hc
      have : 0 ≤ C ^ 3 := pow_nonneg (not_lt.1 hc) 3
      rw [hCa] at this
      have : (a.V : ℝ) * (2 ^ 1074) ^ 2 < 0 := mul_neg_of_neg_of_pos hVneg (by positivity)
      linarith
    rw [abs_of_neg hCneg] at key ⊢
    have e : (((fin true (q' * 2 ^ (e0 + 1))).toInt : Int) : ℝ) = -((q' : ℝ) * (2 ^ e0 * 2)) := by
      rw [← hRe]; simp [toInt]
    rw [e]
    have e' : -((q' : ℝ) * (2 ^ e0 * 2)) - C = -((q' : ℝ) * (2 ^ e0 * 2) - -C) := by ring
    rw [e', abs_neg]; exact key


/-- `TwoFloat::cbrt` on a non-zero high word: two Newton steps from the correctly rounded `f64` cube root -/
theorem cbrt_eq (x : TwoFloat) (hf : x.hi.is_finite = true) (h0 : x.hi.toInt ≠ 0) :
    TwoFloat.cbrt x
      = cbrtStep (cbrtStep (convert.impl_From_f64_for_TwoFloat.from (F64.cbrt x.hi)) x) x := by
  have heq : (x.hi ==. f64lit 0) = false := by
    rw [req_eq, F64.f64lit_zero, Bool.eq_false_iff]
    intro h
    exact h0 ((eq_zero_iff hf).1 h)
  unfold TwoFloat.cbrt
  rw [if_neg (by rw [heq]; simp)]
  rfl

/-- every real has a real cube root -/
theorem exists_cbrt (y : ℝ) : ∃ C : ℝ, C ^ 3 = y := by
  rcases le_or_gt 0 y with h | h
  · exact ⟨y ^ (((3 : ℕ) : ℝ)⁻¹), Real.rpow_inv_natCast_pow h (by norm_num)⟩
  · refine ⟨-((-y) ^ (((3 : ℕ) : ℝ)⁻¹)), ?_⟩
    have := Real.rpow_inv_natCast_pow (x := -y) (n := 3) (by linarith) (by norm_num)
    rw [Odd.neg_pow (by decide), this, _root_.neg_neg]

/-- **`TwoFloat::cbrt`, value level**: for every valid, well-formed `x` with `|x.hi| ∈ [2^-900, 2^900]` (both signs) the
result is a valid well-formed pair within `7·2^-106` (relative) of the real cube root; in scaled units:
`C³ = x.V·2^2148`, `|R − C| ≤ 7·2^-106·|C|`. -/
theorem cbrt_val {x : TwoFloat} (hv : x.Valid) (hw : x.WF)
    (hlo : 2 ^ 174 ≤ |x.hi.toInt|) (hhi : |x.hi.toInt| ≤ 2 ^ 1974) :
    (TwoFloat.cbrt x).Valid ∧ (TwoFloat.cbrt x).WF ∧
    ∃ C : ℝ, C ^ 3 = (x.V : ℝ) * (2 ^ 1074) ^ 2 ∧
      2 ^ 106 * |((TwoFloat.cbrt x).V : ℝ) - C| ≤ 7 * |C| := by
  have h0 : x.hi.toInt ≠ 0 := by
    intro h; rw [h, abs_zero] at hlo
    have : (0 : Int) < 2 ^ 174 := by positivity
    omega
  obtain ⟨C, hC⟩ := exists_cbrt ((x.V : ℝ) * (2 ^ 1074) ^ 2)
  obtain ⟨v0, w0, e0⟩ := cbrt_init hv hw h0 hC
  have hE0 : (151 / 100 : ℝ) * (1 / 2 ^ 53) ≤ 1 / 2 ^ 50 := by norm_num
  obtain ⟨v1, w1, e1⟩ := cbrt_step v0 w0 hv hw hlo hhi hC (by positivity) hE0 e0
  have hE1 : ((1001 / 1000 : ℝ) * ((151 / 100) * (1 / 2 ^ 53)) ^ 2 + (13 / 2) * (1 / 2 ^ 106)) ≤ 9 * (1 / 2 ^ 106) := by
    norm_num
  have e1' : |((cbrtStep (convert.impl_From_f64_for_TwoFloat.from (F64.cbrt x.hi)) x).V : ℝ) - C|
      ≤ (9 * (1 / 2 ^ 106)) * |C| := le_trans e1 (mul_le_mul_of_nonneg_right hE1 (abs_nonneg C))
  obtain ⟨v2, w2, e2⟩ := cbrt_step v1 w1 hv hw hlo hhi hC (by positivity) (by norm_num) e1'
  rw [cbrt_eq x hv.1 h0]
  refine ⟨v2, w2, C, hC, ?_⟩
  have hE2 : ((1001 / 1000 : ℝ) * (9 * (1 / 2 ^ 106)) ^ 2 + (13 / 2) * (1 / 2 ^ 106)) ≤ 7 / 2 ^ 106 := by
    norm_num
  have := le_trans e2 (mul_le_mul_of_nonneg_right hE2 (abs_nonneg C))
  have hp : (0 : ℝ) < 2 ^ 106 := by positivity
  rw [show (7 : ℝ) / 2 ^ 106 * |C| = 7 * |C| / 2 ^ 106 by ring, le_div_iff₀ hp] at this
  linarith

/-- the real-number statement `|R − C| ≤ 7·2^-106·|C|`, `C³ = V·U²`, as a root-free integer inequality on cubes
(`(1 − 7u²)³·|v| ≤ |r|³ ≤ (1 + 7u²)³·|v|`), together with the sign of the result -/
theorem cubes_of_real {R V : Int} {C : ℝ} (hC : C ^ 3 = (V : ℝ) * (2 ^ 1074) ^ 2)
    (hb : 2 ^ 106 * |(R : ℝ) - C| ≤ 7 * |C|) :
    (2 ^ 106 - 7) ^ 3 * (|V| * (unit : Int) ^ 2) ≤ (2 ^ 106 * |R|) ^ 3 ∧
    (2 ^ 106 * |R|) ^ 3 ≤ (2 ^ 106 + 7) ^ 3 * (|V| * (unit : Int) ^ 2) ∧
    (0 < V → 0 < R) ∧ (V < 0 → R < 0) := by
  have hC3 : |C| ^ 3 = |(V : ℝ)| * (2 ^ 1074) ^ 2 := by
    rw [← abs_pow, hC, abs_mul, abs_of_pos (by positivity : (0 : ℝ) < (2 ^ 1074) ^ 2)]
  have t := abs_abs_sub_abs_le_abs_sub (R : ℝ) C
  obtain ⟨t1, t2⟩ := abs_le.1 t
  have nC := abs_nonneg C
  have nR := abs_nonneg (R : ℝ)
  have l1 : (2 ^ 106 - 7) * |C| ≤ 2 ^ 106 * |(R : ℝ)| := by nlinarith
  have l2 : 2 ^ 106 * |(R : ℝ)| ≤ (2 ^ 106 + 7) * |C| := by nlinarith
  have p1 := pow_le_pow_left₀ (mul_nonneg (by norm_num) nC) l1 3
  have p2 := pow_le_pow_left₀ (mul_nonneg (by positivity) nR) l2 3
  have e1 : (((2 : ℝ) ^ 106 - 7) * |C|) ^ 3 = (2 ^ 106 - 7) ^ 3 * (|(V : ℝ)| * (2 ^ 1074) ^ 2) := by
    rw [mul_pow, hC3]
  have e2 : (((2 : ℝ) ^ 106 + 7) * |C|) ^ 3 = (2 ^ 106 + 7) ^ 3 * (|(V : ℝ)| * (2 ^ 1074) ^ 2) := by
    rw [mul_pow, hC3]
  rw [e1] at p1
  rw [e2] at p2
  rw [← unit_real] at p1 p2
  refine ⟨by exact_mod_cast p1, by exact_mod_cast p2, ?_, ?_⟩
  · intro hV
    have hVr : (0 : ℝ) < (V : ℝ) := by exact_mod_cast hV
    have hCpos : 0 < C := by
      by_contra hc
      have : C ^ 3 ≤ 0 := by
        have h3 : C ^ 3 = C * C ^ 2 := by ring
        rw [h3]; exact mul_nonpos_of_nonpos_of_nonneg (not_lt.1 hc) (sq_nonneg C)
      rw [hC] at this
      have : (0 : ℝ) < (V : ℝ) * (2 ^ 1074) ^ 2 := by positivity
      linarith
    rw [abs_of_pos hCpos] at hb
    have := (abs_le.1 (show |(R : ℝ) - C| ≤ (7 / 2 ^ 106) * C by
      rw [show (7 : ℝ) / 2 ^ 106 * C = 7 * C / 2 ^ 106 by ring, le_div_iff₀ (by positivity)]; linarith)).1
    have h7 : (7 : ℝ) / 2 ^ 106 * C ≤ (1 / 2) * C := by nlinarith [show (7 : ℝ) / 2 ^ 106 ≤ 1 / 2 by norm_num]
    have : (0 : ℝ) < (R : ℝ) := by linarith
    exact_mod_cast this
  · intro hV
    have hVr : (V : ℝ) < 0 := by exact_mod_cast hV
    have hCneg : C < 0 := by
      by_contra hc
      have : 0 ≤ C ^ 3 := pow_nonneg (not_lt.1 hc) 3
      rw [hC] at this
      have : (V : ℝ) * (2 ^ 1074) ^ 2 < 0 := mul_neg_of_neg_of_pos hVr (by positivity)
      linarith
    rw [abs_of_neg hCneg] at hb
    have := (abs_le.1 (show |(R : ℝ) - C| ≤ (7 / 2 ^ 106) * (-C) by
      rw [show (7 : ℝ) / 2 ^ 106 * (-C) = 7 * (-C) / 2 ^ 106 by ring, le_div_iff₀ (by positivity)]; linarith)).2
    have h7 : (7 : ℝ) / 2 ^ 106 * (-C) ≤ (1 / 2) * (-C) := by
      nlinarith [show (7 : ℝ) / 2 ^ 106 ≤ 1 / 2 by norm_num]
    have : (R : ℝ) < 0 := by linarith
    exact_mod_cast this

end CbrtBound
